/-
  Property C12, second part — several results per call, `trace_call`, selective
  inlining, `tag_all_calls_to_be_inlined`.  Model: `PtModel.CallsMulti`; helper
  lemmas: `CallsMultiLemmas`.  Property theorems + non-vacuity examples only.

  Everything holds for every value type `V`, every interpretation `interp` of the
  opaque array operations, every `undef`, every nesting depth of calls (in
  function bodies, in bindings, a call result as argument of another call), any
  number of parameters and results.
-/
import PtProofs.CallsMultiLemmas
namespace Pt
namespace CallsM

open Calls (lookup posName kwName)

section
variable {V : Type} (interp : String → List V → V) (undef : V)

/-! ## (1) several results: projection, tuple and dict conventions -/

/-- the value of result `k` of a call = the value of the return expression named
    `k` in the environment that binds each parameter to the value of its argument -/
theorem call_result_projection (k : String) (tg : Bool) (ps : List String) (rets bs : Binds)
    (env : String → V) :
    denote interp undef env (.result k tg ps rets bs)
      = match lookup rets k with
        | some r => denote interp undef (callEnv undef ps (denoteBinds interp undef env bs)) r
        | none => undef := by
  simp only [denote]
  exact denoteRet_eq interp undef _ rets k

/-- `_i` names the `i`-th output, for every arity (there is no bound: `_10` is the
    eleventh, not the third) -/
theorem tuple_names_positional (outs : List Term) (i : Nat) :
    lookup (tupleReturns outs) (tupleName i) = outs[i]? := by
  have := lookup_tupleReturnsFrom outs 0 i
  simpa [tupleReturns] using this

theorem tuple_return_names (outs : List Term) :
    (tupleReturns outs).map (·.1) = (List.range outs.length).map tupleName := by
  simp [tupleReturns, tupleReturnsFrom_keys, List.range_eq_range']

/-- what `FunctionDefinition.__call__` hands back for a tuple-returning function:
    as many components as outputs, the `i`-th being the result named `_i`, whose
    value is the value of the `i`-th output expression -/
theorem tuple_unpack_positional (tg : Bool) (ps : List String) (outs : List Term) (bs : Binds)
    (env : String → V) (i : Nat) (hi : i < outs.length) :
    (tupleUnpack tg ps (tupleReturns outs) bs).length = outs.length
    ∧ (tupleUnpack tg ps (tupleReturns outs) bs)[i]?
        = some (.result (tupleName i) tg ps (tupleReturns outs) bs)
    ∧ denote interp undef env (.result (tupleName i) tg ps (tupleReturns outs) bs)
        = denote interp undef (callEnv undef ps (denoteBinds interp undef env bs)) outs[i] := by
  have hl : (tupleReturns outs).length = outs.length := tupleReturnsFrom_length outs 0
  refine ⟨by simp [tupleUnpack, hl], ?_, ?_⟩
  · simp [tupleUnpack, hl, hi]
  · rw [call_result_projection, tuple_names_positional]
    simp [hi]

/-- dict convention: same keys in the same order, each bound to its own projection -/
theorem dict_unpack (tg : Bool) (ps : List String) (rets bs : Binds) :
    (dictUnpack tg ps rets bs).map (·.1) = rets.map (·.1)
    ∧ ∀ kv ∈ dictUnpack tg ps rets bs, kv.2 = .result kv.1 tg ps rets bs := by
  refine ⟨by simp [dictUnpack, List.map_map, Function.comp_def], ?_⟩
  intro kv h
  simp only [dictUnpack, List.mem_map] at h
  obtain ⟨a, _, rfl⟩ := h
  rfl

/-- single-array convention -/
theorem array_unpack (tg : Bool) (ps : List String) (out : Term) (bs : Binds) (env : String → V) :
    denote interp undef env (arrayUnpack tg ps out bs)
      = denote interp undef (callEnv undef ps (denoteBinds interp undef env bs)) out := by
  simp [arrayUnpack, denote, denoteRet]

end

/-! ### the lexicographic defect (seeded change C12-E) -/

def cInterp (f : String) (_ : List Nat) : Nat :=
  if f = "c2" then 2 else if f = "c10" then 10 else 0

/-- eleven constant outputs `c0 … c10` -/
def elevenOuts : List Term := (List.range 11).map fun i => .op ("c" ++ toString i) []

/-- Iterating the result names in SORTED order is wrong from arity 11 on: `"_10" < "_2"` as
    strings, so component 2 of the tuple is the eleventh output (value 10, not 2) — while the
    positional unpacking gives 2, and up to ten outputs both coincide (why small tests pass). -/
theorem lex_order_wrong :
    "_10" < "_2"
    ∧ (tupleUnpackSorted false [] (tupleReturns elevenOuts) [])[2]?
        = some (.result "_10" false [] (tupleReturns elevenOuts) [])
    ∧ ((tupleUnpackSorted false [] (tupleReturns elevenOuts) [])[2]?.map
          (denote cInterp 0 (fun _ => 0))) = some 10
    ∧ ((tupleUnpack false [] (tupleReturns elevenOuts) [])[2]?.map
          (denote cInterp 0 (fun _ => 0))) = some 2
    ∧ (∀ n, n ≤ 10 → insSort strLe ((List.range n).map tupleName) = (List.range n).map tupleName)
    ∧ insSort strLe ((List.range 11).map tupleName) ≠ (List.range 11).map tupleName := by
  refine ⟨by decide, by rfl, by decide, by decide, by decide, by decide⟩

section
variable {V : Type} (interp : String → List V → V) (undef : V)

/-! ## (2) `trace_call` -/

/-- **Tracing a function and calling the traced definition denotes what applying
    the function directly denotes.**  `template` = the function's outputs over its
    formal slots (a function that is parametric in its arguments), `args s` the
    argument passed for slot `s`, `ρ s` the name of the placeholder created for slot
    `s`.  Hypotheses: the function mentions nothing but its formals (no captured
    placeholder — pytato rejects those), and the placeholder names are pairwise
    different.  The caller's terms `args s` are arbitrary: they may contain
    placeholders named like the parameters, calls, results of other calls. -/
theorem trace_call_denote (tg : Bool) (ρ : String → String) (formals : List String)
    (args : String → Term) (template : Binds) (k : String) (env : String → V)
    (hclosed : ∀ n ∈ freePh (getRet template k), n ∈ formals)
    (hinj : ∀ a ∈ formals, ∀ b ∈ formals, ρ a = ρ b → a = b) :
    denote interp undef env (traceResult tg ρ formals args template k)
      = denote interp undef env (getRet (applyDirect args template) k) := by
  simp only [traceResult, denote, traceBody, applyDirect]
  rw [denoteRet_getRet, getRet_substBinds, getRet_substBinds, subst_denote, subst_denote]
  apply denote_congr
  intro s hs
  have hsf := hclosed s hs
  simp only [denote, callEnv, traceBindings]
  have hmem : ρ s ∈ formals.map ρ := List.mem_map.mpr ⟨s, hsf, rfl⟩
  simp only [hmem, if_true, lookup_denoteBinds]
  rw [lookup_map_inj ρ args formals s hsf hinj]
  rfl

/-- … and syntactically: **outlining then inlining is direct application** — inlining the traced
    call yields the very term that inlining the direct application yields (the identity when the
    function and the arguments contain no calls). -/
theorem trace_inline_eq_direct (ρ : String → String) (formals : List String)
    (args : String → Term) (template : Binds) (k : String)
    (hclosed : ∀ n ∈ freePh (getRet template k), n ∈ formals)
    (hinj : ∀ a ∈ formals, ∀ b ∈ formals, ρ a = ρ b → a = b) :
    inline (traceResult true ρ formals args template k)
      = inline (getRet (applyDirect args template) k) := by
  simp only [traceResult, inline, traceBody, applyDirect]
  rw [inlineRet_eq, getRet_substBinds, getRet_substBinds, inline_subst, inline_subst, subst_subst]
  apply subst_congr
  intro s hs
  have hsf := hclosed s (freePh_inline _ s hs)
  simp only [inline, substPlaceholders, callSubst, traceBindings]
  have hmem : ρ s ∈ formals.map ρ := List.mem_map.mpr ⟨s, hsf, rfl⟩
  simp only [hmem, if_true, lookup_inlineBinds]
  rw [lookup_map_inj ρ args formals s hsf hinj]
  rfl

/-- pytato's names: positional slot `i` ↦ `in__pt_<i>`, keyword `kw` ↦ `in_<kw>` — the parameter
    set of the traced definition is what `Calls.traceParams` says, in every mixture of
    positional and keyword arguments -/
theorem trace_param_names (nargs : Nat) (kws : List String) :
    (traceFormals nargs kws).map kwName = Calls.traceParams nargs kws := by
  simp only [traceFormals, Calls.traceParams, List.map_append, List.map_map]
  congr 1

/-- one placeholder per PARAMETER: the slots (hence the placeholder names) are pairwise
    different as soon as the keywords are, and none of them is `_pt_<i>` (`RE_ARGNAME`) —
    also when the same array object is passed for several parameters -/
theorem trace_formals_nodup (nargs : Nat) (kws : List String) (hk : kws.Nodup)
    (hre : ∀ kw ∈ kws, ∀ i : Nat, kw ≠ posSlot i) : (traceFormals nargs kws).Nodup := by
  simp only [traceFormals]
  rw [List.nodup_append]
  refine ⟨?_, hk, ?_⟩
  · refine nodup_map_inj posSlot (fun a b h => ?_) _ List.nodup_range
    unfold posSlot at h
    exact Nat.repr_injective ((String.append_right_inj "_pt_").mp h)
  · intro a ha b hb hab
    obtain ⟨i, _, rfl⟩ := List.mem_map.mp ha
    exact hre b hb i hab.symm

/-- `trace_call_denote` with pytato's names: positional, keyword and mixed passing -/
theorem trace_call_denote_names (tg : Bool) (nargs : Nat) (kws : List String)
    (args : String → Term) (template : Binds) (k : String) (env : String → V)
    (hclosed : ∀ n ∈ freePh (getRet template k), n ∈ traceFormals nargs kws) :
    denote interp undef env (traceCall tg nargs kws args template k)
      = denote interp undef env (getRet (applyDirect args template) k) :=
  trace_call_denote interp undef tg kwName _ args template k env hclosed
    (fun _ _ _ _ h => Calls.kwName_injective h)

/-! ## (3) inlining: nesting, selective tags, the real order of operations -/

/-- inlining the tagged calls preserves the value — for ANY tagging, calls inside function
    bodies at any depth, calls in bindings, a call result as argument of another call,
    any number of results -/
theorem inline_sound_multi (t : Term) (env : String → V) :
    denote interp undef env (inline t) = denote interp undef env t :=
  inline_denote interp undef t env

/-- tags carry no value -/
theorem tag_all_sound (t : Term) (env : String → V) :
    denote interp undef env (tagAll t) = denote interp undef env t :=
  setTags_denote interp undef true t env

theorem inline_all_sound (t : Term) (env : String → V) :
    denote interp undef env (inlineAll t) = denote interp undef env t := by
  rw [inlineAll, inline_sound_multi, tag_all_sound]

end

/-- when every reachable call is tagged, no call is left -/
theorem inline_call_free_multi (t : Term) (h : allTagged t = true) : callFree (inline t) = true :=
  callFree_inline t h

/-- whatever the tagging: no call that is left is tagged, so inlining again changes nothing -/
theorem inline_no_tagged_left (t : Term) : noTagged (inline t) = true := noTagged_inline t

theorem inline_idempotent (t : Term) : inline (inline t) = inline t :=
  inline_of_noTagged _ (noTagged_inline t)

/-- the order of operations of the real `Inliner.map_call` — substitute the ORIGINAL bindings
    into the ORIGINAL return expression, then inline the result (`rec(substitutor(ret))`) —
    gives what the model's bottom-up step gives -/
theorem inline_real_order (k : String) (ps : List String) (rets bs : Binds) :
    inline (substPlaceholders (callSubst ps bs) (getRet rets k))
      = inline (.result k true ps rets bs) :=
  inline_tagged_real_order k ps rets bs

/-- the swapped order `substitutor(rec(ret))` (seeded change C12-B) is WRONG: a call in an
    ARGUMENT survives (`f(x = g(y))`, both tagged) -/
theorem wrong_order_leaves_calls :
    let g : Term := .result "_" true ["u"] [("_", .op "neg" [.placeholder "u"])] [("u", .placeholder "y")]
    let ps := ["x"]; let rets : Binds := [("_", .op "sin" [.placeholder "x"])]; let bs : Binds := [("x", g)]
    callFree (substPlaceholders (callSubst ps bs) (inline (getRet rets "_"))) = false
    ∧ callFree (inline (.result "_" true ps rets bs)) = true := by
  decide

/-! ## (4) `tag_all_calls_to_be_inlined` -/

/-- traversal completeness: EVERY reachable call is tagged afterwards — in function bodies, in
    bindings, and below calls that were tagged already -/
theorem tag_all_complete (t : Term) : allTagged (tagAll t) = true :=
  allCalls_setTags id true rfl t

/-- nothing but tags changes, and no call site is added or lost -/
theorem tag_all_only_tags (t : Term) :
    eraseTags (tagAll t) = eraseTags t ∧ countCalls (tagAll t) = countCalls t :=
  ⟨setTags_setTags false true t, countCalls_setTags true t⟩

theorem tag_all_idempotent (t : Term) : tagAll (tagAll t) = tagAll t := setTags_setTags true true t

/-- `inline_calls ∘ tag_all_calls_to_be_inlined` gives a call-free term … -/
theorem inline_all_call_free (t : Term) : callFree (inlineAll t) = true :=
  callFree_inline _ (tag_all_complete t)

/-- … and is idempotent -/
theorem inline_all_idempotent (t : Term) : inlineAll (inlineAll t) = inlineAll t := by
  have h := inline_all_call_free t
  unfold inlineAll at h ⊢
  rw [show tagAll (inline (tagAll t)) = inline (tagAll t) from setTags_of_callFree true _ h]
  exact inline_idempotent _

/-- a call tagged BEFORE with an untagged call in its body: `outer` (tagged) calls `inner` -/
def preTagged : Term :=
  .result "_" true ["a"]
    [("_", .op "add" [.placeholder "a",
        .result "_" false ["b"] [("_", .op "neg" [.placeholder "b"])] [("b", .placeholder "a")]])]
    [("a", .placeholder "x")]

/-- the marker that stops at an already tagged call (seeded change C12-F) misses the call
    below it: not every call is tagged, and inlining leaves a call — the complete marker
    does not -/
theorem tag_all_stop_incomplete :
    allTagged (tagAllStop preTagged) = false
    ∧ callFree (inline (tagAllStop preTagged)) = false
    ∧ allTagged (tagAll preTagged) = true
    ∧ callFree (inline (tagAll preTagged)) = true := by
  decide

/-! ## (3b) sharing -/

/-- **Inlining one call does not copy.**  All results of one (tagged) call, inlined, TOGETHER fit
    into the DAG nodes of the (inlined) return expressions together plus the nodes of the (inlined)
    arguments together, plus one (the `KeyError` node): a sub-expression shared by several return
    expressions stays one node, a parameter used many times does not multiply its argument, an
    argument is shared between the results.  (DAG nodes = distinct sub-terms, i.e. the graph
    after `deduplicate`, which `inline_calls` ends with; the real `Inliner` gets there by
    memoising `map_call` and the substitutor per call — tied by the node counts of the
    `trace-structure` batch.) -/
theorem inline_preserves_sharing (ps : List String) (rets bs : Binds) (n m : Nat)
    (hb : DagSizeLe (rets.map fun kv => inlineRet kv.1 rets) n)
    (hbs : DagSizeLeBinds (inlineBinds bs) m) :
    DagSizeLe (inlineList (allResults true ps rets bs)) (n + m + 1) := by
  have := subst_dag_size ps (inlineBinds bs) _ n m hb hbs
  have e : inlineList (allResults true ps rets bs)
      = substList (callSubst ps (inlineBinds bs)) (rets.map fun kv => inlineRet kv.1 rets) := by
    rw [inlineList_eq_map, substList_eq_map, allResults, List.map_map, List.map_map]
    apply List.map_congr_left
    intro kv _
    simp [Function.comp, inline]
  rw [e]; exact this

/-- `f(a) = (add1 s, dbl s)` with the shared `s = sin a`, called with `a = mul3 x`: bodies 4 nodes,
    argument 2 nodes, so both inlined results together fit into 4 + 2 + 1 nodes (a tree copy per
    result would need 8) -/
def shRets : Binds :=
  [("_0", .op "add1" [.op "sin" [.placeholder "a"]]), ("_1", .op "dbl" [.op "sin" [.placeholder "a"]])]
def shBinds : Binds := [("a", .op "mul3" [.placeholder "x"])]

example : DagSizeLe (shRets.map fun kv => inlineRet kv.1 shRets) 4 :=
  ⟨[.op "add1" [.op "sin" [.placeholder "a"]], .op "sin" [.placeholder "a"], .placeholder "a",
    .op "dbl" [.op "sin" [.placeholder "a"]]], by decide, by
    intro s hs
    simp [shRets, inlineRet, inline, inlineList, frameSubList, frameSub] at hs
    rcases hs with rfl | rfl | rfl | rfl | rfl | rfl <;> simp⟩
example : DagSizeLeBinds (inlineBinds shBinds) 2 :=
  ⟨[.op "mul3" [.placeholder "x"], .placeholder "x"], by decide, by
    intro s hs
    simp [shBinds, inlineBinds, inline, inlineList, frameSubBinds, frameSub] at hs
    rcases hs with rfl | hs
    · simp
    · simp [frameSubList, frameSub] at hs
      subst hs; simp⟩

/-! ## non-vacuity: nesting, two results, clashing names -/

def nvInterp (f : String) (vs : List Int) : Int :=
  match f, vs with
  | "add", [a, b] => a + b
  | "sub", [a, b] => a - b
  | "neg", [a] => -a
  | "dbl", [a] => 2 * a
  | _, _ => 0

def nvEnv (n : String) : Int := if n = "x" then 7 else if n = "y" then 100 else if n = "a" then 5 else 0

/-- `h(u) = (neg u, dbl u)` -/
def nvH (tg : Bool) (k : String) (arg : Term) : Term :=
  .result k tg ["u"] (tupleReturns [.op "neg" [.placeholder "u"], .op "dbl" [.placeholder "u"]]) [("u", arg)]
/-- `g(a, b) = sub(a, h(b)[1])`: a call inside a body -/
def nvG (tg tgh : Bool) (a b : Term) : Term :=
  .result "_" tg ["a", "b"] [("_", .op "sub" [.placeholder "a", nvH tgh "_1" (.placeholder "b")])]
    [("a", a), ("b", b)]
/-- depth 3, a call result as argument of another call, caller placeholder `a` named like a
    parameter, only SOME calls tagged -/
def nvTop : Term := nvG true false (nvH true "_0" (.placeholder "a")) (nvG false true (.placeholder "x") (.placeholder "a"))

example : denote nvInterp 0 nvEnv nvTop = -5 - 2 * (7 - 2 * 5)
    ∧ denote nvInterp 0 nvEnv (inline nvTop) = 1
    ∧ denote nvInterp 0 nvEnv (inlineAll nvTop) = 1
    ∧ callFree (inline nvTop) = false ∧ callFree (inlineAll nvTop) = true
    ∧ countCalls nvTop = 5 := by decide
-- both results of one call
example : denote nvInterp 0 nvEnv (nvH false "_0" (.placeholder "x")) = -7
    ∧ denote nvInterp 0 nvEnv (nvH false "_1" (.placeholder "x")) = 14 := by decide
-- trace: f(p, *, q) = sub(p, dbl q) called as f(a + x, q = a); slots `_pt_0` and `q`
def nvTemplate : Binds := [("_", .op "sub" [.placeholder "_pt_0", .op "dbl" [.placeholder "q"]])]
def nvArgs (s : String) : Term :=
  if s = "_pt_0" then .op "add" [.placeholder "a", .placeholder "x"] else .placeholder "a"
example : (∀ n ∈ freePh (getRet nvTemplate "_"), n ∈ traceFormals 1 ["q"]) := by decide
example : traceCall false 1 ["q"] nvArgs nvTemplate "_"
    = .result "_" false ["in__pt_0", "in_q"]
        [("_", .op "sub" [.placeholder "in__pt_0", .op "dbl" [.placeholder "in_q"]])]
        [("in__pt_0", .op "add" [.placeholder "a", .placeholder "x"]), ("in_q", .placeholder "a")] := by
  rfl
example : denote nvInterp 0 nvEnv (traceCall false 1 ["q"] nvArgs nvTemplate "_") = 2 := by decide
example : (["q"] : List String).Nodup ∧ ∀ kw ∈ (["q"] : List String), ∀ i : Nat, i < 5 → kw ≠ posSlot i := by
  decide

end CallsM
end Pt

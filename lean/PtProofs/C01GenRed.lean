/-
  Properties C01 / C07 — the loopy statement generator on graphs WITH REDUCTIONS
  (`suppAllR`: the reduction-free fragment of `PtProofs.C01Gen` plus index lambdas that are a chain
  of reductions with constant bounds over a reduction-free expression, every bound hoisted into a
  private scalar of the store, or for a 0-d result into a statement of its own — what the installed
  loopy makes of every reduction).

  `loopygen_sound_red_partial`: executing the generated kernel in its own order leaves in every
  output array, at every in-bounds index, the value the output denotes.
-/
import PtProofs.C01GenRedLets
namespace Pt
namespace LG

/-! ## emitting a store with private scalars -/

section Traversal
variable {g : LGraph} {inp : String → Arr Val} {σ0 : Store} {inputNames : List String}
  {E0 : List String} {done : List String}

theorem Inv.emitL {st : St} (hinv : Inv g inp σ0 inputNames E0 done st) {id name : String}
    {inames : List String} {shape : Shape} {lets : List (String × SExpr)} {rhs : SExpr} {deps : List String}
    (hne : isEmptyShape shape = false) (hlen : inames.length = shape.length) (hnd : inames.Nodup)
    (hname : ¬ arrNames inputNames st name) (hnameEx : name ∈ st.vng.existing)
    (horigin : name ∈ done ∨ name ∉ E0)
    (halloc : Alloc σ0 (storeStmt id name inames shape lets rhs deps :: st.stmts))
    (hread : name ∉ readNames rhs) (hlets : ∀ l ∈ lets, name ∉ readNames l.2) :
    Inv g inp σ0 inputNames E0 done (st.emit (storeStmt id name inames shape lets rhs deps)) ∧
    (∀ x, arrNames inputNames (st.emit (storeStmt id name inames shape lets rhs deps)) x ↔
      x = name ∨ arrNames inputNames st x) ∧
    (∀ x, x ≠ name → (storeOf σ0 (st.emit (storeStmt id name inames shape lets rhs deps))).get? x =
      (storeOf σ0 st).get? x) ∧
    ∃ b, (storeOf σ0 (st.emit (storeStmt id name inames shape lets rhs deps))).get? name = some b ∧
      b.shape = shape ∧
      ∀ q, inB shape q = true →
        b.get q = eval { pt := [], ix := pointEnv inames q [],
                         arr := bindLets (pointEnv inames q []) lets (storeOf σ0 st) } rhs := by
  obtain ⟨hact, hlhs, hloops⟩ := storeStmt_active (id := id) (name := name) (inames := inames)
    (lets := lets) (rhs := rhs) (deps := deps) hne
  obtain ⟨a, ha0, hash⟩ := halloc _ (by simp) hact
  rw [hlhs] at ha0
  have hext : extent (storeStmt id name inames shape lets rhs deps) = shape := by
    unfold extent; rw [hloops]; exact extent_box inames shape hlen
  rw [hext] at hash
  have hnl : name ∉ st.stmts.map (·.lhs) := fun h => hname (Or.inr h)
  have ha : (storeOf σ0 st).get? name = some a := by
    unfold storeOf
    rw [execOrder_frame name _ σ0 (fun s hs => Or.inr (fun e => hnl (by
      rw [e]; exact List.mem_map.2 ⟨s, List.mem_reverse.1 hs, rfl⟩)))]
    exact ha0
  obtain ⟨b, hb, hbs, hbσ, hbq⟩ := execStmt_storeL (storeOf σ0 st) id name inames shape lets rhs deps a hne hlen hnd
    ha hread hlets
  have hσ' : storeOf σ0 (st.emit (storeStmt id name inames shape lets rhs deps))
      = execStmt (storeOf σ0 st) (storeStmt id name inames shape lets rhs deps) := by
    simp [storeOf, St.emit, execOrder_snoc]
  have hG' : ∀ x, arrNames inputNames (st.emit (storeStmt id name inames shape lets rhs deps)) x ↔
      x = name ∨ arrNames inputNames st x := by
    intro x
    simp only [arrNames, St.emit, List.map_cons, List.mem_cons, hlhs]
    constructor
    · rintro (h | h | h)
      · exact Or.inr (Or.inl h)
      · exact Or.inl h
      · exact Or.inr (Or.inr h)
    · rintro (h | h | h)
      · exact Or.inr (Or.inl h)
      · exact Or.inl h
      · exact Or.inr (Or.inr h)
  refine ⟨⟨?_, hinv.seeds, ?_, ?_, ?_⟩, hG', ?_, b, by rw [hσ']; exact hb, by rw [hbs, hash], ?_⟩
  · intro x hx
    rcases (hG' x).1 hx with rfl | hx
    · exact hnameEx
    · exact hinv.names x hx
  · intro j r hm
    have hm' : (j, r) ∈ st.results := hm
    show ImplOK (storeOf σ0 (st.emit (storeStmt id name inames shape lets rhs deps)))
      (arrNames inputNames (st.emit (storeStmt id name inames shape lets rhs deps))) r (den g inp j)
    rw [hσ']
    refine (hinv.results j r hm').mono (fun x hx => (hG' x).2 (Or.inr hx)) (fun x hx => ?_)
    exact hbσ x (fun e => hname (e ▸ hx))
  · intro s hs
    simp only [St.emit, List.mem_cons] at hs
    rcases hs with rfl | hs
    · exact hact
    · exact hinv.active s hs
  · intro s hs
    simp only [St.emit, List.mem_cons] at hs
    rcases hs with rfl | hs
    · rw [hlhs]; exact horigin
    · exact hinv.origin s hs
  · intro x hx
    rw [hσ']
    exact hbσ x hx
  · intro q hq
    rw [hbq q (by rw [hlen, inB_length hq]), if_pos hq]

theorem Inv.remember {st : St} (hinv : Inv g inp σ0 inputNames E0 done st) {i : Nat} {r : Impl}
    (hok : ImplOK (storeOf σ0 st) (arrNames inputNames st) r (den g inp i)) :
    Inv g inp σ0 inputNames E0 done (st.remember i r) := by
  refine ⟨hinv.names, hinv.seeds, ?_, hinv.active, hinv.origin⟩
  intro j r' hm
  simp only [St.remember, List.mem_cons, Prod.mk.injEq] at hm
  rcases hm with ⟨rfl, rfl⟩ | hm
  · exact hok
  · exact hinv.results j r' hm

end Traversal

/-! ## a reduction-free expression over the bindings does not see the loop variables -/

section IxIrrel
variable (pt : Idx) (Δ : List (String × Int)) (arr : List (String × Arr Val)) (n : Nat)
  (rk : String → Option Nat) (hΔ : ∀ x, rk x ≠ none → lookupIxL Δ x = none)
include hΔ

mutual
theorem eval_ix_irrel : ∀ (e : SExpr), exprOK n e = true → ranksOK rk e = true →
    eval { pt := pt, ix := Δ, arr := arr } e = eval { pt := pt, ix := [], arr := arr } e
  | .int _, _, _ | .rat _ _, _, _ | .nan, _, _ | .idx _, _, _ => by simp [eval]
  | .bool _, h, _ => by simp [exprOK] at h
  | .reduce .., h, _ => by simp [exprOK] at h
  | .var x, _, hr => by
    simp only [ranksOK, beq_iff_eq] at hr
    have h1 : Env.lookupIx { pt := pt, ix := Δ, arr := arr } x = none := hΔ x (by rw [hr]; simp)
    have h2 : Env.lookupIx { pt := pt, ix := [], arr := arr } x = none := rfl
    simp only [eval, h1, h2]
    rfl
  | .sub a ix, h, hr => by
    simp only [exprOK] at h
    simp only [ranksOK, Bool.and_eq_true] at hr
    simp only [eval]
    rw [evalList_ix_irrel ix h hr.2]
    rfl
  | .add a c, h, hr | .mul a c, h, hr | .quot a c, h, hr | .fdiv a c, h, hr | .rem a c, h, hr | .pow a c, h, hr
  | .cmp _ a c, h, hr | .land a c, h, hr | .lor a c, h, hr => by
    simp only [exprOK, Bool.and_eq_true] at h
    simp only [ranksOK, Bool.and_eq_true] at hr
    simp only [eval]
    rw [eval_ix_irrel a h.1 hr.1, eval_ix_irrel c h.2 hr.2]
  | .lnot a, h, hr | .cast _ a, h, hr => by
    simp only [exprOK] at h
    simp only [ranksOK] at hr
    simp only [eval]
    rw [eval_ix_irrel a h hr]
  | .ite c t e, h, hr => by
    simp only [exprOK, Bool.and_eq_true] at h
    simp only [ranksOK, Bool.and_eq_true] at hr
    simp only [eval]
    rw [eval_ix_irrel c h.1.1 hr.1.1, eval_ix_irrel t h.1.2 hr.1.2, eval_ix_irrel e h.2 hr.2]
  | .call f args, h, hr => by
    simp only [exprOK] at h
    simp only [ranksOK, Bool.or_eq_true, beq_iff_eq] at hr
    simp only [eval]
    rcases hr with hr | hr
    · subst hr
      simp [callExact]
    · rw [evalList_ix_irrel args h hr]
theorem evalList_ix_irrel : ∀ (es : List SExpr), exprOKList n es = true → ranksOKList rk es = true →
    evalList { pt := pt, ix := Δ, arr := arr } es = evalList { pt := pt, ix := [], arr := arr } es
  | [], _, _ => rfl
  | e :: es, h, hr => by
    simp only [exprOKList, Bool.and_eq_true] at h
    simp only [ranksOKList, Bool.and_eq_true] at hr
    simp only [evalList]
    rw [eval_ix_irrel e h.1 hr.1, evalList_ix_irrel es h.2 hr.2]
end

mutual
theorem safe_ix_irrel : ∀ (e : SExpr), exprOK n e = true → ranksOK rk e = true →
    Safe { pt := pt, ix := Δ, arr := arr } e → Safe { pt := pt, ix := [], arr := arr } e
  | .int _, _, _, _ | .rat _ _, _, _, _ | .nan, _, _, _ | .idx _, _, _, _ => by simp [Safe]
  | .bool _, h, _, _ => by simp [exprOK] at h
  | .reduce .., h, _, _ => by simp [exprOK] at h
  | .var x, _, hr, hs => by
    simp only [ranksOK, beq_iff_eq] at hr
    simp only [Safe] at hs ⊢
    rcases hs with hs | hs
    · exact absurd (hΔ x (by rw [hr]; simp)) hs
    · exact Or.inr hs
  | .sub a ix, h, hr, hs => by
    simp only [exprOK] at h
    simp only [ranksOK, Bool.and_eq_true] at hr
    simp only [Safe] at hs ⊢
    obtain ⟨h1, arr0, j, h2, h3, h4⟩ := hs
    refine ⟨safeList_ix_irrel ix h hr.2 h1, arr0, j, h2, ?_, h4⟩
    rw [← evalList_ix_irrel pt Δ arr n rk hΔ ix h hr.2]
    exact h3
  | .add a c, h, hr, hs | .mul a c, h, hr, hs | .quot a c, h, hr, hs | .fdiv a c, h, hr, hs | .rem a c, h, hr, hs
  | .pow a c, h, hr, hs | .cmp _ a c, h, hr, hs | .land a c, h, hr, hs | .lor a c, h, hr, hs => by
    simp only [exprOK, Bool.and_eq_true] at h
    simp only [ranksOK, Bool.and_eq_true] at hr
    simp only [Safe] at hs ⊢
    exact ⟨safe_ix_irrel a h.1 hr.1 hs.1, safe_ix_irrel c h.2 hr.2 hs.2⟩
  | .lnot a, h, hr, hs | .cast _ a, h, hr, hs => by
    simp only [exprOK] at h
    simp only [ranksOK] at hr
    simp only [Safe] at hs ⊢
    exact safe_ix_irrel a h hr hs
  | .ite c t e, h, hr, hs => by
    simp only [exprOK, Bool.and_eq_true] at h
    simp only [ranksOK, Bool.and_eq_true] at hr
    simp only [Safe] at hs ⊢
    have hc := eval_ix_irrel pt Δ arr n rk hΔ c h.1.1 hr.1.1
    refine ⟨safe_ix_irrel c h.1.1 hr.1.1 hs.1, ?_, ?_⟩
    · intro ht
      exact safe_ix_irrel t h.1.2 hr.1.2 (hs.2.1 (by rw [hc]; exact ht))
    · intro he
      exact safe_ix_irrel e h.2 hr.2 (hs.2.2 (by rw [hc]; exact he))
  | .call f args, h, hr, hs => by
    simp only [exprOK] at h
    simp only [ranksOK, Bool.or_eq_true, beq_iff_eq] at hr
    simp only [Safe] at hs ⊢
    rcases hr with hr | hr
    · exact Or.inl hr
    · rcases hs with hs | hs
      · exact Or.inl hs
      · exact Or.inr (safeList_ix_irrel args h hr hs)
theorem safeList_ix_irrel : ∀ (es : List SExpr), exprOKList n es = true → ranksOKList rk es = true →
    SafeList { pt := pt, ix := Δ, arr := arr } es → SafeList { pt := pt, ix := [], arr := arr } es
  | [], _, _, _ => by simp [SafeList]
  | e :: es, h, hr, hs => by
    simp only [exprOKList, Bool.and_eq_true] at h
    simp only [ranksOKList, Bool.and_eq_true] at hr
    simp only [SafeList] at hs ⊢
    exact ⟨safe_ix_irrel e h.1 hr.1 hs.1, safeList_ix_irrel es h.2 hr.2 hs.2⟩
end

end IxIrrel

/-! ## what the fragment says about a reduction -/

structure RedFacts (g : LGraph) (shape : Shape) (e : SExpr) (binds : List (String × Nat)) (impl : Strategy)
    (uo : List String) (rvars : List RVar) : Prop where
  ne : isEmptyShape shape = false
  nonempty : (splitChain e).1 ≠ []
  bounds : ∀ c ∈ (splitChain e).1, (exprOK shape.length c.2.2.1 = true ∧ ranksOK (rankIn g binds) c.2.2.1 = true) ∧
    exprOK shape.length c.2.2.2 = true ∧ ranksOK (rankIn g binds) c.2.2.2 = true
  nodup : ((splitChain e).1.map (·.2.1)).Nodup
  disj : ∀ v ∈ (splitChain e).1.map (·.2.1), v ∉ binds.map (·.1)
  uo : uo = (splitChain e).1.map (·.2.1)
  rv : rvars.map (·.name) = (splitChain e).1.map (·.2.1)
  flags : ∀ rv ∈ rvars, rv.loAffine = false ∧ rv.hiAffine = false
  body : exprOK shape.length (splitChain e).2 = true
  ranks : ranksOKS (rankIn g binds) ((splitChain e).1.map (·.2.1)) (splitChain e).2 = true
  impl : ∀ s, impl ≠ .unknown s

theorem isIntLit_iff {e : SExpr} (h : isIntLit e = true) : ∃ n, e = .int n := by
  cases e <;> simp [isIntLit] at h
  exact ⟨_, rfl⟩

theorem redNode_facts {g : LGraph} {i : Nat} {shape : Shape} {e : SExpr} {binds : List (String × Nat)}
    {impl : Strategy} {tag : NameTag} {uo : List String} {rvars : List RVar}
    (hn : g.get i = .indexLambda shape e binds impl tag uo rvars) (h : redNode g i = true) :
    RedFacts g shape e binds impl uo rvars := by
  simp only [redNode, hn, Bool.and_eq_true, Bool.not_eq_true', List.all_eq_true, decide_eq_true_eq,
    beq_iff_eq, List.isEmpty_eq_false_iff, beq_eq_false_iff_ne, ne_eq] at h
  obtain ⟨⟨⟨⟨⟨⟨⟨⟨⟨⟨h1, h3⟩, h4⟩, h5⟩, h6⟩, h7⟩, h8⟩, h9⟩, h10⟩, h11⟩, h12⟩ := h
  refine ⟨h1, h3, ?_, h5, ?_, h7, h8, ?_, h10, h11, ?_⟩
  · intro c hc
    obtain ⟨⟨⟨a, b⟩, c0⟩, d⟩ := h4 c hc
    exact ⟨⟨a, b⟩, c0, d⟩
  · intro v hv
    have := h6 v hv
    simpa using this
  · intro rv hrv
    have := h9 rv hrv
    simpa using this
  · intro s hs
    rw [hs] at h12
    simp at h12

theorem suppNodeR_cases {g : LGraph} {i : Nat} (h : suppNodeR g i = true) :
    suppNode g i = true ∨ (suppNode g i = false ∧ redNode g i = true) := by
  unfold suppNodeR at h
  cases hs : suppNode g i with
  | true => exact Or.inl rfl
  | false => rw [hs] at h; exact Or.inr ⟨rfl, by simpa using h⟩

theorem suppAllR_succ {g : LGraph} {fuel i : Nat} (h : suppAllR g (fuel + 1) i = true) :
    suppNodeR g i = true ∧ ∀ c ∈ kidsOf g i, suppAllR g fuel c = true := by
  simp only [suppAllR, Bool.and_eq_true, List.all_eq_true] at h
  exact h

theorem suppAllR_node {g : LGraph} : ∀ {fuel i : Nat}, suppAllR g fuel i = true → suppNodeR g i = true
  | 0, _, h => by simp [suppAllR] at h
  | _ + 1, _, h => (suppAllR_succ h).1

theorem genDeps_int (ns : List (String × Impl)) (sc : List String) (n : Int) : genDeps ns sc (.int n) = [] := by
  simp [genDeps]

/-- the reduction of the fragment through `mapNode`: unique names, the bindings, a stored result -/
theorem mapNode_red_inv {g : LGraph} {fuel i : Nat} {st st' : St} {r : Impl} {shape : Shape} {e : SExpr}
    {binds : List (String × Nat)} {impl : Strategy} {tag : NameTag} {uo : List String} {rvars : List RVar}
    (hn : g.get i = .indexLambda shape e binds impl tag uo rvars) (hf : RedFacts g shape e binds impl uo rvars)
    (hm : lookupResult st.results i = none) (h : mapNode g (fuel + 1) i st = .ok (r, st')) :
    ∃ uniq stu ns st1 bd, uniqNames rvars uo st = .ok (uniq, stu) ∧
      recAll (mapNode g fuel) binds stu = .ok (ns, st1) ∧
      (∀ d, d ∈ bd ↔ ∃ c ∈ (splitChain e).1, d ∈ genDeps ns [] c.2.2.1 ∨ d ∈ genDeps ns [] c.2.2.2) ∧
      ilStore shape e tag rvars uniq ns bd i st1 = .ok (r, st') := by
  unfold mapNode at h
  simp only [hm, hn] at h
  obtain ⟨un, hun, h⟩ := Res.bind_ok.1 h
  obtain ⟨uniq, stu⟩ := un
  obtain ⟨nsr, hrec, h⟩ := Res.bind_ok.1 h
  obtain ⟨ns, st1⟩ := nsr
  have hstore : (rvars.any fun rv => !rv.loAffine || !rv.hiAffine) = true := by
    have hne : rvars ≠ [] := by
      intro e0
      have := hf.rv
      rw [e0] at this
      exact hf.nonempty (List.map_eq_nil_iff.1 this.symm)
    cases hr : rvars with
    | nil => exact absurd hr hne
    | cons rv rest =>
      have := hf.flags rv (by rw [hr]; simp)
      simp [this.1]
  simp only [hstore, Bool.or_true, if_true] at h
  -- the dependencies of the bounds
  have hbd : ∀ (bd : List String), bd = (rvars.flatMap fun rv =>
      match boundsOf rv.name e with
      | some (lo, hi) => genDeps ns [] lo ++ genDeps ns [] hi
      | none => []) →
      ∀ d, d ∈ bd ↔ ∃ c ∈ (splitChain e).1, d ∈ genDeps ns [] c.2.2.1 ∨ d ∈ genDeps ns [] c.2.2.2 := by
    intro bd hbd d
    rw [hbd, List.mem_flatMap]
    constructor
    · rintro ⟨rv, hrv, hd⟩
      have hmem : rv.name ∈ (splitChain e).1.map (·.2.1) := by rw [← hf.rv]; exact List.mem_map.2 ⟨rv, hrv, rfl⟩
      obtain ⟨c, hc, hcn⟩ := List.mem_map.1 hmem
      have hb := boundsOf_chain (splitChain e).2 (splitChain e).1 hf.nodup c hc
      rw [splitChain_mk, hcn] at hb
      rw [hb] at hd
      exact ⟨c, hc, List.mem_append.1 hd⟩
    · rintro ⟨c, hc, hd⟩
      have hmem : c.2.1 ∈ rvars.map (·.name) := by rw [hf.rv]; exact List.mem_map.2 ⟨c, hc, rfl⟩
      obtain ⟨rv, hrv, hrn⟩ := List.mem_map.1 hmem
      refine ⟨rv, hrv, ?_⟩
      have hb := boundsOf_chain (splitChain e).2 (splitChain e).1 hf.nodup c hc
      rw [splitChain_mk, ← hrn] at hb
      rw [hb]
      exact List.mem_append.2 hd
  cases himpl : impl with
  | unknown s => exact absurd himpl (hf.impl s)
  | stored => rw [himpl] at h; exact ⟨uniq, stu, ns, st1, _, hun, hrec, hbd _ rfl, h⟩
  | default => rw [himpl] at h; exact ⟨uniq, stu, ns, st1, _, hun, hrec, hbd _ rfl, h⟩
  | inlined => rw [himpl] at h; exact ⟨uniq, stu, ns, st1, _, hun, hrec, hbd _ rfl, h⟩
  | subst => rw [himpl] at h; exact ⟨uniq, stu, ns, st1, _, hun, hrec, hbd _ rfl, h⟩

/-! ## the state only grows, and what a node adds is written under new names -/

structure ExtF (st st' : St) : Prop where
  ext : Ext st st'
  fresh : ∀ new, st'.stmts = new ++ st.stmts → ∀ s ∈ new, s.lhs ∉ st.vng.existing

theorem ExtF.of_same {st st' : St} (he : Ext st st') (hs : st'.stmts = st.stmts) : ExtF st st' := by
  refine ⟨he, fun new hnew s hsn => ?_⟩
  have : new = [] := by
    have h0 : new ++ st.stmts = [] ++ st.stmts := by rw [← hnew, hs]; rfl
    exact List.append_cancel_right h0
  subst this
  simp at hsn

theorem ExtF.refl (st : St) : ExtF st st := ExtF.of_same (Ext.refl st) rfl

theorem ExtF.trans {a b c : St} (h1 : ExtF a b) (h2 : ExtF b c) : ExtF a c := by
  refine ⟨h1.ext.trans h2.ext, fun new hnew s hsn => ?_⟩
  obtain ⟨n1, e1⟩ := h1.ext.stmts
  obtain ⟨n2, e2⟩ := h2.ext.stmts
  have : new = n2 ++ n1 := by
    have h0 : new ++ a.stmts = (n2 ++ n1) ++ a.stmts := by rw [← hnew, e2, e1, List.append_assoc]
    exact List.append_cancel_right h0
  subst this
  rcases List.mem_append.1 hsn with h | h
  · exact fun hx => h2.fresh n2 e2 s h (h1.ext.ex _ hx)
  · exact h1.fresh n1 e1 s h

theorem ExtF.of_emit {st st4 : St} (he : Ext st st4) (hs : st4.stmts = st.stmts) (s : KStmt)
    (hl : s.lhs ∉ st.vng.existing) (i : Nat) (r : Impl) : ExtF st ((st4.emit s).remember i r) := by
  refine ⟨he.trans (Ext.emit_remember _ _ _ _), fun new hnew t htn => ?_⟩
  have : new = [s] := by
    have h0 : new ++ st.stmts = [s] ++ st.stmts := by
      rw [← hnew]; simp [St.remember, St.emit, hs]
    exact List.append_cancel_right h0
  subst this
  simp only [List.mem_singleton] at htn
  subst htn
  exact hl

theorem recAll_extF {g : LGraph} {fuel : Nat}
    (IH : ∀ i st r st', mapNode g fuel i st = .ok (r, st') → suppAllR g fuel i = true → ExtF st st') :
    ∀ (binds : List (String × Nat)) (st : St) (ns : List (String × Impl)) (st' : St),
      recAll (mapNode g fuel) binds st = .ok (ns, st') → (∀ b ∈ binds, suppAllR g fuel b.2 = true) → ExtF st st'
  | [], st, ns, st', h, _ => by
    obtain ⟨_, rfl⟩ := recAll_nil h
    exact ExtF.refl _
  | (n, c) :: bs, st, ns, st', h, hs => by
    obtain ⟨r, st1, rs, h1, h2, _⟩ := recAll_cons h
    exact (IH c st r st1 h1 (hs (n, c) (by simp))).trans
      (recAll_extF IH bs st1 rs st' h2 (fun b hb => hs b (List.mem_cons_of_mem _ hb)))

theorem storeStmt_lhs {id name : String} {inames : List String} {shape : Shape} {lets : List (String × SExpr)}
    {rhs : SExpr} {deps : List String} (hne : isEmptyShape shape = false) :
    (storeStmt id name inames shape lets rhs deps).lhs = name :=
  (storeStmt_active (id := id) (name := name) (inames := inames) (lets := lets) (rhs := rhs) (deps := deps) hne).2.1

theorem emitStored_nd_eq {hs : List Hoisted} {bd : List String} {id name : String} {inames : List String}
    {shape : Shape} {rhs : SExpr} {deps : List String} {st : St} (hnd : shape.length ≠ 0) :
    emitStored hs bd id name inames shape rhs deps st =
      st.emit (storeStmt id name inames shape (sortLets (hs.map fun h => (h.temp, substIdx (inameVars inames) h.e)))
        rhs (deps.filter fun d => !(hs.map (·.id)).contains d)) := by
  unfold emitStored
  rw [if_neg (by simpa using hnd)]

theorem emitStored_nd {hs : List Hoisted} {bd : List String} {id name : String} {inames : List String}
    {shape : Shape} {rhs : SExpr} {deps : List String} {st : St} (hnd : shape.length ≠ 0) :
    ∃ deps', emitStored hs bd id name inames shape rhs deps st =
      st.emit (storeStmt id name inames shape (sortLets (hs.map fun h => (h.temp, substIdx (inameVars inames) h.e)))
        rhs deps') := ⟨_, emitStored_nd_eq hnd⟩

/-- the statement of a hoisted bound of a 0-d result -/
def tempStmt (bd : List String) (h : Hoisted) : KStmt :=
  { id := h.id, lhs := h.temp, lhsIdx := [], loops := [], lets := [], rhs := h.e, deps := normDeps bd }

theorem tempStmt_eq (bd : List String) (h : Hoisted) : tempStmt bd h = storeStmt h.id h.temp [] [] [] h.e bd := rfl

def emitTemps (bd : List String) (hs : List Hoisted) (st : St) : St :=
  hs.foldl (fun st h => st.emit (tempStmt bd h)) st

theorem emitTemps_cons (bd : List String) (h : Hoisted) (hs : List Hoisted) (st : St) :
    emitTemps bd (h :: hs) st = emitTemps bd hs (st.emit (tempStmt bd h)) := rfl

theorem emitTemps_fields (bd : List String) : ∀ (hs : List Hoisted) (st : St),
    (emitTemps bd hs st).stmts = (hs.map (tempStmt bd)).reverse ++ st.stmts ∧
    (emitTemps bd hs st).results = st.results ∧ (emitTemps bd hs st).vng = st.vng
  | [], st => ⟨by simp [emitTemps], rfl, rfl⟩
  | h :: hs, st => by
    obtain ⟨a, b, c⟩ := emitTemps_fields bd hs (st.emit (tempStmt bd h))
    rw [emitTemps_cons]
    refine ⟨?_, by rw [b]; rfl, by rw [c]; rfl⟩
    rw [a]
    simp [St.emit]

theorem emitStored_0d {hs : List Hoisted} {bd : List String} {id name : String} {inames : List String}
    {shape : Shape} {rhs : SExpr} {deps : List String} {st : St} (h0 : shape.length = 0) :
    emitStored hs bd id name inames shape rhs deps st =
      (emitTemps bd hs st).emit (storeStmt id name inames shape [] rhs deps) := by
  unfold emitStored
  rw [if_pos (by simpa using h0)]
  rfl

theorem emitStored_ext (hs : List Hoisted) (bd : List String) (id name : String) (inames : List String)
    (shape : Shape) (rhs : SExpr) (deps : List String) (st : St) (hne : isEmptyShape shape = false) :
    ∃ new, (emitStored hs bd id name inames shape rhs deps st).stmts = new ++ st.stmts ∧
      (∀ s ∈ new, s.lhs = name ∨ s.lhs ∈ hs.map (·.temp)) ∧
      (emitStored hs bd id name inames shape rhs deps st).results = st.results ∧
      (emitStored hs bd id name inames shape rhs deps st).vng = st.vng := by
  by_cases h0 : shape.length = 0
  · rw [emitStored_0d h0]
    obtain ⟨a, b, c⟩ := emitTemps_fields bd hs st
    refine ⟨storeStmt id name inames shape [] rhs deps :: (hs.map (tempStmt bd)).reverse, ?_, ?_, b, c⟩
    · simp [St.emit, a]
    · intro s hs'
      rcases List.mem_cons.1 hs' with rfl | hs'
      · exact Or.inl (storeStmt_lhs hne)
      · obtain ⟨h, hh, rfl⟩ := List.mem_map.1 (List.mem_reverse.1 hs')
        exact Or.inr (List.mem_map.2 ⟨h, hh, rfl⟩)
  · obtain ⟨deps', hem⟩ := emitStored_nd (hs := hs) (bd := bd) (id := id) (name := name) (inames := inames)
      (rhs := rhs) (deps := deps) (st := st) h0
    rw [hem]
    exact ⟨[_], rfl, fun s hs' => Or.inl (by
      rw [List.mem_singleton.1 hs']; exact storeStmt_lhs hne), rfl, rfl⟩

theorem ExtF.of_new {st st4 st' : St} (he : Ext st st4) (hs4 : st4.stmts = st.stmts) {new : List KStmt}
    (hnew : st'.stmts = new ++ st4.stmts) (hres : ∀ x ∈ st4.results, x ∈ st'.results)
    (hex : ∀ x ∈ st4.vng.existing, x ∈ st'.vng.existing) (hl : ∀ s ∈ new, s.lhs ∉ st.vng.existing) :
    ExtF st st' := by
  refine ⟨he.trans ⟨⟨new, hnew⟩, hex, hres⟩, fun new' hnew' t htn => ?_⟩
  have : new' = new := by
    have h0 : new' ++ st.stmts = new ++ st.stmts := by rw [← hnew', hnew, hs4]
    exact List.append_cancel_right h0
  subst this
  exact hl t htn

theorem mapNode_extF {g : LGraph} : ∀ (fuel i : Nat) (st : St) (r : Impl) (st' : St),
    mapNode g fuel i st = .ok (r, st') → suppAllR g fuel i = true → ExtF st st'
  | 0, _, _, _, _, h, _ => by simp [mapNode] at h
  | fuel + 1, i, st, r, st', h, hs => by
    obtain ⟨hsn, hkids⟩ := suppAllR_succ hs
    cases hm : lookupResult st.results i with
    | some r0 =>
      unfold mapNode at h
      simp only [hm, Res.ok.injEq, Prod.mk.injEq] at h
      obtain ⟨_, rfl⟩ := h
      exact ExtF.refl _
    | none =>
      cases hn : g.get i with
      | input name shape =>
        unfold mapNode at h
        simp only [hm, hn, Res.ok.injEq, Prod.mk.injEq] at h
        obtain ⟨_, rfl⟩ := h
        exact ExtF.of_same (Ext.remember _ _ _) rfl
      | refused w => simp [suppNodeR, suppNode, redNode, hn] at hsn
      | other w => simp [suppNodeR, suppNode, redNode, hn] at hsn
      | indexLambda shape e binds impl tag uo rvars =>
        have hkb : ∀ b ∈ binds, suppAllR g fuel b.2 = true :=
          fun b hb => hkids b.2 (by simp only [kidsOf, hn]; exact List.mem_map.2 ⟨b, hb, rfl⟩)
        rcases suppNodeR_cases hsn with hp | ⟨_, hred⟩
        · obtain ⟨_, _, ns, st1, hrec, hcase⟩ := mapNode_il_inv hn hp hm h
          have h1 := recAll_extF (mapNode_extF fuel) binds st ns st1 hrec hkb
          rcases hcase with hc | hc
          · obtain ⟨le, _, _, rfl⟩ := ilInline_inv hc
            exact h1.trans (ExtF.of_same (Ext.remember _ _ _) rfl)
          · obtain ⟨name, st2, inames, st3, le, id, st4, hnm, hins, _, hid, _, rfl⟩ := ilStore_inv hc
            have hne : isEmptyShape shape = false := by
              have := hp
              simp only [suppNode, hn, Bool.and_eq_true, Bool.not_eq_true'] at this
              exact this.1.1.1.1.1
            have d1 := tempName_drew hnm
            obtain ⟨d2, _⟩ := St.vars_drew hins
            have hst4 : st4.stmts = st1.stmts := by
              obtain ⟨g', _, rfl⟩ := St.insnId_ok hid
              show st3.stmts = _
              rw [d2.stmts, d1.stmts]
            refine h1.trans (ExtF.of_emit ((Ext.of_drew d1).trans ((Ext.of_drewMany d2).trans (Ext.of_insnId hid)))
              hst4 _ ?_ _ _)
            rw [storeStmt_lhs hne]
            exact d1.fresh
        · have hf := redNode_facts hn hred
          obtain ⟨uniq, stu, ns, st1, bd, hun, hrec, _, hst⟩ := mapNode_red_inv hn hf hm h
          obtain ⟨huq, du⟩ := uniqNames_inv hun
          have h0 : ExtF st stu := ExtF.of_same (Ext.of_drewMany du) du.stmts
          have h1 := recAll_extF (mapNode_extF fuel) binds stu ns st1 hrec hkb
          have hUex : ∀ p ∈ uniq, p.2 ∈ st1.vng.existing := by
            intro p hp
            exact h1.ext.ex _ ((du.mem _).2 (Or.inl (List.mem_map.2 ⟨p, hp, rfl⟩)))
          have hfound : ∀ x k, rankIn g binds x = some k → True := fun _ _ _ => trivial
          -- names and statements of `ilStore`
          unfold ilStore at hst
          obtain ⟨nm, hnm, hst⟩ := Res.bind_ok.1 hst
          obtain ⟨name, st2⟩ := nm
          obtain ⟨ins, hins, hst⟩ := Res.bind_ok.1 hst
          obtain ⟨inames, st3⟩ := ins
          obtain ⟨hb, hhb, hst⟩ := Res.bind_ok.1 hst
          obtain ⟨hs', nb, st3'⟩ := hb
          rw [hf.ne] at hhb
          have hch : ∀ c ∈ (splitChain e).1, boundsOf c.2.1 e = some (c.2.2.1, c.2.2.2) ∧
              (∃ u, lookupStr uniq c.2.1 = some u) := by
            intro c hc
            refine ⟨?_, ?_⟩
            · have := boundsOf_chain (splitChain e).2 (splitChain e).1 hf.nodup c hc
              rwa [splitChain_mk] at this
            · cases hl : lookupStr uniq c.2.1 with
              | some u => exact ⟨u, rfl⟩
              | none =>
                have := lookupStr_none_not_key hl
                rw [huq, hf.uo] at this
                have hmv : c.2.1 ∈ (splitChain e).1.map (·.2.1) := List.mem_map.2 ⟨c, hc, rfl⟩
                simp only [List.contains_eq_mem, decide_eq_false_iff_not] at this
                exact absurd hmv this
          obtain ⟨ls, _, _, _, rfl, rfl, hd, _⟩ := hoistBounds_inv ns uniq e _ rvars st3 st3' hs' nb hf.rv hf.flags hch hhb
          simp only at hst
          split at hst
          · cases hst
          cases hgen : gen (ns ++ (ls.flatMap RL.hs).map fun h => (h.temp, Impl.stored h.temp [h.id])) []
              (renameRed uniq (replaceBounds (ls.map RL.nb) e)) with
          | none => simp [hgen] at hst
          | some le =>
            simp only [hgen] at hst
            obtain ⟨idr, hid, hst⟩ := Res.bind_ok.1 hst
            obtain ⟨id, st4⟩ := idr
            simp only [Res.ok.injEq, Prod.mk.injEq] at hst
            obtain ⟨_, rfl⟩ := hst
            have d1 := tempName_drew hnm
            obtain ⟨d2, _⟩ := St.vars_drew hins
            have hst4 : st4.stmts = st1.stmts := by
              obtain ⟨g', _, rfl⟩ := St.insnId_ok hid
              show st3'.stmts = _
              rw [hd.stmts, d2.stmts, d1.stmts]
            have hex13 : ∀ x ∈ st1.vng.existing, x ∈ st3.vng.existing := fun x hx =>
              (d2.mem x).2 (Or.inr (by rw [d1.ex]; exact List.mem_cons_of_mem _ hx))
            have hext14 : Ext st1 st4 := by
              obtain ⟨g', _, rfl⟩ := St.insnId_ok hid
              refine ⟨⟨[], by show st3'.stmts = _; rw [hd.stmts, d2.stmts, d1.stmts]; rfl⟩, ?_, ?_⟩
              · intro x hx
                show x ∈ st3'.vng.existing
                exact (hd.mem x).2 (Or.inr (hex13 x hx))
              · intro x hx
                show x ∈ st3'.results
                rw [hd.results, d2.results, d1.results]; exact hx
            obtain ⟨new, hnew, hlhs, hres, hvng⟩ := emitStored_ext (ls.flatMap RL.hs) bd id name inames shape
              (readBackBounds (ls.flatMap RL.hs) uniq (substIdx (inameVars inames) le))
              (bd ++ genDeps (ns ++ (ls.flatMap RL.hs).map fun h => (h.temp, Impl.stored h.temp [h.id])) []
                (renameRed uniq (replaceBounds (ls.map RL.nb) e))) st4 hf.ne
            refine h0.trans (h1.trans (ExtF.of_new hext14 hst4 (new := new) ?_ ?_ ?_ ?_))
            · simpa [St.remember] using hnew
            · intro x hx
              simp only [St.remember, List.mem_cons]
              exact Or.inr (by rw [hres]; exact hx)
            · intro x hx
              show x ∈ (emitStored _ _ _ _ _ _ _ _ st4).vng.existing
              rw [hvng]; exact hx
            · intro s hs0
              rcases hlhs s hs0 with hl | hl
              · rw [hl]; exact d1.fresh
              · intro hx
                obtain ⟨h', hh', he'⟩ := List.mem_map.1 hl
                have htm : s.lhs ∈ ls.flatMap RL.temps := by
                  obtain ⟨r0, hr0, hin0⟩ := List.mem_flatMap.1 hh'
                  refine List.mem_flatMap.2 ⟨r0, hr0, ?_⟩
                  simp only [RL.hs, List.mem_cons, List.mem_nil_iff, or_false] at hin0
                  rcases hin0 with rfl | rfl
                  · simp [RL.temps, ← he']
                  · simp [RL.temps, ← he']
                exact hd.fresh _ htm (hex13 _ hx)

/-! ## helpers for the reduction case -/

theorem recAll_names {rec : Nat → St → Res (Impl × St)} : ∀ {binds : List (String × Nat)} {st st' : St}
    {ns : List (String × Impl)}, recAll rec binds st = .ok (ns, st') → ns.map (·.1) = binds.map (·.1)
  | [], _, _, _, h => by
    obtain ⟨rfl, _⟩ := recAll_nil h
    rfl
  | (n, c) :: bs, _, _, _, h => by
    obtain ⟨r, st1, rs, _, h2, rfl⟩ := recAll_cons h
    simp [recAll_names h2]

theorem lookupNs_none_iff {ns : List (String × Impl)} {x : String} : lookupNs ns x = none ↔ x ∉ ns.map (·.1) := by
  unfold lookupNs
  induction ns with
  | nil => simp
  | cons a rest ih =>
    by_cases hx : (a.1 == x) = true
    · rw [List.find?_cons_of_pos (by simpa using hx)]
      have : a.1 = x := by simpa using hx
      simp [this]
    · rw [List.find?_cons_of_neg (by simpa using hx)]
      have : ¬ (a.1 = x) := by simpa using hx
      simp only [List.map_cons, List.mem_cons, not_or]
      rw [ih]
      exact ⟨fun h => ⟨fun e => this e.symm, h⟩, fun h => h.2⟩

theorem rankIn_some_mem {g : LGraph} {binds : List (String × Nat)} {x : String} {k : Nat}
    (h : rankIn g binds x = some k) : x ∈ binds.map (·.1) := by
  unfold rankIn at h
  obtain ⟨b, hb, _⟩ := Option.map_eq_some_iff.1 h
  have h1 := List.mem_of_find?_eq_some hb
  have h2 := List.find?_some hb
  simp only [beq_iff_eq] at h2
  exact List.mem_map.2 ⟨b, h1, h2⟩

mutual
theorem noScopeVars_of_ranks (rk : String → Option Nat) (vars scope : List String) (n : Nat)
    (hsc : ∀ u ∈ scope, u ∉ vars ∧ rk u = none) : ∀ (e : SExpr),
    exprOK n e = true → ranksOKS rk vars e = true → noScopeVars scope e = true
  | .int _, _, _ | .rat _ _, _, _ | .nan, _, _ | .idx _, _, _ => by simp [noScopeVars]
  | .bool _, h, _ => by simp [exprOK] at h
  | .reduce .., h, _ => by simp [exprOK] at h
  | .var x, _, hr => by
    simp only [ranksOKS, Bool.or_eq_true, beq_iff_eq] at hr
    simp only [noScopeVars, Bool.not_eq_true', List.contains_eq_mem, decide_eq_false_iff_not]
    intro hx
    obtain ⟨h1, h2⟩ := hsc x hx
    rcases hr with hr | hr
    · exact h1 (by simpa using hr)
    · rw [h2] at hr; cases hr
  | .sub a ix, h, hr => by
    simp only [exprOK] at h
    simp only [ranksOKS, Bool.and_eq_true] at hr
    simp only [noScopeVars]
    exact noScopeVarsList_of_ranks rk vars scope n hsc ix h hr.2
  | .add a c, h, hr | .mul a c, h, hr | .quot a c, h, hr | .fdiv a c, h, hr | .rem a c, h, hr | .pow a c, h, hr
  | .cmp _ a c, h, hr | .land a c, h, hr | .lor a c, h, hr => by
    simp only [exprOK, Bool.and_eq_true] at h
    simp only [ranksOKS, Bool.and_eq_true] at hr
    simp only [noScopeVars, Bool.and_eq_true]
    exact ⟨noScopeVars_of_ranks rk vars scope n hsc a h.1 hr.1, noScopeVars_of_ranks rk vars scope n hsc c h.2 hr.2⟩
  | .lnot a, h, hr | .cast _ a, h, hr => by
    simp only [exprOK] at h
    simp only [ranksOKS] at hr
    simp only [noScopeVars]
    exact noScopeVars_of_ranks rk vars scope n hsc a h hr
  | .ite c t e, h, hr => by
    simp only [exprOK, Bool.and_eq_true] at h
    simp only [ranksOKS, Bool.and_eq_true] at hr
    simp only [noScopeVars, Bool.and_eq_true]
    exact ⟨⟨noScopeVars_of_ranks rk vars scope n hsc c h.1.1 hr.1.1,
      noScopeVars_of_ranks rk vars scope n hsc t h.1.2 hr.1.2⟩, noScopeVars_of_ranks rk vars scope n hsc e h.2 hr.2⟩
  | .call f args, h, hr => by
    simp only [exprOK] at h
    simp only [ranksOKS, Bool.or_eq_true, beq_iff_eq] at hr
    simp only [noScopeVars, Bool.or_eq_true, beq_iff_eq]
    rcases hr with hr | hr
    · exact Or.inl hr
    · exact Or.inr (noScopeVarsList_of_ranks rk vars scope n hsc args h hr)
theorem noScopeVarsList_of_ranks (rk : String → Option Nat) (vars scope : List String) (n : Nat)
    (hsc : ∀ u ∈ scope, u ∉ vars ∧ rk u = none) : ∀ (es : List SExpr),
    exprOKList n es = true → ranksOKSList rk vars es = true → noScopeVarsList scope es = true
  | [], _, _ => by simp [noScopeVarsList]
  | e :: es, h, hr => by
    simp only [exprOKList, Bool.and_eq_true] at h
    simp only [ranksOKSList, Bool.and_eq_true] at hr
    simp only [noScopeVarsList, Bool.and_eq_true]
    exact ⟨noScopeVars_of_ranks rk vars scope n hsc e h.1 hr.1, noScopeVarsList_of_ranks rk vars scope n hsc es h.2 hr.2⟩
end

theorem hs_temps : ∀ (ls : List RL), (ls.flatMap RL.hs).map (·.temp) = ls.flatMap RL.temps
  | [] => rfl
  | r :: rest => by
    simp only [List.flatMap_cons, List.map_append, hs_temps rest]
    rfl

theorem readNames_chain_ker (B : SExpr) : ∀ (ls : List RL) (x : String),
    x ∈ readNames (mkChain (ls.map RL.ker) B) → x ∈ ls.flatMap RL.temps ∨ x ∈ readNames B
  | [], x, h => Or.inr (by simpa [mkChain] using h)
  | r :: rest, x, h => by
    simp only [List.map_cons, RL.ker, mkChain, readNames, hoistedLo, hoistedHi, List.mem_append, List.mem_cons,
      List.not_mem_nil, or_false, List.append_nil, List.nil_append, false_or] at h
    rcases h with (h | h) | h
    · exact Or.inl (by simp [RL.temps, h])
    · exact Or.inl (by simp [RL.temps, h])
    · rcases readNames_chain_ker B rest x h with h | h
      · exact Or.inl (by simp [h])
      · exact Or.inr h

theorem evalList_inameVars_cons (σ : Store) (pt : Idx) (u : String) (n : Int) (Γ : List (String × Int)) :
    ∀ (inames : List String), u ∉ inames →
    evalList { pt := pt, ix := (u, n) :: Γ, arr := σ } (inameVars inames) =
      evalList { pt := pt, ix := Γ, arr := σ } (inameVars inames)
  | [], _ => rfl
  | i :: is, h => by
    simp only [List.mem_cons, not_or] at h
    have ih := evalList_inameVars_cons σ pt u n Γ is h.2
    unfold inameVars at ih ⊢
    simp only [List.map_cons, evalList, ih]
    congr 1
    have hl : Env.lookupIx { pt := pt, ix := (u, n) :: Γ, arr := σ } i = Env.lookupIx { pt := pt, ix := Γ, arr := σ } i := by
      show lookupIxL ((u, n) :: Γ) i = lookupIxL Γ i
      rw [lookupIxL_cons, if_neg h.1]
    simp only [eval, hl]
    rfl

theorem exprOKList_inameVars (n : Nat) : ∀ (inames : List String), exprOKList n (inameVars inames) = true
  | [] => rfl
  | i :: is => by
    have ih := exprOKList_inameVars n is
    unfold inameVars at ih ⊢
    simp [exprOKList, exprOK, ih]

theorem den_shapeR {g : LGraph} {inp : String → Arr Val} {σ0 : Store} {inputNames : List String}
    (hy : Hyp g inp σ0 inputNames) {i : Nat} (hs : suppNodeR g i = true) :
    (den g inp i).shape = shapeOf g i := by
  cases hn : g.get i with
  | input name shape =>
    rw [den_input inp hn, (hy.inputs i name shape hn).2.2]
    simp [shapeOf, hn]
  | indexLambda shape e binds impl tag uo rvars =>
    rw [den_il hy.wf inp hn]
    simp [shapeOf, hn, evalIL]
  | refused w => simp [suppNodeR, suppNode, redNode, hn] at hs
  | other w => simp [suppNodeR, suppNode, redNode, hn] at hs

/-! ## the bound temporaries of a 0-d result: statements of their own -/

section Temps
variable {g : LGraph} {inp : String → Arr Val} {σ0 : Store} {inputNames E0 done : List String}

theorem emitTemps_spec (bd : List String) : ∀ (hsl : List Hoisted) (st : St),
    Inv g inp σ0 inputNames E0 done st → (hsl.map (·.temp)).Nodup →
    (∀ h ∈ hsl, ¬ arrNames inputNames st h.temp ∧ h.temp ∈ st.vng.existing ∧ h.temp ∉ E0 ∧
      ∀ x ∈ readNames h.e, arrNames inputNames st x) →
    Alloc σ0 (emitTemps bd hsl st).stmts →
    Inv g inp σ0 inputNames E0 done (emitTemps bd hsl st) ∧
    (∀ x, arrNames inputNames (emitTemps bd hsl st) x ↔ x ∈ hsl.map (·.temp) ∨ arrNames inputNames st x) ∧
    (∀ x, x ∉ hsl.map (·.temp) → (storeOf σ0 (emitTemps bd hsl st)).get? x = (storeOf σ0 st).get? x) ∧
    (∀ h ∈ hsl, ∃ a, (storeOf σ0 (emitTemps bd hsl st)).get? h.temp = some a ∧ a.shape = [] ∧
      a.get [] = eval { pt := [], ix := [], arr := storeOf σ0 st } h.e)
  | [], st, hinv, _, _, _ => ⟨hinv, by simp [emitTemps], fun _ _ => rfl, by simp⟩
  | h :: rest, st, hinv, hnd, hall, hal => by
    have hnd' : h.temp ∉ rest.map (·.temp) ∧ (rest.map (·.temp)).Nodup := List.nodup_cons.1 hnd
    obtain ⟨hname, hEx, hE0, hrd⟩ := hall h (by simp)
    rw [emitTemps_cons] at hal ⊢
    obtain ⟨hstm, _, _⟩ := emitTemps_fields bd rest (st.emit (tempStmt bd h))
    have hal1 : Alloc σ0 (tempStmt bd h :: st.stmts) :=
      hal.sub ⟨(rest.map (tempStmt bd)).reverse, by rw [hstm]; rfl⟩
    rw [tempStmt_eq] at hal1 hal ⊢
    obtain ⟨hinv1, hG1, hσ1, b, hb, hbs, hbq⟩ := Inv.emitL (id := h.id) (name := h.temp) (inames := []) (shape := [])
      (lets := []) (rhs := h.e) (deps := bd) hinv rfl rfl List.nodup_nil hname hEx (Or.inr hE0) hal1
      (fun hx => hname (hrd _ hx)) (by simp)
    obtain ⟨hinv', hG', hσ', hval'⟩ := emitTemps_spec bd rest _ hinv1 hnd'.2 (by
      intro h' hh'
      obtain ⟨a1, a2, a3, a4⟩ := hall h' (List.mem_cons_of_mem _ hh')
      refine ⟨fun hx => ?_, a2, a3, fun x hx => (hG1 x).2 (Or.inr (a4 x hx))⟩
      rcases (hG1 _).1 hx with hx | hx
      · exact hnd'.1 (hx ▸ List.mem_map.2 ⟨h', hh', rfl⟩)
      · exact a1 hx) hal
    refine ⟨hinv', ?_, ?_, ?_⟩
    · intro x
      rw [hG', hG1]
      simp only [List.map_cons, List.mem_cons]
      constructor
      · rintro (h1 | h1 | h1)
        · exact Or.inl (Or.inr h1)
        · exact Or.inl (Or.inl h1)
        · exact Or.inr h1
      · rintro ((h1 | h1) | h1)
        · exact Or.inr (Or.inl h1)
        · exact Or.inl h1
        · exact Or.inr (Or.inr h1)
    · intro x hx
      simp only [List.map_cons, List.mem_cons, not_or] at hx
      rw [hσ' x hx.2, hσ1 x hx.1]
    · intro h' hh'
      rcases List.mem_cons.1 hh' with rfl | hh'
      · refine ⟨b, by rw [hσ' _ hnd'.1]; exact hb, hbs, ?_⟩
        rw [hbq [] rfl]
        rfl
      · obtain ⟨a, ha1, ha2, ha3⟩ := hval' h' hh'
        refine ⟨a, ha1, ha2, ?_⟩
        rw [ha3]
        apply eval_congr h'.e
          { pt := [], ix := [], arr := storeOf σ0 (st.emit (storeStmt h.id h.temp [] [] [] h.e bd)) }
          { pt := [], ix := [], arr := storeOf σ0 st } rfl rfl
        intro x hx
        have hxG := (hall h' (List.mem_cons_of_mem _ hh')).2.2.2 x hx
        exact hσ1 x (fun e0 => hname (e0 ▸ hxG))

end Temps

/-! ## the traversal establishes the invariant -/

section Spec
variable {g : LGraph} {inp : String → Arr Val} {σ0 : Store} {inputNames E0 done : List String}

def SpecAtR (g : LGraph) (inp : String → Arr Val) (σ0 : Store) (inputNames E0 done : List String) (fuel : Nat) :
    Prop :=
  ∀ (i : Nat) (st : St) (r : Impl) (st' : St), mapNode g fuel i st = .ok (r, st') →
    suppAllR g fuel i = true → Inv g inp σ0 inputNames E0 done st → Alloc σ0 st'.stmts →
    Inv g inp σ0 inputNames E0 done st' ∧ (i, r) ∈ st'.results

theorem recAll_specR {fuel : Nat} (IH : SpecAtR g inp σ0 inputNames E0 done fuel) :
    ∀ (binds : List (String × Nat)) (st : St) (ns : List (String × Impl)) (st' : St),
      recAll (mapNode g fuel) binds st = .ok (ns, st') → (∀ b ∈ binds, suppAllR g fuel b.2 = true) →
      Inv g inp σ0 inputNames E0 done st → Alloc σ0 st'.stmts →
      Inv g inp σ0 inputNames E0 done st' ∧ NsRes binds ns st'.results
  | [], st, ns, st', h, _, hinv, _ => by
    obtain ⟨rfl, rfl⟩ := recAll_nil h
    exact ⟨hinv, trivial⟩
  | (n, c) :: bs, st, ns, st', h, hs, hinv, hal => by
    obtain ⟨r, st1, rs, h1, h2, rfl⟩ := recAll_cons h
    have hext := (recAll_extF (mapNode_extF fuel) bs st1 rs st' h2
      (fun b hb => hs b (List.mem_cons_of_mem _ hb))).ext
    obtain ⟨hinv1, hm1⟩ := IH c st r st1 h1 (hs (n, c) (by simp)) hinv (hal.sub hext.stmts)
    obtain ⟨hinv', hres⟩ := recAll_specR IH bs st1 rs st' h2 (fun b hb => hs b (List.mem_cons_of_mem _ hb))
      hinv1 hal
    exact ⟨hinv', rfl, hext.results _ hm1, hres⟩

/-- a stored REDUCTION of the fragment (result with axes): the invariant after its store -/
theorem red_spec (hy : Hyp g inp σ0 inputNames) (hE0 : ∀ x ∈ inputNames, x ∈ E0) {fuel i : Nat}
    (IH : SpecAtR g inp σ0 inputNames E0 done fuel) {st st' : St} {r : Impl} {shape : Shape} {e : SExpr}
    {binds : List (String × Nat)} {impl : Strategy} {tag : NameTag} {uo : List String} {rvars : List RVar}
    (hn : g.get i = .indexLambda shape e binds impl tag uo rvars) (hf : RedFacts g shape e binds impl uo rvars)
    (hkb : ∀ b ∈ binds, suppAllR g fuel b.2 = true)
    (hnd : shape.length ≠ 0)
    (hm : lookupResult st.results i = none) (h : mapNode g (fuel + 1) i st = .ok (r, st'))
    (hinv : Inv g inp σ0 inputNames E0 done st) (hal : Alloc σ0 st'.stmts) :
    Inv g inp σ0 inputNames E0 done st' ∧ (i, r) ∈ st'.results := by
  obtain ⟨uniq, stu, ns, st1, bd, hun, hrec, _, hst⟩ := mapNode_red_inv hn hf hm h
  obtain ⟨huq, du⟩ := uniqNames_inv hun
  have hextF := recAll_extF (mapNode_extF fuel) binds stu ns st1 hrec hkb
  have hnames := recAll_names hrec
  have hfound : ∀ x k, rankIn g binds x = some k → lookupNs ns x ≠ none := by
    intro x k hx hnone
    exact (lookupNs_none_iff.1 hnone) (by rw [hnames]; exact rankIn_some_mem hx)
  have hUex1 : ∀ p ∈ uniq, p.2 ∈ st1.vng.existing := fun p hp =>
    hextF.ext.ex _ ((du.mem _).2 (Or.inl (List.mem_map.2 ⟨p, hp, rfl⟩)))
  obtain ⟨name, st2, inames, st3, ls, st3', b', id, st4, deps, hnm, hins, hls, huniq, hd, _, hlg, _, hgu, hgen, hid, rfl, hst'⟩ :=
    ilStore_invR (rankIn g binds) (n := shape.length) (splitChain_mk e).symm hf.ne hf.nodup hf.rv hf.flags
      (huq.trans hf.uo) hf.body hf.ranks hfound hUex1 hst
  obtain ⟨deps', hem⟩ := emitStored_nd (hs := ls.flatMap RL.hs) (bd := bd) (id := id) (name := name)
    (inames := inames)
    (rhs := readBackBounds (ls.flatMap RL.hs) uniq (substIdx (inameVars inames) (mkChain (ls.map RL.renamed) b')))
    (deps := deps) (st := st4) hnd
  rw [hem, lets_emitStored] at hst'
  subst hst'
  -- the states
  have d1 := tempName_drew hnm
  obtain ⟨d2, hl2⟩ := St.vars_drew hins
  have hst4 : st4.stmts = st1.stmts := by
    obtain ⟨g', _, rfl⟩ := St.insnId_ok hid
    show st3'.stmts = _
    rw [hd.stmts, d2.stmts, d1.stmts]
  have hres4 : st4.results = st1.results := by
    obtain ⟨g', _, rfl⟩ := St.insnId_ok hid
    show st3'.results = _
    rw [hd.results, d2.results, d1.results]
  have hex34 : st4.vng.existing = st3'.vng.existing := by
    obtain ⟨g', _, rfl⟩ := St.insnId_ok hid
    rfl
  have hex13 : ∀ x ∈ st1.vng.existing, x ∈ st3.vng.existing := fun x hx =>
    (d2.mem x).2 (Or.inr (by rw [d1.ex]; exact List.mem_cons_of_mem _ hx))
  have hex14 : ∀ x ∈ st1.vng.existing, x ∈ st4.vng.existing := fun x hx => by
    rw [hex34]; exact (hd.mem x).2 (Or.inr (hex13 x hx))
  -- the bindings
  obtain ⟨hinv1, hres⟩ := recAll_specR IH binds stu ns st1 hrec hkb (hinv.drewMany du)
    (hal.sub ⟨[storeStmt id name inames shape (sortLets (letsOf (inameVars inames) ls))
      (readBackBounds (ls.flatMap RL.hs) uniq (substIdx (inameVars inames) (mkChain (ls.map RL.renamed) b')))
      deps'], by simp [St.remember, St.emit, hst4]⟩)
  have hinv4 : Inv g inp σ0 inputNames E0 done st4 := hinv1.grow hst4 hres4 hex14
  have hG41 : ∀ x, arrNames inputNames st4 x ↔ arrNames inputNames st1 x := by
    intro x; simp [arrNames, hst4]
  have hns4 := nsOK_of (g := g) (inp := inp) hinv4.results (by rw [hres4]; exact hres)
  -- names
  have hvs : ls.map (·.v) = (splitChain e).1.map (·.2.1) := by rw [← hls]; simp [RL.sem]
  have hus : uniq.map (·.2) = ls.map (·.u) := by rw [huniq]; simp [RL.pair]
  have hUst1 : ∀ u ∈ ls.map (·.u), u ∈ st1.vng.existing := by
    intro u hu
    rw [← hus] at hu
    obtain ⟨p, hp, rfl⟩ := List.mem_map.1 hu
    exact hUex1 p hp
  have hG4ex : ∀ x, arrNames inputNames st4 x → x ∈ st1.vng.existing :=
    fun x hx => hinv1.names x ((hG41 x).1 hx)
  have hUG : ∀ u ∈ ls.map (·.u), ¬ arrNames inputNames st4 u := by
    intro u hu hG
    have hufresh : u ∉ st.vng.existing := du.fresh u (by rw [hus]; exact hu)
    have hustu : u ∈ stu.vng.existing := (du.mem u).2 (Or.inl (by rw [hus]; exact hu))
    rcases (hG41 u).1 hG with hin | hin
    · exact hufresh (hinv.seeds u (hE0 u hin))
    · obtain ⟨new, hnew⟩ := hextF.ext.stmts
      rw [hnew, List.map_append, List.mem_append] at hin
      rcases hin with hin | hin
      · obtain ⟨s, hs, rfl⟩ := List.mem_map.1 hin
        exact hextF.fresh new hnew s hs hustu
      · rw [du.stmts] at hin
        exact hufresh (hinv.names u (Or.inr hin))
  have hname : ¬ arrNames inputNames st4 name := fun hx => d1.fresh (hG4ex name hx)
  have hnameEx : name ∈ st4.vng.existing := by
    rw [hex34]; exact (hd.mem name).2 (Or.inr ((d2.mem name).2 (Or.inr (by rw [d1.ex]; simp))))
  have hGin : ∀ x, arrNames inputNames st4 x → x ∉ inames := fun x hx hxi =>
    d2.fresh x hxi (by rw [d1.ex]; exact List.mem_cons_of_mem _ (hG4ex x hx))
  have hUin : ∀ u ∈ ls.map (·.u), u ∉ inames := fun u hu hxi =>
    d2.fresh u hxi (by rw [d1.ex]; exact List.mem_cons_of_mem _ (hUst1 u hu))
  have hTfresh : ∀ t ∈ ls.flatMap RL.temps, t ∉ st3.vng.existing := hd.fresh
  have hTin : ∀ t ∈ ls.flatMap RL.temps, t ∉ inames := fun t ht hti =>
    hTfresh t ht ((d2.mem t).2 (Or.inl hti))
  have hTU : ∀ t ∈ ls.flatMap RL.temps, t ∉ ls.map (·.u) := fun t ht htu =>
    hTfresh t ht (hex13 t (hUst1 t htu))
  have hTG : ∀ t ∈ ls.flatMap RL.temps, ¬ arrNames inputNames st4 t := fun t ht hG =>
    hTfresh t ht (hex13 t (hG4ex t hG))
  have hTname : name ∉ ls.flatMap RL.temps := fun ht =>
    hTfresh name ht ((d2.mem name).2 (Or.inr (by rw [d1.ex]; simp)))
  have hUname : name ∉ ls.map (·.u) := fun hu => d1.fresh (hUst1 name hu)
  have hlen : inames.length = shape.length := by rw [hl2, length_dimNames]
  -- the expression
  have hden := den_il hy.wf inp hn
  have hrk' : ranksOKS (rankOf (binds.map fun b => (b.1, den g inp b.2))) (uniq.map (·.1)) (splitChain e).2 = true := by
    rw [rankOf_binds binds (fun b hb => den_shapeR hy (suppAllR_node (hkb b hb))), huq, hf.uo]
    exact hf.ranks
  have hin : ∀ x u, lookupStr uniq x = some u → (ls.map (·.u)).reverse.contains u = true := by
    intro x u hxu
    have := (lookupStr_some_mem hxu).2
    rw [hus] at this
    simpa using this
  have hnsv : noScopeVars (ls.map (·.u)).reverse (splitChain e).2 = true := by
    apply noScopeVars_of_ranks (rankIn g binds) ((splitChain e).1.map (·.2.1)) _ shape.length _ _ hf.body hf.ranks
    intro u hu
    obtain ⟨r, hr, rfl⟩ := List.mem_map.1 (List.mem_reverse.1 hu)
    obtain ⟨a1, a2, _, _⟩ := hgu r hr
    refine ⟨a1, ?_⟩
    cases hrk : rankIn g binds r.u with
    | none => rfl
    | some k => exact absurd a2 (hfound _ k hrk)
  obtain ⟨hb1, hb2, _⟩ := genR_sound hns4 [] shape.length uniq (ls.map (·.u)).reverse hin [] (splitChain e).2 b'
    hf.body hrk' hnsv hgen
  have hb1' : exprOK (inameVars inames).length b' = true := by simpa [inameVars, hlen] using hb1
  have hsb : exprOK shape.length (substIdx (inameVars inames) b') = true :=
    exprOK_substIdx (inameVars inames) (exprOKList_inameVars _ inames) b' hb1'
  have hrhs : readBackBounds (ls.flatMap RL.hs) uniq (substIdx (inameVars inames) (mkChain (ls.map RL.renamed) b'))
      = mkChain (ls.map RL.ker) (substIdx (inameVars inames) b') := by
    rw [substIdx_chain_ker, readBackBounds_chain _ uniq _ hsb ls (fun r hr => any_temp_hs hr)]
  rw [hrhs] at hal ⊢
  -- the bounds
  have hrkB : rankOf (binds.map fun b => (b.1, den g inp b.2)) = rankIn g binds :=
    rankOf_binds binds (fun b hb => den_shapeR hy (suppAllR_node (hkb b hb)))
  have hbF : ∀ r ∈ ls, (exprOK shape.length r.lo = true ∧ ranksOK (rankIn g binds) r.lo = true) ∧
      exprOK shape.length r.hi = true ∧ ranksOK (rankIn g binds) r.hi = true := by
    intro r hr
    have hm : r.sem ∈ (splitChain e).1 := by rw [← hls]; exact List.mem_map.2 ⟨r, hr, rfl⟩
    exact hf.bounds r.sem hm
  have hbG : ∀ r ∈ ls, (exprOK shape.length r.lb = true ∧ ∀ x ∈ readNames r.lb, arrNames inputNames st4 x) ∧
      exprOK shape.length r.ub = true ∧ ∀ x ∈ readNames r.ub, arrNames inputNames st4 x := by
    intro r hr
    obtain ⟨⟨a1, a2⟩, a3, a4⟩ := hbF r hr
    obtain ⟨g1, g2⟩ := hlg r hr
    obtain ⟨x1, x2, _⟩ := gen_sound hns4 [] shape.length r.lo r.lb a1 (by rw [hrkB]; exact a2) g1
    obtain ⟨y1, y2, _⟩ := gen_sound hns4 [] shape.length r.hi r.ub a3 (by rw [hrkB]; exact a4) g2
    exact ⟨⟨x1, x2⟩, y1, y2⟩
  have hletReads : ∀ r ∈ ls, (∀ x ∈ readNames (substIdx (inameVars inames) r.lb), arrNames inputNames st4 x ∨ x ∈ inames) ∧
      (∀ x ∈ readNames (substIdx (inameVars inames) r.ub), arrNames inputNames st4 x ∨ x ∈ inames) := by
    intro r hr
    obtain ⟨⟨_, x2⟩, _, y2⟩ := hbG r hr
    constructor
    · intro x hx
      rcases readNames_substIdx_sub (inameVars inames) r.lb x hx with hx | hx
      · exact Or.inl (x2 x hx)
      · rw [readNamesList_inameVars] at hx; exact Or.inr hx
    · intro x hx
      rcases readNames_substIdx_sub (inameVars inames) r.ub x hx with hx | hx
      · exact Or.inl (y2 x hx)
      · rw [readNamesList_inameVars] at hx; exact Or.inr hx
  -- the store
  have hread : name ∉ readNames (mkChain (ls.map RL.ker) (substIdx (inameVars inames) b')) := by
    intro hx
    rcases readNames_chain_ker _ ls name hx with hx | hx
    · exact hTname hx
    · rcases readNames_substIdx_sub (inameVars inames) b' name hx with hx | hx
      · rcases hb2 name hx with hx | hx
        · exact hname hx
        · exact hUname (List.mem_reverse.1 hx)
      · rw [readNamesList_inameVars] at hx
        exact d2.fresh name hx (by rw [d1.ex]; simp)
  have hletsr : ∀ l ∈ sortLets (letsOf (inameVars inames) ls), name ∉ readNames l.2 := by
    intro l hl hx
    obtain ⟨r, hr, hc | hc⟩ := mem_letsOf ((sortLets_perm _).mem_iff.1 hl)
    · rw [hc] at hx
      rcases (hletReads r hr).1 name hx with h | h
      · exact hname h
      · exact d2.fresh name h (by rw [d1.ex]; simp)
    · rw [hc] at hx
      rcases (hletReads r hr).2 name hx with h | h
      · exact hname h
      · exact d2.fresh name h (by rw [d1.ex]; simp)
  obtain ⟨hinvE, hGE, hσE, b, hb, hbs, hbq⟩ := Inv.emitL (id := id) (deps := deps') hinv4 hf.ne hlen d2.nodup hname
    hnameEx (Or.inr (fun hE => d1.fresh (hinv1.seeds name hE)))
    (by simpa [St.remember, St.emit] using hal) hread hletsr
  refine ⟨Inv.remember hinvE ?_, by simp [St.remember]⟩
  refine ⟨(hGE name).2 (Or.inl rfl), b, hb, by rw [hbs, hden]; rfl, fun q hq => ?_⟩
  have hq' : inB shape q = true := by rw [hden] at hq; exact hq
  rw [hbq q hq', hden]
  show _ = eval (idxEnv q (binds.map fun b => (b.1, den g inp b.2))) e
  have hsafe := hy.safe i shape e binds impl tag uo rvars hn q hq'
  have he : e = mkChain (ls.map RL.sem) (splitChain e).2 := by rw [hls]; exact (splitChain_mk e).symm
  rw [he] at hsafe
  conv => rhs; rw [he]
  have hql : inames.length = q.length := by rw [hlen, inB_length hq']
  obtain ⟨hth, hσl⟩ := tempsHold_lets (pointEnv inames q []) (storeOf σ0 st4) (inameVars inames) ls hd.nodup (by
    intro r hr
    constructor
    · intro x hx ht
      rcases (hletReads r hr).1 x hx with h | h
      · exact hTG x ht h
      · exact hTin x ht h
    · intro x hx ht
      rcases (hletReads r hr).2 x hx with h | h
      · exact hTG x ht h
      · exact hTin x ht h)
  -- the namespace in the store with the private scalars
  have hnsl : NsOK (bindLets (pointEnv inames q []) (sortLets (letsOf (inameVars inames) ls)) (storeOf σ0 st4))
      (arrNames inputNames st4) ns (binds.map fun b => (b.1, den g inp b.2)) := by
    intro x r hx
    obtain ⟨D, hD, hok⟩ := hns4 x r hx
    exact ⟨D, hD, hok.mono (fun _ h => h) (fun y hy => hσl y (fun ht => hTG y ht hy))⟩
  have hevq := evalList_inameVars (storeOf σ0 st4) inames q [] d2.nodup hql [] (by simp)
  have hiv : (inameVars inames).length = shape.length := by simp [inameVars, hlen]
  have hVdisj : ∀ x, rankIn g binds x ≠ none → x ∉ ls.map (·.v) := by
    intro x hx hv
    cases hrk : rankIn g binds x with
    | none => exact hx hrk
    | some k => exact hf.disj x (by rw [← hvs]; exact hv) (rankIn_some_mem hrk)
  apply chain_eval _ _
    (fun Γ => Avoids (arrNames inputNames st4) Γ ∧
      evalList { pt := [], ix := Γ, arr := bindLets (pointEnv inames q []) (sortLets (letsOf (inameVars inames) ls)) (storeOf σ0 st4) }
        (inameVars inames) = idxVals q)
    [] q (splitChain e).2 (substIdx (inameVars inames) b') (ls.map (·.u)) (ls.flatMap RL.temps) (ls.map (·.v))
    _ _ hTU
    ?_ ls [] [] (pointEnv inames q []) ⟨fun x u h => by simp [lookupStr] at h, fun _ _ => rfl⟩
    ⟨avoids_pointEnv hGin q, evalList_inameVars _ inames q [] d2.nodup hql [] (by simp)⟩
    ?_ (fun _ _ => rfl) ?_ (by rw [hvs]; exact hf.nodup) (by rw [← hus]; exact du.nodup) hth ?_ hsafe ?_
  · rintro Γ u n hu ⟨hav, hev⟩
    refine ⟨fun x hx => ?_, ?_⟩
    · rw [lookupIxL_cons, if_neg (fun (e : u = x) => hUG u hu (by rw [e]; exact hx))]
      exact hav x hx
    · rw [evalList_inameVars_cons _ _ _ _ _ inames (hUin u hu)]
      exact hev
  · intro t ht
    rw [lookup_pointEnv_outer inames q [] t (hTin t ht)]
    rfl
  · intro r hr
    refine ⟨List.mem_map.2 ⟨r, hr, rfl⟩, List.mem_flatMap.2 ⟨r, hr, by simp [RL.temps]⟩,
      List.mem_flatMap.2 ⟨r, hr, by simp [RL.temps]⟩, List.mem_map.2 ⟨r, hr, rfl⟩, by simp, by simp⟩
  · -- a bound that is evaluated has the value its private scalar holds
    intro r hr Δ' hΔ'
    obtain ⟨⟨a1, a2⟩, a3, a4⟩ := hbF r hr
    obtain ⟨g1, g2⟩ := hlg r hr
    obtain ⟨⟨x1, _⟩, y1, _⟩ := hbG r hr
    have hΔrk : ∀ x, rankIn g binds x ≠ none → lookupIxL Δ' x = none := fun x hx => hΔ' x (hVdisj x hx)
    constructor
    · intro hs
      have hs0 := safe_ix_irrel q Δ' _ shape.length (rankIn g binds) hΔrk r.lo a1 a2 hs
      rw [eval_ix_irrel q Δ' _ shape.length (rankIn g binds) hΔrk r.lo a1 a2,
        eval_substIdx (inameVars inames) q r.lb _ (by rw [hiv]; exact x1) hevq]
      exact ((gen_sound hns4 q shape.length r.lo r.lb a1 (by rw [hrkB]; exact a2) g1).2.2 _
        (avoids_pointEnv hGin q) hs0).symm
    · intro hs
      have hs0 := safe_ix_irrel q Δ' _ shape.length (rankIn g binds) hΔrk r.hi a3 a4 hs
      rw [eval_ix_irrel q Δ' _ shape.length (rankIn g binds) hΔrk r.hi a3 a4,
        eval_substIdx (inameVars inames) q r.ub _ (by rw [hiv]; exact y1) hevq]
      exact ((gen_sound hns4 q shape.length r.hi r.ub a3 (by rw [hrkB]; exact a4) g2).2.2 _
        (avoids_pointEnv hGin q) hs0).symm
  · rintro Δ' Γ' hren ⟨hav, hev⟩ hsafeb
    rw [List.nil_append, ← huniq] at hren
    rw [eval_substIdx (inameVars inames) q b' _ hb1' hev]
    exact (genR_sound hnsl q shape.length uniq (ls.map (·.u)).reverse hin Δ' (splitChain e).2 b'
      hf.body hrk' hnsv hgen).2.2 Γ' hav hren hsafeb

/-- a stored REDUCTION of the fragment with a 0-d result: the bound temporaries are statements -/
theorem red_spec0 (hy : Hyp g inp σ0 inputNames) (hE0 : ∀ x ∈ inputNames, x ∈ E0) {fuel i : Nat}
    (IH : SpecAtR g inp σ0 inputNames E0 done fuel) {st st' : St} {r : Impl} {shape : Shape} {e : SExpr}
    {binds : List (String × Nat)} {impl : Strategy} {tag : NameTag} {uo : List String} {rvars : List RVar}
    (hn : g.get i = .indexLambda shape e binds impl tag uo rvars) (hf : RedFacts g shape e binds impl uo rvars)
    (hkb : ∀ b ∈ binds, suppAllR g fuel b.2 = true)
    (h0 : shape.length = 0)
    (hm : lookupResult st.results i = none) (h : mapNode g (fuel + 1) i st = .ok (r, st'))
    (hinv : Inv g inp σ0 inputNames E0 done st) (hal : Alloc σ0 st'.stmts) :
    Inv g inp σ0 inputNames E0 done st' ∧ (i, r) ∈ st'.results := by
  obtain ⟨uniq, stu, ns, st1, bd, hun, hrec, _, hst⟩ := mapNode_red_inv hn hf hm h
  obtain ⟨huq, du⟩ := uniqNames_inv hun
  have hextF := recAll_extF (mapNode_extF fuel) binds stu ns st1 hrec hkb
  have hnames := recAll_names hrec
  have hfound : ∀ x k, rankIn g binds x = some k → lookupNs ns x ≠ none := by
    intro x k hx hnone
    exact (lookupNs_none_iff.1 hnone) (by rw [hnames]; exact rankIn_some_mem hx)
  have hUex1 : ∀ p ∈ uniq, p.2 ∈ st1.vng.existing := fun p hp =>
    hextF.ext.ex _ ((du.mem _).2 (Or.inl (List.mem_map.2 ⟨p, hp, rfl⟩)))
  obtain ⟨name, st2, inames, st3, ls, st3', b', id, st4, deps, hnm, hins, hls, huniq, hd, _, hlg, _, hgu, hgen, hid, rfl, hst'⟩ :=
    ilStore_invR (rankIn g binds) (n := shape.length) (splitChain_mk e).symm hf.ne hf.nodup hf.rv hf.flags
      (huq.trans hf.uo) hf.body hf.ranks hfound hUex1 hst
  rw [emitStored_0d h0] at hst'
  subst hst'
  -- the states
  have d1 := tempName_drew hnm
  obtain ⟨d2, hl2⟩ := St.vars_drew hins
  have hst4 : st4.stmts = st1.stmts := by
    obtain ⟨g', _, rfl⟩ := St.insnId_ok hid
    show st3'.stmts = _
    rw [hd.stmts, d2.stmts, d1.stmts]
  have hres4 : st4.results = st1.results := by
    obtain ⟨g', _, rfl⟩ := St.insnId_ok hid
    show st3'.results = _
    rw [hd.results, d2.results, d1.results]
  have hex34 : st4.vng.existing = st3'.vng.existing := by
    obtain ⟨g', _, rfl⟩ := St.insnId_ok hid
    rfl
  have hex13 : ∀ x ∈ st1.vng.existing, x ∈ st3.vng.existing := fun x hx =>
    (d2.mem x).2 (Or.inr (by rw [d1.ex]; exact List.mem_cons_of_mem _ hx))
  have hex14 : ∀ x ∈ st1.vng.existing, x ∈ st4.vng.existing := fun x hx => by
    rw [hex34]; exact (hd.mem x).2 (Or.inr (hex13 x hx))
  -- the bindings
  obtain ⟨hinv1, hres⟩ := recAll_specR IH binds stu ns st1 hrec hkb (hinv.drewMany du)
    (hal.sub ⟨storeStmt id name inames shape []
      (readBackBounds (ls.flatMap RL.hs) uniq (substIdx (inameVars inames) (mkChain (ls.map RL.renamed) b')))
      deps :: ((ls.flatMap RL.hs).map (tempStmt bd)).reverse, by
        simp [St.remember, St.emit, (emitTemps_fields bd (ls.flatMap RL.hs) st4).1, hst4]⟩)
  have hinv4 : Inv g inp σ0 inputNames E0 done st4 := hinv1.grow hst4 hres4 hex14
  have hG41 : ∀ x, arrNames inputNames st4 x ↔ arrNames inputNames st1 x := by
    intro x; simp [arrNames, hst4]
  have hns4 := nsOK_of (g := g) (inp := inp) hinv4.results (by rw [hres4]; exact hres)
  -- names
  have hvs : ls.map (·.v) = (splitChain e).1.map (·.2.1) := by rw [← hls]; simp [RL.sem]
  have hus : uniq.map (·.2) = ls.map (·.u) := by rw [huniq]; simp [RL.pair]
  have hUst1 : ∀ u ∈ ls.map (·.u), u ∈ st1.vng.existing := by
    intro u hu
    rw [← hus] at hu
    obtain ⟨p, hp, rfl⟩ := List.mem_map.1 hu
    exact hUex1 p hp
  have hG4ex : ∀ x, arrNames inputNames st4 x → x ∈ st1.vng.existing :=
    fun x hx => hinv1.names x ((hG41 x).1 hx)
  have hUG : ∀ u ∈ ls.map (·.u), ¬ arrNames inputNames st4 u := by
    intro u hu hG
    have hufresh : u ∉ st.vng.existing := du.fresh u (by rw [hus]; exact hu)
    have hustu : u ∈ stu.vng.existing := (du.mem u).2 (Or.inl (by rw [hus]; exact hu))
    rcases (hG41 u).1 hG with hin | hin
    · exact hufresh (hinv.seeds u (hE0 u hin))
    · obtain ⟨new, hnew⟩ := hextF.ext.stmts
      rw [hnew, List.map_append, List.mem_append] at hin
      rcases hin with hin | hin
      · obtain ⟨s, hs, rfl⟩ := List.mem_map.1 hin
        exact hextF.fresh new hnew s hs hustu
      · rw [du.stmts] at hin
        exact hufresh (hinv.names u (Or.inr hin))
  have hname : ¬ arrNames inputNames st4 name := fun hx => d1.fresh (hG4ex name hx)
  have hnameEx : name ∈ st4.vng.existing := by
    rw [hex34]; exact (hd.mem name).2 (Or.inr ((d2.mem name).2 (Or.inr (by rw [d1.ex]; simp))))
  have hGin : ∀ x, arrNames inputNames st4 x → x ∉ inames := fun x hx hxi =>
    d2.fresh x hxi (by rw [d1.ex]; exact List.mem_cons_of_mem _ (hG4ex x hx))
  have hUin : ∀ u ∈ ls.map (·.u), u ∉ inames := fun u hu hxi =>
    d2.fresh u hxi (by rw [d1.ex]; exact List.mem_cons_of_mem _ (hUst1 u hu))
  have hTfresh : ∀ t ∈ ls.flatMap RL.temps, t ∉ st3.vng.existing := hd.fresh
  have hTin : ∀ t ∈ ls.flatMap RL.temps, t ∉ inames := fun t ht hti =>
    hTfresh t ht ((d2.mem t).2 (Or.inl hti))
  have hTU : ∀ t ∈ ls.flatMap RL.temps, t ∉ ls.map (·.u) := fun t ht htu =>
    hTfresh t ht (hex13 t (hUst1 t htu))
  have hTG : ∀ t ∈ ls.flatMap RL.temps, ¬ arrNames inputNames st4 t := fun t ht hG =>
    hTfresh t ht (hex13 t (hG4ex t hG))
  have hTname : name ∉ ls.flatMap RL.temps := fun ht =>
    hTfresh name ht ((d2.mem name).2 (Or.inr (by rw [d1.ex]; simp)))
  have hUname : name ∉ ls.map (·.u) := fun hu => d1.fresh (hUst1 name hu)
  have hlen : inames.length = shape.length := by rw [hl2, length_dimNames]
  -- the expression
  have hden := den_il hy.wf inp hn
  have hrk' : ranksOKS (rankOf (binds.map fun b => (b.1, den g inp b.2))) (uniq.map (·.1)) (splitChain e).2 = true := by
    rw [rankOf_binds binds (fun b hb => den_shapeR hy (suppAllR_node (hkb b hb))), huq, hf.uo]
    exact hf.ranks
  have hin : ∀ x u, lookupStr uniq x = some u → (ls.map (·.u)).reverse.contains u = true := by
    intro x u hxu
    have := (lookupStr_some_mem hxu).2
    rw [hus] at this
    simpa using this
  have hnsv : noScopeVars (ls.map (·.u)).reverse (splitChain e).2 = true := by
    apply noScopeVars_of_ranks (rankIn g binds) ((splitChain e).1.map (·.2.1)) _ shape.length _ _ hf.body hf.ranks
    intro u hu
    obtain ⟨r, hr, rfl⟩ := List.mem_map.1 (List.mem_reverse.1 hu)
    obtain ⟨a1, a2, _, _⟩ := hgu r hr
    refine ⟨a1, ?_⟩
    cases hrk : rankIn g binds r.u with
    | none => rfl
    | some k => exact absurd a2 (hfound _ k hrk)
  obtain ⟨hb1, hb2, _⟩ := genR_sound hns4 [] shape.length uniq (ls.map (·.u)).reverse hin [] (splitChain e).2 b'
    hf.body hrk' hnsv hgen
  have hb1' : exprOK (inameVars inames).length b' = true := by simpa [inameVars, hlen] using hb1
  have hsb : exprOK shape.length (substIdx (inameVars inames) b') = true :=
    exprOK_substIdx (inameVars inames) (exprOKList_inameVars _ inames) b' hb1'
  have hrhs : readBackBounds (ls.flatMap RL.hs) uniq (substIdx (inameVars inames) (mkChain (ls.map RL.renamed) b'))
      = mkChain (ls.map RL.ker) (substIdx (inameVars inames) b') := by
    rw [substIdx_chain_ker, readBackBounds_chain _ uniq _ hsb ls (fun r hr => any_temp_hs hr)]
  rw [hrhs] at hal ⊢
  -- the bounds
  have hrkB : rankOf (binds.map fun b => (b.1, den g inp b.2)) = rankIn g binds :=
    rankOf_binds binds (fun b hb => den_shapeR hy (suppAllR_node (hkb b hb)))
  have hbF : ∀ r ∈ ls, (exprOK shape.length r.lo = true ∧ ranksOK (rankIn g binds) r.lo = true) ∧
      exprOK shape.length r.hi = true ∧ ranksOK (rankIn g binds) r.hi = true := by
    intro r hr
    have hm : r.sem ∈ (splitChain e).1 := by rw [← hls]; exact List.mem_map.2 ⟨r, hr, rfl⟩
    exact hf.bounds r.sem hm
  have hbG : ∀ r ∈ ls, (exprOK shape.length r.lb = true ∧ ∀ x ∈ readNames r.lb, arrNames inputNames st4 x) ∧
      exprOK shape.length r.ub = true ∧ ∀ x ∈ readNames r.ub, arrNames inputNames st4 x := by
    intro r hr
    obtain ⟨⟨a1, a2⟩, a3, a4⟩ := hbF r hr
    obtain ⟨g1, g2⟩ := hlg r hr
    obtain ⟨x1, x2, _⟩ := gen_sound hns4 [] shape.length r.lo r.lb a1 (by rw [hrkB]; exact a2) g1
    obtain ⟨y1, y2, _⟩ := gen_sound hns4 [] shape.length r.hi r.ub a3 (by rw [hrkB]; exact a4) g2
    exact ⟨⟨x1, x2⟩, y1, y2⟩
  -- the bound temporaries
  have htn : (ls.flatMap RL.hs).map (·.temp) = ls.flatMap RL.temps := hs_temps ls
  obtain ⟨hstmT, hresT, hvngT⟩ := emitTemps_fields bd (ls.flatMap RL.hs) st4
  obtain ⟨hinvT, hGT, hσT, hvalT⟩ := emitTemps_spec (g := g) (inp := inp) (σ0 := σ0) (inputNames := inputNames)
    (E0 := E0) (done := done) bd (ls.flatMap RL.hs) st4 hinv4 (by rw [htn]; exact hd.nodup) (by
      intro h' hh'
      have htm : h'.temp ∈ ls.flatMap RL.temps := by rw [← htn]; exact List.mem_map.2 ⟨h', hh', rfl⟩
      refine ⟨hTG _ htm, by rw [hex34]; exact (hd.mem _).2 (Or.inl htm),
        fun hE => hTfresh _ htm (hex13 _ (hinv1.seeds _ hE)), ?_⟩
      obtain ⟨r0, hr0, hin0⟩ := List.mem_flatMap.1 hh'
      simp only [RL.hs, List.mem_cons, List.mem_nil_iff, or_false] at hin0
      rcases hin0 with rfl | rfl
      · exact (hbG r0 hr0).1.2
      · exact (hbG r0 hr0).2.2)
    (hal.sub ⟨[storeStmt id name inames shape [] (mkChain (ls.map RL.ker) (substIdx (inameVars inames) b')) deps],
      by simp [St.remember, St.emit]⟩)
  rw [htn] at hGT hσT
  have hth : TempsHold (storeOf σ0 (emitTemps bd (ls.flatMap RL.hs) st4))
      (fun r => eval { pt := [], ix := [], arr := storeOf σ0 st4 } r.lb)
      (fun r => eval { pt := [], ix := [], arr := storeOf σ0 st4 } r.ub) ls := by
    intro r hr
    exact ⟨hvalT ⟨r.v, r.tl, r.il, r.lb⟩ (List.mem_flatMap.2 ⟨r, hr, by simp [RL.hs]⟩),
      hvalT ⟨r.v, r.tu, r.iu, r.ub⟩ (List.mem_flatMap.2 ⟨r, hr, by simp [RL.hs]⟩)⟩
  -- the store
  have hread : name ∉ readNames (mkChain (ls.map RL.ker) (substIdx (inameVars inames) b')) := by
    intro hx
    rcases readNames_chain_ker _ ls name hx with hx | hx
    · exact hTname hx
    · rcases readNames_substIdx_sub (inameVars inames) b' name hx with hx | hx
      · rcases hb2 name hx with hx | hx
        · exact hname hx
        · exact hUname (List.mem_reverse.1 hx)
      · rw [readNamesList_inameVars] at hx
        exact d2.fresh name hx (by rw [d1.ex]; simp)
  have hnameT : ¬ arrNames inputNames (emitTemps bd (ls.flatMap RL.hs) st4) name := by
    intro hx
    rcases (hGT name).1 hx with hx | hx
    · exact hTname hx
    · exact hname hx
  obtain ⟨hinvE, hGE, hσE, b, hb, hbs, hbq⟩ := Inv.emitL (id := id) (lets := []) (deps := deps) hinvT hf.ne hlen
    d2.nodup hnameT (by rw [hvngT]; exact hnameEx) (Or.inr (fun hE => d1.fresh (hinv1.seeds name hE)))
    (by simpa [St.remember, St.emit] using hal) hread (by simp)
  refine ⟨Inv.remember hinvE ?_, by simp [St.remember]⟩
  refine ⟨(hGE name).2 (Or.inl rfl), b, hb, by rw [hbs, hden]; rfl, fun q hq => ?_⟩
  have hq' : inB shape q = true := by rw [hden] at hq; exact hq
  rw [hbq q hq', hden]
  show _ = eval (idxEnv q (binds.map fun b => (b.1, den g inp b.2))) e
  simp only [bindLets]
  have hsafe := hy.safe i shape e binds impl tag uo rvars hn q hq'
  have he : e = mkChain (ls.map RL.sem) (splitChain e).2 := by rw [hls]; exact (splitChain_mk e).symm
  rw [he] at hsafe
  conv => rhs; rw [he]
  have hql : inames.length = q.length := by rw [hlen, inB_length hq']
  -- the namespace in the store after the bound temporaries
  have hnsl : NsOK (storeOf σ0 (emitTemps bd (ls.flatMap RL.hs) st4))
      (arrNames inputNames st4) ns (binds.map fun b => (b.1, den g inp b.2)) := by
    intro x r hx
    obtain ⟨D, hD, hok⟩ := hns4 x r hx
    exact ⟨D, hD, hok.mono (fun _ h => h) (fun y hy => hσT y (fun ht => hTG y ht hy))⟩
  have hshape0 : shape = [] := List.length_eq_zero_iff.1 h0
  have hq0 : q = [] := List.length_eq_zero_iff.1 (by rw [inB_length hq', h0])
  have hin0 : inames = [] := List.length_eq_zero_iff.1 (by rw [hlen, h0])
  have hVdisj : ∀ x, rankIn g binds x ≠ none → x ∉ ls.map (·.v) := by
    intro x hx hv
    cases hrk : rankIn g binds x with
    | none => exact hx hrk
    | some k => exact hf.disj x (by rw [← hvs]; exact hv) (rankIn_some_mem hrk)
  apply chain_eval _ _
    (fun Γ => Avoids (arrNames inputNames st4) Γ ∧
      evalList { pt := [], ix := Γ, arr := storeOf σ0 (emitTemps bd (ls.flatMap RL.hs) st4) }
        (inameVars inames) = idxVals q)
    [] q (splitChain e).2 (substIdx (inameVars inames) b') (ls.map (·.u)) (ls.flatMap RL.temps) (ls.map (·.v))
    _ _ hTU
    ?_ ls [] [] (pointEnv inames q []) ⟨fun x u h => by simp [lookupStr] at h, fun _ _ => rfl⟩
    ⟨avoids_pointEnv hGin q, evalList_inameVars _ inames q [] d2.nodup hql [] (by simp)⟩
    ?_ (fun _ _ => rfl) ?_ (by rw [hvs]; exact hf.nodup) (by rw [← hus]; exact du.nodup) hth ?_ hsafe ?_
  · rintro Γ u n hu ⟨hav, hev⟩
    refine ⟨fun x hx => ?_, ?_⟩
    · rw [lookupIxL_cons, if_neg (fun (e : u = x) => hUG u hu (by rw [e]; exact hx))]
      exact hav x hx
    · rw [evalList_inameVars_cons _ _ _ _ _ inames (hUin u hu)]
      exact hev
  · intro t ht
    rw [lookup_pointEnv_outer inames q [] t (hTin t ht)]
    rfl
  · intro r hr
    refine ⟨List.mem_map.2 ⟨r, hr, rfl⟩, List.mem_flatMap.2 ⟨r, hr, by simp [RL.temps]⟩,
      List.mem_flatMap.2 ⟨r, hr, by simp [RL.temps]⟩, List.mem_map.2 ⟨r, hr, rfl⟩, by simp, by simp⟩
  · -- a bound that is evaluated has the value its temporary holds
    intro r hr Δ' hΔ'
    obtain ⟨⟨a1, a2⟩, a3, a4⟩ := hbF r hr
    obtain ⟨g1, g2⟩ := hlg r hr
    have hΔrk : ∀ x, rankIn g binds x ≠ none → lookupIxL Δ' x = none := fun x hx => hΔ' x (hVdisj x hx)
    have hav0 : Avoids (arrNames inputNames st4) [] := fun _ _ => rfl
    subst hq0
    constructor
    · intro hs
      have hs0 := safe_ix_irrel [] Δ' _ shape.length (rankIn g binds) hΔrk r.lo a1 a2 hs
      rw [eval_ix_irrel [] Δ' _ shape.length (rankIn g binds) hΔrk r.lo a1 a2]
      exact ((gen_sound hns4 [] shape.length r.lo r.lb a1 (by rw [hrkB]; exact a2) g1).2.2 _ hav0 hs0).symm
    · intro hs
      have hs0 := safe_ix_irrel [] Δ' _ shape.length (rankIn g binds) hΔrk r.hi a3 a4 hs
      rw [eval_ix_irrel [] Δ' _ shape.length (rankIn g binds) hΔrk r.hi a3 a4]
      exact ((gen_sound hns4 [] shape.length r.hi r.ub a3 (by rw [hrkB]; exact a4) g2).2.2 _ hav0 hs0).symm
  · rintro Δ' Γ' hren ⟨hav, hev⟩ hsafeb
    rw [List.nil_append, ← huniq] at hren
    rw [eval_substIdx (inameVars inames) q b' _ hb1' hev]
    exact (genR_sound hnsl q shape.length uniq (ls.map (·.u)).reverse hin Δ' (splitChain e).2 b'
      hf.body hrk' hnsv hgen).2.2 Γ' hav hren hsafeb

theorem mapNode_specR (hy : Hyp g inp σ0 inputNames) (hE0 : ∀ x ∈ inputNames, x ∈ E0)
    (hdone : ∀ x ∈ done, x ∉ inputNames) :
    ∀ (fuel : Nat), SpecAtR g inp σ0 inputNames E0 done fuel
  | 0 => by
    intro i st r st' h
    simp [mapNode] at h
  | fuel + 1 => by
    intro i st r st' h hs hinv hal
    obtain ⟨hsn, hkids⟩ := suppAllR_succ hs
    have IH : SpecAtR g inp σ0 inputNames E0 done fuel := mapNode_specR hy hE0 hdone fuel
    cases hm : lookupResult st.results i with
    | some r0 =>
      unfold mapNode at h
      simp only [hm, Res.ok.injEq, Prod.mk.injEq] at h
      obtain ⟨rfl, rfl⟩ := h
      exact ⟨hinv, lookupResult_mem hm⟩
    | none =>
      cases hn : g.get i with
      | refused w => simp [suppNodeR, suppNode, redNode, hn] at hsn
      | other w => simp [suppNodeR, suppNode, redNode, hn] at hsn
      | input name shape =>
        unfold mapNode at h
        simp only [hm, hn, Res.ok.injEq, Prod.mk.injEq] at h
        obtain ⟨rfl, rfl⟩ := h
        obtain ⟨hin, hσ0, _⟩ := hy.inputs i name shape hn
        refine ⟨⟨hinv.names, hinv.seeds, ?_, hinv.active, hinv.origin⟩, by simp [St.remember]⟩
        intro j r hm'
        simp only [St.remember, List.mem_cons, Prod.mk.injEq] at hm'
        rcases hm' with ⟨rfl, rfl⟩ | hm'
        · refine ⟨Or.inl hin, inp name, ?_, by rw [den_input inp hn], fun q _ => by rw [den_input inp hn]⟩
          show (storeOf σ0 st).get? name = _
          unfold storeOf
          rw [execOrder_frame name _ σ0 (fun s hs => Or.inr (fun e => ?_))]
          · exact hσ0
          · have hs' := List.mem_reverse.1 hs
            rcases hinv.origin s hs' with ho | ho
            · exact hdone name (e ▸ ho) hin
            · exact ho (e ▸ hE0 name hin)
        · exact hinv.results j r hm'
      | indexLambda shape e binds impl tag uo rvars =>
        have hkb : ∀ b ∈ binds, suppAllR g fuel b.2 = true :=
          fun b hb => hkids b.2 (by simp only [kidsOf, hn]; exact List.mem_map.2 ⟨b, hb, rfl⟩)
        rcases suppNodeR_cases hsn with hp | ⟨_, hred⟩
        · -- the reduction-free index lambda (as in `PtProofs.C01Gen.mapNode_spec`)
          obtain ⟨_, _, ns, st1, hrec, hcase⟩ := mapNode_il_inv hn hp hm h
          have hfrag := hp
          simp only [suppNode, hn, Bool.and_eq_true, Bool.not_eq_true'] at hfrag
          obtain ⟨⟨⟨⟨⟨hne, _⟩, _⟩, hok⟩, hrk⟩, _⟩ := hfrag
          have hden := den_il hy.wf inp hn
          have hrk' : ranksOK (rankOf (binds.map fun b => (b.1, den g inp b.2))) e = true := by
            rw [rankOf_binds binds (fun b hb => den_shapeR hy (suppAllR_node (hkb b hb)))]; exact hrk
          have hsafe := hy.safe i shape e binds impl tag uo rvars hn
          rcases hcase with hc | hc
          · -- inlined
            obtain ⟨le, hgen, rfl, rfl⟩ := ilInline_inv hc
            obtain ⟨hinv1, hres⟩ := recAll_specR IH binds st ns st1 hrec hkb hinv
              (hal.sub ⟨[], rfl⟩)
            have hns := nsOK_of (g := g) (inp := inp) hinv1.results hres
            refine ⟨⟨hinv1.names, hinv1.seeds, ?_, hinv1.active, hinv1.origin⟩, by simp [St.remember]⟩
            intro j r hm'
            simp only [St.remember, List.mem_cons, Prod.mk.injEq] at hm'
            rcases hm' with ⟨rfl, rfl⟩ | hm'
            · show ImplOK (storeOf σ0 st1) (arrNames inputNames st1) _ _
              rw [hden]
              refine ⟨?_, ?_, fun q Γ hq hΓ => ?_⟩
              · exact (gen_sound hns [] shape.length e le hok hrk' hgen).1
              · exact (gen_sound hns [] shape.length e le hok hrk' hgen).2.1
              · exact (gen_sound hns q shape.length e le hok hrk' hgen).2.2 Γ hΓ (hsafe q hq)
            · exact hinv1.results j r hm'
          · -- stored
            obtain ⟨name, st2, inames, st3, le, id, st4, hnm, hins, hgen, hid, rfl, rfl⟩ := ilStore_inv hc
            have d1 := tempName_drew hnm
            obtain ⟨d2, hl2⟩ := St.vars_drew hins
            have hst4 : st4.stmts = st1.stmts := by
              obtain ⟨g', _, rfl⟩ := St.insnId_ok hid
              show st3.stmts = _
              rw [d2.stmts, d1.stmts]
            obtain ⟨hinv1, hres⟩ := recAll_specR IH binds st ns st1 hrec hkb hinv
              (hal.sub ⟨[storeStmt id name inames shape [] (substIdx (inameVars inames) le) (genDeps ns [] e)],
                by simp [St.remember, St.emit, hst4]⟩)
            have hinv4 : Inv g inp σ0 inputNames E0 done st4 := ((hinv1.drew d1).drewMany d2).insnId hid
            have hres4 : NsRes binds ns st4.results := by
              obtain ⟨g', _, rfl⟩ := St.insnId_ok hid
              show NsRes binds ns st3.results
              rw [d2.results, d1.results]; exact hres
            have hns := nsOK_of (g := g) (inp := inp) hinv4.results hres4
            have hG4 : ∀ x, arrNames inputNames st4 x → x ∈ st1.vng.existing := by
              intro x hx
              apply hinv1.names
              simpa [arrNames, hst4] using hx
            have hname : ¬ arrNames inputNames st4 name := fun hx => d1.fresh (hG4 name hx)
            have hnameEx : name ∈ st4.vng.existing := by
              obtain ⟨g', _, rfl⟩ := St.insnId_ok hid
              show name ∈ st3.vng.existing
              exact (d2.mem name).2 (Or.inr (by rw [d1.ex]; simp))
            have hGin : ∀ x, arrNames inputNames st4 x → x ∉ inames := by
              intro x hx hxi
              exact d2.fresh x hxi (by rw [d1.ex]; exact List.mem_cons_of_mem _ (hG4 x hx))
            have hlen : inames.length = shape.length := by rw [hl2, length_dimNames]
            obtain ⟨hle1, hle2, hle3⟩ := (fun q => gen_sound hns q shape.length e le hok hrk' hgen) []
            have := Inv.emit (i := i) (id := id) (deps := genDeps ns [] e) hinv4 hne hlen d2.nodup hname hnameEx
              (Or.inr (fun hE => d1.fresh (hinv1.seeds name hE)))
              (by simpa [St.remember, St.emit] using hal)
              (by rw [hden]; rfl)
              (by
                intro hx
                rcases readNames_substIdx_sub (inameVars inames) le name hx with hx | hx
                · exact hname (hle2 name hx)
                · rw [readNamesList_inameVars] at hx
                  exact d2.fresh name hx (by rw [d1.ex]; simp))
              (by
                intro q hq
                have hql : inames.length = q.length := by rw [hlen, inB_length hq]
                have hvals := evalList_inameVars (storeOf σ0 st4) inames q [] d2.nodup hql [] (by simp)
                have hle1' : exprOK (inameVars inames).length le = true := by
                  simpa [inameVars, hlen] using hle1
                rw [eval_substIdx (inameVars inames) q le _ hle1' hvals, hden]
                exact (gen_sound hns q shape.length e le hok hrk' hgen).2.2 _ (avoids_pointEnv hGin q)
                  (hsafe q hq))
            exact ⟨this, by simp [St.remember]⟩
        · by_cases h0 : shape.length = 0
          · exact red_spec0 hy hE0 IH hn (redNode_facts hn hred) hkb h0 hm h hinv hal
          · exact red_spec hy hE0 IH hn (redNode_facts hn hred) hkb h0 hm h hinv hal

end Spec

theorem shape_ne_R {g : LGraph} {i : Nat} (h : suppNodeR g i = true) : isEmptyShape (shapeOf g i) = false := by
  cases hn : g.get i with
  | input nm sh =>
    have : suppNode g i = true := by
      rcases suppNodeR_cases h with hp | ⟨_, hr⟩
      · exact hp
      · simp [redNode, hn] at hr
    simpa [suppNode, hn, shapeOf] using this
  | indexLambda sh e binds impl tag uo rvars =>
    rcases suppNodeR_cases h with hp | ⟨_, hr⟩
    · have := hp
      simp only [suppNode, hn, Bool.and_eq_true, Bool.not_eq_true'] at this
      simpa [shapeOf, hn] using this.1.1.1.1.1
    · simpa [shapeOf, hn] using (redNode_facts hn hr).ne
  | refused w => simp [suppNodeR, suppNode, redNode, hn] at h
  | other w => simp [suppNodeR, suppNode, redNode, hn] at h

section Outputs
variable {g : LGraph} {inp : String → Arr Val} {σ0 : Store} {inputNames E0 done : List String}

theorem storeOutputs_extR {fuel : Nat} : ∀ (outs : List (String × Nat)) (st st' : St),
    storeOutputs g fuel outs st = .ok st' → (∀ o ∈ outs, suppAllR g fuel o.2 = true) → Ext st st'
  | [], st, st', h, _ => by
    simp only [storeOutputs, Res.ok.injEq] at h
    subst h
    exact Ext.refl _
  | (name, i) :: rest, st, st', h, hs => by
    obtain ⟨r, st1, inames, st2, id, st3, h1, h2, h3, h4⟩ := storeOutputs_cons h
    exact (mapNode_extF fuel i st r st1 h1 (hs (name, i) (by simp))).ext.trans
      ((Ext.of_drewMany (St.vars_drew h2).1).trans ((Ext.of_insnId h3).trans
        ((Ext.emit_remember _ _ _ _).trans
          (storeOutputs_extR rest _ st' h4 (fun o ho => hs o (List.mem_cons_of_mem _ ho))))))

theorem storeOutputs_specR (hy : Hyp g inp σ0 inputNames) (hE0 : ∀ x ∈ inputNames, x ∈ E0) {fuel : Nat} :
    ∀ (outs : List (String × Nat)) (done : List String) (st st' : St),
      storeOutputs g fuel outs st = .ok st' → (∀ o ∈ outs, suppAllR g fuel o.2 = true) →
      Inv g inp σ0 inputNames E0 done st → Alloc σ0 st'.stmts → (outs.map (·.1)).Nodup →
      (∀ o ∈ outs, o.1 ∈ E0 ∧ o.1 ∉ inputNames ∧ o.1 ∉ done) → (∀ x ∈ done, x ∉ inputNames) →
      ∃ done', Inv g inp σ0 inputNames E0 done' st' ∧
        ∀ o ∈ outs, ∃ id, (o.2, Impl.stored o.1 [id]) ∈ st'.results
  | [], done, st, st', h, _, hinv, _, _, _, _ => by
    simp only [storeOutputs, Res.ok.injEq] at h
    subst h
    exact ⟨done, hinv, by simp⟩
  | (name, i) :: rest, done, st, st', h, hs, hinv, hal, hnd, hnames, hdone => by
    obtain ⟨r, st1, inames, st2, id, st3, h1, h2, h3, h4⟩ := storeOutputs_cons h
    have hsi := hs (name, i) (by simp)
    have hsn := suppAllR_node hsi
    have hext4 := storeOutputs_extR rest _ st' h4 (fun o ho => hs o (List.mem_cons_of_mem _ ho))
    obtain ⟨d2, hl2⟩ := St.vars_drew h2
    have hst3 : st3.stmts = st1.stmts := by
      obtain ⟨g', _, rfl⟩ := St.insnId_ok h3
      show st2.stmts = _
      rw [d2.stmts]
    have hal4 := hal.sub hext4.stmts
    obtain ⟨hinv1, hm1⟩ := mapNode_specR hy hE0 hdone fuel i st r st1 h1 hsi hinv
      (hal4.sub ⟨[storeStmt id name inames (shapeOf g i) [] (r.toExpr (inameVars inames)) r.deps],
        by simp [St.remember, St.emit, hst3]⟩)
    have hinv3 : Inv g inp σ0 inputNames E0 (name :: done) st3 :=
      ((hinv1.drewMany d2).insnId h3).doneMono (fun x hx => List.mem_cons_of_mem _ hx)
    obtain ⟨hnE0, hnin, hnd'⟩ := hnames (name, i) (by simp)
    have hres3 : (i, r) ∈ st3.results := by
      obtain ⟨g', _, rfl⟩ := St.insnId_ok h3
      show (i, r) ∈ st2.results
      rw [d2.results]; exact hm1
    have hok := hinv3.results i r hres3
    have hG3 : ∀ x, arrNames inputNames st3 x → x ∈ st1.vng.existing := by
      intro x hx
      apply hinv1.names
      simpa [arrNames, hst3] using hx
    have hname : ¬ arrNames inputNames st3 name := by
      rintro (hx | hx)
      · exact hnin hx
      · obtain ⟨s, hs', he⟩ := List.mem_map.1 hx
        rw [hst3] at hs'
        rcases hinv1.origin s hs' with ho | ho
        · exact hnd' (he ▸ ho)
        · exact ho (he ▸ hnE0)
    have hnameEx1 : name ∈ st1.vng.existing := hinv1.seeds name hnE0
    have hnameEx : name ∈ st3.vng.existing := by
      obtain ⟨g', _, rfl⟩ := St.insnId_ok h3
      show name ∈ st2.vng.existing
      exact (d2.mem name).2 (Or.inr hnameEx1)
    have hGin : ∀ x, arrNames inputNames st3 x → x ∉ inames :=
      fun x hx hxi => d2.fresh x hxi (hG3 x hx)
    have hshape := den_shapeR hy hsn
    have hne : isEmptyShape (shapeOf g i) = false := shape_ne_R hsn
    have hlen : inames.length = (shapeOf g i).length := by rw [hl2, length_dimNames]
    have hinv4 := Inv.emit (i := i) (id := id) (deps := r.deps) hinv3 hne hlen d2.nodup hname hnameEx
      (Or.inl (by simp)) (by simpa [St.remember, St.emit] using hal4) hshape
      (by
        intro hx
        rcases toExpr_reads hok inames name hx with hx | hx
        · exact hname hx
        · exact d2.fresh name hx hnameEx1)
      (by
        intro q hq
        exact toExpr_at_point hok d2.nodup hGin (by rw [hshape]; exact hq) (by rw [hshape]; exact hlen))
    have hnd2 := List.nodup_cons.1 (show (name :: rest.map (·.1)).Nodup from hnd)
    obtain ⟨done', hinv', hall⟩ := storeOutputs_specR hy hE0 rest (name :: done) _ st' h4
      (fun o ho => hs o (List.mem_cons_of_mem _ ho)) hinv4 hal hnd2.2
      (by
        intro o ho
        obtain ⟨a, b, c⟩ := hnames o (List.mem_cons_of_mem _ ho)
        refine ⟨a, b, fun hc => ?_⟩
        rcases List.mem_cons.1 hc with hc | hc
        · exact hnd2.1 (hc ▸ List.mem_map.2 ⟨o, ho, rfl⟩)
        · exact c hc)
      (by
        intro x hx
        rcases List.mem_cons.1 hx with rfl | hx
        · exact hnin
        · exact hdone x hx)
    refine ⟨done', hinv', fun o ho => ?_⟩
    rcases List.mem_cons.1 ho with rfl | ho
    · exact ⟨id, hext4.results _ (by simp [St.remember])⟩
    · exact hall o ho


end Outputs

/-- **loopygen_sound_red_partial.**  Let the model of the statement generator produce the kernel `k` for
    the graph `g` with the given outputs (in compute order), every node reachable from an output
    being in the fragment `suppAllR` (decidable; the driver reports it for every real graph): the
    reduction-free fragment of `loopygen_sound_partial`, or an index lambda that is a chain of
    reductions with constant bounds over a reduction-free expression, every bound hoisted (into a
    private scalar of the store; for a 0-d result into a statement of its own).  Let the initial store bind every input to an array of its declared shape (`Hyp.inputs`)
    and allocate every array the kernel writes with the extent of its loop box (`Alloc`); let every
    subscript the index lambdas evaluate at in-bounds points be in bounds (`Hyp.safe`, the
    memory-safety property of C11).  Then after executing the statements of `k` in the order they
    were generated, every output array has the declared shape and holds, at EVERY in-bounds index,
    the value the output denotes: `evalIL` of its index lambda over what its bindings denote, down
    to the input arrays (`den`). -/
theorem loopygen_sound_red_partial (g : LGraph) (outputs : List (String × Nat)) (inputNames : List String)
    (k : Kernel) (inp : String → Arr Val) (σ0 : Store)
    (hgen : generate g outputs inputNames = .ok k)
    (hsupp : ∀ o ∈ outputs, suppAllR g g.size o.2 = true)
    (hy : Hyp g inp σ0 inputNames)
    (hnd : (outputs.map (·.1)).Nodup) (hdisj : ∀ o ∈ outputs, o.1 ∉ inputNames)
    (halloc : Alloc σ0 k) :
    ∀ o ∈ outputs, StoredOK (execOrder σ0 k) o.1 (den g inp o.2) := by
  unfold generate at hgen
  obtain ⟨st, hst, hk⟩ := Res.bind_ok.1 hgen
  simp only [Res.ok.injEq] at hk
  subst hk
  have hinv0 : Inv g inp σ0 inputNames (outputs.map (·.1) ++ inputNames) []
      { vng := { existing := outputs.map (·.1) ++ inputNames, counters := [] },
        ing := { existing := [], counters := [] }, results := [], stmts := [] } := by
    refine ⟨?_, fun x hx => hx, fun i r hm => by simp at hm, fun s hs => by simp at hs,
      fun s hs => by simp at hs⟩
    rintro x (hx | hx)
    · exact List.mem_append_right _ hx
    · simp at hx
  obtain ⟨done', hinv, hall⟩ := storeOutputs_specR hy (fun x hx => List.mem_append_right _ hx) outputs [] _ st hst
    hsupp hinv0 (fun s hs hn => halloc s (List.mem_reverse.2 hs) hn) hnd
    (fun o ho => ⟨List.mem_append_left _ (List.mem_map.2 ⟨o, ho, rfl⟩), hdisj o ho, by simp⟩)
    (by simp)
  intro o ho
  obtain ⟨id, hm⟩ := hall o ho
  exact (hinv.results o.2 _ hm).2


end LG
end Pt

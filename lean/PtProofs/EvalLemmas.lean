/-
  Generic lemmas about the evaluator used by all lowering-rule theorems.
-/
import PtModel.Scalar
import PtModel.Lower
import PtProofs.BasicLemmas
import PtProofs.SliceLemmas
namespace Pt

theorem evalList_map (env : Env) (f : Nat → SExpr) (l : List Nat) :
    evalList env (l.map f) = l.map (fun d => eval env (f d)) := by
  induction l with
  | nil => simp [evalList]
  | cons x xs ih => simp [evalList, ih]

theorem evalList_eq_map (env : Env) (l : List SExpr) :
    evalList env l = l.map (eval env) := by
  induction l with
  | nil => simp [evalList]
  | cons x xs ih => simp [evalList, ih]

theorem toNatIdx_map_nat (l : List Nat) (g : Nat → Nat) :
    toNatIdx (l.map fun d => Val.i (g d : Nat)) = some (l.map g) := by
  induction l with
  | nil => simp [toNatIdx]
  | cons x xs ih =>
    simp only [List.map_cons, toNatIdx, Val.toInt?, ih]
    have : ¬ ((g x : Int) < 0) := by omega
    simp [this]

theorem eval_idx (i : Idx) (b : List (String × Arr Val)) (k : Nat) (hk : k < i.length) :
    eval (idxEnv i b) (.idx k) = .i (i.getD k 0 : Nat) := by
  simp [eval, idxEnv, List.getD, hk]

theorem idxEnv_pt (i : Idx) (b : List (String × Arr Val)) (k : Nat) (hk : k < i.length) :
    (idxEnv i b).pt[k]? = some (i.getD k 0) := by
  simp [idxEnv, List.getD, hk]

/-- value of `(_d - shift) % n` -/
theorem eval_mod_shift (i : Idx) (b : List (String × Arr Val)) (d : Nat) (shift n : Int)
    (hd : d < i.length) (hn : n ≠ 0) :
    eval (idxEnv i b) (.rem (Lower.subConst (Lower.ivar d) shift) (.int n))
      = .i (pyMod (((i.getD d 0 : Nat) : Int) - shift) n) := by
  simp only [Lower.subConst, Lower.ivar, eval, idxEnv_pt i b d hd, Val.rem, Val.add, Val.arith,
    Val.toInt?, hn, if_false]
  congr 1

theorem lookupArr_head (i : Idx) (nm : String) (a : Arr Val) (rest : List (String × Arr Val)) :
    (idxEnv i ((nm, a) :: rest)).lookupArr nm = some a := by
  simp [Env.lookupArr, idxEnv]

theorem inB_getD_lt : ∀ {s : Shape} {i : Idx} (k : Nat), inB s i = true → k < s.length →
    i.getD k 0 < s.getD k 0
  | [], _, _, _, hk => by simp at hk
  | _ :: _, [], _, h, _ => by simp [inB] at h
  | d :: ds, x :: xs, 0, h, _ => by simp [inB] at h; simpa using h.1
  | d :: ds, x :: xs, k + 1, h, hk => by
    simp [inB] at h
    have := inB_getD_lt (s := ds) (i := xs) k h.2 (by simpa using hk)
    simpa using this

theorem inB_set : ∀ {s : Shape} {i : Idx} (k x : Nat), inB s i = true → x < s.getD k 0 →
    inB s (i.set k x) = true
  | [], [], _, _, _, _ => by simp [inB]
  | [], _ :: _, _, _, h, _ => by simp [inB] at h
  | _ :: _, [], _, _, h, _ => by simp [inB] at h
  | d :: ds, y :: ys, 0, x, h, hx => by
    simp [inB] at h ⊢; exact ⟨by simpa using hx, h.2⟩
  | d :: ds, y :: ys, k + 1, x, h, hx => by
    simp [inB] at h ⊢
    exact ⟨h.1, inB_set k x h.2 (by simpa using hx)⟩

theorem map_range_set (i : Idx) (axis x : Nat) :
    (List.range i.length).map (fun d => if d = axis then x else i.getD d 0) = i.set axis x := by
  apply List.ext_getElem
  · simp
  · intro n h1 h2
    simp only [List.getElem_map, List.getElem_range, List.getElem_set]
    by_cases h : n = axis
    · simp [h]
    · have : ¬ axis = n := fun e => h e.symm
      simp only [h, this, if_false]
      simp at h1
      simp [List.getD, h1]

theorem inB_of_forall : ∀ {s : Shape} {i : Idx}, i.length = s.length →
    (∀ k, k < s.length → i.getD k 0 < s.getD k 0) → inB s i = true
  | [], [], _, _ => by simp [inB]
  | [], _ :: _, h, _ => by simp at h
  | _ :: _, [], h, _ => by simp at h
  | d :: ds, x :: xs, h, hk => by
    simp only [inB, Bool.and_eq_true, decide_eq_true_eq]
    refine ⟨by simpa using hk 0 (by simp), inB_of_forall (by simpa using h) ?_⟩
    intro k hk'
    simpa using hk (k + 1) (by simpa using hk')

theorem map_range_getD (i : Idx) :
    (List.range i.length).map (fun d => i.getD d 0) = i := by
  apply List.ext_getElem
  · simp
  · intro n h1 h2
    simp at h1
    simp [List.getD, h1]

end Pt

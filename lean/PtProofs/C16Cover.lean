/-
  C16 (b), completeness of the broadcasting decision: finitely many affine forms,
  none identically zero on the non-negative valuations, have a common valuation
  at which none vanishes.  Hence "for every valuation the two lengths are equal
  or one of them is 1" forces ONE of the three alternatives for all valuations —
  which is what the real decision procedure tests.
-/
import PtProofs.C16ShapeLemmas
import Mathlib.Tactic.Ring
import Mathlib.Tactic.Push
import Mathlib.Tactic.Linarith
namespace Pt
namespace Sym

/-- the valuation `u + T·w` -/
def ray (u w : String → Nat) (T : Nat) : String → Nat := fun x => u x + T * w x

def zeroV : String → Nat := fun _ => 0

/-- an affine expression is affine along every ray -/
theorem eval_ray (u w : String → Nat) (T : Nat) : ∀ e : AExpr,
    e.eval (ray u w T) = e.eval u + (T : Int) * (e.eval w - e.eval zeroV)
  | .lit n => by simp [AExpr.eval]
  | .param x => by simp [AExpr.eval, ray, zeroV]
  | .add a b => by simp only [AExpr.eval, eval_ray u w T a, eval_ray u w T b]; ring
  | .sub a b => by simp only [AExpr.eval, eval_ray u w T a, eval_ray u w T b]; ring
  | .scale k a => by simp only [AExpr.eval, eval_ray u w T a]; ring

def absSum (u : String → Nat) : List AExpr → Nat
  | [] => 0
  | F :: L => (F.eval u).natAbs + absSum u L

theorem natAbs_le_absSum (u : String → Nat) : ∀ (L : List AExpr) (F : AExpr), F ∈ L →
    (F.eval u).natAbs ≤ absSum u L
  | [], _, h => by simp at h
  | G :: L, F, h => by
    rcases List.mem_cons.mp h with rfl | h
    · simp [absSum]
    · have := natAbs_le_absSum u L F h
      simp only [absSum]; omega

/-- one more form can be made non-zero without losing the others -/
theorem extend (L : List AExpr) (G : AExpr) (u : String → Nat) (hL : ∀ F ∈ L, F.eval u ≠ 0)
    (hG : ¬ ∀ v : String → Nat, G.eval v = 0) :
    ∃ u' : String → Nat, (∀ F ∈ L, F.eval u' ≠ 0) ∧ G.eval u' ≠ 0 := by
  by_cases hu : G.eval u ≠ 0
  · exact ⟨u, hL, hu⟩
  have hu0 : G.eval u = 0 := by simpa using hu
  simp only [not_forall] at hG
  obtain ⟨w', hw'⟩ := hG
  -- a direction along which G changes
  have hdir : ∃ w : String → Nat, G.eval w - G.eval zeroV ≠ 0 := by
    by_cases h1 : G.eval w' - G.eval zeroV ≠ 0
    · exact ⟨w', h1⟩
    · refine ⟨u, ?_⟩
      have : G.eval w' = G.eval zeroV := by simp only [ne_eq, not_not] at h1; omega
      rw [hu0]; intro h; apply hw'; omega
  obtain ⟨w, hw⟩ := hdir
  let T : Nat := 1 + absSum u L
  refine ⟨ray u w T, ?_, ?_⟩
  · intro F hF
    rw [eval_ray]
    intro h0
    have hle := natAbs_le_absSum u L F hF
    by_cases hd : F.eval w - F.eval zeroV = 0
    · rw [hd] at h0; simp only [mul_zero, add_zero] at h0; exact hL F hF h0
    · -- |F u| = T·|δ| ≥ T > |F u|
      have h1 : F.eval u = -((T : Int) * (F.eval w - F.eval zeroV)) := by omega
      have h2 : (F.eval u).natAbs = T * (F.eval w - F.eval zeroV).natAbs := by
        rw [h1, Int.natAbs_neg, Int.natAbs_mul, Int.natAbs_natCast]
      have h3 : 1 ≤ (F.eval w - F.eval zeroV).natAbs := Int.natAbs_pos.mpr hd
      have h4 : T ≤ T * (F.eval w - F.eval zeroV).natAbs := Nat.le_mul_of_pos_right T h3
      have h5 : T = 1 + absSum u L := rfl
      omega
  · rw [eval_ray, hu0]
    have hT : (0 : Int) < (T : Int) := by
      have : T = 1 + absSum u L := rfl
      omega
    simp only [zero_add]
    exact mul_ne_zero (by omega) hw

/-- three affine forms, one of which vanishes at every valuation: one vanishes identically -/
theorem cover3 (f g h : AExpr)
    (H : ∀ v : String → Nat, f.eval v = 0 ∨ g.eval v = 0 ∨ h.eval v = 0) :
    (∀ v : String → Nat, f.eval v = 0) ∨ (∀ v : String → Nat, g.eval v = 0)
      ∨ (∀ v : String → Nat, h.eval v = 0) := by
  by_contra hc
  simp only [not_or] at hc
  obtain ⟨hf, hg, hh⟩ := hc
  obtain ⟨u1, _, h1⟩ := extend [] f zeroV (by simp) hf
  obtain ⟨u2, h2, h2'⟩ := extend [f] g u1 (by simpa using h1) hg
  obtain ⟨u3, h3, h3'⟩ := extend [f, g] h u2 (by
    intro F hF
    simp only [List.mem_cons, List.not_mem_nil, or_false] at hF
    rcases hF with rfl | rfl
    · exact h2 _ (by simp)
    · exact h2') hh
  rcases H u3 with e | e | e
  · exact h3 f (by simp) e
  · exact h3 g (by simp) e
  · exact h3' e

/-- two symbolic lengths that NumPy can merge at EVERY valuation are equal for all
    valuations, or one of them is 1 for all valuations -/
theorem bcast_cover (a b : AExpr)
    (H : ∀ v : String → Nat, b.eval v = a.eval v ∨ b.eval v = 1 ∨ a.eval v = 1) :
    (∀ v : String → Nat, b.eval v = a.eval v) ∨ (∀ v : String → Nat, b.eval v = 1)
      ∨ (∀ v : String → Nat, a.eval v = 1) := by
  have := cover3 (.sub b a) (.sub b (.lit 1)) (.sub a (.lit 1)) (by
    intro v
    simp only [AExpr.eval]
    rcases H v with e | e | e
    · left; omega
    · right; left; omega
    · right; right; omega)
  simp only [AExpr.eval] at this
  rcases this with e | e | e
  · left; intro v; have := e v; omega
  · right; left; intro v; have := e v; omega
  · right; right; intro v; have := e v; omega

/-- NumPy's compatibility of integer lengths of one axis -/
def IntCompat (ls : List Int) : Prop := ∀ x ∈ ls, ∀ y ∈ ls, x = y ∨ x = 1 ∨ y = 1

/-- `_get_result_axis_length` over any number of operands is COMPLETE: if at every
    valuation the lengths are compatible for NumPy, the fold accepts -/
theorem axisLenSym_complete : ∀ (rest : List AExpr) (cur : AExpr),
    (∀ v : String → Nat, IntCompat ((cur :: rest).map (·.eval v))) → (axisLenSym cur rest).isSome = true
  | [], _, _ => rfl
  | x :: rest, cur, H => by
    have hpair : ∀ v : String → Nat, x.eval v = cur.eval v ∨ x.eval v = 1 ∨ cur.eval v = 1 := by
      intro v
      exact H v (x.eval v) (by simp) (cur.eval v) (by simp)
    have hsub1 : ∀ v : String → Nat, IntCompat ((cur :: rest).map (·.eval v)) := by
      intro v a ha b hb
      exact H v a (by
        simp only [List.map_cons, List.mem_cons] at ha ⊢
        rcases ha with ha | ha
        · exact Or.inl ha
        · exact Or.inr (Or.inr ha)) b (by
        simp only [List.map_cons, List.mem_cons] at hb ⊢
        rcases hb with hb | hb
        · exact Or.inl hb
        · exact Or.inr (Or.inr hb))
    have hsub2 : ∀ v : String → Nat, IntCompat ((x :: rest).map (·.eval v)) := by
      intro v a ha b hb
      exact H v a (by
        simp only [List.map_cons, List.mem_cons] at ha ⊢
        exact Or.inr ha) b (by
        simp only [List.map_cons, List.mem_cons] at hb ⊢
        exact Or.inr hb)
    unfold axisLenSym
    rcases bcast_cover cur x hpair with e | e | e
    · rw [if_pos (by rw [Bool.or_eq_true]; exact Or.inl ((affEq_iff x cur).mpr e))]
      exact axisLenSym_complete rest cur hsub1
    · have : isOne x = true := by
        unfold isOne; rw [affEq_iff]; intro v; simp [AExpr.eval, e v]
      rw [if_pos (by rw [Bool.or_eq_true]; exact Or.inr this)]
      exact axisLenSym_complete rest cur hsub1
    · have hc : isOne cur = true := by
        unfold isOne; rw [affEq_iff]; intro v; simp [AExpr.eval, e v]
      by_cases h1 : (affEq x cur || isOne x) = true
      · rw [if_pos h1]; exact axisLenSym_complete rest cur hsub1
      · rw [if_neg h1, if_pos hc]; exact axisLenSym_complete rest x hsub2

end Sym
end Pt

/-
  C01 generator model, expression level: substitution of the index variables, and soundness of
  the inlining expression generator (`LG.gen`) on the reduction-free fragment.
-/
import PtModel.LoopyGenSem
import PtProofs.KernelLemmas
namespace Pt
namespace LG

/-! ## `substIdx` -/

mutual
theorem substIdx_nil : ∀ (e : SExpr), substIdx [] e = e
  | .int _ | .bool _ | .rat _ _ | .nan | .var _ => by simp [substIdx]
  | .idx k => by simp [substIdx]
  | .sub a ix => by simp [substIdx, substIdxList_nil ix]
  | .add a c | .mul a c | .quot a c | .fdiv a c | .rem a c | .pow a c | .cmp _ a c | .land a c | .lor a c => by
    simp [substIdx, substIdx_nil a, substIdx_nil c]
  | .lnot a | .cast _ a => by simp [substIdx, substIdx_nil a]
  | .ite c t e => by simp [substIdx, substIdx_nil c, substIdx_nil t, substIdx_nil e]
  | .reduce _ _ lo hi body => by simp [substIdx, substIdx_nil lo, substIdx_nil hi, substIdx_nil body]
  | .call _ args => by simp [substIdx, substIdxList_nil args]
theorem substIdxList_nil : ∀ (es : List SExpr), substIdxList [] es = es
  | [] => by simp [substIdxList]
  | e :: es => by simp [substIdxList, substIdx_nil e, substIdxList_nil es]
end

theorem mem_readNamesList_of_getElem? {s : List SExpr} {k : Nat} {e : SExpr} (h : s[k]? = some e)
    {x : String} (hx : x ∈ readNames e) : x ∈ readNamesList s := by
  induction s generalizing k with
  | nil => simp at h
  | cons a r ih =>
    cases k with
    | zero =>
      simp only [List.getElem?_cons_zero, Option.some.injEq] at h
      subst h
      simp [readNamesList, hx]
    | succ k =>
      simp only [List.getElem?_cons_succ] at h
      simp [readNamesList, ih h]

mutual
/-- substitution adds at most the names of the substituted expressions … -/
theorem readNames_substIdx_sub (s : List SExpr) : ∀ (e : SExpr) (x : String),
    x ∈ readNames (substIdx s e) → x ∈ readNames e ∨ x ∈ readNamesList s
  | .int _, x, h | .bool _, x, h | .rat _ _, x, h | .nan, x, h => by simp [substIdx, readNames] at h
  | .var y, x, h => by simp only [substIdx] at h; exact Or.inl h
  | .idx k, x, h => by
    simp only [substIdx] at h
    cases hk : s[k]? with
    | none => simp [hk, readNames] at h
    | some e => simp only [hk] at h; exact Or.inr (mem_readNamesList_of_getElem? hk h)
  | .sub a ix, x, h => by
    simp only [substIdx, readNames, List.mem_cons] at h ⊢
    rcases h with h | h
    · exact Or.inl (Or.inl h)
    · rcases readNamesList_substIdx_sub s ix x h with h | h
      · exact Or.inl (Or.inr h)
      · exact Or.inr h
  | .add a c, x, h | .mul a c, x, h | .quot a c, x, h | .fdiv a c, x, h | .rem a c, x, h | .pow a c, x, h
  | .cmp _ a c, x, h | .land a c, x, h | .lor a c, x, h => by
    simp only [substIdx, readNames, List.mem_append] at h ⊢
    rcases h with h | h
    · rcases readNames_substIdx_sub s a x h with h | h
      · exact Or.inl (Or.inl h)
      · exact Or.inr h
    · rcases readNames_substIdx_sub s c x h with h | h
      · exact Or.inl (Or.inr h)
      · exact Or.inr h
  | .lnot a, x, h | .cast _ a, x, h => by
    simp only [substIdx, readNames] at h ⊢
    exact readNames_substIdx_sub s a x h
  | .ite c t e, x, h => by
    simp only [substIdx, readNames, List.mem_append] at h ⊢
    rcases h with (h | h) | h
    · rcases readNames_substIdx_sub s c x h with h | h
      · exact Or.inl (Or.inl (Or.inl h))
      · exact Or.inr h
    · rcases readNames_substIdx_sub s t x h with h | h
      · exact Or.inl (Or.inl (Or.inr h))
      · exact Or.inr h
    · rcases readNames_substIdx_sub s e x h with h | h
      · exact Or.inl (Or.inr h)
      · exact Or.inr h
  | .reduce _ _ lo hi body, x, h => by
    simp only [substIdx, readNames, List.mem_append] at h ⊢
    rcases h with (h | h) | h
    · rcases readNames_substIdx_sub s lo x h with h | h
      · exact Or.inl (Or.inl (Or.inl h))
      · exact Or.inr h
    · rcases readNames_substIdx_sub s hi x h with h | h
      · exact Or.inl (Or.inl (Or.inr h))
      · exact Or.inr h
    · rcases readNames_substIdx_sub s body x h with h | h
      · exact Or.inl (Or.inr h)
      · exact Or.inr h
  | .call _ args, x, h => by
    simp only [substIdx, readNames] at h ⊢
    exact readNamesList_substIdx_sub s args x h
theorem readNamesList_substIdx_sub (s : List SExpr) : ∀ (es : List SExpr) (x : String),
    x ∈ readNamesList (substIdxList s es) → x ∈ readNamesList es ∨ x ∈ readNamesList s
  | [], x, h => by simp [substIdxList, readNamesList] at h
  | e :: es, x, h => by
    simp only [substIdxList, readNamesList, List.mem_append] at h ⊢
    rcases h with h | h
    · rcases readNames_substIdx_sub s e x h with h | h
      · exact Or.inl (Or.inl h)
      · exact Or.inr h
    · rcases readNamesList_substIdx_sub s es x h with h | h
      · exact Or.inl (Or.inr h)
      · exact Or.inr h
end

mutual
/-- … and keeps every name of the expression -/
theorem readNames_substIdx_sup (s : List SExpr) : ∀ (e : SExpr) (x : String),
    x ∈ readNames e → x ∈ readNames (substIdx s e)
  | .int _, x, h | .bool _, x, h | .rat _ _, x, h | .nan, x, h | .idx _, x, h => by simp [readNames] at h
  | .var y, x, h => by simpa [substIdx] using h
  | .sub a ix, x, h => by
    simp only [substIdx, readNames, List.mem_cons] at h ⊢
    rcases h with h | h
    · exact Or.inl h
    · exact Or.inr (readNamesList_substIdx_sup s ix x h)
  | .add a c, x, h | .mul a c, x, h | .quot a c, x, h | .fdiv a c, x, h | .rem a c, x, h | .pow a c, x, h
  | .cmp _ a c, x, h | .land a c, x, h | .lor a c, x, h => by
    simp only [substIdx, readNames, List.mem_append] at h ⊢
    rcases h with h | h
    · exact Or.inl (readNames_substIdx_sup s a x h)
    · exact Or.inr (readNames_substIdx_sup s c x h)
  | .lnot a, x, h | .cast _ a, x, h => by
    simp only [substIdx, readNames] at h ⊢
    exact readNames_substIdx_sup s a x h
  | .ite c t e, x, h => by
    simp only [substIdx, readNames, List.mem_append] at h ⊢
    rcases h with (h | h) | h
    · exact Or.inl (Or.inl (readNames_substIdx_sup s c x h))
    · exact Or.inl (Or.inr (readNames_substIdx_sup s t x h))
    · exact Or.inr (readNames_substIdx_sup s e x h)
  | .reduce _ _ lo hi body, x, h => by
    simp only [substIdx, readNames, List.mem_append] at h ⊢
    rcases h with (h | h) | h
    · exact Or.inl (Or.inl (readNames_substIdx_sup s lo x h))
    · exact Or.inl (Or.inr (readNames_substIdx_sup s hi x h))
    · exact Or.inr (readNames_substIdx_sup s body x h)
  | .call _ args, x, h => by
    simp only [substIdx, readNames] at h ⊢
    exact readNamesList_substIdx_sup s args x h
theorem readNamesList_substIdx_sup (s : List SExpr) : ∀ (es : List SExpr) (x : String),
    x ∈ readNamesList es → x ∈ readNamesList (substIdxList s es)
  | [], x, h => by simp [readNamesList] at h
  | e :: es, x, h => by
    simp only [substIdxList, readNamesList, List.mem_append] at h ⊢
    rcases h with h | h
    · exact Or.inl (readNames_substIdx_sup s e x h)
    · exact Or.inr (readNamesList_substIdx_sup s es x h)
end

/-! ## the substitution lemma -/

theorem evalList_getElem? (env : Env) : ∀ (s : List SExpr) (k : Nat),
    (evalList env s)[k]? = (s[k]?).map (eval env)
  | [], k => by simp [evalList]
  | e :: r, 0 => by simp [evalList]
  | e :: r, k + 1 => by simp [evalList, evalList_getElem? env r k]

theorem evalList_length (env : Env) : ∀ (s : List SExpr), (evalList env s).length = s.length
  | [] => by simp [evalList]
  | e :: r => by simp [evalList, evalList_length env r]

theorem toNatIdx_idxVals : ∀ (j : Idx), toNatIdx (idxVals j) = some j
  | [] => rfl
  | n :: r => by
    have ih := toNatIdx_idxVals r
    unfold idxVals at ih ⊢
    simp only [List.map_cons, toNatIdx, Val.toInt?, ih]
    simp

mutual
/-- evaluating `e[_d ↦ s_d]` is evaluating `e` at the point the `s_d` evaluate to (reduction-free
    expressions whose index variables are all substituted) -/
theorem eval_substIdx (s : List SExpr) (j : Idx) : ∀ (e : SExpr) (env : Env),
    exprOK s.length e = true → evalList env s = idxVals j →
    eval env (substIdx s e) = eval { env with pt := j } e
  | .int _, _, _, _ | .rat _ _, _, _, _ | .nan, _, _, _ => by simp [substIdx, eval]
  | .bool _, _, h, _ => by simp [exprOK] at h
  | .reduce .., _, h, _ => by simp [exprOK] at h
  | .var x, env, _, _ => by simp [substIdx, eval, Env.lookupIx, Env.lookupArr]
  | .idx k, env, h, hs => by
    simp only [exprOK, decide_eq_true_eq] at h
    have h1 := evalList_getElem? env s k
    rw [hs] at h1
    have hlen : j.length = s.length := by
      have := congrArg List.length hs
      simpa [idxVals, evalList_length] using this.symm
    obtain ⟨e, he⟩ : ∃ e, s[k]? = some e := ⟨s[k], by simp [h]⟩
    obtain ⟨n, hn⟩ : ∃ n, j[k]? = some n := ⟨j[k]'(by omega), by simp [hlen, h]⟩
    simp only [he, idxVals, List.getElem?_map, hn, Option.map_some, Option.some.injEq] at h1
    simp only [substIdx, he, eval, hn]
    exact h1.symm
  | .sub a ix, env, h, hs => by
    simp only [exprOK] at h
    simp only [substIdx, eval, evalList_substIdx s j ix env h hs]
    rfl
  | .add a c, env, h, hs | .mul a c, env, h, hs | .quot a c, env, h, hs | .fdiv a c, env, h, hs
  | .rem a c, env, h, hs | .pow a c, env, h, hs | .cmp _ a c, env, h, hs | .land a c, env, h, hs
  | .lor a c, env, h, hs => by
    simp only [exprOK, Bool.and_eq_true] at h
    simp only [substIdx, eval, eval_substIdx s j a env h.1 hs, eval_substIdx s j c env h.2 hs]
  | .lnot a, env, h, hs | .cast _ a, env, h, hs => by
    simp only [exprOK] at h
    simp only [substIdx, eval, eval_substIdx s j a env h hs]
  | .ite c t e, env, h, hs => by
    simp only [exprOK, Bool.and_eq_true] at h
    simp only [substIdx, eval, eval_substIdx s j c env h.1.1 hs, eval_substIdx s j t env h.1.2 hs,
      eval_substIdx s j e env h.2 hs]
  | .call f args, env, h, hs => by
    simp only [exprOK] at h
    simp only [substIdx, eval, evalList_substIdx s j args env h hs]
theorem evalList_substIdx (s : List SExpr) (j : Idx) : ∀ (es : List SExpr) (env : Env),
    exprOKList s.length es = true → evalList env s = idxVals j →
    evalList env (substIdxList s es) = evalList { env with pt := j } es
  | [], _, _, _ => by simp [substIdxList, evalList]
  | e :: es, env, h, hs => by
    simp only [exprOKList, Bool.and_eq_true] at h
    simp only [substIdxList, evalList, eval_substIdx s j e env h.1 hs, evalList_substIdx s j es env h.2 hs]
end

/-! ## fragment bookkeeping -/

mutual
theorem exprOK_mono {m n : Nat} (hmn : m ≤ n) : ∀ (e : SExpr), exprOK m e = true → exprOK n e = true
  | .int _, _ | .rat _ _, _ | .nan, _ | .var _, _ => by simp [exprOK]
  | .bool _, h => by simp [exprOK] at h
  | .reduce .., h => by simp [exprOK] at h
  | .idx k, h => by simp only [exprOK, decide_eq_true_eq] at h ⊢; omega
  | .sub _ ix, h => by simp only [exprOK] at h ⊢; exact exprOKList_mono hmn ix h
  | .add a c, h | .mul a c, h | .quot a c, h | .fdiv a c, h | .rem a c, h | .pow a c, h | .cmp _ a c, h
  | .land a c, h | .lor a c, h => by
    simp only [exprOK, Bool.and_eq_true] at h ⊢
    exact ⟨exprOK_mono hmn a h.1, exprOK_mono hmn c h.2⟩
  | .lnot a, h | .cast _ a, h => by simp only [exprOK] at h ⊢; exact exprOK_mono hmn a h
  | .ite c t e, h => by
    simp only [exprOK, Bool.and_eq_true] at h ⊢
    exact ⟨⟨exprOK_mono hmn c h.1.1, exprOK_mono hmn t h.1.2⟩, exprOK_mono hmn e h.2⟩
  | .call _ args, h => by simp only [exprOK] at h ⊢; exact exprOKList_mono hmn args h
theorem exprOKList_mono {m n : Nat} (hmn : m ≤ n) : ∀ (es : List SExpr),
    exprOKList m es = true → exprOKList n es = true
  | [], _ => by simp [exprOKList]
  | e :: es, h => by
    simp only [exprOKList, Bool.and_eq_true] at h ⊢
    exact ⟨exprOK_mono hmn e h.1, exprOKList_mono hmn es h.2⟩
end

theorem exprOK_getElem? {n : Nat} : ∀ {s : List SExpr} {k : Nat} {e : SExpr},
    exprOKList n s = true → s[k]? = some e → exprOK n e = true
  | [], k, e, _, h => by simp at h
  | a :: r, 0, e, hs, h => by
    simp only [List.getElem?_cons_zero, Option.some.injEq] at h
    subst h
    simp only [exprOKList, Bool.and_eq_true] at hs
    exact hs.1
  | a :: r, k + 1, e, hs, h => by
    simp only [List.getElem?_cons_succ] at h
    simp only [exprOKList, Bool.and_eq_true] at hs
    exact exprOK_getElem? hs.2 h

mutual
theorem exprOK_substIdx {n : Nat} (s : List SExpr) (hs : exprOKList n s = true) : ∀ (e : SExpr),
    exprOK s.length e = true → exprOK n (substIdx s e) = true
  | .int _, _ | .rat _ _, _ | .nan, _ | .var _, _ => by simp [substIdx, exprOK]
  | .bool _, h => by simp [exprOK] at h
  | .reduce .., h => by simp [exprOK] at h
  | .idx k, h => by
    simp only [exprOK, decide_eq_true_eq] at h
    obtain ⟨e, he⟩ : ∃ e, s[k]? = some e := ⟨s[k], by simp [h]⟩
    simp only [substIdx, he]
    exact exprOK_getElem? hs he
  | .sub _ ix, h => by simp only [exprOK] at h; simp only [substIdx, exprOK]; exact exprOKList_substIdx s hs ix h
  | .add a c, h | .mul a c, h | .quot a c, h | .fdiv a c, h | .rem a c, h | .pow a c, h | .cmp _ a c, h
  | .land a c, h | .lor a c, h => by
    simp only [exprOK, Bool.and_eq_true] at h
    simp only [substIdx, exprOK, Bool.and_eq_true]
    exact ⟨exprOK_substIdx s hs a h.1, exprOK_substIdx s hs c h.2⟩
  | .lnot a, h | .cast _ a, h => by
    simp only [exprOK] at h; simp only [substIdx, exprOK]; exact exprOK_substIdx s hs a h
  | .ite c t e, h => by
    simp only [exprOK, Bool.and_eq_true] at h
    simp only [substIdx, exprOK, Bool.and_eq_true]
    exact ⟨⟨exprOK_substIdx s hs c h.1.1, exprOK_substIdx s hs t h.1.2⟩, exprOK_substIdx s hs e h.2⟩
  | .call _ args, h => by
    simp only [exprOK] at h; simp only [substIdx, exprOK]; exact exprOKList_substIdx s hs args h
theorem exprOKList_substIdx {n : Nat} (s : List SExpr) (hs : exprOKList n s = true) : ∀ (es : List SExpr),
    exprOKList s.length es = true → exprOKList n (substIdxList s es) = true
  | [], _ => by simp [substIdxList, exprOKList]
  | e :: es, h => by
    simp only [exprOKList, Bool.and_eq_true] at h
    simp only [substIdxList, exprOKList, Bool.and_eq_true]
    exact ⟨exprOK_substIdx s hs e h.1, exprOKList_substIdx s hs es h.2⟩
end

/-! ## what an implemented result promises -/

def lookupIxL (Γ : List (String × Int)) (x : String) : Option Int := (Γ.find? (·.1 == x)).map (·.2)

/-- `Γ` (loop and reduction variables) binds none of the global names `G` (the arrays) -/
def Avoids (G : String → Prop) (Γ : List (String × Int)) : Prop := ∀ x, G x → lookupIxL Γ x = none

/-- the store holds under `name` an array of `D`'s shape that agrees with `D` on every in-bounds entry -/
def StoredOK (σ : Store) (name : String) (D : Arr Val) : Prop :=
  ∃ a, σ.get? name = some a ∧ a.shape = D.shape ∧ ∀ j, inB D.shape j = true → a.get j = D.get j

/-- `r` implements the array `D` in the store `σ`; `G` = the names of arrays -/
def ImplOK (σ : Store) (G : String → Prop) (r : Impl) (D : Arr Val) : Prop :=
  match r with
  | .stored name _ => G name ∧ StoredOK σ name D
  | .inlined le _ =>
    exprOK D.shape.length le = true ∧ (∀ x ∈ readNames le, G x) ∧
    ∀ (j : Idx) (Γ : List (String × Int)), inB D.shape j = true → Avoids G Γ →
      eval { pt := j, ix := Γ, arr := σ } le = D.get j

/-- the local namespace implements the bindings -/
def NsOK (σ : Store) (G : String → Prop) (ns : List (String × Impl)) (bs : List (String × Arr Val)) : Prop :=
  ∀ x r, lookupNs ns x = some r → ∃ D, (bs.find? (·.1 == x)).map (·.2) = some D ∧ ImplOK σ G r D

def rankOf (bs : List (String × Arr Val)) (x : String) : Option Nat :=
  ((bs.find? (·.1 == x)).map (·.2)).map (·.shape.length)

theorem idxVals_length (j : Idx) : (idxVals j).length = j.length := by simp [idxVals]

theorem inB_length : ∀ {s : Shape} {j : Idx}, inB s j = true → j.length = s.length
  | [], [], _ => rfl
  | [], _ :: _, h => by simp [inB] at h
  | _ :: _, [], h => by simp [inB] at h
  | _ :: s, _ :: j, h => by
    simp only [inB, Bool.and_eq_true] at h
    simp [inB_length h.2]

theorem genList_length {ns : List (String × Impl)} {scope : List String} :
    ∀ {es les : List SExpr}, genList ns scope es = some les → les.length = es.length
  | [], les, h => by simp only [genList, Option.some.injEq] at h; subst h; rfl
  | e :: es, les, h => by
    simp only [genList] at h
    cases h1 : gen ns scope e with
    | none => simp [h1] at h
    | some x =>
      cases h2 : genList ns scope es with
      | none => simp [h1, h2] at h
      | some xs =>
        simp only [h1, h2, Option.some.injEq] at h
        subst h
        simp [genList_length h2]

/-! ## soundness of the expression generator (reduction-free fragment) -/

theorem eval_var_stored {σ : Store} {name : String} {D : Arr Val} (h : StoredOK σ name D)
    (hD : D.shape = []) (pt : Idx) {Γ : List (String × Int)} (hΓ : lookupIxL Γ name = none) :
    eval { pt := pt, ix := Γ, arr := σ } (.var name) = D.get [] := by
  obtain ⟨a, ha, hsh, hget⟩ := h
  have h1 : Env.lookupIx { pt := pt, ix := Γ, arr := σ } name = none := hΓ
  have h2 : Env.lookupArr { pt := pt, ix := Γ, arr := σ } name = some a := ha
  simp only [eval, h1, h2, hsh, hD, if_true]
  exact hget [] (by rw [hD]; rfl)

theorem idxVals_eq_nil {j : Idx} (h : idxVals j = []) : j = [] := by
  cases j with
  | nil => rfl
  | cons _ _ => simp [idxVals] at h

section GenSound
variable {σ : Store} {G : String → Prop} {ns : List (String × Impl)} {bs : List (String × Arr Val)}
  (hns : NsOK σ G ns bs) (p : Idx) (n : Nat)
include hns

omit hns in
theorem sem_sub {a : String} {ix : List SExpr} {D : Arr Val}
    (hD : (bs.find? (·.1 == a)).map (·.2) = some D) (hsafe : Safe (idxEnv p bs) (.sub a ix)) :
    SafeList (idxEnv p bs) ix ∧ ∃ j, evalList (idxEnv p bs) ix = idxVals j ∧ inB D.shape j = true ∧
      eval (idxEnv p bs) (.sub a ix) = D.get j := by
  simp only [Safe] at hsafe
  obtain ⟨hsl, arr, j, harr, hj, hin⟩ := hsafe
  have h2 : Env.lookupArr (idxEnv p bs) a = some D := hD
  have hDarr : arr = D := by rw [h2] at harr; exact (Option.some.inj harr).symm
  rw [hDarr] at hin
  refine ⟨hsl, j, hj, hin, ?_⟩
  simp only [eval, h2, hj, toNatIdx_idxVals, hin, if_true]

mutual
theorem gen_sound : ∀ (e le : SExpr), exprOK n e = true → ranksOK (rankOf bs) e = true →
    gen ns [] e = some le →
    exprOK n le = true ∧ (∀ x ∈ readNames le, G x) ∧
    ∀ Γ, Avoids G Γ → Safe (idxEnv p bs) e →
      eval { pt := p, ix := Γ, arr := σ } le = eval (idxEnv p bs) e
  | .int k, le, _, _, hg => by
    simp only [gen, Option.some.injEq] at hg; subst hg
    exact ⟨by simp [exprOK], by simp [readNames], fun Γ _ _ => by simp [eval]⟩
  | .rat a b, le, _, _, hg => by
    simp only [gen, Option.some.injEq] at hg; subst hg
    exact ⟨by simp [exprOK], by simp [readNames], fun Γ _ _ => by simp [eval]⟩
  | .nan, le, _, _, hg => by
    simp only [gen, Option.some.injEq] at hg; subst hg
    exact ⟨by simp [exprOK], by simp [readNames], fun Γ _ _ => by simp [eval]⟩
  | .bool _, _, h, _, _ => by simp [exprOK] at h
  | .reduce .., _, h, _, _ => by simp [exprOK] at h
  | .idx k, le, h, _, hg => by
    simp only [gen, Option.some.injEq] at hg; subst hg
    exact ⟨h, by simp [readNames], fun Γ _ _ => by simp [eval, idxEnv]⟩
  | .var x, le, _, hr, hg => by
    simp only [gen, List.contains_nil, Bool.false_eq_true, if_false] at hg
    cases hl : lookupNs ns x with
    | none => simp [hl] at hg
    | some r =>
      simp only [hl, Option.some.injEq] at hg
      subst hg
      obtain ⟨D, hD, hok⟩ := hns x r hl
      have hrank : D.shape = [] := by
        simp only [ranksOK, rankOf, hD, Option.map_some, beq_iff_eq, Option.some.injEq] at hr
        exact List.length_eq_zero_iff.1 hr
      have hsem : eval (idxEnv p bs) (.var x) = D.get [] := by
        have h1 : Env.lookupIx (idxEnv p bs) x = none := rfl
        have h2 : Env.lookupArr (idxEnv p bs) x = some D := hD
        simp only [eval, h1, h2, hrank, if_true]
      cases r with
      | stored name deps =>
        obtain ⟨hG, hst⟩ := hok
        refine ⟨by simp [Impl.toExpr, exprOK], by simpa [Impl.toExpr, readNames] using hG, fun Γ hΓ _ => ?_⟩
        rw [hsem]
        simp only [Impl.toExpr, List.isEmpty_nil, if_true]
        exact eval_var_stored hst hrank p (hΓ name hG)
      | inlined le0 deps =>
        obtain ⟨hle0, hG, hval⟩ := hok
        rw [hrank] at hle0
        simp only [Impl.toExpr, substIdx_nil]
        refine ⟨exprOK_mono (Nat.zero_le _) le0 hle0, hG, fun Γ hΓ _ => ?_⟩
        rw [hsem]
        have h0 := eval_substIdx [] [] le0 { pt := p, ix := Γ, arr := σ } hle0 rfl
        rw [substIdx_nil] at h0
        rw [h0]
        exact hval [] Γ (by rw [hrank]; rfl) hΓ
  | .sub a ix, le, h, hr, hg => by
    simp only [exprOK] at h
    simp only [ranksOK, Bool.and_eq_true, beq_iff_eq] at hr
    simp only [gen] at hg
    cases hix : genList ns [] ix with
    | none => simp [hix] at hg
    | some ix' =>
      cases hl : lookupNs ns a with
      | none => simp [hix, hl] at hg
      | some r =>
        simp only [hix, hl, Option.some.injEq] at hg
        subst hg
        obtain ⟨hix'ok, hixG, hixval⟩ := genList_sound ix ix' h hr.2 hix
        have hlen := genList_length hix
        obtain ⟨D, hD, hok⟩ := hns a r hl
        have hrank : D.shape.length = ix.length := by
          have := hr.1
          simp only [rankOf, hD, Option.map_some, Option.some.injEq] at this
          exact this
        cases r with
        | stored name deps =>
          obtain ⟨hG, hst⟩ := hok
          refine ⟨?_, ?_, fun Γ hΓ hsafe => ?_⟩
          · simp only [Impl.toExpr]
            split
            · simp [exprOK]
            · simpa [exprOK] using hix'ok
          · intro x hx
            simp only [Impl.toExpr] at hx
            split at hx
            · simp only [readNames, List.mem_singleton] at hx; rw [hx]; exact hG
            · simp only [readNames, List.mem_cons] at hx
              rcases hx with rfl | hx
              · exact hG
              · exact hixG x hx
          · obtain ⟨hsl, j, hj, hin, hsem⟩ := sem_sub p hD hsafe
            rw [hsem]
            simp only [Impl.toExpr]
            by_cases hemp : ix'.isEmpty = true
            · rw [if_pos hemp]
              have hix0 : ix = [] := by
                have : ix'.length = 0 := by simpa using hemp
                exact List.length_eq_zero_iff.1 (by omega)
              have hj0 : j = [] := by
                apply idxVals_eq_nil
                rw [← hj, hix0]; rfl
              subst hj0
              have hDs : D.shape = [] := List.length_eq_zero_iff.1 (by rw [hrank, hix0]; rfl)
              exact eval_var_stored hst hDs p (hΓ name hG)
            · rw [if_neg hemp]
              obtain ⟨a', ha', hsh, hget⟩ := hst
              have hvals := hixval Γ hΓ hsl
              have h2 : Env.lookupArr { pt := p, ix := Γ, arr := σ } name = some a' := ha'
              have hin' : inB a'.shape j = true := by rw [hsh]; exact hin
              simp only [eval, h2, hvals, hj, toNatIdx_idxVals, hin', if_true]
              exact hget j hin
        | inlined le0 deps =>
          obtain ⟨hle0, hG, hval⟩ := hok
          have hle0' : exprOK ix'.length le0 = true := by rw [hlen, ← hrank]; exact hle0
          refine ⟨by simp only [Impl.toExpr]; exact exprOK_substIdx ix' hix'ok le0 hle0', ?_, fun Γ hΓ hsafe => ?_⟩
          · intro x hx
            simp only [Impl.toExpr] at hx
            rcases readNames_substIdx_sub ix' le0 x hx with h | h
            · exact hG x h
            · exact hixG x h
          · obtain ⟨hsl, j, hj, hin, hsem⟩ := sem_sub p hD hsafe
            rw [hsem]
            simp only [Impl.toExpr]
            have hvals : evalList { pt := p, ix := Γ, arr := σ } ix' = idxVals j := by
              rw [hixval Γ hΓ hsl, hj]
            rw [eval_substIdx ix' j le0 _ hle0' hvals]
            exact hval j Γ hin hΓ
  | .add a c, le, h, hr, hg | .mul a c, le, h, hr, hg | .quot a c, le, h, hr, hg | .fdiv a c, le, h, hr, hg
  | .rem a c, le, h, hr, hg | .pow a c, le, h, hr, hg | .cmp _ a c, le, h, hr, hg | .land a c, le, h, hr, hg
  | .lor a c, le, h, hr, hg => by
    simp only [exprOK, Bool.and_eq_true] at h
    simp only [ranksOK, Bool.and_eq_true] at hr
    simp only [gen] at hg
    cases hx : gen ns [] a with
    | none => simp [hx] at hg
    | some x =>
      cases hy : gen ns [] c with
      | none => simp [hx, hy] at hg
      | some y =>
        simp only [hx, hy, Option.some.injEq] at hg
        subst hg
        obtain ⟨ha1, ha2, ha3⟩ := gen_sound a x h.1 hr.1 hx
        obtain ⟨hc1, hc2, hc3⟩ := gen_sound c y h.2 hr.2 hy
        refine ⟨by simp [exprOK, ha1, hc1], ?_, fun Γ hΓ hsafe => ?_⟩
        · intro z hz
          simp only [readNames, List.mem_append] at hz
          rcases hz with hz | hz
          · exact ha2 z hz
          · exact hc2 z hz
        · simp only [Safe] at hsafe
          simp only [eval, ha3 Γ hΓ hsafe.1, hc3 Γ hΓ hsafe.2]
  | .lnot a, le, h, hr, hg | .cast _ a, le, h, hr, hg => by
    simp only [exprOK] at h
    simp only [ranksOK] at hr
    simp only [gen] at hg
    cases hx : gen ns [] a with
    | none => simp [hx] at hg
    | some x =>
      simp only [hx, Option.some.injEq] at hg
      subst hg
      obtain ⟨ha1, ha2, ha3⟩ := gen_sound a x h hr hx
      refine ⟨by simp [exprOK, ha1], by simpa [readNames] using ha2, fun Γ hΓ hsafe => ?_⟩
      simp only [Safe] at hsafe
      simp only [eval, ha3 Γ hΓ hsafe]
  | .ite c t e, le, h, hr, hg => by
    simp only [exprOK, Bool.and_eq_true] at h
    simp only [ranksOK, Bool.and_eq_true] at hr
    simp only [gen] at hg
    cases hx : gen ns [] c with
    | none => simp [hx] at hg
    | some x =>
      cases hy : gen ns [] t with
      | none => simp [hx, hy] at hg
      | some y =>
        cases hz : gen ns [] e with
        | none => simp [hx, hy, hz] at hg
        | some z =>
          simp only [hx, hy, hz, Option.some.injEq] at hg
          subst hg
          obtain ⟨hc1, hc2, hc3⟩ := gen_sound c x h.1.1 hr.1.1 hx
          obtain ⟨ht1, ht2, ht3⟩ := gen_sound t y h.1.2 hr.1.2 hy
          obtain ⟨he1, he2, he3⟩ := gen_sound e z h.2 hr.2 hz
          refine ⟨by simp [exprOK, hc1, ht1, he1], ?_, fun Γ hΓ hsafe => ?_⟩
          · intro w hw
            simp only [readNames, List.mem_append] at hw
            rcases hw with (hw | hw) | hw
            · exact hc2 w hw
            · exact ht2 w hw
            · exact he2 w hw
          · simp only [Safe] at hsafe
            obtain ⟨hsc, hst, hse⟩ := hsafe
            simp only [eval, hc3 Γ hΓ hsc]
            cases htr : (eval (idxEnv p bs) c).truthy? with
            | none => rfl
            | some b =>
              cases b with
              | true => simp only; exact ht3 Γ hΓ (hst htr)
              | false => simp only; exact he3 Γ hΓ (hse htr)
  | .call f args, le, h, hr, hg => by
    simp only [exprOK] at h
    simp only [ranksOK, Bool.or_eq_true, beq_iff_eq] at hr
    simp only [gen] at hg
    by_cases hz : (f == "pytato.zero") = true
    · rw [if_pos hz] at hg
      simp only [Option.some.injEq] at hg
      subst hg
      have hf : f = "pytato.zero" := by simpa using hz
      subst hf
      refine ⟨by simp [exprOK], by simp [readNames], fun Γ _ _ => ?_⟩
      simp [eval, callExact]
    · rw [if_neg hz] at hg
      have hf : f ≠ "pytato.zero" := by simpa using hz
      cases hx : genList ns [] args with
      | none => simp [hx] at hg
      | some as =>
        simp only [hx, Option.some.injEq] at hg
        subst hg
        have hr' : ranksOKList (rankOf bs) args = true := by
          rcases hr with hr | hr
          · exact absurd hr hf
          · exact hr
        obtain ⟨h1, h2, h3⟩ := genList_sound args as h hr' hx
        refine ⟨by simpa [exprOK] using h1, by simpa [readNames] using h2, fun Γ hΓ hsafe => ?_⟩
        simp only [Safe] at hsafe
        rcases hsafe with hsafe | hsafe
        · exact absurd hsafe hf
        · simp only [eval, h3 Γ hΓ hsafe]
theorem genList_sound : ∀ (es les : List SExpr), exprOKList n es = true → ranksOKList (rankOf bs) es = true →
    genList ns [] es = some les →
    exprOKList n les = true ∧ (∀ x ∈ readNamesList les, G x) ∧
    ∀ Γ, Avoids G Γ → SafeList (idxEnv p bs) es →
      evalList { pt := p, ix := Γ, arr := σ } les = evalList (idxEnv p bs) es
  | [], les, _, _, hg => by
    simp only [genList, Option.some.injEq] at hg; subst hg
    exact ⟨by simp [exprOKList], by simp [readNamesList], fun Γ _ _ => by simp [evalList]⟩
  | e :: es, les, h, hr, hg => by
    simp only [exprOKList, Bool.and_eq_true] at h
    simp only [ranksOKList, Bool.and_eq_true] at hr
    simp only [genList] at hg
    cases hx : gen ns [] e with
    | none => simp [hx] at hg
    | some x =>
      cases hy : genList ns [] es with
      | none => simp [hx, hy] at hg
      | some xs =>
        simp only [hx, hy, Option.some.injEq] at hg
        subst hg
        obtain ⟨ha1, ha2, ha3⟩ := gen_sound e x h.1 hr.1 hx
        obtain ⟨hc1, hc2, hc3⟩ := genList_sound es xs h.2 hr.2 hy
        refine ⟨by simp [exprOKList, ha1, hc1], ?_, fun Γ hΓ hsafe => ?_⟩
        · intro z hz
          simp only [readNamesList, List.mem_append] at hz
          rcases hz with hz | hz
          · exact ha2 z hz
          · exact hc2 z hz
        · simp only [SafeList] at hsafe
          simp only [evalList, ha3 Γ hΓ hsafe.1, hc3 Γ hΓ hsafe.2]
end

end GenSound

end LG
end Pt

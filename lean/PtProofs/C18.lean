/-
  Property C18 — persistent hash keys identify a computation faithfully across
  processes.  Property theorems + non-vacuity examples + table obligations.

  The model: the key builder feeds its hash the token stream `enc ktbl t` =
  `encFull (proj ktbl t)`: kind, then every field in order (scalar attributes as
  strings, children recursively, lists with length prefixes), where the contents
  of fields outside `ktbl` are blanked.  `key = H ∘ enc` for an abstract hash
  `H`.  Nothing in `enc` depends on the process (no object numbers, no Python
  hashes): the key table `PtGen.keyFlips` extracted from the running code does
  not contain `#id`.  `SemEq sem` is the same specification as in C04, with the
  C18 semantic table (wrapped data by contents, dtype and shape).
-/
import PtProofs.EqLemmas
import PtGen.EqTable
namespace Pt.EqM

/-! ## general theorems -/

/-- the full encoding is prefix-free: a stream has at most one parse -/
theorem encFull_prefix_free {a b : Term} {r r' : List Token}
    (h : encFull a ++ r = encFull b ++ r') : a = b ∧ r = r' :=
  encFull_pf a b r r' h

/-- same semantic structure ⇒ same token stream (hence same key, in every
    process), as long as the key looks only at semantic fields -/
theorem enc_congr {ktbl sem : Tbl} (hk : TblSub ktbl sem) {a b : Term} (h : SemEq sem a b) :
    enc ktbl a = enc ktbl b := by
  have : SemEq ktbl a b := semEq_mono hk h
  unfold enc; unfold SemEq at this; rw [this]

/-- same token stream ⇒ same semantic structure, as long as the key looks at
    every semantic field -/
theorem enc_injective {ktbl sem : Tbl} (hk : TblSub sem ktbl) {a b : Term}
    (h : enc ktbl a = enc ktbl b) : SemEq sem a b :=
  semEq_mono hk (encFull_injective h : proj ktbl a = proj ktbl b)

/-- no encoding is a proper prefix of another: concatenated streams (tuples of
    keys, a key followed by anything) cannot be confused -/
theorem enc_prefix_free (tbl : Tbl) {a b : Term} {r r' : List Token}
    (h : enc tbl a ++ r = enc tbl b ++ r') : enc tbl a = enc tbl b ∧ r = r' := by
  have := encFull_pf (proj tbl a) (proj tbl b) r r' h
  exact ⟨by unfold enc; rw [this.1], this.2⟩

/-- equal keys for semantically equal graphs, for ANY hash function -/
theorem key_congr {α : Type} (H : List Token → α) {ktbl sem : Tbl} (hk : TblSub ktbl sem)
    {a b : Term} (h : SemEq sem a b) : key H ktbl a = key H ktbl b := by
  unfold key; rw [enc_congr hk h]

/-- with a collision-free hash and a key table equal to the semantic fields, the
    key identifies the computation: equal keys iff semantically equal -/
theorem key_faithful {α : Type} (H : List Token → α) (hH : ∀ x y, H x = H y → x = y)
    {ktbl sem : Tbl} (hk1 : TblSub ktbl sem) (hk2 : TblSub sem ktbl) (a b : Term) :
    key H ktbl a = key H ktbl b ↔ SemEq sem a b :=
  ⟨fun h => enc_injective hk2 (hH _ _ h), key_congr H hk1⟩

/-- key equality and `==` coincide when both look at the same fields -/
theorem enc_eq_iff_eqStruct (tbl : Tbl) (a b : Term) :
    enc tbl a = enc tbl b ↔ eqStruct tbl a b = true := by
  rw [eqStruct_iff_proj]
  exact ⟨fun h => encFull_injective h, fun h => by unfold enc; rw [h]⟩

/-! ## the regenerated tables -/

/-- every semantic component changes the key (rows in known_findings.json and
    single-valued rows excepted): operation fields, operands, shape, dtype, tags,
    axes, names, and contents / dtype / shape of wrapped data -/
theorem key_fields_complete :
    ∀ row ∈ rowsOf PtGen.semanticFieldsKey, row ∉ PtGen.knownKeyRows →
      row ∉ PtGen.unprobedRows → row ∈ rowsOf PtGen.keyFlips := by
  decide +kernel

/-- the key reacts to nothing else — not to object identity (`#id`), not to
    mapping insertion order — except creation tracebacks (exempt: tagging off) -/
theorem key_ignores_only_nonsemantic :
    ∀ row ∈ rowsOf PtGen.keyFlipsSome, row ∉ PtGen.knownKeyUnstableRows →
      row ∈ rowsOf PtGen.semanticFieldsKey ∨ row ∈ PtGen.tracebackRows := by
  decide +kernel

theorem key_tables_cover_kinds :
    PtGen.semanticFieldsKey.map (·.1) = PtGen.kinds ∧ PtGen.keyFlips.map (·.1) = PtGen.kinds
      ∧ PtGen.keyFlipsSome.map (·.1) = PtGen.kinds := by
  decide +kernel

abbrev KeyFullStatement : Prop :=
  ∀ row ∈ rowsOf PtGen.semanticFieldsKey, row ∉ PtGen.unprobedRows → row ∈ rowsOf PtGen.keyFlips

/-- the full-strength statement holds of today's table exactly when the
    translator observed no failing row -/
theorem key_full_statement_status : KeyFullStatement ↔ PtGen.keyFullHolds = true := by
  decide +kernel

/-! ## non-vacuity -/

def kxData (contents dtype : String) (tb : String) : Term :=
  .node "DataWrapper" [("axes", ""), ("tags", ""), ("non_equality_tags", tb),
    ("data.contents", contents), ("data.dtype", dtype), ("data.shape", "(4,)"), ("shape", "(4,)"),
    ("#id", "obj0")] []
def kxAdd (a b : Term) : Term :=
  .node "IndexLambda" [("expr", "_in0+_in1"), ("dtype", "f8")] [("bindings", [a, b])]
/-- the C18 semantic table of two kinds (fixed, independent of today's extraction) -/
def kxSem : Tbl := tblOf [
  ("DataWrapper", ["axes", "tags", "data.contents", "data.dtype", "data.shape", "shape"]),
  ("IndexLambda", ["expr", "dtype", "bindings"])]

example : TblSub kxSem kxSem := fun _ _ h => h
example : SemEq kxSem (kxAdd (kxData "00" "i8" "t1") (kxData "00" "i8" "t1"))
    (kxAdd (kxData "00" "i8" "t2") (kxData "00" "i8" "t2")) := by decide
example : enc kxSem (kxData "00" "i8" "") ≠ enc kxSem (kxData "00" "f8" "") := by decide
example : enc kxSem (kxAdd (kxData "00" "i8" "") (kxData "01" "i8" ""))
    ≠ enc kxSem (kxAdd (kxData "00" "i8" "") (kxData "00" "i8" "")) := by decide
-- a collision-free "hash": the identity
example : ∀ x y : List Token, id x = id y → x = y := fun _ _ h => h
example : (enc kxSem (kxData "00" "i8" "")).length = 19 := by decide

end Pt.EqM

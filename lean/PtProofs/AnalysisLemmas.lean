/-
  Lemmas about `PtModel.Analysis` (core Lean only).
-/
import PtModel.Analysis
import PtProofs.MapperLemmas
namespace Pt

theorem nodup_reverse' {l : List Nat} (h : l.Nodup) : l.reverse.Nodup := by
  unfold List.Nodup at *
  rw [List.pairwise_reverse]
  exact h.imp (fun hab => fun hba => hab hba.symm)

/-! ## the visit log of a heap -/

theorem visitLog_nodup {h : Heap} (hw : WFHeap h) (sel : String → String → Bool) (root : Nat) :
    (visitLog sel h root).Nodup :=
  nodup_reverse' (dfs_root_nodup (below_of_wf hw sel) root)

theorem mem_visitLog {h : Heap} (hw : WFHeap h) (sel : String → String → Bool) (root j : Nat) :
    j ∈ visitLog sel h root ↔ Reach (kidsFn sel h) root j := by
  unfold visitLog
  rw [List.mem_reverse]
  exact dfs_root_mem_iff (below_of_wf hw sel) root j

/-- newest-first closed duplicate-free list: an older node never reaches a newer one -/
theorem closedL_pairwise {kids : Nat → List Nat} : ∀ (l : List Nat), ClosedL kids l → l.Nodup →
    l.Pairwise (fun a b => ¬ Reach kids b a)
  | [], _, _ => List.Pairwise.nil
  | k :: r, ⟨_, hr⟩, hn => by
    have hn' := List.nodup_cons.1 hn
    refine List.pairwise_cons.2 ⟨?_, closedL_pairwise r hr hn'.2⟩
    intro b hb hreach
    exact hn'.1 (closedL_reach r hr hreach hb)

theorem visitLog_sorted {h : Heap} (hw : WFHeap h) (sel : String → String → Bool) (root : Nat) :
    (visitLog sel h root).Pairwise (fun a b => ¬ Reach (kidsFn sel h) a b) := by
  unfold visitLog
  rw [List.pairwise_reverse]
  have hb := below_of_wf hw sel
  exact closedL_pairwise _ (dfs_root_closed hb root) (dfs_root_nodup hb root)

/-! ## users / predecessors -/

theorem mem_usersList (walk tbl : String → String → Bool) (h : Heap) (root u v : Nat) :
    v ∈ usersList walk tbl h root u ↔ v ∈ visitLog walk h root ∧ u ∈ preds tbl h v := by
  unfold usersList
  simp only [List.mem_flatMap, List.mem_replicate]
  constructor
  · rintro ⟨a, ha, hne, rfl⟩
    exact ⟨ha, List.count_pos_iff.1 (Nat.pos_of_ne_zero hne)⟩
  · rintro ⟨hv, hu⟩
    exact ⟨v, hv, Nat.pos_iff_ne_zero.1 (List.count_pos_iff.2 hu), rfl⟩

theorem count_flatMap_replicate (n : Nat → Nat) (v : Nat) : ∀ (l : List Nat), l.Nodup →
    (l.flatMap fun a => List.replicate (n a) a).count v = if v ∈ l then n v else 0
  | [], _ => by simp
  | a :: r, hn => by
    have hn' := List.nodup_cons.1 hn
    rw [List.flatMap_cons, List.count_append, count_flatMap_replicate n v r hn'.2,
      List.count_replicate]
    by_cases hav : a = v
    · subst hav
      simp [hn'.1]
    · have : ¬ v = a := fun h => hav h.symm
      simp [hav, this]

theorem count_usersList {h : Heap} (hw : WFHeap h) (walk tbl : String → String → Bool)
    (root u v : Nat) :
    (usersList walk tbl h root u).count v
      = if v ∈ visitLog walk h root then (preds tbl h v).count u else 0 :=
  count_flatMap_replicate (fun a => (preds tbl h a).count u) v _ (visitLog_nodup hw walk root)

/-! ## tag counting with the cache-0 trick -/

section TagCount
variable {kids : Nat → List Nat} {tagged : Nat → Bool}

theorem tcVisit_succ (f i : Nat) (vis : List Nat) :
    tcVisit kids tagged (f+1) i vis =
      if i ∈ vis then (0, vis)
      else
        ((if tagged i then 1 else 0) + ((kids i).foldl
            (fun (acc : Nat × List Nat) c =>
              (acc.1 + (tcVisit kids tagged f c acc.2).1, (tcVisit kids tagged f c acc.2).2))
            (0, vis)).1,
          i :: ((kids i).foldl
            (fun (acc : Nat × List Nat) c =>
              (acc.1 + (tcVisit kids tagged f c acc.2).1, (tcVisit kids tagged f c acc.2).2))
            (0, vis)).2) := rfl

/-- the visited list of the tag counter is the plain cached walk -/
theorem tcVisit_snd : ∀ (f i : Nat) (vis : List Nat),
    (tcVisit kids tagged f i vis).2 = dfs kids f i vis
  | 0, _, _ => rfl
  | f+1, i, vis => by
    rw [tcVisit_succ, dfs_succ]
    split
    · rfl
    · show i :: _ = i :: _
      congr 1
      exact foldl_map_comm (fun acc : Nat × List Nat => acc.2)
        (fun (acc : Nat × List Nat) c =>
          (acc.1 + (tcVisit kids tagged f c acc.2).1, (tcVisit kids tagged f c acc.2).2))
        (fun v c => dfs kids f c v) (fun acc c => tcVisit_snd f c acc.2) (kids i) (0, vis)

/-- the invariant behind the trick: what a call returns is exactly the number
    of tagged nodes it *added* to the visited list -/
theorem tcVisit_inv : ∀ (f i : Nat) (vis : List Nat),
    (tcVisit kids tagged f i vis).1 + (vis.filter tagged).length
      = ((tcVisit kids tagged f i vis).2.filter tagged).length
  | 0, _, _ => by simp [tcVisit]
  | f+1, i, vis => by
    rw [tcVisit_succ]
    split
    · simp
    · rename_i hi
      have hloop : ((kids i).foldl
            (fun (acc : Nat × List Nat) c =>
              (acc.1 + (tcVisit kids tagged f c acc.2).1, (tcVisit kids tagged f c acc.2).2))
            (0, vis)).1 + (vis.filter tagged).length
          = (((kids i).foldl
            (fun (acc : Nat × List Nat) c =>
              (acc.1 + (tcVisit kids tagged f c acc.2).1, (tcVisit kids tagged f c acc.2).2))
            (0, vis)).2.filter tagged).length :=
        foldl_inv
          (fun acc : Nat × List Nat =>
            acc.1 + (vis.filter tagged).length = (acc.2.filter tagged).length)
          (fun (acc : Nat × List Nat) c =>
            (acc.1 + (tcVisit kids tagged f c acc.2).1, (tcVisit kids tagged f c acc.2).2))
          (kids i) (0, vis) (by simp)
          (fun acc c _ hacc => by
            have ih := tcVisit_inv f c acc.2
            have hacc' : acc.1 + (vis.filter tagged).length = (acc.2.filter tagged).length := hacc
            show acc.1 + (tcVisit kids tagged f c acc.2).1 + (vis.filter tagged).length
              = ((tcVisit kids tagged f c acc.2).2.filter tagged).length
            omega)
      show (if tagged i = true then 1 else 0) + _ + _ = (List.filter tagged (i :: _)).length
      rw [List.filter_cons]
      cases hti : tagged i
      · simp only [Bool.false_eq_true, if_false]
        omega
      · simp only [if_true, List.length_cons]
        omega

theorem tcVisit_root (i : Nat) :
    (tcVisit kids tagged (i+1) i []).1 = ((dfs kids (i+1) i []).filter tagged).length := by
  have := tcVisit_inv (kids := kids) (tagged := tagged) (i+1) i []
  rw [tcVisit_snd] at this
  simpa using this

end TagCount

/-! ## walks keyed by structural equality -/

section DfsK
variable {kids : Nat → List Nat} {key : Nat → Nat}

theorem dfsK_succ (f i : Nat) (vis : List Nat) :
    dfsK kids key (f+1) i vis =
      if key i ∈ vis.map key then vis
      else i :: (kids i).foldl (fun v c => dfsK kids key f c v) vis := rfl

theorem dfsK_mono : ∀ (f i : Nat) (vis : List Nat) (x : Nat), x ∈ vis → x ∈ dfsK kids key f i vis
  | 0, _, _, _, hx => hx
  | f+1, i, vis, x, hx => by
    rw [dfsK_succ]
    split
    · exact hx
    · apply List.mem_cons_of_mem
      exact foldl_inv (fun v => x ∈ v) _ _ _ hx (fun v c _ hv => dfsK_mono f c v x hv)

theorem dfsK_new_le (hb : Below kids) :
    ∀ (f i : Nat) (vis : List Nat) (k : Nat), k ∈ dfsK kids key f i vis → k ∈ vis ∨ k ≤ i
  | 0, _, _, _, hk => Or.inl hk
  | f+1, i, vis, k, hk => by
    rw [dfsK_succ] at hk
    split at hk
    · exact Or.inl hk
    · rcases List.mem_cons.1 hk with rfl | hk
      · exact Or.inr (Nat.le_refl _)
      · have := foldl_inv (fun v => ∀ k, k ∈ v → k ∈ vis ∨ k < i)
          (fun v c => dfsK kids key f c v) (kids i) vis (fun k hk => Or.inl hk)
          (fun v c hc hv k hk => by
            rcases dfsK_new_le hb f c v k hk with h | h
            · exact hv k h
            · exact Or.inr (Nat.lt_of_le_of_lt h (hb i c hc)))
        rcases this k hk with h | h
        · exact Or.inl h
        · exact Or.inr (Nat.le_of_lt h)

/-- everything the keyed walk adds is reachable -/
theorem dfsK_reach_sound :
    ∀ (f i : Nat) (vis : List Nat) (k : Nat), k ∈ dfsK kids key f i vis → k ∈ vis ∨ Reach kids i k
  | 0, _, _, _, hk => Or.inl hk
  | f+1, i, vis, k, hk => by
    rw [dfsK_succ] at hk
    split at hk
    · exact Or.inl hk
    · rcases List.mem_cons.1 hk with rfl | hk
      · exact Or.inr (Reach.refl _)
      · exact foldl_inv (fun v => ∀ k, k ∈ v → k ∈ vis ∨ Reach kids i k)
          (fun v c => dfsK kids key f c v) (kids i) vis (fun k hk => Or.inl hk)
          (fun v c hc hv k hk => by
            rcases dfsK_reach_sound f c v k hk with h | h
            · exact hv k h
            · exact Or.inr (Reach.step hc h)) k hk

/-- equal keys ⇒ children have pairwise equal keys (structural equality is a congruence) -/
def KeyCongr (kids : Nat → List Nat) (key : Nat → Nat) : Prop :=
  ∀ a b, key a = key b → (kids a).map key = (kids b).map key

/-- the key of `i` is present after the walk -/
theorem dfsK_key_self (f i : Nat) (vis : List Nat) (hf : 0 < f) :
    key i ∈ (dfsK kids key f i vis).map key := by
  cases f with
  | zero => exact absurd hf (Nat.lt_irrefl _)
  | succ f =>
    rw [dfsK_succ]
    split
    · assumption
    · simp

theorem dfsK_keys_mono (f i : Nat) (vis : List Nat) (k : Nat) (hk : k ∈ vis.map key) :
    k ∈ (dfsK kids key f i vis).map key := by
  obtain ⟨x, hx, rfl⟩ := List.mem_map.1 hk
  exact List.mem_map.2 ⟨x, dfsK_mono f i vis x hx, rfl⟩

/-- a height function compatible with the key: structurally equal nodes have
    equal height, children are strictly lower (so no node equals its own descendant) -/
def HtCompat (kids : Nat → List Nat) (key ht : Nat → Nat) : Prop :=
  (∀ a b, key a = key b → ht a = ht b) ∧ (∀ i c, c ∈ kids i → ht c < ht i)

theorem dfsK_new_ht {ht : Nat → Nat} (hh : HtCompat kids key ht) :
    ∀ (f i : Nat) (vis : List Nat) (k : Nat), k ∈ dfsK kids key f i vis → k ∈ vis ∨ ht k ≤ ht i
  | 0, _, _, _, hk => Or.inl hk
  | f+1, i, vis, k, hk => by
    rw [dfsK_succ] at hk
    split at hk
    · exact Or.inl hk
    · rcases List.mem_cons.1 hk with rfl | hk
      · exact Or.inr (Nat.le_refl _)
      · have := foldl_inv (fun v => ∀ k, k ∈ v → k ∈ vis ∨ ht k < ht i)
          (fun v c => dfsK kids key f c v) (kids i) vis (fun k hk => Or.inl hk)
          (fun v c hc hv k hk => by
            rcases dfsK_new_ht hh f c v k hk with h | h
            · exact hv k h
            · exact Or.inr (Nat.lt_of_le_of_lt h (hh.2 i c hc)))
        rcases this k hk with h | h
        · exact Or.inl h
        · exact Or.inr (Nat.le_of_lt h)

/-- keys of the visited list stay pairwise distinct: **one visit per distinct (structural) node** -/
theorem dfsK_keys_nodup {ht : Nat → Nat} (hh : HtCompat kids key ht) :
    ∀ (f i : Nat) (vis : List Nat), (vis.map key).Nodup → ((dfsK kids key f i vis).map key).Nodup
  | 0, _, _, h => h
  | f+1, i, vis, h => by
    rw [dfsK_succ]
    split
    · exact h
    · rename_i hi
      rw [List.map_cons]
      refine List.nodup_cons.2 ⟨?_, ?_⟩
      · intro hmem
        obtain ⟨k, hk, hkey⟩ := List.mem_map.1 hmem
        have := foldl_inv (fun v => ∀ k, k ∈ v → k ∈ vis ∨ ht k < ht i)
          (fun v c => dfsK kids key f c v) (kids i) vis (fun k hk => Or.inl hk)
          (fun v c hc hv k hk => by
            rcases dfsK_new_ht hh f c v k hk with h | h
            · exact hv k h
            · exact Or.inr (Nat.lt_of_le_of_lt h (hh.2 i c hc)))
        rcases this k hk with h1 | h1
        · exact hi (List.mem_map.2 ⟨k, h1, hkey⟩)
        · have := hh.1 k i hkey
          omega
      · exact foldl_inv (fun v => (v.map key).Nodup) _ _ _ h
          (fun v c _ hv => dfsK_keys_nodup hh f c v hv)

/-- every node's children have their *keys* among the older entries -/
def ClosedK (kids : Nat → List Nat) (key : Nat → Nat) : List Nat → Prop
  | [] => True
  | k :: r => (∀ c, c ∈ kids k → key c ∈ r.map key) ∧ ClosedK kids key r

theorem foldl_establish {α : Type} (Q : Nat → α → Prop) (step : α → Nat → α)
    (hmono : ∀ v c x, Q x v → Q x (step v c)) :
    ∀ (cs : List Nat) (v0 : α), (∀ v c, c ∈ cs → Q c (step v c)) →
      ∀ c, c ∈ cs → Q c (cs.foldl step v0)
  | [], _, _, c, hc => by simp at hc
  | a :: r, v0, hself, c, hc => by
    simp only [List.foldl_cons]
    rcases List.mem_cons.1 hc with rfl | hc
    · exact foldl_inv (fun v => Q c v) step r _ (hself v0 c (by simp))
        (fun v d _ hv => hmono v d c hv)
    · exact foldl_establish Q step hmono r _ (fun v d hd => hself v d (by simp [hd])) c hc

theorem dfsK_closedK (hb : Below kids) :
    ∀ (f i : Nat) (vis : List Nat), i < f → ClosedK kids key vis →
      ClosedK kids key (dfsK kids key f i vis)
  | 0, _, _, hf, _ => absurd hf (Nat.not_lt_zero _)
  | f+1, i, vis, hf, h => by
    rw [dfsK_succ]
    split
    · exact h
    · have hcf : ∀ c, c ∈ kids i → c < f := fun c hc =>
        Nat.lt_of_lt_of_le (hb i c hc) (Nat.le_of_lt_succ hf)
      refine ⟨?_, ?_⟩
      · exact foldl_establish (fun c v => key c ∈ v.map key) (fun v c => dfsK kids key f c v)
          (fun v c x hx => dfsK_keys_mono f c v (key x) hx) (kids i) vis
          (fun v c hc => dfsK_key_self f c v (Nat.lt_of_le_of_lt (Nat.zero_le _) (hcf c hc)))
      · exact foldl_inv (ClosedK kids key) _ _ _ h
          (fun v c hc hv => dfsK_closedK hb f c v (hcf c hc) hv)

theorem closedK_kids : ∀ (l : List Nat), ClosedK kids key l → ∀ p, p ∈ l → ∀ c, c ∈ kids p →
    key c ∈ l.map key
  | [], _, _, hp, _, _ => by simp at hp
  | k :: r, ⟨hk, hr⟩, p, hp, c, hc => by
    rw [List.map_cons]
    rcases List.mem_cons.1 hp with rfl | hp
    · exact List.mem_cons_of_mem _ (hk c hc)
    · exact List.mem_cons_of_mem _ (closedK_kids r hr p hp c hc)

/-- a key-closed list contains the key of everything reachable from (a node
    equal to) one of its members -/
theorem closedK_reach (hc : KeyCongr kids key) (l : List Nat) (hl : ClosedK kids key l)
    {p j : Nat} (hr : Reach kids p j) : ∀ p', p' ∈ l → key p' = key p → key j ∈ l.map key := by
  induction hr with
  | refl i => exact fun p' hp' hk => List.mem_map.2 ⟨p', hp', hk⟩
  | @step i c j hci _ ih =>
    intro p' hp' hk
    have h1 : key c ∈ (kids p').map key := by
      rw [hc p' i hk]
      exact List.mem_map.2 ⟨c, hci, rfl⟩
    obtain ⟨c', hc', hkc'⟩ := List.mem_map.1 h1
    obtain ⟨c'', hc'', hkc''⟩ := List.mem_map.1 (closedK_kids l hl p' hp' c' hc')
    exact ih c'' hc'' (hkc''.trans hkc')

end DfsK

end Pt

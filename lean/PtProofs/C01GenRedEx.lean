/-
  C01 generator model, reductions — what the driver evaluates implies the hypotheses of
  `loopygen_sound_red_partial`, and a concrete instance (non-vacuity): `out[i] = sum_r x[i, r]`.
-/
import PtProofs.C01GenRed
namespace Pt
namespace LG

theorem suppAllR_of_all {g : LGraph} (hw : WFG g) (h : ∀ j, j < g.size → suppNodeR g j = true) :
    ∀ (fuel i : Nat), i < fuel → i < g.size → suppAllR g fuel i = true
  | 0, _, hi, _ => absurd hi (Nat.not_lt_zero _)
  | fuel + 1, i, hi, hr => by
    simp only [suppAllR, Bool.and_eq_true, List.all_eq_true]
    refine ⟨h i hr, fun c hc => ?_⟩
    have hci := hw i c hc
    exact suppAllR_of_all hw h fuel c (by omega) (by omega)

theorem fragment_check_soundR {g : LGraph} (h : fragmentCheckR g = true) :
    WFG g ∧ ∀ i, i < g.size → suppAllR g g.size i = true := by
  simp only [fragmentCheckR, Bool.and_eq_true, List.all_eq_true, List.mem_range] at h
  have hw := wfG_sound h.1
  exact ⟨hw, fun i hi => suppAllR_of_all hw h.2 g.size i hi hi⟩

/-! ## non-vacuity: a row sum -/

def exRG : LGraph :=
  #[.input "x" [2, 3],
    .indexLambda [2] (.reduce .sum "_r0" (.int 0) (.int 3) (.sub "_in0" [.idx 0, .var "_r0"])) [("_in0", 0)]
      .default .none ["_r0"] [⟨"_r0", "sum", false, false⟩]]
def exRX : Arr Val := ⟨[2, 3], fun i => .i (10 * i.headD 0 + (i.tail.headD 0))⟩
def exRZ : Arr Val := ⟨[2], fun _ => .i 0⟩
def exRInp : String → Arr Val := fun _ => exRX
def exRσ : Store := [("x", exRX), ("_pt_temp", exRZ), ("out", exRZ)]

def exRK : Kernel :=
  [{ id := "_pt_temp_store", lhs := "_pt_temp", lhsIdx := [.var "_pt_temp_dim0"],
     loops := [("_pt_temp_dim0", .int 0, .int 2)],
     lets := [("_pt_sum_r0_lbound", .int 0), ("_pt_sum_r0_ubound", .int 3)],
     rhs := .reduce .sum "_pt_sum_r0" (.var "_pt_sum_r0_lbound") (hoistedHi "_pt_sum_r0_ubound")
       (.sub "x" [.var "_pt_temp_dim0", .var "_pt_sum_r0"]), deps := [] },
   { id := "out_store", lhs := "out", lhsIdx := [.var "out_dim0"], loops := [("out_dim0", .int 0, .int 2)], lets := [],
     rhs := .sub "_pt_temp" [.var "out_dim0"], deps := ["_pt_temp_store"] }]

theorem exRGen : generate exRG [("out", 1)] ["x"] = .ok exRK := by rfl

theorem exRG_out (i : Nat) : exRG.get (i + 2) = .other "out-of-range" := by
  simp [LGraph.get, exRG]

theorem exRHyp : Hyp exRG exRInp exRσ ["x"] := by
  refine ⟨wfG_sound (by decide), ?_, ?_⟩
  · intro i name shape hn
    match i with
    | 0 => simp only [LGraph.get, exRG] at hn; cases hn; exact ⟨by simp, rfl, rfl⟩
    | 1 => simp [LGraph.get, exRG] at hn
    | i + 2 => rw [exRG_out] at hn; cases hn
  · intro i shape e binds impl tag uo rvars hn j hj
    match i with
    | 0 => simp [LGraph.get, exRG] at hn
    | 1 =>
      simp only [LGraph.get, exRG] at hn
      cases hn
      obtain ⟨k, hk, rfl⟩ : ∃ k, k < 2 ∧ j = [k] := by
        match j, hj with
        | [k], hj => exact ⟨k, by simpa [inB] using hj, rfl⟩
        | [], hj => simp [inB] at hj
        | _ :: _ :: _, hj => simp [inB] at hj
      simp only [Safe, true_and]
      intro l h hl hh m hm
      simp only [eval, Val.toInt?, Option.some.injEq] at hl hh
      subst hl hh
      have hm' : m < 3 := by simpa using hm
      refine ⟨by simp [SafeList, Safe, Env.bind, Env.lookupIx, idxEnv], den exRG exRInp 0, [k, m], by rfl, ?_, ?_⟩
      · simp [evalList, eval, idxEnv, Env.bind, Env.lookupIx, idxVals]
      · show inB [2, 3] [k, m] = true
        simp [inB, hk, hm']
    | i + 2 => rw [exRG_out] at hn; cases hn

example : StoredOK (execOrder exRσ exRK) "out" (den exRG exRInp 1) :=
  loopygen_sound_red_partial exRG [("out", 1)] ["x"] exRK exRInp exRσ exRGen
    (fun o ho => (fragment_check_soundR (g := exRG) (by decide)).2 o.2 (by
      simp only [List.mem_singleton] at ho; subst ho; decide))
    exRHyp (by decide) (by decide)
    (by
      intro s hs _
      simp only [exRK, List.mem_cons, List.not_mem_nil, or_false] at hs
      rcases hs with rfl | rfl
      · exact ⟨exRZ, rfl, rfl⟩
      · exact ⟨exRZ, rfl, rfl⟩) ("out", 1) (by simp)

-- what the output denotes, concretely: the row sums 0+1+2 and 10+11+12
example : (den exRG exRInp 1).get [0] = .i 3 ∧ (den exRG exRInp 1).get [1] = .i 33 := by decide

/-! ## non-vacuity, 0-d result: a total; the bounds are statements of their own -/

def exSG : LGraph :=
  #[.input "x" [3],
    .indexLambda [] (.reduce .sum "_r0" (.int 0) (.int 3) (.sub "_in0" [.var "_r0"])) [("_in0", 0)]
      .default .none ["_r0"] [⟨"_r0", "sum", false, false⟩]]
def exSX : Arr Val := ⟨[3], fun i => .i (i.headD 0 + 1)⟩
def exSZ : Arr Val := ⟨[], fun _ => .i 0⟩
def exSInp : String → Arr Val := fun _ => exSX
def exSσ : Store :=
  [("x", exSX), ("_pt_sum_r0_lbound", exSZ), ("_pt_sum_r0_ubound", exSZ), ("_pt_temp", exSZ), ("out", exSZ)]

def exSK : Kernel :=
  [{ id := "_pt_sum_r0_lbound_store", lhs := "_pt_sum_r0_lbound", lhsIdx := [], loops := [], lets := [],
     rhs := .int 0, deps := [] },
   { id := "_pt_sum_r0_ubound_store", lhs := "_pt_sum_r0_ubound", lhsIdx := [], loops := [], lets := [],
     rhs := .int 3, deps := [] },
   { id := "_pt_temp_store", lhs := "_pt_temp", lhsIdx := [], loops := [], lets := [],
     rhs := .reduce .sum "_pt_sum_r0" (.var "_pt_sum_r0_lbound") (hoistedHi "_pt_sum_r0_ubound")
       (.sub "x" [.var "_pt_sum_r0"]),
     deps := ["_pt_sum_r0_lbound_store", "_pt_sum_r0_ubound_store"] },
   { id := "out_store", lhs := "out", lhsIdx := [], loops := [], lets := [], rhs := .var "_pt_temp",
     deps := ["_pt_temp_store"] }]

theorem exSGen : generate exSG [("out", 1)] ["x"] = .ok exSK := by rfl

theorem exSG_out (i : Nat) : exSG.get (i + 2) = .other "out-of-range" := by
  simp [LGraph.get, exSG]

theorem exSHyp : Hyp exSG exSInp exSσ ["x"] := by
  refine ⟨wfG_sound (by decide), ?_, ?_⟩
  · intro i name shape hn
    match i with
    | 0 => simp only [LGraph.get, exSG] at hn; cases hn; exact ⟨by simp, rfl, rfl⟩
    | 1 => simp [LGraph.get, exSG] at hn
    | i + 2 => rw [exSG_out] at hn; cases hn
  · intro i shape e binds impl tag uo rvars hn j hj
    match i with
    | 0 => simp [LGraph.get, exSG] at hn
    | 1 =>
      simp only [LGraph.get, exSG] at hn
      cases hn
      simp only [Safe, true_and]
      intro l h hl hh m hm
      simp only [eval, Val.toInt?, Option.some.injEq] at hl hh
      subst hl hh
      have hm' : m < 3 := by simpa using hm
      refine ⟨by simp [SafeList, Safe, Env.bind, Env.lookupIx, idxEnv], den exSG exSInp 0, [m], by rfl, ?_, ?_⟩
      · simp [evalList, eval, idxEnv, Env.bind, Env.lookupIx, idxVals]
      · show inB [3] [m] = true
        simp [inB, hm']
    | i + 2 => rw [exSG_out] at hn; cases hn

example : StoredOK (execOrder exSσ exSK) "out" (den exSG exSInp 1) :=
  loopygen_sound_red_partial exSG [("out", 1)] ["x"] exSK exSInp exSσ exSGen
    (fun o ho => (fragment_check_soundR (g := exSG) (by decide)).2 o.2 (by
      simp only [List.mem_singleton] at ho; subst ho; decide))
    exSHyp (by decide) (by decide)
    (by
      intro s hs _
      simp only [exSK, List.mem_cons, List.not_mem_nil, or_false] at hs
      rcases hs with rfl | rfl | rfl | rfl
      · exact ⟨exSZ, rfl, rfl⟩
      · exact ⟨exSZ, rfl, rfl⟩
      · exact ⟨exSZ, rfl, rfl⟩
      · exact ⟨exSZ, rfl, rfl⟩) ("out", 1) (by simp)

example : (den exSG exSInp 1).get [] = .i 6 := by decide

/-! ## non-vacuity, data-dependent bounds: a segmented sum `out[i] = sum_{p[i] <= r < p[i+1]} x[r]` -/

def exCG : LGraph :=
  #[.input "p" [3], .input "x" [3],
    .indexLambda [2] (.reduce .sum "_r0" (.sub "_in0" [.idx 0]) (.sub "_in0" [.add (.idx 0) (.int 1)])
        (.sub "_in1" [.var "_r0"])) [("_in0", 0), ("_in1", 1)]
      .default .none ["_r0"] [⟨"_r0", "sum", false, false⟩]]
/-- the row pointer 0, 1, 3 -/
def exCP : Arr Val := ⟨[3], fun i => .i (match i.headD 0 with | 0 => 0 | 1 => 1 | _ => 3)⟩
def exCX : Arr Val := ⟨[3], fun i => .i (10 * (i.headD 0) + 1)⟩
def exCZ : Arr Val := ⟨[2], fun _ => .i 0⟩
def exCInp : String → Arr Val := fun n => if n = "p" then exCP else exCX
def exCσ : Store := [("p", exCP), ("x", exCX), ("_pt_temp", exCZ), ("out", exCZ)]

def exCK : Kernel :=
  [{ id := "_pt_temp_store", lhs := "_pt_temp", lhsIdx := [.var "_pt_temp_dim0"],
     loops := [("_pt_temp_dim0", .int 0, .int 2)],
     lets := [("_pt_sum_r0_lbound", .sub "p" [.var "_pt_temp_dim0"]),
              ("_pt_sum_r0_ubound", .sub "p" [.add (.var "_pt_temp_dim0") (.int 1)])],
     rhs := .reduce .sum "_pt_sum_r0" (.var "_pt_sum_r0_lbound") (hoistedHi "_pt_sum_r0_ubound")
       (.sub "x" [.var "_pt_sum_r0"]), deps := [] },
   { id := "out_store", lhs := "out", lhsIdx := [.var "out_dim0"], loops := [("out_dim0", .int 0, .int 2)], lets := [],
     rhs := .sub "_pt_temp" [.var "out_dim0"], deps := ["_pt_temp_store"] }]

theorem exCGen : generate exCG [("out", 2)] ["p", "x"] = .ok exCK := by rfl

theorem exCG_out (i : Nat) : exCG.get (i + 3) = .other "out-of-range" := by
  simp [LGraph.get, exCG]

theorem exCHyp : Hyp exCG exCInp exCσ ["p", "x"] := by
  refine ⟨wfG_sound (by decide), ?_, ?_⟩
  · intro i name shape hn
    match i with
    | 0 => simp only [LGraph.get, exCG] at hn; cases hn; exact ⟨by simp, rfl, rfl⟩
    | 1 => simp only [LGraph.get, exCG] at hn; cases hn; exact ⟨by simp, rfl, rfl⟩
    | 2 => simp [LGraph.get, exCG] at hn
    | i + 3 => rw [exCG_out] at hn; cases hn
  · intro i shape e binds impl tag uo rvars hn j hj
    match i with
    | 0 => simp [LGraph.get, exCG] at hn
    | 1 => simp [LGraph.get, exCG] at hn
    | 2 =>
      simp only [LGraph.get, exCG] at hn
      cases hn
      obtain ⟨k, hk, rfl⟩ : ∃ k, k < 2 ∧ j = [k] := by
        match j, hj with
        | [k], hj => exact ⟨k, by simpa [inB] using hj, rfl⟩
        | [], hj => simp [inB] at hj
        | _ :: _ :: _, hj => simp [inB] at hj
      have hP : den exCG exCInp 0 = exCP := by rfl
      have hX : den exCG exCInp 1 = exCX := by rfl
      simp only [Safe, SafeList, true_and, and_true, List.map_cons, List.map_nil, hP, hX]
      refine ⟨⟨exCP, [k], by rfl, by simp [evalList, eval, idxEnv, idxVals], by simp [exCP, inB]; omega⟩,
        ⟨exCP, [k + 1], by rfl, by simp [evalList, eval, idxEnv, idxVals, Val.add, Val.arith, Val.toInt?], by
          simp [exCP, inB]; omega⟩, ?_⟩
      intro l h hl hh m hm
      have hk2 : k = 0 ∨ k = 1 := by omega
      rcases hk2 with rfl | rfl
      · have e1 : l = 0 := by
          have : (eval (idxEnv [0] [("_in0", exCP), ("_in1", exCX)]) (.sub "_in0" [.idx 0])).toInt? = some 0 := by decide
          rw [this] at hl; exact (Option.some.inj hl).symm
        have e2 : h = 1 := by
          have : (eval (idxEnv [0] [("_in0", exCP), ("_in1", exCX)]) (.sub "_in0" [.add (.idx 0) (.int 1)])).toInt? = some 1 := by decide
          rw [this] at hh; exact (Option.some.inj hh).symm
        subst e1 e2
        have hm0 : m = 0 := by simpa using hm
        subst hm0
        exact ⟨by simp [Env.bind, Env.lookupIx, idxEnv], exCX, [0], by rfl, by decide, by decide⟩
      · have e1 : l = 1 := by
          have : (eval (idxEnv [1] [("_in0", exCP), ("_in1", exCX)]) (.sub "_in0" [.idx 0])).toInt? = some 1 := by decide
          rw [this] at hl; exact (Option.some.inj hl).symm
        have e2 : h = 3 := by
          have : (eval (idxEnv [1] [("_in0", exCP), ("_in1", exCX)]) (.sub "_in0" [.add (.idx 0) (.int 1)])).toInt? = some 3 := by decide
          rw [this] at hh; exact (Option.some.inj hh).symm
        subst e1 e2
        have hm2 : m = 0 ∨ m = 1 := by
          have : m < 2 := by simpa using hm
          omega
        rcases hm2 with rfl | rfl
        · exact ⟨by simp [Env.bind, Env.lookupIx, idxEnv], exCX, [1], by rfl, by decide, by decide⟩
        · exact ⟨by simp [Env.bind, Env.lookupIx, idxEnv], exCX, [2], by rfl, by decide, by decide⟩
    | i + 3 => rw [exCG_out] at hn; cases hn

example : StoredOK (execOrder exCσ exCK) "out" (den exCG exCInp 2) :=
  loopygen_sound_red_partial exCG [("out", 2)] ["p", "x"] exCK exCInp exCσ exCGen
    (fun o ho => (fragment_check_soundR (g := exCG) (by decide)).2 o.2 (by
      simp only [List.mem_singleton] at ho; subst ho; decide))
    exCHyp (by decide) (by decide)
    (by
      intro s hs _
      simp only [exCK, List.mem_cons, List.not_mem_nil, or_false] at hs
      rcases hs with rfl | rfl
      · exact ⟨exCZ, rfl, rfl⟩
      · exact ⟨exCZ, rfl, rfl⟩) ("out", 2) (by simp)

-- the segments: x[0] = 1, and x[1] + x[2] = 11 + 21
example : (den exCG exCInp 2).get [0] = .i 1 ∧ (den exCG exCInp 2).get [1] = .i 32 := by decide

end LG
end Pt

/-
  Property C14 — the NumPy-like target.
  * slice re-synthesis round-trips (`PtProofs.C14Slice`: `slice_resynth_roundtrip`, …);
  * the generator (`NumpyCodegenMapper`) is sound, refuses what it must, keeps outputs with their
    keys (`PtProofs.C14PyGen`: `Py.pygen_sound`, `Py.pygen_refuses`, `Py.outputs_aligned`);
  * the printer's parentheses are those Python's grammar needs (`PtProofs.C14Print`:
    `Py.print_parse_roundtrip`, `Py.print_precedence_sound`);
  * what the program computes for an index lambda is the lambda's pointwise value
    (`PtProofs.C14Chain`: `Py.il_value_pointwise`, through C19's `raise_sound`).
-/
import PtProofs.C14Slice
import PtProofs.C14PyGen
import PtProofs.C14Print
import PtProofs.C14Chain

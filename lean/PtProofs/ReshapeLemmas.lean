/-
  Helper lemmas for the `map_reshape` lowering rule: the flattened index
  `sum(_k * new_stride_k)` is `ravel`, the mixed-radix digits
  `(flat % size_till_j) // stride_j` are `unravel`, the shortcuts of
  `_generate_index_expressions`, and the axis grouping of `_get_reshaped_indices`.
-/
import PtProofs.EvalLemmas
import PtProofs.StackConcatLemmas
namespace Pt
open Lower Spec

/-! ### products -/

theorem prod_append : ∀ (a b : Shape), prod (a ++ b) = prod a * prod b
  | [], b => by simp [prod]
  | d :: ds, b => by simp [prod, prod_append ds b, Nat.mul_assoc]

theorem prod_take_mul_drop (s : Shape) (k : Nat) : prod (s.take k) * prod (s.drop k) = prod s := by
  rw [← prod_append, List.take_append_drop]

theorem prod_singleton (d : Nat) : prod [d] = d := by simp [prod]

/-! ### strides and "size tills", recursively -/

theorem strides_C_cons (d : Nat) (ds : Shape) :
    strides .C (d :: ds) = prod ds :: strides .C ds := by
  simp only [strides, List.length_cons, List.range_succ_eq_map, List.map_cons, List.map_map,
    List.drop_succ_cons, List.drop_zero]
  rfl

theorem sizeTills_C_cons (d : Nat) (ds : Shape) :
    sizeTills .C (d :: ds) = prod (d :: ds) :: sizeTills .C ds := by
  simp only [sizeTills, List.length_cons, List.range_succ_eq_map, List.map_cons, List.map_map,
    List.drop_zero]
  rfl

theorem strides_F_cons (d : Nat) (ds : Shape) :
    strides .F (d :: ds) = 1 :: (strides .F ds).map (d * ·) := by
  simp only [strides, List.length_cons, List.range_succ_eq_map, List.map_cons, List.map_map,
    List.take_zero, prod]
  congr 1

theorem sizeTills_F_cons (d : Nat) (ds : Shape) :
    sizeTills .F (d :: ds) = d :: (sizeTills .F ds).map (d * ·) := by
  simp only [sizeTills, List.length_cons, List.range_succ_eq_map, List.map_cons, List.map_map,
    List.take_succ_cons, List.take_zero, prod, Nat.mul_one]
  congr 1

theorem strides_length (o : Order) (s : Shape) : (strides o s).length = s.length := by
  cases o <;> simp [strides]

theorem sizeTills_length (o : Order) (s : Shape) : (sizeTills o s).length = s.length := by
  cases o <;> simp [sizeTills]

theorem strides_pos (o : Order) (s : Shape) (hs : 0 < prod s) : ∀ x ∈ strides o s, 0 < x := by
  intro x hx
  cases o with
  | C =>
    simp only [strides, List.mem_map, List.mem_range] at hx
    obtain ⟨k, _, rfl⟩ := hx
    have := prod_take_mul_drop s (k + 1)
    exact Nat.pos_of_mul_pos_left (this ▸ hs)
  | F =>
    simp only [strides, List.mem_map, List.mem_range] at hx
    obtain ⟨k, _, rfl⟩ := hx
    have := prod_take_mul_drop s k
    exact Nat.pos_of_mul_pos_right (this ▸ hs)

theorem sizeTills_pos (o : Order) (s : Shape) (hs : 0 < prod s) :
    ∀ x ∈ sizeTills o s, 0 < x := by
  intro x hx
  cases o with
  | C =>
    simp only [sizeTills, List.mem_map, List.mem_range] at hx
    obtain ⟨k, _, rfl⟩ := hx
    have := prod_take_mul_drop s k
    exact Nat.pos_of_mul_pos_left (this ▸ hs)
  | F =>
    simp only [sizeTills, List.mem_map, List.mem_range] at hx
    obtain ⟨k, _, rfl⟩ := hx
    have := prod_take_mul_drop s (k + 1)
    exact Nat.pos_of_mul_pos_right (this ▸ hs)

/-! ### the flattened index is `ravel` -/

/-- `sum(i_k * stride_k)` -/
def dot (i strs : List Nat) : Nat := (List.zipWith (· * ·) i strs).sum

theorem dot_cons (x s : Nat) (xs ss : List Nat) : dot (x :: xs) (s :: ss) = x * s + dot xs ss := by
  simp [dot]

theorem dot_map_mul (d : Nat) : ∀ (xs ss : List Nat), dot xs (ss.map (d * ·)) = d * dot xs ss
  | [], _ => by simp [dot]
  | _ :: _, [] => by simp [dot]
  | x :: xs, s :: ss => by
    simp only [List.map_cons, dot_cons, dot_map_mul d xs ss, Nat.mul_add]
    congr 1
    rw [Nat.mul_left_comm]

theorem dot_strides_C : ∀ (s : Shape) (i : Idx), inB s i = true → dot i (strides .C s) = ravelC s i
  | [], [], _ => by simp [dot, ravelC]
  | [], _ :: _, h => by simp [inB] at h
  | _ :: _, [], h => by simp [inB] at h
  | d :: ds, x :: xs, h => by
    simp only [inB, Bool.and_eq_true, decide_eq_true_eq] at h
    rw [strides_C_cons, dot_cons, dot_strides_C ds xs h.2, ravelC]

theorem dot_strides_F : ∀ (s : Shape) (i : Idx), inB s i = true → dot i (strides .F s) = ravelF s i
  | [], [], _ => by simp [dot, ravelF]
  | [], _ :: _, h => by simp [inB] at h
  | _ :: _, [], h => by simp [inB] at h
  | d :: ds, x :: xs, h => by
    simp only [inB, Bool.and_eq_true, decide_eq_true_eq] at h
    rw [strides_F_cons, dot_cons, dot_map_mul, dot_strides_F ds xs h.2, ravelF, Nat.mul_one]

/-- linearisation in either order -/
def ravel : Order → Shape → Idx → Nat
  | .C => ravelC
  | .F => ravelF

def unravel : Order → Shape → Nat → Idx
  | .C => unravelC
  | .F => unravelF

theorem dot_strides (o : Order) (s : Shape) (i : Idx) (h : inB s i = true) :
    dot i (strides o s) = ravel o s i := by
  cases o
  · exact dot_strides_C s i h
  · exact dot_strides_F s i h

theorem ravel_lt (o : Order) (s : Shape) (i : Idx) (h : inB s i = true) : ravel o s i < prod s := by
  cases o
  · exact ravelC_lt s i h
  · exact ravelF_lt s i h

theorem unravel_ravel (o : Order) (s : Shape) (i : Idx) (h : inB s i = true) :
    unravel o s (ravel o s i) = i := by
  cases o
  · exact unravelC_ravelC s i h
  · exact unravelF_ravelF s i h

theorem unravel_inB (o : Order) (s : Shape) (k : Nat) (h : k < prod s) :
    inB s (unravel o s k) = true := by
  cases o
  · exact unravelC_inB s k h
  · exact unravelF_inB s k h

theorem eval_foldl_add (env : Env) : ∀ (ts : List SExpr) (xs : List Nat) (t : SExpr) (a : Nat),
    eval env t = .i (a : Nat) → ts.map (eval env) = xs.map (fun x => Val.i (x : Nat)) →
    eval env (ts.foldl .add t) = .i ((a + xs.sum : Nat))
  | [], [], t, a, ht, _ => by simpa using ht
  | [], _ :: _, _, _, _, h => by simp at h
  | _ :: _, [], _, _, _, h => by simp at h
  | u :: ts, x :: xs, t, a, ht, h => by
    simp only [List.map_cons, List.cons.injEq] at h
    have hu : eval env (.add t u) = .i ((a + x : Nat)) := by
      simp only [eval, ht, h.1, Val.add, Val.arith, Val.toInt?]
      congr 1
    have := eval_foldl_add env ts xs (.add t u) (a + x) hu h.2
    simp only [List.foldl_cons, List.sum_cons, this]
    congr 2; omega

theorem eval_terms (env : Env) : ∀ (vars : List SExpr) (i strs : List Nat),
    vars.map (eval env) = i.map (fun x => Val.i (x : Nat)) →
    ((vars.zip strs).map fun (v, s) => SExpr.mul v (.int s)).map (eval env)
      = (List.zipWith (· * ·) i strs).map (fun x => Val.i (x : Nat))
  | [], [], _, _ => by simp
  | [], _ :: _, _, h => by simp at h
  | _ :: _, [], _, h => by simp at h
  | _ :: _, _ :: _, [], _ => by simp
  | v :: vars, x :: xs, s :: strs, h => by
    simp only [List.map_cons, List.cons.injEq] at h
    have ih := eval_terms env vars xs strs h.2
    simp only [List.zip_cons_cons, List.map_cons, List.zipWith_cons_cons, ih, List.cons.injEq,
      and_true]
    simp only [eval, h.1, Val.mul, Val.arith, Val.toInt?]
    congr 1

/-- the flattened index expression evaluates to `sum(i_k * stride_k)` -/
theorem eval_flatIndex (env : Env) (vars : List SExpr) (i strs : List Nat)
    (h : vars.map (eval env) = i.map (fun x => Val.i (x : Nat))) :
    eval env (flatIndex vars strs) = .i ((dot i strs : Nat)) := by
  have ht := eval_terms env vars i strs h
  unfold flatIndex dot
  generalize ((vars.zip strs).map fun (v, s) => SExpr.mul v (.int s)) = ts at ht
  generalize List.zipWith (· * ·) i strs = xs at ht
  cases ts with
  | nil =>
    cases xs with
    | nil => simp [eval]
    | cons _ _ => simp at ht
  | cons t ts =>
    cases xs with
    | nil => simp at ht
    | cons x xs =>
      simp only [List.map_cons, List.cons.injEq] at ht
      simp only [List.sum_cons]
      exact eval_foldl_add env ts xs t x ht.1 ht.2

/-! ### mixed radix: `(k % size_till_j) / stride_j` are the digits of `k` -/

theorem mixed_radix_C : ∀ (s : Shape) (k : Nat),
    ((sizeTills .C s).zip (strides .C s)).map (fun p => k % p.1 / p.2) = unravelC s (k % prod s)
  | [], k => by simp [sizeTills, strides, unravelC]
  | d :: ds, k => by
    have ih := mixed_radix_C ds k
    rw [sizeTills_C_cons, strides_C_cons, List.zip_cons_cons, List.map_cons, ih, unravelC]
    have hdvd : prod ds ∣ prod (d :: ds) := ⟨d, by simp [prod, Nat.mul_comm]⟩
    rw [Nat.mod_mod_of_dvd _ hdvd]

theorem mixed_radix_F : ∀ (s : Shape) (k : Nat),
    ((sizeTills .F s).zip (strides .F s)).map (fun p => k % p.1 / p.2) = unravelF s k
  | [], k => by simp [sizeTills, strides, unravelF]
  | d :: ds, k => by
    have ih := mixed_radix_F ds (k / d)
    rw [sizeTills_F_cons, strides_F_cons, List.zip_cons_cons, List.map_cons, unravelF, ← ih]
    simp only [Nat.div_one, List.cons.injEq, true_and, List.zip_map, List.map_map]
    apply List.map_congr_left
    intro p _
    simp only [Function.comp, Prod.map]
    rw [← Nat.div_div_eq_div_mul, Nat.mod_mul_right_div_self]

theorem mixed_radix (o : Order) (s : Shape) (k : Nat) (hk : k < prod s) :
    ((sizeTills o s).zip (strides o s)).map (fun p => k % p.1 / p.2) = unravel o s k := by
  cases o
  · rw [mixed_radix_C, Nat.mod_eq_of_lt hk]; rfl
  · exact mixed_radix_F s k

/-! ### the `_mod` / `_floordiv` shortcuts -/

theorem eval_rem_nat (env : Env) (e : SExpr) (k n : Nat) (he : eval env e = .i (k : Nat))
    (hn : 0 < n) : eval env (.rem e (.int n)) = .i ((k % n : Nat)) := by
  have hn' : ¬ ((n : Int) = 0) := by omega
  simp only [eval, he, Val.rem, Val.toInt?, hn', if_false, pyMod]
  rw [Int.fmod_eq_emod_of_nonneg _ (by omega), Int.natCast_mod]

theorem eval_fdiv_nat (env : Env) (e : SExpr) (k n : Nat) (he : eval env e = .i (k : Nat))
    (hn : 0 < n) : eval env (.fdiv e (.int n)) = .i ((k / n : Nat)) := by
  have hn' : ¬ ((n : Int) = 0) := by omega
  simp only [eval, he, Val.fdiv, Val.toInt?, hn', if_false, pyDiv]
  rw [Int.fdiv_eq_ediv_of_nonneg _ (by omega), Int.natCast_ediv]

/-- one generated index expression `_floordiv(_mod(flat, size_till), stride)`,
    with both shortcuts, evaluates to the mixed-radix digit -/
theorem eval_digit (env : Env) (flat : SExpr) (k oldSize st str : Nat)
    (hflat : eval env flat = .i (k : Nat)) (hk : k < oldSize) (hst : 0 < st) (hstr : 0 < str) :
    eval env
      (if str = 1 then (if st = oldSize ∧ st ≠ 0 then flat else .rem flat (.int st))
       else .fdiv (if st = oldSize ∧ st ≠ 0 then flat else .rem flat (.int st)) (.int str))
      = .i ((k % st / str : Nat)) := by
  have hmd : eval env (if st = oldSize ∧ st ≠ 0 then flat else .rem flat (.int st))
      = .i ((k % st : Nat)) := by
    by_cases h : st = oldSize ∧ st ≠ 0
    · rw [if_pos h, hflat, Nat.mod_eq_of_lt (by omega)]
    · rw [if_neg h]; exact eval_rem_nat env flat k st hflat hst
  by_cases h1 : str = 1
  · rw [if_pos h1, hmd, h1, Nat.div_one]
  · rw [if_neg h1]; exact eval_fdiv_nat env _ _ str hmd hstr

/-- `_generate_index_expressions` for one group: whatever expressions `vars`
    are, if they evaluate to an in-bounds index `ig` of `new`, the generated
    expressions evaluate to `unravel old (ravel new ig)` -/
theorem genIdx_eval (env : Env) (o : Order) (old new : Shape) (vars ix : List SExpr) (ig : Idx)
    (hvars : vars.map (eval env) = ig.map (fun x => Val.i (x : Nat)))
    (hi : inB new ig = true) (hne : old ≠ []) (hprod : prod old = prod new)
    (hg : genIdx o old new vars = some ix) :
    ix.map (eval env) = (unravel o old (ravel o new ig)).map (fun x => Val.i (x : Nat)) := by
  unfold genIdx at hg
  rw [if_neg hne] at hg
  by_cases heq : old = new
  · rw [if_pos heq] at hg
    cases hg
    rw [heq, unravel_ravel o new ig hi, hvars]
  · rw [if_neg heq] at hg
    simp only [Option.some.injEq] at hg
    subst hg
    have hk : ravel o new ig < prod old := hprod ▸ ravel_lt o new ig hi
    have hflat : eval env (flatIndex vars (strides o new)) = .i ((ravel o new ig : Nat)) := by
      rw [eval_flatIndex env vars ig _ hvars, dot_strides o new ig hi]
    rw [← mixed_radix o old _ hk, List.map_map, List.map_map]
    apply List.map_congr_left
    intro p hp
    have hst := sizeTills_pos o old (by omega) p.1 (List.of_mem_zip hp).1
    have hstr := strides_pos o old (by omega) p.2 (List.of_mem_zip hp).2
    exact eval_digit env _ _ (prod old) p.1 p.2 hflat hk hst hstr

/-! ### the single-group rule applied to a whole array -/

/-- the index variables `_v0, …, _(v0+n-1)` evaluate to that window of the point -/
theorem eval_ivars (pt : Idx) (b : List (String × Arr Val)) (v0 n : Nat) (h : v0 + n ≤ pt.length) :
    ((List.range n).map fun k => ivar (v0 + k)).map (eval (idxEnv pt b))
      = ((pt.drop v0).take n).map (fun x => Val.i (x : Nat)) := by
  apply List.ext_getElem
  · simp; omega
  · intro k h1 h2
    simp only [List.length_map, List.length_range] at h1
    simp only [List.getElem_map, List.getElem_range, List.getElem_take, List.getElem_drop, ivar]
    rw [eval_idx pt b (v0 + k) (by omega)]
    simp [List.getD, List.getElem?_eq_getElem (show v0 + k < pt.length by omega)]

theorem eval_ivars0 (i : Idx) (b : List (String × Arr Val)) :
    ((List.range i.length).map ivar).map (eval (idxEnv i b))
      = i.map (fun x => Val.i (x : Nat)) := by
  have := eval_ivars i b 0 i.length (by omega)
  simpa using this

/-- subscripting `_in0` with index expressions that evaluate to
    `unravel old k`, `k < prod old` -/
theorem eval_sub_unravel (o : Order) (a : Arr Val) (i : Idx) (ix : List SExpr) (k : Nat)
    (hk : k < prod a.shape)
    (hev : ix.map (eval (idxEnv i [("_in0", a)]))
      = (unravel o a.shape k).map (fun x => Val.i (x : Nat))) :
    eval (idxEnv i [("_in0", a)]) (.sub "_in0" ix) = a.get (unravel o a.shape k) := by
  rw [eval_sub_of _ _ _ _ hev, lookupArr_head]
  simp only [unravel_inB o a.shape k hk, if_true]

theorem reshape1_eval (o : Order) (old new : Shape) (a : Arr Val) (i : Idx) (ix : List SExpr)
    (ha : a.shape = old) (hne : old ≠ []) (hprod : prod old = prod new)
    (hi : inB new i = true)
    (hg : genIdx o old new ((List.range new.length).map ivar) = some ix) :
    eval (idxEnv i [("_in0", a)]) (.sub "_in0" ix) = a.get (unravel o old (ravel o new i)) := by
  have hlen := inB_length hi
  rw [← hlen] at hg
  have hev := genIdx_eval _ o old new _ ix i (eval_ivars0 i [("_in0", a)]) hi hne hprod hg
  subst ha
  exact eval_sub_unravel o a i ix _ (hprod ▸ ravel_lt o new i hi) hev

/-! ### ravel / unravel factor over concatenated axis groups -/

theorem inB_append_split : ∀ (s1 s2 : Shape) (i : Idx), inB (s1 ++ s2) i = true →
    inB s1 (i.take s1.length) = true ∧ inB s2 (i.drop s1.length) = true
  | [], s2, i, h => by simpa [inB] using h
  | d :: ds, s2, [], h => by simp [inB] at h
  | d :: ds, s2, x :: xs, h => by
    simp only [List.cons_append, inB, Bool.and_eq_true, decide_eq_true_eq] at h
    have := inB_append_split ds s2 xs h.2
    simp only [List.length_cons, List.take_succ_cons, List.drop_succ_cons, inB, Bool.and_eq_true,
      decide_eq_true_eq]
    exact ⟨⟨h.1, this.1⟩, this.2⟩

theorem inB_append : ∀ (s1 s2 : Shape) (i1 i2 : Idx), inB s1 i1 = true → inB s2 i2 = true →
    inB (s1 ++ s2) (i1 ++ i2) = true
  | [], s2, [], i2, _, h2 => by simpa using h2
  | [], s2, _ :: _, i2, h1, _ => by simp [inB] at h1
  | _ :: _, s2, [], i2, h1, _ => by simp [inB] at h1
  | d :: ds, s2, x :: xs, i2, h1, h2 => by
    simp only [inB, Bool.and_eq_true, decide_eq_true_eq] at h1
    simp only [List.cons_append, inB, Bool.and_eq_true, decide_eq_true_eq]
    exact ⟨h1.1, inB_append ds s2 xs i2 h1.2 h2⟩

/-- how the linearisations of two groups combine -/
def comb : Order → Nat → Nat → Nat → Nat → Nat
  | .C, _, p2, k1, k2 => k1 * p2 + k2
  | .F, p1, _, k1, k2 => k1 + p1 * k2

theorem ravelC_append : ∀ (s1 s2 : Shape) (i1 i2 : Idx), inB s1 i1 = true →
    ravelC (s1 ++ s2) (i1 ++ i2) = ravelC s1 i1 * prod s2 + ravelC s2 i2
  | [], s2, [], i2, _ => by simp [ravelC]
  | [], s2, _ :: _, i2, h => by simp [inB] at h
  | _ :: _, s2, [], i2, h => by simp [inB] at h
  | d :: ds, s2, x :: xs, i2, h => by
    simp only [inB, Bool.and_eq_true, decide_eq_true_eq] at h
    simp only [List.cons_append, ravelC, ravelC_append ds s2 xs i2 h.2, prod_append, Nat.add_mul,
      Nat.mul_assoc, Nat.add_assoc]

theorem ravelF_append : ∀ (s1 s2 : Shape) (i1 i2 : Idx), inB s1 i1 = true →
    ravelF (s1 ++ s2) (i1 ++ i2) = ravelF s1 i1 + prod s1 * ravelF s2 i2
  | [], s2, [], i2, _ => by simp [ravelF, prod]
  | [], s2, _ :: _, i2, h => by simp [inB] at h
  | _ :: _, s2, [], i2, h => by simp [inB] at h
  | d :: ds, s2, x :: xs, i2, h => by
    simp only [inB, Bool.and_eq_true, decide_eq_true_eq] at h
    simp only [List.cons_append, ravelF, ravelF_append ds s2 xs i2 h.2, prod, Nat.mul_add,
      Nat.mul_assoc, Nat.add_assoc]

theorem ravel_append (o : Order) (s1 s2 : Shape) (i1 i2 : Idx) (h : inB s1 i1 = true) :
    ravel o (s1 ++ s2) (i1 ++ i2) = comb o (prod s1) (prod s2) (ravel o s1 i1) (ravel o s2 i2) := by
  cases o
  · exact ravelC_append s1 s2 i1 i2 h
  · exact ravelF_append s1 s2 i1 i2 h

theorem ravel_unravel (o : Order) (s : Shape) (k : Nat) (h : k < prod s) :
    ravel o s (unravel o s k) = k := by
  cases o
  · exact ravelC_unravelC s k h
  · exact ravelF_unravelF s k h

/-- reshaping `new1 ++ new2 → old1 ++ old2` with `prod old1 = prod new1` and
    `prod old2 = prod new2` is reshaping the two groups separately -/
theorem unravel_ravel_append (o : Order) (old1 old2 new1 new2 : Shape) (i1 i2 : Idx)
    (h1 : inB new1 i1 = true) (h2 : inB new2 i2 = true)
    (hp1 : prod old1 = prod new1) (hp2 : prod old2 = prod new2) :
    unravel o (old1 ++ old2) (ravel o (new1 ++ new2) (i1 ++ i2))
      = unravel o old1 (ravel o new1 i1) ++ unravel o old2 (ravel o new2 i2) := by
  have hk1 : ravel o new1 i1 < prod old1 := hp1 ▸ ravel_lt o new1 i1 h1
  have hk2 : ravel o new2 i2 < prod old2 := hp2 ▸ ravel_lt o new2 i2 h2
  have hu1 := unravel_inB o old1 _ hk1
  have hu2 := unravel_inB o old2 _ hk2
  have e : ravel o (new1 ++ new2) (i1 ++ i2)
      = ravel o (old1 ++ old2) (unravel o old1 (ravel o new1 i1) ++ unravel o old2 (ravel o new2 i2)) := by
    rw [ravel_append o new1 new2 i1 i2 h1, ravel_append o old1 old2 _ _ hu1,
      ravel_unravel o old1 _ hk1, ravel_unravel o old2 _ hk2, hp1, hp2]
  rw [e, unravel_ravel o _ _ (inB_append _ _ _ _ hu1 hu2)]

/-! ### the grouped index of `_get_reshaped_indices` -/

/-- the source index the grouped algorithm computes: each group is reshaped
    separately, consuming the new index left to right -/
def groupSrc (o : Order) : List Group → Idx → Idx
  | [], _ => []
  | g :: gs, i =>
    unravel o g.old (ravel o g.new (i.take g.new.length)) ++ groupSrc o gs (i.drop g.new.length)

theorem prod_flatMap_eq : ∀ (gs : List Group), (∀ g ∈ gs, prod g.old = prod g.new) →
    prod (gs.flatMap (·.old)) = prod (gs.flatMap (·.new))
  | [], _ => rfl
  | g :: gs, h => by
    simp only [List.flatMap_cons, prod_append]
    rw [h g (by simp), prod_flatMap_eq gs (fun g' hg' => h g' (by simp [hg']))]

/-- the grouped index is the plain reshape index -/
theorem groupSrc_eq (o : Order) : ∀ (gs : List Group) (i : Idx),
    (∀ g ∈ gs, prod g.old = prod g.new) → inB (gs.flatMap (·.new)) i = true →
    groupSrc o gs i = unravel o (gs.flatMap (·.old)) (ravel o (gs.flatMap (·.new)) i)
  | [], i, _, _ => by cases o <;> simp [groupSrc, unravel, unravelC, unravelF]
  | g :: gs, i, h, hi => by
    simp only [List.flatMap_cons] at hi ⊢
    obtain ⟨h1, h2⟩ := inB_append_split _ _ _ hi
    have hrest : ∀ g' ∈ gs, prod g'.old = prod g'.new := fun g' hg' => h g' (by simp [hg'])
    have ih := groupSrc_eq o gs (i.drop g.new.length) hrest h2
    have := unravel_ravel_append o g.old (gs.flatMap (·.old)) g.new (gs.flatMap (·.new))
      (i.take g.new.length) (i.drop g.new.length) h1 h2 (h g (by simp)) (prod_flatMap_eq gs hrest)
    rw [List.take_append_drop] at this
    rw [this, groupSrc, ih]

/-- the per-group index expressions evaluate to the grouped source index -/
theorem groupIdx_eval (o : Order) (pt : Idx) (b : List (String × Arr Val)) :
    ∀ (gs : List Group) (v0 : Nat) (ix : List SExpr),
      groupIdx o gs v0 = some ix → (∀ g ∈ gs, prod g.old = prod g.new) → v0 ≤ pt.length →
      inB (gs.flatMap (·.new)) (pt.drop v0) = true →
      ix.map (eval (idxEnv pt b)) = (groupSrc o gs (pt.drop v0)).map (fun x => Val.i (x : Nat))
  | [], v0, ix, hg, _, _, _ => by
    simp only [groupIdx, Option.some.injEq] at hg
    subst hg; simp [groupSrc]
  | g :: gs, v0, ix, hg, h, hv, hi => by
    simp only [List.flatMap_cons] at hi
    obtain ⟨h1, h2⟩ := inB_append_split _ _ _ hi
    have hlen := inB_length hi
    simp only [List.length_drop, List.length_append] at hlen
    have hdrop : (pt.drop v0).drop g.new.length = pt.drop (v0 + g.new.length) := by
      rw [List.drop_drop]
    rw [hdrop] at h2
    have hrest : ∀ g' ∈ gs, prod g'.old = prod g'.new := fun g' hg' => h g' (by simp [hg'])
    have hvars := eval_ivars pt b v0 g.new.length (by omega)
    unfold groupIdx at hg
    simp only at hg
    by_cases hold : g.old = []
    · rw [if_pos hold] at hg
      by_cases hnew : g.new = [1]
      · rw [if_pos hnew] at hg
        have ih := groupIdx_eval o pt b gs _ ix hg hrest (by omega) h2
        rw [ih, groupSrc, hold, hdrop]
        cases o <;> simp [unravel, unravelC, unravelF]
      · rw [if_neg hnew] at hg; cases hg
    · rw [if_neg hold] at hg
      cases hga : genIdx o g.old g.new ((List.range g.new.length).map fun k => ivar (v0 + k)) with
      | none => rw [hga] at hg; cases hg
      | some a =>
        cases hgb : groupIdx o gs (v0 + g.new.length) with
        | none => rw [hga, hgb] at hg; cases hg
        | some r =>
          rw [hga, hgb] at hg
          simp only [Option.some.injEq] at hg
          subst hg
          have ea := genIdx_eval _ o g.old g.new _ a _ hvars h1 hold (h g (by simp)) hga
          have eb := groupIdx_eval o pt b gs _ r hgb hrest (by omega) h2
          rw [List.map_append, ea, eb, groupSrc, List.map_append, hdrop]

/-! ### the axis grouping is a partition into groups of equal product -/

theorem prod_drop_take_succ (s : Shape) (k m d : Nat) (h : s[k]? = some d) :
    prod ((s.drop k).take (m + 1)) = d * prod ((s.drop (k + 1)).take m) := by
  have hk : k < s.length := by
    rcases Nat.lt_or_ge k s.length with h' | h'
    · exact h'
    · rw [List.getElem?_eq_none h'] at h; cases h
  have hd : s[k] = d := by
    rw [List.getElem?_eq_getElem hk] at h; exact Option.some.inj h
  rw [List.drop_eq_getElem_cons hk, List.take_succ_cons, prod, hd]

/-- the inner loop extends both products until they agree -/
theorem extendGroup_spec (old new : Shape) : ∀ (fuel op np oe ne oe' ne' : Nat),
    extendGroup old new fuel op np oe ne = some (oe', ne') →
    oe ≤ old.length → ne ≤ new.length →
    oe ≤ oe' ∧ oe' ≤ old.length ∧ ne ≤ ne' ∧ ne' ≤ new.length ∧
      op * prod ((old.drop oe).take (oe' - oe)) = np * prod ((new.drop ne).take (ne' - ne))
  | 0, _, _, _, _, _, _, h, _, _ => by simp [extendGroup] at h
  | fuel + 1, op, np, oe, ne, oe', ne', h, ho, hn => by
    unfold extendGroup at h
    by_cases heq : op = np
    · rw [if_pos heq] at h
      simp only [Option.some.injEq, Prod.mk.injEq] at h
      obtain ⟨rfl, rfl⟩ := h
      simp [heq, prod, ho, hn]
    · rw [if_neg heq] at h
      by_cases hlt : np < op
      · rw [if_pos hlt] at h
        cases hd : new[ne]? with
        | none => rw [hd] at h; cases h
        | some d =>
          rw [hd] at h
          simp only at h
          have hne : ne < new.length := by
            rcases Nat.lt_or_ge ne new.length with h' | h'
            · exact h'
            · rw [List.getElem?_eq_none h'] at hd; cases hd
          obtain ⟨h1, h2, h3, h4, h5⟩ :=
            extendGroup_spec old new fuel op (np * d) oe (ne + 1) oe' ne' h ho (by omega)
          refine ⟨h1, h2, by omega, h4, ?_⟩
          have e : ne' - ne = (ne' - (ne + 1)) + 1 := by omega
          rw [e, prod_drop_take_succ new ne _ d hd, h5, Nat.mul_assoc]
      · rw [if_neg hlt] at h
        cases hd : old[oe]? with
        | none => rw [hd] at h; cases h
        | some d =>
          rw [hd] at h
          simp only at h
          have hoe : oe < old.length := by
            rcases Nat.lt_or_ge oe old.length with h' | h'
            · exact h'
            · rw [List.getElem?_eq_none h'] at hd; cases hd
          obtain ⟨h1, h2, h3, h4, h5⟩ :=
            extendGroup_spec old new fuel (op * d) np (oe + 1) ne oe' ne' h (by omega) hn
          refine ⟨by omega, h2, h3, h4, ?_⟩
          have e : oe' - oe = (oe' - (oe + 1)) + 1 := by omega
          rw [e, prod_drop_take_succ old oe _ d hd, ← h5, Nat.mul_assoc]

theorem drop_eq_cons_of_getElem? (s : Shape) (k d : Nat) (h : s[k]? = some d) :
    s.drop k = d :: s.drop (k + 1) := by
  have hk : k < s.length := by
    rcases Nat.lt_or_ge k s.length with h' | h'
    · exact h'
    · rw [List.getElem?_eq_none h'] at h; cases h
  have hd : s[k] = d := by
    rw [List.getElem?_eq_getElem hk] at h; exact Option.some.inj h
  rw [List.drop_eq_getElem_cons hk, hd]

theorem lt_length_of_getElem? {s : Shape} {k d : Nat} (h : s[k]? = some d) : k < s.length := by
  rcases Nat.lt_or_ge k s.length with h' | h'
  · exact h'
  · rw [List.getElem?_eq_none h'] at h; cases h

/-- the two-pointer loop partitions both shapes into groups of equal product -/
theorem groupsFrom_spec (old new : Shape) : ∀ (fuel oi ni : Nat) (gs : List Group),
    groupsFrom old new fuel oi ni = some gs → oi ≤ old.length → ni ≤ new.length →
    gs.flatMap (·.old) = old.drop oi ∧ gs.flatMap (·.new) = new.drop ni ∧
      ∀ g ∈ gs, prod g.old = prod g.new ∧ (g.old = [] → g.new = [1])
  | 0, _, _, _, h, _, _ => by simp [groupsFrom] at h
  | fuel + 1, oi, ni, gs, h, ho, hn => by
    unfold groupsFrom at h
    cases hod : old[oi]? with
    | none =>
      cases hnd : new[ni]? with
      | none =>
        rw [hod, hnd] at h
        simp only [Option.some.injEq] at h
        subst h
        have h1 : old.length ≤ oi := by simpa using hod
        have h2 : new.length ≤ ni := by simpa using hnd
        simp [List.drop_eq_nil_of_le h1, List.drop_eq_nil_of_le h2]
      | some nd =>
        rw [hod, hnd] at h
        simp only at h
        by_cases h1 : nd = 1
        · rw [if_pos h1] at h
          obtain ⟨gs', hgs', rfl⟩ := Option.map_eq_some_iff.mp h
          have hlt := lt_length_of_getElem? hnd
          obtain ⟨a, b, c⟩ := groupsFrom_spec old new fuel oi (ni + 1) gs' hgs' ho (by omega)
          refine ⟨by simpa using a, ?_, ?_⟩
          · rw [drop_eq_cons_of_getElem? new ni nd hnd]; simp [b]
          · intro g hg
            simp only [List.mem_cons] at hg
            rcases hg with rfl | hg
            · simp [prod, h1]
            · exact c g hg
        · rw [if_neg h1] at h; cases h
    | some od =>
      have hlto := lt_length_of_getElem? hod
      cases hnd : new[ni]? with
      | none =>
        rw [hod, hnd] at h
        simp only at h
        by_cases h1 : od = 1
        · rw [if_pos h1] at h
          obtain ⟨gs', hgs', rfl⟩ := Option.map_eq_some_iff.mp h
          obtain ⟨a, b, c⟩ := groupsFrom_spec old new fuel (oi + 1) ni gs' hgs' (by omega) hn
          refine ⟨?_, by simpa using b, ?_⟩
          · rw [drop_eq_cons_of_getElem? old oi od hod]; simp [a]
          · intro g hg
            simp only [List.mem_cons] at hg
            rcases hg with rfl | hg
            · simp [prod, h1]
            · exact c g hg
        · rw [if_neg h1] at h; cases h
      | some nd =>
        have hltn := lt_length_of_getElem? hnd
        rw [hod, hnd] at h
        simp only at h
        by_cases h1 : od ≠ nd ∧ od = 1
        · rw [if_pos h1] at h
          obtain ⟨gs', hgs', rfl⟩ := Option.map_eq_some_iff.mp h
          obtain ⟨a, b, c⟩ := groupsFrom_spec old new fuel (oi + 1) ni gs' hgs' (by omega) hn
          refine ⟨?_, by simpa using b, ?_⟩
          · rw [drop_eq_cons_of_getElem? old oi od hod]; simp [a]
          · intro g hg
            simp only [List.mem_cons] at hg
            rcases hg with rfl | hg
            · simp [prod, h1.2]
            · exact c g hg
        · rw [if_neg h1] at h
          by_cases h2 : od ≠ nd ∧ nd = 1
          · rw [if_pos h2] at h
            obtain ⟨gs', hgs', rfl⟩ := Option.map_eq_some_iff.mp h
            obtain ⟨a, b, c⟩ := groupsFrom_spec old new fuel oi (ni + 1) gs' hgs' ho (by omega)
            refine ⟨by simpa using a, ?_, ?_⟩
            · rw [drop_eq_cons_of_getElem? new ni nd hnd]; simp [b]
            · intro g hg
              simp only [List.mem_cons] at hg
              rcases hg with rfl | hg
              · simp [prod, h2.2]
              · exact c g hg
          · rw [if_neg h2] at h
            cases he : extendGroup old new (old.length + new.length + 1) od nd (oi + 1) (ni + 1) with
            | none => rw [he] at h; cases h
            | some p =>
              obtain ⟨oe, ne⟩ := p
              rw [he] at h
              simp only at h
              obtain ⟨gs', hgs', rfl⟩ := Option.map_eq_some_iff.mp h
              obtain ⟨e1, e2, e3, e4, e5⟩ :=
                extendGroup_spec old new _ od nd (oi + 1) (ni + 1) oe ne he (by omega) (by omega)
              obtain ⟨a, b, c⟩ := groupsFrom_spec old new fuel oe ne gs' hgs' e2 e4
              have hdo : old.drop oe = (old.drop oi).drop (oe - oi) := by
                rw [List.drop_drop]; congr 1; omega
              have hdn : new.drop ne = (new.drop ni).drop (ne - ni) := by
                rw [List.drop_drop]; congr 1; omega
              refine ⟨?_, ?_, ?_⟩
              · simp only [List.flatMap_cons, a, hdo, List.take_append_drop]
              · simp only [List.flatMap_cons, b, hdn, List.take_append_drop]
              · intro g hg
                simp only [List.mem_cons] at hg
                rcases hg with rfl | hg
                · have eo : oe - oi = (oe - (oi + 1)) + 1 := by omega
                  have en : ne - ni = (ne - (ni + 1)) + 1 := by omega
                  simp only
                  refine ⟨?_, ?_⟩
                  · rw [eo, en, prod_drop_take_succ old oi _ od hod,
                      prod_drop_take_succ new ni _ nd hnd, e5]
                  · rw [eo, drop_eq_cons_of_getElem? old oi od hod]; simp
                · exact c g hg

theorem groups_valid (old new : Shape) (gs : List Group) (h : groups old new = some gs) :
    gs.flatMap (·.old) = old ∧ gs.flatMap (·.new) = new ∧ ∀ g ∈ gs, prod g.old = prod g.new := by
  obtain ⟨a, b, c⟩ := groupsFrom_spec old new _ 0 0 gs h (Nat.zero_le _) (Nat.zero_le _)
  exact ⟨by simpa using a, by simpa using b, fun g hg => (c g hg).1⟩

/-- `_get_reshaped_indices` as a whole: any successful run of the (grouped)
    algorithm produces index expressions that evaluate to `unravel old (ravel new i)` -/
theorem reshapeIdx_eval (o : Order) (old new : Shape) (b : List (String × Arr Val)) (i : Idx)
    (ix : List SExpr) (hprod : prod old = prod new) (hi : inB new i = true)
    (hix : reshapeIdx o old new = some ix) :
    ix.map (eval (idxEnv i b))
      = (unravel o old (ravel o new i)).map (fun x => Val.i (x : Nat)) := by
  have h1g : ∀ (ix : List SExpr), old ≠ [] →
      genIdx o old new ((List.range new.length).map ivar) = some ix →
      ix.map (eval (idxEnv i b))
        = (unravel o old (ravel o new i)).map (fun x => Val.i (x : Nat)) := by
    intro ix hne hg
    rw [← inB_length hi] at hg
    exact genIdx_eval _ o old new _ ix i (eval_ivars0 i b) hi hne hprod hg
  unfold reshapeIdx at hix
  simp only at hix
  by_cases h0 : old = []
  · rw [if_pos h0] at hix
    by_cases h1 : prod new = 1
    · rw [if_pos h1] at hix
      cases hix
      rw [h0]
      cases o <;> simp [unravel, unravelC, unravelF]
    · rw [if_neg h1] at hix; cases hix
  · rw [if_neg h0] at hix
    by_cases h1 : new = []
    · rw [if_pos h1] at hix
      exact h1g ix h0 hix
    · rw [if_neg h1] at hix
      by_cases h2 : old.contains 0 = true ∧ new.contains 0 = true
      · rw [if_pos h2] at hix
        exact h1g ix h0 hix
      · rw [if_neg h2] at hix
        obtain ⟨gs, hgs, hgi⟩ := Option.bind_eq_some_iff.mp hix
        obtain ⟨ho, hn, hp⟩ := groups_valid old new gs hgs
        have hev := groupIdx_eval o i b gs 0 ix hgi hp (Nat.zero_le _)
          (by rw [hn]; simpa using hi)
        rw [List.drop_zero, groupSrc_eq o gs i hp (by rw [hn]; exact hi), ho, hn] at hev
        exact hev

/-- `map_reshape` as a whole: any successful run of the (grouped) algorithm reads
    the element `unravel old (ravel new i)` -/
theorem reshape_eval (o : Order) (old new : Shape) (a : Arr Val) (i : Idx) (e : SExpr)
    (ha : a.shape = old) (hprod : prod old = prod new) (hi : inB new i = true)
    (hg : Lower.reshape o old new = some e) :
    eval (idxEnv i [("_in0", a)]) e = a.get (unravel o old (ravel o new i)) := by
  unfold Lower.reshape at hg
  obtain ⟨ix, hix, rfl⟩ := Option.map_eq_some_iff.mp hg
  have hev := reshapeIdx_eval o old new [("_in0", a)] i ix hprod hi hix
  subst ha
  exact eval_sub_unravel o a i ix _ (hprod ▸ ravel_lt o new i hi) hev

/-! ### the algorithm never gives up on shapes of equal size -/

theorem mem_zero_of_prod_eq_zero : ∀ (s : Shape), prod s = 0 → 0 ∈ s
  | [], h => by simp [prod] at h
  | d :: ds, h => by
    simp only [prod, Nat.mul_eq_zero] at h
    rcases h with h | h
    · simp [h]
    · simp [mem_zero_of_prod_eq_zero ds h]

theorem prod_drop_pos (s : Shape) (h : 0 < prod s) (k : Nat) : 0 < prod (s.drop k) := by
  have := prod_take_mul_drop s k
  exact Nat.pos_of_mul_pos_left (this ▸ h)

theorem prod_drop_of_length_le (s : Shape) (k : Nat) (h : s.length ≤ k) : prod (s.drop k) = 1 := by
  rw [List.drop_eq_nil_of_le h]; rfl

theorem prod_drop_getElem (s : Shape) (k : Nat) (h : k < s.length) :
    prod (s.drop k) = s[k] * prod (s.drop (k + 1)) := by
  rw [List.drop_eq_getElem_cons h, prod]

theorem genIdx_total (o : Order) (old new : Shape) (vars : List SExpr) (h : old ≠ []) :
    ∃ ix, genIdx o old new vars = some ix := by
  unfold genIdx
  rw [if_neg h]
  by_cases h2 : old = new
  · rw [if_pos h2]; exact ⟨_, rfl⟩
  · rw [if_neg h2]; exact ⟨_, rfl⟩

theorem extendGroup_total (old new : Shape) : ∀ (fuel op np oe ne : Nat),
    0 < op → 0 < np → 0 < prod (old.drop oe) → 0 < prod (new.drop ne) →
    op * prod (old.drop oe) = np * prod (new.drop ne) →
    (old.length - oe) + (new.length - ne) < fuel →
    ∃ r, extendGroup old new fuel op np oe ne = some r
  | 0, _, _, _, _, _, _, _, _, _, hf => by omega
  | fuel + 1, op, np, oe, ne, hop, hnp, hpo, hpn, hinv, hf => by
    unfold extendGroup
    by_cases heq : op = np
    · rw [if_pos heq]; exact ⟨_, rfl⟩
    · rw [if_neg heq]
      by_cases hlt : np < op
      · rw [if_pos hlt]
        have hne : ne < new.length := by
          rcases Nat.lt_or_ge ne new.length with h' | h'
          · exact h'
          · exfalso
            rw [prod_drop_of_length_le new ne h', Nat.mul_one] at hinv
            have : op ≤ op * prod (old.drop oe) := Nat.le_mul_of_pos_right _ hpo
            omega
        rw [List.getElem?_eq_getElem hne]
        simp only
        have hsplit := prod_drop_getElem new ne hne
        rw [hsplit] at hpn hinv
        exact extendGroup_total old new fuel op (np * new[ne]) oe (ne + 1) hop
          (Nat.mul_pos hnp (Nat.pos_of_mul_pos_right hpn)) hpo (Nat.pos_of_mul_pos_left hpn)
          (by rw [hinv, Nat.mul_assoc]) (by omega)
      · rw [if_neg hlt]
        have hoe : oe < old.length := by
          rcases Nat.lt_or_ge oe old.length with h' | h'
          · exact h'
          · exfalso
            rw [prod_drop_of_length_le old oe h', Nat.mul_one] at hinv
            have : np ≤ np * prod (new.drop ne) := Nat.le_mul_of_pos_right _ hpn
            omega
        rw [List.getElem?_eq_getElem hoe]
        simp only
        have hsplit := prod_drop_getElem old oe hoe
        rw [hsplit] at hpo hinv
        exact extendGroup_total old new fuel (op * old[oe]) np (oe + 1) ne
          (Nat.mul_pos hop (Nat.pos_of_mul_pos_right hpo)) hnp (Nat.pos_of_mul_pos_left hpo) hpn
          (by rw [← hinv, Nat.mul_assoc]) (by omega)

theorem groupsFrom_total (old new : Shape) (hpo : 0 < prod old) (hpn : 0 < prod new) :
    ∀ (fuel oi ni : Nat), prod (old.drop oi) = prod (new.drop ni) →
    (old.length - oi) + (new.length - ni) < fuel → oi ≤ old.length → ni ≤ new.length →
    ∃ gs, groupsFrom old new fuel oi ni = some gs
  | 0, _, _, _, hf, _, _ => by omega
  | fuel + 1, oi, ni, hinv, hf, ho, hn => by
    unfold groupsFrom
    have hdo := prod_drop_pos old hpo
    have hdn := prod_drop_pos new hpn
    rcases Nat.lt_or_ge oi old.length with hlo | hlo
    · rw [List.getElem?_eq_getElem hlo]
      have hso := prod_drop_getElem old oi hlo
      rcases Nat.lt_or_ge ni new.length with hln | hln
      · rw [List.getElem?_eq_getElem hln]
        have hsn := prod_drop_getElem new ni hln
        simp only
        by_cases h1 : old[oi] ≠ new[ni] ∧ old[oi] = 1
        · rw [if_pos h1]
          obtain ⟨gs, hgs⟩ := groupsFrom_total old new hpo hpn fuel (oi + 1) ni
            (by rw [← hinv, hso, h1.2, Nat.one_mul]) (by omega) (by omega) hn
          exact ⟨_, by rw [hgs]; rfl⟩
        · rw [if_neg h1]
          by_cases h2 : old[oi] ≠ new[ni] ∧ new[ni] = 1
          · rw [if_pos h2]
            obtain ⟨gs, hgs⟩ := groupsFrom_total old new hpo hpn fuel oi (ni + 1)
              (by rw [hinv, hsn, h2.2, Nat.one_mul]) (by omega) ho (by omega)
            exact ⟨_, by rw [hgs]; rfl⟩
          · rw [if_neg h2]
            have hpo' := hdo oi
            have hpn' := hdn ni
            rw [hso] at hpo'
            rw [hsn] at hpn'
            obtain ⟨⟨oe, ne⟩, he⟩ := extendGroup_total old new (old.length + new.length + 1)
              old[oi] new[ni] (oi + 1) (ni + 1) (Nat.pos_of_mul_pos_right hpo')
              (Nat.pos_of_mul_pos_right hpn') (hdo _) (hdn _) (by rw [← hso, ← hsn, hinv]) (by omega)
            rw [he]
            simp only
            obtain ⟨e1, e2, e3, e4, e5⟩ :=
              extendGroup_spec old new _ _ _ (oi + 1) (ni + 1) oe ne he (by omega) (by omega)
            -- the remaining products still agree
            have hro : prod (old.drop (oi + 1))
                = prod ((old.drop (oi + 1)).take (oe - (oi + 1))) * prod (old.drop oe) := by
              rw [← prod_take_mul_drop (old.drop (oi + 1)) (oe - (oi + 1)), List.drop_drop]
              congr 3; omega
            have hrn : prod (new.drop (ni + 1))
                = prod ((new.drop (ni + 1)).take (ne - (ni + 1))) * prod (new.drop ne) := by
              rw [← prod_take_mul_drop (new.drop (ni + 1)) (ne - (ni + 1)), List.drop_drop]
              congr 3; omega
            have hinv' : prod (old.drop oe) = prod (new.drop ne) := by
              have hG : 0 < old[oi] * prod ((old.drop (oi + 1)).take (oe - (oi + 1))) := by
                rw [hro] at hpo'
                rw [← Nat.mul_assoc] at hpo'
                exact Nat.pos_of_mul_pos_right hpo'
              apply Nat.eq_of_mul_eq_mul_left hG
              calc old[oi] * prod ((old.drop (oi + 1)).take (oe - (oi + 1))) * prod (old.drop oe)
                  = prod (old.drop oi) := by rw [hso, hro, Nat.mul_assoc]
                _ = prod (new.drop ni) := hinv
                _ = new[ni] * prod ((new.drop (ni + 1)).take (ne - (ni + 1))) * prod (new.drop ne) := by
                    rw [hsn, hrn, Nat.mul_assoc]
                _ = old[oi] * prod ((old.drop (oi + 1)).take (oe - (oi + 1))) * prod (new.drop ne) := by
                    rw [e5]
            obtain ⟨gs, hgs⟩ := groupsFrom_total old new hpo hpn fuel oe ne hinv' (by omega) e2 e4
            exact ⟨_, by rw [hgs]; rfl⟩
      · rw [List.getElem?_eq_none hln]
        simp only
        have h1 : old[oi] = 1 := by
          rw [prod_drop_of_length_le new ni hln, hso] at hinv
          exact Nat.eq_one_of_mul_eq_one_right hinv
        rw [if_pos h1]
        obtain ⟨gs, hgs⟩ := groupsFrom_total old new hpo hpn fuel (oi + 1) ni
          (by rw [← hinv, hso, h1, Nat.one_mul]) (by omega) (by omega) hn
        exact ⟨_, by rw [hgs]; rfl⟩
    · rw [List.getElem?_eq_none hlo]
      rcases Nat.lt_or_ge ni new.length with hln | hln
      · rw [List.getElem?_eq_getElem hln]
        have hsn := prod_drop_getElem new ni hln
        simp only
        have h1 : new[ni] = 1 := by
          rw [prod_drop_of_length_le old oi hlo, hsn] at hinv
          exact Nat.eq_one_of_mul_eq_one_right hinv.symm
        rw [if_pos h1]
        obtain ⟨gs, hgs⟩ := groupsFrom_total old new hpo hpn fuel oi (ni + 1)
          (by rw [hinv, hsn, h1, Nat.one_mul]) (by omega) ho (by omega)
        exact ⟨_, by rw [hgs]; rfl⟩
      · rw [List.getElem?_eq_none hln]; exact ⟨_, rfl⟩

theorem groupIdx_total (o : Order) : ∀ (gs : List Group) (v0 : Nat),
    (∀ g ∈ gs, g.old = [] → g.new = [1]) → ∃ ix, groupIdx o gs v0 = some ix
  | [], _, _ => ⟨_, rfl⟩
  | g :: gs, v0, h => by
    obtain ⟨r, hr⟩ := groupIdx_total o gs (v0 + g.new.length) (fun g' hg' => h g' (by simp [hg']))
    unfold groupIdx
    simp only
    by_cases hold : g.old = []
    · rw [if_pos hold, if_pos (h g (by simp) hold)]; exact ⟨r, hr⟩
    · rw [if_neg hold]
      obtain ⟨a, ha⟩ := genIdx_total o g.old g.new
        ((List.range g.new.length).map fun k => ivar (v0 + k)) hold
      rw [ha, hr]; exact ⟨_, rfl⟩

/-- `map_reshape` produces an expression for every pair of shapes of equal size
    (none of the Python `assert`s can fire) -/
theorem reshape_total (o : Order) (old new : Shape) (hprod : prod old = prod new) :
    ∃ e, Lower.reshape o old new = some e := by
  suffices h : ∃ ix, reshapeIdx o old new = some ix by
    obtain ⟨ix, hix⟩ := h
    exact ⟨_, by rw [Lower.reshape, hix]; rfl⟩
  unfold reshapeIdx
  simp only
  by_cases h0 : old = []
  · rw [if_pos h0]
    have : prod new = 1 := by rw [← hprod, h0]; rfl
    rw [if_pos this]; exact ⟨_, rfl⟩
  · rw [if_neg h0]
    by_cases h1 : new = []
    · rw [if_pos h1]; exact genIdx_total o old new _ h0
    · rw [if_neg h1]
      by_cases h2 : old.contains 0 = true ∧ new.contains 0 = true
      · rw [if_pos h2]; exact genIdx_total o old new _ h0
      · rw [if_neg h2]
        have hpo : 0 < prod old := by
          rcases Nat.eq_zero_or_pos (prod old) with hz | hp
          · exfalso
            apply h2
            have h3 := mem_zero_of_prod_eq_zero old hz
            have h4 := mem_zero_of_prod_eq_zero new (hprod ▸ hz)
            simp [h3, h4]
          · exact hp
        obtain ⟨gs, hgs⟩ := groupsFrom_total old new hpo (hprod ▸ hpo)
          (old.length + new.length + 1) 0 0 (by simpa using hprod) (by omega)
          (Nat.zero_le _) (Nat.zero_le _)
        obtain ⟨_, _, c⟩ := groupsFrom_spec old new _ 0 0 gs hgs (Nat.zero_le _) (Nat.zero_le _)
        obtain ⟨ix, hix⟩ := groupIdx_total o gs 0 (fun g hg => (c g hg).2)
        exact ⟨ix, by rw [groups, hgs]; exact hix⟩

end Pt

/-
  Helper lemmas for the `map_reshape` lowering rule: the flattened index
  `sum(_k * new_stride_k)` is `ravel`, the mixed-radix digits
  `(flat % size_till_j) // stride_j` are `unravel`, the shortcuts of
  `_generate_index_expressions`, and the axis grouping of `_get_reshaped_indices`.
-/
import PtProofs.EvalLemmas
import PtProofs.StackConcatLemmas
namespace Pt
open Lower Spec

/-! ### products -/

theorem prod_append : ∀ (a b : Shape), prod (a ++ b) = prod a * prod b
  | [], b => by simp [prod]
  | d :: ds, b => by simp [prod, prod_append ds b, Nat.mul_assoc]

theorem prod_take_mul_drop (s : Shape) (k : Nat) : prod (s.take k) * prod (s.drop k) = prod s := by
  rw [← prod_append, List.take_append_drop]

theorem prod_singleton (d : Nat) : prod [d] = d := by simp [prod]

/-! ### strides and "size tills", recursively -/

theorem strides_C_cons (d : Nat) (ds : Shape) :
    strides .C (d :: ds) = prod ds :: strides .C ds := by
  simp only [strides, List.length_cons, List.range_succ_eq_map, List.map_cons, List.map_map,
    List.drop_succ_cons, List.drop_zero]
  rfl

theorem sizeTills_C_cons (d : Nat) (ds : Shape) :
    sizeTills .C (d :: ds) = prod (d :: ds) :: sizeTills .C ds := by
  simp only [sizeTills, List.length_cons, List.range_succ_eq_map, List.map_cons, List.map_map,
    List.drop_zero]
  rfl

theorem strides_F_cons (d : Nat) (ds : Shape) :
    strides .F (d :: ds) = 1 :: (strides .F ds).map (d * ·) := by
  simp only [strides, List.length_cons, List.range_succ_eq_map, List.map_cons, List.map_map,
    List.take_zero, prod]
  congr 1

theorem sizeTills_F_cons (d : Nat) (ds : Shape) :
    sizeTills .F (d :: ds) = d :: (sizeTills .F ds).map (d * ·) := by
  simp only [sizeTills, List.length_cons, List.range_succ_eq_map, List.map_cons, List.map_map,
    List.take_succ_cons, List.take_zero, prod, Nat.mul_one]
  congr 1

theorem strides_length (o : Order) (s : Shape) : (strides o s).length = s.length := by
  cases o <;> simp [strides]

theorem sizeTills_length (o : Order) (s : Shape) : (sizeTills o s).length = s.length := by
  cases o <;> simp [sizeTills]

theorem strides_pos (o : Order) (s : Shape) (hs : 0 < prod s) : ∀ x ∈ strides o s, 0 < x := by
  intro x hx
  cases o with
  | C =>
    simp only [strides, List.mem_map, List.mem_range] at hx
    obtain ⟨k, _, rfl⟩ := hx
    have := prod_take_mul_drop s (k + 1)
    exact Nat.pos_of_mul_pos_left (this ▸ hs)
  | F =>
    simp only [strides, List.mem_map, List.mem_range] at hx
    obtain ⟨k, _, rfl⟩ := hx
    have := prod_take_mul_drop s k
    exact Nat.pos_of_mul_pos_right (this ▸ hs)

theorem sizeTills_pos (o : Order) (s : Shape) (hs : 0 < prod s) :
    ∀ x ∈ sizeTills o s, 0 < x := by
  intro x hx
  cases o with
  | C =>
    simp only [sizeTills, List.mem_map, List.mem_range] at hx
    obtain ⟨k, _, rfl⟩ := hx
    have := prod_take_mul_drop s k
    exact Nat.pos_of_mul_pos_left (this ▸ hs)
  | F =>
    simp only [sizeTills, List.mem_map, List.mem_range] at hx
    obtain ⟨k, _, rfl⟩ := hx
    have := prod_take_mul_drop s (k + 1)
    exact Nat.pos_of_mul_pos_right (this ▸ hs)

/-! ### the flattened index is `ravel` -/

/-- `sum(i_k * stride_k)` -/
def dot (i strs : List Nat) : Nat := (List.zipWith (· * ·) i strs).sum

theorem dot_cons (x s : Nat) (xs ss : List Nat) : dot (x :: xs) (s :: ss) = x * s + dot xs ss := by
  simp [dot]

theorem dot_map_mul (d : Nat) : ∀ (xs ss : List Nat), dot xs (ss.map (d * ·)) = d * dot xs ss
  | [], _ => by simp [dot]
  | _ :: _, [] => by simp [dot]
  | x :: xs, s :: ss => by
    simp only [List.map_cons, dot_cons, dot_map_mul d xs ss, Nat.mul_add]
    congr 1
    rw [Nat.mul_left_comm]

theorem dot_strides_C : ∀ (s : Shape) (i : Idx), inB s i = true → dot i (strides .C s) = ravelC s i
  | [], [], _ => by simp [dot, ravelC]
  | [], _ :: _, h => by simp [inB] at h
  | _ :: _, [], h => by simp [inB] at h
  | d :: ds, x :: xs, h => by
    simp only [inB, Bool.and_eq_true, decide_eq_true_eq] at h
    rw [strides_C_cons, dot_cons, dot_strides_C ds xs h.2, ravelC]

theorem dot_strides_F : ∀ (s : Shape) (i : Idx), inB s i = true → dot i (strides .F s) = ravelF s i
  | [], [], _ => by simp [dot, ravelF]
  | [], _ :: _, h => by simp [inB] at h
  | _ :: _, [], h => by simp [inB] at h
  | d :: ds, x :: xs, h => by
    simp only [inB, Bool.and_eq_true, decide_eq_true_eq] at h
    rw [strides_F_cons, dot_cons, dot_map_mul, dot_strides_F ds xs h.2, ravelF, Nat.mul_one]

/-- linearisation in either order -/
def ravel : Order → Shape → Idx → Nat
  | .C => ravelC
  | .F => ravelF

def unravel : Order → Shape → Nat → Idx
  | .C => unravelC
  | .F => unravelF

theorem dot_strides (o : Order) (s : Shape) (i : Idx) (h : inB s i = true) :
    dot i (strides o s) = ravel o s i := by
  cases o
  · exact dot_strides_C s i h
  · exact dot_strides_F s i h

theorem ravel_lt (o : Order) (s : Shape) (i : Idx) (h : inB s i = true) : ravel o s i < prod s := by
  cases o
  · exact ravelC_lt s i h
  · exact ravelF_lt s i h

theorem unravel_ravel (o : Order) (s : Shape) (i : Idx) (h : inB s i = true) :
    unravel o s (ravel o s i) = i := by
  cases o
  · exact unravelC_ravelC s i h
  · exact unravelF_ravelF s i h

theorem unravel_inB (o : Order) (s : Shape) (k : Nat) (h : k < prod s) :
    inB s (unravel o s k) = true := by
  cases o
  · exact unravelC_inB s k h
  · exact unravelF_inB s k h

theorem eval_foldl_add (env : Env) : ∀ (ts : List SExpr) (xs : List Nat) (t : SExpr) (a : Nat),
    eval env t = .i (a : Nat) → ts.map (eval env) = xs.map (fun x => Val.i (x : Nat)) →
    eval env (ts.foldl .add t) = .i ((a + xs.sum : Nat))
  | [], [], t, a, ht, _ => by simpa using ht
  | [], _ :: _, _, _, _, h => by simp at h
  | _ :: _, [], _, _, _, h => by simp at h
  | u :: ts, x :: xs, t, a, ht, h => by
    simp only [List.map_cons, List.cons.injEq] at h
    have hu : eval env (.add t u) = .i ((a + x : Nat)) := by
      simp only [eval, ht, h.1, Val.add, Val.arith, Val.toInt?]
      congr 1
    have := eval_foldl_add env ts xs (.add t u) (a + x) hu h.2
    simp only [List.foldl_cons, List.sum_cons, this]
    congr 2; omega

theorem eval_terms (env : Env) : ∀ (vars : List SExpr) (i strs : List Nat),
    vars.map (eval env) = i.map (fun x => Val.i (x : Nat)) →
    ((vars.zip strs).map fun (v, s) => SExpr.mul v (.int s)).map (eval env)
      = (List.zipWith (· * ·) i strs).map (fun x => Val.i (x : Nat))
  | [], [], _, _ => by simp
  | [], _ :: _, _, h => by simp at h
  | _ :: _, [], _, h => by simp at h
  | _ :: _, _ :: _, [], _ => by simp
  | v :: vars, x :: xs, s :: strs, h => by
    simp only [List.map_cons, List.cons.injEq] at h
    have ih := eval_terms env vars xs strs h.2
    simp only [List.zip_cons_cons, List.map_cons, List.zipWith_cons_cons, ih, List.cons.injEq,
      and_true]
    simp only [eval, h.1, Val.mul, Val.arith, Val.toInt?]
    congr 1

/-- the flattened index expression evaluates to `sum(i_k * stride_k)` -/
theorem eval_flatIndex (env : Env) (vars : List SExpr) (i strs : List Nat)
    (h : vars.map (eval env) = i.map (fun x => Val.i (x : Nat))) :
    eval env (flatIndex vars strs) = .i ((dot i strs : Nat)) := by
  have ht := eval_terms env vars i strs h
  unfold flatIndex dot
  generalize ((vars.zip strs).map fun (v, s) => SExpr.mul v (.int s)) = ts at ht
  generalize List.zipWith (· * ·) i strs = xs at ht
  cases ts with
  | nil =>
    cases xs with
    | nil => simp [eval]
    | cons _ _ => simp at ht
  | cons t ts =>
    cases xs with
    | nil => simp at ht
    | cons x xs =>
      simp only [List.map_cons, List.cons.injEq] at ht
      simp only [List.sum_cons]
      exact eval_foldl_add env ts xs t x ht.1 ht.2

/-! ### mixed radix: `(k % size_till_j) / stride_j` are the digits of `k` -/

theorem mixed_radix_C : ∀ (s : Shape) (k : Nat),
    ((sizeTills .C s).zip (strides .C s)).map (fun p => k % p.1 / p.2) = unravelC s (k % prod s)
  | [], k => by simp [sizeTills, strides, unravelC]
  | d :: ds, k => by
    have ih := mixed_radix_C ds k
    rw [sizeTills_C_cons, strides_C_cons, List.zip_cons_cons, List.map_cons, ih, unravelC]
    have hdvd : prod ds ∣ prod (d :: ds) := ⟨d, by simp [prod, Nat.mul_comm]⟩
    rw [Nat.mod_mod_of_dvd _ hdvd]

theorem mixed_radix_F : ∀ (s : Shape) (k : Nat),
    ((sizeTills .F s).zip (strides .F s)).map (fun p => k % p.1 / p.2) = unravelF s k
  | [], k => by simp [sizeTills, strides, unravelF]
  | d :: ds, k => by
    have ih := mixed_radix_F ds (k / d)
    rw [sizeTills_F_cons, strides_F_cons, List.zip_cons_cons, List.map_cons, unravelF, ← ih]
    simp only [Nat.div_one, List.cons.injEq, true_and, List.zip_map, List.map_map]
    apply List.map_congr_left
    intro p _
    simp only [Function.comp, Prod.map]
    rw [← Nat.div_div_eq_div_mul, Nat.mod_mul_right_div_self]

theorem mixed_radix (o : Order) (s : Shape) (k : Nat) (hk : k < prod s) :
    ((sizeTills o s).zip (strides o s)).map (fun p => k % p.1 / p.2) = unravel o s k := by
  cases o
  · rw [mixed_radix_C, Nat.mod_eq_of_lt hk]; rfl
  · exact mixed_radix_F s k

/-! ### the `_mod` / `_floordiv` shortcuts -/

theorem eval_rem_nat (env : Env) (e : SExpr) (k n : Nat) (he : eval env e = .i (k : Nat))
    (hn : 0 < n) : eval env (.rem e (.int n)) = .i ((k % n : Nat)) := by
  have hn' : ¬ ((n : Int) = 0) := by omega
  simp only [eval, he, Val.rem, Val.toInt?, hn', if_false, pyMod]
  rw [Int.fmod_eq_emod_of_nonneg _ (by omega), Int.natCast_mod]

theorem eval_fdiv_nat (env : Env) (e : SExpr) (k n : Nat) (he : eval env e = .i (k : Nat))
    (hn : 0 < n) : eval env (.fdiv e (.int n)) = .i ((k / n : Nat)) := by
  have hn' : ¬ ((n : Int) = 0) := by omega
  simp only [eval, he, Val.fdiv, Val.toInt?, hn', if_false, pyDiv]
  rw [Int.fdiv_eq_ediv_of_nonneg _ (by omega), Int.natCast_ediv]

/-- one generated index expression `_floordiv(_mod(flat, size_till), stride)`,
    with both shortcuts, evaluates to the mixed-radix digit -/
theorem eval_digit (env : Env) (flat : SExpr) (k oldSize st str : Nat)
    (hflat : eval env flat = .i (k : Nat)) (hk : k < oldSize) (hst : 0 < st) (hstr : 0 < str) :
    eval env
      (if str = 1 then (if st = oldSize ∧ st ≠ 0 then flat else .rem flat (.int st))
       else .fdiv (if st = oldSize ∧ st ≠ 0 then flat else .rem flat (.int st)) (.int str))
      = .i ((k % st / str : Nat)) := by
  have hmd : eval env (if st = oldSize ∧ st ≠ 0 then flat else .rem flat (.int st))
      = .i ((k % st : Nat)) := by
    by_cases h : st = oldSize ∧ st ≠ 0
    · rw [if_pos h, hflat, Nat.mod_eq_of_lt (by omega)]
    · rw [if_neg h]; exact eval_rem_nat env flat k st hflat hst
  by_cases h1 : str = 1
  · rw [if_pos h1, hmd, h1, Nat.div_one]
  · rw [if_neg h1]; exact eval_fdiv_nat env _ _ str hmd hstr

/-- `_generate_index_expressions` for one group: whatever expressions `vars`
    are, if they evaluate to an in-bounds index `ig` of `new`, the generated
    expressions evaluate to `unravel old (ravel new ig)` -/
theorem genIdx_eval (env : Env) (o : Order) (old new : Shape) (vars ix : List SExpr) (ig : Idx)
    (hvars : vars.map (eval env) = ig.map (fun x => Val.i (x : Nat)))
    (hi : inB new ig = true) (hne : old ≠ []) (hprod : prod old = prod new)
    (hg : genIdx o old new vars = some ix) :
    ix.map (eval env) = (unravel o old (ravel o new ig)).map (fun x => Val.i (x : Nat)) := by
  unfold genIdx at hg
  rw [if_neg hne] at hg
  by_cases heq : old = new
  · rw [if_pos heq] at hg
    cases hg
    rw [heq, unravel_ravel o new ig hi, hvars]
  · rw [if_neg heq] at hg
    simp only [Option.some.injEq] at hg
    subst hg
    have hk : ravel o new ig < prod old := hprod ▸ ravel_lt o new ig hi
    have hflat : eval env (flatIndex vars (strides o new)) = .i ((ravel o new ig : Nat)) := by
      rw [eval_flatIndex env vars ig _ hvars, dot_strides o new ig hi]
    rw [← mixed_radix o old _ hk, List.map_map, List.map_map]
    apply List.map_congr_left
    intro p hp
    have hst := sizeTills_pos o old (by omega) p.1 (List.of_mem_zip hp).1
    have hstr := strides_pos o old (by omega) p.2 (List.of_mem_zip hp).2
    exact eval_digit env _ _ (prod old) p.1 p.2 hflat hk hst hstr

/-! ### the single-group rule applied to a whole array -/

/-- the index variables `_v0, …, _(v0+n-1)` evaluate to that window of the point -/
theorem eval_ivars (pt : Idx) (b : List (String × Arr Val)) (v0 n : Nat) (h : v0 + n ≤ pt.length) :
    ((List.range n).map fun k => ivar (v0 + k)).map (eval (idxEnv pt b))
      = ((pt.drop v0).take n).map (fun x => Val.i (x : Nat)) := by
  apply List.ext_getElem
  · simp; omega
  · intro k h1 h2
    simp only [List.length_map, List.length_range] at h1
    simp only [List.getElem_map, List.getElem_range, List.getElem_take, List.getElem_drop, ivar]
    rw [eval_idx pt b (v0 + k) (by omega)]
    simp [List.getD, List.getElem?_eq_getElem (show v0 + k < pt.length by omega)]

theorem eval_ivars0 (i : Idx) (b : List (String × Arr Val)) :
    ((List.range i.length).map ivar).map (eval (idxEnv i b))
      = i.map (fun x => Val.i (x : Nat)) := by
  have := eval_ivars i b 0 i.length (by omega)
  simpa using this

/-- subscripting `_in0` with index expressions that evaluate to
    `unravel old k`, `k < prod old` -/
theorem eval_sub_unravel (o : Order) (a : Arr Val) (i : Idx) (ix : List SExpr) (k : Nat)
    (hk : k < prod a.shape)
    (hev : ix.map (eval (idxEnv i [("_in0", a)]))
      = (unravel o a.shape k).map (fun x => Val.i (x : Nat))) :
    eval (idxEnv i [("_in0", a)]) (.sub "_in0" ix) = a.get (unravel o a.shape k) := by
  rw [eval_sub_of _ _ _ _ hev, lookupArr_head]
  simp only [unravel_inB o a.shape k hk, if_true]

theorem reshape1_eval (o : Order) (old new : Shape) (a : Arr Val) (i : Idx) (ix : List SExpr)
    (ha : a.shape = old) (hne : old ≠ []) (hprod : prod old = prod new)
    (hi : inB new i = true)
    (hg : genIdx o old new ((List.range new.length).map ivar) = some ix) :
    eval (idxEnv i [("_in0", a)]) (.sub "_in0" ix) = a.get (unravel o old (ravel o new i)) := by
  have hlen := inB_length hi
  rw [← hlen] at hg
  have hev := genIdx_eval _ o old new _ ix i (eval_ivars0 i [("_in0", a)]) hi hne hprod hg
  subst ha
  exact eval_sub_unravel o a i ix _ (hprod ▸ ravel_lt o new i hi) hev

/-! ### ravel / unravel factor over concatenated axis groups -/

theorem inB_append_split : ∀ (s1 s2 : Shape) (i : Idx), inB (s1 ++ s2) i = true →
    inB s1 (i.take s1.length) = true ∧ inB s2 (i.drop s1.length) = true
  | [], s2, i, h => by simpa [inB] using h
  | d :: ds, s2, [], h => by simp [inB] at h
  | d :: ds, s2, x :: xs, h => by
    simp only [List.cons_append, inB, Bool.and_eq_true, decide_eq_true_eq] at h
    have := inB_append_split ds s2 xs h.2
    simp only [List.length_cons, List.take_succ_cons, List.drop_succ_cons, inB, Bool.and_eq_true,
      decide_eq_true_eq]
    exact ⟨⟨h.1, this.1⟩, this.2⟩

theorem inB_append : ∀ (s1 s2 : Shape) (i1 i2 : Idx), inB s1 i1 = true → inB s2 i2 = true →
    inB (s1 ++ s2) (i1 ++ i2) = true
  | [], s2, [], i2, _, h2 => by simpa using h2
  | [], s2, _ :: _, i2, h1, _ => by simp [inB] at h1
  | _ :: _, s2, [], i2, h1, _ => by simp [inB] at h1
  | d :: ds, s2, x :: xs, i2, h1, h2 => by
    simp only [inB, Bool.and_eq_true, decide_eq_true_eq] at h1
    simp only [List.cons_append, inB, Bool.and_eq_true, decide_eq_true_eq]
    exact ⟨h1.1, inB_append ds s2 xs i2 h1.2 h2⟩

/-- how the linearisations of two groups combine -/
def comb : Order → Nat → Nat → Nat → Nat → Nat
  | .C, _, p2, k1, k2 => k1 * p2 + k2
  | .F, p1, _, k1, k2 => k1 + p1 * k2

theorem ravelC_append : ∀ (s1 s2 : Shape) (i1 i2 : Idx), inB s1 i1 = true →
    ravelC (s1 ++ s2) (i1 ++ i2) = ravelC s1 i1 * prod s2 + ravelC s2 i2
  | [], s2, [], i2, _ => by simp [ravelC]
  | [], s2, _ :: _, i2, h => by simp [inB] at h
  | _ :: _, s2, [], i2, h => by simp [inB] at h
  | d :: ds, s2, x :: xs, i2, h => by
    simp only [inB, Bool.and_eq_true, decide_eq_true_eq] at h
    simp only [List.cons_append, ravelC, ravelC_append ds s2 xs i2 h.2, prod_append, Nat.add_mul,
      Nat.mul_assoc, Nat.add_assoc]

theorem ravelF_append : ∀ (s1 s2 : Shape) (i1 i2 : Idx), inB s1 i1 = true →
    ravelF (s1 ++ s2) (i1 ++ i2) = ravelF s1 i1 + prod s1 * ravelF s2 i2
  | [], s2, [], i2, _ => by simp [ravelF, prod]
  | [], s2, _ :: _, i2, h => by simp [inB] at h
  | _ :: _, s2, [], i2, h => by simp [inB] at h
  | d :: ds, s2, x :: xs, i2, h => by
    simp only [inB, Bool.and_eq_true, decide_eq_true_eq] at h
    simp only [List.cons_append, ravelF, ravelF_append ds s2 xs i2 h.2, prod, Nat.mul_add,
      Nat.mul_assoc, Nat.add_assoc]

theorem ravel_append (o : Order) (s1 s2 : Shape) (i1 i2 : Idx) (h : inB s1 i1 = true) :
    ravel o (s1 ++ s2) (i1 ++ i2) = comb o (prod s1) (prod s2) (ravel o s1 i1) (ravel o s2 i2) := by
  cases o
  · exact ravelC_append s1 s2 i1 i2 h
  · exact ravelF_append s1 s2 i1 i2 h

theorem ravel_unravel (o : Order) (s : Shape) (k : Nat) (h : k < prod s) :
    ravel o s (unravel o s k) = k := by
  cases o
  · exact ravelC_unravelC s k h
  · exact ravelF_unravelF s k h

/-- reshaping `new1 ++ new2 → old1 ++ old2` with `prod old1 = prod new1` and
    `prod old2 = prod new2` is reshaping the two groups separately -/
theorem unravel_ravel_append (o : Order) (old1 old2 new1 new2 : Shape) (i1 i2 : Idx)
    (h1 : inB new1 i1 = true) (h2 : inB new2 i2 = true)
    (hp1 : prod old1 = prod new1) (hp2 : prod old2 = prod new2) :
    unravel o (old1 ++ old2) (ravel o (new1 ++ new2) (i1 ++ i2))
      = unravel o old1 (ravel o new1 i1) ++ unravel o old2 (ravel o new2 i2) := by
  have hk1 : ravel o new1 i1 < prod old1 := hp1 ▸ ravel_lt o new1 i1 h1
  have hk2 : ravel o new2 i2 < prod old2 := hp2 ▸ ravel_lt o new2 i2 h2
  have hu1 := unravel_inB o old1 _ hk1
  have hu2 := unravel_inB o old2 _ hk2
  have e : ravel o (new1 ++ new2) (i1 ++ i2)
      = ravel o (old1 ++ old2) (unravel o old1 (ravel o new1 i1) ++ unravel o old2 (ravel o new2 i2)) := by
    rw [ravel_append o new1 new2 i1 i2 h1, ravel_append o old1 old2 _ _ hu1,
      ravel_unravel o old1 _ hk1, ravel_unravel o old2 _ hk2, hp1, hp2]
  rw [e, unravel_ravel o _ _ (inB_append _ _ _ _ hu1 hu2)]

/-! ### the grouped index of `_get_reshaped_indices` -/

/-- the source index the grouped algorithm computes: each group is reshaped
    separately, consuming the new index left to right -/
def groupSrc (o : Order) : List Group → Idx → Idx
  | [], _ => []
  | g :: gs, i =>
    unravel o g.old (ravel o g.new (i.take g.new.length)) ++ groupSrc o gs (i.drop g.new.length)

theorem prod_flatMap_eq : ∀ (gs : List Group), (∀ g ∈ gs, prod g.old = prod g.new) →
    prod (gs.flatMap (·.old)) = prod (gs.flatMap (·.new))
  | [], _ => rfl
  | g :: gs, h => by
    simp only [List.flatMap_cons, prod_append]
    rw [h g (by simp), prod_flatMap_eq gs (fun g' hg' => h g' (by simp [hg']))]

/-- the grouped index is the plain reshape index -/
theorem groupSrc_eq (o : Order) : ∀ (gs : List Group) (i : Idx),
    (∀ g ∈ gs, prod g.old = prod g.new) → inB (gs.flatMap (·.new)) i = true →
    groupSrc o gs i = unravel o (gs.flatMap (·.old)) (ravel o (gs.flatMap (·.new)) i)
  | [], i, _, _ => by cases o <;> simp [groupSrc, unravel, unravelC, unravelF]
  | g :: gs, i, h, hi => by
    simp only [List.flatMap_cons] at hi ⊢
    obtain ⟨h1, h2⟩ := inB_append_split _ _ _ hi
    have hrest : ∀ g' ∈ gs, prod g'.old = prod g'.new := fun g' hg' => h g' (by simp [hg'])
    have ih := groupSrc_eq o gs (i.drop g.new.length) hrest h2
    have := unravel_ravel_append o g.old (gs.flatMap (·.old)) g.new (gs.flatMap (·.new))
      (i.take g.new.length) (i.drop g.new.length) h1 h2 (h g (by simp)) (prod_flatMap_eq gs hrest)
    rw [List.take_append_drop] at this
    rw [this, groupSrc, ih]

/-- the per-group index expressions evaluate to the grouped source index -/
theorem groupIdx_eval (o : Order) (pt : Idx) (b : List (String × Arr Val)) :
    ∀ (gs : List Group) (v0 : Nat) (ix : List SExpr),
      groupIdx o gs v0 = some ix → (∀ g ∈ gs, prod g.old = prod g.new) → v0 ≤ pt.length →
      inB (gs.flatMap (·.new)) (pt.drop v0) = true →
      ix.map (eval (idxEnv pt b)) = (groupSrc o gs (pt.drop v0)).map (fun x => Val.i (x : Nat))
  | [], v0, ix, hg, _, _, _ => by
    simp only [groupIdx, Option.some.injEq] at hg
    subst hg; simp [groupSrc]
  | g :: gs, v0, ix, hg, h, hv, hi => by
    simp only [List.flatMap_cons] at hi
    obtain ⟨h1, h2⟩ := inB_append_split _ _ _ hi
    have hlen := inB_length hi
    simp only [List.length_drop, List.length_append] at hlen
    have hdrop : (pt.drop v0).drop g.new.length = pt.drop (v0 + g.new.length) := by
      rw [List.drop_drop]
    rw [hdrop] at h2
    have hrest : ∀ g' ∈ gs, prod g'.old = prod g'.new := fun g' hg' => h g' (by simp [hg'])
    have hvars := eval_ivars pt b v0 g.new.length (by omega)
    unfold groupIdx at hg
    simp only at hg
    by_cases hold : g.old = []
    · rw [if_pos hold] at hg
      by_cases hnew : g.new = [1]
      · rw [if_pos hnew] at hg
        have ih := groupIdx_eval o pt b gs _ ix hg hrest (by omega) h2
        rw [ih, groupSrc, hold, hdrop]
        cases o <;> simp [unravel, unravelC, unravelF]
      · rw [if_neg hnew] at hg; cases hg
    · rw [if_neg hold] at hg
      cases hga : genIdx o g.old g.new ((List.range g.new.length).map fun k => ivar (v0 + k)) with
      | none => rw [hga] at hg; cases hg
      | some a =>
        cases hgb : groupIdx o gs (v0 + g.new.length) with
        | none => rw [hga, hgb] at hg; cases hg
        | some r =>
          rw [hga, hgb] at hg
          simp only [Option.some.injEq] at hg
          subst hg
          have ea := genIdx_eval _ o g.old g.new _ a _ hvars h1 hold (h g (by simp)) hga
          have eb := groupIdx_eval o pt b gs _ r hgb hrest (by omega) h2
          rw [List.map_append, ea, eb, groupSrc, List.map_append, hdrop]

end Pt

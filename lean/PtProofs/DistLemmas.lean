/-
  Lemmas about the distributed model (PtModel.Dist): the executor never deadlocks on a
  well-formed partition, every step decreases a measure, soundness of `checkWF`.
-/
import PtModel.Dist
namespace Pt.Dist

/-! ## list helpers -/

theorem sum_map_lt {α : Type} (l : List α) (f g : α → Nat)
    (hle : ∀ x ∈ l, f x ≤ g x) (hlt : ∃ x ∈ l, f x < g x) :
    (l.map f).sum < (l.map g).sum := by
  induction l with
  | nil => obtain ⟨x, hx, _⟩ := hlt; cases hx
  | cons a t ih =>
    simp only [List.map_cons, List.sum_cons]
    obtain ⟨x, hx, hxlt⟩ := hlt
    have ha : f a ≤ g a := hle a (List.mem_cons_self ..)
    have ht : ∀ y ∈ t, f y ≤ g y := fun y hy => hle y (List.mem_cons_of_mem _ hy)
    have hsum : (t.map f).sum ≤ (t.map g).sum := by
      clear ih hx hxlt
      induction t with
      | nil => simp
      | cons b u ihu =>
        simp only [List.map_cons, List.sum_cons]
        have := ht b (List.mem_cons_self ..)
        have := ihu (fun y hy => hle y (by
          rcases List.mem_cons.1 hy with h | h
          · exact h ▸ List.mem_cons_self ..
          · exact List.mem_cons_of_mem _ (List.mem_cons_of_mem _ h)))
          (fun y hy => ht y (List.mem_cons_of_mem _ hy))
        omega
    rcases List.mem_cons.1 hx with h | h
    · subst h; omega
    · have := ih ht ⟨x, h, hxlt⟩
      omega

/-- strengthening the predicate can only shorten a filter; strictly if some element drops out -/
theorem filter_length_le {α : Type} (l : List α) (p q : α → Bool)
    (himp : ∀ x ∈ l, q x = true → p x = true) :
    (l.filter q).length ≤ (l.filter p).length := by
  induction l with
  | nil => simp
  | cons a t ih =>
    have iht := ih (fun x hx => himp x (List.mem_cons_of_mem _ hx))
    have ha := himp a (List.mem_cons_self ..)
    simp only [List.filter_cons]
    by_cases hq : q a = true
    · simp [hq, ha hq]; exact iht
    · by_cases hp : p a = true
      · simp [hq, hp]; omega
      · simp [hq, hp]; exact iht

theorem filter_length_lt {α : Type} (l : List α) (p q : α → Bool)
    (himp : ∀ x ∈ l, q x = true → p x = true)
    (hdrop : ∃ x ∈ l, p x = true ∧ q x = false) :
    (l.filter q).length < (l.filter p).length := by
  induction l with
  | nil => obtain ⟨x, hx, _⟩ := hdrop; cases hx
  | cons a t ih =>
    have himpt : ∀ x ∈ t, q x = true → p x = true := fun x hx => himp x (List.mem_cons_of_mem _ hx)
    have hle := filter_length_le t p q himpt
    obtain ⟨x, hx, hpx, hqx⟩ := hdrop
    simp only [List.filter_cons]
    rcases List.mem_cons.1 hx with h | h
    · subst h
      simp [hpx, hqx]; omega
    · have iht := ih himpt ⟨x, h, hpx, hqx⟩
      have ha := himp a (List.mem_cons_self ..)
      by_cases hq : q a = true
      · simp [hq, ha hq]; exact iht
      · by_cases hp : p a = true
        · simp [hq, hp]; omega
        · simp [hq, hp]; exact iht

/-! ## progress: a well-formed partition never deadlocks -/

section Progress
variable {V : Type} (sem : Sem V)

theorem parts_nonempty_lt {P : Partition} {r : Nat} {p : Part} (h : p ∈ P.parts r) : r < P.length := by
  unfold Partition.parts at h
  cases hr : P[r]? with
  | none => simp [hr] at h
  | some rp =>
    have := List.getElem?_eq_some_iff.1 hr
    exact this.1

/-- Key lemma: from any unexecuted part one finds an enabled step (strong induction on its level). -/
theorem step_of_unexecuted {P : Partition} {lvl : Nat → Nat → Nat}
    (hwf : WFexecWith P lvl) (s : GState V) :
    ∀ n r p, p ∈ P.parts r → p.pid ∉ (s.rk r).executed → lvl r p.pid = n →
      ∃ l s', Step sem P s l s' := by
  intro n
  induction n using Nat.strongRecOn with
  | _ n ih =>
    intro r p hp hne hlvl
    have hr : r < P.length := parts_nonempty_lt hp
    obtain ⟨_, hneeds, hrecv, _⟩ := hwf r hr
    -- an unexecuted needed part?
    by_cases hn : ∀ q ∈ p.needs, q ∈ (s.rk r).executed
    · -- all needed parts ran.  an uncompleted receive?
      by_cases hc : ∀ rc ∈ p.recvs, rc.name ∈ (s.rk r).completed
      · exact ⟨_, _, Step.exec s r p hr hp ⟨hne, hn, hc⟩⟩
      · have : ∃ rc ∈ p.recvs, rc.name ∉ (s.rk r).completed := by
          apply Classical.byContradiction
          intro hno
          apply hc
          intro rc hrc
          apply Classical.byContradiction
          intro h
          exact hno ⟨rc, hrc, h⟩
        obtain ⟨rc, hrc, hrcn⟩ := this
        obtain ⟨q, hq, hsd, hlt⟩ := hrecv p hp rc hrc
        by_cases hqe : q.pid ∈ (s.rk rc.src).executed
        · -- the message has been sent: deliver it unless some part of r is ready
          by_cases hany : anyReady P s r
          · obtain ⟨p', hp', hrdy⟩ := hany
            exact ⟨_, _, Step.exec s r p' hr hp' hrdy⟩
          · refine ⟨_, _, Step.deliver s r [rc] hr (by simp) ?_ hany ⟨p, hp, hne⟩⟩
            intro rc' hrc'
            have : rc' = rc := by simpa using hrc'
            subst this
            obtain ⟨sd, hsdm, hm⟩ := hsd
            exact ⟨⟨⟨p, hp, hrc⟩, hrcn⟩, ⟨q, hq, hqe, sd, hsdm, hm.1, hm.2⟩⟩
        · exact ih (lvl rc.src q.pid) (by omega) rc.src q hq hqe rfl
    · have : ∃ q ∈ p.needs, q ∉ (s.rk r).executed := by
        apply Classical.byContradiction
        intro hno
        apply hn
        intro q hq
        apply Classical.byContradiction
        intro h
        exact hno ⟨q, hq, h⟩
      obtain ⟨q, hq, hqn⟩ := this
      obtain ⟨⟨p', hp', hpid⟩, hlt⟩ := hneeds p hp q hq
      subst hpid
      exact ih (lvl r p'.pid) (by omega) r p' hp' hqn rfl

/-- **No deadlock**: in *every* state (reachable or not) of a well-formed partition that is not
    terminal, some `exec` or `deliver` step is enabled. -/
theorem progress_lemma {P : Partition} (hwf : WFexec P) (s : GState V) (hn : ¬ Terminal P s) :
    ∃ l s', Step sem P s l s' := by
  obtain ⟨lvl, hwf⟩ := hwf
  have : ∃ r, r < P.length ∧ ∃ p ∈ P.parts r, p.pid ∉ (s.rk r).executed := by
    apply Classical.byContradiction
    intro hno
    apply hn
    intro r hr p hp
    apply Classical.byContradiction
    intro h
    exact hno ⟨r, hr, p, hp, h⟩
  obtain ⟨r, _, p, hp, hne⟩ := this
  exact step_of_unexecuted sem hwf s _ r p hp hne rfl

end Progress

/-! ## termination measure -/

section Decreasing
variable {V : Type} (sem : Sem V)

theorem muR_exec_other {P : Partition} (s : GState V) (r : Nat) (p : Part) (r' : Nat) (h : r' ≠ r) :
    muR P (execG sem P s r p) r' = muR P s r' := by
  simp [muR, execG, h]

theorem muR_deliver_other {P : Partition} (s : GState V) (r : Nat) (S : List Recv) (r' : Nat)
    (h : r' ≠ r) : muR P (deliverG s r S) r' = muR P s r' := by
  simp [muR, deliverG, h]

theorem muR_exec_self {P : Partition} (s : GState V) (r : Nat) (p : Part)
    (hp : p ∈ P.parts r) (hne : p.pid ∉ (s.rk r).executed) :
    muR P (execG sem P s r p) r < muR P s r := by
  unfold muR
  simp only [execG, execR, if_true]
  have h1 := filter_length_lt (P.parts r)
    (fun p' => decide (p'.pid ∉ (s.rk r).executed))
    (fun p' => decide (p'.pid ∉ p.pid :: (s.rk r).executed))
    (by
      intro x _ hx
      simp only [decide_eq_true_eq] at hx ⊢
      intro hmem; exact hx (List.mem_cons_of_mem _ hmem))
    ⟨p, hp, by simpa using hne, by simp⟩
  omega

theorem muR_deliver_self {P : Partition} (s : GState V) (r : Nat) (S : List Recv)
    (hS : S ≠ []) (hpend : ∀ rc ∈ S, pending P s r rc) :
    muR P (deliverG s r S) r < muR P s r := by
  unfold muR
  simp only [deliverG, deliverR, if_true]
  obtain ⟨rc, hrc⟩ := List.exists_mem_of_ne_nil S hS
  obtain ⟨⟨p, hp, hrcp⟩, hnc⟩ := hpend rc hrc
  have h1 := filter_length_lt ((P.parts r).flatMap (·.recvs))
    (fun rc' => decide (rc'.name ∉ (s.rk r).completed))
    (fun rc' => decide (rc'.name ∉ S.map (·.name) ++ (s.rk r).completed))
    (by
      intro x _ hx
      simp only [decide_eq_true_eq] at hx ⊢
      intro hmem; exact hx (List.mem_append_right _ hmem))
    ⟨rc, List.mem_flatMap.2 ⟨p, hp, hrcp⟩, by simpa using hnc, by
      simp only [decide_eq_false_iff_not, Decidable.not_not]
      exact List.mem_append_left _ (List.mem_map.2 ⟨rc, hrc, rfl⟩)⟩
  omega

/-- **Termination**: every step strictly decreases `mu` (number of unexecuted parts plus
    number of undelivered receives). -/
theorem decreasing_lemma {P : Partition} {s s' : GState V} {l : Label} (h : Step sem P s l s') :
    mu P s' < mu P s := by
  cases h with
  | exec r p hr hp hrdy =>
    unfold mu
    apply sum_map_lt
    · intro x _
      by_cases hx : x = r
      · subst hx; exact Nat.le_of_lt (muR_exec_self sem s x p hp hrdy.1)
      · rw [muR_exec_other sem s r p x hx]; exact Nat.le_refl _
    · exact ⟨r, List.mem_range.2 hr, muR_exec_self sem s r p hp hrdy.1⟩
  | deliver r S hr hS hall hnr hunf =>
    unfold mu
    apply sum_map_lt
    · intro x _
      by_cases hx : x = r
      · subst hx; exact Nat.le_of_lt (muR_deliver_self s x S hS (fun rc h => (hall rc h).1))
      · rw [muR_deliver_other s r S x hx]; exact Nat.le_refl _
    · exact ⟨r, List.mem_range.2 hr, muR_deliver_self s r S hS (fun rc h => (hall rc h).1)⟩

end Decreasing

/-! ## `checkWF` is sound -/

theorem checkWF_sound_lemma (P : Partition) (h : checkWF P = true) : WF P :=
  ⟨computeLvl P, computeRound P, of_decide_eq_true h⟩

theorem checkWFexec_sound_lemma (P : Partition) (h : checkWFexec P = true) : WFexec P :=
  ⟨computeLvl P, of_decide_eq_true h⟩

/-- the full contract of C09 implies what the executor needs -/
theorem wfexec_of_wf {P : Partition} (h : WF P) : WFexec P := by
  obtain ⟨lvl, round, hwf⟩ := h
  refine ⟨lvl, ?_⟩
  intro r hr
  obtain ⟨h1, h2, h3, _, h5, h6, h7, _⟩ := hwf r hr
  exact ⟨h1, h2, h3, h5, h6, h7⟩

end Pt.Dist

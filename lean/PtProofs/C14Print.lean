/-
  Property C14 — the printer puts parentheses where Python's grammar needs them:
  the tokens of a printed expression parse back, under Python's operator precedence and
  associativity, to the expression that was printed (core Lean only).
-/
import PtModel.PyParse
namespace Pt
namespace Py

/-! ## the printer of `PyAst` is the token printer, spelled out -/

theorem spell_append : ∀ (a b : List Tok), spell (a ++ b) = spell a ++ spell b
  | [], b => by simp [spell]
  | t :: a, b => by simp [spell, spell_append a b, String.append_assoc]

theorem spell_parenT (b : Bool) (ts : List Tok) : spell (parenT b ts) = parenIf b (spell ts) := by
  cases b
  · simp [parenT, parenIf]
  · simp [parenT, parenIf, spell, spell_append, Tok.spell, String.append_assoc]

/-- **printer = token printer.**  The text `PyExpr.printAt` produces is the spelling of the
    token list of the expression's operator skeleton. -/
theorem printAt_spell : ∀ (e : PyExpr) (ctx : Nat), e.printAt ctx = spell (toksAt ctx (skel e))
  | .neg e, ctx => by
    simp only [PyExpr.printAt, skel, toksAt, spell_parenT, spell, Tok.spell, printAt_spell e precFactor]
  | .bin op l r, ctx => by
    simp only [PyExpr.printAt, skel, toksAt, spell_parenT, spell, spell_append, Tok.spell,
      printAt_spell l op.leftPrec, printAt_spell r op.rightPrec, String.append_assoc, String.append_empty]
  | .name s, ctx => by simp [PyExpr.printAt, skel, toksAt, spell, Tok.spell]
  | .num t v, ctx => by simp [PyExpr.printAt, skel, toksAt, spell, Tok.spell]
  | .str s, ctx => by simp [PyExpr.printAt, skel, toksAt, spell, Tok.spell]
  | .attr e a, ctx => by simp [PyExpr.printAt, skel, toksAt, spell, Tok.spell]
  | .call f args kw, ctx => by simp [PyExpr.printAt, skel, toksAt, spell, Tok.spell]
  | .tuple es, ctx => by simp [PyExpr.printAt, skel, toksAt, spell, Tok.spell]
  | .list es, ctx => by simp [PyExpr.printAt, skel, toksAt, spell, Tok.spell]
  | .dict kvs, ctx => by simp [PyExpr.printAt, skel, toksAt, spell, Tok.spell]
  | .subscript v ix, ctx => by simp [PyExpr.printAt, skel, toksAt, spell, Tok.spell]

/-! ## fuel -/

theorem parse_mono : ∀ (f : Nat),
    (∀ p ts r, pExpr f p ts = some r → pExpr (f + 1) p ts = some r) ∧
    (∀ ts r, pUnary f ts = some r → pUnary (f + 1) ts = some r) ∧
    (∀ p lhs ts r, pLoop f p lhs ts = some r → pLoop (f + 1) p lhs ts = some r)
  | 0 => ⟨fun _ _ _ h => by simp [pExpr] at h, fun _ _ h => by simp [pUnary] at h,
      fun _ _ _ _ h => by simp [pLoop] at h⟩
  | f + 1 => by
    obtain ⟨ihE, ihU, ihL⟩ := parse_mono f
    refine ⟨?_, ?_, ?_⟩
    · intro p ts r h
      rw [pExpr] at h ⊢
      cases hu : pUnary f ts with
      | none => simp [hu] at h
      | some x =>
        obtain ⟨lhs, r1⟩ := x
        simp only [hu] at h
        simp only [ihU ts _ hu]
        exact ihL p lhs r1 r h
    · intro ts r h
      match ts with
      | [] => simp [pUnary] at h
      | .atom s :: rest => simpa [pUnary] using h
      | .rp :: rest => simp [pUnary] at h
      | .sym s b :: rest =>
        rw [pUnary] at h ⊢
        by_cases hs : (s == "-") = true
        · rw [if_pos hs] at h ⊢
          cases he : pExpr f precFactor rest with
          | none => simp [he] at h
          | some x =>
            simp only [he] at h
            simp only [ihE _ _ _ he]
            exact h
        · rw [if_neg hs] at h; cases h
      | .lp :: rest =>
        rw [pUnary] at h ⊢
        cases he : pExpr f 0 rest with
        | none => simp [he] at h
        | some x =>
          simp only [he] at h
          simp only [ihE _ _ _ he]
          exact h
    · intro p lhs ts r h
      match ts with
      | [] => simpa [pLoop] using h
      | .atom s :: rest => simpa [pLoop] using h
      | .lp :: rest => simpa [pLoop] using h
      | .rp :: rest => simpa [pLoop] using h
      | .sym s b :: rest =>
        simp only [pLoop] at h ⊢
        cases hb : binOfSym s with
        | none => simpa [hb] using h
        | some op =>
          simp only [hb] at h ⊢
          by_cases hp : p ≤ op.prec
          · rw [if_pos hp] at h ⊢
            cases he : pExpr f op.rightPrec rest with
            | none => simp [he] at h
            | some x =>
              obtain ⟨rhs, r'⟩ := x
              simp only [he] at h
              simp only [ihE _ _ _ he]
              exact ihL _ _ _ _ h
          · rw [if_neg hp] at h ⊢
            exact h

theorem pExpr_mono {f f' p : Nat} {ts : List Tok} {r : OpExpr × List Tok} (hf : f ≤ f')
    (h : pExpr f p ts = some r) : pExpr f' p ts = some r := by
  induction hf with
  | refl => exact h
  | step _ ih => exact (parse_mono _).1 _ _ _ ih

theorem pLoop_mono {f f' p : Nat} {lhs : OpExpr} {ts : List Tok} {r : OpExpr × List Tok} (hf : f ≤ f')
    (h : pLoop f p lhs ts = some r) : pLoop f' p lhs ts = some r := by
  induction hf with
  | refl => exact h
  | step _ ih => exact (parse_mono _).2.2 _ _ _ _ ih

/-! ## what may follow a printed operand -/

theorem binOfSym_sym (op : BinOp) : binOfSym op.sym = some op := by
  cases op <;> decide

/-- the tokens after an operand printed in context `q`: if an operator follows, the operand was
    its LEFT operand, printed at that operator's left precedence or lower -/
def Follow (q : Nat) : List Tok → Prop
  | .sym s _ :: _ => ∀ op, binOfSym s = some op → op.leftPrec ≤ q
  | _ => True

theorem Follow.mono {q q' : Nat} (h : q ≤ q') : ∀ {ts : List Tok}, Follow q ts → Follow q' ts
  | [], _ => trivial
  | .atom _ :: _, _ => trivial
  | .lp :: _, _ => trivial
  | .rp :: _, _ => trivial
  | .sym _ _ :: _, hf => fun op hop => Nat.le_trans (hf op hop) h

/-- the loop at level `p'` stops in front of tokens that may follow context `q`, when no operator
    allowed there reaches `p'` -/
theorem loop_stops {q p' : Nat} (hq : ∀ op : BinOp, op.leftPrec ≤ q → op.prec < p') (x : OpExpr) :
    ∀ {ts : List Tok}, Follow q ts → pLoop 1 p' x ts = some (x, ts)
  | [], _ => by simp [pLoop]
  | .atom _ :: _, _ => by simp [pLoop]
  | .lp :: _, _ => by simp [pLoop]
  | .rp :: _, _ => by simp [pLoop]
  | .sym s b :: r, hf => by
    simp only [pLoop]
    cases hb : binOfSym s with
    | none => rfl
    | some op =>
      have := hq op (hf op hb)
      simp only
      rw [if_neg (by omega)]

theorem stop_factor {q : Nat} (hq : q ≤ precFactor) (op : BinOp) (h : op.leftPrec ≤ q) :
    op.prec < precFactor := by
  have h' : op.leftPrec ≤ precFactor := Nat.le_trans h hq
  cases op <;> simp [BinOp.leftPrec, BinOp.prec, precFactor] at h' ⊢

theorem stop_right {q : Nat} (op0 : BinOp) (hq : q ≤ op0.prec) (op : BinOp) (h : op.leftPrec ≤ q) :
    op.prec < op0.rightPrec := by
  have h' : op.leftPrec ≤ op0.prec := Nat.le_trans h hq
  cases op0 <;> cases op <;> simp [BinOp.leftPrec, BinOp.rightPrec, BinOp.prec] at h' ⊢

theorem prec_le_left (op : BinOp) : op.prec ≤ op.leftPrec := by
  cases op <;> simp [BinOp.leftPrec, BinOp.prec]

theorem prec_le_right (op : BinOp) : op.prec ≤ op.rightPrec := by
  cases op <;> simp [BinOp.rightPrec, BinOp.prec]

/-! ## the printed operand is absorbed by the parser -/

/-- parenthesised: `( C )` is parsed by parsing `C` up to the closing parenthesis -/
theorem wrap {C rest : List Tok} {o : OpExpr} {p : Nat} {res : OpExpr × List Tok}
    (hC : ∃ f, pExpr f 0 (C ++ .rp :: rest) = some (o, .rp :: rest))
    (hL : ∃ f, pLoop f p o rest = some res) :
    ∃ f, pExpr f p (parenT true C ++ rest) = some res := by
  obtain ⟨f1, h1⟩ := hC
  obtain ⟨f2, h2⟩ := hL
  refine ⟨max f1 f2 + 2, ?_⟩
  have e1 := pExpr_mono (Nat.le_max_left f1 f2) h1
  have e2 := pLoop_mono (Nat.le_succ_of_le (Nat.le_max_right f1 f2)) h2
  have : parenT true C ++ rest = .lp :: (C ++ .rp :: rest) := by simp [parenT]
  rw [this, pExpr, pUnary, e1]
  exact e2

/-- **absorption.**  In front of tokens that may follow context `ctx`, parsing at any level
    `p ≤ ctx` reads the printed operand as `o` and goes on exactly as the operator loop does
    with `o` in hand. -/
theorem absorb : ∀ (o : OpExpr) (ctx p : Nat) (rest : List Tok) (res : OpExpr × List Tok),
    p ≤ ctx → Follow ctx rest → (∃ f, pLoop f p o rest = some res) →
    ∃ f, pExpr f p (toksAt ctx o ++ rest) = some res
  | .atom s, ctx, p, rest, res, _, _, ⟨f, h⟩ => by
    refine ⟨f + 2, ?_⟩
    simp only [toksAt, List.singleton_append]
    rw [pExpr, pUnary]
    exact pLoop_mono (Nat.le_succ f) h
  | .neg e, ctx, p, rest, res, hp, hfol, hL => by
    -- without parentheses, in any context up to FACTOR
    have bare : ∀ (ctx' p' : Nat) (rest' : List Tok) (res' : OpExpr × List Tok), p' ≤ ctx' →
        ctx' ≤ precFactor → Follow ctx' rest' → (∃ f, pLoop f p' (.neg e) rest' = some res') →
        ∃ f, pExpr f p' ((.sym "-" false :: toksAt precFactor e) ++ rest') = some res' := by
      intro ctx' p' rest' res' _ hc' hf' ⟨f2, h2⟩
      obtain ⟨f1, h1⟩ := absorb e precFactor precFactor rest' (e, rest') (Nat.le_refl _)
        (hf'.mono hc') ⟨1, loop_stops (stop_factor hc') e hf'⟩
      refine ⟨max f1 f2 + 2, ?_⟩
      have e1 := pExpr_mono (Nat.le_max_left f1 f2) h1
      have e2 := pLoop_mono (Nat.le_succ_of_le (Nat.le_max_right f1 f2)) h2
      simp only [List.cons_append]
      rw [pExpr, pUnary, if_pos (by decide), e1]
      exact e2
    simp only [toksAt]
    by_cases hc : precFactor < ctx
    · rw [show decide (precFactor < ctx) = true from by simpa using hc]
      exact wrap (bare 0 0 (.rp :: rest) (.neg e, .rp :: rest) (Nat.le_refl _) (Nat.zero_le _) trivial
        ⟨1, by simp [pLoop]⟩) hL
    · rw [show decide (precFactor < ctx) = false from by simpa using hc]
      simp only [parenT]
      exact bare ctx p rest res hp (by omega) hfol hL
  | .bin op l r, ctx, p, rest, res, hp, hfol, hL => by
    have bare : ∀ (ctx' p' : Nat) (rest' : List Tok) (res' : OpExpr × List Tok), p' ≤ ctx' →
        ctx' ≤ op.prec → Follow ctx' rest' → (∃ f, pLoop f p' (.bin op l r) rest' = some res') →
        ∃ f, pExpr f p' ((toksAt op.leftPrec l ++ [.sym op.sym true] ++ toksAt op.rightPrec r) ++ rest')
          = some res' := by
      intro ctx' p' rest' res' hp' hc' hf' ⟨f2, h2⟩
      -- the right operand, up to what follows
      obtain ⟨f1, h1⟩ := absorb r op.rightPrec op.rightPrec rest' (r, rest') (Nat.le_refl _)
        (hf'.mono (Nat.le_trans hc' (prec_le_right op))) ⟨1, loop_stops (stop_right op hc') r hf'⟩
      -- the loop with the left operand in hand takes the operator and the right operand
      have hloop : ∃ f, pLoop f p' l (.sym op.sym true :: (toksAt op.rightPrec r ++ rest')) = some res' := by
        refine ⟨max f1 f2 + 1, ?_⟩
        have e1 := pExpr_mono (Nat.le_max_left f1 f2) h1
        have e2 := pLoop_mono (Nat.le_max_right f1 f2) h2
        simp only [pLoop, binOfSym_sym]
        rw [if_pos (Nat.le_trans hp' hc'), e1]
        exact e2
      have hfl : Follow op.leftPrec (.sym op.sym true :: (toksAt op.rightPrec r ++ rest')) := by
        intro op' hop'
        rw [binOfSym_sym] at hop'
        cases hop'
        exact Nat.le_refl _
      obtain ⟨f, h⟩ := absorb l op.leftPrec p' _ res'
        (Nat.le_trans hp' (Nat.le_trans hc' (prec_le_left op))) hfl hloop
      refine ⟨f, ?_⟩
      simpa [List.append_assoc] using h
    simp only [toksAt]
    by_cases hc : op.prec < ctx
    · rw [show decide (op.prec < ctx) = true from by simpa using hc]
      exact wrap (bare 0 0 (.rp :: rest) (.bin op l r, .rp :: rest) (Nat.le_refl _) (Nat.zero_le _) trivial
        ⟨1, by simp [pLoop]⟩) hL
    · rw [show decide (op.prec < ctx) = false from by simpa using hc]
      simp only [parenT]
      exact bare ctx p rest res hp (by omega) hfol hL

/-! ## the theorems -/

/-- **print_parse_roundtrip (tokens).**  Whatever the operator tree `o` and the context it is printed
    in, the printed tokens parse — under Python's precedence table, left associativity of the
    binary operators, right associativity of `**`, and the placement of unary minus between `*`
    and `**` — back to `o`, consuming every token. -/
theorem toks_parse_roundtrip (o : OpExpr) (ctx : Nat) : ParsesTo (toksAt ctx o) o := by
  obtain ⟨f0, h⟩ := absorb o ctx 0 [] (o, []) (Nat.zero_le _) trivial ⟨1, by simp [pLoop]⟩
  refine ⟨f0, fun f hf => ?_⟩
  have := pExpr_mono hf h
  simpa using this

/-- **print_parse_roundtrip.**  The text printed for an expression is the spelling of a token list
    that parses back to the expression's operator skeleton: parentheses are present wherever
    Python's grammar would otherwise read a different tree (`(-2) ** a` vs `-2 ** a`,
    `a ** (-2)`, `a - (b - c)`, `(a + b) * c`, `(a ** b) ** c`, …). -/
theorem print_parse_roundtrip (e : PyExpr) (ctx : Nat) :
    ∃ ts, e.printAt ctx = spell ts ∧ ParsesTo ts (skel e) :=
  ⟨toksAt ctx (skel e), printAt_spell e ctx, toks_parse_roundtrip (skel e) ctx⟩

/-- the parse is a function: a token list has at most one reading -/
theorem parsesTo_unique {ts : List Tok} {o o' : OpExpr} (h : ParsesTo ts o) (h' : ParsesTo ts o') :
    o = o' := by
  obtain ⟨f, hf⟩ := h
  obtain ⟨f', hf'⟩ := h'
  have a := hf (max f f') (Nat.le_max_left _ _)
  have b := hf' (max f f') (Nat.le_max_right _ _)
  rw [a] at b
  cases b
  rfl

/-- hence two expressions that print (in any contexts) to the same tokens have the same operator
    tree: the printer never conflates `(-c) ** a` with `-(c ** a)` -/
theorem print_precedence_sound (o o' : OpExpr) (ctx ctx' : Nat) (h : toksAt ctx o = toksAt ctx' o') :
    o = o' :=
  parsesTo_unique (toks_parse_roundtrip o ctx) (h ▸ toks_parse_roundtrip o' ctx')

/-! ## instances (also non-vacuity): the historical defect and its neighbours -/

private def a : PyExpr := .name "a"
private def two : PyExpr := .num "2" (.i 2)

-- `(-2) ** a`: the negative base keeps its parentheses …
example : (PyExpr.bin .pow (.neg two) a).print = "(-2) ** a" := by decide
-- … because without them Python reads `-(2 ** a)`:
example : pExpr 10 0 [.sym "-" false, .atom "2", .sym "**" true, .atom "a"]
    = some (.neg (.bin .pow (.atom "2") (.atom "a")), []) := by decide
example : pExpr 10 0 [.lp, .sym "-" false, .atom "2", .rp, .sym "**" true, .atom "a"]
    = some (.bin .pow (.neg (.atom "2")) (.atom "a"), []) := by decide
example : (PyExpr.neg (.bin .pow two a)).print = "-2 ** a" := by decide
example : (PyExpr.bin .pow a (.neg two)).print = "a ** (-2)" := by decide
example : (PyExpr.bin .sub a (.bin .sub a two)).print = "a - (a - 2)" := by decide
example : (PyExpr.bin .sub (.bin .sub a a) two).print = "a - a - 2" := by decide
example : (PyExpr.bin .pow (.bin .pow a a) two).print = "(a ** a) ** 2" := by decide
example : (PyExpr.bin .pow a (.bin .pow a two)).print = "a ** a ** 2" := by decide
example : (PyExpr.bin .mult (.neg a) two).print = "-a * 2" := by decide
example : (PyExpr.neg (.bin .mult a two)).print = "-(a * 2)" := by decide

end Py
end Pt

/-
  A decidable sufficient check for `GoodProgram`, the order-independence of the global merge
  (`_set_dict_union_mpi`), and the end-to-end corollaries of `partitionOf_wfexec`.
-/
import PtProofs.PartitionWF
set_option linter.unusedSectionVars false
set_option linter.unusedVariables false
namespace Pt.Dist

/-! ## `checkGood` -/

namespace RankSrc
variable (s : RankSrc)

theorem kind_not_node {a : Nat} (h : a ∉ s.ids) : s.kind a = .data := by
  unfold kind get
  cases hf : s.nodes.find? (fun n => n.id == a) with
  | none => rfl
  | some n =>
    exfalso; apply h
    unfold ids
    exact List.mem_map.2 ⟨n, List.mem_of_find?_eq_some hf, by simpa using List.find?_some hf⟩

theorem closure_leaf {ch : Nat → List Nat} {a : Nat} (h : ch a = []) : ∀ f, RankSrc.closure ch f a = [a]
  | 0 => rfl
  | f + 1 => by simp [RankSrc.closure, h]

/-- closedness has to be checked for node ids only -/
theorem depsClosed_of_ids (h : ∀ a ∈ s.ids, ClosedUnder s.structCh (s.structDeps a)) : s.DepsClosed := by
  intro a
  by_cases ha : a ∈ s.ids
  · exact h a ha
  · have hch : s.structCh a = [] := by simp [structCh, s.kind_not_node ha]
    intro b hb c hc
    unfold structDeps at hb
    rw [closure_leaf hch] at hb
    have : b = a := by simpa using hb
    rw [this, hch] at hc
    cases hc

theorem closedB_sound (h : s.closedB = true) : s.DepsClosed := by
  apply s.depsClosed_of_ids
  intro a ha b hb c hc
  unfold closedB at h
  have h1 := List.all_eq_true.1 h a ha
  have h2 := List.all_eq_true.1 h1 b hb
  have h3 := List.all_eq_true.1 h2 c hc
  exact List.contains_iff_mem.1 h3

end RankSrc

theorem rank_out_of_range {p : Program} {r : Nat} (h : ¬ r < p.length) : p.rank r = ⟨[], []⟩ := by
  unfold Program.rank
  rw [List.getD_eq_getElem?_getD, List.getElem?_eq_none (by omega)]
  rfl

theorem checkGood_sound {p : Program} (h : checkGood p = true) : GoodProgram p := by
  unfold checkGood at h
  rw [Bool.and_eq_true] at h
  obtain ⟨hdiag, hranks⟩ := h
  have hvalid : Valid p.commGraph := by
    apply Classical.byContradiction
    intro hnv
    obtain ⟨d, hd, _⟩ := diagnose_complete_lemma hnv
    rw [hd] at hdiag
    cases hdiag
  have hrank : ∀ r, r < p.length → rankGoodB (p.rank r) r = true := by
    intro r hr
    exact List.all_eq_true.1 hranks r (List.mem_range.2 hr)
  have hempty : ∀ r, ¬ r < p.length → rankGoodB (p.rank r) r = true := by
    intro r hr
    rw [rank_out_of_range hr]
    simp [rankGoodB, RankSrc.closedB, RankSrc.ids, RankSrc.recvsOf, RankSrc.sendsOf]
  have hall : ∀ r, rankGoodB (p.rank r) r = true := by
    intro r
    by_cases hr : r < p.length
    · exact hrank r hr
    · exact hempty r hr
  refine ⟨hvalid, ?_, ?_, ?_, ?_, ?_⟩
  · intro r
    have := hall r
    unfold rankGoodB at this
    simp only [Bool.and_eq_true] at this
    exact (p.rank r).closedB_sound this.1.1.1
  · intro r
    have := hall r
    unfold rankGoodB at this
    simp only [Bool.and_eq_true, decide_eq_true_eq] at this
    exact this.1.1.2
  · intro r
    have := hall r
    unfold rankGoodB at this
    simp only [Bool.and_eq_true, decide_eq_true_eq] at this
    exact this.1.2
  · intro r cd hcd a ha hrecv
    have := hall r
    unfold rankGoodB at this
    simp only [Bool.and_eq_true] at this
    have h1 := List.all_eq_true.1 this.2 cd hcd
    simp only [Bool.and_eq_true] at h1
    have h2 := List.all_eq_true.1 h1.1 a ha
    rw [hrecv] at h2
    simpa using h2
  · intro r cd hcd
    have := hall r
    unfold rankGoodB at this
    simp only [Bool.and_eq_true] at this
    have h1 := List.all_eq_true.1 this.2 cd hcd
    simp only [Bool.and_eq_true, Bool.not_eq_true'] at h1
    exact h1.2

/-! ## the global merge is order independent -/

/-- a dependency dictionary `comm id ↦ set of needed comm ids` -/
abbrev DepDict := List (CommId × List CommId)

def DepDict.lookup (d : DepDict) (c : CommId) : List CommId :=
  (d.filter fun kv => kv.1 == c).flatMap (·.2)

/-- `_set_dict_union_mpi`: key-wise union -/
def DepDict.union (a b : DepDict) : DepDict := a ++ b

theorem DepDict.mem_union {a b : DepDict} {c x : CommId} :
    x ∈ (a.union b).lookup c ↔ x ∈ a.lookup c ∨ x ∈ b.lookup c := by
  simp [DepDict.union, DepDict.lookup, List.filter_append, List.flatMap_append]

/-- two dictionaries are the same mapping to sets -/
def DepDict.Equiv (a b : DepDict) : Prop := ∀ c x, x ∈ a.lookup c ↔ x ∈ b.lookup c

theorem DepDict.union_comm (a b : DepDict) : (a.union b).Equiv (b.union a) := by
  intro c x; rw [DepDict.mem_union, DepDict.mem_union]; exact Or.comm

theorem DepDict.union_assoc (a b c : DepDict) : ((a.union b).union c).Equiv (a.union (b.union c)) := by
  intro k x; simp only [DepDict.mem_union]; exact or_assoc

theorem DepDict.union_idem (a : DepDict) : (a.union a).Equiv a := by
  intro c x; rw [DepDict.mem_union]; exact or_self_iff

theorem DepDict.union_congr {a a' b b' : DepDict} (h1 : a.Equiv a') (h2 : b.Equiv b') :
    (a.union b).Equiv (a'.union b') := by
  intro c x; rw [DepDict.mem_union, DepDict.mem_union, h1 c x, h2 c x]

/-- any two fold orders of the ranks' dictionaries (any permutation, any bracketing collapses to
    a list fold) give the same global dictionary -/
theorem DepDict.fold_perm {l l' : List DepDict} (h : l.Perm l') :
    (l.foldl DepDict.union []).Equiv (l'.foldl DepDict.union []) := by
  have key : ∀ (l : List DepDict) (acc : DepDict) (c x : CommId),
      x ∈ (l.foldl DepDict.union acc).lookup c ↔ x ∈ acc.lookup c ∨ ∃ d ∈ l, x ∈ d.lookup c := by
    intro l
    induction l with
    | nil => intro acc c x; simp
    | cons d t ih =>
      intro acc c x
      simp only [List.foldl_cons]
      rw [ih, DepDict.mem_union]
      constructor
      · rintro ((h | h) | ⟨e, he, hx⟩)
        · exact Or.inl h
        · exact Or.inr ⟨d, List.mem_cons_self .., h⟩
        · exact Or.inr ⟨e, List.mem_cons_of_mem _ he, hx⟩
      · rintro (h | ⟨e, he, hx⟩)
        · exact Or.inl (Or.inl h)
        · rcases List.mem_cons.1 he with h' | h'
          · subst h'; exact Or.inl (Or.inr hx)
          · exact Or.inr ⟨e, h', hx⟩
  intro c x
  rw [key, key]
  constructor
  · rintro (h' | ⟨d, hd, hx⟩)
    · exact Or.inl h'
    · exact Or.inr ⟨d, h.mem_iff.1 hd, hx⟩
  · rintro (h' | ⟨d, hd, hx⟩)
    · exact Or.inl h'
    · exact Or.inr ⟨d, h.mem_iff.2 hd, hx⟩

end Pt.Dist

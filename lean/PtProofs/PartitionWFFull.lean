/-
  The remaining clauses of `WF` for the model partition (`partitionOf`): name clauses, uniqueness
  clauses and the round clauses — together with `partitionOf_wfexec` the full contract.
-/
import PtProofs.PartitionGood
set_option linter.unusedSectionVars false
set_option linter.unusedVariables false
namespace Pt.Dist

/-! ## generic list facts -/

theorem nodup_eraseDups_aux {α : Type} [DecidableEq α] : ∀ (n : Nat) (l : List α), l.length ≤ n → l.eraseDups.Nodup
  | 0, l, h => by
    have : l = [] := List.length_eq_zero_iff.1 (by omega)
    subst this; simp
  | n + 1, [], _ => by simp
  | n + 1, a :: t, h => by
    rw [List.eraseDups_cons, List.nodup_cons]
    constructor
    · intro hm
      rw [List.mem_eraseDups, List.mem_filter] at hm
      simp at hm
    · apply nodup_eraseDups_aux n
      have := List.length_filter_le (fun b => !b == a) t
      simp only [List.length_cons] at h
      omega

theorem nodup_eraseDups {α : Type} [DecidableEq α] (l : List α) : l.eraseDups.Nodup :=
  nodup_eraseDups_aux l.length l (Nat.le_refl _)

theorem nodup_map_of_inj_on {α β : Type} (f : α → β) : ∀ {l : List α}, l.Nodup →
    (∀ x ∈ l, ∀ y ∈ l, f x = f y → x = y) → (l.map f).Nodup
  | [], _, _ => by simp
  | a :: t, hn, hinj => by
    rw [List.nodup_cons] at hn
    rw [List.map_cons, List.nodup_cons]
    constructor
    · intro hm
      obtain ⟨y, hy, hfy⟩ := List.mem_map.1 hm
      have := hinj y (List.mem_cons_of_mem _ hy) a (List.mem_cons_self ..) hfy
      subst this; exact hn.1 hy
    · exact nodup_map_of_inj_on f hn.2 (fun x hx y hy h =>
        hinj x (List.mem_cons_of_mem _ hx) y (List.mem_cons_of_mem _ hy) h)

theorem nodup_flatMap_of {α β : Type} (f : α → List β) : ∀ {l : List α}, l.Nodup →
    (∀ a ∈ l, (f a).Nodup) → (∀ a ∈ l, ∀ b ∈ l, ∀ x, x ∈ f a → x ∈ f b → a = b) → (l.flatMap f).Nodup
  | [], _, _, _ => by simp
  | a :: t, hn, hl, hd => by
    rw [List.nodup_cons] at hn
    rw [List.flatMap_cons, List.nodup_append]
    refine ⟨hl a (List.mem_cons_self ..), ?_, ?_⟩
    · exact nodup_flatMap_of f hn.2 (fun b hb => hl b (List.mem_cons_of_mem _ hb))
        (fun b hb c hc x h1 h2 => hd b (List.mem_cons_of_mem _ hb) c (List.mem_cons_of_mem _ hc) x h1 h2)
    · intro x hx y hy hxy
      subst hxy
      obtain ⟨b, hb, hxb⟩ := List.mem_flatMap.1 hy
      have := hd a (List.mem_cons_self ..) b (List.mem_cons_of_mem _ hb) x hx hxb
      subst this; exact hn.1 hb

theorem nodup_of_pairwise_lt {α : Type} (f : α → Nat) {l : List α} (h : l.Pairwise fun a b => f a < f b) :
    l.Nodup := by
  apply List.Pairwise.imp _ h
  intro a b hab heq
  subst heq; omega

theorem flatMap_zipIdx_fst {α β : Type} (g : α → List β) (l : List α) :
    l.zipIdx.flatMap (fun a => g a.1) = l.flatMap g := by
  have := List.flatMap_map Prod.fst g l.zipIdx
  rw [List.zipIdx_map_fst] at this
  exact this.symm

theorem flatMap_zipIdx_snd {α β : Type} (g : Nat → List β) (l : List α) :
    l.zipIdx.flatMap (fun a => g a.2) = (List.range' 0 l.length).flatMap g := by
  have := List.flatMap_map Prod.snd g l.zipIdx
  rw [List.zipIdx_map_snd] at this
  exact this.symm

/-! ## rounds: the batch index of a message -/

/-- communication round of message (a, b, t): the index of its batch -/
def roundOf (g : CommGraph) (a b t : Nat) : Nat :=
  (rawBatches g).findIdx fun bt => bt.contains (⟨a, b, t⟩ : CommId)

theorem roundOf_eq {g : CommGraph} (hv : Valid g) {c : CommId} {i : Nat} {b : List CommId}
    (hb : (rawBatches g)[i]? = some b) (hc : c ∈ b) : roundOf g c.src c.dst c.tag = i := by
  obtain ⟨hil, hib⟩ := List.getElem?_eq_some_iff.1 hb
  unfold roundOf
  rw [List.findIdx_eq hil]
  refine ⟨by rw [hib]; exact List.contains_iff_mem.2 hc, ?_⟩
  intro j hji
  apply Bool.eq_false_iff.2
  intro hcon
  have hjl : j < (rawBatches g).length := by omega
  have := flatten_nodup_unique (rawBatches_inv hv).nodup (List.getElem?_eq_getElem hjl) hb
    (List.contains_iff_mem.1 hcon) hc
  omega

/-! ## names -/

/-- user names (inputs, overall outputs) live below `base`; output names are distinct -/
structure NamesOK (base : Nat) (p : Program) : Prop where
  outputsLt : ∀ r, ∀ o ∈ (p.rank r).outputs, o.1 < base
  usersLt : ∀ r, ∀ n ∈ userNames (p.rank r), n < base
  outputNamesNodup : ∀ r, ((p.rank r).outputs.map (·.1)).Nodup

section Clauses
variable (base : Nat) {p : Program} (hp : GoodProgram p) {r : Nat} (hr : r < p.length)
include hp hr

theorem mem_allRecvs {rc : Recv} :
    rc ∈ allRecvs (mkParts (p.rank r) r (p.skel r) base) ↔
      ∃ (k : Nat) (sp : SkelPart) (c : CommId), (p.skel r)[k]? = some sp ∧ c ∈ sp.recvs
        ∧ rc = ⟨base + nodeOfRecv (p.rank r) r c, c.src, c.tag⟩ := by
  unfold allRecvs
  rw [List.mem_flatMap]
  constructor
  · rintro ⟨q, hq, hrc⟩
    obtain ⟨k, sp, hk, rfl⟩ := (mem_mkParts base).1 hq
    simp only [partAt, List.mem_map] at hrc
    obtain ⟨c, hc, rfl⟩ := hrc
    exact ⟨k, sp, c, hk, hc, rfl⟩
  · rintro ⟨k, sp, c, hk, hc, rfl⟩
    refine ⟨partAt base (p.rank r) r (p.skel r) sp k, (mem_mkParts base).2 ⟨k, sp, hk, rfl⟩, ?_⟩
    simp only [partAt, List.mem_map]
    exact ⟨c, hc, rfl⟩

theorem mem_allSends {sd : Send} :
    sd ∈ allSends (mkParts (p.rank r) r (p.skel r) base) ↔
      ∃ (k : Nat) (sp : SkelPart) (c : CommId), (p.skel r)[k]? = some sp ∧ c ∈ sp.sends
        ∧ sd = ⟨base + dataOfSend (p.rank r) r c, c.dst, c.tag⟩ := by
  unfold allSends
  rw [List.mem_flatMap]
  constructor
  · rintro ⟨q, hq, hsd⟩
    obtain ⟨k, sp, hk, rfl⟩ := (mem_mkParts base).1 hq
    simp only [partAt, List.mem_map] at hsd
    obtain ⟨c, hc, rfl⟩ := hsd
    exact ⟨k, sp, c, hk, hc, rfl⟩
  · rintro ⟨k, sp, c, hk, hc, rfl⟩
    refine ⟨partAt base (p.rank r) r (p.skel r) sp k, (mem_mkParts base).2 ⟨k, sp, hk, rfl⟩, ?_⟩
    simp only [partAt, List.mem_map]
    exact ⟨c, hc, rfl⟩

/-- the receive node of a receive carried by a part -/
theorem recv_node_of_part {k : Nat} {sp : SkelPart} (hk : (p.skel r)[k]? = some sp) {c : CommId}
    (hc : c ∈ sp.recvs) :
    (c, nodeOfRecv (p.rank r) r c) ∈ (p.rank r).recvsOf r := by
  obtain ⟨hcs, hdst⟩ := skel_recv_mem hp hr hk hc
  obtain ⟨sop, hs, hid⟩ := List.mem_map.1 hcs
  have hrid : c ∈ p.commGraph.recvIds := by rw [← hid]; exact hp.valid.sendHasRecv sop hs
  obtain ⟨_, a, ha⟩ := recvIds_inv p hrid
  rw [hdst] at ha
  rw [nodeOfRecv_eq hp hr ha]; exact ha

theorem round_recv {k : Nat} {sp : SkelPart} (hk : (p.skel r)[k]? = some sp) {c : CommId}
    (hc : c ∈ sp.recvs) : roundOf p.commGraph c.src r c.tag + 1 = sp.cand := by
  obtain ⟨hqr, _, _⟩ := mem_partsOf r _ (List.mem_of_getElem? hk)
  rw [hqr] at hc
  obtain ⟨h0, b, hb, hcb, hdst⟩ := (mem_candRecvs _ _).1 hc
  have := roundOf_eq hp.valid hb hcb
  rw [hdst] at this
  omega

theorem round_send {k : Nat} {sp : SkelPart} (hk : (p.skel r)[k]? = some sp) {c : CommId}
    (hc : c ∈ sp.sends) : roundOf p.commGraph r c.dst c.tag = sp.cand := by
  obtain ⟨_, hqs, _⟩ := mem_partsOf r _ (List.mem_of_getElem? hk)
  rw [hqs] at hc
  obtain ⟨b, hb, hcb, hsrc⟩ := (mem_candSends _ _).1 hc
  have := roundOf_eq hp.valid hb hcb
  rw [hsrc] at this
  exact this

theorem clause_pure : Cl.partsPure (partitionOf base p) r := by
  intro q hq
  rw [partitionOf_parts base p hr] at hq
  obtain ⟨k, sp, hk, rfl⟩ := (mem_mkParts base).1 hq
  rfl

theorem clause_inputsNodup : Cl.inputsNodup (partitionOf base p) r := by
  intro q hq
  rw [partitionOf_parts base p hr] at hq
  obtain ⟨k, sp, hk, rfl⟩ := (mem_mkParts base).1 hq
  simp only [partAt, partInputs]
  exact nodup_eraseDups _

theorem clause_roundsPart : Cl.roundsPart (partitionOf base p) (roundOf p.commGraph) r := by
  intro q hq rc hrc sd hsd
  rw [partitionOf_parts base p hr] at hq
  obtain ⟨k, sp, hk, rfl⟩ := (mem_mkParts base).1 hq
  simp only [partAt, List.mem_map] at hrc hsd
  obtain ⟨c, hc, rfl⟩ := hrc
  obtain ⟨c', hc', rfl⟩ := hsd
  have h1 := round_recv hp hr hk hc
  have h2 := round_send hp hr hk hc'
  simp only
  omega

theorem clause_roundsRecvSame : Cl.roundsRecvSame (partitionOf base p) (roundOf p.commGraph) r := by
  intro q hq rc hrc rc' hrc'
  rw [partitionOf_parts base p hr] at hq
  obtain ⟨k, sp, hk, rfl⟩ := (mem_mkParts base).1 hq
  simp only [partAt, List.mem_map] at hrc hrc'
  obtain ⟨c, hc, rfl⟩ := hrc
  obtain ⟨c', hc', rfl⟩ := hrc'
  have h1 := round_recv hp hr hk hc
  have h2 := round_recv hp hr hk hc'
  simp only
  omega

theorem clause_roundsSendSame : Cl.roundsSendSame (partitionOf base p) (roundOf p.commGraph) r := by
  intro q hq sd hsd sd' hsd'
  rw [partitionOf_parts base p hr] at hq
  obtain ⟨k, sp, hk, rfl⟩ := (mem_mkParts base).1 hq
  simp only [partAt, List.mem_map] at hsd hsd'
  obtain ⟨c, hc, rfl⟩ := hsd
  obtain ⟨c', hc', rfl⟩ := hsd'
  have h1 := round_send hp hr hk hc
  have h2 := round_send hp hr hk hc'
  simp only
  omega

theorem clause_roundsOrder : Cl.roundsOrder (partitionOf base p) (roundOf p.commGraph) r := by
  intro q hq q' hq' hneed
  rw [partitionOf_parts base p hr] at hq hq'
  obtain ⟨k, sp, hk, rfl⟩ := (mem_mkParts base).1 hq
  obtain ⟨j, sp', hj, rfl⟩ := (mem_mkParts base).1 hq'
  simp only [partAt, chainNeeds] at hneed
  have hjk : k ≠ 0 ∧ j = k - 1 := by
    by_cases h0 : k = 0
    · simp [h0] at hneed
    · rw [if_neg h0] at hneed
      exact ⟨h0, by simpa using hneed⟩
  have hcand : sp'.cand < sp.cand := by
    have hpw := partsOf_cand_increasing r p.batches
    rw [List.pairwise_iff_getElem] at hpw
    obtain ⟨hjl, hjq⟩ := List.getElem?_eq_some_iff.1 hj
    obtain ⟨hkl, hkq⟩ := List.getElem?_eq_some_iff.1 hk
    have := hpw j k hjl hkl (by omega)
    rw [hjq, hkq] at this
    exact this
  refine ⟨?_, ?_⟩
  · intro sd hsd rc hrc
    simp only [partAt, List.mem_map] at hsd hrc
    obtain ⟨c, hc, rfl⟩ := hsd
    obtain ⟨c', hc', rfl⟩ := hrc
    have h1 := round_send hp hr hj hc
    have h2 := round_recv hp hr hk hc'
    simp only
    omega
  · intro sd hsd sd' hsd'
    simp only [partAt, List.mem_map] at hsd hsd'
    obtain ⟨c, hc, rfl⟩ := hsd
    obtain ⟨c', hc', rfl⟩ := hsd'
    have h1 := round_send hp hr hj hc
    have h2 := round_send hp hr hk hc'
    simp only
    omega

theorem clause_sendHasRecv : Cl.sendHasRecv (partitionOf base p) r := by
  intro sd hsd
  rw [partitionOf_parts base p hr] at hsd
  obtain ⟨k, sp, c, hk, hc, rfl⟩ := (mem_allSends base hp hr).1 hsd
  obtain ⟨hcs, hsrc⟩ := skel_send_mem hp hr hk hc
  obtain ⟨sop, hs, hid⟩ := List.mem_map.1 hcs
  have hrid : c ∈ p.commGraph.recvIds := by rw [← hid]; exact hp.valid.sendHasRecv sop hs
  obtain ⟨hdl, _⟩ := recvIds_inv p hrid
  obtain ⟨k', q', hk', hcq', _⟩ := recv_part hp hrid
  simp only
  rw [partitionOf_parts base p hdl]
  exact ⟨⟨base + nodeOfRecv (p.rank c.dst) c.dst c, c.src, c.tag⟩,
    (mem_allRecvs base hp hdl).2 ⟨k', q', c, hk', hcq', rfl⟩, hsrc, rfl⟩

theorem clause_recvNotUser (hn : NamesOK base p) : Cl.recvNotUser (partitionOf base p) r := by
  intro rc hrc hu
  rw [partitionOf_parts base p hr] at hrc
  rw [partitionOf_user base p hr] at hu
  obtain ⟨k, sp, c, hk, hc, rfl⟩ := (mem_allRecvs base hp hr).1 hrc
  have := hn.usersLt r _ hu
  simp only at this
  omega

/-- what the names in the outputs of part `k` are -/
theorem mem_partOutputs {k n : Nat} (h : n ∈ partOutputs (p.rank r) r (p.skel r) base k) :
    (∃ a, (n, a) ∈ (p.rank r).outputs ∧ placeStored (p.rank r) r (p.skel r) a = k)
    ∨ (∃ a, n = base + a ∧ (a ∈ (p.rank r).sentArrays r ∨ a ∈ promoted (p.rank r) r (p.skel r))
        ∧ placeStored (p.rank r) r (p.skel r) a = k) := by
  unfold partOutputs at h
  rw [List.mem_eraseDups, List.mem_append] at h
  rcases h with h | h
  · left
    obtain ⟨⟨n', a⟩, hm, rfl⟩ := List.mem_map.1 h
    obtain ⟨hmem, hk⟩ := List.mem_filter.1 hm
    exact ⟨a, hmem, by simpa using hk⟩
  · right
    obtain ⟨a, hm, rfl⟩ := List.mem_map.1 h
    obtain ⟨hmem, hk⟩ := List.mem_filter.1 hm
    exact ⟨a, rfl, List.mem_append.1 hmem, by simpa using hk⟩

theorem clause_recvNotOutput (hn : NamesOK base p) : Cl.recvNotOutput (partitionOf base p) r := by
  intro rc hrc hout
  rw [partitionOf_parts base p hr] at hrc hout
  obtain ⟨k, sp, c, hk, hc, rfl⟩ := (mem_allRecvs base hp hr).1 hrc
  have hreg := recv_node_of_part hp hr hk hc
  have hra : nodeOfRecv (p.rank r) r c ∈ (p.rank r).recvArrays r :=
    List.mem_map.2 ⟨_, hreg, rfl⟩
  unfold allOutputs at hout
  obtain ⟨q, hq, hnq⟩ := List.mem_flatMap.1 hout
  obtain ⟨k', sp', hk', rfl⟩ := (mem_mkParts base).1 hq
  simp only [partAt] at hnq
  rcases mem_partOutputs base hp hr hnq with ⟨a, ha, _⟩ | ⟨a, heq, hsp, _⟩
  · have := hn.outputsLt r _ ha
    simp only at this
    omega
  · have haa : a = nodeOfRecv (p.rank r) r c := by omega
    rw [haa] at hsp
    rcases hsp with hs | hpr
    · unfold RankSrc.sentArrays at hs
      rw [List.mem_eraseDups] at hs
      obtain ⟨cd, hcd, hcd2⟩ := List.mem_map.1 hs
      have h1 := hp.noForward r cd hcd
      have h2 := (p.rank r).recvArrays_isRecv (hp.idsNodup r) hra
      rw [hcd2, h2] at h1
      cases h1
    · have := promoted_not_recv hp hr hpr
      rw [List.contains_iff_mem.2 hra] at this
      cases this

end Clauses

/-! ## uniqueness clauses -/

section Unique
variable (base : Nat) {p : Program} (hp : GoodProgram p) {r : Nat} (hr : r < p.length)
include hp hr

theorem allRecvs_eq :
    allRecvs (mkParts (p.rank r) r (p.skel r) base) =
      (p.skel r).flatMap fun sp => sp.recvs.map fun c =>
        (⟨base + nodeOfRecv (p.rank r) r c, c.src, c.tag⟩ : Recv) := by
  unfold allRecvs mkParts
  rw [List.flatMap_map]
  exact flatMap_zipIdx_fst (fun sp : SkelPart => sp.recvs.map fun c =>
    (⟨base + nodeOfRecv (p.rank r) r c, c.src, c.tag⟩ : Recv)) (p.skel r)

theorem allSends_eq :
    allSends (mkParts (p.rank r) r (p.skel r) base) =
      (p.skel r).flatMap fun sp => sp.sends.map fun c =>
        (⟨base + dataOfSend (p.rank r) r c, c.dst, c.tag⟩ : Send) := by
  unfold allSends mkParts
  rw [List.flatMap_map]
  exact flatMap_zipIdx_fst (fun sp : SkelPart => sp.sends.map fun c =>
    (⟨base + dataOfSend (p.rank r) r c, c.dst, c.tag⟩ : Send)) (p.skel r)

theorem batch_nodup {i : Nat} {b : List CommId} (hb : p.batches[i]? = some b) : b.Nodup := by
  have hn := (rawBatches_inv hp.valid).nodup
  rw [List.nodup_iff_pairwise_ne, List.pairwise_flatten] at hn
  rw [List.nodup_iff_pairwise_ne]
  exact hn.1 b (List.mem_of_getElem? hb)

theorem skel_recvs_nodup {sp : SkelPart} (h : sp ∈ p.skel r) : sp.recvs.Nodup := by
  obtain ⟨hqr, _, _⟩ := mem_partsOf r _ h
  rw [hqr]
  unfold candRecvs
  by_cases h0 : sp.cand = 0
  · rw [if_pos h0]; simp
  · rw [if_neg h0, List.getD_eq_getElem?_getD]
    cases hb : p.batches[sp.cand - 1]? with
    | none => simp
    | some b =>
      simp only [Option.getD_some]
      exact List.Nodup.sublist List.filter_sublist (batch_nodup hp hr hb)

theorem skel_sends_nodup {sp : SkelPart} (h : sp ∈ p.skel r) : sp.sends.Nodup := by
  obtain ⟨_, hqs, _⟩ := mem_partsOf r _ h
  rw [hqs]
  unfold candSends
  rw [List.getD_eq_getElem?_getD]
  cases hb : p.batches[sp.cand]? with
  | none => simp
  | some b =>
    simp only [Option.getD_some]
    exact List.Nodup.sublist List.filter_sublist (batch_nodup hp hr hb)

theorem skel_nodup : (p.skel r).Nodup :=
  nodup_of_pairwise_lt (·.cand) (partsOf_cand_increasing r p.batches)

theorem mem_skel_recv_dst {sp : SkelPart} (h : sp ∈ p.skel r) {c : CommId} (hc : c ∈ sp.recvs) : c.dst = r := by
  obtain ⟨k, hkl, hkq⟩ := List.mem_iff_getElem.1 h
  exact (skel_recv_mem hp hr (by rw [List.getElem?_eq_getElem hkl, hkq]) hc).2

theorem mem_skel_send_src {sp : SkelPart} (h : sp ∈ p.skel r) {c : CommId} (hc : c ∈ sp.sends) : c.src = r := by
  obtain ⟨k, hkl, hkq⟩ := List.mem_iff_getElem.1 h
  exact (skel_send_mem hp hr (by rw [List.getElem?_eq_getElem hkl, hkq]) hc).2

theorem clause_recvIdsNodup : Cl.recvIdsNodup (partitionOf base p) r := by
  show ((allRecvs ((partitionOf base p).parts r)).map fun rc => (rc.src, rc.tag)).Nodup
  rw [partitionOf_parts base p hr, allRecvs_eq base hp hr, List.map_flatMap]
  simp only [List.map_map]
  apply nodup_flatMap_of _ (skel_nodup hp hr)
  · intro sp hsp
    apply nodup_map_of_inj_on _ (skel_recvs_nodup hp hr hsp)
    intro c hc c' hc' heq
    have h1 := mem_skel_recv_dst hp hr hsp hc
    have h2 := mem_skel_recv_dst hp hr hsp hc'
    cases c; cases c'
    simp only [Function.comp, Prod.mk.injEq] at heq h1 h2 ⊢
    simp [heq.1, heq.2, h1, h2]
  · intro sp hsp sp' hsp' x hx hx'
    obtain ⟨c, hc, rfl⟩ := List.mem_map.1 hx
    obtain ⟨c', hc', heq⟩ := List.mem_map.1 hx'
    have h1 := mem_skel_recv_dst hp hr hsp hc
    have h2 := mem_skel_recv_dst hp hr hsp' hc'
    have hcc : c' = c := by
      cases c; cases c'
      simp only [Function.comp, Prod.mk.injEq] at heq h1 h2 ⊢
      simp [heq.1, heq.2, h1, h2]
    subst hcc
    exact skel_recv_unique hp.valid hsp hsp' hc hc'

theorem clause_sendIdsNodup : Cl.sendIdsNodup (partitionOf base p) r := by
  show ((allSends ((partitionOf base p).parts r)).map fun sd => (sd.dst, sd.tag)).Nodup
  rw [partitionOf_parts base p hr, allSends_eq base hp hr, List.map_flatMap]
  simp only [List.map_map]
  apply nodup_flatMap_of _ (skel_nodup hp hr)
  · intro sp hsp
    apply nodup_map_of_inj_on _ (skel_sends_nodup hp hr hsp)
    intro c hc c' hc' heq
    have h1 := mem_skel_send_src hp hr hsp hc
    have h2 := mem_skel_send_src hp hr hsp hc'
    cases c; cases c'
    simp only [Function.comp, Prod.mk.injEq] at heq h1 h2 ⊢
    simp [heq.1, heq.2, h1, h2]
  · intro sp hsp sp' hsp' x hx hx'
    obtain ⟨c, hc, rfl⟩ := List.mem_map.1 hx
    obtain ⟨c', hc', heq⟩ := List.mem_map.1 hx'
    have h1 := mem_skel_send_src hp hr hsp hc
    have h2 := mem_skel_send_src hp hr hsp' hc'
    have hcc : c' = c := by
      cases c; cases c'
      simp only [Function.comp, Prod.mk.injEq] at heq h1 h2 ⊢
      simp [heq.1, heq.2, h1, h2]
    subst hcc
    exact skel_send_unique hp.valid hsp hsp' hc hc'

/-- one receive node belongs to one receive id -/
theorem recvsOf_node_inj {c c' : CommId} {a : Nat} (h : (c, a) ∈ (p.rank r).recvsOf r)
    (h' : (c', a) ∈ (p.rank r).recvsOf r) : c = c' := by
  obtain ⟨n, hn, hid, hkn, hd⟩ := ((p.rank r).mem_recvsOf).1 h
  obtain ⟨n', hn', hid', hkn', hd'⟩ := ((p.rank r).mem_recvsOf).1 h'
  have hnn : n' = n := eq_of_map_eq_of_nodup PNode.id (hp.idsNodup r) hn' hn (by rw [hid', hid])
  subst hnn
  rw [hkn] at hkn'
  cases c; cases c'
  simp at hkn' hd hd' ⊢
  omega

theorem clause_recvNamesNodup : Cl.recvNamesNodup (partitionOf base p) r := by
  show ((allRecvs ((partitionOf base p).parts r)).map (·.name)).Nodup
  rw [partitionOf_parts base p hr, allRecvs_eq base hp hr, List.map_flatMap]
  simp only [List.map_map]
  have hnode : ∀ sp ∈ p.skel r, ∀ c ∈ sp.recvs, (c, nodeOfRecv (p.rank r) r c) ∈ (p.rank r).recvsOf r := by
    intro sp hsp c hc
    obtain ⟨k, hkl, hkq⟩ := List.mem_iff_getElem.1 hsp
    exact recv_node_of_part hp hr (by rw [List.getElem?_eq_getElem hkl, hkq]) hc
  apply nodup_flatMap_of _ (skel_nodup hp hr)
  · intro sp hsp
    apply nodup_map_of_inj_on _ (skel_recvs_nodup hp hr hsp)
    intro c hc c' hc' heq
    have heq' : base + nodeOfRecv (p.rank r) r c = base + nodeOfRecv (p.rank r) r c' := heq
    have h1 := hnode sp hsp c hc
    have h2 := hnode sp hsp c' hc'
    have : nodeOfRecv (p.rank r) r c = nodeOfRecv (p.rank r) r c' := by omega
    rw [this] at h1
    exact recvsOf_node_inj hp hr h1 h2
  · intro sp hsp sp' hsp' x hx hx'
    obtain ⟨c, hc, rfl⟩ := List.mem_map.1 hx
    obtain ⟨c', hc', heq⟩ := List.mem_map.1 hx'
    have heq' : base + nodeOfRecv (p.rank r) r c' = base + nodeOfRecv (p.rank r) r c := heq
    have h1 := hnode sp hsp c hc
    have h2 := hnode sp' hsp' c' hc'
    have : nodeOfRecv (p.rank r) r c' = nodeOfRecv (p.rank r) r c := by omega
    rw [this] at h2
    have hcc := recvsOf_node_inj hp hr h1 h2
    subst hcc
    exact skel_recv_unique hp.valid hsp hsp' hc hc'

theorem allOutputs_eq :
    allOutputs (mkParts (p.rank r) r (p.skel r) base) =
      (List.range' 0 (p.skel r).length).flatMap fun k => partOutputs (p.rank r) r (p.skel r) base k := by
  unfold allOutputs mkParts
  rw [List.flatMap_map]
  exact flatMap_zipIdx_snd (fun k => partOutputs (p.rank r) r (p.skel r) base k) (p.skel r)

theorem clause_outputsNodup (hn : NamesOK base p) : Cl.outputsNodup (partitionOf base p) r := by
  show (allOutputs ((partitionOf base p).parts r)).Nodup
  rw [partitionOf_parts base p hr, allOutputs_eq base hp hr]
  apply nodup_flatMap_of _ (List.nodup_range' 1)
  · intro k _
    unfold partOutputs
    exact nodup_eraseDups _
  · intro k _ k' _ x hx hx'
    rcases mem_partOutputs base hp hr hx with ⟨a, ha, hk⟩ | ⟨a, heq, _, hk⟩ <;>
      rcases mem_partOutputs base hp hr hx' with ⟨a', ha', hk'⟩ | ⟨a', heq', _, hk'⟩
    · have : (x, a) = (x, a') :=
        eq_of_map_eq_of_nodup (·.1) (hn.outputNamesNodup r) ha ha' rfl
      have haa : a = a' := (Prod.mk.inj this).2
      rw [← hk, ← hk', haa]
    · have := hn.outputsLt r _ ha
      simp only at this
      omega
    · have := hn.outputsLt r _ ha'
      simp only at this
      omega
    · have haa : a = a' := by omega
      rw [← hk, ← hk', haa]

end Unique

/-! ## the full contract -/

/-- **Every clause of `WF` holds for the partition the model computes**, for every good program
    whose user names live below `base` and whose output names are distinct. -/
theorem partitionOf_wf (base : Nat) {p : Program} (hp : GoodProgram p) (hn : NamesOK base p) :
    WF (partitionOf base p) := by
  refine ⟨lvlOf p, roundOf p.commGraph, ?_⟩
  intro r hr
  rw [partitionOf_length] at hr
  exact ⟨clause_pids base hp hr, clause_needs base hp hr, clause_recv base hp hr,
    clause_outputsNodup base hp hr hn, clause_overall base hp hr, clause_sent base hp hr,
    clause_reads base hp hr, clause_inputsNodup base hp hr, clause_recvNotOutput base hp hr hn,
    clause_recvNotUser base hp hr hn, clause_recvNamesNodup base hp hr, clause_pure base hp hr,
    clause_sendIdsNodup base hp hr, clause_recvIdsNodup base hp hr, clause_sendHasRecv base hp hr,
    clause_roundsPart base hp hr, clause_roundsRecvSame base hp hr, clause_roundsSendSame base hp hr,
    clause_roundsOrder base hp hr⟩

theorem checkNames_sound {base : Nat} {p : Program} (h : checkNames base p = true) : NamesOK base p := by
  have hall : ∀ r, (p.rank r).outputs.all (fun o => decide (o.1 < base)) = true
      ∧ (userNames (p.rank r)).all (fun n => decide (n < base)) = true
      ∧ ((p.rank r).outputs.map (·.1)).Nodup := by
    intro r
    by_cases hr : r < p.length
    · have := List.all_eq_true.1 h r (List.mem_range.2 hr)
      simp only [Bool.and_eq_true, decide_eq_true_eq] at this
      exact ⟨this.1.1, this.1.2, this.2⟩
    · rw [rank_out_of_range hr]
      simp [userNames]
  refine ⟨?_, ?_, ?_⟩
  · intro r o ho
    have := List.all_eq_true.1 (hall r).1 o ho
    simpa using this
  · intro r n hn
    have := List.all_eq_true.1 (hall r).2.1 n hn
    simpa using this
  · intro r; exact (hall r).2.2

end Pt.Dist

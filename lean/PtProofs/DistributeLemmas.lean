/-
  Soundness of the model of `EinsumDistributiveLawMapper` (property C06).
-/
import PtModel.Distribute
import PtProofs.EinsumLemmas
namespace Pt
open Spec

theorem except_bind_ok {α β : Type} {x : Except String α} {f : α → Except String β} {b : β}
    (h : (x >>= f) = .ok b) : ∃ a, x = .ok a ∧ f a = .ok b := by
  cases x with
  | error e => simp [bind, Except.bind] at h
  | ok a => exact ⟨a, rfl, h⟩

/-- the value of the surrounding einsum with `x` in the hole -/
def applyCtx (env : String → Arr Rat) (opq : String → List (Arr Rat) → Arr Rat) :
    Option EinsumCtx → Arr Rat → Arr Rat
  | none, x => x
  | some c, x => Spec.einsum c.descrs c.nout ((DExpr.denoteList env opq c.args).set c.hole x)

def CtxOK : Option EinsumCtx → Prop
  | none => True
  | some c => c.hole < c.descrs.length ∧ c.hole < c.args.length

theorem denoteList_length (env : String → Arr Rat) (opq : String → List (Arr Rat) → Arr Rat) :
    ∀ (as : List DExpr), (DExpr.denoteList env opq as).length = as.length
  | [] => rfl
  | _ :: as => by simp [DExpr.denoteList, denoteList_length env opq as]

theorem denoteList_set (env : String → Arr Rat) (opq : String → List (Arr Rat) → Arr Rat)
    (e : DExpr) : ∀ (as : List DExpr) (k : Nat),
      DExpr.denoteList env opq (as.set k e) = (DExpr.denoteList env opq as).set k (e.denote env opq)
  | [], _ => by simp [DExpr.denoteList]
  | _ :: _, 0 => by simp [DExpr.denoteList]
  | a :: as, k + 1 => by simp [DExpr.denoteList, denoteList_set env opq e as k]

theorem denoteList_getElem? (env : String → Arr Rat) (opq : String → List (Arr Rat) → Arr Rat) :
    ∀ (as : List DExpr) (k : Nat),
      (DExpr.denoteList env opq as)[k]? = as[k]?.map (·.denote env opq)
  | [], _ => by simp [DExpr.denoteList]
  | _ :: _, 0 => by simp [DExpr.denoteList]
  | a :: as, k + 1 => by simp [DExpr.denoteList, denoteList_getElem? env opq as k]

theorem denote_wrap (env : String → Arr Rat) (opq : String → List (Arr Rat) → Arr Rat)
    (ctx : Option EinsumCtx) (e : DExpr) :
    (wrap ctx e).denote env opq = applyCtx env opq ctx (e.denote env opq) := by
  cases ctx with
  | none => rfl
  | some c => simp [wrap, applyCtx, DExpr.denote, denoteList_set]

set_option linter.unusedSectionVars false

section
variable (policy : Policy) (canDist : DistCase → Bool) (hc : ∀ c, canDist c = true → Linear c)
variable (env : String → Arr Rat) (opq : String → List (Arr Rat) → Arr Rat)
include hc

mutual
/-- the invariant of the mapper: rewriting `t` under a context yields an
    expression whose value is the context's einsum applied to the value of `t` -/
theorem distribute_ctx_sound : ∀ (t : DExpr) (ctx : Option EinsumCtx) (t' : DExpr),
    t.WF env opq → CtxOK ctx → distribute policy canDist t ctx = .ok t' →
    t'.denote env opq = applyCtx env opq ctx (t.denote env opq)
  | .leaf n, ctx, t', _, _, h => by
    simp only [distribute, Except.ok.injEq] at h
    subst h; exact denote_wrap env opq ctx _
  | .add s a b, ctx, t', hwf, hok, h => by
    simp only [DExpr.WF] at hwf
    simp only [distribute] at h
    by_cases hcd : canDist ⟨"ADD", false, false, s⟩ = true
    · rw [if_pos hcd] at h
      obtain ⟨a', ha, h⟩ := except_bind_ok h
      obtain ⟨b', hb, h⟩ := except_bind_ok h
      simp only [pure, Except.pure, Except.ok.injEq] at h
      subst h
      have hs : s = true := by
        have := hc _ hcd
        simpa [Linear, linearCase] using this
      have iha := distribute_ctx_sound a ctx a' hwf.2.1 hok ha
      have ihb := distribute_ctx_sound b ctx b' hwf.2.2 hok hb
      subst hs
      simp only [DExpr.denote, if_true, iha, ihb]
      cases ctx with
      | none => rfl
      | some c =>
        simp only [applyCtx]
        exact (einsum_add _ _ _ _ hok.1 (by rw [denoteList_length]; exact hok.2) _ _
          (hwf.1 rfl)).symm
    · rw [if_neg hcd] at h
      obtain ⟨a', ha, h⟩ := except_bind_ok h
      obtain ⟨b', hb, h⟩ := except_bind_ok h
      simp only [pure, Except.pure, Except.ok.injEq] at h
      subst h
      have iha := distribute_ctx_sound a none a' hwf.2.1 trivial ha
      have ihb := distribute_ctx_sound b none b' hwf.2.2 trivial hb
      simp only [applyCtx] at iha ihb
      rw [denote_wrap]
      simp only [DExpr.denote, iha, ihb]
  | .sub s a b, ctx, t', hwf, hok, h => by
    simp only [DExpr.WF] at hwf
    simp only [distribute] at h
    by_cases hcd : canDist ⟨"SUB", false, false, s⟩ = true
    · rw [if_pos hcd] at h
      obtain ⟨a', ha, h⟩ := except_bind_ok h
      obtain ⟨b', hb, h⟩ := except_bind_ok h
      simp only [pure, Except.pure, Except.ok.injEq] at h
      subst h
      have hs : s = true := by
        have := hc _ hcd
        simpa [Linear, linearCase] using this
      have iha := distribute_ctx_sound a ctx a' hwf.2.1 hok ha
      have ihb := distribute_ctx_sound b ctx b' hwf.2.2 hok hb
      subst hs
      simp only [DExpr.denote, if_true, iha, ihb]
      cases ctx with
      | none => rfl
      | some c =>
        simp only [applyCtx]
        exact (einsum_sub _ _ _ _ hok.1 (by rw [denoteList_length]; exact hok.2) _ _
          (hwf.1 rfl)).symm
    · rw [if_neg hcd] at h
      obtain ⟨a', ha, h⟩ := except_bind_ok h
      obtain ⟨b', hb, h⟩ := except_bind_ok h
      simp only [pure, Except.pure, Except.ok.injEq] at h
      subst h
      have iha := distribute_ctx_sound a none a' hwf.2.1 trivial ha
      have ihb := distribute_ctx_sound b none b' hwf.2.2 trivial hb
      simp only [applyCtx] at iha ihb
      rw [denote_wrap]
      simp only [DExpr.denote, iha, ihb]
  | .smul c a, ctx, t', hwf, hok, h => by
    simp only [DExpr.WF] at hwf
    simp only [distribute] at h
    by_cases hcd : canDist ⟨"MULT", true, false, false⟩ = true
    · rw [if_pos hcd] at h
      obtain ⟨a', ha, h⟩ := except_bind_ok h
      simp only [pure, Except.pure, Except.ok.injEq] at h
      subst h
      have iha := distribute_ctx_sound a ctx a' hwf hok ha
      simp only [DExpr.denote, iha]
      cases ctx with
      | none => rfl
      | some cx =>
        simp only [applyCtx]
        exact (einsum_smul _ _ _ _ hok.1 (by rw [denoteList_length]; exact hok.2) _ _).symm
    · rw [if_neg hcd] at h
      obtain ⟨a', ha, h⟩ := except_bind_ok h
      simp only [pure, Except.pure, Except.ok.injEq] at h
      subst h
      have iha := distribute_ctx_sound a none a' hwf trivial ha
      simp only [applyCtx] at iha
      rw [denote_wrap]
      simp only [DExpr.denote, iha]
  | .muls a c, ctx, t', hwf, hok, h => by
    simp only [DExpr.WF] at hwf
    simp only [distribute] at h
    by_cases hcd : canDist ⟨"MULT", false, true, false⟩ = true
    · rw [if_pos hcd] at h
      obtain ⟨a', ha, h⟩ := except_bind_ok h
      simp only [pure, Except.pure, Except.ok.injEq] at h
      subst h
      have iha := distribute_ctx_sound a ctx a' hwf hok ha
      simp only [DExpr.denote, iha]
      cases ctx with
      | none => rfl
      | some cx =>
        simp only [applyCtx]
        exact (einsum_muls _ _ _ _ hok.1 (by rw [denoteList_length]; exact hok.2) _ _).symm
    · rw [if_neg hcd] at h
      obtain ⟨a', ha, h⟩ := except_bind_ok h
      simp only [pure, Except.pure, Except.ok.injEq] at h
      subst h
      have iha := distribute_ctx_sound a none a' hwf trivial ha
      simp only [applyCtx] at iha
      rw [denote_wrap]
      simp only [DExpr.denote, iha]
  | .divs a c, ctx, t', hwf, hok, h => by
    simp only [DExpr.WF] at hwf
    simp only [distribute] at h
    by_cases hcd : canDist ⟨"TRUEDIV", false, true, false⟩ = true
    · rw [if_pos hcd] at h
      obtain ⟨a', ha, h⟩ := except_bind_ok h
      simp only [pure, Except.pure, Except.ok.injEq] at h
      subst h
      have iha := distribute_ctx_sound a ctx a' hwf hok ha
      simp only [DExpr.denote, iha]
      cases ctx with
      | none => rfl
      | some cx =>
        simp only [applyCtx]
        exact (einsum_div_scalar _ _ _ _ hok.1 (by rw [denoteList_length]; exact hok.2) _ _).symm
    · rw [if_neg hcd] at h
      obtain ⟨a', ha, h⟩ := except_bind_ok h
      simp only [pure, Except.pure, Except.ok.injEq] at h
      subst h
      have iha := distribute_ctx_sound a none a' hwf trivial ha
      simp only [applyCtx] at iha
      rw [denote_wrap]
      simp only [DExpr.denote, iha]
  | .sdivl c a, ctx, t', hwf, hok, h => by
    simp only [DExpr.WF] at hwf
    simp only [distribute] at h
    by_cases hcd : canDist ⟨"TRUEDIV", true, false, false⟩ = true
    · -- `c / x` is not linear in `x`: excluded by `hc`
      have := hc _ hcd
      simp [Linear, linearCase] at this
    · rw [if_neg hcd] at h
      obtain ⟨a', ha, h⟩ := except_bind_ok h
      simp only [pure, Except.pure, Except.ok.injEq] at h
      subst h
      have iha := distribute_ctx_sound a none a' hwf trivial ha
      simp only [applyCtx] at iha
      rw [denote_wrap]
      simp only [DExpr.denote, iha]
  | .other f args, ctx, t', hwf, hok, h => by
    simp only [DExpr.WF] at hwf
    simp only [distribute] at h
    obtain ⟨args', ha, h⟩ := except_bind_ok h
    simp only [pure, Except.pure, Except.ok.injEq] at h
    subst h
    rw [denote_wrap]
    simp only [DExpr.denote, distributeList_sound args args' hwf ha]
  | .einsum d n args, ctx, t', hwf, hok, h => by
    simp only [DExpr.WF] at hwf
    simp only [distribute] at h
    cases hp : policy (.einsum d n args) with
    | some k =>
      rw [hp] at h
      cases ctx with
      | some _ => simp at h
      | none =>
        simp only at h
        obtain ⟨a, hk, hka, hden⟩ := distributeNth_sound args k ⟨d, n, args, k⟩ t' hwf.2 h
        have hok' : CtxOK (some ⟨d, n, args, k⟩) := ⟨by rw [hwf.1]; exact hk, hk⟩
        rw [hden hok']
        simp only [applyCtx, DExpr.denote]
        congr 1
        apply List.ext_getElem?
        intro j
        by_cases hj : j = k
        · subst hj
          rw [List.getElem?_set_self (by rw [denoteList_length]; exact hk),
            denoteList_getElem?, hka]; rfl
        · rw [List.getElem?_set_ne (fun e => hj e.symm)]
    | none =>
      rw [hp] at h
      simp only at h
      obtain ⟨args', ha, h⟩ := except_bind_ok h
      simp only [pure, Except.pure, Except.ok.injEq] at h
      subst h
      rw [denote_wrap]
      simp only [DExpr.denote, distributeList_sound args args' hwf.2 ha]
theorem distributeList_sound : ∀ (as as' : List DExpr), DExpr.WFList env opq as →
    distributeList policy canDist as = .ok as' →
    DExpr.denoteList env opq as' = DExpr.denoteList env opq as
  | [], as', _, h => by
    simp only [distributeList, Except.ok.injEq] at h
    subst h; rfl
  | a :: as, as', hwf, h => by
    simp only [DExpr.WFList] at hwf
    simp only [distributeList] at h
    obtain ⟨a', ha, h⟩ := except_bind_ok h
    obtain ⟨r, hr, h⟩ := except_bind_ok h
    simp only [pure, Except.pure, Except.ok.injEq] at h
    subst h
    have iha := distribute_ctx_sound a none a' hwf.1 trivial ha
    simp only [applyCtx] at iha
    simp only [DExpr.denoteList, iha, distributeList_sound as r hwf.2 hr]
theorem distributeNth_sound : ∀ (as : List DExpr) (k : Nat) (c : EinsumCtx) (t' : DExpr),
    DExpr.WFList env opq as → distributeNth policy canDist as k c = .ok t' →
    ∃ a, k < as.length ∧ as[k]? = some a ∧
      (CtxOK (some c) → t'.denote env opq = applyCtx env opq (some c) (a.denote env opq))
  | [], _, _, _, _, h => by simp [distributeNth] at h
  | a :: as, 0, c, t', hwf, h => by
    simp only [DExpr.WFList] at hwf
    simp only [distributeNth] at h
    exact ⟨a, by simp, rfl, fun hok => distribute_ctx_sound a (some c) t' hwf.1 hok h⟩
  | a :: as, k + 1, c, t', hwf, h => by
    simp only [DExpr.WFList] at hwf
    simp only [distributeNth] at h
    obtain ⟨x, h1, h2, h3⟩ := distributeNth_sound as k c t' hwf.2 h
    exact ⟨x, by simpa using h1, by simpa using h2, h3⟩
end
end

end Pt

/-
  C01 generator model, reductions — expression level: the body of a reduction.  `gen` applied to an
  expression whose reduction variables have been renamed to their unique names (`renameRed`)
  evaluates, in a loop environment that binds the unique names, to what the expression evaluates to
  with the original variables bound to the same values.
-/
import PtProofs.C01GenChecks
namespace Pt
namespace LG

mutual
/-- no bare variable of the expression is one of the names in `scope` (the generated unique names
    do not occur in what the user wrote) -/
def noScopeVars (scope : List String) : SExpr → Bool
  | .int _ | .bool _ | .rat _ _ | .nan | .idx _ => true
  | .var x => !scope.contains x
  | .sub _ ix => noScopeVarsList scope ix
  | .add a c | .mul a c | .quot a c | .fdiv a c | .rem a c | .pow a c | .cmp _ a c | .land a c | .lor a c =>
    noScopeVars scope a && noScopeVars scope c
  | .lnot a | .cast _ a => noScopeVars scope a
  | .ite c t e => noScopeVars scope c && noScopeVars scope t && noScopeVars scope e
  | .reduce _ v lo hi body => !scope.contains v && noScopeVars scope lo && noScopeVars scope hi && noScopeVars scope body
  | .call f args => f == "pytato.zero" || noScopeVarsList scope args
def noScopeVarsList (scope : List String) : List SExpr → Bool
  | [] => true
  | e :: es => noScopeVars scope e && noScopeVarsList scope es
end

theorem renameRedList_length (ρ : List (String × String)) : ∀ (es : List SExpr),
    (renameRedList ρ es).length = es.length
  | [] => rfl
  | e :: es => by simp [renameRedList, renameRedList_length ρ es]

theorem lookupStr_none_not_key : ∀ {ρ : List (String × String)} {x : String}, lookupStr ρ x = none →
    (ρ.map (·.1)).contains x = false
  | [], _, _ => rfl
  | (a, b) :: r, x, h => by
    unfold lookupStr at h
    by_cases hx : (a == x) = true
    · rw [List.find?_cons_of_pos (by simpa using hx)] at h
      simp at h
    · rw [List.find?_cons_of_neg (by simpa using hx)] at h
      have ih := lookupStr_none_not_key (ρ := r) (x := x) h
      have hne : ¬ (x = a) := fun e => hx (by simp [e])
      simp only [List.map_cons, List.contains_cons, Bool.or_eq_false_iff]
      exact ⟨by simpa using hne, ih⟩

/-- the loop environment `Γ` binds the unique names to what the semantic environment `Δ` binds the
    reduction variables to; `Δ` binds nothing else -/
structure Ren (ρ : List (String × String)) (Δ Γ : List (String × Int)) : Prop where
  bound : ∀ x u, lookupStr ρ x = some u → ∃ n, lookupIxL Δ x = some n ∧ lookupIxL Γ u = some n
  only : ∀ x, lookupStr ρ x = none → lookupIxL Δ x = none

section GenRSound
variable {σ : Store} {G : String → Prop} {ns : List (String × Impl)} {bs : List (String × Arr Val)}
  (hns : NsOK σ G ns bs) (p : Idx) (n : Nat) (ρ : List (String × String)) (scope : List String)
  (hin : ∀ x u, lookupStr ρ x = some u → scope.contains u = true)
  (Δ : List (String × Int))
include hns hin

omit hns hin in
theorem sem_subR {a : String} {ix : List SExpr} {D : Arr Val}
    (hD : (bs.find? (·.1 == a)).map (·.2) = some D)
    (hsafe : Safe { pt := p, ix := Δ, arr := bs } (.sub a ix)) :
    SafeList { pt := p, ix := Δ, arr := bs } ix ∧ ∃ j, evalList { pt := p, ix := Δ, arr := bs } ix = idxVals j ∧
      inB D.shape j = true ∧ eval { pt := p, ix := Δ, arr := bs } (.sub a ix) = D.get j := by
  simp only [Safe] at hsafe
  obtain ⟨hsl, arr, j, harr, hj, hin⟩ := hsafe
  have h2 : Env.lookupArr { pt := p, ix := Δ, arr := bs } a = some D := hD
  have hDarr : arr = D := by rw [h2] at harr; exact (Option.some.inj harr).symm
  rw [hDarr] at hin
  refine ⟨hsl, j, hj, hin, ?_⟩
  simp only [eval, h2, hj, toNatIdx_idxVals, hin, if_true]

mutual
theorem genR_sound : ∀ (e le : SExpr), exprOK n e = true → ranksOKS (rankOf bs) (ρ.map (·.1)) e = true →
    noScopeVars scope e = true → gen ns scope (renameRed ρ e) = some le →
    exprOK n le = true ∧ (∀ x ∈ readNames le, G x ∨ x ∈ scope) ∧
    ∀ Γ, Avoids G Γ → Ren ρ Δ Γ → Safe { pt := p, ix := Δ, arr := bs } e →
      eval { pt := p, ix := Γ, arr := σ } le = eval { pt := p, ix := Δ, arr := bs } e
  | .int k, le, _, _, _, hg => by
    simp only [renameRed, gen, Option.some.injEq] at hg; subst hg
    exact ⟨by simp [exprOK], by simp [readNames], fun Γ _ _ _ => by simp [eval]⟩
  | .rat a b, le, _, _, _, hg => by
    simp only [renameRed, gen, Option.some.injEq] at hg; subst hg
    exact ⟨by simp [exprOK], by simp [readNames], fun Γ _ _ _ => by simp [eval]⟩
  | .nan, le, _, _, _, hg => by
    simp only [renameRed, gen, Option.some.injEq] at hg; subst hg
    exact ⟨by simp [exprOK], by simp [readNames], fun Γ _ _ _ => by simp [eval]⟩
  | .bool _, _, h, _, _, _ => by simp [exprOK] at h
  | .reduce .., _, h, _, _, _ => by simp [exprOK] at h
  | .idx k, le, h, _, _, hg => by
    simp only [renameRed, gen, Option.some.injEq] at hg; subst hg
    exact ⟨h, by simp [readNames], fun Γ _ _ _ => by simp [eval]⟩
  | .var x, le, _, hr, hsc, hg => by
    simp only [noScopeVars, Bool.not_eq_true'] at hsc
    simp only [renameRed] at hg
    cases hρ : lookupStr ρ x with
    | some u =>
      have hu := hin x u hρ
      simp only [hρ, gen, hu, if_true, Option.some.injEq] at hg
      subst hg
      refine ⟨by simp [exprOK], ?_, fun Γ _ hren _ => ?_⟩
      · intro y hy
        simp only [readNames, List.mem_singleton] at hy
        exact Or.inr (by rw [hy]; simpa using hu)
      · obtain ⟨k, hΔ, hΓ⟩ := hren.bound x u hρ
        have h1 : Env.lookupIx { pt := p, ix := Γ, arr := σ } u = some k := hΓ
        have h2 : Env.lookupIx { pt := p, ix := Δ, arr := bs } x = some k := hΔ
        simp only [eval, h1, h2]
    | none =>
      simp only [hρ, gen] at hg
      rw [if_neg (by rw [hsc]; simp)] at hg
      cases hl : lookupNs ns x with
      | none => simp [hl] at hg
      | some r =>
        simp only [hl, Option.some.injEq] at hg
        subst hg
        obtain ⟨D, hD, hok⟩ := hns x r hl
        have hnotrv : (ρ.map (·.1)).contains x = false := lookupStr_none_not_key hρ
        have hrank : D.shape = [] := by
          simp only [ranksOKS, hnotrv, Bool.false_or, rankOf, hD, Option.map_some, beq_iff_eq,
            Option.some.injEq] at hr
          exact List.length_eq_zero_iff.1 hr
        have hsem : ∀ Γ, Ren ρ Δ Γ → eval { pt := p, ix := Δ, arr := bs } (.var x) = D.get [] := by
          intro Γ hren
          have h1 : Env.lookupIx { pt := p, ix := Δ, arr := bs } x = none := hren.only x hρ
          have h2 : Env.lookupArr { pt := p, ix := Δ, arr := bs } x = some D := hD
          simp only [eval, h1, h2, hrank, if_true]
        cases r with
        | stored name deps =>
          obtain ⟨hG, hst⟩ := hok
          refine ⟨by simp [Impl.toExpr, exprOK], ?_, fun Γ hΓ hren _ => ?_⟩
          · intro y hy
            simp only [Impl.toExpr, List.isEmpty_nil, if_true, readNames, List.mem_singleton] at hy
            exact Or.inl (hy ▸ hG)
          · rw [hsem Γ hren]
            simp only [Impl.toExpr, List.isEmpty_nil, if_true]
            exact eval_var_stored hst hrank p (hΓ name hG)
        | inlined le0 deps =>
          obtain ⟨hle0, hG, hval⟩ := hok
          rw [hrank] at hle0
          simp only [Impl.toExpr, substIdx_nil]
          refine ⟨exprOK_mono (Nat.zero_le _) le0 hle0, fun y hy => Or.inl (hG y hy), fun Γ hΓ hren _ => ?_⟩
          rw [hsem Γ hren]
          have h0 := eval_substIdx [] [] le0 { pt := p, ix := Γ, arr := σ } hle0 rfl
          rw [substIdx_nil] at h0
          rw [h0]
          exact hval [] Γ (by rw [hrank]; rfl) hΓ
  | .sub a ix, le, h, hr, hsc, hg => by
    simp only [exprOK] at h
    simp only [ranksOKS, Bool.and_eq_true, beq_iff_eq] at hr
    simp only [noScopeVars] at hsc
    simp only [renameRed, gen] at hg
    cases hix : genList ns scope (renameRedList ρ ix) with
    | none => simp [hix] at hg
    | some ix' =>
      cases hl : lookupNs ns a with
      | none => simp [hix, hl] at hg
      | some r =>
        simp only [hix, hl, Option.some.injEq] at hg
        subst hg
        obtain ⟨hix'ok, hixG, hixval⟩ := genRList_sound ix ix' h hr.2 hsc hix
        have hlen : ix'.length = ix.length := by
          rw [genList_length hix, renameRedList_length]
        obtain ⟨D, hD, hok⟩ := hns a r hl
        have hrank : D.shape.length = ix.length := by
          have := hr.1
          simp only [rankOf, hD, Option.map_some, Option.some.injEq] at this
          exact this
        cases r with
        | stored name deps =>
          obtain ⟨hG, hst⟩ := hok
          refine ⟨?_, ?_, fun Γ hΓ hren hsafe => ?_⟩
          · simp only [Impl.toExpr]
            split
            · simp [exprOK]
            · simpa [exprOK] using hix'ok
          · intro x hx
            simp only [Impl.toExpr] at hx
            split at hx
            · simp only [readNames, List.mem_singleton] at hx; rw [hx]; exact Or.inl hG
            · simp only [readNames, List.mem_cons] at hx
              rcases hx with rfl | hx
              · exact Or.inl hG
              · exact hixG x hx
          · obtain ⟨hsl, j, hj, hin', hsem⟩ := sem_subR p Δ hD hsafe
            rw [hsem]
            simp only [Impl.toExpr]
            by_cases hemp : ix'.isEmpty = true
            · rw [if_pos hemp]
              have hix0 : ix = [] := by
                have : ix'.length = 0 := by simpa using hemp
                exact List.length_eq_zero_iff.1 (by omega)
              have hj0 : j = [] := by
                apply idxVals_eq_nil
                rw [← hj, hix0]; rfl
              subst hj0
              have hDs : D.shape = [] := List.length_eq_zero_iff.1 (by rw [hrank, hix0]; rfl)
              exact eval_var_stored hst hDs p (hΓ name hG)
            · rw [if_neg hemp]
              obtain ⟨a', ha', hsh, hget⟩ := hst
              have hvals := hixval Γ hΓ hren hsl
              have h2 : Env.lookupArr { pt := p, ix := Γ, arr := σ } name = some a' := ha'
              have hin'' : inB a'.shape j = true := by rw [hsh]; exact hin'
              simp only [eval, h2, hvals, hj, toNatIdx_idxVals, hin'', if_true]
              exact hget j hin'
        | inlined le0 deps =>
          obtain ⟨hle0, hG, hval⟩ := hok
          have hle0' : exprOK ix'.length le0 = true := by rw [hlen, ← hrank]; exact hle0
          refine ⟨by simp only [Impl.toExpr]; exact exprOK_substIdx ix' hix'ok le0 hle0', ?_,
            fun Γ hΓ hren hsafe => ?_⟩
          · intro x hx
            simp only [Impl.toExpr] at hx
            rcases readNames_substIdx_sub ix' le0 x hx with h | h
            · exact Or.inl (hG x h)
            · exact hixG x h
          · obtain ⟨hsl, j, hj, hin', hsem⟩ := sem_subR p Δ hD hsafe
            rw [hsem]
            simp only [Impl.toExpr]
            have hvals : evalList { pt := p, ix := Γ, arr := σ } ix' = idxVals j := by
              rw [hixval Γ hΓ hren hsl, hj]
            rw [eval_substIdx ix' j le0 _ hle0' hvals]
            exact hval j Γ hin' hΓ
  | .add a c, le, h, hr, hsc, hg | .mul a c, le, h, hr, hsc, hg | .quot a c, le, h, hr, hsc, hg
  | .fdiv a c, le, h, hr, hsc, hg | .rem a c, le, h, hr, hsc, hg | .pow a c, le, h, hr, hsc, hg
  | .cmp _ a c, le, h, hr, hsc, hg | .land a c, le, h, hr, hsc, hg | .lor a c, le, h, hr, hsc, hg => by
    simp only [exprOK, Bool.and_eq_true] at h
    simp only [ranksOKS, Bool.and_eq_true] at hr
    simp only [noScopeVars, Bool.and_eq_true] at hsc
    simp only [renameRed, gen] at hg
    cases hx : gen ns scope (renameRed ρ a) with
    | none => simp [hx] at hg
    | some x =>
      cases hy : gen ns scope (renameRed ρ c) with
      | none => simp [hx, hy] at hg
      | some y =>
        simp only [hx, hy, Option.some.injEq] at hg
        subst hg
        obtain ⟨ha1, ha2, ha3⟩ := genR_sound a x h.1 hr.1 hsc.1 hx
        obtain ⟨hc1, hc2, hc3⟩ := genR_sound c y h.2 hr.2 hsc.2 hy
        refine ⟨by simp [exprOK, ha1, hc1], ?_, fun Γ hΓ hren hsafe => ?_⟩
        · intro z hz
          simp only [readNames, List.mem_append] at hz
          rcases hz with hz | hz
          · exact ha2 z hz
          · exact hc2 z hz
        · simp only [Safe] at hsafe
          simp only [eval, ha3 Γ hΓ hren hsafe.1, hc3 Γ hΓ hren hsafe.2]
  | .lnot a, le, h, hr, hsc, hg | .cast _ a, le, h, hr, hsc, hg => by
    simp only [exprOK] at h
    simp only [ranksOKS] at hr
    simp only [noScopeVars] at hsc
    simp only [renameRed, gen] at hg
    cases hx : gen ns scope (renameRed ρ a) with
    | none => simp [hx] at hg
    | some x =>
      simp only [hx, Option.some.injEq] at hg
      subst hg
      obtain ⟨ha1, ha2, ha3⟩ := genR_sound a x h hr hsc hx
      refine ⟨by simp [exprOK, ha1], by simpa [readNames] using ha2, fun Γ hΓ hren hsafe => ?_⟩
      simp only [Safe] at hsafe
      simp only [eval, ha3 Γ hΓ hren hsafe]
  | .ite c t e, le, h, hr, hsc, hg => by
    simp only [exprOK, Bool.and_eq_true] at h
    simp only [ranksOKS, Bool.and_eq_true] at hr
    simp only [noScopeVars, Bool.and_eq_true] at hsc
    simp only [renameRed, gen] at hg
    cases hx : gen ns scope (renameRed ρ c) with
    | none => simp [hx] at hg
    | some x =>
      cases hy : gen ns scope (renameRed ρ t) with
      | none => simp [hx, hy] at hg
      | some y =>
        cases hz : gen ns scope (renameRed ρ e) with
        | none => simp [hx, hy, hz] at hg
        | some z =>
          simp only [hx, hy, hz, Option.some.injEq] at hg
          subst hg
          obtain ⟨hc1, hc2, hc3⟩ := genR_sound c x h.1.1 hr.1.1 hsc.1.1 hx
          obtain ⟨ht1, ht2, ht3⟩ := genR_sound t y h.1.2 hr.1.2 hsc.1.2 hy
          obtain ⟨he1, he2, he3⟩ := genR_sound e z h.2 hr.2 hsc.2 hz
          refine ⟨by simp [exprOK, hc1, ht1, he1], ?_, fun Γ hΓ hren hsafe => ?_⟩
          · intro w hw
            simp only [readNames, List.mem_append] at hw
            rcases hw with (hw | hw) | hw
            · exact hc2 w hw
            · exact ht2 w hw
            · exact he2 w hw
          · simp only [Safe] at hsafe
            obtain ⟨hsc', hst, hse⟩ := hsafe
            simp only [eval, hc3 Γ hΓ hren hsc']
            cases htr : (eval { pt := p, ix := Δ, arr := bs } c).truthy? with
            | none => rfl
            | some b =>
              cases b with
              | true => simp only; exact ht3 Γ hΓ hren (hst htr)
              | false => simp only; exact he3 Γ hΓ hren (hse htr)
  | .call f args, le, h, hr, hsc, hg => by
    simp only [exprOK] at h
    simp only [ranksOKS, Bool.or_eq_true, beq_iff_eq] at hr
    simp only [noScopeVars, Bool.or_eq_true, beq_iff_eq] at hsc
    simp only [renameRed, gen] at hg
    by_cases hz : (f == "pytato.zero") = true
    · rw [if_pos hz] at hg
      simp only [Option.some.injEq] at hg
      subst hg
      have hf : f = "pytato.zero" := by simpa using hz
      subst hf
      refine ⟨by simp [exprOK], by simp [readNames], fun Γ _ _ _ => ?_⟩
      simp [eval, callExact]
    · rw [if_neg hz] at hg
      have hf : f ≠ "pytato.zero" := by simpa using hz
      cases hx : genList ns scope (renameRedList ρ args) with
      | none => simp [hx] at hg
      | some as =>
        simp only [hx, Option.some.injEq] at hg
        subst hg
        have hr' : ranksOKSList (rankOf bs) (ρ.map (·.1)) args = true := by
          rcases hr with hr | hr
          · exact absurd hr hf
          · exact hr
        have hsc' : noScopeVarsList scope args = true := by
          rcases hsc with hsc | hsc
          · exact absurd hsc hf
          · exact hsc
        obtain ⟨h1, h2, h3⟩ := genRList_sound args as h hr' hsc' hx
        refine ⟨by simpa [exprOK] using h1, by simpa [readNames] using h2, fun Γ hΓ hren hsafe => ?_⟩
        simp only [Safe] at hsafe
        rcases hsafe with hsafe | hsafe
        · exact absurd hsafe hf
        · simp only [eval, h3 Γ hΓ hren hsafe]
theorem genRList_sound : ∀ (es les : List SExpr), exprOKList n es = true →
    ranksOKSList (rankOf bs) (ρ.map (·.1)) es = true → noScopeVarsList scope es = true →
    genList ns scope (renameRedList ρ es) = some les →
    exprOKList n les = true ∧ (∀ x ∈ readNamesList les, G x ∨ x ∈ scope) ∧
    ∀ Γ, Avoids G Γ → Ren ρ Δ Γ → SafeList { pt := p, ix := Δ, arr := bs } es →
      evalList { pt := p, ix := Γ, arr := σ } les = evalList { pt := p, ix := Δ, arr := bs } es
  | [], les, _, _, _, hg => by
    simp only [renameRedList, genList, Option.some.injEq] at hg; subst hg
    exact ⟨by simp [exprOKList], by simp [readNamesList], fun Γ _ _ _ => by simp [evalList]⟩
  | e :: es, les, h, hr, hsc, hg => by
    simp only [exprOKList, Bool.and_eq_true] at h
    simp only [ranksOKSList, Bool.and_eq_true] at hr
    simp only [noScopeVarsList, Bool.and_eq_true] at hsc
    simp only [renameRedList, genList] at hg
    cases hx : gen ns scope (renameRed ρ e) with
    | none => simp [hx] at hg
    | some x =>
      cases hy : genList ns scope (renameRedList ρ es) with
      | none => simp [hx, hy] at hg
      | some xs =>
        simp only [hx, hy, Option.some.injEq] at hg
        subst hg
        obtain ⟨ha1, ha2, ha3⟩ := genR_sound e x h.1 hr.1 hsc.1 hx
        obtain ⟨hc1, hc2, hc3⟩ := genRList_sound es xs h.2 hr.2 hsc.2 hy
        refine ⟨by simp [exprOKList, ha1, hc1], ?_, fun Γ hΓ hren hsafe => ?_⟩
        · intro z hz
          simp only [readNamesList, List.mem_append] at hz
          rcases hz with hz | hz
          · exact ha2 z hz
          · exact hc2 z hz
        · simp only [SafeList] at hsafe
          simp only [evalList, ha3 Γ hΓ hren hsafe.1, hc3 Γ hΓ hren hsafe.2]
end

end GenRSound

end LG
end Pt

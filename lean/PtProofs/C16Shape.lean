/-
  Property C16, part (b) — "the inferred shape of every node equals the concrete
  shape for every parameter valuation".

  `Pt.Sym.*` (PtModel/SymShape.lean) models pytato's shape inference for the node
  kinds that admit symbolic axes, over axis lengths that are affine expressions
  in the size parameters, with the two real decision procedures
  (`affEq` = `are_shape_components_equal`, `isNonNeg` = `_is_non_negative`; tied to
  ISL by the harness, proved exact in PtProofs/C16.lean).

  For every kind: IF the model accepts the operands and infers dims `ds`, THEN for
  EVERY valuation `v` of the size parameters that makes the operand lengths
  non-negative (`Adm`), NumPy accepts the concretised operand shapes and its
  result shape is `ds` evaluated at `v` (`concr v ds`, all entries non-negative:
  `Adm v ds`, hence `ds.map (eval v) = (concr v ds).map (↑)` by `evalS_eq_of_adm`).
-/
import PtProofs.C16ShapeLemmas
import PtProofs.C16Cover
import PtModel.Pad
namespace Pt
open Sym

/-- under admissibility, evaluating symbolic dims gives exactly the concrete shape -/
theorem symshape_eval_eq_concr (v : String → Nat) (s : SShape) (h : Adm v s) :
    s.map (·.eval v) = (concr v s).map (fun (n : Nat) => (n : Int)) :=
  evalS_eq_of_adm v s h

/-- elementwise operations / `get_shape_after_broadcasting`, any number of operands
    of any ranks: NumPy broadcasts the concrete shapes to the concrete result -/
theorem symshape_broadcast_sound (shapes : List SShape) (ds : SShape)
    (h : Sym.broadcast shapes = some ds) (v : String → Nat) (hadm : ∀ s ∈ shapes, Adm v s) :
    npBroadcast (shapes.map (concr v)) = some (concr v ds) ∧ Adm v ds :=
  broadcast_sound shapes ds h v hadm

/-- `pt.where(c, x, y)`: broadcast of the three operands -/
theorem symshape_where_sound (c x y ds : SShape) (h : Sym.where_ c x y = some ds) (v : String → Nat)
    (hc : Adm v c) (hx : Adm v x) (hy : Adm v y) :
    npBroadcast [concr v c, concr v x, concr v y] = some (concr v ds) ∧ Adm v ds := by
  have := broadcast_sound [c, x, y] ds h v (by
    intro s hs
    simp only [List.mem_cons, List.not_mem_nil, or_false] at hs
    rcases hs with rfl | rfl | rfl <;> assumption)
  simpa using this

/-- the two-operand, one-axis decision is taken exactly when the lengths are equal
    for all valuations or one of them is 1 for all valuations -/
theorem symshape_broadcast_axis_accepts_iff (a b : AExpr) :
    (Sym.axisLenSym a [b]).isSome = true ↔
      (∀ v : String → Nat, b.eval v = a.eval v) ∨ (∀ v : String → Nat, b.eval v = 1)
        ∨ (∀ v : String → Nat, a.eval v = 1) := by
  have e1 := affEq_iff b a
  have e2 : isOne b = true ↔ ∀ v : String → Nat, b.eval v = 1 := by
    unfold isOne; rw [affEq_iff]; simp [AExpr.eval]
  have e3 : isOne a = true ↔ ∀ v : String → Nat, a.eval v = 1 := by
    unfold isOne; rw [affEq_iff]; simp [AExpr.eval]
  simp only [axisLenSym]
  by_cases h1 : affEq b a = true
  · simp [h1, e1.mp h1]
  · by_cases h2 : isOne b = true
    · simp [h2, e2.mp h2]
    · by_cases h3 : isOne a = true
      · simp [h1, h2, h3, e3.mp h3]
      · simp only [h1, h2, h3, Bool.or_self, Bool.false_eq_true, if_false, Option.isSome_none, false_iff,
          not_or]
        exact ⟨fun h => h1 (e1.mpr h), fun h => h2 (e2.mpr h), fun h => h3 (e3.mpr h)⟩

/-- COMPLETENESS of the broadcasting decision, stated correctly: two symbolic
    lengths are merged EXACTLY when NumPy can merge them at EVERY valuation.
    (Not: "at the valuations where it happens to work" — `n` vs `2` is refused
    although NumPy accepts at `n = 1` and `n = 2`.)  The direction ⇐ is the
    covering argument of PtProofs/C16Cover.lean: finitely many affine forms, none
    identically zero, have a common non-root among the non-negative valuations. -/
theorem symshape_broadcast_pair_accepts_iff (a b : AExpr) :
    (Sym.axisLenSym a [b]).isSome = true ↔
      ∀ v : String → Nat, b.eval v = a.eval v ∨ b.eval v = 1 ∨ a.eval v = 1 := by
  rw [symshape_broadcast_axis_accepts_iff]
  constructor
  · rintro (h | h | h) v
    · exact Or.inl (h v)
    · exact Or.inr (Or.inl (h v))
    · exact Or.inr (Or.inr (h v))
  · exact bcast_cover a b

/-- … and for any number of operands on one axis: if at every valuation the
    lengths are compatible for NumPy (any two are equal or one of them is 1), the
    fold `_get_result_axis_length` accepts -/
theorem symshape_broadcast_axis_complete (cur : AExpr) (rest : List AExpr)
    (H : ∀ v : String → Nat, IntCompat ((cur :: rest).map (·.eval v))) :
    (Sym.axisLenSym cur rest).isSome = true :=
  axisLenSym_complete rest cur H

/-- transpose / axis permutation -/
theorem symshape_transpose_sound (s ds : SShape) (perm : List Nat) (h : Sym.transpose s perm = some ds)
    (v : String → Nat) (hadm : Adm v s) :
    concr v ds = (Spec.transpose perm (⟨concr v s, fun _ => (0 : Nat)⟩ : Arr Nat)).shape ∧ Adm v ds :=
  transpose_sound s ds perm h v hadm

/-- roll keeps the shape -/
theorem symshape_roll_sound (s ds : SShape) (axis : Nat) (h : Sym.roll s axis = some ds) (v : String → Nat) :
    concr v ds = (Spec.roll 1 axis (⟨concr v s, fun _ => (0 : Nat)⟩ : Arr Nat)).shape ∧ axis < s.length := by
  obtain ⟨rfl, h2⟩ := roll_sound s ds axis h
  exact ⟨rfl, h2⟩

/-- stack: NumPy requires equal operand shapes; they are equal at every valuation -/
theorem symshape_stack_sound (shapes : List SShape) (axis : Nat) (ds : SShape)
    (h : Sym.stack shapes axis = some ds) (v : String → Nat) (hadm : ∀ s ∈ shapes, Adm v s) :
    Spec.npStack (shapes.map (concr v)) axis = some (concr v ds) ∧ Adm v ds :=
  stack_sound shapes axis ds h v hadm

/-- stack accepts EXACTLY when the operand shapes are equal for all valuations
    (ranks equal, lengths equal as integers) and the axis is in range -/
theorem symshape_stack_complete (s0 : SShape) (rest : List SShape) (axis : Nat) :
    (Sym.stack (s0 :: rest) axis).isSome = true ↔
      (∀ s ∈ rest, ∀ v : String → Nat, s.map (·.eval v) = s0.map (·.eval v)) ∧ axis ≤ s0.length := by
  unfold Sym.stack
  simp only
  constructor
  · intro h
    split_ifs at h with hc
    · obtain ⟨hall, hax⟩ := hc
      rw [List.all_eq_true] at hall
      exact ⟨fun s hs v => shapesEq_sound s s0 (hall s hs) v, hax⟩
    · simp at h
  · rintro ⟨hall, hax⟩
    rw [if_pos ⟨by
      rw [List.all_eq_true]
      intro s hs
      exact shapesEq_complete s s0 (hall s hs), hax⟩]
    rfl

/-- concatenate: off-axis lengths are the same expressions; on-axis lengths add up -/
theorem symshape_concat_sound (shapes : List SShape) (axis : Nat) (ds : SShape)
    (h : Sym.concat shapes axis = some ds) (v : String → Nat) (hadm : ∀ s ∈ shapes, Adm v s) :
    Spec.npConcat (shapes.map (concr v)) axis = some (concr v ds) ∧ Adm v ds :=
  concat_sound shapes axis ds h v hadm

/-- …and is NOT complete: lengths equal for all valuations but spelled differently
    are refused (the real code compares the shapes without the axis structurally) -/
theorem symshape_concat_incomplete :
    (∀ v : String → Nat, (AExpr.param "n").eval v = (AExpr.sub (.add (.param "n") (.param "m")) (.param "m")).eval v)
    ∧ (Sym.concat [[.lit 2, .param "n"], [.lit 3, .sub (.add (.param "n") (.param "m")) (.param "m")]] 0).isNone = true
    ∧ (Sym.stack [[.lit 2, .param "n"], [.lit 2, .sub (.add (.param "n") (.param "m")) (.param "m")]] 0).isSome
        = true := by
  refine ⟨fun v => by simp only [AExpr.eval]; omega, by decide, by decide⟩

/-- reductions (`sum`, `amax`, … over any axis subset / `axis=None`): the kept axes -/
theorem symshape_reduce_sound (s ds : SShape) (axes : Option (List Nat)) (h : Sym.reduce s axes = some ds)
    (v : String → Nat) (hadm : Adm v s) :
    concr v ds = Lower.maskShape false (Lower.redMask (concr v s).length axes) (concr v s) ∧ Adm v ds
    ∧ (∀ l, axes = some l → ∀ a ∈ l, a < (concr v s).length) :=
  reduce_sound s ds axes h v hadm

/-- full / zeros / ones -/
theorem symshape_full_sound (dims ds : SShape) (h : Sym.full dims = some ds) (v : String → Nat)
    (hadm : Adm v dims) :
    ds = dims ∧ ds.map (·.eval v) = (concr v dims).map (fun (n : Nat) => (n : Int)) :=
  full_sound dims ds h v hadm

/-- expand_dims: unit axes inserted at the sorted normalised positions -/
theorem symshape_expand_dims_sound (s ds : SShape) (axes : List Int) (h : Sym.expandDims s axes = some ds)
    (v : String → Nat) (hadm : Adm v s) :
    (∃ norm : List Nat, concr v ds = insertOnes 1 (sortNat norm) (concr v s) ∧
      norm = axes.map (fun ax => (if ax ≥ 0 then ax else ax + ((s.length + axes.length : Nat) : Int)).toNat))
    ∧ Adm v ds :=
  expandDims_sound s ds axes h v hadm

/-- broadcast_to -/
theorem symshape_broadcast_to_sound (s tgt ds : SShape) (h : Sym.broadcastTo s tgt = some ds)
    (v : String → Nat) :
    ds = tgt ∧ Spec.npBroadcastTo (concr v s) (concr v tgt) = some (concr v ds) :=
  broadcastTo_sound s tgt ds h v

/-- pad: the shape of `numpy.pad` (`Spec.padConst`) -/
theorem symshape_pad_sound (s ds : SShape) (widths : List (Nat × Nat)) (h : Sym.pad s widths = some ds)
    (v : String → Nat) (hadm : Adm v s) :
    concr v ds = (Spec.padConst widths [] ⟨concr v s, fun _ => .undef⟩).shape ∧ Adm v ds
    ∧ widths.length = (concr v s).length :=
  pad_sound s ds widths h v hadm

/-- einsum: the output shape is that of the einsum specification (`Spec.einsum`,
    table of axis lengths with length-1 broadcasting) on the concrete operands -/
theorem symshape_einsum_sound (descrs : List (List EAxis)) (shapes : List SShape) (nout : Nat) (ds : SShape)
    (h : Sym.einsum descrs shapes nout = some ds) (v : String → Nat) (hadm : ∀ s ∈ shapes, Adm v s) :
    concr v ds = (List.range nout).map
        (fun k => Spec.axisLen (Spec.axisLenTable descrs (shapes.map (concr v))) (.elem k))
    ∧ Adm v ds :=
  einsum_sound descrs shapes nout ds h v hadm

/-- einsum: each accepted update of the table merges two lengths that NumPy merges
    at every valuation (equal, or one of them 1) -/
theorem symshape_einsum_step_compatible (v : String → Nat) (T T' : List (EAxis × AExpr)) (ax a0 : EAxis)
    (d seen : AExpr) (hf : T.find? (·.1 == ax) = some (a0, seen)) (h : axisLenStepS T ax d = some T') :
    cd v seen = cd v d ∨ cd v d = 1 ∨ cd v seen = 1 :=
  step_compat v T T' ax a0 d seen hf h

/-- THE SLICE MECHANISM (`_normalize_slice`, `_normalized_slice_len`,
    `_is_non_negative`): whenever the sign reasoning answers, the symbolic length
    evaluated at `v` is the length CPython computes for the slice on the concrete axis -/
theorem slice_len_sym_sound (d : AExpr) (start stop : Option Int) (step : Int) (q : QExpr)
    (h : Sym.sliceLen d start stop step = .ok q) (v : String → Nat) (hd : 0 ≤ d.eval v) :
    q.eval v = cpyLen (cpyAdjust start stop step (d.eval v)) ∧ step ≠ 0 :=
  sliceLen_sound d start stop step q h v hd

/-- the cases in which the real code refuses a slice of a SYMBOLIC axis
    (`isLit d = false`, non-zero step): an explicit bound (NotImplementedError in
    `_normalize_slice`), and — exactly when the length is neither ≥ 0 for all
    valuations nor ≤ 0 for all valuations — "could not ascertain the sign" -/
theorem slice_len_sym_refusals (d : AExpr) (hd : isLit d = false) (start stop : Option Int) (step : Int)
    (hs : step ≠ 0) :
    ((start.isSome = true ∨ stop.isSome = true) →
        Sym.sliceLen d start stop step = .error .explicitBoundOnSymbolicAxis)
    ∧ (Sym.sliceLen d none none step = .error .signUnknown ↔
        ¬ (∀ v : String → Nat, 0 ≤ d.eval v) ∧ ¬ (∀ v : String → Nat, d.eval v ≤ 0)) := by
  constructor
  · intro h
    rw [sliceLen_nonlit d hd start stop step hs]
    unfold sliceLenSym
    rw [if_pos h]
  · rw [sliceLen_nonlit d hd none none step hs]
    exact sliceLenSym_signUnknown_iff d step

/-- an integer index on a (possibly symbolic) axis is accepted exactly when it is
    within the axis for all valuations -/
theorem symshape_int_index_iff (d : AExpr) (k : Int) :
    Sym.intOk d k = true ↔ ∀ v : String → Nat, -(d.eval v) ≤ k ∧ k < d.eval v :=
  intOk_iff d k

/-- basic indexing (integers and slices, one entry per axis) -/
theorem symshape_index_sound (s : SShape) (ix : List SIdx) (qs : List QExpr) (h : Sym.index s ix = .ok qs)
    (v : String → Nat) (hadm : Adm v s) :
    qs.map (·.eval v) = (Spec.basicShape (concr v s) (ix.map toB)).map (fun (n : Nat) => (n : Int))
    ∧ Spec.basicOk (concr v s) (ix.map toB) = true :=
  index_sound s ix qs h v hadm

/-! ## non-vacuity -/

def exN : AExpr := .param "n"
def exM : AExpr := .param "m"
def exOne : AExpr := .sub (.add exN (.lit 1)) exN      -- identically 1

example : (Sym.broadcast [[exN, .lit 3], [.lit 1, .lit 3], [exOne]]).map (·.map AExpr.norm)
    = some [⟨0, [("n", 1)]⟩, ⟨3, []⟩] := by decide
example : (Sym.broadcast [[exN], [exM]]).isNone = true := by decide
-- `n` vs `2`: NumPy accepts at n = 1 and n = 2 only — refused
example : (Sym.axisLenSym exN [.lit 2]).isNone = true ∧ exN.eval (fun _ => 2) = 2 := by decide
example : Adm (fun _ => 4) [exN, .lit 3] := by
  intro d hd; simp only [List.mem_cons, List.not_mem_nil, or_false] at hd
  rcases hd with rfl | rfl <;> simp [exN, AExpr.eval]
example : (Sym.stack [[exN, .lit 2], [.sub (.add exN exM) exM, .lit 2]] 1).isSome = true := by decide
example : (Sym.concat [[exN, .lit 2], [exM, .lit 2]] 0).isSome = true := by decide
example : (Sym.reduce [exN, .lit 3] (some [1])).isSome = true ∧ (Sym.reduce [exN, .lit 3] (some [0])).isNone = true := by
  decide
example : (Sym.einsum [[.elem 0, .red 0], [.red 0, .elem 1]] [[exN, .lit 3], [.lit 3, exM]] 2).isSome = true
    ∧ (Sym.einsum [[.elem 0, .red 0], [.red 0, .elem 1]] [[exN, exN], [exM, exM]] 2).isNone = true := by decide
example : (match Sym.sliceLen exN none none 2 with | .ok _ => true | .error _ => false) = true
    ∧ (match Sym.sliceLen (.sub exN (.lit 1)) none none 2 with | .error .signUnknown => true | _ => false) = true
    ∧ (match Sym.sliceLen exN (some 1) none 1 with
        | .error .explicitBoundOnSymbolicAxis => true | _ => false) = true := by decide
example : Sym.intOk (.add exN (.lit 1)) 0 = true ∧ Sym.intOk exN 0 = false := by decide
-- (n + 2 - 1) // 2 at n = 5 is the length of range(5)[::2]
example : (QExpr.fdiv (.sub (.add (.sub exN (.lit 0)) (.lit 2)) (.lit 1)) 2).eval (fun _ => 5) = 3 := by decide

end Pt

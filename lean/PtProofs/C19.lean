/-
  Property C19 — raising an index lambda to a high-level operation never
  misreads it.  `Raise.raise` models the cascade of structural matches of
  `index_lambda_to_high_level_op` (tied to the real function by the `raise`
  driver query); `Raise.hloDenote` is the NumPy meaning of the result (operands
  broadcast with `Spec.broadcastTo`).

  Casts: the real raiser drops every `TypeCast` before matching, so the theorem
  is about `dropCasts e` (for a cast-free `e` that is `e`, `dropCasts_of_noCast`);
  dtype-level effects of dropped casts are outside the exact value domain.
-/
import PtProofs.RaiseLemmas
import PtProofs.RaiseReduceLemmas
namespace Pt
open Raise

def Raise.HLO.isReduce : HLO → Bool
  | .reduce _ _ _ => true
  | _ => false

/-- Soundness of raising, for every classification except `ReduceOp`
    (`FullOp`, `BinaryOp` in both operand orders with array / scalar operands and
    broadcasting, `C99CallOp`, `ZerosLikeOp`, `WhereOp`, `LogicalNotOp`,
    `BroadcastOp`): for ANY expression, shape and environment, if the model of
    the raiser answers `h`, then NumPy's `h` applied to the identified operands
    has the index lambda's shape and, at every in-bounds index, its value. -/
theorem raise_sound (e : SExpr) (shape : Shape) (env : List (String × Arr Val)) (h : HLO)
    (hr : raise e shape (shapesOf env) = some h) (hnr : h.isReduce = false) :
    (hloDenote h shape env).shape = shape ∧
    ∀ i, inB shape i = true → (hloDenote h shape env).get i = eval (idxEnv i env) (dropCasts e) := by
  refine ⟨rfl, fun i hi => ?_⟩
  simp only [raise] at hr
  by_cases hl : isLit (dropCasts e) = true
  · rw [if_pos hl] at hr
    simp only [Option.some.injEq] at hr
    subst hr
    exact litVal_eq i env _ (Or.inl hl)
  · rw [if_neg hl] at hr
    cases h1 : tryBinary (dropCasts e) shape (shapesOf env) with
    | some h' =>
      simp only [h1, Option.orElse, Option.some.injEq] at hr; subst hr
      exact tryBinary_sound shape env i hi _ _ h1
    | none =>
    cases h2 : tryCall (dropCasts e) shape (shapesOf env) with
    | some h' =>
      simp only [h1, h2, Option.orElse, Option.some.injEq] at hr; subst hr
      exact tryCall_sound shape env i hi _ _ h2
    | none =>
    cases h3 : tryZero (dropCasts e) shape (shapesOf env) with
    | some h' =>
      simp only [h1, h2, h3, Option.orElse, Option.some.injEq] at hr; subst hr
      exact tryZero_sound shape env i hi _ _ h3
    | none =>
    cases h4 : tryWhere (dropCasts e) shape (shapesOf env) with
    | some h' =>
      simp only [h1, h2, h3, h4, Option.orElse, Option.some.injEq] at hr; subst hr
      exact tryWhere_sound shape env i hi _ _ h4
    | none =>
    cases h5 : tryNot (dropCasts e) shape (shapesOf env) with
    | some h' =>
      simp only [h1, h2, h3, h4, h5, Option.orElse, Option.some.injEq] at hr; subst hr
      exact tryNot_sound shape env i hi _ _ h5
    | none =>
    cases h6 : tryReduce e shape (shapesOf env) with
    | some h' =>
      simp only [h1, h2, h3, h4, h5, h6, Option.orElse, Option.some.injEq] at hr; subst hr
      -- `tryReduce` only produces `ReduceOp`s
      exfalso
      unfold tryReduce at h6
      split at h6
      · simp only at h6
        split at h6
        · split at h6
          · obtain ⟨axes, _, rfl⟩ := Option.map_eq_some_iff.mp h6
            simp [HLO.isReduce] at hnr
          · cases h6
        · cases h6
      · cases h6
    | none =>
      simp only [h1, h2, h3, h4, h5, h6, Option.orElse] at hr
      rw [tryBroadcast_noCasts e shape _ h hr]
      exact tryBroadcast_sound shape env i hi _ _ hr

/-- a `ReduceOp` answer can only come from the reduction stage -/
theorem raise_reduce_inv (e : SExpr) (shape : Shape) (bs : List (String × Shape)) (h : HLO)
    (hr : raise e shape bs = some h) (hred : h.isReduce = true) :
    tryReduce e shape bs = some h := by
  simp only [raise] at hr
  by_cases hl : isLit (dropCasts e) = true
  · rw [if_pos hl] at hr
    simp only [Option.some.injEq] at hr
    subst hr; simp [HLO.isReduce] at hred
  · rw [if_neg hl] at hr
    cases h1 : tryBinary (dropCasts e) shape bs with
    | some h' =>
      simp only [h1, Option.orElse, Option.some.injEq] at hr; subst hr
      exfalso
      simp only [tryBinary] at h1
      split at h1
      · split at h1
        · simp only [Option.some.injEq] at h1; subst h1; simp [HLO.isReduce] at hred
        · cases h1
      · cases h1
    | none =>
    cases h2 : tryCall (dropCasts e) shape bs with
    | some h' =>
      simp only [h1, h2, Option.orElse, Option.some.injEq] at hr; subst hr
      exfalso
      unfold tryCall at h2
      split at h2
      · split at h2
        · obtain ⟨os, _, rfl⟩ := Option.map_eq_some_iff.mp h2
          simp [HLO.isReduce] at hred
        · cases h2
      · cases h2
    | none =>
    cases h3 : tryZero (dropCasts e) shape bs with
    | some h' =>
      simp only [h1, h2, h3, Option.orElse, Option.some.injEq] at hr; subst hr
      exfalso
      unfold tryZero at h3
      split at h3
      · split at h3
        · split at h3
          · simp only [Option.some.injEq] at h3; subst h3; simp [HLO.isReduce] at hred
          · cases h3
        · cases h3
      · cases h3
    | none =>
    cases h4 : tryWhere (dropCasts e) shape bs with
    | some h' =>
      simp only [h1, h2, h3, h4, Option.orElse, Option.some.injEq] at hr; subst hr
      exfalso
      unfold tryWhere at h4
      split at h4
      · split at h4
        · simp only [Option.some.injEq] at h4; subst h4; simp [HLO.isReduce] at hred
        · cases h4
      · cases h4
    | none =>
    cases h5 : tryNot (dropCasts e) shape bs with
    | some h' =>
      simp only [h1, h2, h3, h4, h5, Option.orElse, Option.some.injEq] at hr; subst hr
      exfalso
      unfold tryNot at h5
      split at h5
      · split at h5
        · simp only [Option.some.injEq] at h5; subst h5; simp [HLO.isReduce] at hred
        · cases h5
      · cases h5
    | none =>
    cases h6 : tryReduce e shape bs with
    | some h' =>
      simp only [h1, h2, h3, h4, h5, h6, Option.orElse, Option.some.injEq] at hr; subst hr; rfl
    | none =>
      simp only [h1, h2, h3, h4, h5, h6, Option.orElse] at hr
      exfalso
      unfold tryBroadcast at hr
      split at hr
      · split at hr
        · split at hr
          · simp only [Option.some.injEq] at hr; subst hr; simp [HLO.isReduce] at hred
          · cases hr
        · cases hr
      · split at hr
        · split at hr
          · simp only [Option.some.injEq] at hr; subst hr; simp [HLO.isReduce] at hred
          · cases hr
        · cases hr
      · cases hr

/-- Soundness of raising to a `ReduceOp` (reductions over any subset of axes,
    any of the six operators), under the side conditions `reduceSideOK` that the
    real `_is_normal_reduce_expr` does not check (see `raise_reduce_misreads`):
    NumPy's reduction over the recorded axes has, at every in-bounds index, the
    value of the index lambda. -/
theorem raise_sound_reduce (e : SExpr) (shape : Shape) (env : List (String × Arr Val)) (h : HLO)
    (hr : raise e shape (shapesOf env) = some h) (hred : h.isReduce = true)
    (hside : reduceSideOK e (shapesOf env) = true) :
    ∀ i, inB shape i = true → (hloDenote h shape env).get i = eval (idxEnv i env) e :=
  fun i hi => tryReduce_sound e shape env h (raise_reduce_inv e shape _ h hr hred) hside i hi

/-! ## the real reduction check is too permissive

`_is_normal_reduce_expr` (mirrored by `normalReduceAxes`) does not check that
every reduction variable occurs exactly once in the subscript.  On hand-built
index lambdas the raiser therefore MISREADS (confirmed on the real code):
* `sum_r a[r, r]` (the trace) is raised to `ReduceOp(sum, a, {0: r, 1: r})` = the sum of all entries;
* `sum_{r0<2} sum_{r1<7} a[_0, r0]` is raised to `ReduceOp(sum, a, {1: r0})`, dropping the factor 7.
(It also does not check that every output axis is consumed, so the `ReduceOp`
may have a different shape than the index lambda.) -/

def mrA : Arr Val := Arr.ofList [2, 2] [.i 1, .i 2, .i 3, .i 4] .undef
def mrEnv : List (String × Arr Val) := [("a", mrA)]
def mrTrace : SExpr := .reduce .sum "_r0" (.int 0) (.int 2) (.sub "a" [.var "_r0", .var "_r0"])
def mrUnused : SExpr :=
  .reduce .sum "_r0" (.int 0) (.int 2)
    (.reduce .sum "_r1" (.int 0) (.int 7) (.sub "a" [.idx 0, .var "_r0"]))

theorem raise_reduce_misreads :
    (∃ h, raise mrTrace [] (shapesOf mrEnv) = some h ∧ h.isReduce = true ∧
      (hloDenote h [] mrEnv).get [] = .i 10 ∧ eval (idxEnv [] mrEnv) mrTrace = .i 5) ∧
    (∃ h, raise mrUnused [2] (shapesOf mrEnv) = some h ∧ h.isReduce = true ∧
      (hloDenote h [2] mrEnv).get [0] = .i 3 ∧ eval (idxEnv [0] mrEnv) mrUnused = .i 21) ∧
    reduceSideOK mrTrace (shapesOf mrEnv) = false ∧
    reduceSideOK mrUnused (shapesOf mrEnv) = false :=
  ⟨⟨.reduce .sum "a" [(0, "_r0"), (1, "_r0")], rfl, rfl, by decide, by decide⟩,
   ⟨.reduce .sum "a" [(1, "_r0")], rfl, rfl, by decide, by decide⟩, by decide, by decide⟩

/-! ## non-vacuity: forms the array API produces are recognised …-/

def c19X : Arr Val := Arr.ofList [2, 3] [.i 1, .i 2, .i 3, .i 4, .i 5, .i 6] .undef
def c19Y : Arr Val := Arr.ofList [3] [.i 10, .i 20, .i 30] .undef
def c19Z : Arr Val := Arr.ofList [] [.i 7] .undef
def c19Env : List (String × Arr Val) := [("_in0", c19X), ("_in1", c19Y), ("_in2", c19Z)]
def c19Bs : List (String × Shape) := [("_in0", [2, 3]), ("_in1", [3])]

-- `x - y` with broadcasting, `2 - x`, `x + z` (0-d), `where`, `logical_not`, `broadcast_to`, `full`, `sin`
example : (raise (.add (.sub "_in0" [.idx 0, .idx 1]) (.mul (.int (-1)) (.sub "_in1" [.idx 1])))
    [2, 3] c19Bs).map (·.isReduce) = some false := by decide
example : ∃ h, raise (.add (.sub "_in0" [.idx 0, .idx 1]) (.mul (.int (-1)) (.sub "_in1" [.idx 1])))
    [2, 3] (shapesOf c19Env) = some h ∧ h.isReduce = false ∧
    (hloDenote h [2, 3] c19Env).toList = [.i (-9), .i (-18), .i (-27), .i (-6), .i (-15), .i (-24)] :=
  ⟨.binary .sub (.arr "_in0") (.arr "_in1"), rfl, rfl, by decide⟩
example : ∃ h, raise (.add (.rat 2 1) (.mul (.int (-1)) (.sub "_in0" [.idx 0, .idx 1])))
    [2, 3] (shapesOf c19Env) = some h ∧ h.isReduce = false :=
  ⟨.binary .sub (.scalar (.rat 2 1)) (.arr "_in0"), rfl, rfl⟩
example : ∃ h, raise (.add (.sub "_in0" [.idx 0, .idx 1]) (.var "_in2"))
    [2, 3] (shapesOf c19Env) = some h ∧ h.isReduce = false :=
  ⟨.binary .add (.arr "_in0") (.arr "_in2"), rfl, rfl⟩
example : ∃ h, raise (.ite (.sub "_in0" [.idx 0, .idx 1]) (.nan) (.sub "_in1" [.idx 1]))
    [2, 3] (shapesOf c19Env) = some h ∧ h.isReduce = false :=
  ⟨.where_ (.arr "_in0") (.scalar .nan) (.arr "_in1"), rfl, rfl⟩
example : ∃ h, raise (.lnot (.sub "_in0" [.idx 0, .idx 1])) [2, 3] (shapesOf c19Env) = some h
    ∧ h.isReduce = false := ⟨.logicalNot "_in0", rfl, rfl⟩
example : ∃ h, raise (.sub "_in1" [.idx 1]) [2, 3] (shapesOf c19Env) = some h
    ∧ h.isReduce = false := ⟨.broadcast "_in1", rfl, rfl⟩
example : ∃ h, raise (.cast "float32" (.rat 5 2)) [2, 3] (shapesOf c19Env) = some h
    ∧ h.isReduce = false := ⟨.full (.rat 5 2), rfl, rfl⟩
example : ∃ h, raise (.call "pytato.c99.sin" [.sub "_in0" [.idx 0, .idx 1]]) [2, 3]
    (shapesOf c19Env) = some h ∧ h.isReduce = false := ⟨.call "sin" [.arr "_in0"], rfl, rfl⟩

-- reductions as the API builds them: `sum(axis=1)`, `sum()` over both axes, `amax(axis=0)`
def c19Red1 : SExpr := .reduce .sum "_r0" (.int 0) (.int 3) (.sub "_in0" [.idx 0, .var "_r0"])
def c19RedAll : SExpr :=
  .reduce .sum "_r0" (.int 0) (.int 2) (.reduce .sum "_r1" (.int 0) (.int 3)
    (.sub "_in0" [.var "_r0", .var "_r1"]))
def c19RedMax : SExpr := .reduce .max "_r0" (.int 0) (.int 2) (.sub "_in0" [.var "_r0", .idx 0])
example : (raise c19Red1 [2] (shapesOf c19Env)).map (·.isReduce) = some true
    ∧ reduceSideOK c19Red1 (shapesOf c19Env) = true
    ∧ (raise c19Red1 [2] (shapesOf c19Env)).map (fun h => (hloDenote h [2] c19Env).toList)
        = some [.i 6, .i 15] := by decide
example : (raise c19RedAll [] (shapesOf c19Env)).map (·.isReduce) = some true
    ∧ reduceSideOK c19RedAll (shapesOf c19Env) = true
    ∧ (raise c19RedAll [] (shapesOf c19Env)).map (fun h => (hloDenote h [] c19Env).toList)
        = some [.i 21] := by decide
example : (raise c19RedMax [3] (shapesOf c19Env)).map (·.isReduce) = some true
    ∧ reduceSideOK c19RedMax (shapesOf c19Env) = true
    ∧ (raise c19RedMax [3] (shapesOf c19Env)).map (fun h => (hloDenote h [3] c19Env).toList)
        = some [.i 4, .i 5, .i 6] := by decide

/-! ## … and near-misses are rejected (`raise_rejects`) -/

/-- permuted subscript, offset subscript, constant subscript, three-operand sum,
    `x + (-2)*y`, a cast operand on its own, an unknown function, a reduction
    with non-zero lower bound, a reduction over the wrong extent -/
theorem raise_rejects :
    raise (.sub "a" [.idx 1, .idx 0]) [4, 4] [("a", [4, 4])] = none ∧
    raise (.add (.sub "a" [.idx 1, .idx 0]) (.int 1)) [4, 4] [("a", [4, 4])] = none ∧
    raise (.sub "a" [.idx 0, .add (.idx 1) (.int 1)]) [4, 4] [("a", [4, 4])] = none ∧
    raise (.sub "a" [.idx 0, .int 0]) [4, 4] [("a", [4, 4])] = none ∧
    raise (.add (.add (.sub "a" [.idx 0, .idx 1]) (.sub "b" [.idx 1])) (.int 1)) [4, 4]
      [("a", [4, 4]), ("b", [4])] = none ∧
    raise (.cast "float32" (.sub "a" [.idx 0, .idx 1])) [4, 4] [("a", [4, 4])] = none ∧
    raise (.call "pytato.c99.foo" [.sub "a" [.idx 0, .idx 1]]) [4, 4] [("a", [4, 4])] = none ∧
    raise (.reduce .sum "_r0" (.int 1) (.int 4) (.sub "a" [.idx 0, .var "_r0"])) [4]
      [("a", [4, 4])] = none ∧
    raise (.reduce .sum "_r0" (.int 0) (.int 3) (.sub "a" [.idx 0, .var "_r0"])) [4]
      [("a", [4, 4])] = none := by decide

end Pt

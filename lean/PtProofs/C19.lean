/-
  Property C19 — raising an index lambda to a high-level operation never
  misreads it.  `Raise.raise` models the cascade of structural matches of
  `index_lambda_to_high_level_op` (tied to the real function by the `raise`
  driver query); `Raise.hloDenote` is the NumPy meaning of the result (operands
  broadcast with `Spec.broadcastTo`).

  Casts: the real raiser drops every `TypeCast` before matching, so the theorem
  is about `dropCasts e` (for a cast-free `e` that is `e`, `dropCasts_of_noCast`);
  dtype-level effects of dropped casts are outside the exact value domain.
-/
import PtProofs.RaiseLemmas
namespace Pt
open Raise

def Raise.HLO.isReduce : HLO → Bool
  | .reduce _ _ _ => true
  | _ => false

/-- Soundness of raising, for every classification except `ReduceOp`
    (`FullOp`, `BinaryOp` in both operand orders with array / scalar operands and
    broadcasting, `C99CallOp`, `ZerosLikeOp`, `WhereOp`, `LogicalNotOp`,
    `BroadcastOp`): for ANY expression, shape and environment, if the model of
    the raiser answers `h`, then NumPy's `h` applied to the identified operands
    has the index lambda's shape and, at every in-bounds index, its value. -/
theorem raise_sound (e : SExpr) (shape : Shape) (env : List (String × Arr Val)) (h : HLO)
    (hr : raise e shape (shapesOf env) = some h) (hnr : h.isReduce = false) :
    (hloDenote h shape env).shape = shape ∧
    ∀ i, inB shape i = true → (hloDenote h shape env).get i = eval (idxEnv i env) (dropCasts e) := by
  refine ⟨rfl, fun i hi => ?_⟩
  simp only [raise] at hr
  by_cases hl : isLit (dropCasts e) = true
  · rw [if_pos hl] at hr
    simp only [Option.some.injEq] at hr
    subst hr
    exact litVal_eq i env _ (Or.inl hl)
  · rw [if_neg hl] at hr
    cases h1 : tryBinary (dropCasts e) shape (shapesOf env) with
    | some h' =>
      simp only [h1, Option.orElse, Option.some.injEq] at hr; subst hr
      exact tryBinary_sound shape env i hi _ _ h1
    | none =>
    cases h2 : tryCall (dropCasts e) shape (shapesOf env) with
    | some h' =>
      simp only [h1, h2, Option.orElse, Option.some.injEq] at hr; subst hr
      exact tryCall_sound shape env i hi _ _ h2
    | none =>
    cases h3 : tryZero (dropCasts e) shape (shapesOf env) with
    | some h' =>
      simp only [h1, h2, h3, Option.orElse, Option.some.injEq] at hr; subst hr
      exact tryZero_sound shape env i hi _ _ h3
    | none =>
    cases h4 : tryWhere (dropCasts e) shape (shapesOf env) with
    | some h' =>
      simp only [h1, h2, h3, h4, Option.orElse, Option.some.injEq] at hr; subst hr
      exact tryWhere_sound shape env i hi _ _ h4
    | none =>
    cases h5 : tryNot (dropCasts e) shape (shapesOf env) with
    | some h' =>
      simp only [h1, h2, h3, h4, h5, Option.orElse, Option.some.injEq] at hr; subst hr
      exact tryNot_sound shape env i hi _ _ h5
    | none =>
    cases h6 : tryReduce e shape (shapesOf env) with
    | some h' =>
      simp only [h1, h2, h3, h4, h5, h6, Option.orElse, Option.some.injEq] at hr; subst hr
      -- `tryReduce` only produces `ReduceOp`s
      exfalso
      unfold tryReduce at h6
      split at h6
      · simp only at h6
        split at h6
        · split at h6
          · obtain ⟨axes, _, rfl⟩ := Option.map_eq_some_iff.mp h6
            simp [HLO.isReduce] at hnr
          · cases h6
        · cases h6
      · cases h6
    | none =>
      simp only [h1, h2, h3, h4, h5, h6, Option.orElse] at hr
      rw [tryBroadcast_noCasts e shape _ h hr]
      exact tryBroadcast_sound shape env i hi _ _ hr

/-! ## non-vacuity: forms the array API produces are recognised …-/

def exX : Arr Val := Arr.ofList [2, 3] [.i 1, .i 2, .i 3, .i 4, .i 5, .i 6] .undef
def exY : Arr Val := Arr.ofList [3] [.i 10, .i 20, .i 30] .undef
def exZ : Arr Val := Arr.ofList [] [.i 7] .undef
def exEnv : List (String × Arr Val) := [("_in0", exX), ("_in1", exY), ("_in2", exZ)]
def exBs : List (String × Shape) := [("_in0", [2, 3]), ("_in1", [3])]

-- `x - y` with broadcasting, `2 - x`, `x + z` (0-d), `where`, `logical_not`, `broadcast_to`, `full`, `sin`
example : (raise (.add (.sub "_in0" [.idx 0, .idx 1]) (.mul (.int (-1)) (.sub "_in1" [.idx 1])))
    [2, 3] exBs).map (·.isReduce) = some false := by decide
example : ∃ h, raise (.add (.sub "_in0" [.idx 0, .idx 1]) (.mul (.int (-1)) (.sub "_in1" [.idx 1])))
    [2, 3] (shapesOf exEnv) = some h ∧ h.isReduce = false ∧
    (hloDenote h [2, 3] exEnv).toList = [.i (-9), .i (-18), .i (-27), .i (-6), .i (-15), .i (-24)] :=
  ⟨.binary .sub (.arr "_in0") (.arr "_in1"), rfl, rfl, by decide⟩
example : ∃ h, raise (.add (.rat 2 1) (.mul (.int (-1)) (.sub "_in0" [.idx 0, .idx 1])))
    [2, 3] (shapesOf exEnv) = some h ∧ h.isReduce = false :=
  ⟨.binary .sub (.scalar (.rat 2 1)) (.arr "_in0"), rfl, rfl⟩
example : ∃ h, raise (.add (.sub "_in0" [.idx 0, .idx 1]) (.var "_in2"))
    [2, 3] (shapesOf exEnv) = some h ∧ h.isReduce = false :=
  ⟨.binary .add (.arr "_in0") (.arr "_in2"), rfl, rfl⟩
example : ∃ h, raise (.ite (.sub "_in0" [.idx 0, .idx 1]) (.nan) (.sub "_in1" [.idx 1]))
    [2, 3] (shapesOf exEnv) = some h ∧ h.isReduce = false :=
  ⟨.where_ (.arr "_in0") (.scalar .nan) (.arr "_in1"), rfl, rfl⟩
example : ∃ h, raise (.lnot (.sub "_in0" [.idx 0, .idx 1])) [2, 3] (shapesOf exEnv) = some h
    ∧ h.isReduce = false := ⟨.logicalNot "_in0", rfl, rfl⟩
example : ∃ h, raise (.sub "_in1" [.idx 1]) [2, 3] (shapesOf exEnv) = some h
    ∧ h.isReduce = false := ⟨.broadcast "_in1", rfl, rfl⟩
example : ∃ h, raise (.cast "float32" (.rat 5 2)) [2, 3] (shapesOf exEnv) = some h
    ∧ h.isReduce = false := ⟨.full (.rat 5 2), rfl, rfl⟩
example : ∃ h, raise (.call "pytato.c99.sin" [.sub "_in0" [.idx 0, .idx 1]]) [2, 3]
    (shapesOf exEnv) = some h ∧ h.isReduce = false := ⟨.call "sin" [.arr "_in0"], rfl, rfl⟩

/-! ## … and near-misses are rejected (`raise_rejects`) -/

/-- permuted subscript, offset subscript, constant subscript, three-operand sum,
    `x + (-2)*y`, a cast operand on its own, an unknown function, a reduction
    with non-zero lower bound, a reduction over the wrong extent -/
theorem raise_rejects :
    raise (.sub "a" [.idx 1, .idx 0]) [4, 4] [("a", [4, 4])] = none ∧
    raise (.add (.sub "a" [.idx 1, .idx 0]) (.int 1)) [4, 4] [("a", [4, 4])] = none ∧
    raise (.sub "a" [.idx 0, .add (.idx 1) (.int 1)]) [4, 4] [("a", [4, 4])] = none ∧
    raise (.sub "a" [.idx 0, .int 0]) [4, 4] [("a", [4, 4])] = none ∧
    raise (.add (.add (.sub "a" [.idx 0, .idx 1]) (.sub "b" [.idx 1])) (.int 1)) [4, 4]
      [("a", [4, 4]), ("b", [4])] = none ∧
    raise (.cast "float32" (.sub "a" [.idx 0, .idx 1])) [4, 4] [("a", [4, 4])] = none ∧
    raise (.call "pytato.c99.foo" [.sub "a" [.idx 0, .idx 1]]) [4, 4] [("a", [4, 4])] = none ∧
    raise (.reduce .sum "_r0" (.int 1) (.int 4) (.sub "a" [.idx 0, .var "_r0"])) [4]
      [("a", [4, 4])] = none ∧
    raise (.reduce .sum "_r0" (.int 0) (.int 3) (.sub "a" [.idx 0, .var "_r0"])) [4]
      [("a", [4, 4])] = none := by decide

end Pt

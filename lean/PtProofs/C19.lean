/-
  Property C19 — raising an index lambda to a high-level operation never
  misreads it.  `Raise.raise` models the cascade of structural matches of
  `index_lambda_to_high_level_op` (tied to the real function by the `raise`
  driver query); `Raise.hloDenote` is the NumPy meaning of the result (operands
  broadcast with `Spec.broadcastTo`).

  Casts: the real raiser drops every `TypeCast` before matching, so the theorem
  is about `dropCasts e` (for a cast-free `e` that is `e`, `dropCasts_of_noCast`);
  dtype-level effects of dropped casts are outside the exact value domain.
-/
import PtProofs.RaiseLemmas
import PtProofs.RaiseReduceLemmas
namespace Pt
open Raise

def Raise.HLO.isReduce : HLO → Bool
  | .reduce _ _ _ => true
  | _ => false

/-- Soundness of raising, for EVERY classification (`FullOp`, `BinaryOp` in both
    operand orders with array / scalar operands and broadcasting, `C99CallOp`,
    `ZerosLikeOp`, `WhereOp`, `LogicalNotOp`, `ReduceOp` over any axis subset and
    any of the six operators, `BroadcastOp`): for ANY expression, shape and
    environment, if the model of the raiser answers `h`, then NumPy's `h` applied
    to the identified operands has the index lambda's shape and, at every
    in-bounds index, its value.

    Fills outside the exact value domain (`pt.full(shape, nan)` — a pymbolic `NaN` node —, a
    `nan`, `±inf` or non-real complex constant; the serialiser spells them all `.nan`): they are
    classified `full .nan` like the real code's `FullOp`, and the theorem then says that the
    fill and the index lambda agree in being `undef` at every index — i.e. "not a value of the
    exact domain".  WHICH non-finite value is filled (nan vs. +inf vs. -inf, its dtype) is not
    distinguished here; that the real `FullOp.fill_value` is the constant of the expression is
    covered by the correspondence batch (the raised operation is evaluated with NumPy and
    compared, NaNs equal) and, for the emitted spelling, by C14's text comparison. -/
theorem raise_sound (e : SExpr) (shape : Shape) (env : List (String × Arr Val)) (h : HLO)
    (hr : raise e shape (shapesOf env) = some h) :
    (hloDenote h shape env).shape = shape ∧
    ∀ i, inB shape i = true → (hloDenote h shape env).get i = eval (idxEnv i env) (dropCasts e) := by
  refine ⟨rfl, fun i hi => ?_⟩
  simp only [raise] at hr
  by_cases hl : isFill (dropCasts e) = true
  · rw [if_pos hl] at hr
    simp only [Option.some.injEq] at hr
    subst hr
    exact litVal_eq i env _ (isFill_cases hl)
  · rw [if_neg hl] at hr
    cases h1 : tryBinary (dropCasts e) shape (shapesOf env) with
    | some h' =>
      simp only [h1, Option.orElse, Option.some.injEq] at hr; subst hr
      exact tryBinary_sound shape env i hi _ _ h1
    | none =>
    cases h2 : tryCall (dropCasts e) shape (shapesOf env) with
    | some h' =>
      simp only [h1, h2, Option.orElse, Option.some.injEq] at hr; subst hr
      exact tryCall_sound shape env i hi _ _ h2
    | none =>
    cases h3 : tryZero (dropCasts e) shape (shapesOf env) with
    | some h' =>
      simp only [h1, h2, h3, Option.orElse, Option.some.injEq] at hr; subst hr
      exact tryZero_sound shape env i hi _ _ h3
    | none =>
    cases h4 : tryWhere (dropCasts e) shape (shapesOf env) with
    | some h' =>
      simp only [h1, h2, h3, h4, Option.orElse, Option.some.injEq] at hr; subst hr
      exact tryWhere_sound shape env i hi _ _ h4
    | none =>
    cases h5 : tryNot (dropCasts e) shape (shapesOf env) with
    | some h' =>
      simp only [h1, h2, h3, h4, h5, Option.orElse, Option.some.injEq] at hr; subst hr
      exact tryNot_sound shape env i hi _ _ h5
    | none =>
    cases h6 : tryReduce e shape (shapesOf env) with
    | some h' =>
      simp only [h1, h2, h3, h4, h5, h6, Option.orElse, Option.some.injEq] at hr; subst hr
      rw [tryReduce_noCasts e shape env _ h6]
      exact tryReduce_sound e shape env _ h6 i hi
    | none =>
      simp only [h1, h2, h3, h4, h5, h6, Option.orElse] at hr
      rw [tryBroadcast_noCasts e shape _ h hr]
      exact tryBroadcast_sound shape env i hi _ _ hr

/-- a `ReduceOp` answer can only come from the reduction stage -/
theorem raise_reduce_inv (e : SExpr) (shape : Shape) (bs : List (String × Shape)) (h : HLO)
    (hr : raise e shape bs = some h) (hred : h.isReduce = true) :
    tryReduce e shape bs = some h := by
  simp only [raise] at hr
  by_cases hl : isFill (dropCasts e) = true
  · rw [if_pos hl] at hr
    simp only [Option.some.injEq] at hr
    subst hr; simp [HLO.isReduce] at hred
  · rw [if_neg hl] at hr
    cases h1 : tryBinary (dropCasts e) shape bs with
    | some h' =>
      simp only [h1, Option.orElse, Option.some.injEq] at hr; subst hr
      exfalso
      simp only [tryBinary] at h1
      split at h1
      · split at h1
        · simp only [Option.some.injEq] at h1; subst h1; simp [HLO.isReduce] at hred
        · cases h1
      · cases h1
    | none =>
    cases h2 : tryCall (dropCasts e) shape bs with
    | some h' =>
      simp only [h1, h2, Option.orElse, Option.some.injEq] at hr; subst hr
      exfalso
      unfold tryCall at h2
      split at h2
      · split at h2
        · obtain ⟨os, _, rfl⟩ := Option.map_eq_some_iff.mp h2
          simp [HLO.isReduce] at hred
        · cases h2
      · cases h2
    | none =>
    cases h3 : tryZero (dropCasts e) shape bs with
    | some h' =>
      simp only [h1, h2, h3, Option.orElse, Option.some.injEq] at hr; subst hr
      exfalso
      unfold tryZero at h3
      split at h3
      · split at h3
        · split at h3
          · simp only [Option.some.injEq] at h3; subst h3; simp [HLO.isReduce] at hred
          · cases h3
        · cases h3
      · cases h3
    | none =>
    cases h4 : tryWhere (dropCasts e) shape bs with
    | some h' =>
      simp only [h1, h2, h3, h4, Option.orElse, Option.some.injEq] at hr; subst hr
      exfalso
      unfold tryWhere at h4
      split at h4
      · split at h4
        · simp only [Option.some.injEq] at h4; subst h4; simp [HLO.isReduce] at hred
        · cases h4
      · cases h4
    | none =>
    cases h5 : tryNot (dropCasts e) shape bs with
    | some h' =>
      simp only [h1, h2, h3, h4, h5, Option.orElse, Option.some.injEq] at hr; subst hr
      exfalso
      unfold tryNot at h5
      split at h5
      · split at h5
        · simp only [Option.some.injEq] at h5; subst h5; simp [HLO.isReduce] at hred
        · cases h5
      · cases h5
    | none =>
    cases h6 : tryReduce e shape bs with
    | some h' =>
      simp only [h1, h2, h3, h4, h5, h6, Option.orElse, Option.some.injEq] at hr; subst hr; rfl
    | none =>
      simp only [h1, h2, h3, h4, h5, h6, Option.orElse] at hr
      exfalso
      unfold tryBroadcast at hr
      split at hr
      · split at hr
        · split at hr
          · simp only [Option.some.injEq] at hr; subst hr; simp [HLO.isReduce] at hred
          · cases hr
        · cases hr
      · split at hr
        · split at hr
          · simp only [Option.some.injEq] at hr; subst hr; simp [HLO.isReduce] at hred
          · cases hr
        · cases hr
      · cases hr

/-- the `ReduceOp` case on its own, against the expression as written (a
    recognised reduction contains no casts) -/
theorem raise_sound_reduce (e : SExpr) (shape : Shape) (env : List (String × Arr Val)) (h : HLO)
    (hr : raise e shape (shapesOf env) = some h) (hred : h.isReduce = true) :
    ∀ i, inB shape i = true → (hloDenote h shape env).get i = eval (idxEnv i env) e :=
  fun i hi => tryReduce_sound e shape env h (raise_reduce_inv e shape _ h hr hred) i hi

/-! ## the reduction check BEFORE its fix was too permissive

`tryReducePreFix` is the reduction stage as `_is_normal_reduce_expr` was before
commit 782a56d (only the per-index loop).  It MISREAD hand-built index lambdas:
* `sum_r a[r, r]` (the trace) was raised to `ReduceOp(sum, a, {0: r, 1: r})` = the sum of all entries;
* `sum_{r0<2} sum_{r1<7} a[_0, r0]` was raised to `ReduceOp(sum, a, {1: r0})`, dropping the factor 7;
* a reduction that does not consume every output axis was accepted.
The fixed check (modelled by `tryReduce`) rejects all three (`raise_rejects`). -/

def mrA : Arr Val := Arr.ofList [2, 2] [.i 1, .i 2, .i 3, .i 4] .undef
def mrEnv : List (String × Arr Val) := [("a", mrA)]
def mrTrace : SExpr := .reduce .sum "_r0" (.int 0) (.int 2) (.sub "a" [.var "_r0", .var "_r0"])
def mrUnused : SExpr :=
  .reduce .sum "_r0" (.int 0) (.int 2)
    (.reduce .sum "_r1" (.int 0) (.int 7) (.sub "a" [.idx 0, .var "_r0"]))
def mrUnconsumed : SExpr := .reduce .sum "_r0" (.int 0) (.int 2) (.sub "a" [.idx 0, .var "_r0"])

def PreFixMisreads : Prop :=
    (∃ h, tryReducePreFix mrTrace [] (shapesOf mrEnv) = some h ∧
      (hloDenote h [] mrEnv).get [] = .i 10 ∧ eval (idxEnv [] mrEnv) mrTrace = .i 5) ∧
    (∃ h, tryReducePreFix mrUnused [2] (shapesOf mrEnv) = some h ∧
      (hloDenote h [2] mrEnv).get [0] = .i 3 ∧ eval (idxEnv [0] mrEnv) mrUnused = .i 21) ∧
    (tryReducePreFix mrUnconsumed [2, 5] (shapesOf mrEnv)).isSome = true ∧
    raise mrTrace [] (shapesOf mrEnv) = none ∧
    raise mrUnused [2] (shapesOf mrEnv) = none ∧
    raise mrUnconsumed [2, 5] (shapesOf mrEnv) = none

theorem raise_reduce_prefix_misreads : PreFixMisreads :=
  ⟨⟨.reduce .sum "a" [(0, "_r0"), (1, "_r0")], rfl, by decide, by decide⟩,
   ⟨.reduce .sum "a" [(1, "_r0")], rfl, by decide, by decide⟩, by decide, by decide, by decide,
   by decide⟩

/-- (old name, kept for the harness) -/
theorem raise_reduce_misreads : PreFixMisreads := raise_reduce_prefix_misreads

/-! ## non-vacuity: forms the array API produces are recognised …-/

def c19X : Arr Val := Arr.ofList [2, 3] [.i 1, .i 2, .i 3, .i 4, .i 5, .i 6] .undef
def c19Y : Arr Val := Arr.ofList [3] [.i 10, .i 20, .i 30] .undef
def c19Z : Arr Val := Arr.ofList [] [.i 7] .undef
def c19Env : List (String × Arr Val) := [("_in0", c19X), ("_in1", c19Y), ("_in2", c19Z)]
def c19Bs : List (String × Shape) := [("_in0", [2, 3]), ("_in1", [3])]

-- `x - y` with broadcasting, `2 - x`, `x + z` (0-d), `where`, `logical_not`, `broadcast_to`, `full`, `sin`
example : (raise (.add (.sub "_in0" [.idx 0, .idx 1]) (.mul (.int (-1)) (.sub "_in1" [.idx 1])))
    [2, 3] c19Bs).map (·.isReduce) = some false := by decide
example : ∃ h, raise (.add (.sub "_in0" [.idx 0, .idx 1]) (.mul (.int (-1)) (.sub "_in1" [.idx 1])))
    [2, 3] (shapesOf c19Env) = some h ∧ h.isReduce = false ∧
    (hloDenote h [2, 3] c19Env).toList = [.i (-9), .i (-18), .i (-27), .i (-6), .i (-15), .i (-24)] :=
  ⟨.binary .sub (.arr "_in0") (.arr "_in1"), rfl, rfl, by decide⟩
example : ∃ h, raise (.add (.rat 2 1) (.mul (.int (-1)) (.sub "_in0" [.idx 0, .idx 1])))
    [2, 3] (shapesOf c19Env) = some h ∧ h.isReduce = false :=
  ⟨.binary .sub (.scalar (.rat 2 1)) (.arr "_in0"), rfl, rfl⟩
example : ∃ h, raise (.add (.sub "_in0" [.idx 0, .idx 1]) (.var "_in2"))
    [2, 3] (shapesOf c19Env) = some h ∧ h.isReduce = false :=
  ⟨.binary .add (.arr "_in0") (.arr "_in2"), rfl, rfl⟩
example : ∃ h, raise (.ite (.sub "_in0" [.idx 0, .idx 1]) (.nan) (.sub "_in1" [.idx 1]))
    [2, 3] (shapesOf c19Env) = some h ∧ h.isReduce = false :=
  ⟨.where_ (.arr "_in0") (.scalar .nan) (.arr "_in1"), rfl, rfl⟩
example : ∃ h, raise (.lnot (.sub "_in0" [.idx 0, .idx 1])) [2, 3] (shapesOf c19Env) = some h
    ∧ h.isReduce = false := ⟨.logicalNot "_in0", rfl, rfl⟩
example : ∃ h, raise (.sub "_in1" [.idx 1]) [2, 3] (shapesOf c19Env) = some h
    ∧ h.isReduce = false := ⟨.broadcast "_in1", rfl, rfl⟩
-- `pt.full(shape, nan)` / `pt.full(shape, -inf)` (also under a dtype cast): a fill, of value `undef`
example : raise .nan [2, 3] (shapesOf c19Env) = some (.full .nan) := rfl
example : raise (.cast "float32" .nan) [] [] = some (.full .nan) := rfl
example : (hloDenote (.full .nan) [2, 3] c19Env).get [1, 2] = .undef := by decide
example : ∃ h, raise (.cast "float32" (.rat 5 2)) [2, 3] (shapesOf c19Env) = some h
    ∧ h.isReduce = false := ⟨.full (.rat 5 2), rfl, rfl⟩
example : ∃ h, raise (.call "pytato.c99.sin" [.sub "_in0" [.idx 0, .idx 1]]) [2, 3]
    (shapesOf c19Env) = some h ∧ h.isReduce = false := ⟨.call "sin" [.arr "_in0"], rfl, rfl⟩

-- reductions as the API builds them: `sum(axis=1)`, `sum()` over both axes, `amax(axis=0)`
def c19Red1 : SExpr := .reduce .sum "_r0" (.int 0) (.int 3) (.sub "_in0" [.idx 0, .var "_r0"])
def c19RedAll : SExpr :=
  .reduce .sum "_r0" (.int 0) (.int 2) (.reduce .sum "_r1" (.int 0) (.int 3)
    (.sub "_in0" [.var "_r0", .var "_r1"]))
def c19RedMax : SExpr := .reduce .max "_r0" (.int 0) (.int 2) (.sub "_in0" [.var "_r0", .idx 0])
example : (raise c19Red1 [2] (shapesOf c19Env)).map (·.isReduce) = some true
    ∧ (raise c19Red1 [2] (shapesOf c19Env)).map (fun h => (hloDenote h [2] c19Env).toList)
        = some [.i 6, .i 15] := by decide
example : (raise c19RedAll [] (shapesOf c19Env)).map (·.isReduce) = some true
    ∧ (raise c19RedAll [] (shapesOf c19Env)).map (fun h => (hloDenote h [] c19Env).toList)
        = some [.i 21] := by decide
example : (raise c19RedMax [3] (shapesOf c19Env)).map (·.isReduce) = some true
    ∧ (raise c19RedMax [3] (shapesOf c19Env)).map (fun h => (hloDenote h [3] c19Env).toList)
        = some [.i 4, .i 5, .i 6] := by decide

/-! ## … and near-misses are rejected (`raise_rejects`) -/

/-- permuted subscript, offset subscript, constant subscript, three-operand sum,
    a cast operand on its own, an unknown function, a reduction with non-zero
    lower bound, a reduction over the wrong extent, the trace `sum_r a[r, r]`,
    a reduction variable that does not index the operand, a reduction that
    leaves an output axis unconsumed, a subscript with too few indices -/
theorem raise_rejects :
    raise (.sub "a" [.idx 1, .idx 0]) [4, 4] [("a", [4, 4])] = none ∧
    raise (.add (.sub "a" [.idx 1, .idx 0]) (.int 1)) [4, 4] [("a", [4, 4])] = none ∧
    raise (.sub "a" [.idx 0, .add (.idx 1) (.int 1)]) [4, 4] [("a", [4, 4])] = none ∧
    raise (.sub "a" [.idx 0, .int 0]) [4, 4] [("a", [4, 4])] = none ∧
    raise (.add (.add (.sub "a" [.idx 0, .idx 1]) (.sub "b" [.idx 1])) (.int 1)) [4, 4]
      [("a", [4, 4]), ("b", [4])] = none ∧
    raise (.cast "float32" (.sub "a" [.idx 0, .idx 1])) [4, 4] [("a", [4, 4])] = none ∧
    raise (.call "pytato.c99.foo" [.sub "a" [.idx 0, .idx 1]]) [4, 4] [("a", [4, 4])] = none ∧
    raise (.reduce .sum "_r0" (.int 1) (.int 4) (.sub "a" [.idx 0, .var "_r0"])) [4]
      [("a", [4, 4])] = none ∧
    raise (.reduce .sum "_r0" (.int 0) (.int 3) (.sub "a" [.idx 0, .var "_r0"])) [4]
      [("a", [4, 4])] = none ∧
    raise (.reduce .sum "_r0" (.int 0) (.int 4) (.sub "a" [.var "_r0", .var "_r0"])) []
      [("a", [4, 4])] = none ∧
    raise (.reduce .sum "_r0" (.int 0) (.int 4) (.reduce .sum "_r1" (.int 0) (.int 7)
      (.sub "a" [.idx 0, .var "_r0"]))) [4] [("a", [4, 4])] = none ∧
    raise (.reduce .sum "_r0" (.int 0) (.int 4) (.sub "a" [.idx 0, .var "_r0"])) [4, 5]
      [("a", [4, 4])] = none ∧
    raise (.reduce .sum "_r0" (.int 0) (.int 4) (.sub "a" [.var "_r0"])) []
      [("a", [4, 4])] = none := by decide

end Pt

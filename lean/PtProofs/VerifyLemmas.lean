/-
  The model of `verify_distributed_partition` (PtModel.Verify) is exact for its specification:
  a class is listed iff the clause it names is violated; nothing is listed iff the partition is
  acceptable.
-/
import PtProofs.DistGraph
import PtModel.Verify
namespace Pt.Dist

variable (P : Partition) (pin : PinOf)

/-- the part graph admits a ranking (no cycle among parts) -/
def VAcyclic : Prop :=
  ∃ lvl : Nat × Nat → Nat, ∀ n ∈ partNodes P, ∀ d ∈ vPartDeps P pin n, lvl d < lvl n

/-- every dependency of a part is a part (needed pids exist) -/
def VDepsAreParts : Prop := ∀ n ∈ partNodes P, ∀ d ∈ vPartDeps P pin n, d ∈ partNodes P

/-- what each diagnostic class of verify speaks about -/
def VViolates : VDiag → Prop
  | .assertion => vAssertionsHold P pin = false
  | .dupSend => ¬ (vSendIds P).Nodup
  | .dupRecv => ¬ (vRecvIds P).Nodup
  | .missingSend => ∃ c ∈ vRecvIds P, c ∉ vSendIds P
  | .missingRecv => ∃ c ∈ vSendIds P, c ∉ vRecvIds P
  | .cycle => vCyclic P pin = true

theorem mem_ite_nil_singleton {c : Prop} [Decidable c] {d e : VDiag} :
    d ∈ (if c then [] else [e]) ↔ ¬ c ∧ d = e := by
  by_cases hc : c <;> simp [hc]

theorem mem_ite_singleton_nil {c : Prop} [Decidable c] {d e : VDiag} :
    d ∈ (if c then [e] else []) ↔ c ∧ d = e := by
  by_cases hc : c <;> simp [hc]

theorem all_contains_iff {l m : List CommId} :
    (l.all fun c => m.contains c) = true ↔ ∀ c ∈ l, c ∈ m := by
  rw [List.all_eq_true]
  constructor
  · intro h c hc; exact List.contains_iff_mem.1 (h c hc)
  · intro h c hc; exact List.contains_iff_mem.2 (h c hc)

/-- **exactness per class**: a class is reported iff its clause is violated -/
theorem verifyViolated_exact {d : VDiag} : d ∈ verifyViolated P pin ↔ VViolates P pin d := by
  unfold verifyViolated
  cases d <;>
    simp only [List.mem_append, mem_ite_nil_singleton, mem_ite_singleton_nil, reduceCtorEq, and_false,
      and_true, or_false, false_or, VViolates]
  · cases vAssertionsHold P pin <;> simp
  · simp
  · simp
  · rw [all_contains_iff]
    constructor
    · intro h
      apply Classical.byContradiction
      intro hn
      apply h
      intro c hc
      apply Classical.byContradiction
      intro hcn
      exact hn ⟨c, hc, hcn⟩
    · rintro ⟨c, hc, hcn⟩ h; exact hcn (h c hc)
  · rw [all_contains_iff]
    constructor
    · intro h
      apply Classical.byContradiction
      intro hn
      apply h
      intro c hc
      apply Classical.byContradiction
      intro hcn
      exact hn ⟨c, hc, hcn⟩
    · rintro ⟨c, hc, hcn⟩ h; exact hcn (h c hc)

/-- the executable cycle test is sound for `VAcyclic`, and complete when needed pids exist -/
theorem vCyclic_false_acyclic (h : vCyclic P pin = false) : VAcyclic P pin := by
  unfold vCyclic at h
  have h' : acyclicB (partNodes P) (vPartDeps P pin) = true := by
    cases hb : acyclicB (partNodes P) (vPartDeps P pin) with
    | true => rfl
    | false => simp [hb] at h
  exact acyclicB_sound _ _ h'

theorem vAcyclic_not_cyclic (hd : VDepsAreParts P pin) (h : VAcyclic P pin) : vCyclic P pin = false := by
  obtain ⟨lvl, hl⟩ := h
  unfold vCyclic
  rw [acyclicB_complete (partNodes P) (vPartDeps P pin) lvl]
  · rfl
  · intro n hn d hdm; exact ⟨hd n hn d hdm, hl n hn d hdm⟩

/-- what verify must accept -/
structure VerifyOK : Prop where
  assertions : vAssertionsHold P pin = true
  sendsNodup : (vSendIds P).Nodup
  recvsNodup : (vRecvIds P).Nodup
  recvHasSend : ∀ c ∈ vRecvIds P, c ∈ vSendIds P
  sendHasRecv : ∀ c ∈ vSendIds P, c ∈ vRecvIds P
  acyclic : VAcyclic P pin

/-- **sound**: an acceptable partition gets no diagnostic (needed pids exist) -/
theorem verify_model_sound (hd : VDepsAreParts P pin) (h : VerifyOK P pin) : verifyViolated P pin = [] := by
  apply List.eq_nil_iff_forall_not_mem.2
  intro d hdm
  have hv := (verifyViolated_exact P pin).1 hdm
  cases d
  · simp [VViolates, h.assertions] at hv
  · exact hv h.sendsNodup
  · exact hv h.recvsNodup
  · obtain ⟨c, hc, hcn⟩ := hv; exact hcn (h.recvHasSend c hc)
  · obtain ⟨c, hc, hcn⟩ := hv; exact hcn (h.sendHasRecv c hc)
  · simp [VViolates, vAcyclic_not_cyclic P pin hd h.acyclic] at hv

/-- **complete**: a partition that gets no diagnostic is acceptable -/
theorem verify_model_complete (h : verifyViolated P pin = []) : VerifyOK P pin := by
  have hno : ∀ d, ¬ VViolates P pin d := by
    intro d hv
    have := (verifyViolated_exact P pin).2 hv
    rw [h] at this; cases this
  refine ⟨?_, ?_, ?_, ?_, ?_, ?_⟩
  · cases hb : vAssertionsHold P pin with
    | true => rfl
    | false => exact absurd hb (hno .assertion)
  · exact Classical.not_not.1 (hno .dupSend)
  · exact Classical.not_not.1 (hno .dupRecv)
  · intro c hc
    apply Classical.byContradiction
    intro hcn; exact hno .missingSend ⟨c, hc, hcn⟩
  · intro c hc
    apply Classical.byContradiction
    intro hcn; exact hno .missingRecv ⟨c, hc, hcn⟩
  · apply vCyclic_false_acyclic
    cases hb : vCyclic P pin with
    | false => rfl
    | true => exact absurd hb (hno .cycle)

end Pt.Dist

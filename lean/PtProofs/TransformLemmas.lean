/-
  Lemmas about the transformation model `runTransform` (core Lean only).
-/
import PtModel.Mapper
import PtProofs.MapperLemmas
import PtProofs.AnalysisLemmas
namespace Pt

section T
variable {sel : String → String → Bool} {relabel : NodeData → NodeData}

theorem tstep_cases (s : TState) (i : Nat) :
    (∃ j, tstep sel relabel s i = { s with map := (i, j) :: s.map })
    ∨ tstep sel relabel s i = { s with map := (i, i) :: s.map, seen := i :: s.seen }
    ∨ tstep sel relabel s i =
        { heap := s.heap.push (candidate sel relabel s i),
          map := (i, s.heap.size) :: s.map, seen := s.heap.size :: s.seen } := by
  unfold tstep
  split
  · exact Or.inl ⟨_, rfl⟩
  · split
    · exact Or.inr (Or.inl rfl)
    · exact Or.inr (Or.inr rfl)

theorem tstep_keys (s : TState) (i : Nat) :
    (tstep sel relabel s i).map.map (·.1) = i :: s.map.map (·.1) := by
  rcases tstep_cases (sel := sel) (relabel := relabel) s i with ⟨j, h⟩ | h | h <;> rw [h] <;> rfl

theorem tstep_size (s : TState) (i : Nat) :
    s.heap.size ≤ (tstep sel relabel s i).heap.size
      ∧ (tstep sel relabel s i).heap.size ≤ s.heap.size + 1 := by
  rcases tstep_cases (sel := sel) (relabel := relabel) s i with ⟨j, h⟩ | h | h <;> rw [h] <;> simp

theorem tstep_prefix (s : TState) (i k : Nat) (hk : k < s.heap.size) :
    (tstep sel relabel s i).heap[k]? = s.heap[k]? := by
  rcases tstep_cases (sel := sel) (relabel := relabel) s i with ⟨j, h⟩ | h | h <;> rw [h]
  simp [Array.getElem?_push, Nat.ne_of_lt hk]

theorem fold_keys : ∀ (l : List Nat) (s : TState),
    (l.foldl (tstep sel relabel) s).map.map (·.1) = l.reverse ++ s.map.map (·.1)
  | [], _ => by simp
  | a :: r, s => by
    rw [List.foldl_cons, fold_keys r, tstep_keys]
    simp

theorem fold_size : ∀ (l : List Nat) (s : TState),
    s.heap.size ≤ (l.foldl (tstep sel relabel) s).heap.size
      ∧ (l.foldl (tstep sel relabel) s).heap.size ≤ s.heap.size + l.length
  | [], _ => by simp
  | a :: r, s => by
    rw [List.foldl_cons]
    have h1 := fold_size r (tstep sel relabel s a)
    have h2 := tstep_size (sel := sel) (relabel := relabel) s a
    simp only [List.length_cons]
    omega

theorem fold_prefix : ∀ (l : List Nat) (s : TState) (k : Nat), k < s.heap.size →
    (l.foldl (tstep sel relabel) s).heap[k]? = s.heap[k]?
  | [], _, _, _ => rfl
  | a :: r, s, k, hk => by
    rw [List.foldl_cons]
    have h2 := tstep_size (sel := sel) (relabel := relabel) s a
    rw [fold_prefix r _ k (by omega), tstep_prefix s a k hk]

end T

/-! ## the identity transformation -/

theorem sameNode_refl (a : NodeData) : sameNode a a = true := by
  simp [sameNode]

theorem image_mem {s : TState} {k j : Nat} (h : s.image k = some j) : (k, j) ∈ s.map := by
  unfold TState.image at h
  obtain ⟨p, hp, rfl⟩ := Option.map_eq_some_iff.1 h
  have h1 := List.mem_of_find?_eq_some hp
  have h2 := List.find?_some hp
  have : p.1 = k := by simpa using h2
  subst this
  exact h1

theorem image_of_diag {s : TState} {i : Nat} (hd : ∀ p, p ∈ s.map → p.1 = p.2)
    (hi : (i, i) ∈ s.map) : s.image i = some i := by
  unfold TState.image
  have hsome : (s.map.find? fun p => p.1 == i).isSome = true :=
    List.find?_isSome.2 ⟨(i, i), hi, by simp⟩
  obtain ⟨p, hp⟩ := Option.isSome_iff_exists.1 hsome
  rw [hp]
  have h1 := List.mem_of_find?_eq_some hp
  have h2 : p.1 = i := by simpa using List.find?_some hp
  simp only [Option.map_some, Option.some.injEq]
  rw [← hd p h1, h2]

/-- no two distinct listed nodes are structurally equal -/
def DupFreeOn (h : Heap) (l : List Nat) : Prop :=
  ∀ a, a ∈ l → ∀ b, b ∈ l → sameNode (h.node a) (h.node b) = true → a = b

/-- invariant of the identity transformation after the nodes `done` -/
structure IdInv (h : Heap) (s : TState) (done : List Nat) : Prop where
  heap : s.heap = h
  diag : ∀ p, p ∈ s.map → p.1 = p.2
  mapDone : ∀ p, p ∈ s.map → p.1 ∈ done
  doneMap : ∀ i, i ∈ done → (i, i) ∈ s.map
  seenDone : ∀ j, j ∈ s.seen → j ∈ done

theorem mapKids_id {sel : String → String → Bool} {s : TState} (nd : NodeData)
    (hd : ∀ p, p ∈ s.map → p.1 = p.2) : mapKids sel s nd = nd.kids := by
  unfold mapKids
  conv => rhs; rw [← List.map_id nd.kids]
  apply List.map_congr_left
  intro e _
  split
  · split
    · rename_i j hj
      have := hd _ (image_mem hj)
      simp only at this
      rw [← this]
      rfl
    · rfl
  · rfl

theorem candidate_id {sel : String → String → Bool} {s : TState} (i : Nat)
    (hd : ∀ p, p ∈ s.map → p.1 = p.2) : candidate sel relabelId s i = s.heap.node i := by
  unfold candidate relabelId
  rw [mapKids_id _ hd]

theorem tstep_id {sel : String → String → Bool} {h : Heap} {s : TState} {done : List Nat}
    (i : Nat) (hinv : IdInv h s done) (hi : i ∉ done)
    (hdf : DupFreeOn h (i :: done)) :
    tstep sel relabelId s i = { s with map := (i, i) :: s.map, seen := i :: s.seen } := by
  unfold tstep
  rw [candidate_id i hinv.diag]
  have hnone : (s.seen.find? fun j => sameNode (s.heap.node j) (s.heap.node i)) = none := by
    apply List.find?_eq_none.2
    intro j hj hsame
    have hjd := hinv.seenDone j hj
    rw [hinv.heap] at hsame
    have := hdf j (List.mem_cons_of_mem _ hjd) i List.mem_cons_self (by simpa using hsame)
    exact hi (this ▸ hjd)
  rw [hnone]
  simp [sameNode_refl]

theorem tstep_id_inv {sel : String → String → Bool} {h : Heap} {s : TState} {done : List Nat}
    (i : Nat) (hinv : IdInv h s done) (hi : i ∉ done) (hdf : DupFreeOn h (i :: done)) :
    IdInv h (tstep sel relabelId s i) (done ++ [i]) := by
  rw [tstep_id i hinv hi hdf]
  refine ⟨hinv.heap, ?_, ?_, ?_, ?_⟩
  · intro p hp
    rcases List.mem_cons.1 hp with rfl | hp
    · rfl
    · exact hinv.diag p hp
  · intro p hp
    rcases List.mem_cons.1 hp with rfl | hp
    · simp
    · exact List.mem_append_left _ (hinv.mapDone p hp)
  · intro k hk
    rcases List.mem_append.1 hk with hk | hk
    · exact List.mem_cons_of_mem _ (hinv.doneMap k hk)
    · simp only [List.mem_singleton] at hk
      subst hk
      exact List.mem_cons_self
  · intro j hj
    rcases List.mem_cons.1 hj with rfl | hj
    · simp
    · exact List.mem_append_left _ (hinv.seenDone j hj)

theorem fold_id_inv {sel : String → String → Bool} {h : Heap} :
    ∀ (rest done : List Nat) (s : TState), IdInv h s done → (done ++ rest).Nodup →
      DupFreeOn h (done ++ rest) → IdInv h (rest.foldl (tstep sel relabelId) s) (done ++ rest)
  | [], done, s, hinv, _, _ => by simpa using hinv
  | i :: rest, done, s, hinv, hn, hdf => by
    rw [List.foldl_cons]
    have hi : i ∉ done := by
      intro hmem
      have := (List.nodup_append.1 hn).2.2 i hmem i List.mem_cons_self
      exact this rfl
    have hdf' : DupFreeOn h (i :: done) := by
      intro a ha b hb
      apply hdf a _ b _
      · rcases List.mem_cons.1 ha with rfl | ha
        · simp
        · exact List.mem_append_left _ ha
      · rcases List.mem_cons.1 hb with rfl | hb
        · simp
        · exact List.mem_append_left _ hb
    have := fold_id_inv (sel := sel) rest (done ++ [i]) (tstep sel relabelId s i)
      (tstep_id_inv (sel := sel) i hinv hi hdf')
      (by simpa using hn) (by simpa using hdf)
    simpa using this

end Pt

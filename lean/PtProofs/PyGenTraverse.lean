/-
  C14: the traversal — running the emitted statements in order binds every emitted name to the
  value of its node (core Lean only).
-/
import PtProofs.PyGenStmtLemmas
namespace Pt
namespace Py

/-! ## running statement lists -/

def runLines : PEnv → List PyStmt → Option PEnv
  | env, [] => some env
  | env, .assign l r :: rest =>
    (match pyEval env r with
     | some v => runLines ((l, v) :: env) rest
     | none => none)
  | _, .ret _ :: _ => none

/-- the statements latest-first, as the emitter keeps them -/
def execRev (env0 : PEnv) : List PyStmt → Option PEnv
  | [] => some env0
  | .assign l r :: older =>
    (match execRev env0 older with
     | some env => (match pyEval env r with | some v => some ((l, v) :: env) | none => none)
     | none => none)
  | .ret _ :: _ => none

theorem runLines_snoc : ∀ (ls : List PyStmt) (env : PEnv) (l : String) (r : PyExpr),
    runLines env (ls ++ [.assign l r]) =
      (match runLines env ls with
       | some e => (match pyEval e r with | some v => some ((l, v) :: e) | none => none)
       | none => none)
  | [], env, l, r => by
    simp only [List.nil_append, runLines]
  | .assign l' r' :: rest, env, l, r => by
    simp only [List.cons_append, runLines]
    cases pyEval env r' with
    | none => rfl
    | some v => exact runLines_snoc rest _ l r
  | .ret _ :: rest, env, l, r => by simp [runLines]

theorem runLines_reverse (env0 : PEnv) : ∀ (lines : List PyStmt),
    runLines env0 lines.reverse = execRev env0 lines
  | [] => rfl
  | .assign l r :: older => by
    simp only [List.reverse_cons, runLines_snoc, runLines_reverse env0 older, execRev]
  | .ret n :: older => by
    simp only [List.reverse_cons, execRev]
    generalize older.reverse = xs
    induction xs generalizing env0 with
    | nil => rfl
    | cons s r ih =>
      cases s with
      | assign l e =>
        simp only [List.cons_append, runLines]
        cases pyEval env0 e with
        | none => rfl
        | some v => exact ih _
      | ret m => rfl

theorem runBody_ret : ∀ (ls : List PyStmt) (env env' : PEnv) (n : String),
    runLines env ls = some env' → runBody env (ls ++ [.ret n]) = env'.get? n
  | [], env, env', n, h => by
    simp only [runLines, Option.some.injEq] at h
    subst h
    rfl
  | .assign l r :: rest, env, env', n, h => by
    simp only [runLines] at h
    simp only [List.cons_append, runBody]
    cases hv : pyEval env r with
    | none => simp [hv] at h
    | some v =>
      simp only [hv] at h ⊢
      exact runBody_ret rest _ env' n h
  | .ret _ :: _, _, _, _, h => by simp [runLines] at h

theorem runBody_of_execRev {env0 env : PEnv} {lines : List PyStmt} (h : execRev env0 lines = some env)
    (n : String) : runBody env0 (lines.reverse ++ [.ret n]) = env.get? n :=
  runBody_ret _ _ _ n (by rw [runLines_reverse, h])

/-! ## generated names -/

theorem searchFrom_shape (existing : List String) (p : String) :
    ∀ fuel k c n, searchFrom existing p fuel k = some (c, n) → ∃ j, n = numbered p j
  | 0, _, _, _, h => by simp [searchFrom] at h
  | fuel + 1, k, c, n, h => by
    unfold searchFrom at h
    split at h
    · exact searchFrom_shape existing p fuel (k + 1) c n h
    · cases h
      exact ⟨k, rfl⟩

theorem gen_shape {ng ng' : NameGen} {b n : String} (hs : splitCounter b = none)
    (h : ng.gen b = some (n, ng')) : n = b ∨ ∃ j, n = numbered b j := by
  unfold NameGen.gen at h
  simp only [Option.map_eq_some_iff] at h
  obtain ⟨⟨c, name⟩, hfound, hres⟩ := h
  simp only [Prod.mk.injEq] at hres
  obtain ⟨rfl, _⟩ := hres
  have hr : (ng.resolve b).1 = b := by
    unfold NameGen.resolve
    cases ng.counter? b with
    | some c => rfl
    | none => simp [hs]
  rw [hr] at hfound
  cases hc : (ng.resolve b).2 with
  | none =>
    rw [hc] at hfound
    simp only [findName] at hfound
    split at hfound
    · exact Or.inr (searchFrom_shape _ _ _ _ _ _ hfound)
    · cases hfound
      exact Or.inl rfl
  | some c0 =>
    rw [hc] at hfound
    exact Or.inr (searchFrom_shape _ _ _ _ _ _ hfound)

/-- a temporary / data name starts with an underscore -/
theorem gen_head {ng ng' : NameGen} {b n : String} (hb : b = "_pt_tmp" ∨ b = "_pt_data")
    (h : ng.gen b = some (n, ng')) : n.toList.head? = some '_' := by
  rcases hb with rfl | rfl
  · rcases gen_shape (by decide) h with rfl | ⟨j, rfl⟩
    · decide
    · simp [numbered, String.toList_append]
  · rcases gen_shape (by decide) h with rfl | ⟨j, rfl⟩
    · decide
    · simp [numbered, String.toList_append]

theorem clean_cons {env : PEnv} (hc : CleanEnv env) {l : String} (v : PyVal)
    (hh : l.toList.head? = some '_') (hne : l ≠ "_pt_np") : CleanEnv ((l, v) :: env) := by
  have h1 : l ≠ "np" := fun h => by subst h; simp at hh
  have h2 : l ≠ "float" := fun h => by subst h; simp at hh
  have h3 : l ≠ "complex" := fun h => by subst h; simp at hh
  exact ⟨by rw [PEnv.get?_cons, if_neg hne]; exact hc.ptnp,
    by rw [PEnv.get?_cons, if_neg h1]; exact hc.np,
    by rw [PEnv.get?_cons, if_neg h2]; exact hc.float,
    by rw [PEnv.get?_cons, if_neg h3]; exact hc.complex⟩

/-! ## the traversal: inversion -/

theorem St.fresh_ok {st st1 : St} {b n : String} (h : st.fresh b = .ok (n, st1)) :
    ∃ ng', st.ng.gen b = some (n, ng') ∧ st1 = { st with ng := ng' } := by
  unfold St.fresh at h
  cases hg : st.ng.gen b with
  | none => simp [hg] at h
  | some p =>
    obtain ⟨n', g'⟩ := p
    simp only [hg, Gen.ok.injEq, Prod.mk.injEq] at h
    obtain ⟨rfl, rfl⟩ := h
    exact ⟨g', rfl, rfl⟩

theorem lookupMemo_mem {m : List (Nat × String)} {i : Nat} {n : String}
    (h : lookupMemo m i = some n) : (i, n) ∈ m := by
  unfold lookupMemo at h
  obtain ⟨p, hp, hn⟩ := Option.map_eq_some_iff.1 h
  have h1 := List.mem_of_find?_eq_some hp
  have h2 := List.find?_some hp
  obtain ⟨a, b⟩ := p
  simp only [beq_iff_eq] at h2
  simp only at hn
  subst h2 hn
  exact h1

/-- what one call of the traversal did -/
inductive Step (g : PGraph) (fuel i : Nat) (st : St) (r : String) (st' : St) : Prop
  | hit : (i, r) ∈ st.memo → st' = st → Step g fuel i st r st'
  | inputSome (name : String) : plan g i = .ok (.input (some name)) → r = name →
      st' = ({ st with args := name :: st.args } : St).memoize i name → Step g fuel i st r st'
  | inputNone (ng' : NameGen) : plan g i = .ok (.input none) → st.ng.gen "_pt_data" = some (r, ng') →
      st' = ({ st with ng := ng', args := r :: st.args } : St).memoize i r → Step g fuel i st r st'
  | pass (c : Nat) (st1 : St) : plan g i = .ok (.pass c) → emitNode g fuel c st = .ok (r, st1) →
      st' = st1.memoize i r → Step g fuel i st r st'
  | pre (kids : List Nat) (mk : List String → PyExpr) (ng1 : NameGen) (names : List String) (st2 : St) :
      plan g i = .ok (.stmt true kids mk) → st.ng.gen "_pt_tmp" = some (r, ng1) →
      recAll (emitNode g fuel) kids { st with ng := ng1 } = .ok (names, st2) →
      st' = (st2.record r (mk names)).memoize i r → Step g fuel i st r st'
  | post (kids : List Nat) (mk : List String → PyExpr) (names : List String) (st2 : St) (ng3 : NameGen) :
      plan g i = .ok (.stmt false kids mk) → recAll (emitNode g fuel) kids st = .ok (names, st2) →
      st2.ng.gen "_pt_tmp" = some (r, ng3) →
      st' = (({ st2 with ng := ng3 } : St).record r (mk names)).memoize i r → Step g fuel i st r st'

theorem emitNode_inv {g : PGraph} {fuel i : Nat} {st st' : St} {r : String}
    (h : emitNode g (fuel + 1) i st = .ok (r, st')) : Step g fuel i st r st' := by
  unfold emitNode at h
  cases hm : lookupMemo st.memo i with
  | some n =>
    simp only [hm, Gen.ok.injEq, Prod.mk.injEq] at h
    obtain ⟨rfl, rfl⟩ := h
    exact .hit (lookupMemo_mem hm) rfl
  | none =>
    simp only [hm] at h
    obtain ⟨pl, hpl, h⟩ := Gen.bind_ok.1 h
    cases pl with
    | input nm =>
      cases nm with
      | some name =>
        simp only [Gen.ok.injEq, Prod.mk.injEq] at h
        obtain ⟨rfl, rfl⟩ := h
        exact .inputSome _ hpl rfl rfl
      | none =>
        simp only at h
        obtain ⟨p, hf, h⟩ := Gen.bind_ok.1 h
        obtain ⟨n, st1⟩ := p
        obtain ⟨ng', hg, rfl⟩ := St.fresh_ok hf
        simp only [Gen.ok.injEq, Prod.mk.injEq] at h
        obtain ⟨rfl, rfl⟩ := h
        exact .inputNone ng' hpl hg rfl
    | pass c =>
      simp only at h
      obtain ⟨p, hc, h⟩ := Gen.bind_ok.1 h
      obtain ⟨n, st1⟩ := p
      simp only [Gen.ok.injEq, Prod.mk.injEq] at h
      obtain ⟨rfl, rfl⟩ := h
      exact .pass c st1 hpl hc rfl
    | stmt pre kids mk =>
      cases pre with
      | true =>
        simp only at h
        obtain ⟨p, hf, h⟩ := Gen.bind_ok.1 h
        obtain ⟨l, st1⟩ := p
        obtain ⟨ng1, hg, rfl⟩ := St.fresh_ok hf
        obtain ⟨q, hr, h⟩ := Gen.bind_ok.1 h
        obtain ⟨names, st2⟩ := q
        simp only [Gen.ok.injEq, Prod.mk.injEq] at h
        obtain ⟨rfl, rfl⟩ := h
        exact .pre kids mk ng1 names st2 hpl hg hr rfl
      | false =>
        simp only at h
        obtain ⟨q, hr, h⟩ := Gen.bind_ok.1 h
        obtain ⟨names, st2⟩ := q
        obtain ⟨p, hf, h⟩ := Gen.bind_ok.1 h
        obtain ⟨l, st3⟩ := p
        obtain ⟨ng3, hg, rfl⟩ := St.fresh_ok hf
        simp only [Gen.ok.injEq, Prod.mk.injEq] at h
        obtain ⟨rfl, rfl⟩ := h
        exact .post kids mk names st2 ng3 hpl hr hg rfl

theorem recAll_nil {rec : Nat → St → Gen (String × St)} {st st' : St} {names : List String}
    (h : recAll rec [] st = .ok (names, st')) : names = [] ∧ st' = st := by
  simp only [recAll, Gen.ok.injEq, Prod.mk.injEq] at h
  exact ⟨h.1.symm, h.2.symm⟩

theorem recAll_cons {rec : Nat → St → Gen (String × St)} {c : Nat} {cs : List Nat} {st st' : St}
    {names : List String} (h : recAll rec (c :: cs) st = .ok (names, st')) :
    ∃ n st1 ns, rec c st = .ok (n, st1) ∧ recAll rec cs st1 = .ok (ns, st') ∧ names = n :: ns := by
  simp only [recAll] at h
  obtain ⟨p, h1, h⟩ := Gen.bind_ok.1 h
  obtain ⟨n, st1⟩ := p
  obtain ⟨q, h2, h⟩ := Gen.bind_ok.1 h
  obtain ⟨ns, st2⟩ := q
  simp only [Gen.ok.injEq, Prod.mk.injEq] at h
  obtain ⟨rfl, rfl⟩ := h
  exact ⟨n, st1, ns, h1, h2, rfl⟩

/-! ## the memo only grows -/

theorem recAll_mono {g : PGraph} {fuel : Nat}
    (IH : ∀ i st r st', emitNode g fuel i st = .ok (r, st') → ∀ x ∈ st.memo, x ∈ st'.memo) :
    ∀ (kids : List Nat) (st : St) (names : List String) (st' : St),
      recAll (emitNode g fuel) kids st = .ok (names, st') → ∀ x ∈ st.memo, x ∈ st'.memo
  | [], st, names, st', h, x, hx => by
    obtain ⟨_, rfl⟩ := recAll_nil h
    exact hx
  | c :: cs, st, names, st', h, x, hx => by
    obtain ⟨n, st1, ns, h1, h2, _⟩ := recAll_cons h
    exact recAll_mono IH cs st1 ns st' h2 x (IH c st n st1 h1 x hx)

theorem emitNode_mono {g : PGraph} : ∀ (fuel i : Nat) (st : St) (r : String) (st' : St),
    emitNode g fuel i st = .ok (r, st') → ∀ x ∈ st.memo, x ∈ st'.memo
  | 0, _, _, _, _, h, _, _ => by simp [emitNode] at h
  | fuel + 1, i, st, r, st', h, x, hx => by
    cases emitNode_inv h with
    | hit _ he => subst he; exact hx
    | inputSome name _ _ he => subst he; exact List.mem_cons_of_mem _ hx
    | inputNone ng' _ _ he => subst he; exact List.mem_cons_of_mem _ hx
    | pass c st1 _ hc he =>
      subst he
      exact List.mem_cons_of_mem _ (emitNode_mono fuel c st r st1 hc x hx)
    | pre kids mk ng1 names st2 _ _ hr he =>
      subst he
      exact List.mem_cons_of_mem _ (recAll_mono (emitNode_mono fuel) kids _ names st2 hr x hx)
    | post kids mk names st2 ng3 _ hr _ he =>
      subst he
      exact List.mem_cons_of_mem _ (recAll_mono (emitNode_mono fuel) kids _ names st2 hr x hx)

/-! ## the invariant -/

section Spec
variable (g : PGraph) (inp : Nat → Option (Arr Val)) (env0 : PEnv) (E0 : List String)

/-- state of the emitter vs. the environment after running the statements emitted so far -/
structure Inv (st : St) (env : PEnv) : Prop where
  run : execRev env0 st.lines = some env
  clean : CleanEnv env
  memo : ∀ j n, (j, n) ∈ st.memo → ∃ v, denV g inp j = some v ∧ env.get? n = some v
  memoEx : ∀ j n, (j, n) ∈ st.memo → n ∈ st.ng.existing
  seeds : ∀ n ∈ E0, n ∈ st.ng.existing
  frame : ∀ n, (n ∈ E0 ∨ n ∉ st.ng.existing) → env.get? n = env0.get? n

/-- the caller binds every argument of the generated function to the input array of its node -/
def HIn (memo : List (Nat × String)) : Prop :=
  ∀ j n nm, (j, n) ∈ memo → plan g j = .ok (.input nm) → env0.get? n = (inp j).map .arr

structure Post (st st' : St) (env' : PEnv) : Prop where
  inv : Inv g inp env0 E0 st' env'
  new : ∀ j n, (j, n) ∈ st'.memo → (∃ j', (j', n) ∈ st.memo) ∨ n ∈ E0 ∨ n ∉ st.ng.existing
  exMono : ∀ n ∈ st.ng.existing, n ∈ st'.ng.existing

def Pairs : List Nat → List String → List (Nat × String) → Prop
  | [], [], _ => True
  | c :: cs, n :: ns, m => (c, n) ∈ m ∧ Pairs cs ns m
  | _, _, _ => False

variable {g inp env0 E0}

theorem Post.refl {st : St} {env : PEnv} (h : Inv g inp env0 E0 st env) : Post g inp env0 E0 st st env :=
  ⟨h, fun j n hm => Or.inl ⟨j, hm⟩, fun _ hn => hn⟩

theorem Post.trans {st st1 st2 : St} {env1 env2 : PEnv} (h1 : Post g inp env0 E0 st st1 env1)
    (h2 : Post g inp env0 E0 st1 st2 env2) : Post g inp env0 E0 st st2 env2 := by
  refine ⟨h2.inv, ?_, fun n hn => h2.exMono n (h1.exMono n hn)⟩
  intro j n hm
  rcases h2.new j n hm with ⟨j', hj'⟩ | h | h
  · exact h1.new j' n hj'
  · exact Or.inr (Or.inl h)
  · exact Or.inr (Or.inr fun hn => h (h1.exMono n hn))

theorem Pairs.mono {m m' : List (Nat × String)} (hm : ∀ x ∈ m, x ∈ m') :
    ∀ {cs : List Nat} {ns : List String}, Pairs cs ns m → Pairs cs ns m'
  | [], [], _ => trivial
  | _ :: _, _ :: _, h => ⟨hm _ h.1, Pairs.mono hm h.2⟩
  | [], _ :: _, h => h.elim
  | _ :: _, [], h => h.elim

theorem pairs_bound {st : St} {env : PEnv} (hi : Inv g inp env0 E0 st env) :
    ∀ {kids : List Nat} {names : List String}, Pairs kids names st.memo →
      (∀ c ∈ kids, notDict g c = true) → ∃ as, BoundTo env names as ∧ KidsDen g inp kids as
  | [], [], _, _ => ⟨[], trivial, trivial⟩
  | c :: cs, n :: ns, h, hnd => by
    obtain ⟨as, hb, hd⟩ := pairs_bound hi h.2 (fun c' hc' => hnd c' (List.mem_cons_of_mem _ hc'))
    obtain ⟨v, hv, hg⟩ := hi.memo c n h.1
    have hc := hnd c (by simp)
    rw [denV_arr (by intro items hitems; simp [notDict, hitems] at hc)] at hv
    obtain ⟨a, ha, rfl⟩ := Option.map_eq_some_iff.1 hv
    exact ⟨a :: as, ⟨hg, hb⟩, ⟨ha, hd⟩⟩
  | [], _ :: _, h, _ => h.elim
  | _ :: _, [], h, _ => h.elim

/-- the statement of node `i` is appended: the invariant afterwards -/
theorem Inv.assign {st2 : St} {env2 : PEnv} (h2 : Inv g inp env0 E0 st2 env2) (hE0 : "_pt_np" ∈ E0)
    {ex' : NameGen} {l : String} {rhs : PyExpr} {v : PyVal} {i : Nat}
    (hhead : l.toList.head? = some '_')
    (hl : ∀ n, (n ∈ E0 ∨ (∃ j, (j, n) ∈ st2.memo)) → n ≠ l)
    (hex : l ∈ ex'.existing ∧ ∀ n ∈ st2.ng.existing, n ∈ ex'.existing)
    (hv : denV g inp i = some v) (he : pyEval env2 rhs = some v) :
    Inv g inp env0 E0 (({ st2 with ng := ex' } : St).record l rhs |>.memoize i l) ((l, v) :: env2) := by
  have hnp : l ≠ "_pt_np" := fun h => hl "_pt_np" (Or.inl hE0) h.symm
  refine ⟨?_, clean_cons h2.clean v hhead hnp, ?_, ?_, ?_, ?_⟩
  · show execRev env0 (.assign l rhs :: st2.lines) = _
    simp only [execRev, h2.run, he]
  · intro j n hm
    simp only [St.memoize, St.record, List.mem_cons, Prod.mk.injEq] at hm
    rcases hm with ⟨rfl, rfl⟩ | hm
    · exact ⟨v, hv, by rw [PEnv.get?_cons, if_pos rfl]⟩
    · obtain ⟨w, hw1, hw2⟩ := h2.memo j n hm
      have hne : l ≠ n := fun h => hl n (Or.inr ⟨j, hm⟩) h.symm
      exact ⟨w, hw1, by rw [PEnv.get?_cons, if_neg hne]; exact hw2⟩
  · intro j n hm
    simp only [St.memoize, St.record, List.mem_cons, Prod.mk.injEq] at hm
    rcases hm with ⟨rfl, rfl⟩ | hm
    · exact hex.1
    · exact hex.2 n (h2.memoEx j n hm)
  · intro n hn
    exact hex.2 n (h2.seeds n hn)
  · intro n hn
    have hne : l ≠ n := by
      rcases hn with hn | hn
      · exact fun h => hl n (Or.inl hn) h.symm
      · exact fun h => hn (h ▸ hex.1)
    rw [PEnv.get?_cons, if_neg hne]
    apply h2.frame
    rcases hn with hn | hn
    · exact Or.inl hn
    · exact Or.inr fun h => hn (hex.2 n h)

/-! ## the traversal establishes the invariant -/

/-- the standing hypotheses of `pygen_sound` -/
structure Hyp (g : PGraph) (inp : Nat → Option (Arr Val)) (E0 : List String) : Prop where
  wf : WFG g
  rank : RankOK g inp
  shape : ShapeOK g inp
  defined : Defined g inp
  ptnp : "_pt_np" ∈ E0
  /-- the generator is seeded with the names of the inputs -/
  names : ∀ j name, plan g j = .ok (.input (some name)) → name ∈ E0

theorem suppAll_succ {g : PGraph} {fuel i : Nat} (h : suppAll g (fuel + 1) i = true) :
    suppNode g i = true ∧ ∀ c ∈ kidsOf g i, suppAll g fuel c = true := by
  simp only [suppAll, Bool.and_eq_true, List.all_eq_true] at h
  exact h

theorem suppNode_kids {g : PGraph} {i : Nat} (h : suppNode g i = true) :
    ∀ c ∈ kidsOf g i, notDict g c = true := by
  simp only [suppNode, Bool.and_eq_true, List.all_eq_true] at h
  exact h.1

def SpecAt (g : PGraph) (inp : Nat → Option (Arr Val)) (env0 : PEnv) (E0 : List String) (fuel : Nat) :
    Prop :=
  ∀ (i : Nat) (st : St) (r : String) (st' : St) (env : PEnv),
    emitNode g fuel i st = .ok (r, st') → suppAll g fuel i = true → Inv g inp env0 E0 st env →
    HIn g inp env0 st'.memo → ∃ env', Post g inp env0 E0 st st' env' ∧ (i, r) ∈ st'.memo

theorem recAll_spec {fuel : Nat} (IH : SpecAt g inp env0 E0 fuel) :
    ∀ (kids : List Nat) (st : St) (names : List String) (st' : St) (env : PEnv),
      recAll (emitNode g fuel) kids st = .ok (names, st') → (∀ c ∈ kids, suppAll g fuel c = true) →
      Inv g inp env0 E0 st env → HIn g inp env0 st'.memo →
      ∃ env', Post g inp env0 E0 st st' env' ∧ Pairs kids names st'.memo
  | [], st, names, st', env, h, _, hi, _ => by
    obtain ⟨rfl, rfl⟩ := recAll_nil h
    exact ⟨env, Post.refl hi, trivial⟩
  | c :: cs, st, names, st', env, h, hs, hi, hin => by
    obtain ⟨n, st1, ns, h1, h2, rfl⟩ := recAll_cons h
    have hmono := recAll_mono (emitNode_mono fuel) cs st1 ns st' h2
    have hin1 : HIn g inp env0 st1.memo := fun j m nm hm hp => hin j m nm (hmono _ hm) hp
    obtain ⟨env1, hp1, hm1⟩ := IH c st n st1 env h1 (hs c (by simp)) hi hin1
    obtain ⟨env', hp2, hpairs⟩ := recAll_spec IH cs st1 ns st' env1 h2
      (fun c' hc' => hs c' (List.mem_cons_of_mem _ hc')) hp1.inv hin
    exact ⟨env', hp1.trans hp2, ⟨hmono _ hm1, hpairs⟩⟩

theorem emitNode_spec (hy : Hyp g inp E0) : ∀ (fuel : Nat), SpecAt g inp env0 E0 fuel
  | 0 => by
    intro i st r st' env h
    simp [emitNode] at h
  | fuel + 1 => by
    intro i st r st' env h hsupp hi hin
    obtain ⟨hsn, hskids⟩ := suppAll_succ hsupp
    have IH : SpecAt g inp env0 E0 fuel := emitNode_spec hy fuel
    cases emitNode_inv h with
    | hit hm he =>
      subst he
      exact ⟨env, Post.refl hi, hm⟩
    | inputSome name hpl hr he =>
      subst he hr
      obtain ⟨hden, hnd, _⟩ := input_sound (inp := inp) hy.wf hpl
      have hmem : (i, r) ∈ (({ st with args := r :: st.args } : St).memoize i r).memo := by
        simp [St.memoize]
      have hE : r ∈ E0 := hy.names i r hpl
      have hget : env.get? r = (inp i).map .arr := by
        rw [hi.frame r (Or.inl hE)]
        exact hin i r _ hmem hpl
      have hsome := hy.defined i hsn hnd
      rw [← Option.isSome_map (f := PyVal.arr), ← denV_arr (by
        intro items hitems; simp [notDict, hitems] at hnd)] at hsome
      obtain ⟨v, hv⟩ := Option.isSome_iff_exists.1 hsome
      refine ⟨env, ⟨⟨hi.run, hi.clean, ?_, ?_, hi.seeds, hi.frame⟩, ?_, fun _ hn => hn⟩, hmem⟩
      · intro j n hm
        simp only [St.memoize, List.mem_cons, Prod.mk.injEq] at hm
        rcases hm with ⟨rfl, rfl⟩ | hm
        · exact ⟨v, hv, by rw [hget, ← hden, hv]⟩
        · exact hi.memo j n hm
      · intro j n hm
        simp only [St.memoize, List.mem_cons, Prod.mk.injEq] at hm
        rcases hm with ⟨rfl, rfl⟩ | hm
        · exact hi.seeds _ hE
        · exact hi.memoEx j n hm
      · intro j n hm
        simp only [St.memoize, List.mem_cons, Prod.mk.injEq] at hm
        rcases hm with ⟨rfl, rfl⟩ | hm
        · exact Or.inr (Or.inl hE)
        · exact Or.inl ⟨j, hm⟩
    | inputNone ng' hpl hg he =>
      subst he
      obtain ⟨hden, hnd, _⟩ := input_sound (inp := inp) hy.wf hpl
      obtain ⟨hfresh, hex⟩ := gen_fresh _ _ _ _ hg
      have hmem : (i, r) ∈ (({ st with ng := ng', args := r :: st.args } : St).memoize i r).memo := by
        simp [St.memoize]
      have hget : env.get? r = (inp i).map .arr := by
        rw [hi.frame r (Or.inr hfresh)]
        exact hin i r _ hmem hpl
      have hsome := hy.defined i hsn hnd
      rw [← Option.isSome_map (f := PyVal.arr), ← denV_arr (by
        intro items hitems; simp [notDict, hitems] at hnd)] at hsome
      obtain ⟨v, hv⟩ := Option.isSome_iff_exists.1 hsome
      refine ⟨env, ⟨⟨hi.run, hi.clean, ?_, ?_, ?_, ?_⟩, ?_, ?_⟩, hmem⟩
      · intro j n hm
        simp only [St.memoize, List.mem_cons, Prod.mk.injEq] at hm
        rcases hm with ⟨rfl, rfl⟩ | hm
        · exact ⟨v, hv, by rw [hget, ← hden, hv]⟩
        · exact hi.memo j n hm
      · intro j n hm
        simp only [St.memoize, List.mem_cons, Prod.mk.injEq] at hm
        show n ∈ ng'.existing
        rw [hex]
        rcases hm with ⟨rfl, rfl⟩ | hm
        · simp
        · exact List.mem_cons_of_mem _ (hi.memoEx j n hm)
      · intro n hn
        show n ∈ ng'.existing
        rw [hex]
        exact List.mem_cons_of_mem _ (hi.seeds n hn)
      · intro n hn
        apply hi.frame
        rcases hn with hn | hn
        · exact Or.inl hn
        · refine Or.inr fun h => hn ?_
          show n ∈ ng'.existing
          rw [hex]
          exact List.mem_cons_of_mem _ h
      · intro j n hm
        simp only [St.memoize, List.mem_cons, Prod.mk.injEq] at hm
        rcases hm with ⟨rfl, rfl⟩ | hm
        · exact Or.inr (Or.inr hfresh)
        · exact Or.inl ⟨j, hm⟩
      · intro n hn
        show n ∈ ng'.existing
        rw [hex]
        exact List.mem_cons_of_mem _ hn
    | pass c st1 hpl hc he =>
      subst he
      obtain ⟨hden, hck⟩ := pass_sound (inp := inp) hy.wf hy.shape hpl hsn
      have hin1 : HIn g inp env0 st1.memo :=
        fun j m nm hm hp => hin j m nm (List.mem_cons_of_mem _ hm) hp
      obtain ⟨env1, hp1, hm1⟩ := IH c st r st1 env hc (hskids c hck) hi hin1
      refine ⟨env1, ⟨⟨hp1.inv.run, hp1.inv.clean, ?_, ?_, hp1.inv.seeds, hp1.inv.frame⟩, ?_, hp1.exMono⟩,
        by simp [St.memoize]⟩
      · intro j n hm
        simp only [St.memoize, List.mem_cons, Prod.mk.injEq] at hm
        rcases hm with ⟨rfl, rfl⟩ | hm
        · rw [hden]; exact hp1.inv.memo c _ hm1
        · exact hp1.inv.memo j n hm
      · intro j n hm
        simp only [St.memoize, List.mem_cons, Prod.mk.injEq] at hm
        rcases hm with ⟨rfl, rfl⟩ | hm
        · exact hp1.inv.memoEx c _ hm1
        · exact hp1.inv.memoEx j n hm
      · intro j n hm
        simp only [St.memoize, List.mem_cons, Prod.mk.injEq] at hm
        rcases hm with ⟨rfl, rfl⟩ | hm
        · exact hp1.new c _ hm1
        · exact hp1.new j n hm
    | pre kids mk ng1 names st2 hpl hg hr he =>
      subst he
      obtain ⟨hfresh, hex⟩ := gen_fresh _ _ _ _ hg
      have hkids := stmt_kids hpl hsn
      -- the state after drawing the left-hand side
      have hi1 : Inv g inp env0 E0 ({ st with ng := ng1 } : St) env := by
        refine ⟨hi.run, hi.clean, hi.memo, ?_, ?_, ?_⟩
        · intro j n hm
          show n ∈ ng1.existing
          rw [hex]; exact List.mem_cons_of_mem _ (hi.memoEx j n hm)
        · intro n hn
          show n ∈ ng1.existing
          rw [hex]; exact List.mem_cons_of_mem _ (hi.seeds n hn)
        · intro n hn
          apply hi.frame
          rcases hn with hn | hn
          · exact Or.inl hn
          · refine Or.inr fun h => hn ?_
            show n ∈ ng1.existing
            rw [hex]; exact List.mem_cons_of_mem _ h
      have hin2 : HIn g inp env0 st2.memo :=
        fun j m nm hm hp => hin j m nm (List.mem_cons_of_mem _ hm) hp
      obtain ⟨env2, hp2, hpairs⟩ := recAll_spec IH kids _ names st2 env hr
        (fun c hc => hskids c (hkids c hc)) hi1 hin2
      obtain ⟨as, hb, hd⟩ := pairs_bound hp2.inv hpairs
        (fun c hc => suppNode_kids hsn c (hkids c hc))
      have heval := stmt_sound hy.wf hp2.inv.clean hy.rank hy.shape hpl hsn hb hd
      obtain ⟨v, hv⟩ := Option.isSome_iff_exists.1 (stmt_defined hy.defined hpl hsn hd)
      have hl : ∀ n, (n ∈ E0 ∨ (∃ j, (j, n) ∈ st2.memo)) → n ≠ r := by
        intro n hn hnr
        subst hnr
        rcases hn with hn | ⟨j, hj⟩
        · exact hfresh (hi.seeds n hn)
        · rcases hp2.new j n hj with ⟨j', hj'⟩ | h | h
          · exact hfresh (hi.memoEx j' n hj')
          · exact hfresh (hi.seeds n h)
          · exact h (by show n ∈ ng1.existing; rw [hex]; simp)
      have hr2 : r ∈ st2.ng.existing := hp2.exMono r (by show r ∈ ng1.existing; rw [hex]; simp)
      have hfin := Inv.assign hp2.inv hy.ptnp (ex' := st2.ng) (l := r) (rhs := mk names) (i := i)
        (gen_head (Or.inl rfl) hg) hl ⟨hr2, fun _ hn => hn⟩ hv (heval.trans hv)
      refine ⟨(r, v) :: env2, ⟨hfin, ?_, ?_⟩, by simp [St.memoize]⟩
      · intro j n hm
        simp only [St.memoize, St.record, List.mem_cons, Prod.mk.injEq] at hm
        rcases hm with ⟨rfl, rfl⟩ | hm
        · exact Or.inr (Or.inr hfresh)
        · rcases hp2.new j n hm with h | h | h
          · exact Or.inl h
          · exact Or.inr (Or.inl h)
          · refine Or.inr (Or.inr fun hn => h ?_)
            show n ∈ ng1.existing
            rw [hex]; exact List.mem_cons_of_mem _ hn
      · intro n hn
        refine hp2.exMono n ?_
        show n ∈ ng1.existing
        rw [hex]; exact List.mem_cons_of_mem _ hn
    | post kids mk names st2 ng3 hpl hr hg he =>
      subst he
      obtain ⟨hfresh, hex⟩ := gen_fresh _ _ _ _ hg
      have hkids := stmt_kids hpl hsn
      have hin2 : HIn g inp env0 st2.memo :=
        fun j m nm hm hp => hin j m nm (List.mem_cons_of_mem _ hm) hp
      obtain ⟨env2, hp2, hpairs⟩ := recAll_spec IH kids _ names st2 env hr
        (fun c hc => hskids c (hkids c hc)) hi hin2
      obtain ⟨as, hb, hd⟩ := pairs_bound hp2.inv hpairs
        (fun c hc => suppNode_kids hsn c (hkids c hc))
      have heval := stmt_sound hy.wf hp2.inv.clean hy.rank hy.shape hpl hsn hb hd
      obtain ⟨v, hv⟩ := Option.isSome_iff_exists.1 (stmt_defined hy.defined hpl hsn hd)
      have hl : ∀ n, (n ∈ E0 ∨ (∃ j, (j, n) ∈ st2.memo)) → n ≠ r := by
        intro n hn hnr
        subst hnr
        rcases hn with hn | ⟨j, hj⟩
        · exact hfresh (hp2.inv.seeds n hn)
        · exact hfresh (hp2.inv.memoEx j n hj)
      have hfin := Inv.assign hp2.inv hy.ptnp (ex' := ng3) (l := r) (rhs := mk names) (i := i)
        (gen_head (Or.inl rfl) hg) hl
        ⟨by rw [hex]; simp, fun n hn => by rw [hex]; exact List.mem_cons_of_mem _ hn⟩ hv (heval.trans hv)
      refine ⟨(r, v) :: env2, ⟨hfin, ?_, ?_⟩, by simp [St.memoize]⟩
      · intro j n hm
        simp only [St.memoize, St.record, List.mem_cons, Prod.mk.injEq] at hm
        rcases hm with ⟨rfl, rfl⟩ | hm
        · exact Or.inr (Or.inr fun hn => hfresh (hp2.exMono n hn))
        · exact hp2.new j n hm
      · intro n hn
        show n ∈ ng3.existing
        rw [hex]; exact List.mem_cons_of_mem _ (hp2.exMono n hn)

end Spec

end Py
end Pt

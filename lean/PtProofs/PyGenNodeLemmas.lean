/-
  C14: the expression emitted for ONE node, evaluated in an environment that binds
  the children's names to the children's denotations, yields the node's denotation
  (core Lean only).
-/
import PtProofs.PyGenLemmas
namespace Pt
namespace Py

/-- the children's denotations, in order -/
def KidsDen (g : PGraph) (inp : Nat → Option (Arr Val)) : List Nat → List (Arr Val) → Prop
  | [], [] => True
  | c :: cs, a :: as => den g inp c = some a ∧ KidsDen g inp cs as
  | _, _ => False

theorem kids1 {g : PGraph} {inp : Nat → Option (Arr Val)} {env : PEnv} {c : Nat}
    {names : List String} {as : List (Arr Val)} (hb : BoundTo env names as)
    (hd : KidsDen g inp [c] as) :
    ∃ a n, as = [a] ∧ names = [n] ∧ den g inp c = some a ∧ env.get? n = some (.arr a) := by
  match as, names, hb, hd with
  | [a], [n], hb, hd => exact ⟨a, n, rfl, rfl, hd.1, hb.1⟩
  | [], _, _, hd => simp [KidsDen] at hd
  | _ :: _ :: _, _, _, hd => simp [KidsDen] at hd
  | [_], [], hb, _ => simp [BoundTo] at hb
  | [_], _ :: _ :: _, hb, _ => simp [BoundTo] at hb

theorem kidsDen_allSome {g : PGraph} {inp : Nat → Option (Arr Val)} :
    ∀ {cs : List Nat} {as : List (Arr Val)}, KidsDen g inp cs as →
      allSomeArr (cs.map (den g inp)) = some as
  | [], [], _ => rfl
  | c :: cs, a :: as, h => by
    simp only [List.map_cons, h.1, allSomeArr, kidsDen_allSome h.2, Option.map_some]
  | [], _ :: _, h => by simp [KidsDen] at h
  | _ :: _, [], h => by simp [KidsDen] at h

theorem arrs?_map : ∀ (as : List (Arr Val)), arrs? (as.map .arr) = some as
  | [] => rfl
  | a :: r => by simp [arrs?, arrs?_map r]

theorem boundTo_length {env : PEnv} : ∀ {names : List String} {as : List (Arr Val)},
    BoundTo env names as → names.length = as.length
  | [], [], _ => rfl
  | _ :: ns, _ :: as, h => by simp [boundTo_length h.2]
  | [], _ :: _, h => by simp [BoundTo] at h
  | _ :: _, [], h => by simp [BoundTo] at h

/-- node `i` is not a dictionary: its value is its array -/
theorem denV_arr {g : PGraph} {inp : Nat → Option (Arr Val)} {i : Nat}
    (h : ∀ items, (g.get i).node ≠ .dict items) : denV g inp i = (den g inp i).map .arr := by
  unfold denV
  split
  · rename_i items hn
    exact absurd hn (h items)
  · rfl

/-! ## evaluation of calls -/

theorem pyEval_call_np {env : PEnv} (hc : CleanEnv env) (f : String) {args : List PyExpr}
    {kws : List (String × PyExpr)} {as : List PyVal} {ks : List (String × PyVal)}
    (ha : pyEvalList env args = some as) (hk : pyEvalKws env kws = some ks) :
    pyEval env (.call (npf f) args kws) = npCall f as ks := by
  simp only [pyEval, pyEval_npf hc, ha, hk]
  simp

theorem pyEvalList_one {env : PEnv} {e : PyExpr} {v : PyVal} (h : pyEval env e = some v) :
    pyEvalList env [e] = some [v] := by
  simp [pyEvalList, h]

theorem pyEvalList_two {env : PEnv} {e1 e2 : PyExpr} {v1 v2 : PyVal} (h1 : pyEval env e1 = some v1)
    (h2 : pyEval env e2 = some v2) : pyEvalList env [e1, e2] = some [v1, v2] := by
  simp [pyEvalList, h1, h2]

theorem pyEvalKws_nil (env : PEnv) : pyEvalKws env [] = some [] := by simp [pyEvalKws]

theorem pyEvalKws_one {env : PEnv} {k : String} {e : PyExpr} {v : PyVal} (h : pyEval env e = some v) :
    pyEvalKws env [(k, e)] = some [(k, v)] := by
  simp [pyEvalKws, h]

theorem pyEvalKws_two {env : PEnv} {k1 k2 : String} {e1 e2 : PyExpr} {v1 v2 : PyVal}
    (h1 : pyEval env e1 = some v1) (h2 : pyEval env e2 = some v2) :
    pyEvalKws env [(k1, e1), (k2, e2)] = some [(k1, v1), (k2, v2)] := by
  simp [pyEvalKws, h1, h2]

theorem pyEval_list {env : PEnv} {es : List PyExpr} {vs : List PyVal} (h : pyEvalList env es = some vs) :
    pyEval env (.list es) = some (.seq vs) := by
  simp [pyEval, h]

theorem pyEval_attr_T {env : PEnv} {e : PyExpr} {a : Arr Val} (h : pyEval env e = some (.arr a)) :
    pyEval env (.attr e "T") = some (.arr (Spec.transpose (List.range a.shape.length).reverse a)) := by
  simp [pyEval, h]

theorem npCall_roll (a : Arr Val) (s k : Int) (hk : k ≥ 0) :
    npCall "roll" [.arr a] [("shift", .scalar (.i s)), ("axis", .scalar (.i k))]
      = some (.arr (Spec.roll s k.toNat a)) := by
  simp [npCall, kw?, PyVal.int?, hk]

theorem npCall_transpose (a : Arr Val) (p : List PyVal) :
    npCall "transpose" [.arr a] [("axes", .seq p)] = (nats? p).map fun p => .arr (Spec.transpose p a) := by
  simp [npCall, kw?]

theorem npCall_reshape (a : Arr Val) (s : List PyVal) (o : String) :
    npCall "reshape" [.arr a, .seq s] [("order", .str o)]
      = (nats? s).bind fun s => (reshapeOrder o s a).map .arr := by
  simp [npCall, kw?]

theorem npCall_stack (xs : List PyVal) (k : Int) (hk : k ≥ 0) :
    npCall "stack" [.seq xs] [("axis", .scalar (.i k))]
      = (arrs? xs).map fun as =>
          .arr (Spec.stack ((as.head?.map (·.shape)).getD []) k.toNat as .undef) := by
  simp [npCall, kw?, PyVal.int?, hk]

theorem npCall_concatenate (xs : List PyVal) (k : Int) (hk : k ≥ 0) :
    npCall "concatenate" [.seq xs] [("axis", .scalar (.i k))]
      = (arrs? xs).map fun as => .arr (Spec.concatenate k.toNat as .undef) := by
  simp [npCall, kw?, PyVal.int?, hk]

/-! ## index-remapping nodes -/

section Simple
variable {g : PGraph} (hw : WFG g) (inp : Nat → Option (Arr Val))
include hw

theorem roll_sound {i c : Nat} {shift axis : Int} (hn : (g.get i).node = .roll c shift axis)
    (hax : axis ≥ 0) {env : PEnv} (hc : CleanEnv env) {names : List String} {as : List (Arr Val)}
    (hb : BoundTo env names as) (hd : KidsDen g inp [c] as) :
    ∃ v, denV g inp i = some v ∧
      pyEval env (.call (npf "roll") [.name (names.headD "?")]
        [("shift", intConst shift), ("axis", intConst axis)]) = some v := by
  obtain ⟨a, n, rfl, rfl, hda, hna⟩ := kids1 hb hd
  simp only [List.headD_cons]
  refine ⟨.arr (Spec.roll shift axis.toNat a), ?_, ?_⟩
  · rw [denV_arr (by rw [hn]; intro items h; cases h), den_step hw]
    simp [denoteStep, hn, hax, hda]
  · rw [pyEval_call_np hc "roll" (pyEvalList_one (pyEval_name hna))
      (pyEvalKws_two (pyEval_intConst env shift) (pyEval_intConst env axis))]
    exact npCall_roll a shift axis hax

theorem perm_sound {i c : Nat} {p : List Nat} (hn : (g.get i).node = .perm c p)
    {env : PEnv} (hc : CleanEnv env) {names : List String} {as : List (Arr Val)}
    (hb : BoundTo env names as) (hd : KidsDen g inp [c] as)
    (hrank : ∀ a, den g inp c = some a → a.shape.length = p.length) :
    ∃ v, denV g inp i = some v ∧
      pyEval env (if p == (List.range p.length).reverse then .attr (.name (names.headD "?")) "T"
        else .call (npf "transpose") [.name (names.headD "?")]
          [("axes", .list (p.map fun a => intConst (a : Nat)))]) = some v := by
  obtain ⟨a, n, rfl, rfl, hda, hna⟩ := kids1 hb hd
  simp only [List.headD_cons]
  refine ⟨.arr (Spec.transpose p a), ?_, ?_⟩
  · rw [denV_arr (by rw [hn]; intro items h; cases h), den_step hw]
    simp [denoteStep, hn, hda]
  · by_cases hp : (p == (List.range p.length).reverse) = true
    · rw [if_pos hp]
      have hp' : p = (List.range p.length).reverse := by simpa using hp
      have hr := hrank a hda
      rw [pyEval_attr_T (pyEval_name hna), hr, ← hp']
    · rw [if_neg hp]
      rw [pyEval_call_np hc "transpose" (pyEvalList_one (pyEval_name hna))
        (pyEvalKws_one (pyEval_list (pyEvalList_shape env p)))]
      rw [npCall_transpose, nats?_shape]
      rfl

theorem reshape_sound {i c : Nat} {order : String} {shape : Shape}
    (hn : (g.get i).node = .reshape c order) (hsh : staticShape (g.get i).shape = some shape)
    (ho : (order == "C" || order == "F") = true)
    {env : PEnv} (hc : CleanEnv env) {names : List String} {as : List (Arr Val)}
    (hb : BoundTo env names as) (hd : KidsDen g inp [c] as) :
    ∃ v, denV g inp i = some v ∧
      pyEval env (.call (npf "reshape") [.name (names.headD "?"), shapeTuple shape]
        [("order", .str order)]) = some v := by
  obtain ⟨a, n, rfl, rfl, hda, hna⟩ := kids1 hb hd
  simp only [List.headD_cons]
  have hsome : ∃ r, reshapeOrder order shape a = some r := by
    unfold reshapeOrder
    by_cases h' : (order == "C") = true
    · exact ⟨_, by rw [if_pos h']⟩
    · have h : (order == "F") = true := by
        have ho' : (order == "C") = true ∨ (order == "F") = true := by simpa using ho
        rcases ho' with h | h
        · exact absurd h h'
        · exact h
      exact ⟨_, by rw [if_neg h', if_pos h]⟩
  obtain ⟨r, hr⟩ := hsome
  refine ⟨.arr r, ?_, ?_⟩
  · rw [denV_arr (by rw [hn]; intro items h; cases h), den_step hw]
    simp [denoteStep, hn, hsh, hda, hr]
  · have hs : pyEval env (.str order) = some (.str order) := by simp [pyEval]
    rw [pyEval_call_np hc "reshape" (pyEvalList_two (pyEval_name hna) (pyEval_shapeTuple env shape))
      (pyEvalKws_one hs)]
    rw [npCall_reshape, nats?_shape]
    simp [hr]

theorem stack_sound {i : Nat} {cs : List Nat} {axis : Int} (hn : (g.get i).node = .stack cs axis)
    (hax : axis ≥ 0) {env : PEnv} (hc : CleanEnv env) {names : List String} {as : List (Arr Val)}
    (hb : BoundTo env names as) (hd : KidsDen g inp cs as) :
    ∃ v, denV g inp i = some v ∧
      pyEval env (.call (npf "stack") [.list (names.map .name)] [("axis", intConst axis)]) = some v := by
  refine ⟨.arr (Spec.stack ((as.head?.map (·.shape)).getD []) axis.toNat as .undef), ?_, ?_⟩
  · rw [denV_arr (by rw [hn]; intro items h; cases h), den_step hw]
    simp [denoteStep, hn, hax, kidsDen_allSome hd]
  · rw [pyEval_call_np hc "stack" (pyEvalList_one (pyEval_list (pyEvalList_names hb)))
      (pyEvalKws_one (pyEval_intConst env axis))]
    rw [npCall_stack _ _ hax, arrs?_map]
    rfl

theorem concat_sound {i : Nat} {cs : List Nat} {axis : Int} (hn : (g.get i).node = .concat cs axis)
    (hax : axis ≥ 0) {env : PEnv} (hc : CleanEnv env) {names : List String} {as : List (Arr Val)}
    (hb : BoundTo env names as) (hd : KidsDen g inp cs as) :
    ∃ v, denV g inp i = some v ∧
      pyEval env (.call (npf "concatenate") [.list (names.map .name)] [("axis", intConst axis)])
        = some v := by
  refine ⟨.arr (Spec.concatenate axis.toNat as .undef), ?_, ?_⟩
  · rw [denV_arr (by rw [hn]; intro items h; cases h), den_step hw]
    simp [denoteStep, hn, hax, kidsDen_allSome hd]
  · rw [pyEval_call_np hc "concatenate" (pyEvalList_one (pyEval_list (pyEvalList_names hb)))
      (pyEvalKws_one (pyEval_intConst env axis))]
    rw [npCall_concatenate _ _ hax, arrs?_map]
    rfl

end Simple

end Py
end Pt

/-
  Safety of the executor model on well-formed partitions: invariants of reachable states,
  "every part finds its inputs" (no use before production, no use after release) and
  faithfulness (the terminal state holds the reference solution).
-/
import PtProofs.DistLemmas
set_option linter.unusedSimpArgs false
namespace Pt.Dist

/-! ## helpers -/

theorem eq_of_pid_eq : ∀ {l : List Part}, (l.map (·.pid)).Nodup → ∀ {p q : Part},
    p ∈ l → q ∈ l → p.pid = q.pid → p = q
  | [], _, _, _, hp, _, _ => by cases hp
  | a :: t, hnd, p, q, hp, hq, hpq => by
    simp only [List.map_cons, List.nodup_cons] at hnd
    rcases List.mem_cons.1 hp with h1 | h1 <;> rcases List.mem_cons.1 hq with h2 | h2
    · rw [h1, h2]
    · exfalso; apply hnd.1; rw [← h1, hpq]; exact List.mem_map.2 ⟨q, h2, rfl⟩
    · exfalso; apply hnd.1; rw [← h2, ← hpq]; exact List.mem_map.2 ⟨p, h1, rfl⟩
    · exact eq_of_pid_eq hnd.2 h1 h2 hpq

theorem find?_name_some {S : List Recv} {n : Name} {rc : Recv}
    (h : S.find? (fun rc => decide (rc.name = n)) = some rc) : rc ∈ S ∧ rc.name = n := by
  have h1 := List.mem_of_find?_eq_some h
  have h2 := List.find?_some h
  exact ⟨h1, by simpa using h2⟩

theorem find?_name_none {S : List Recv} {n : Name}
    (h : S.find? (fun rc => decide (rc.name = n)) = none) : n ∉ S.map (·.name) := by
  intro hm
  obtain ⟨rc, hrc, hn⟩ := List.mem_map.1 hm
  have := List.find?_eq_none.1 h rc hrc
  simp [hn] at this

/-! ## invariants -/

section Inv
variable {V : Type} (sem : Sem V)

/-- `n` has been produced on rank `r`: it is a user input, a completed receive, or an output of
    an executed part -/
def Produced (P : Partition) (s : GState V) (r : Nat) (n : Name) : Prop :=
  n ∈ P.user r ∨ n ∈ (s.rk r).completed ∨ ∃ q ∈ P.parts r, q.pid ∈ (s.rk r).executed ∧ n ∈ q.outputs

/-- number of parts of `r` that read `n` and have not run yet -/
def liveReaders (P : Partition) (s : GState V) (r : Nat) (n : Name) : Nat :=
  ((P.parts r).filter fun p => decide (n ∈ p.inputs ∧ p.pid ∉ (s.rk r).executed)).length

structure Inv (P : Partition) (s : GState V) : Prop where
  /-- an executed part had its needed parts executed and its receives completed -/
  closed : ∀ r p, p ∈ P.parts r → p.pid ∈ (s.rk r).executed →
    (∀ q ∈ p.needs, q ∈ (s.rk r).executed) ∧ (∀ rc ∈ p.recvs, rc.name ∈ (s.rk r).completed)
  /-- the reference count of a name is at least the number of its readers still to run -/
  rcGe : ∀ r n, liveReaders P s r n ≤ (s.rk r).rc n
  /-- a produced name that still has a reader is in the context -/
  present : ∀ r n, Produced P s r n →
    (∃ p ∈ P.parts r, p.pid ∉ (s.rk r).executed ∧ n ∈ p.inputs) → ((s.rk r).ctx n).isSome
  /-- the payload of every send of an executed part has been handed over -/
  sentSome : ∀ a q, q ∈ P.parts a → q.pid ∈ (s.rk a).executed →
    ∀ sd ∈ q.sends, (s.sent a sd.dst sd.tag).isSome
  /-- overall outputs are kept once produced -/
  kept : ∀ r n, (∃ q ∈ P.parts r, q.pid ∈ (s.rk r).executed ∧ n ∈ q.outputs) →
    n ∈ P.overall r → ((s.rk r).ctx n).isSome

theorem inv_init (P : Partition) : Inv P (init sem P) := by
  refine ⟨?_, ?_, ?_, ?_, ?_⟩
  · intro r p _ h; simp [init, initR] at h
  · intro r n
    simp only [liveReaders, init, initR, readers]
    apply filter_length_le
    intro x _ hx
    exact decide_eq_true (of_decide_eq_true hx).1
  · intro r n hprod _
    rcases hprod with h | h | ⟨q, _, h, _⟩
    · simp [init, initR, h]
    · simp [init, initR] at h
    · simp [init, initR] at h
  · intro a q _ h; simp [init, initR] at h
  · intro r n ⟨q, _, h, _⟩ _; simp [init, initR] at h

theorem arrived_sent_some {P : Partition} {s : GState V} (hinv : Inv P s) {r : Nat} {rc : Recv}
    (h : arrived P s r rc) : (s.sent rc.src r rc.tag).isSome := by
  obtain ⟨q, hq, hqe, sd, hsd, hdst, htag⟩ := h
  have := hinv.sentSome rc.src q hq hqe sd hsd
  rw [hdst, htag] at this
  exact this

theorem liveReaders_exec_lt {P : Partition} (s : GState V) (r : Nat) (p : Part) (n : Name)
    (hp : p ∈ P.parts r) (hne : p.pid ∉ (s.rk r).executed) (hn : n ∈ p.inputs) :
    liveReaders P (execG sem P s r p) r n < liveReaders P s r n := by
  unfold liveReaders
  simp only [execG, execR, if_true]
  apply filter_length_lt
  · intro x _ hx
    simp only [decide_eq_true_eq] at hx ⊢
    exact ⟨hx.1, fun hm => hx.2 (List.mem_cons_of_mem _ hm)⟩
  · exact ⟨p, hp, by simpa using ⟨hn, hne⟩, by simp⟩

theorem liveReaders_exec_le {P : Partition} (s : GState V) (r : Nat) (p : Part) (n : Name) :
    liveReaders P (execG sem P s r p) r n ≤ liveReaders P s r n := by
  unfold liveReaders
  simp only [execG, execR, if_true]
  apply filter_length_le
  intro x _ hx
  simp only [decide_eq_true_eq] at hx ⊢
  exact ⟨hx.1, fun hm => hx.2 (List.mem_cons_of_mem _ hm)⟩

theorem liveReaders_pos {P : Partition} (s : GState V) (r : Nat) (n : Name) (p : Part)
    (hp : p ∈ P.parts r) (hne : p.pid ∉ (s.rk r).executed) (hn : n ∈ p.inputs) :
    0 < liveReaders P s r n := by
  unfold liveReaders
  apply List.length_pos_of_mem (a := p)
  exact List.mem_filter.2 ⟨hp, by simpa using ⟨hn, hne⟩⟩

/-- the invariants are preserved by every step of a well-formed partition -/
theorem inv_step {P : Partition} {lvl : Nat → Nat → Nat}
    (hwf : WFexecWith P lvl) {s s' : GState V} {l : Label}
    (hinv : Inv P s) (h : Step sem P s l s') : Inv P s' := by
  cases h with
  | exec r p hr hp hrdy =>
    obtain ⟨hpids, _, _, _, hsentout, _⟩ := hwf r hr
    obtain ⟨hne, hneeds, hrecvs⟩ := hrdy
    refine ⟨?_, ?_, ?_, ?_, ?_⟩
    · -- closed
      intro r' p' hp' hex
      by_cases hrr : r' = r
      · subst hrr
        simp only [execG, execR, if_true] at hex ⊢
        rcases List.mem_cons.1 hex with h | h
        · have : p' = p := eq_of_pid_eq hpids hp' hp h
          subst this
          exact ⟨fun q hq => List.mem_cons_of_mem _ (hneeds q hq), hrecvs⟩
        · obtain ⟨h1, h2⟩ := hinv.closed r' p' hp' h
          exact ⟨fun q hq => List.mem_cons_of_mem _ (h1 q hq), h2⟩
      · simp only [execG, hrr, if_false] at hex ⊢
        exact hinv.closed r' p' hp' hex
    · -- rcGe
      intro r' n
      by_cases hrr : r' = r
      · subst hrr
        by_cases hn : n ∈ p.inputs
        · have h1 := liveReaders_exec_lt sem s r' p n hp hne hn
          have h2 := hinv.rcGe r' n
          have : ((execG sem P s r' p).rk r').rc n = (s.rk r').rc n - 1 := by
            simp [execG, execR, hn]
          omega
        · have h1 := liveReaders_exec_le (P := P) sem s r' p n
          have h2 := hinv.rcGe r' n
          have : ((execG sem P s r' p).rk r').rc n = (s.rk r').rc n := by
            simp [execG, execR, hn]
          omega
      · have : liveReaders P (execG sem P s r p) r' n = liveReaders P s r' n := by
          simp [liveReaders, execG, hrr]
        rw [this]
        simp only [execG, hrr, if_false]
        exact hinv.rcGe r' n
    · -- present
      intro r' n hprod hreader
      by_cases hrr : r' = r
      · subst hrr
        obtain ⟨p', hp', hne', hn'⟩ := hreader
        simp only [execG, execR, if_true] at hne' hprod ⊢
        have hne'old : p'.pid ∉ (s.rk r').executed := fun hm => hne' (List.mem_cons_of_mem _ hm)
        -- the name is not released: p' still needs it
        have hnotrel : ¬ (n ∈ p.inputs ∧ (s.rk r').rc n - 1 = 0 ∧ n ∉ P.overall r') := by
          intro ⟨hn, hz, _⟩
          have h1 := liveReaders_exec_lt sem s r' p n hp hne hn
          have h2 := hinv.rcGe r' n
          have h3 : 0 < liveReaders P (execG sem P s r' p) r' n := by
            apply liveReaders_pos (execG sem P s r' p) r' n p' hp' _ hn'
            simpa [execG, execR] using hne'
          omega
        simp only [hnotrel, if_false, ctxMid]
        by_cases hout : n ∈ p.outputs
        · simp [hout]
        · simp only [hout, if_false]
          apply hinv.present r' n _ ⟨p', hp', hne'old, hn'⟩
          unfold Produced at hprod ⊢
          simp only [execG, execR, if_true] at hprod
          rcases hprod with h | h | ⟨q, hq, hqe, hqn⟩
          · exact Or.inl h
          · exact Or.inr (Or.inl h)
          · rcases List.mem_cons.1 hqe with h | h
            · have : q = p := eq_of_pid_eq hpids hq hp h
              subst this; exact absurd hqn hout
            · exact Or.inr (Or.inr ⟨q, hq, h, hqn⟩)
      · simp only [execG, hrr, if_false] at hreader ⊢
        apply hinv.present r' n _ hreader
        unfold Produced at hprod ⊢
        simpa [execG, hrr] using hprod
    · -- sentSome
      intro a q hq hqe sd hsd
      by_cases har : a = r
      · subst har
        simp only [execG, execR, if_true] at hqe ⊢
        cases hf : p.sends.find? (fun sd' => decide (sd'.dst = sd.dst ∧ sd'.tag = sd.tag)) with
        | some sd' =>
          simp only
          have hmem := List.mem_of_find?_eq_some hf
          have := hsentout p hp sd' hmem
          simp [ctxMid, this]
        | none =>
          simp only
          rcases List.mem_cons.1 hqe with h | h
          · have : q = p := eq_of_pid_eq hpids hq hp h
            subst this
            have := List.find?_eq_none.1 hf sd hsd
            simp at this
          · exact hinv.sentSome a q hq h sd hsd
      · simp only [execG, har, if_false] at hqe ⊢
        exact hinv.sentSome a q hq hqe sd hsd
    · -- kept
      intro r' n hq hnr
      by_cases hrr : r' = r
      · subst hrr
        obtain ⟨q, hq, hqe, hqn⟩ := hq
        simp only [execG, execR, if_true] at hqe ⊢
        have hnotrel : ¬ (n ∈ p.inputs ∧ (s.rk r').rc n - 1 = 0 ∧ n ∉ P.overall r') :=
          fun h => h.2.2 hnr
        simp only [hnotrel, if_false, ctxMid]
        by_cases hout : n ∈ p.outputs
        · simp [hout]
        · simp only [hout, if_false]
          rcases List.mem_cons.1 hqe with h | h
          · have : q = p := eq_of_pid_eq hpids hq hp h
            subst this; exact absurd hqn hout
          · exact hinv.kept r' n ⟨q, hq, h, hqn⟩ hnr
      · simp only [execG, hrr, if_false] at hq ⊢
        exact hinv.kept r' n hq hnr
  | deliver r S hr hS hall hnr hunf =>
    refine ⟨?_, ?_, ?_, ?_, ?_⟩
    · intro r' p' hp' hex
      by_cases hrr : r' = r
      · subst hrr
        simp only [deliverG, deliverR, if_true] at hex ⊢
        obtain ⟨h1, h2⟩ := hinv.closed r' p' hp' hex
        exact ⟨h1, fun rc hrc => List.mem_append_right _ (h2 rc hrc)⟩
      · simp only [deliverG, hrr, if_false] at hex ⊢
        exact hinv.closed r' p' hp' hex
    · intro r' n
      by_cases hrr : r' = r
      · subst hrr
        have : liveReaders P (deliverG s r' S) r' n = liveReaders P s r' n := by
          simp [liveReaders, deliverG, deliverR]
        rw [this]
        simp only [deliverG, deliverR, if_true]
        exact hinv.rcGe r' n
      · have : liveReaders P (deliverG s r S) r' n = liveReaders P s r' n := by
          simp [liveReaders, deliverG, hrr]
        rw [this]
        simp only [deliverG, hrr, if_false]
        exact hinv.rcGe r' n
    · intro r' n hprod hreader
      by_cases hrr : r' = r
      · subst hrr
        simp only [deliverG, deliverR, if_true] at hreader ⊢
        cases hf : S.find? (fun rc => decide (rc.name = n)) with
        | some rc =>
          simp only
          obtain ⟨hrc, _⟩ := find?_name_some hf
          exact arrived_sent_some hinv (hall rc hrc).2
        | none =>
          simp only
          apply hinv.present r' n _ hreader
          unfold Produced at hprod ⊢
          simp only [deliverG, deliverR, if_true] at hprod
          rcases hprod with h | h | h
          · exact Or.inl h
          · rcases List.mem_append.1 h with h | h
            · exact absurd h (find?_name_none hf)
            · exact Or.inr (Or.inl h)
          · exact Or.inr (Or.inr h)
      · simp only [deliverG, hrr, if_false] at hreader ⊢
        apply hinv.present r' n _ hreader
        unfold Produced at hprod ⊢
        simpa [deliverG, hrr] using hprod
    · intro a q hq hqe sd hsd
      have : ((deliverG s r S).rk a).executed = (s.rk a).executed := by
        by_cases har : a = r
        · subst har; simp [deliverG, deliverR]
        · simp [deliverG, har]
      rw [this] at hqe
      exact hinv.sentSome a q hq hqe sd hsd
    · intro r' n hq hnrd
      by_cases hrr : r' = r
      · subst hrr
        simp only [deliverG, deliverR, if_true] at hq ⊢
        cases hf : S.find? (fun rc => decide (rc.name = n)) with
        | some rc =>
          simp only
          obtain ⟨hrc, _⟩ := find?_name_some hf
          exact arrived_sent_some hinv (hall rc hrc).2
        | none =>
          simp only
          exact hinv.kept r' n hq hnrd
      · simp only [deliverG, hrr, if_false] at hq ⊢
        exact hinv.kept r' n hq hnrd

theorem inv_reachable {P : Partition} (hwf : WFexec P) {s : GState V} (hr : Reachable sem P s) :
    Inv P s := by
  obtain ⟨lvl, hwf⟩ := hwf
  induction hr with
  | init => exact inv_init sem P
  | step _ hstep ih => exact inv_step sem hwf ih hstep

/-! ## every part finds its inputs -/

theorem needsOf_executed {P : Partition} {s : GState V} (hinv : Inv P s) (r : Nat) (y : Nat)
    (hy : y ∈ (s.rk r).executed) : ∀ x ∈ needsOf (P.parts r) y, x ∈ (s.rk r).executed := by
  intro x hx
  unfold needsOf at hx
  obtain ⟨p'', hp'', hxn⟩ := List.mem_flatMap.1 hx
  obtain ⟨hmem, hpid⟩ := List.mem_filter.1 hp''
  have hpid : p''.pid = y := by simpa using hpid
  exact (hinv.closed r p'' hmem (hpid ▸ hy)).1 x hxn

theorem ancestors_executed {P : Partition} {s : GState V} (hinv : Inv P s) (r : Nat) :
    ∀ k pid, (∀ x ∈ needsOf (P.parts r) pid, x ∈ (s.rk r).executed) →
      ∀ x ∈ ancestors (P.parts r) k pid, x ∈ (s.rk r).executed := by
  intro k
  induction k with
  | zero => intro pid _ x hx; simp [ancestors] at hx
  | succ k ih =>
    intro pid hn x hx
    simp only [ancestors] at hx
    rcases List.mem_append.1 hx with h | h
    · exact hn x h
    · obtain ⟨y, hy, hxy⟩ := List.mem_flatMap.1 h
      exact ih y (needsOf_executed hinv r y (hn y hy)) x hxy

/-- **No use before production, no use after release**: in every reachable state of a
    well-formed partition, a part that the executor may run finds all its input names in the
    context. -/
theorem inputs_present_lemma {P : Partition} (hwf : WFexec P) {s : GState V}
    (hreach : Reachable sem P s) {r : Nat} {p : Part} (hr : r < P.length)
    (hp : p ∈ P.parts r) (hrdy : p.ready (s.rk r)) :
    ∀ n ∈ p.inputs, ((s.rk r).ctx n).isSome := by
  have hinv := inv_reachable sem hwf hreach
  obtain ⟨lvl, hwf⟩ := hwf
  obtain ⟨hpids, _, _, _, _, hreads⟩ := hwf r hr
  obtain ⟨hne, hneeds, hrecvs⟩ := hrdy
  have hneedsOf : ∀ x ∈ needsOf (P.parts r) p.pid, x ∈ (s.rk r).executed := by
    intro x hx
    unfold needsOf at hx
    obtain ⟨p'', hp'', hxn⟩ := List.mem_flatMap.1 hx
    obtain ⟨hmem, hpid⟩ := List.mem_filter.1 hp''
    have : p'' = p := eq_of_pid_eq hpids hmem hp (by simpa using hpid)
    subst this
    exact hneeds x hxn
  have hanc := ancestors_executed hinv r (P.parts r).length p.pid hneedsOf
  intro n hn
  apply hinv.present r n _ ⟨p, hp, hne, hn⟩
  rcases hreads p hp n hn with h | ⟨q, hq, hse, hqn⟩ | ⟨q, hq, he, hqn⟩
  · exact Or.inl h
  · right; left
    obtain ⟨rc, hrc, hname⟩ := List.mem_map.1 hqn
    rcases hse with h | h
    · have : q = p := eq_of_pid_eq hpids hq hp h
      subst this
      exact hname ▸ hrecvs rc hrc
    · have hqe := hanc q.pid h
      exact hname ▸ (hinv.closed r q hq hqe).2 rc hrc
  · right; right
    exact ⟨q, hq, hanc q.pid he, hqn⟩

end Inv

/-! ## faithfulness -/

section Faithful
variable {V : Type} (sem : Sem V)

/-- `ref r n` solves the equation system of the partitioned computation: user inputs are the
    supplied data, an output is its part's program applied to the solution, a received name is
    the sent name of the matching send on the source rank. -/
structure IsSolution (P : Partition) (ref : Nat → Name → V) : Prop where
  user : ∀ r n, n ∈ P.user r → ref r n = sem.input r n
  out : ∀ r p, p ∈ P.parts r → ∀ n ∈ p.outputs,
    ref r n = sem.run r p.pid (restrict (fun m => some (ref r m)) p.inputs) n
  recv : ∀ r p, p ∈ P.parts r → ∀ rc ∈ p.recvs, ∀ q ∈ P.parts rc.src, ∀ sd ∈ q.sends,
    sd.dst = r → sd.tag = rc.tag → ref r rc.name = ref rc.src sd.name

structure Agree (P : Partition) (ref : Nat → Name → V) (s : GState V) : Prop where
  ctx : ∀ r n v, (s.rk r).ctx n = some v → v = ref r n
  sent : ∀ a b t v, s.sent a b t = some v →
    ∃ q ∈ P.parts a, ∃ sd ∈ q.sends, sd.dst = b ∧ sd.tag = t ∧ v = ref a sd.name

theorem restrict_agree {P : Partition} {ref : Nat → Name → V} {s : GState V}
    (hag : Agree P ref s) (r : Nat) (names : List Name)
    (hpres : ∀ n ∈ names, ((s.rk r).ctx n).isSome) :
    restrict (s.rk r).ctx names = restrict (fun m => some (ref r m)) names := by
  funext m
  unfold restrict
  by_cases hm : m ∈ names
  · simp only [hm, if_true]
    have := hpres m hm
    cases hc : (s.rk r).ctx m with
    | none => simp [hc] at this
    | some v => rw [hag.ctx r m v hc]
  · simp [hm]

theorem agree_reachable {P : Partition} (hwf : WFexec P) {ref : Nat → Name → V}
    (hsol : IsSolution sem P ref) {s : GState V} (hreach : Reachable sem P s) :
    Agree P ref s := by
  induction hreach with
  | init =>
    refine ⟨?_, ?_⟩
    · intro r n v h
      simp only [init, initR] at h
      by_cases hn : n ∈ P.user r
      · simp only [hn, if_true, Option.some.injEq] at h
        rw [← h, hsol.user r n hn]
      · simp [hn] at h
    · intro a b t v h; simp [init] at h
  | @step s s' l hreach hstep ih =>
    cases hstep with
    | exec r p hr hp hrdy =>
      have hpres := inputs_present_lemma sem hwf hreach hr hp hrdy
      have hrestr := restrict_agree ih r p.inputs hpres
      have hmid : ∀ n v, ctxMid sem r p (s.rk r) n = some v → v = ref r n := by
        intro n v h
        unfold ctxMid at h
        by_cases hout : n ∈ p.outputs
        · simp only [hout, if_true, Option.some.injEq] at h
          rw [← h, hrestr, ← hsol.out r p hp n hout]
        · simp only [hout, if_false] at h
          exact ih.ctx r n v h
      refine ⟨?_, ?_⟩
      · intro r' n v h
        by_cases hrr : r' = r
        · subst hrr
          simp only [execG, execR, if_true] at h
          by_cases hrel : n ∈ p.inputs ∧ (s.rk r').rc n - 1 = 0 ∧ n ∉ P.overall r'
          · simp [hrel] at h
          · simp only [hrel, if_false] at h
            exact hmid n v h
        · simp only [execG, hrr, if_false] at h
          exact ih.ctx r' n v h
      · intro a b t v h
        by_cases har : a = r
        · subst har
          simp only [execG, if_true] at h
          cases hf : p.sends.find? (fun sd' => decide (sd'.dst = b ∧ sd'.tag = t)) with
          | some sd' =>
            simp only [hf] at h
            have hmem := List.mem_of_find?_eq_some hf
            have hpred := List.find?_some hf
            simp only [decide_eq_true_eq] at hpred
            exact ⟨p, hp, sd', hmem, hpred.1, hpred.2, hmid _ v h⟩
          | none =>
            simp only [hf] at h
            exact ih.sent a b t v h
        · simp only [execG, har, if_false] at h
          exact ih.sent a b t v h
    | deliver r S hr hS hall hnr hunf =>
      refine ⟨?_, ?_⟩
      · intro r' n v h
        by_cases hrr : r' = r
        · subst hrr
          simp only [deliverG, deliverR, if_true] at h
          cases hf : S.find? (fun rc => decide (rc.name = n)) with
          | some rc =>
            simp only [hf] at h
            obtain ⟨hrc, hname⟩ := find?_name_some hf
            obtain ⟨q, hq, sd, hsd, hdst, htag, hv⟩ := ih.sent _ _ _ v h
            obtain ⟨⟨p, hp, hrcp⟩, _⟩ := (hall rc hrc).1
            rw [hv, ← hname]
            exact (hsol.recv r' p hp rc hrcp q hq sd hsd hdst htag).symm
          | none =>
            simp only [hf] at h
            exact ih.ctx r' n v h
        · simp only [deliverG, hrr, if_false] at h
          exact ih.ctx r' n v h
      · intro a b t v h
        exact ih.sent a b t v h

/-- **Faithfulness**: when a well-formed partition has run to completion — under any
    interleaving and any `Waitsome` outcomes — every overall output of every rank is in the
    context and holds the reference solution. -/
theorem faithful_lemma {P : Partition} (hwf : WFexec P) {ref : Nat → Name → V}
    (hsol : IsSolution sem P ref) {s : GState V} (hreach : Reachable sem P s)
    (hterm : Terminal P s) (r : Nat) (hr : r < P.length) :
    ∀ n ∈ P.overall r, (s.rk r).ctx n = some (ref r n) := by
  intro n hn
  have hinv := inv_reachable sem hwf hreach
  have hag := agree_reachable sem hwf hsol hreach
  obtain ⟨lvl, hwf'⟩ := hwf
  obtain ⟨_, _, _, hprod, _, _⟩ := hwf' r hr
  have hmem := hprod n hn
  unfold allOutputs at hmem
  obtain ⟨q, hq, hqn⟩ := List.mem_flatMap.1 hmem
  have hsome := hinv.kept r n ⟨q, hq, hterm r hr q hq, hqn⟩ hn
  cases hc : (s.rk r).ctx n with
  | none => simp [hc] at hsome
  | some v => rw [hag.ctx r n v hc]

end Faithful

end Pt.Dist

/-
  Helper lemmas and theorems for the array constructors (`full/zeros/ones`, `eye`,
  `arange`) and the CSR sparse matrix product.
-/
import PtModel.Construct
import PtProofs.EvalLemmas
import PtProofs.StackConcatLemmas
import PtProofs.AccessLemmas
import Mathlib.Tactic.Ring
import Mathlib.Tactic.Linarith
import Mathlib.Tactic.Positivity
import Mathlib.Algebra.Field.Rat
import Mathlib.Algebra.Order.Field.Basic
import Mathlib.Data.Rat.Floor
import Mathlib.Algebra.BigOperators.Ring.Finset
import Mathlib.Algebra.BigOperators.Intervals
namespace Pt
open Lower Spec

/-- numerically equal values (`1`, `1.0`, `True` are the same number; `undef` only equals `undef`) -/
def Val.sameNum (x y : Val) : Prop := x.toRat? = y.toRat?

/-! ### full / zeros / ones -/

theorem fullLit_eval (dt : String) (fill e : SExpr) (env : Env) (h : fullLit dt fill = some e) :
    Val.sameNum (eval env e) (Val.cast dt (Raise.litVal fill))
    ∧ (dt = "bool" ∨ isIntDtype dt = true → eval env e = Val.cast dt (Raise.litVal fill)) := by
  unfold Val.sameNum
  cases fill <;> simp only [fullLit, Option.some.injEq, reduceCtorEq] at h
  case int n =>
    subst h
    by_cases hb : dt = "bool"
    · simp [hb, eval, Raise.litVal, Val.cast, Val.truthy?]
    · by_cases hi : isIntDtype dt = true
      · have hi' := hi
        simp only [isIntDtype] at hi'
        simp [hb, hi, hi', eval, Raise.litVal, Val.cast]
      · have hi' := hi
        simp only [isIntDtype] at hi'
        simp [hb, hi, hi', eval, Raise.litVal, Val.cast, Val.toRat?]
  case bool v =>
    subst h
    by_cases hb : dt = "bool"
    · simp [hb, eval, Raise.litVal, Val.cast, Val.truthy?]
    · by_cases hi : isIntDtype dt = true
      · have hi' := hi
        simp only [isIntDtype] at hi'
        simp [hb, hi, hi', eval, Raise.litVal, Val.cast]
      · have hi' := hi
        simp only [isIntDtype] at hi'
        cases v <;> simp [hb, hi, hi', eval, Raise.litVal, Val.cast, Val.toRat?]
  case rat p q =>
    by_cases hq : q = 0
    · simp [hq] at h
    simp only [hq, if_false, Option.some.injEq] at h
    subst h
    have hq' : (q : Rat) ≠ 0 := by exact_mod_cast hq
    by_cases hb : dt = "bool"
    · have hd : ((p : Rat) / (q : Rat) != 0) = (p != 0) := by
        by_cases hp : p = 0
        · simp [hp]
        · have : (p : Rat) / (q : Rat) ≠ 0 := div_ne_zero (by exact_mod_cast hp) hq'
          have h1 : ((p : Rat) / (q : Rat) != 0) = true := by rw [bne_iff_ne]; exact this
          have h2 : (p != 0) = true := by rw [bne_iff_ne]; exact hp
          rw [h1, h2]
      simp [hb, hq, eval, Raise.litVal, Val.cast, Val.truthy?, hd]
    · by_cases hi : isIntDtype dt = true
      · have hi' := hi
        simp only [isIntDtype] at hi'
        simp [hb, hi, hi', hq, eval, Raise.litVal, Val.cast, ratTrunc]
      · have hi' := hi
        simp only [isIntDtype] at hi'
        simp [hb, hi, hi', hq, eval, Raise.litVal, Val.cast]
  case nan =>
    split_ifs at h with hf
    simp only [Option.some.injEq] at h
    subst h
    have hnb : dt ≠ "bool" := by
      intro hb; subst hb; revert hf; decide
    by_cases hi : isIntDtype dt = true
    · have hi' := hi
      simp only [isIntDtype] at hi'
      simp [hnb, hi', eval, Raise.litVal, Val.cast]
    · have hi' := hi
      simp only [isIntDtype] at hi'
      simp [hnb, hi, hi', eval, Raise.litVal, Val.cast]

/-! ### eye -/

theorem cmp_eq_int (x k : Int) : Val.cmp .eq (.i x) (.i k) = .b (x == k) := by
  simp only [Val.cmp, Val.toRat?]
  by_cases h : x = k
  · simp [h]
  · have : ¬ (x : Rat) = (k : Rat) := by exact_mod_cast h
    simp [h, this]

theorem eyeExpr_eval (n m : Nat) (k : Int) (binds : List (String × Arr Val)) (i : Idx)
    (hi : inB [n, m] i = true) :
    eval (idxEnv i binds) (eyeExpr k) = (eyeV n m k).get i := by
  match i, hi with
  | [r, c], _ =>
    have e1 : eval (idxEnv [r, c] binds) (.add (ivar 1) (.mul (.int (-1)) (ivar 0)))
        = .i ((c : Int) + -1 * (r : Int)) := by
      simp [ivar, eval, idxEnv, Val.add, Val.mul, Val.arith, Val.toInt?]
    have e2 : eval (idxEnv [r, c] binds) (.cmp .eq (.add (ivar 1) (.mul (.int (-1)) (ivar 0))) (.int k))
        = .b ((c : Int) + -1 * (r : Int) == k) := by
      have : eval (idxEnv [r, c] binds) (.cmp .eq (.add (ivar 1) (.mul (.int (-1)) (ivar 0))) (.int k))
          = Val.cmp .eq (eval (idxEnv [r, c] binds) (.add (ivar 1) (.mul (.int (-1)) (ivar 0)))) (.i k) := rfl
      rw [this, e1, cmp_eq_int]
    have e3 : eval (idxEnv [r, c] binds) (eyeExpr k)
        = match (eval (idxEnv [r, c] binds)
            (.cmp .eq (.add (ivar 1) (.mul (.int (-1)) (ivar 0))) (.int k))).truthy? with
          | some true => .i 1
          | some false => .i 0
          | none => .undef := rfl
    rw [e3, e2]
    simp only [Val.truthy?, eyeV, List.getD_cons_zero, List.getD_cons_succ]
    by_cases h : (c : Int) - (r : Int) = k
    · have hb : ((c : Int) + -1 * (r : Int) == k) = true := by rw [beq_iff_eq]; omega
      rw [hb]; simp [h]
    · have hb : ((c : Int) + -1 * (r : Int) == k) = false := by rw [beq_eq_false_iff_ne]; omega
      rw [hb]; simp [h]
  | [], h => simp [inB] at h
  | [_], h => simp [inB] at h
  | _ :: _ :: _ :: _, h => simp [inB] at h

/-- `eye` is 1 exactly on the `k`-th diagonal, 0 elsewhere -/
theorem eyeV_get (n m : Nat) (k : Int) (r c : Nat) :
    (eyeV n m k).get [r, c] = if (c : Int) = r + k then .i 1 else .i 0 := by
  simp only [eyeV, List.getD_cons_zero, List.getD_cons_succ]
  by_cases h : (c : Int) = r + k
  · rw [if_pos (by omega), if_pos h]
  · rw [if_neg (by omega), if_neg h]

/-! ### arange -/

theorem rat_ceil_eq (x : ℚ) : x.ceil = ⌈x⌉ := by
  rw [Rat.ceil_eq_neg_floor_neg]
  have : (-x).floor = ⌊-x⌋ := rfl
  rw [this, Int.floor_neg, neg_neg]

/-- the length `pt.arange` computes is `max(0, ⌈(stop - start)/step⌉)` -/
theorem arangeLen_eq_ceil (start stop step : ℚ) :
    (arangeLen start stop step : Int) = max 0 ⌈(stop - start) / step⌉ := by
  unfold arangeLen
  rw [rat_ceil_eq, Int.toNat_eq_max, max_comm]

/-- … which is the number of points of `start, start + step, …` strictly before
    `stop` in the direction of the step (also for negative steps and empty ranges) -/
theorem arangeLen_lt_iff (start stop step : ℚ) (hs : step ≠ 0) (j : Nat) :
    j < arangeLen start stop step ↔
      (0 < step ∧ start + j * step < stop) ∨ (step < 0 ∧ stop < start + j * step) := by
  unfold arangeLen
  rw [Int.lt_toNat, Rat.lt_ceil_iff]
  rcases lt_or_gt_of_ne hs with hneg | hpos
  · rw [Int.cast_natCast, lt_div_iff_of_neg hneg]
    constructor
    · intro h; right; exact ⟨hneg, by linarith⟩
    · rintro (⟨h, _⟩ | ⟨_, h⟩)
      · linarith
      · linarith
  · rw [Int.cast_natCast, lt_div_iff₀ hpos]
    constructor
    · intro h; left; exact ⟨hpos, by linarith⟩
    · rintro (⟨_, h⟩ | ⟨h, _⟩)
      · linarith
      · linarith

theorem arange_eval (isInt : Bool) (start stop step : ℚ) (shape : Shape) (e : SExpr)
    (binds : List (String × Arr Val)) (i : Idx)
    (h : arange isInt start stop step = some (shape, e)) (hi : inB shape i = true) :
    shape = (arangeV isInt start stop step).shape ∧
    eval (idxEnv i binds) e = (arangeV isInt start stop step).get i := by
  unfold arange at h
  split_ifs at h with h0 h1
  simp only [Option.some.injEq, Prod.mk.injEq] at h
  obtain ⟨hs, he⟩ := h
  subst hs he
  refine ⟨rfl, ?_⟩
  match i, hi with
  | [j], _ =>
    cases isInt with
    | true =>
      simp [numLit, ivar, eval, idxEnv, arangeV, Val.add, Val.mul, Val.arith, Val.toInt?]
    | false =>
      have hd1 : start.den ≠ 0 := start.den_nz
      have hd2 : step.den ≠ 0 := step.den_nz
      simp [numLit, ivar, eval, idxEnv, arangeV, Val.add, Val.mul, Val.arith, Val.toInt?, Val.toRat?,
        hd1, hd2, Rat.num_div_den]
  | [], h => simp [inB] at h
  | _ :: _ :: _, h => simp [inB] at h

/-- for an integer dtype the entries are the integers `start + j·step` -/
theorem arange_int_value (start step : ℚ) (h1 : start.den = 1) (h2 : step.den = 1) (j : Nat) :
    (((start.num + j * step.num : Int)) : ℚ) = start + j * step := by
  have e1 : (start.num : ℚ) = start := by
    have := Rat.num_div_den start; rw [h1] at this; simpa using this
  have e2 : (step.num : ℚ) = step := by
    have := Rat.num_div_den step; rw [h2] at this; simpa using this
  push_cast
  rw [e1, e2]

/-! ### the constructors read no array at all -/

theorem fullLit_noSub (dt : String) (fill e : SExpr) (h : fullLit dt fill = some e) : hasSub e = false := by
  cases fill <;> simp only [fullLit, Option.some.injEq, reduceCtorEq] at h
  case int n => subst h; split_ifs <;> rfl
  case bool v => subst h; split_ifs <;> rfl
  case rat p q =>
    by_cases hq : q = 0
    · simp [hq] at h
    simp only [hq, if_false, Option.some.injEq] at h
    subst h; split_ifs <;> rfl
  case nan =>
    split_ifs at h
    simp only [Option.some.injEq] at h
    subst h; rfl

theorem constructors_no_accesses (env : Env) :
    (∀ dt fill e, fullLit dt fill = some e → accesses env e = []) ∧
    (∀ k, accesses env (eyeExpr k) = []) ∧
    (∀ isInt start stop step shape e, arange isInt start stop step = some (shape, e) →
      accesses env e = []) := by
  refine ⟨fun dt fill e h => accesses_nil_of_noSub e env (fullLit_noSub dt fill e h),
    fun k => accesses_nil_of_noSub _ env rfl, ?_⟩
  intro isInt start stop step shape e h
  unfold arange at h
  split_ifs at h
  simp only [Option.some.injEq, Prod.mk.injEq] at h
  obtain ⟨_, he⟩ := h
  subst he
  apply accesses_nil_of_noSub
  cases isInt <;> rfl

/-! ### CSR sparse matrix product -/

theorem toRat_of_toInt {x : Val} {n : Int} (h : x.toInt? = some n) : x.toRat? = some (n : ℚ) := by
  cases x with
  | i m => simp only [Val.toInt?, Option.some.injEq] at h; subst h; rfl
  | b v => simp only [Val.toInt?, Option.some.injEq] at h; subst h; cases v <;> simp [Val.toRat?]
  | q r => simp [Val.toInt?] at h
  | undef => simp [Val.toInt?] at h

theorem toRat_arith (fi : Int → Int → Int) (fq : ℚ → ℚ → ℚ)
    (hf : ∀ a c : Int, ((fi a c : Int) : ℚ) = fq a c)
    {x y : Val} {a c : ℚ} (hx : x.toRat? = some a) (hy : y.toRat? = some c) :
    (Val.arith fi fq x y).toRat? = some (fq a c) := by
  unfold Val.arith
  cases hxi : x.toInt? with
  | none => simp only [hx, hy]; rfl
  | some a' =>
    cases hyi : y.toInt? with
    | none => simp only [hx, hy]; rfl
    | some c' =>
      have e1 := toRat_of_toInt hxi
      have e2 := toRat_of_toInt hyi
      rw [hx] at e1; rw [hy] at e2
      simp only [Option.some.injEq] at e1 e2
      subst e1 e2
      simp [Val.toRat?, hf]

theorem toRat_add {x y : Val} {a c : ℚ} (hx : x.toRat? = some a) (hy : y.toRat? = some c) :
    (Val.add x y).toRat? = some (a + c) :=
  toRat_arith (· + ·) (· + ·) (fun a c => by push_cast; rfl) hx hy

theorem toRat_mul {x y : Val} {a c : ℚ} (hx : x.toRat? = some a) (hy : y.toRat? = some c) :
    (Val.mul x y).toRat? = some (a * c) :=
  toRat_arith (· * ·) (· * ·) (fun a c => by push_cast; rfl) hx hy

/-- a `sum` reduction of numeric values is the sum of the numbers -/
theorem sum_fold_toRat (f : Nat → Val) (g : Nat → ℚ) : ∀ n : Nat,
    (∀ k, k < n → (f k).toRat? = some (g k)) →
    (RedOp.sum.fold ((List.range n).map f)).toRat? = some (∑ k ∈ Finset.range n, g k)
  | 0, _ => by simp [RedOp.fold, Val.toRat?]
  | n + 1, h => by
    have ih := sum_fold_toRat f g n fun k hk => h k (by omega)
    simp only [RedOp.fold] at ih ⊢
    rw [List.range_succ, List.map_append, List.foldl_append, Finset.sum_range_succ]
    simp only [List.map_cons, List.map_nil, List.foldl_cons, List.foldl_nil]
    exact toRat_add ih (h n (by omega))

theorem eval_reduce_of (env : Env) (op : RedOp) (v : String) (lo hi body : SExpr) (l h : Int)
    (hl : eval env lo = .i l) (hh : eval env hi = .i h) :
    eval env (.reduce op v lo hi body)
      = op.fold ((List.range (h - l).toNat).map fun (k : Nat) => eval (env.bind v (l + (k : Int))) body) := by
  simp only [eval, hl, hh, Val.toInt?]

theorem inB_single {n x : Nat} : inB [n] [x] = true ↔ x < n := by
  simp [inB]

/-- the trailing output indices `_1, _2, …` evaluate to the tail of the point -/
theorem ivars_succ_eval (env : Env) (r : Nat) (rest : Idx) (hpt : env.pt = r :: rest) :
    ((List.range rest.length).map fun d => ivar (d + 1)).map (eval env)
      = rest.map fun x => Val.i (x : Nat) := by
  apply List.ext_getElem
  · simp
  · intro k h1 h2
    simp only [List.length_map, List.length_range] at h1
    simp [ivar, eval, hpt, h1]

/-- the sum over the stored entries of a row equals the dense row times the vector -/
theorem csr_sum_exchange (n m : Nat) (c : Nat → Nat) (e bq : Nat → ℚ) (hc : ∀ k, k < n → c k < m) :
    ∑ k ∈ Finset.range n, e k * bq (c k)
      = ∑ j ∈ Finset.range m, (∑ k ∈ Finset.range n, if c k = j then e k else 0) * bq j := by
  simp_rw [Finset.sum_mul]
  rw [Finset.sum_comm]
  apply Finset.sum_congr rfl
  intro k hk
  rw [Finset.sum_eq_single (c k)]
  · simp
  · intro j _ hj
    simp [Ne.symm hj]
  · intro hnot
    exact absurd (Finset.mem_range.mpr (hc k (Finset.mem_range.mp hk))) hnot

/-- CSR well-formedness: shapes as `make_csr_matrix` checks them; `row_starts`
    holds integers `R` delimiting positions within `0 … nnz`; the column indices
    `C` are integers within `0 … ncols`; the stored values and the entries of
    the right operand are numbers (`E`, `B`) -/
structure CsrOK (nrows ncols nnz : Nat) (ev ec rs b : Arr Val)
    (R : Nat → Int) (C : Nat → Nat) (E : Nat → ℚ) (B : Idx → ℚ) : Prop where
  evS : ev.shape = [nnz]
  ecS : ec.shape = [nnz]
  rsS : rs.shape = [nrows + 1]
  bS : b.shape.head? = some ncols
  rs_int : ∀ r, r ≤ nrows → rs.get [r] = .i (R r)
  rs_lo : ∀ r, r < nrows → 0 ≤ R r
  rs_hi : ∀ r, r < nrows → R (r + 1) ≤ nnz
  ec_col : ∀ p, p < nnz → ec.get [p] = .i ((C p : Nat) : Int) ∧ C p < ncols
  ev_num : ∀ p, p < nnz → (ev.get [p]).toRat? = some (E p)
  b_num : ∀ j, inB b.shape j = true → (b.get j).toRat? = some (B j)

/-- bindings of the lowered CSR product -/
structure CsrBinds (binds : List (String × Arr Val)) (ev ec rs b : Arr Val) : Prop where
  h0 : Raise.lookupEnv binds "_in0" = some ev
  h1 : Raise.lookupEnv binds "_in1" = some ec
  h2 : Raise.lookupEnv binds "_in2" = some rs
  h3 : Raise.lookupEnv binds "_in3" = some b

section csr
variable {nrows ncols nnz : Nat} {ev ec rs b : Arr Val}
  {R : Nat → Int} {C : Nat → Nat} {E : Nat → ℚ} {B : Idx → ℚ}

/-- position facts for the `k`-th stored entry of row `r` -/
theorem CsrOK.pos (h : CsrOK nrows ncols nnz ev ec rs b R C E B) {r k : Nat} (hr : r < nrows)
    (hk : k < (R (r + 1) - R r).toNat) :
    (((R r + (k : Int)).toNat : Nat) : Int) = R r + k ∧ (R r + (k : Int)).toNat < nnz := by
  have h0 := h.rs_lo r hr
  have h1 := h.rs_hi r hr
  have hk' : (k : Int) < R (r + 1) - R r := by
    have := (Int.lt_toNat).mp hk; exact this
  constructor
  · exact Int.toNat_of_nonneg (by omega)
  · have : ((R r + (k : Int)).toNat : Int) < nnz := by rw [Int.toNat_of_nonneg (by omega)]; omega
    exact_mod_cast this

theorem CsrOK.bshape (h : CsrOK nrows ncols nnz ev ec rs b R C E B) : b.shape = ncols :: b.shape.tail := by
  have := h.bS
  cases hs : b.shape with
  | nil => rw [hs] at this; simp at this
  | cons x xs => rw [hs] at this; simp at this; simp [this]

/-- the three subscripts of the body, at the `k`-th entry of row `r` -/
theorem csr_body_eval (h : CsrOK nrows ncols nnz ev ec rs b R C E B) {binds : List (String × Arr Val)}
    (hb : CsrBinds binds ev ec rs b) {r k : Nat} {rest : Idx} (hr : r < nrows)
    (hrest : inB b.shape.tail rest = true) (hk : k < (R (r + 1) - R r).toNat) :
    let env := (idxEnv (r :: rest) binds).bind "_r0" (R r + (k : Int))
    let p := (R r + (k : Int)).toNat
    [SExpr.var "_r0"].map (eval env) = [p].map (fun x => Val.i (x : Nat))
    ∧ eval env (.sub "_in0" [.var "_r0"]) = ev.get [p]
    ∧ eval env (.sub "_in1" [.var "_r0"]) = .i ((C p : Nat) : Int)
    ∧ (SExpr.sub "_in1" [.var "_r0"] :: (List.range (b.shape.length - 1)).map fun d => ivar (d + 1)).map (eval env)
        = (C p :: rest).map (fun x => Val.i (x : Nat))
    ∧ inB b.shape (C p :: rest) = true
    ∧ eval env (.sub "_in3" (.sub "_in1" [.var "_r0"] :: (List.range (b.shape.length - 1)).map fun d => ivar (d + 1)))
        = b.get (C p :: rest) := by
  intro env p
  obtain ⟨hp, hpn⟩ := h.pos hr hk
  have hv : [SExpr.var "_r0"].map (eval env) = [p].map (fun x => Val.i (x : Nat)) := by
    simp only [List.map_cons, List.map_nil, List.cons.injEq, and_true]
    show eval env (.var "_r0") = Val.i ((p : Nat) : Int)
    rw [hp]
    simp [eval, env, Env.bind, Env.lookupIx]
  have l0 : env.lookupArr "_in0" = some ev := hb.h0
  have l1 : env.lookupArr "_in1" = some ec := hb.h1
  have l3 : env.lookupArr "_in3" = some b := hb.h3
  have hinp : inB [nnz] [p] = true := inB_single.mpr hpn
  have e0 : eval env (.sub "_in0" [.var "_r0"]) = ev.get [p] := by
    rw [eval_sub_of env "_in0" _ [p] hv, l0]
    simp only [h.evS, hinp, if_true]
  have e1 : eval env (.sub "_in1" [.var "_r0"]) = .i ((C p : Nat) : Int) := by
    rw [eval_sub_of env "_in1" _ [p] hv, l1]
    simp only [h.ecS, hinp, if_true]
    exact (h.ec_col p hpn).1
  have hlen : b.shape.length - 1 = rest.length := by
    have := inB_length hrest
    simp at this; omega
  have hix : (SExpr.sub "_in1" [.var "_r0"] :: (List.range (b.shape.length - 1)).map fun d => ivar (d + 1)).map (eval env)
      = (C p :: rest).map (fun x => Val.i (x : Nat)) := by
    rw [List.map_cons, List.map_cons, e1, hlen, ivars_succ_eval env r rest rfl]
  have hin : inB b.shape (C p :: rest) = true := by
    rw [h.bshape]; exact inB_cons.mpr ⟨(h.ec_col p hpn).2, hrest⟩
  refine ⟨hv, e0, e1, hix, hin, ?_⟩
  rw [eval_sub_of env "_in3" _ (C p :: rest) hix, l3]
  simp only [hin, if_true]

theorem csr_bounds_eval (h : CsrOK nrows ncols nnz ev ec rs b R C E B) {binds : List (String × Arr Val)}
    (hb : CsrBinds binds ev ec rs b) {r : Nat} {rest : Idx} (hr : r < nrows) :
    let env := idxEnv (r :: rest) binds
    [ivar 0].map (eval env) = [r].map (fun x => Val.i (x : Nat))
    ∧ [SExpr.add (ivar 0) (.int 1)].map (eval env) = [r + 1].map (fun x => Val.i (x : Nat))
    ∧ eval env (.sub "_in2" [ivar 0]) = .i (R r)
    ∧ eval env (.sub "_in2" [.add (ivar 0) (.int 1)]) = .i (R (r + 1)) := by
  intro env
  have l2 : env.lookupArr "_in2" = some rs := hb.h2
  have a0 : [ivar 0].map (eval env) = [r].map (fun x => Val.i (x : Nat)) := by
    simp [ivar, eval, env, idxEnv]
  have a1 : [SExpr.add (ivar 0) (.int 1)].map (eval env) = [r + 1].map (fun x => Val.i (x : Nat)) := by
    simp [ivar, eval, env, idxEnv, Val.add, Val.arith, Val.toInt?]
  refine ⟨a0, a1, ?_, ?_⟩
  · rw [eval_sub_of env "_in2" _ [r] a0, l2]
    simp only [h.rsS, inB_single.mpr (show r < nrows + 1 by omega), if_true]
    exact h.rs_int r (by omega)
  · rw [eval_sub_of env "_in2" _ [r + 1] a1, l2]
    simp only [h.rsS, inB_single.mpr (show r + 1 < nrows + 1 by omega), if_true]
    exact h.rs_int (r + 1) (by omega)

/-- the lowered CSR product at `(r, rest)`: the sum over the stored entries of row `r` -/
theorem csrExpr_toRat (h : CsrOK nrows ncols nnz ev ec rs b R C E B) {binds : List (String × Arr Val)}
    (hb : CsrBinds binds ev ec rs b) {r : Nat} {rest : Idx} (hr : r < nrows)
    (hrest : inB b.shape.tail rest = true) :
    (eval (idxEnv (r :: rest) binds) (csrExpr b.shape.length)).toRat?
      = some (∑ k ∈ Finset.range (R (r + 1) - R r).toNat,
          E (R r + (k : Int)).toNat * B (C (R r + (k : Int)).toNat :: rest)) := by
  obtain ⟨_, _, hlo, hhi⟩ := csr_bounds_eval h hb (rest := rest) hr
  unfold csrExpr
  rw [eval_reduce_of _ _ _ _ _ _ _ _ hlo hhi]
  apply sum_fold_toRat
  intro k hk
  obtain ⟨_, e0, _, _, hin, e3⟩ := csr_body_eval h hb hr hrest hk
  obtain ⟨_, hpn⟩ := h.pos hr hk
  have : eval ((idxEnv (r :: rest) binds).bind "_r0" (R r + (k : Int)))
      (.mul (.sub "_in0" [.var "_r0"])
        (.sub "_in3" (.sub "_in1" [.var "_r0"] :: (List.range (b.shape.length - 1)).map fun d => ivar (d + 1))))
      = Val.mul (ev.get [(R r + (k : Int)).toNat]) (b.get (C (R r + (k : Int)).toNat :: rest)) := by
    rw [← e0, ← e3]; rfl
  rw [this]
  exact toRat_mul (h.ev_num _ hpn) (h.b_num _ hin)

/-- the dense specification at `(r, rest)` -/
theorem csrMatmulV_toRat (h : CsrOK nrows ncols nnz ev ec rs b R C E B) {r : Nat} {rest : Idx}
    (hr : r < nrows) (hrest : inB b.shape.tail rest = true) :
    ((csrMatmulV nrows ncols ev ec rs b).get (r :: rest)).toRat?
      = some (∑ j ∈ Finset.range ncols,
          (∑ k ∈ Finset.range (R (r + 1) - R r).toNat,
            if C (R r + (k : Int)).toNat = j then E (R r + (k : Int)).toNat else 0) * B (j :: rest)) := by
  simp only [csrMatmulV, List.getD_cons_zero, List.tail_cons]
  apply sum_fold_toRat
  intro j hj
  apply toRat_mul
  · simp only [csrDense, List.getD_cons_zero, List.getD_cons_succ, h.rs_int r (by omega),
      h.rs_int (r + 1) (by omega), Val.toInt?]
    apply sum_fold_toRat
    intro k hk
    obtain ⟨_, hpn⟩ := h.pos hr hk
    rw [(h.ec_col _ hpn).1]
    simp only [Option.some.injEq, Nat.cast_inj]
    by_cases hc : C (R r + (k : Int)).toNat = j
    · rw [if_pos hc, if_pos hc]; exact h.ev_num _ hpn
    · rw [if_neg hc, if_neg hc]; simp [Val.toRat?]
  · apply h.b_num
    rw [h.bshape]; exact inB_cons.mpr ⟨hj, hrest⟩

/-- `make_csr_matrix(...) @ b` lowered = the dense matrix the CSR triple denotes, times `b` -/
theorem csrExpr_sound (h : CsrOK nrows ncols nnz ev ec rs b R C E B) {binds : List (String × Arr Val)}
    (hb : CsrBinds binds ev ec rs b) (i : Idx) (hi : inB (nrows :: b.shape.tail) i = true) :
    Val.sameNum (eval (idxEnv i binds) (csrExpr b.shape.length))
        ((csrMatmulV nrows ncols ev ec rs b).get i)
    ∧ (eval (idxEnv i binds) (csrExpr b.shape.length)).toRat? ≠ none := by
  match i, hi with
  | [], hi => simp [inB] at hi
  | r :: rest, hi =>
    obtain ⟨hr, hrest⟩ := inB_cons.mp hi
    have e1 := csrExpr_toRat h hb hr hrest
    have e2 := csrMatmulV_toRat h (rest := rest) hr hrest
    refine ⟨?_, by rw [e1]; simp⟩
    unfold Val.sameNum
    rw [e1, e2, csr_sum_exchange _ ncols (fun k => C (R r + (k : Int)).toNat)
      (fun k => E (R r + (k : Int)).toNat) (fun j => B (j :: rest))]
    intro k hk
    exact (h.ec_col _ (h.pos hr hk).2).2

/-! #### accesses of the lowered CSR product -/

theorem accesses_sub_gen (env : Env) (nm : String) (ix : List SExpr) (arr : Arr Val) (j : Idx)
    (harr : env.lookupArr nm = some arr) (hj : toNatIdx (evalList env ix) = some j)
    (hin : inB arr.shape j = true) :
    accesses env (.sub nm ix)
      = accessesList env ix ++ [⟨nm, evalList env ix, !hasSubList ix, true⟩] := by
  simp [accesses, harr, hj, hin]

theorem accesses_reduce_of (env : Env) (op : RedOp) (v : String) (lo hi body : SExpr) (l h : Int)
    (hl : eval env lo = .i l) (hh : eval env hi = .i h) :
    accesses env (.reduce op v lo hi body)
      = accesses env lo ++ accesses env hi ++
        (List.range (h - l).toNat).flatMap fun (k : Nat) => accesses (env.bind v (l + (k : Int))) body := by
  simp only [accesses, hl, hh, Val.toInt?]

/-- every access of the lowered CSR product is in bounds — the reads of
    `row_starts[_0]`, `row_starts[_0 + 1]`, `elem_values[_r0]`,
    `elem_col_indices[_r0]` are affine; the read of `b[elem_col_indices[_r0], …]`
    is the (only) data-dependent one, and in bounds because the column indices are -/
theorem csrExpr_accesses (h : CsrOK nrows ncols nnz ev ec rs b R C E B)
    {binds : List (String × Arr Val)} (hb : CsrBinds binds ev ec rs b) (i : Idx)
    (hi : inB (nrows :: b.shape.tail) i = true) :
    ∀ acc ∈ accesses (idxEnv i binds) (csrExpr b.shape.length),
      acc.ok = true ∧ (acc.name ≠ "_in3" → acc.affine = true) := by
  match i, hi with
  | [], hi => simp [inB] at hi
  | r :: rest, hi =>
    obtain ⟨hr, hrest⟩ := inB_cons.mp hi
    obtain ⟨a0, a1, hlo, hhi⟩ := csr_bounds_eval h hb (rest := rest) hr
    have l2 : (idxEnv (r :: rest) binds).lookupArr "_in2" = some rs := hb.h2
    intro acc hacc
    unfold csrExpr at hacc
    rw [accesses_reduce_of _ _ _ _ _ _ _ _ hlo hhi, List.mem_append, List.mem_append] at hacc
    rcases hacc with (hacc | hacc) | hacc
    · rw [accesses_sub_ok _ "_in2" _ rs [r] rfl l2 (by rw [evalList_eq_map, a0, toNatIdx_map_i])
        (by rw [h.rsS]; exact inB_single.mpr (by omega))] at hacc
      simp only [List.mem_singleton] at hacc
      subst hacc; exact ⟨rfl, fun _ => rfl⟩
    · rw [accesses_sub_ok _ "_in2" _ rs [r + 1] rfl l2 (by rw [evalList_eq_map, a1, toNatIdx_map_i])
        (by rw [h.rsS]; exact inB_single.mpr (by omega))] at hacc
      simp only [List.mem_singleton] at hacc
      subst hacc; exact ⟨rfl, fun _ => rfl⟩
    · obtain ⟨k, hk, hacc⟩ := List.mem_flatMap.mp hacc
      have hk' : k < (R (r + 1) - R r).toNat := List.mem_range.mp hk
      obtain ⟨hv, _, _, hix, hin, _⟩ := csr_body_eval h hb hr hrest hk'
      obtain ⟨_, hpn⟩ := h.pos hr hk'
      have l0 : ((idxEnv (r :: rest) binds).bind "_r0" (R r + (k : Int))).lookupArr "_in0" = some ev := hb.h0
      have l1 : ((idxEnv (r :: rest) binds).bind "_r0" (R r + (k : Int))).lookupArr "_in1" = some ec := hb.h1
      have l3 : ((idxEnv (r :: rest) binds).bind "_r0" (R r + (k : Int))).lookupArr "_in3" = some b := hb.h3
      have hns : hasSubList ((List.range (b.shape.length - 1)).map fun d => ivar (d + 1)) = false :=
        hasSubList_map_range _ _ fun _ => rfl
      rw [accesses, accesses_sub_ok _ "_in0" _ ev _ rfl l0 (by rw [evalList_eq_map, hv, toNatIdx_map_i])
          (by rw [h.evS]; exact inB_single.mpr hpn),
        accesses_sub_gen _ "_in3" _ b _ l3 (by rw [evalList_eq_map, hix, toNatIdx_map_i]) hin,
        accessesList, accessesList_nil_of_noSub _ _ hns,
        accesses_sub_ok _ "_in1" _ ec _ rfl l1 (by rw [evalList_eq_map, hv, toNatIdx_map_i])
          (by rw [h.ecS]; exact inB_single.mpr hpn)] at hacc
      simp only [List.append_nil, List.cons_append,
        List.nil_append, List.mem_cons, List.not_mem_nil, or_false] at hacc
      rcases hacc with hacc | hacc | hacc
      · subst hacc; exact ⟨rfl, fun _ => rfl⟩
      · subst hacc; exact ⟨rfl, fun _ => rfl⟩
      · subst hacc; exact ⟨rfl, fun hne => absurd rfl hne⟩

end csr

end Pt

/-
  Property C16 — symbolic shapes: decisions are sound.
  `affEq` / `isNonNeg` are the models of `are_shape_components_equal` /
  `_is_non_negative` (tied to the real functions — which call ISL — by the
  exhaustive correspondence over the coefficient box).
-/
import PtProofs.AffineLemmas
namespace Pt

/-- Two affine shape components are treated as equal EXACTLY when they are equal
    for all non-negative parameter values. -/
theorem affEq_iff (d1 d2 : AExpr) :
    affEq d1 d2 = true ↔ ∀ v : String → Nat, d1.eval v = d2.eval v := by
  unfold affEq
  constructor
  · intro h v
    have := isZero_sound _ h v
    rw [eval_norm] at this
    simp only [AExpr.eval] at this
    omega
  · intro h
    apply isZero_complete _ (nodup_norm _)
    intro v
    rw [eval_norm]
    simp only [AExpr.eval, h v]; omega

/-- `_is_non_negative` answers true EXACTLY when the expression is ≥ 0 for all
    non-negative parameter values. -/
theorem isNonNeg_iff (d : AExpr) :
    isNonNeg d = true ↔ ∀ v : String → Nat, 0 ≤ d.eval v := by
  unfold isNonNeg
  constructor
  · intro h v
    have := nonNeg_sound _ h v
    rwa [eval_norm] at this
  · intro h
    apply nonNeg_complete _ (nodup_norm _)
    intro v; rw [eval_norm]; exact h v

/-- `_get_result_axis_length` for two symbolic axis lengths -/
def bcastDim (a b : AExpr) : Option AExpr :=
  if affEq b a || affEq b (.lit 1) then some a
  else if affEq a (.lit 1) then some b
  else none

/-- NumPy's rule for two concrete axis lengths -/
def npBcast (m n : Int) : Option Int :=
  if m = n then some m else if n = 1 then some m else if m = 1 then some n else none

/-- Whenever pytato merges two symbolic axes, NumPy merges the concrete axes to
    the same length at EVERY size valuation. -/
theorem broadcast_decision_sound (a b r : AExpr) (h : bcastDim a b = some r)
    (v : String → Nat) : npBcast (a.eval v) (b.eval v) = some (r.eval v) := by
  unfold bcastDim at h
  unfold npBcast
  split_ifs at h with h1 h2
  · cases h
    simp only [Bool.or_eq_true] at h1
    rcases h1 with h1 | h1
    · have := (affEq_iff _ _).mp h1 v
      simp [this]
    · have := (affEq_iff _ _).mp h1 v
      simp only [AExpr.eval] at this
      split_ifs <;> simp_all
  · cases h
    have := (affEq_iff _ _).mp h2 v
    simp only [AExpr.eval] at this
    split_ifs <;> simp_all

/-! non-vacuity -/
example : affEq (.add (.scale 2 (.param "n")) (.lit 1))
               (.add (.add (.param "n") (.param "n")) (.lit 1)) = true := by decide
example : affEq (.param "n") (.param "m") = false := by decide
example : isNonNeg (.add (.param "n") (.lit 3)) = true ∧ isNonNeg (.sub (.param "n") (.lit 1)) = false := by
  decide
example : (bcastDim (.param "n") (.lit 1)).isSome = true := by decide

end Pt

/-
  Helper lemmas and theorems for the reductions of the array API
  (`_make_reduction_lambda`): value (C02) and accesses (C11).
-/
import PtModel.Reduce
import PtProofs.EvalLemmas
import PtProofs.StackConcatLemmas
import PtProofs.AccessLemmas
import PtProofs.EinsumLowerLemmas
import PtProofs.AdvIndexLemmas
namespace Pt
open Lower Spec

/-- bind `_r<j>, _r<j+1>, …` to the entries of `r`, first outermost -/
def bindFrom : Env → Nat → Idx → Env
  | env, _, [] => env
  | env, j, x :: xs => bindFrom (env.bind (rName j) (x : Int)) (j + 1) xs

theorem bindFrom_pt : ∀ (r : Idx) (j : Nat) (env : Env), (bindFrom env j r).pt = env.pt
  | [], _, _ => rfl
  | x :: xs, j, env => by rw [bindFrom, bindFrom_pt xs]; rfl

theorem bindFrom_lookupArr : ∀ (r : Idx) (j : Nat) (env : Env) (nm : String),
    (bindFrom env j r).lookupArr nm = env.lookupArr nm
  | [], _, _, _ => rfl
  | x :: xs, j, env, nm => by rw [bindFrom, bindFrom_lookupArr xs]; rfl

theorem bindFrom_lookupIx_lt : ∀ (r : Idx) (j : Nat) (env : Env) (k : Nat), k < j →
    (bindFrom env j r).lookupIx (rName k) = env.lookupIx (rName k)
  | [], _, _, _, _ => rfl
  | x :: xs, j, env, k, h => by
    rw [bindFrom, bindFrom_lookupIx_lt xs (j + 1) _ k (by omega)]
    simp only [Env.lookupIx, Env.bind]
    rw [List.find?_cons_of_neg]
    simp only [beq_iff_eq]
    exact fun e => by have := rName_injective e; omega

/-- `_r<j+t>` holds `r[t]` -/
theorem bindFrom_lookupIx : ∀ (r : Idx) (j : Nat) (env : Env) (t : Nat), t < r.length →
    (bindFrom env j r).lookupIx (rName (j + t)) = some ((r.getD t 0 : Nat) : Int)
  | [], _, _, _, h => by simp at h
  | x :: xs, j, env, 0, _ => by
    show (bindFrom (env.bind (rName j) (x : Int)) (j + 1) xs).lookupIx (rName j) = _
    rw [bindFrom_lookupIx_lt xs (j + 1) _ j (by omega)]
    simp [Env.lookupIx, Env.bind]
  | x :: xs, j, env, t + 1, h => by
    have := bindFrom_lookupIx xs (j + 1) (env.bind (rName j) (x : Int)) t (by simpa using h)
    rw [bindFrom]
    have e : j + (t + 1) = j + 1 + t := by omega
    rw [e, this]; simp

/-- nested `Reduce`s evaluate to the iterated reduction of the body -/
theorem eval_wrapRed (op : RedOp) (body : SExpr) : ∀ (ns : Shape) (j : Nat) (env : Env),
    eval env (wrapRed op j ns body) = redOver op ns fun r => eval (bindFrom env j r) body
  | [], _, _ => by simp [wrapRed, redOver, bindFrom]
  | n :: ns, j, env => by
    simp only [wrapRed, eval, Val.toInt?, redOver, Int.sub_zero, Int.toNat_natCast]
    congr 1
    apply List.map_congr_left
    intro x _
    rw [eval_wrapRed op body ns]
    simp only [bindFrom, Int.zero_add]

theorem redOver_congr (op : RedOp) : ∀ (shape : Shape) (f g : Idx → Val),
    (∀ r, inB shape r = true → f r = g r) → redOver op shape f = redOver op shape g
  | [], f, g, h => by simpa [redOver] using h [] (by simp [inB])
  | n :: ns, f, g, h => by
    simp only [redOver]
    congr 1
    apply List.map_congr_left
    intro x hx
    apply redOver_congr op ns
    intro r hr
    exact h (x :: r) (inB_cons.mpr ⟨by simpa using hx, hr⟩)

/-- the subscript indices evaluate to the merged index, which is within the operand -/
theorem redIx_eval (env : Env) (i r : Idx) (hpt : env.pt = i)
    (hix : ∀ t, t < r.length → env.lookupIx (rName t) = some ((r.getD t 0 : Nat) : Int)) :
    ∀ (mask : List Bool) (shape : Shape) (nr no : Nat), mask.length = shape.length →
      inB (maskShape false mask shape) (i.drop no) = true →
      inB (maskShape true mask shape) (r.drop nr) = true →
      (redIx mask nr no).map (eval env) = (mergeIdx mask (i.drop no) (r.drop nr)).map
          (fun x => Val.i (x : Nat))
      ∧ inB shape (mergeIdx mask (i.drop no) (r.drop nr)) = true
  | [], [], _, _, _, _, _ => by simp [redIx, mergeIdx, inB]
  | [], _ :: _, _, _, h, _, _ => by simp at h
  | _ :: _, [], _, _, h, _, _ => by simp at h
  | true :: m, n :: ns, nr, no, hl, hi, hr => by
    simp only [maskShape, if_true, Bool.true_eq_false, if_false] at hi hr
    obtain ⟨hc, hx, hrest⟩ := drop_cons_of_inB hr
    obtain ⟨h1, h2⟩ := redIx_eval env i r hpt hix m ns (nr + 1) no (by simpa using hl) hi hrest
    rw [List.drop_eq_getElem_cons hc]
    simp only [redIx, List.map_cons, mergeIdx, eval, hix nr hc]
    have hg : r.getD nr 0 = r[nr] := by
      simp [List.getD_eq_getElem?_getD, List.getElem?_eq_getElem hc]
    rw [hg] at hx ⊢
    exact ⟨by rw [h1], inB_cons.mpr ⟨hx, h2⟩⟩
  | false :: m, n :: ns, nr, no, hl, hi, hr => by
    simp only [maskShape, if_true, Bool.false_eq_true, if_false] at hi hr
    obtain ⟨hc, hx, hrest⟩ := drop_cons_of_inB hi
    obtain ⟨h1, h2⟩ := redIx_eval env i r hpt hix m ns nr (no + 1) (by simpa using hl) hrest hr
    rw [List.drop_eq_getElem_cons hc]
    have hg : i.getD no 0 = i[no] := by
      simp [List.getD_eq_getElem?_getD, List.getElem?_eq_getElem hc]
    rw [hg] at hx
    simp only [redIx, List.map_cons, mergeIdx, ivar, eval, hpt, List.getElem?_eq_getElem hc]
    exact ⟨by rw [h1], inB_cons.mpr ⟨hx, h2⟩⟩

theorem hasSubList_redIx : ∀ (mask : List Bool) (nr no : Nat), hasSubList (redIx mask nr no) = false
  | [], _, _ => rfl
  | true :: m, nr, no => by simp [redIx, hasSubList, hasSub, hasSubList_redIx m]
  | false :: m, nr, no => by simp [redIx, hasSubList, hasSub, ivar, hasSubList_redIx m]

theorem redMask_length (rank : Nat) (axes : Option (List Nat)) : (redMask rank axes).length = rank := by
  simp [redMask]

/-- facts shared by the value and the access theorem: at every in-bounds
    valuation `r` of the reduction variables the subscript reads, in bounds, the
    element `a[merge(i, r)]` -/
theorem reduce_point (a : Arr Val) (axes : Option (List Nat)) (binds : List (String × Arr Val))
    (i r : Idx)
    (hi : inB (maskShape false (redMask a.shape.length axes) a.shape) i = true)
    (hr : inB (maskShape true (redMask a.shape.length axes) a.shape) r = true) :
    (redIx (redMask a.shape.length axes) 0 0).map (eval (bindFrom (idxEnv i binds) 0 r))
      = (mergeIdx (redMask a.shape.length axes) i r).map (fun x => Val.i (x : Nat))
    ∧ inB a.shape (mergeIdx (redMask a.shape.length axes) i r) = true := by
  have := redIx_eval (bindFrom (idxEnv i binds) 0 r) i r (by rw [bindFrom_pt]; rfl)
    (fun t ht => by have := bindFrom_lookupIx r 0 (idxEnv i binds) t ht; simpa using this)
    (redMask a.shape.length axes) a.shape 0 0 (redMask_length _ _) (by simpa using hi)
    (by simpa using hr)
  simpa using this

/-- `pt.sum / prod / amax / amin / all / any` = the reduction over the chosen axes -/
theorem reduceExpr_eval (op : RedOp) (a : Arr Val) (axes : Option (List Nat)) (e : SExpr)
    (binds : List (String × Arr Val)) (i : Idx)
    (he : reduceExpr op a.shape axes = some e)
    (hl : Raise.lookupEnv binds "in" = some a)
    (hi : inB (Spec.reduceV op axes a).shape i = true) :
    eval (idxEnv i binds) e = (Spec.reduceV op axes a).get i := by
  unfold reduceExpr at he
  simp only at he
  split_ifs at he
  simp only [Option.some.injEq] at he
  subst he
  rw [eval_wrapRed]
  simp only [Spec.reduceV]
  apply redOver_congr
  intro r hr
  obtain ⟨hev, hin⟩ := reduce_point a axes binds i r hi hr
  rw [eval_sub_of _ _ _ _ hev, bindFrom_lookupArr]
  have : (idxEnv i binds).lookupArr "in" = some a := hl
  simp only [this, hin, if_true]

theorem accesses_wrapRed (op : RedOp) (body : SExpr) :
    ∀ (ns : Shape) (j : Nat) (env : Env) (acc : Access), acc ∈ accesses env (wrapRed op j ns body) →
      ∃ r, inB ns r = true ∧ acc ∈ accesses (bindFrom env j r) body
  | [], _, env, acc, h => ⟨[], by simp [inB], by simpa [wrapRed, bindFrom] using h⟩
  | n :: ns, j, env, acc, h => by
    simp only [wrapRed, accesses, eval, Val.toInt?, List.nil_append, Int.sub_zero,
      Int.toNat_natCast, List.mem_flatMap, List.mem_range] at h
    obtain ⟨x, hx, hacc⟩ := h
    obtain ⟨r, hr, hb⟩ := accesses_wrapRed op body ns (j + 1) _ acc hacc
    refine ⟨x :: r, inB_cons.mpr ⟨hx, hr⟩, ?_⟩
    simpa only [bindFrom, Int.zero_add] using hb

/-- every access of a lowered reduction — in every iteration — is affine and in bounds -/
theorem reduceExpr_accesses (op : RedOp) (a : Arr Val) (axes : Option (List Nat)) (e : SExpr)
    (binds : List (String × Arr Val)) (i : Idx)
    (he : reduceExpr op a.shape axes = some e)
    (hl : Raise.lookupEnv binds "in" = some a)
    (hi : inB (Spec.reduceV op axes a).shape i = true) :
    ∀ acc ∈ accesses (idxEnv i binds) e, acc.ok = true ∧ acc.affine = true := by
  unfold reduceExpr at he
  simp only at he
  split_ifs at he
  simp only [Option.some.injEq] at he
  subst he
  intro acc hacc
  obtain ⟨r, hr, hb⟩ := accesses_wrapRed op _ _ _ _ acc hacc
  obtain ⟨hev, hin⟩ := reduce_point a axes binds i r hi hr
  have hla : (bindFrom (idxEnv i binds) 0 r).lookupArr "in" = some a := by
    rw [bindFrom_lookupArr]; exact hl
  rw [accesses_sub_ok _ "in" _ a _ (hasSubList_redIx _ 0 0) hla
    (by rw [evalList_eq_map, hev, toNatIdx_map_i]) hin] at hb
  simp only [List.mem_singleton] at hb
  subst hb
  exact ⟨rfl, rfl⟩

end Pt

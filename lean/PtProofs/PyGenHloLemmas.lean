/-
  C14: the expression emitted for a classified index lambda evaluates to the NumPy
  meaning of the high-level operation (core Lean only).
-/
import PtProofs.PyGenNodeLemmas
namespace Pt
namespace Py

theorem negate_negate (v : Val) : negate (negate v) = v := by
  cases v <;> simp [negate, Rat.neg_neg]

/-! ## scalar operands -/

theorem pyEval_nonfinite_np {env : PEnv} (hc : CleanEnv env) (dt s : String) :
    pyEval env (.call (.attr (.name "np") dt) [.str s] []) = some (.scalar .undef) := by
  simp [pyEval, pyEvalList, pyEvalKws, hc.np]

theorem pyEval_nonfinite_py {env : PEnv} (hc : CleanEnv env) (b : Bool) (s : String) :
    pyEval env (.call (.name (if b then "complex" else "float")) [.str s] []) = some (.scalar .undef) := by
  cases b <;> simp [pyEval, pyEvalList, pyEvalKws, hc.float, hc.complex]

theorem pyEval_constantOf (env : PEnv) (f : ScalarForm) (v : Val) :
    pyEval env (constantOf f v) = some (.scalar v) := by
  unfold constantOf
  split
  · simp [pyEval, negate_negate]
  · simp [pyEval]

theorem emitScalar_eval {env : PEnv} (hc : CleanEnv env) (f : ScalarForm) (c : SExpr)
    (hok : scalarOK f c = true) :
    pyEval env (emitScalar f (Raise.litVal c)) = some (.scalar (Raise.litVal c)) := by
  unfold emitScalar
  unfold scalarOK at hok
  cases hcls : f.cls <;> simp only [hcls] at hok ⊢
  · exact pyEval_constantOf env f _
  · have hv : Raise.litVal c = .undef := by simpa using hok
    rw [hv]
    split
    · exact pyEval_nonfinite_np hc _ _
    · exact pyEval_nonfinite_py hc _ _
  · split
    · rename_i hfl
      rw [if_pos hfl] at hok
      have hv : Raise.litVal c = .undef := by simpa using hok
      rw [hv]
      exact pyEval_nonfinite_np hc _ _
    · exact pyEval_constantOf env f _
  · split
    · rename_i hfl
      rw [if_pos hfl] at hok
      have hv : Raise.litVal c = .undef := by simpa using hok
      rw [hv]
      have := pyEval_nonfinite_np hc f.dtname "inf"
      simp only [pyEval, pyEvalList, pyEvalKws, hc.np] at this ⊢
      simp [negate]
    · exact pyEval_constantOf env f _

/-! ## array operands: the binding environment -/

theorem lookup_envOf {d : Nat → Option (Arr Val)} {n m : String} {c : Nat} {a : Arr Val} :
    ∀ (binds : List (String × Nat)), binds.find? (·.1 == n) = some (m, c) → d c = some a →
      Raise.lookupEnv (envOf d binds) n = some a
  | [], h, _ => by simp at h
  | b :: r, h, hd => by
    rw [List.find?_cons] at h
    by_cases hb : (b.1 == n) = true
    · simp only [hb] at h
      have hbm : b = (m, c) := by simpa using h
      subst hbm
      simp only [envOf, Raise.lookupEnv, List.filterMap_cons, hd, Option.map_some, List.find?_cons]
      simp only [hb]
      rfl
    · have hb' : (b.1 == n) = false := by simpa using hb
      simp only [hb'] at h
      have ih := lookup_envOf r h hd
      simp only [envOf, Raise.lookupEnv] at ih ⊢
      simp only [List.filterMap_cons]
      cases hdb : d b.2 with
      | none => simpa [hdb] using ih
      | some x =>
        simp only [Option.map_some, List.find?_cons, hb']
        exact ih

/-! ## operand slots -/

theorem slots_eval {g : PGraph} {inp : Nat → Option (Arr Val)} {env : PEnv} (hc : CleanEnv env)
    (binds : List (String × Nat)) (form : Nat → ScalarInfo → Gen ScalarForm) (lits : List ScalarInfo) :
    ∀ (ops : List Raise.Operand) (k : Nat) (sl : List Slot),
      slotsOf binds form lits k ops = .ok sl → slotsOK form lits k ops = true →
      ∀ (names : List String) (as : List (Arr Val)), BoundTo env names as →
        KidsDen g inp (slotKids sl) as →
        ∃ vs os, pyEvalList env (fillSlots sl names) = some vs ∧ opnds? vs = some os
          ∧ opndsOf (envOf (den g inp) binds) ops = some os ∧ vs.length = ops.length
  | [], k, sl, hs, _, names, as, _, _ => by
    simp only [slotsOf, Gen.ok.injEq] at hs
    subst hs
    exact ⟨[], [], by simp [fillSlots, pyEvalList], rfl, rfl, rfl⟩
  | .arr n :: os, k, sl, hs, hok, names, as, hb, hd => by
    simp only [slotsOf] at hs
    cases hf : binds.find? (·.1 == n) with
    | none => simp [hf] at hs
    | some mc =>
      obtain ⟨m, c⟩ := mc
      simp only [hf] at hs
      obtain ⟨r, hr, hsl⟩ := Gen.bind_ok.1 hs
      simp only [Gen.ok.injEq] at hsl
      subst hsl
      simp only [slotsOK] at hok
      match as, names, hb, hd with
      | a :: as', nm :: names', hb, hd =>
        obtain ⟨vs, os', h1, h2, h3, h4⟩ :=
          slots_eval hc binds form lits os (k + 1) r hr hok names' as' hb.2 hd.2
        refine ⟨.arr a :: vs, .arr a :: os', ?_, ?_, ?_, ?_⟩
        · simp [fillSlots, pyEvalList, pyEval_name hb.1, h1]
        · simp [opnds?, PyVal.opnd?, h2]
        · simp [opndsOf, opndOf, lookup_envOf binds hf hd.1, h3]
        · simp [h4]
      | [], _, _, hd => simp [slotKids, KidsDen] at hd
      | _ :: _, [], hb, _ => simp [BoundTo] at hb
  | .scalar c :: os, k, sl, hs, hok, names, as, hb, hd => by
    simp only [slotsOf] at hs
    simp only [slotsOK] at hok
    cases hf : findLit lits c with
    | none => simp [hf] at hs
    | some info =>
      simp only [hf] at hs hok
      obtain ⟨f, hform, hs⟩ := Gen.bind_ok.1 hs
      obtain ⟨r, hr, hsl⟩ := Gen.bind_ok.1 hs
      simp only [Gen.ok.injEq] at hsl
      subst hsl
      simp only [hform, Bool.and_eq_true] at hok
      obtain ⟨vs, os', h1, h2, h3, h4⟩ :=
        slots_eval hc binds form lits os (k + 1) r hr hok.2 names as hb hd
      refine ⟨.scalar (Raise.litVal c) :: vs, .scl (Raise.litVal c) :: os', ?_, ?_, ?_, ?_⟩
      · simp [fillSlots, pyEvalList, emitScalar_eval hc f c hok.1, h1]
      · simp [opnds?, PyVal.opnd?, h2]
      · simp [opndsOf, opndOf, h3]
      · simp [h4]

/-! ## the NumPy functions on evaluated arguments -/

theorem npCall_ones (s : List PyVal) (kws : List (String × PyVal)) :
    npCall "ones" [.seq s] kws = (nats? s).map fun s => .arr ⟨s, fun _ => oneVal (kindOfKw kws)⟩ := by
  simp [npCall]

theorem npCall_zeros (s : List PyVal) (kws : List (String × PyVal)) :
    npCall "zeros" [.seq s] kws = (nats? s).map fun s => .arr ⟨s, fun _ => zeroVal (kindOfKw kws)⟩ := by
  simp [npCall]

theorem npCall_full (s : List PyVal) (v : Val) (kws : List (String × PyVal)) :
    npCall "full" [.seq s, .scalar v] kws = (nats? s).map fun s => .arr ⟨s, fun _ => v⟩ := by
  simp [npCall]

theorem npCall_where (vs : List PyVal) :
    npCall "where" vs [] = (opnds? vs).bind fun os => (elementwise whereVal os).map .arr := by
  simp [npCall]

theorem npCall_logical_or (vs : List PyVal) :
    npCall "logical_or" vs [] = (opnds? vs).bind fun os => (elementwise (binVal .logicalOr) os).map .arr := by
  simp [npCall]

theorem npCall_logical_and (vs : List PyVal) :
    npCall "logical_and" vs [] = (opnds? vs).bind fun os => (elementwise (binVal .logicalAnd) os).map .arr := by
  simp [npCall]

theorem npCall_cmp (c : CmpOp) (vs : List PyVal) :
    npCall (cmpCall c) vs [] = (opnds? vs).bind fun os => (elementwise (binVal (.cmp c)) os).map .arr := by
  cases c <;> simp [npCall, cmpCall, cmpOfName]

theorem npCall_broadcast_to (a : Arr Val) (s : List PyVal) :
    npCall "broadcast_to" [.arr a, .seq s] [] = (nats? s).map fun s => .arr (Spec.broadcastTo s a) := by
  simp [npCall]

theorem npCall_c99 {f : String} (hf : f ∈ Raise.c99Funcs) (vs : List PyVal) :
    npCall (c99NumpyName f) vs [] = (opnds? vs).bind fun os =>
      (elementwise (fun xs => callExact (Raise.c99Prefix ++ f) xs) os).map .arr := by
  simp only [Raise.c99Funcs, List.mem_cons, List.not_mem_nil, or_false] at hf
  rcases hf with rfl | rfl | rfl | rfl | rfl | rfl | rfl | rfl | rfl | rfl | rfl | rfl | rfl | rfl | rfl | rfl
    | rfl | rfl | rfl <;>
  simp [npCall, c99NumpyName, MISMATCHED_C99, cmpOfName, redOfName, c99OfNumpyName, Raise.c99Funcs]

theorem npCall_reduce_all (op : RedOp) (a : Arr Val) :
    npCall (redName op) [.arr a] [] = some (.arr (npReduce op a (List.range a.shape.length))) := by
  cases op <;> simp [npCall, redName, cmpOfName, redOfName, kw?]

theorem npCall_reduce_one (op : RedOp) (a : Arr Val) (d : Nat) :
    npCall (redName op) [.arr a] [("axis", .scalar (.i (d : Nat)))] = some (.arr (npReduce op a [d])) := by
  cases op <;> simp [npCall, redName, cmpOfName, redOfName, kw?]

theorem npCall_reduce_many (op : RedOp) (a : Arr Val) (ks : List PyVal) :
    npCall (redName op) [.arr a] [("axis", .seq ks)] = (nats? ks).map fun ks => .arr (npReduce op a ks) := by
  cases op <;> simp [npCall, redName, cmpOfName, redOfName, kw?]

theorem kindOfKw_nil : kindOfKw [] = .rat := by simp [kindOfKw, kw?]

theorem kindOfKw_dtype (t : String) : kindOfKw [("dtype", .ref "np" (some t))] = kindOfTyname t := by
  simp [kindOfKw, kw?]

theorem pyEvalList_length {env : PEnv} : ∀ {es : List PyExpr} {vs : List PyVal},
    pyEvalList env es = some vs → es.length = vs.length
  | [], vs, h => by simp [pyEvalList] at h; subst h; rfl
  | e :: r, vs, h => by
    simp only [pyEvalList] at h
    cases h1 : pyEval env e with
    | none => simp [h1] at h
    | some v =>
      cases h2 : pyEvalList env r with
      | none => simp [h1, h2] at h
      | some vs' =>
        simp only [h1, h2, Option.some.injEq] at h
        subst h
        simp [pyEvalList_length h2]

theorem pyEvalList_append {env : PEnv} : ∀ {es fs : List PyExpr} {vs ws : List PyVal},
    pyEvalList env es = some vs → pyEvalList env fs = some ws → pyEvalList env (es ++ fs) = some (vs ++ ws)
  | [], fs, vs, ws, h, h' => by simp [pyEvalList] at h; subst h; simpa using h'
  | e :: r, fs, vs, ws, h, h' => by
    simp only [pyEvalList] at h
    cases h1 : pyEval env e with
    | none => simp [h1] at h
    | some v =>
      cases h2 : pyEvalList env r with
      | none => simp [h1, h2] at h
      | some vs' =>
        simp only [h1, h2, Option.some.injEq] at h
        subst h
        simp [pyEvalList, h1, pyEvalList_append h2 h']

theorem npCall_reduce_all_eval {env : PEnv} (hc : CleanEnv env) (op : RedOp) {n : String} {a : Arr Val}
    (hna : env.get? n = some (.arr a)) :
    pyEval env (.call (npf (redName op)) [.name n] [])
      = some (.arr (npReduce op a (List.range a.shape.length))) := by
  rw [pyEval_call_np hc (redName op) (pyEvalList_one (pyEval_name hna)) (pyEvalKws_nil env),
    npCall_reduce_all]

/-! ## per-operation soundness: the emitted right-hand side evaluates to NumPy's meaning of the
    high-level operation on the children's arrays -/

section Hlo
variable {g : PGraph} {inp : Nat → Option (Arr Val)} {env : PEnv} (hc : CleanEnv env)
  (cs : Nat → List (Option Nat)) (dt : DType) (shape : Shape) (binds : List (String × Nat))
  (lits : List ScalarInfo)
include hc

theorem pyEvalKws_dtype :
    pyEvalKws env [dtypeKw dt] = some [("dtype", .ref "np" (some dt.tyname))] := by
  unfold dtypeKw
  exact pyEvalKws_one (pyEval_np_attr hc _)

theorem pyEval_dtype_kws_default :
    pyEvalKws env (if dt.isDefaultFloat then [] else [dtypeKw dt])
      = some (if dt.isDefaultFloat then [] else [("dtype", .ref "np" (some dt.tyname))]) := by
  split
  · exact pyEvalKws_nil env
  · exact pyEvalKws_dtype hc dt

theorem full_sound (c : SExpr) {pre : Bool} {kids : List Nat} {mk : List String → PyExpr}
    (hp : hloPlan cs dt shape binds lits (.full c) = .ok (.stmt pre kids mk))
    (hs : suppHlo cs dt binds lits (.full c) = true) (names : List String) :
    pyEval env (mk names)
      = (npHlo (.full c) shape (kindOfTyname dt.tyname) (envOf (den g inp) binds)).map .arr := by
  simp only [hloPlan] at hp
  obtain ⟨info, hinfo, hp⟩ := Gen.bind_ok.1 hp
  rw [Gen.ofOption_ok] at hinfo
  simp only [Gen.ok.injEq, Plan.stmt.injEq] at hp
  obtain ⟨_, _, rfl⟩ := hp
  simp only [suppHlo, hinfo, Bool.and_eq_true, Bool.or_eq_true, Bool.not_eq_true'] at hs
  have hkind : kindOfKw (if dt.isDefaultFloat then ([] : List (String × PyVal))
      else [("dtype", .ref "np" (some dt.tyname))]) = kindOfTyname dt.tyname := by
    split
    · rename_i hd
      rcases hs.2 with h | h
      · simp [hd] at h
      · rw [kindOfKw_nil]; exact (by simpa using h : kindOfTyname dt.tyname = .rat).symm
    · exact kindOfKw_dtype _
  simp only [npHlo, Option.map_some]
  by_cases h1 : isOneLit c = true
  · simp only [h1, ↓reduceIte]
    rw [pyEval_call_np hc "ones" (pyEvalList_one (pyEval_shapeTuple env shape))
      (pyEval_dtype_kws_default hc dt), npCall_ones, nats?_shape]
    simp [hkind]
  · have h1' : isOneLit c = false := by simpa using h1
    by_cases h0 : isZeroLit c = true
    · simp only [h1', h0, Bool.false_eq_true, ↓reduceIte]
      rw [pyEval_call_np hc "zeros" (pyEvalList_one (pyEval_shapeTuple env shape))
        (pyEval_dtype_kws_default hc dt), npCall_zeros, nats?_shape]
      simp [hkind]
    · have h0' : isZeroLit c = false := by simpa using h0
      simp only [h1', h0', Bool.false_eq_true, ↓reduceIte]
      rw [pyEval_call_np hc "full"
        (pyEvalList_two (pyEval_shapeTuple env shape) (emitScalar_eval hc info.asIs c hs.1))
        (pyEvalKws_dtype hc dt),
        npCall_full, nats?_shape]
      simp

theorem slots_call_sound (f : String) (ops : List Raise.Operand)
    (form : Nat → ScalarInfo → Gen ScalarForm) {sl : List Slot}
    (hsl : slotsOf binds form lits 0 ops = .ok sl) (hok : slotsOK form lits 0 ops = true)
    {names : List String} {as : List (Arr Val)} (hb : BoundTo env names as)
    (hd : KidsDen g inp (slotKids sl) as) (F : List Opnd → Option (Arr Val))
    (hf : ∀ vs, npCall f vs [] = (opnds? vs).bind fun os => (F os).map .arr) :
    pyEval env (.call (npf f) (fillSlots sl names) [])
      = ((opndsOf (envOf (den g inp) binds) ops).bind F).map .arr := by
  obtain ⟨vs, os, h1, h2, h3, _⟩ := slots_eval hc binds form lits ops 0 sl hsl hok names as hb hd
  rw [pyEval_call_np hc f h1 (pyEvalKws_nil env), hf, h2, h3]
  simp

omit hc in
theorem arithOp_toRaise {op : Raise.BinOp} {pop : BinOp} (h : arithOp op = some pop) :
    pop.toRaise = op := by
  cases op <;> simp [arithOp] at h <;> subst h <;> rfl

theorem binary_sound (op : Raise.BinOp) (x1 x2 : Raise.Operand) {pre : Bool} {kids : List Nat}
    {mk : List String → PyExpr}
    (hp : hloPlan cs dt shape binds lits (.binary op x1 x2) = .ok (.stmt pre kids mk))
    (hs : suppHlo cs dt binds lits (.binary op x1 x2) = true)
    {names : List String} {as : List (Arr Val)} (hb : BoundTo env names as)
    (hd : KidsDen g inp kids as) :
    pyEval env (mk names)
      = (npHlo (.binary op x1 x2) shape (kindOfTyname dt.tyname) (envOf (den g inp) binds)).map .arr := by
  simp only [hloPlan] at hp
  simp only [suppHlo] at hs
  simp only [npHlo]
  cases hop : arithOp op with
  | some pop =>
    simp only [hop] at hp hs
    obtain ⟨sl, hsl, hp⟩ := Gen.bind_ok.1 hp
    simp only [Gen.ok.injEq, Plan.stmt.injEq] at hp
    obtain ⟨_, rfl, rfl⟩ := hp
    obtain ⟨vs, os, h1, h2, h3, h4⟩ := slots_eval hc binds _ lits [x1, x2] 0 sl hsl hs names as hb hd
    have hlen := pyEvalList_length h1
    rw [h4] at hlen
    match hes : fillSlots sl names, hlen with
    | [e1, e2], _ =>
      rw [hes] at h1
      simp only [pyEvalList] at h1
      cases he1 : pyEval env e1 with
      | none => simp [he1] at h1
      | some v1 =>
        cases he2 : pyEval env e2 with
        | none => simp [he1, he2] at h1
        | some v2 =>
          simp only [he1, he2, Option.some.injEq] at h1
          subst h1
          simp only [hes, pyEval, he1, he2, pyBin, h2, h3, Option.bind_some, arithOp_toRaise hop]
  | none =>
    simp only [hop] at hp hs
    cases op with
    | logicalOr =>
      simp only at hp
      obtain ⟨sl, hsl, hp⟩ := Gen.bind_ok.1 hp
      simp only [Gen.ok.injEq, Plan.stmt.injEq] at hp
      obtain ⟨_, rfl, rfl⟩ := hp
      exact slots_call_sound hc binds lits "logical_or" [x1, x2] _ hsl hs hb hd _ npCall_logical_or
    | logicalAnd =>
      simp only at hp
      obtain ⟨sl, hsl, hp⟩ := Gen.bind_ok.1 hp
      simp only [Gen.ok.injEq, Plan.stmt.injEq] at hp
      obtain ⟨_, rfl, rfl⟩ := hp
      exact slots_call_sound hc binds lits "logical_and" [x1, x2] _ hsl hs hb hd _ npCall_logical_and
    | cmp c =>
      simp only at hp
      obtain ⟨sl, hsl, hp⟩ := Gen.bind_ok.1 hp
      simp only [Gen.ok.injEq, Plan.stmt.injEq] at hp
      obtain ⟨_, rfl, rfl⟩ := hp
      exact slots_call_sound hc binds lits (cmpCall c) [x1, x2] _ hsl hs hb hd _ (npCall_cmp c)
    | _ => simp [arithOp] at hop

theorem call_sound (f : String) (args : List Raise.Operand) {pre : Bool} {kids : List Nat}
    {mk : List String → PyExpr}
    (hp : hloPlan cs dt shape binds lits (.call f args) = .ok (.stmt pre kids mk))
    (hs : suppHlo cs dt binds lits (.call f args) = true)
    {names : List String} {as : List (Arr Val)} (hb : BoundTo env names as)
    (hd : KidsDen g inp kids as) :
    pyEval env (mk names)
      = (npHlo (.call f args) shape (kindOfTyname dt.tyname) (envOf (den g inp) binds)).map .arr := by
  simp only [hloPlan] at hp
  simp only [suppHlo, Bool.and_eq_true] at hs
  simp only [npHlo]
  obtain ⟨sl, hsl, hp⟩ := Gen.bind_ok.1 hp
  simp only [Gen.ok.injEq, Plan.stmt.injEq] at hp
  obtain ⟨_, rfl, rfl⟩ := hp
  have hf : f ∈ Raise.c99Funcs := by simpa using hs.1
  exact slots_call_sound hc binds lits (c99NumpyName f) args _ hsl hs.2 hb hd _ (npCall_c99 hf)

theorem where_sound (c t e : Raise.Operand) {pre : Bool} {kids : List Nat}
    {mk : List String → PyExpr}
    (hp : hloPlan cs dt shape binds lits (.where_ c t e) = .ok (.stmt pre kids mk))
    (hs : suppHlo cs dt binds lits (.where_ c t e) = true)
    {names : List String} {as : List (Arr Val)} (hb : BoundTo env names as)
    (hd : KidsDen g inp kids as) :
    pyEval env (mk names)
      = (npHlo (.where_ c t e) shape (kindOfTyname dt.tyname) (envOf (den g inp) binds)).map .arr := by
  simp only [hloPlan] at hp
  simp only [suppHlo] at hs
  simp only [npHlo]
  obtain ⟨sl, hsl, hp⟩ := Gen.bind_ok.1 hp
  simp only [Gen.ok.injEq, Plan.stmt.injEq] at hp
  obtain ⟨_, rfl, rfl⟩ := hp
  exact slots_call_sound hc binds lits "where" [c, t, e] _ hsl hs hb hd _ npCall_where

omit hc in
theorem pyEvalList_shapeNums (s : Shape) :
    pyEvalList env (s.map fun d => PyExpr.num (toString d) (.i (d : Nat)))
      = some (s.map fun d => .scalar (.i (d : Nat))) := by
  induction s with
  | nil => simp [pyEvalList]
  | cons d r ih =>
    simp only [List.map_cons, pyEvalList, pyEval]
    rw [ih]

theorem zerosLike_sound (x : String) {pre : Bool} {kids : List Nat} {mk : List String → PyExpr}
    (hp : hloPlan cs dt shape binds lits (.zerosLike x) = .ok (.stmt pre kids mk))
    (names : List String) :
    pyEval env (mk names)
      = (npHlo (.zerosLike x) shape (kindOfTyname dt.tyname) (envOf (den g inp) binds)).map .arr := by
  simp only [hloPlan, Gen.ok.injEq, Plan.stmt.injEq] at hp
  obtain ⟨_, _, rfl⟩ := hp
  simp only [npHlo, Option.map_some]
  have ht : pyEval env (.tuple (shape.map fun d => PyExpr.num (toString d) (.i (d : Nat))))
      = some (.seq (shape.map fun d => .scalar (.i (d : Nat)))) := by
    simp only [pyEval, pyEvalList_shapeNums (env := env) shape, Option.map_some]
  rw [pyEval_call_np hc "zeros" (pyEvalList_one ht) (pyEvalKws_dtype hc dt), npCall_zeros, nats?_shape]
  simp [kindOfKw_dtype]

theorem broadcast_sound (x : String) {pre : Bool} {kids : List Nat} {mk : List String → PyExpr}
    (hp : hloPlan cs dt shape binds lits (.broadcast x) = .ok (.stmt pre kids mk))
    {names : List String} {as : List (Arr Val)} (hb : BoundTo env names as)
    (hd : KidsDen g inp kids as) :
    pyEval env (mk names)
      = (npHlo (.broadcast x) shape (kindOfTyname dt.tyname) (envOf (den g inp) binds)).map .arr := by
  simp only [hloPlan] at hp
  simp only [npHlo]
  obtain ⟨sl, hsl, hp⟩ := Gen.bind_ok.1 hp
  simp only [Gen.ok.injEq, Plan.stmt.injEq] at hp
  obtain ⟨_, rfl, rfl⟩ := hp
  obtain ⟨vs, os, h1, h2, h3, h4⟩ :=
    slots_eval hc binds _ lits [.arr x] 0 sl hsl (by simp [slotsOK]) names as hb hd
  simp only [opndsOf, opndOf] at h3
  cases hl : Raise.lookupEnv (envOf (den g inp) binds) x with
  | none => simp [hl] at h3
  | some a =>
    simp only [hl, Option.map_some, Option.some.injEq] at h3
    subst h3
    match vs, h2, h4 with
    | [v], h2, _ =>
      have hv : v = .arr a := by
        cases v <;> simp [opnds?, PyVal.opnd?] at h2
        rw [h2]
      subst hv
      rw [pyEval_call_np hc "broadcast_to"
        (pyEvalList_append h1 (pyEvalList_one (pyEval_shapeTuple env shape))) (pyEvalKws_nil env)]
      show npCall "broadcast_to" [.arr a, .seq _] [] = _
      rw [npCall_broadcast_to, nats?_shape]
      simp

theorem reduce_sound (op : RedOp) (x : String) (axes : List (Nat × String)) {pre : Bool}
    {kids : List Nat} {mk : List String → PyExpr}
    (hp : hloPlan cs dt shape binds lits (.reduce op x axes) = .ok (.stmt pre kids mk))
    (hs : suppHlo cs dt binds lits (.reduce op x axes) = true)
    (hrank : ∀ c a, den g inp c = some a → a.shape.length = (cs c).length)
    {names : List String} {as : List (Arr Val)} (hb : BoundTo env names as)
    (hd : KidsDen g inp kids as) :
    pyEval env (mk names)
      = (npHlo (.reduce op x axes) shape (kindOfTyname dt.tyname) (envOf (den g inp) binds)).map .arr := by
  simp only [hloPlan] at hp
  obtain ⟨c, hfc, hp⟩ := Gen.bind_ok.1 hp
  rw [Gen.ofOption_ok] at hfc
  simp only [Gen.ok.injEq, Plan.stmt.injEq] at hp
  obtain ⟨_, rfl, rfl⟩ := hp
  simp only [suppHlo, hfc] at hs
  obtain ⟨a, n, rfl, rfl, hda, hna⟩ := kids1 hb hd
  obtain ⟨mc, hfind, hmc⟩ := Option.map_eq_some_iff.1 hfc
  obtain ⟨m, c'⟩ := mc
  simp only at hmc
  subst hmc
  simp only [npHlo, lookup_envOf binds hfind hda, Option.map_some, List.headD_cons]
  have hr := hrank _ a hda
  generalize hdims : axes.map (·.1) = dims at hs ⊢
  by_cases hall : ((List.range (cs c').length).all dims.contains) = true
  · rw [if_pos hall] at hs ⊢
    have : dims = List.range (cs c').length := by simpa using hs
    rw [npCall_reduce_all_eval hc op hna, this, hr]
  · rw [if_neg hall] at hs ⊢
    have hsorted : dims = sortBy (fun a b => decide (a < b)) dims := by simpa using hs
    match dims, hsorted with
    | [d], _ =>
      simp only
      rw [pyEval_call_np hc (redName op) (pyEvalList_one (pyEval_name hna))
        (pyEvalKws_one (pyEval_intConst env (d : Nat))), npCall_reduce_one]
    | [], hsorted =>
      simp only
      have ht : pyEval env (.tuple ((sortBy (fun a b => decide (a < b)) ([] : List Nat)).map
          fun d => intConst (d : Nat))) = some (.seq []) := by
        simp [sortBy, pyEval, pyEvalList]
      rw [pyEval_call_np hc (redName op) (pyEvalList_one (pyEval_name hna)) (pyEvalKws_one ht),
        npCall_reduce_many]
      simp [nats?, ints?]
    | d1 :: d2 :: r, hsorted =>
      simp only
      have ht := pyEval_shapeTuple env (sortBy (fun a b => decide (a < b)) (d1 :: d2 :: r))
      unfold shapeTuple at ht
      rw [pyEval_call_np hc (redName op) (pyEvalList_one (pyEval_name hna)) (pyEvalKws_one ht),
        npCall_reduce_many, nats?_shape, ← hsorted]
      rfl

end Hlo

end Py
end Pt

/-
  Properties C01 / C07 — the loopy STATEMENT GENERATOR (`PtModel.LoopyGen`, tied to the real
  `generate_loopy` statement by statement: harness batch
  `lean-statement-generator-model-vs-real-kernel`).

  `loopygen_sound_partial`: on the reduction-free fragment (`suppAll`: no reduction, no Boolean
  constant, no empty axis; any mix of inlined / `ImplStored` / named temporaries, several outputs
  using each other) executing the generated kernel in its own order leaves in every output array,
  at every in-bounds index, the value the output DENOTES (`den`: `evalIL` over the input arrays).
-/
import PtProofs.LoopyGenTraverse
import PtProofs.C01
namespace Pt
namespace LG

/-! ## the denotation does not depend on the fuel -/

theorem denote_fuel_irrel {g : LGraph} (hw : WFG g) (inp : String → Arr Val) :
    ∀ (f1 f2 i : Nat), i < f1 → i < f2 → denote g inp f1 i = denote g inp f2 i
  | 0, _, _, h, _ => absurd h (Nat.not_lt_zero _)
  | _ + 1, 0, _, _, h => absurd h (Nat.not_lt_zero _)
  | f1 + 1, f2 + 1, i, h1, h2 => by
    simp only [denote]
    cases hn : g.get i with
    | indexLambda shape e binds impl tag uo rvars =>
      simp only
      congr 1
      apply List.map_congr_left
      intro b hb
      have hc : b.2 < i := hw i b.2 (by simp only [kidsOf, hn]; exact List.mem_map.2 ⟨b, hb, rfl⟩)
      rw [denote_fuel_irrel hw inp f1 f2 b.2 (by omega) (by omega)]
    | _ => rfl

theorem den_input {g : LGraph} (inp : String → Arr Val) {i : Nat} {name : String} {shape : Shape}
    (hn : g.get i = .input name shape) : den g inp i = inp name := by
  simp [den, denote, hn]

theorem den_il {g : LGraph} (hw : WFG g) (inp : String → Arr Val) {i : Nat} {shape : Shape} {e : SExpr}
    {binds : List (String × Nat)} {impl : Strategy} {tag : NameTag} {uo : List String} {rvars : List RVar}
    (hn : g.get i = .indexLambda shape e binds impl tag uo rvars) :
    den g inp i = evalIL e shape (binds.map fun b => (b.1, den g inp b.2)) := by
  have h1 : denote g inp (i + 1) i = evalIL e shape (binds.map fun b => (b.1, denote g inp i b.2)) := by
    simp only [denote, hn]
  show denote g inp (i + 1) i = _
  rw [h1]
  congr 1
  apply List.map_congr_left
  intro b hb
  have hc : b.2 < i := hw i b.2 (by simp only [kidsOf, hn]; exact List.mem_map.2 ⟨b, hb, rfl⟩)
  show (b.1, denote g inp i b.2) = (b.1, denote g inp (b.2 + 1) b.2)
  rw [denote_fuel_irrel hw inp i (b.2 + 1) b.2 hc (Nat.lt_succ_self _)]

/-! ## hypotheses -/

/-- the standing hypotheses about the graph, its inputs and the initial store -/
structure Hyp (g : LGraph) (inp : String → Arr Val) (σ0 : Store) (inputNames : List String) : Prop where
  wf : WFG g
  /-- every input is bound, in the initial store, to an array of its declared shape -/
  inputs : ∀ i name shape, g.get i = .input name shape →
    name ∈ inputNames ∧ σ0.get? name = some (inp name) ∧ (inp name).shape = shape
  /-- memory safety (C11): every subscript an index lambda evaluates at an in-bounds point is
      within the bounds of its binding, with non-negative integer indices -/
  safe : ∀ i shape e binds impl tag uo rvars, g.get i = .indexLambda shape e binds impl tag uo rvars →
    ∀ j, inB shape j = true → Safe (idxEnv j (binds.map fun b => (b.1, den g inp b.2))) e

theorem den_shape {g : LGraph} {inp : String → Arr Val} {σ0 : Store} {inputNames : List String}
    (hy : Hyp g inp σ0 inputNames) {i : Nat} (hs : suppNode g i = true) :
    (den g inp i).shape = shapeOf g i := by
  cases hn : g.get i with
  | input name shape =>
    rw [den_input inp hn, (hy.inputs i name shape hn).2.2]
    simp [shapeOf, hn]
  | indexLambda shape e binds impl tag uo rvars =>
    rw [den_il hy.wf inp hn]
    simp [shapeOf, hn, evalIL]
  | refused w => simp [suppNode, hn] at hs
  | other w => simp [suppNode, hn] at hs

theorem suppAll_succ {g : LGraph} {fuel i : Nat} (h : suppAll g (fuel + 1) i = true) :
    suppNode g i = true ∧ ∀ c ∈ kidsOf g i, suppAll g fuel c = true := by
  simp only [suppAll, Bool.and_eq_true, List.all_eq_true] at h
  exact h

theorem suppAll_node {g : LGraph} : ∀ {fuel i : Nat}, suppAll g fuel i = true → suppNode g i = true
  | 0, _, h => by simp [suppAll] at h
  | _ + 1, _, h => (suppAll_succ h).1

/-! ## the value of a result at a point of the box -/

theorem avoids_pointEnv {G : String → Prop} {inames : List String} (h : ∀ x, G x → x ∉ inames) (q : Idx) :
    Avoids G (pointEnv inames q []) := by
  intro x hx
  rw [lookup_pointEnv_outer inames q [] x (h x hx)]
  rfl

/-- `result.to_loopy_expression(inames)` evaluated at the point `q` of the box is the element `q`
    of the array the result implements -/
theorem toExpr_at_point {σ : Store} {G : String → Prop} {r : Impl} {D : Arr Val} (hok : ImplOK σ G r D)
    {inames : List String} (hnd : inames.Nodup) (hG : ∀ x, G x → x ∉ inames)
    {q : Idx} (hq : inB D.shape q = true) (hlen : inames.length = D.shape.length) :
    eval { pt := [], ix := pointEnv inames q [], arr := σ } (r.toExpr (inameVars inames)) = D.get q := by
  have hql : inames.length = q.length := by rw [hlen, inB_length hq]
  have hvals := evalList_inameVars σ inames q [] hnd hql [] (by simp)
  have hav := avoids_pointEnv hG q
  cases r with
  | stored name deps =>
    obtain ⟨hGn, hst⟩ := hok
    simp only [Impl.toExpr]
    by_cases hemp : (inameVars inames).isEmpty = true
    · rw [if_pos hemp]
      have hi0 : inames = [] := by simpa [inameVars] using hemp
      have hD0 : D.shape = [] := List.length_eq_zero_iff.1 (by rw [← hlen, hi0]; rfl)
      have hq0 : q = [] := List.length_eq_zero_iff.1 (by rw [← hql, hi0]; rfl)
      subst hq0
      exact eval_var_stored hst hD0 [] (hav name hGn)
    · rw [if_neg hemp]
      obtain ⟨a, ha, hsh, hget⟩ := hst
      have h2 : Env.lookupArr { pt := [], ix := pointEnv inames q [], arr := σ } name = some a := ha
      have hin' : inB a.shape q = true := by rw [hsh]; exact hq
      simp only [eval, h2, hvals, toNatIdx_idxVals, hin', if_true]
      exact hget q hq
  | inlined le deps =>
    obtain ⟨h1, _, h3⟩ := hok
    simp only [Impl.toExpr]
    have h1' : exprOK (inameVars inames).length le = true := by
      simpa [inameVars, hlen] using h1
    rw [eval_substIdx (inameVars inames) q le _ h1' hvals]
    exact h3 q _ hq hav

/-! ## the invariant of the traversal -/

section Traversal
variable (g : LGraph) (inp : String → Arr Val) (σ0 : Store) (inputNames : List String)
  (E0 : List String) (done : List String)

/-- the names of arrays: the inputs and what the statements emitted so far write -/
def arrNames (st : St) (x : String) : Prop := x ∈ inputNames ∨ x ∈ st.stmts.map (·.lhs)

/-- the store after the statements emitted so far, in emission order -/
def storeOf (st : St) : Store := execOrder σ0 st.stmts.reverse

/-- `E0` = the names the generator was seeded with; `done` = the outputs stored so far -/
structure Inv (st : St) : Prop where
  names : ∀ x, arrNames inputNames st x → x ∈ st.vng.existing
  seeds : ∀ x ∈ E0, x ∈ st.vng.existing
  results : ∀ i r, (i, r) ∈ st.results →
    ImplOK (storeOf σ0 st) (arrNames inputNames st) r (den g inp i)
  active : ∀ s ∈ st.stmts, s.noop = false
  origin : ∀ s ∈ st.stmts, s.lhs ∈ done ∨ s.lhs ∉ E0

variable {g inp σ0 inputNames E0 done}

/-- a state that differs only by generators that know more names -/
theorem Inv.grow {st st1 : St} (h : Inv g inp σ0 inputNames E0 done st) (hs : st1.stmts = st.stmts)
    (hr : st1.results = st.results) (he : ∀ x ∈ st.vng.existing, x ∈ st1.vng.existing) :
    Inv g inp σ0 inputNames E0 done st1 := by
  have ha : arrNames inputNames st1 = arrNames inputNames st := by
    funext x; simp [arrNames, hs]
  have hσ : storeOf σ0 st1 = storeOf σ0 st := by simp [storeOf, hs]
  refine ⟨fun x hx => he x (h.names x (ha ▸ hx)), fun x hx => he x (h.seeds x hx), ?_, ?_, ?_⟩
  · intro i r hm
    rw [ha, hσ]
    exact h.results i r (hr ▸ hm)
  · rw [hs]; exact h.active
  · rw [hs]; exact h.origin

theorem Inv.drew {st st1 : St} {n : String} (h : Inv g inp σ0 inputNames E0 done st) (d : Drew st st1 n) :
    Inv g inp σ0 inputNames E0 done st1 :=
  h.grow d.stmts d.results (fun x hx => by rw [d.ex]; exact List.mem_cons_of_mem _ hx)

theorem Inv.drewMany {st st1 : St} {ns : List String} (h : Inv g inp σ0 inputNames E0 done st)
    (d : DrewMany st st1 ns) : Inv g inp σ0 inputNames E0 done st1 :=
  h.grow d.stmts d.results (fun x hx => (d.mem x).2 (Or.inr hx))

theorem Inv.insnId {st st1 : St} {b n : String} (h : Inv g inp σ0 inputNames E0 done st)
    (hi : st.insnId b = .ok (n, st1)) : Inv g inp σ0 inputNames E0 done st1 := by
  obtain ⟨g', _, rfl⟩ := St.insnId_ok hi
  exact h.grow rfl rfl (fun _ hx => hx)

theorem storeStmt_active {id name : String} {inames : List String} {shape : Shape} {lets : List (String × SExpr)}
    {rhs : SExpr} {deps : List String} (hne : isEmptyShape shape = false) :
    (storeStmt id name inames shape lets rhs deps).noop = false ∧
    (storeStmt id name inames shape lets rhs deps).lhs = name ∧
    (storeStmt id name inames shape lets rhs deps).loops = box inames shape := by
  unfold storeStmt; rw [hne]; exact ⟨rfl, rfl, rfl⟩

theorem extent_box : ∀ (inames : List String) (shape : Shape), inames.length = shape.length →
    (box inames shape).map (fun l => match l.2.2 with | .int n => n.toNat | _ => 0) = shape
  | [], [], _ => rfl
  | [], _ :: _, h => by simp at h
  | _ :: _, [], h => by simp at h
  | i :: is, d :: ds, h => by
    have ih := extent_box is ds (by simpa using h)
    unfold box at ih ⊢
    simp only [List.zip_cons_cons, List.map_cons, Int.toNat_natCast, ih]

/-- the initial store allocates what the kernel writes -/
def Alloc (σ0 : Store) (stmts : List KStmt) : Prop :=
  ∀ s ∈ stmts, s.noop = false → ∃ a, σ0.get? s.lhs = some a ∧ a.shape = extent s

/-- **emitting a store.**  A fresh array name, fresh distinct inames, a right-hand side that at
    every point of the box has the value of `D` there: afterwards the result `stored name` implements
    `D`, and everything implemented before still is. -/
theorem Inv.emit {st : St} (hinv : Inv g inp σ0 inputNames E0 done st) {id name : String}
    {inames : List String} {shape : Shape} {rhs : SExpr} {deps : List String} {i : Nat}
    (hne : isEmptyShape shape = false) (hlen : inames.length = shape.length) (hnd : inames.Nodup)
    (hname : ¬ arrNames inputNames st name) (hnameEx : name ∈ st.vng.existing)
    (horigin : name ∈ done ∨ name ∉ E0)
    (halloc : Alloc σ0 (storeStmt id name inames shape [] rhs deps :: st.stmts))
    (hDs : (den g inp i).shape = shape) (hread : name ∉ readNames rhs)
    (hval : ∀ q, inB shape q = true →
      eval { pt := [], ix := pointEnv inames q [], arr := storeOf σ0 st } rhs = (den g inp i).get q) :
    Inv g inp σ0 inputNames E0 done
      ((st.emit (storeStmt id name inames shape [] rhs deps)).remember i (.stored name [id])) := by
  obtain ⟨hact, hlhs, hloops⟩ := storeStmt_active (id := id) (name := name) (inames := inames)
    (lets := []) (rhs := rhs) (deps := deps) hne
  -- the array is allocated and untouched so far
  obtain ⟨a, ha0, hash⟩ := halloc _ (by simp) hact
  rw [hlhs] at ha0
  have hext : extent (storeStmt id name inames shape [] rhs deps) = shape := by
    unfold extent; rw [hloops]; exact extent_box inames shape hlen
  rw [hext] at hash
  have hnl : name ∉ st.stmts.map (·.lhs) := fun h => hname (Or.inr h)
  have ha : (storeOf σ0 st).get? name = some a := by
    unfold storeOf
    rw [execOrder_frame name _ σ0 (fun s hs => Or.inr (fun e => hnl (by
      rw [e]; exact List.mem_map.2 ⟨s, List.mem_reverse.1 hs, rfl⟩)))]
    exact ha0
  obtain ⟨b, hb, hbs, hbσ, hbq⟩ := execStmt_store (storeOf σ0 st) id name inames shape rhs deps a hne hlen hnd
    ha hread
  have hσ' : storeOf σ0 (st.emit (storeStmt id name inames shape [] rhs deps))
      = execStmt (storeOf σ0 st) (storeStmt id name inames shape [] rhs deps) := by
    simp [storeOf, St.emit, execOrder_snoc]
  have hG' : ∀ x, arrNames inputNames (st.emit (storeStmt id name inames shape [] rhs deps)) x ↔
      x = name ∨ arrNames inputNames st x := by
    intro x
    simp only [arrNames, St.emit, List.map_cons, List.mem_cons, hlhs]
    constructor
    · rintro (h | h | h)
      · exact Or.inr (Or.inl h)
      · exact Or.inl h
      · exact Or.inr (Or.inr h)
    · rintro (h | h | h)
      · exact Or.inr (Or.inl h)
      · exact Or.inl h
      · exact Or.inr (Or.inr h)
  refine ⟨?_, hinv.seeds, ?_, ?_, ?_⟩
  · intro x hx
    rcases (hG' x).1 hx with rfl | hx
    · exact hnameEx
    · exact hinv.names x hx
  · intro j r hm
    simp only [St.remember, St.emit, List.mem_cons, Prod.mk.injEq] at hm
    show ImplOK (storeOf σ0 (st.emit (storeStmt id name inames shape [] rhs deps)))
      (arrNames inputNames (st.emit (storeStmt id name inames shape [] rhs deps))) r (den g inp j)
    rw [hσ']
    rcases hm with ⟨rfl, rfl⟩ | hm
    · refine ⟨(hG' name).2 (Or.inl rfl), b, hb, by rw [hbs, hash, hDs], fun q hq => ?_⟩
      rw [hDs] at hq
      rw [hbq q (by rw [hlen, inB_length hq]), if_pos hq]
      exact hval q hq
    · refine (hinv.results j r hm).mono (fun x hx => (hG' x).2 (Or.inr hx)) (fun x hx => ?_)
      exact hbσ x (fun e => hname (e ▸ hx))
  · intro s hs
    simp only [St.remember, St.emit, List.mem_cons] at hs
    rcases hs with rfl | hs
    · exact hact
    · exact hinv.active s hs
  · intro s hs
    simp only [St.remember, St.emit, List.mem_cons] at hs
    rcases hs with rfl | hs
    · rw [hlhs]; exact horigin
    · exact hinv.origin s hs

end Traversal

/-! ## inversion of the generator on the fragment -/

theorem lookupResult_mem {rs : List (Nat × Impl)} {i : Nat} {r : Impl} (h : lookupResult rs i = some r) :
    (i, r) ∈ rs := by
  unfold lookupResult at h
  obtain ⟨p, hp, hn⟩ := Option.map_eq_some_iff.1 h
  have h1 := List.mem_of_find?_eq_some hp
  have h2 := List.find?_some hp
  obtain ⟨a, b⟩ := p
  simp only [beq_iff_eq] at h2
  simp only at hn
  subst h2 hn
  exact h1

theorem replaceBounds_nil : ∀ (e : SExpr), replaceBounds [] e = e
  | .int _ | .bool _ | .rat _ _ | .nan | .idx _ | .var _ | .sub _ _ | .call _ _ => by simp [replaceBounds]
  | .add a c | .mul a c | .quot a c | .fdiv a c | .rem a c | .pow a c | .cmp _ a c | .land a c | .lor a c => by
    simp [replaceBounds, replaceBounds_nil a, replaceBounds_nil c]
  | .lnot a | .cast _ a => by simp [replaceBounds, replaceBounds_nil a]
  | .ite c t e => by simp [replaceBounds, replaceBounds_nil c, replaceBounds_nil t, replaceBounds_nil e]
  | .reduce _ _ _ _ body => by simp [replaceBounds, replaceBounds_nil body]

theorem readBackBounds_nil (uniq : List (String × String)) : ∀ (e : SExpr), readBackBounds [] uniq e = e
  | .int _ | .bool _ | .rat _ _ | .nan | .idx _ | .var _ | .sub _ _ | .call _ _ => by simp [readBackBounds]
  | .add a c | .mul a c | .quot a c | .fdiv a c | .rem a c | .pow a c | .cmp _ a c | .land a c | .lor a c => by
    simp [readBackBounds, readBackBounds_nil uniq a, readBackBounds_nil uniq c]
  | .lnot a | .cast _ a => by simp [readBackBounds, readBackBounds_nil uniq a]
  | .ite c t e => by
    simp [readBackBounds, readBackBounds_nil uniq c, readBackBounds_nil uniq t, readBackBounds_nil uniq e]
  | .reduce _ _ lo hi body => by
    simp only [readBackBounds, readBackBounds_nil uniq body, List.any_nil]
    cases lo <;> cases hi <;> simp

theorem emitStored_nil (bd : List String) (id name : String) (inames : List String) (shape : Shape)
    (rhs : SExpr) (deps : List String) (st : St) :
    emitStored [] bd id name inames shape rhs deps st = st.emit (storeStmt id name inames shape [] rhs deps) := by
  unfold emitStored
  split
  · simp
  · have hf : ∀ (l : List String), l.filter (fun _ => true) = l := by
      intro l; induction l with
      | nil => rfl
      | cons a r ih => simp [List.filter, ih]
    simp [sortLets, hf]

theorem ilInline_inv {e : SExpr} {ns : List (String × Impl)} {i : Nat} {st st' : St} {r : Impl}
    (h : ilInline e [] ns [] i st = .ok (r, st')) :
    ∃ le, gen ns [] e = some le ∧ r = .inlined le (genDeps ns [] e) ∧ st' = st.remember i r := by
  unfold ilInline at h
  simp only [renameRed_nil, List.nil_append] at h
  cases hg : gen ns [] e with
  | none => simp [hg] at h
  | some le =>
    simp only [hg, Res.ok.injEq, Prod.mk.injEq] at h
    obtain ⟨rfl, rfl⟩ := h
    exact ⟨le, rfl, rfl, rfl⟩

theorem ilStore_inv {shape : Shape} {e : SExpr} {tag : NameTag} {ns : List (String × Impl)} {i : Nat}
    {st st' : St} {r : Impl} (h : ilStore shape e tag [] [] ns [] i st = .ok (r, st')) :
    ∃ name st2 inames st3 le id st4, tempName st tag = .ok (name, st2) ∧
      St.vars st2 (dimNames name shape.length) = .ok (inames, st3) ∧ gen ns [] e = some le ∧
      st3.insnId (name ++ "_store") = .ok (id, st4) ∧ r = .stored name [id] ∧
      st' = (st4.emit (storeStmt id name inames shape [] (substIdx (inameVars inames) le)
        (genDeps ns [] e))).remember i r := by
  unfold ilStore at h
  obtain ⟨nm, hnm, h⟩ := Res.bind_ok.1 h
  obtain ⟨name, st2⟩ := nm
  obtain ⟨ins, hins, h⟩ := Res.bind_ok.1 h
  obtain ⟨inames, st3⟩ := ins
  simp only [hoistBounds] at h
  obtain ⟨hb, hhb, h⟩ := Res.bind_ok.1 h
  simp only [Res.ok.injEq] at hhb
  subst hhb
  simp only [List.map_nil, List.append_nil, replaceBounds_nil, renameRed_nil, List.nil_append] at h
  cases hg : gen ns [] e with
  | none => simp [hg] at h
  | some le =>
    simp only [hg] at h
    obtain ⟨idr, hid, h⟩ := Res.bind_ok.1 h
    obtain ⟨id, st4⟩ := idr
    simp only [Res.ok.injEq, Prod.mk.injEq, readBackBounds_nil, emitStored_nil] at h
    obtain ⟨rfl, rfl⟩ := h
    exact ⟨name, st2, inames, st3, le, id, st4, hnm, hins, rfl, hid, rfl, rfl⟩


theorem mapNode_il_inv {g : LGraph} {fuel i : Nat} {st st' : St} {r : Impl} {shape : Shape} {e : SExpr}
    {binds : List (String × Nat)} {impl : Strategy} {tag : NameTag} {uo : List String} {rvars : List RVar}
    (hn : g.get i = .indexLambda shape e binds impl tag uo rvars) (hs : suppNode g i = true)
    (hm : lookupResult st.results i = none) (h : mapNode g (fuel + 1) i st = .ok (r, st')) :
    uo = [] ∧ rvars = [] ∧ ∃ ns st1, recAll (mapNode g fuel) binds st = .ok (ns, st1) ∧
      (ilInline e [] ns [] i st1 = .ok (r, st') ∨ ilStore shape e tag [] [] ns [] i st1 = .ok (r, st')) := by
  simp only [suppNode, hn, Bool.and_eq_true, List.isEmpty_iff] at hs
  obtain ⟨⟨⟨⟨⟨_, huo⟩, hrv⟩, _⟩, _⟩, himpl⟩ := hs
  subst huo hrv
  refine ⟨rfl, rfl, ?_⟩
  unfold mapNode at h
  simp only [hm, hn, uniqNames] at h
  obtain ⟨un, hun, h⟩ := Res.bind_ok.1 h
  simp only [Res.ok.injEq] at hun
  subst hun
  obtain ⟨nsr, hrec, h⟩ := Res.bind_ok.1 h
  obtain ⟨ns, st1⟩ := nsr
  refine ⟨ns, st1, hrec, ?_⟩
  simp only [List.flatMap_nil, List.any_nil, Bool.or_false] at h
  cases impl with
  | unknown s => simp at himpl
  | stored => simp only [if_true] at h; exact Or.inr h
  | default => simp only [Bool.false_eq_true, if_false] at h; exact Or.inl h
  | inlined => simp only [Bool.false_eq_true, if_false] at h; exact Or.inl h
  | subst => simp only [Bool.false_eq_true, if_false] at h; exact Or.inl h

/-! ## the state only grows -/

structure Ext (st st' : St) : Prop where
  stmts : ∃ new, st'.stmts = new ++ st.stmts
  ex : ∀ x ∈ st.vng.existing, x ∈ st'.vng.existing
  results : ∀ x ∈ st.results, x ∈ st'.results

theorem Ext.refl (st : St) : Ext st st := ⟨⟨[], rfl⟩, fun _ h => h, fun _ h => h⟩

theorem Ext.trans {a b c : St} (h1 : Ext a b) (h2 : Ext b c) : Ext a c := by
  obtain ⟨n1, e1⟩ := h1.stmts
  obtain ⟨n2, e2⟩ := h2.stmts
  exact ⟨⟨n2 ++ n1, by rw [e2, e1, List.append_assoc]⟩, fun x hx => h2.ex x (h1.ex x hx),
    fun x hx => h2.results x (h1.results x hx)⟩

theorem Ext.of_drew {st st1 : St} {n : String} (d : Drew st st1 n) : Ext st st1 :=
  ⟨⟨[], by rw [d.stmts]; rfl⟩, fun x hx => by rw [d.ex]; exact List.mem_cons_of_mem _ hx,
    fun x hx => by rw [d.results]; exact hx⟩

theorem Ext.of_drewMany {st st1 : St} {ns : List String} (d : DrewMany st st1 ns) : Ext st st1 :=
  ⟨⟨[], by rw [d.stmts]; rfl⟩, fun x hx => (d.mem x).2 (Or.inr hx), fun x hx => by rw [d.results]; exact hx⟩

theorem Ext.of_insnId {st st1 : St} {b n : String} (h : st.insnId b = .ok (n, st1)) : Ext st st1 := by
  obtain ⟨g', _, rfl⟩ := St.insnId_ok h
  exact ⟨⟨[], rfl⟩, fun _ h => h, fun _ h => h⟩

theorem Ext.emit_remember (st : St) (s : KStmt) (i : Nat) (r : Impl) : Ext st ((st.emit s).remember i r) :=
  ⟨⟨[s], rfl⟩, fun _ h => h, fun _ hx => List.mem_cons_of_mem _ hx⟩

theorem Ext.remember (st : St) (i : Nat) (r : Impl) : Ext st (st.remember i r) :=
  ⟨⟨[], rfl⟩, fun _ h => h, fun _ hx => List.mem_cons_of_mem _ hx⟩

theorem recAll_nil {rec : Nat → St → Res (Impl × St)} {st st' : St} {ns : List (String × Impl)}
    (h : recAll rec [] st = .ok (ns, st')) : ns = [] ∧ st' = st := by
  simp only [recAll, Res.ok.injEq, Prod.mk.injEq] at h
  exact ⟨h.1.symm, h.2.symm⟩

theorem recAll_cons {rec : Nat → St → Res (Impl × St)} {n : String} {c : Nat} {bs : List (String × Nat)}
    {st st' : St} {ns : List (String × Impl)} (h : recAll rec ((n, c) :: bs) st = .ok (ns, st')) :
    ∃ r st1 rs, rec c st = .ok (r, st1) ∧ recAll rec bs st1 = .ok (rs, st') ∧ ns = (n, r) :: rs := by
  simp only [recAll] at h
  obtain ⟨p, h1, h⟩ := Res.bind_ok.1 h
  obtain ⟨r, st1⟩ := p
  obtain ⟨q, h2, h⟩ := Res.bind_ok.1 h
  obtain ⟨rs, st2⟩ := q
  simp only [Res.ok.injEq, Prod.mk.injEq] at h
  obtain ⟨rfl, rfl⟩ := h
  exact ⟨r, st1, rs, h1, h2, rfl⟩

theorem recAll_ext {g : LGraph} {fuel : Nat}
    (IH : ∀ i st r st', mapNode g fuel i st = .ok (r, st') → suppAll g fuel i = true → Ext st st') :
    ∀ (binds : List (String × Nat)) (st : St) (ns : List (String × Impl)) (st' : St),
      recAll (mapNode g fuel) binds st = .ok (ns, st') → (∀ b ∈ binds, suppAll g fuel b.2 = true) → Ext st st'
  | [], st, ns, st', h, _ => by
    obtain ⟨_, rfl⟩ := recAll_nil h
    exact Ext.refl _
  | (n, c) :: bs, st, ns, st', h, hs => by
    obtain ⟨r, st1, rs, h1, h2, _⟩ := recAll_cons h
    exact (IH c st r st1 h1 (hs (n, c) (by simp))).trans
      (recAll_ext IH bs st1 rs st' h2 (fun b hb => hs b (List.mem_cons_of_mem _ hb)))

theorem mapNode_ext {g : LGraph} : ∀ (fuel i : Nat) (st : St) (r : Impl) (st' : St),
    mapNode g fuel i st = .ok (r, st') → suppAll g fuel i = true → Ext st st'
  | 0, _, _, _, _, h, _ => by simp [mapNode] at h
  | fuel + 1, i, st, r, st', h, hs => by
    obtain ⟨hsn, hkids⟩ := suppAll_succ hs
    cases hm : lookupResult st.results i with
    | some r0 =>
      unfold mapNode at h
      simp only [hm, Res.ok.injEq, Prod.mk.injEq] at h
      obtain ⟨_, rfl⟩ := h
      exact Ext.refl _
    | none =>
      cases hn : g.get i with
      | input name shape =>
        unfold mapNode at h
        simp only [hm, hn, Res.ok.injEq, Prod.mk.injEq] at h
        obtain ⟨_, rfl⟩ := h
        exact Ext.remember _ _ _
      | refused w => simp [suppNode, hn] at hsn
      | other w => simp [suppNode, hn] at hsn
      | indexLambda shape e binds impl tag uo rvars =>
        obtain ⟨_, _, ns, st1, hrec, hcase⟩ := mapNode_il_inv hn hsn hm h
        have h1 := recAll_ext (mapNode_ext fuel) binds st ns st1 hrec
          (fun b hb => hkids b.2 (by simp only [kidsOf, hn]; exact List.mem_map.2 ⟨b, hb, rfl⟩))
        rcases hcase with hc | hc
        · obtain ⟨le, _, _, rfl⟩ := ilInline_inv hc
          exact h1.trans (Ext.remember _ _ _)
        · obtain ⟨name, st2, inames, st3, le, id, st4, hnm, hins, _, hid, _, rfl⟩ := ilStore_inv hc
          exact h1.trans ((Ext.of_drew (tempName_drew hnm)).trans
            ((Ext.of_drewMany (St.vars_drew hins).1).trans ((Ext.of_insnId hid).trans
              (Ext.emit_remember _ _ _ _))))

theorem Alloc.sub {σ0 : Store} {l l' : List KStmt} (h : Alloc σ0 l') (hs : ∃ new, l' = new ++ l) : Alloc σ0 l := by
  obtain ⟨new, rfl⟩ := hs
  exact fun s hs hn => h s (List.mem_append_right _ hs) hn

/-! ## the bindings' results implement the bindings -/

def NsRes : List (String × Nat) → List (String × Impl) → List (Nat × Impl) → Prop
  | [], [], _ => True
  | (n, c) :: bs, (n', r) :: rs, res => n = n' ∧ (c, r) ∈ res ∧ NsRes bs rs res
  | _, _, _ => False

theorem NsRes.mono {res res' : List (Nat × Impl)} (h : ∀ x ∈ res, x ∈ res') :
    ∀ {bs : List (String × Nat)} {rs : List (String × Impl)}, NsRes bs rs res → NsRes bs rs res'
  | [], [], _ => trivial
  | (_, _) :: _, (_, _) :: _, hn => ⟨hn.1, h _ hn.2.1, NsRes.mono h hn.2.2⟩
  | [], _ :: _, hn => hn.elim
  | _ :: _, [], hn => hn.elim

theorem nsOK_of {g : LGraph} {inp : String → Arr Val} {σ : Store} {G : String → Prop}
    {res : List (Nat × Impl)} (hres : ∀ i r, (i, r) ∈ res → ImplOK σ G r (den g inp i)) :
    ∀ {binds : List (String × Nat)} {ns : List (String × Impl)}, NsRes binds ns res →
      NsOK σ G ns (binds.map fun b => (b.1, den g inp b.2))
  | [], [], _ => by
    intro x r h
    simp [lookupNs] at h
  | (n, c) :: bs, (n', r0) :: rs, hn => by
    obtain ⟨rfl, hm, hrest⟩ := hn
    intro x r h
    unfold lookupNs at h
    simp only [List.map_cons]
    by_cases hx : (n == x) = true
    · rw [List.find?_cons_of_pos (by simpa using hx)] at h
      simp only [Option.map_some, Option.some.injEq] at h
      subst h
      refine ⟨den g inp c, ?_, hres c _ hm⟩
      rw [List.find?_cons_of_pos (by simpa using hx)]
      rfl
    · rw [List.find?_cons_of_neg (by simpa using hx)] at h
      obtain ⟨D, hD, hok⟩ := nsOK_of hres hrest x r h
      refine ⟨D, ?_, hok⟩
      rw [List.find?_cons_of_neg (by simpa using hx)]
      exact hD
  | [], _ :: _, hn => hn.elim
  | _ :: _, [], hn => hn.elim

theorem rankOf_binds {g : LGraph} {inp : String → Arr Val} :
    ∀ (binds : List (String × Nat)), (∀ b ∈ binds, (den g inp b.2).shape = shapeOf g b.2) →
      rankOf (binds.map fun b => (b.1, den g inp b.2)) = rankIn g binds
  | [], _ => by funext x; simp [rankOf, rankIn]
  | b :: bs, h => by
    have ih := rankOf_binds bs (fun b' hb => h b' (List.mem_cons_of_mem _ hb))
    funext x
    have ihx := congrFun ih x
    unfold rankOf rankIn at ihx ⊢
    simp only [List.map_cons]
    by_cases hx : (b.1 == x) = true
    · rw [List.find?_cons_of_pos (by simpa using hx), List.find?_cons_of_pos (by simpa using hx)]
      simp [h b (by simp)]
    · rw [List.find?_cons_of_neg (by simpa using hx), List.find?_cons_of_neg (by simpa using hx)]
      exact ihx

theorem readNamesList_inameVars : ∀ (inames : List String), readNamesList (inameVars inames) = inames
  | [] => rfl
  | i :: is => by
    have ih := readNamesList_inameVars is
    unfold inameVars at ih ⊢
    simp [readNamesList, readNames, ih]

/-! ## the traversal establishes the invariant -/

section Spec
variable {g : LGraph} {inp : String → Arr Val} {σ0 : Store} {inputNames E0 done : List String}

def SpecAt (g : LGraph) (inp : String → Arr Val) (σ0 : Store) (inputNames E0 done : List String) (fuel : Nat) :
    Prop :=
  ∀ (i : Nat) (st : St) (r : Impl) (st' : St), mapNode g fuel i st = .ok (r, st') →
    suppAll g fuel i = true → Inv g inp σ0 inputNames E0 done st → Alloc σ0 st'.stmts →
    Inv g inp σ0 inputNames E0 done st' ∧ (i, r) ∈ st'.results

theorem recAll_spec {fuel : Nat} (IH : SpecAt g inp σ0 inputNames E0 done fuel) :
    ∀ (binds : List (String × Nat)) (st : St) (ns : List (String × Impl)) (st' : St),
      recAll (mapNode g fuel) binds st = .ok (ns, st') → (∀ b ∈ binds, suppAll g fuel b.2 = true) →
      Inv g inp σ0 inputNames E0 done st → Alloc σ0 st'.stmts →
      Inv g inp σ0 inputNames E0 done st' ∧ NsRes binds ns st'.results
  | [], st, ns, st', h, _, hinv, _ => by
    obtain ⟨rfl, rfl⟩ := recAll_nil h
    exact ⟨hinv, trivial⟩
  | (n, c) :: bs, st, ns, st', h, hs, hinv, hal => by
    obtain ⟨r, st1, rs, h1, h2, rfl⟩ := recAll_cons h
    have hext := recAll_ext (mapNode_ext fuel) bs st1 rs st' h2 (fun b hb => hs b (List.mem_cons_of_mem _ hb))
    obtain ⟨hinv1, hm1⟩ := IH c st r st1 h1 (hs (n, c) (by simp)) hinv (hal.sub hext.stmts)
    obtain ⟨hinv', hres⟩ := recAll_spec IH bs st1 rs st' h2 (fun b hb => hs b (List.mem_cons_of_mem _ hb))
      hinv1 hal
    exact ⟨hinv', rfl, hext.results _ hm1, hres⟩

theorem mapNode_spec (hy : Hyp g inp σ0 inputNames) (hE0 : ∀ x ∈ inputNames, x ∈ E0)
    (hdone : ∀ x ∈ done, x ∉ inputNames) :
    ∀ (fuel : Nat), SpecAt g inp σ0 inputNames E0 done fuel
  | 0 => by
    intro i st r st' h
    simp [mapNode] at h
  | fuel + 1 => by
    intro i st r st' h hs hinv hal
    obtain ⟨hsn, hkids⟩ := suppAll_succ hs
    have IH : SpecAt g inp σ0 inputNames E0 done fuel := mapNode_spec hy hE0 hdone fuel
    cases hm : lookupResult st.results i with
    | some r0 =>
      unfold mapNode at h
      simp only [hm, Res.ok.injEq, Prod.mk.injEq] at h
      obtain ⟨rfl, rfl⟩ := h
      exact ⟨hinv, lookupResult_mem hm⟩
    | none =>
      cases hn : g.get i with
      | refused w => simp [suppNode, hn] at hsn
      | other w => simp [suppNode, hn] at hsn
      | input name shape =>
        unfold mapNode at h
        simp only [hm, hn, Res.ok.injEq, Prod.mk.injEq] at h
        obtain ⟨rfl, rfl⟩ := h
        obtain ⟨hin, hσ0, _⟩ := hy.inputs i name shape hn
        refine ⟨⟨hinv.names, hinv.seeds, ?_, hinv.active, hinv.origin⟩, by simp [St.remember]⟩
        intro j r hm'
        simp only [St.remember, List.mem_cons, Prod.mk.injEq] at hm'
        rcases hm' with ⟨rfl, rfl⟩ | hm'
        · refine ⟨Or.inl hin, inp name, ?_, by rw [den_input inp hn], fun q _ => by rw [den_input inp hn]⟩
          show (storeOf σ0 st).get? name = _
          unfold storeOf
          rw [execOrder_frame name _ σ0 (fun s hs => Or.inr (fun e => ?_))]
          · exact hσ0
          · -- an input is never written: what is written is an output or a fresh name
            have hs' := List.mem_reverse.1 hs
            rcases hinv.origin s hs' with ho | ho
            · exact hdone name (e ▸ ho) hin
            · exact ho (e ▸ hE0 name hin)
        · exact hinv.results j r hm'
      | indexLambda shape e binds impl tag uo rvars =>
        obtain ⟨_, _, ns, st1, hrec, hcase⟩ := mapNode_il_inv hn hsn hm h
        have hkb : ∀ b ∈ binds, suppAll g fuel b.2 = true :=
          fun b hb => hkids b.2 (by simp only [kidsOf, hn]; exact List.mem_map.2 ⟨b, hb, rfl⟩)
        have hfrag := hsn
        simp only [suppNode, hn, Bool.and_eq_true, Bool.not_eq_true'] at hfrag
        obtain ⟨⟨⟨⟨⟨hne, _⟩, _⟩, hok⟩, hrk⟩, _⟩ := hfrag
        have hden := den_il hy.wf inp hn
        have hrk' : ranksOK (rankOf (binds.map fun b => (b.1, den g inp b.2))) e = true := by
          rw [rankOf_binds binds (fun b hb => den_shape hy (suppAll_node (hkb b hb)))]; exact hrk
        have hsafe := hy.safe i shape e binds impl tag uo rvars hn
        rcases hcase with hc | hc
        · -- inlined
          obtain ⟨le, hgen, rfl, rfl⟩ := ilInline_inv hc
          obtain ⟨hinv1, hres⟩ := recAll_spec IH binds st ns st1 hrec hkb hinv
            (hal.sub ⟨[], rfl⟩)
          have hns := nsOK_of (g := g) (inp := inp) hinv1.results hres
          refine ⟨⟨hinv1.names, hinv1.seeds, ?_, hinv1.active, hinv1.origin⟩, by simp [St.remember]⟩
          intro j r hm'
          simp only [St.remember, List.mem_cons, Prod.mk.injEq] at hm'
          rcases hm' with ⟨rfl, rfl⟩ | hm'
          · show ImplOK (storeOf σ0 st1) (arrNames inputNames st1) _ _
            rw [hden]
            refine ⟨?_, ?_, fun q Γ hq hΓ => ?_⟩
            · exact (gen_sound hns [] shape.length e le hok hrk' hgen).1
            · exact (gen_sound hns [] shape.length e le hok hrk' hgen).2.1
            · exact (gen_sound hns q shape.length e le hok hrk' hgen).2.2 Γ hΓ (hsafe q hq)
          · exact hinv1.results j r hm'
        · -- stored
          obtain ⟨name, st2, inames, st3, le, id, st4, hnm, hins, hgen, hid, rfl, rfl⟩ := ilStore_inv hc
          have d1 := tempName_drew hnm
          obtain ⟨d2, hl2⟩ := St.vars_drew hins
          have hst4 : st4.stmts = st1.stmts := by
            obtain ⟨g', _, rfl⟩ := St.insnId_ok hid
            show st3.stmts = _
            rw [d2.stmts, d1.stmts]
          obtain ⟨hinv1, hres⟩ := recAll_spec IH binds st ns st1 hrec hkb hinv
            (hal.sub ⟨[storeStmt id name inames shape [] (substIdx (inameVars inames) le) (genDeps ns [] e)],
              by simp [St.remember, St.emit, hst4]⟩)
          have hinv4 : Inv g inp σ0 inputNames E0 done st4 := ((hinv1.drew d1).drewMany d2).insnId hid
          have hres4 : NsRes binds ns st4.results := by
            obtain ⟨g', _, rfl⟩ := St.insnId_ok hid
            show NsRes binds ns st3.results
            rw [d2.results, d1.results]; exact hres
          have hns := nsOK_of (g := g) (inp := inp) hinv4.results hres4
          have hG4 : ∀ x, arrNames inputNames st4 x → x ∈ st1.vng.existing := by
            intro x hx
            apply hinv1.names
            simpa [arrNames, hst4] using hx
          have hname : ¬ arrNames inputNames st4 name := fun hx => d1.fresh (hG4 name hx)
          have hnameEx : name ∈ st4.vng.existing := by
            obtain ⟨g', _, rfl⟩ := St.insnId_ok hid
            show name ∈ st3.vng.existing
            exact (d2.mem name).2 (Or.inr (by rw [d1.ex]; simp))
          have hGin : ∀ x, arrNames inputNames st4 x → x ∉ inames := by
            intro x hx hxi
            exact d2.fresh x hxi (by rw [d1.ex]; exact List.mem_cons_of_mem _ (hG4 x hx))
          have hlen : inames.length = shape.length := by rw [hl2, length_dimNames]
          obtain ⟨hle1, hle2, hle3⟩ := (fun q => gen_sound hns q shape.length e le hok hrk' hgen) []
          have := Inv.emit (i := i) (id := id) (deps := genDeps ns [] e) hinv4 hne hlen d2.nodup hname hnameEx
            (Or.inr (fun hE => d1.fresh (hinv1.seeds name hE)))
            (by simpa [St.remember, St.emit] using hal)
            (by rw [hden]; rfl)
            (by
              intro hx
              rcases readNames_substIdx_sub (inameVars inames) le name hx with hx | hx
              · exact hname (hle2 name hx)
              · rw [readNamesList_inameVars] at hx
                exact d2.fresh name hx (by rw [d1.ex]; simp))
            (by
              intro q hq
              have hql : inames.length = q.length := by rw [hlen, inB_length hq]
              have hvals := evalList_inameVars (storeOf σ0 st4) inames q [] d2.nodup hql [] (by simp)
              have hle1' : exprOK (inameVars inames).length le = true := by
                simpa [inameVars, hlen] using hle1
              rw [eval_substIdx (inameVars inames) q le _ hle1' hvals, hden]
              exact (gen_sound hns q shape.length e le hok hrk' hgen).2.2 _ (avoids_pointEnv hGin q)
                (hsafe q hq))
          exact ⟨this, by simp [St.remember]⟩

/-! ## the loop over the outputs -/

theorem Inv.doneMono {done' : List String} {st : St} (h : Inv g inp σ0 inputNames E0 done st)
    (hd : ∀ x ∈ done, x ∈ done') : Inv g inp σ0 inputNames E0 done' st :=
  ⟨h.names, h.seeds, h.results, h.active, fun s hs => (h.origin s hs).imp (hd _) id⟩

theorem storeOutputs_cons {fuel : Nat} {name : String} {i : Nat} {rest : List (String × Nat)} {st st' : St}
    (h : storeOutputs g fuel ((name, i) :: rest) st = .ok st') :
    ∃ r st1 inames st2 id st3, mapNode g fuel i st = .ok (r, st1) ∧
      St.vars st1 (dimNames name (shapeOf g i).length) = .ok (inames, st2) ∧
      st2.insnId (name ++ "_store") = .ok (id, st3) ∧
      storeOutputs g fuel rest ((st3.emit (storeStmt id name inames (shapeOf g i) []
        (r.toExpr (inameVars inames)) r.deps)).remember i (.stored name [id])) = .ok st' := by
  simp only [storeOutputs] at h
  obtain ⟨p, h1, h⟩ := Res.bind_ok.1 h
  obtain ⟨r, st1⟩ := p
  obtain ⟨q, h2, h⟩ := Res.bind_ok.1 h
  obtain ⟨inames, st2⟩ := q
  obtain ⟨w, h3, h⟩ := Res.bind_ok.1 h
  obtain ⟨id, st3⟩ := w
  refine ⟨r, st1, inames, st2, id, st3, h1, ?_, h3, ?_⟩
  · exact h2
  · exact h

theorem storeOutputs_ext {fuel : Nat} : ∀ (outs : List (String × Nat)) (st st' : St),
    storeOutputs g fuel outs st = .ok st' → (∀ o ∈ outs, suppAll g fuel o.2 = true) → Ext st st'
  | [], st, st', h, _ => by
    simp only [storeOutputs, Res.ok.injEq] at h
    subst h
    exact Ext.refl _
  | (name, i) :: rest, st, st', h, hs => by
    obtain ⟨r, st1, inames, st2, id, st3, h1, h2, h3, h4⟩ := storeOutputs_cons h
    exact (mapNode_ext fuel i st r st1 h1 (hs (name, i) (by simp))).trans
      ((Ext.of_drewMany (St.vars_drew h2).1).trans ((Ext.of_insnId h3).trans
        ((Ext.emit_remember _ _ _ _).trans
          (storeOutputs_ext rest _ st' h4 (fun o ho => hs o (List.mem_cons_of_mem _ ho))))))

theorem toExpr_reads {G : String → Prop} {σ : Store} {r : Impl} {D : Arr Val} (hok : ImplOK σ G r D)
    (inames : List String) : ∀ x ∈ readNames (r.toExpr (inameVars inames)), G x ∨ x ∈ inames := by
  intro x hx
  cases r with
  | stored name deps =>
    simp only [Impl.toExpr] at hx
    split at hx
    · simp only [readNames, List.mem_singleton] at hx
      exact Or.inl (hx ▸ hok.1)
    · simp only [readNames, List.mem_cons, readNamesList_inameVars] at hx
      rcases hx with rfl | hx
      · exact Or.inl hok.1
      · exact Or.inr hx
  | inlined le deps =>
    simp only [Impl.toExpr] at hx
    rcases readNames_substIdx_sub (inameVars inames) le x hx with h | h
    · exact Or.inl (hok.2.1 x h)
    · rw [readNamesList_inameVars] at h; exact Or.inr h

theorem storeOutputs_spec (hy : Hyp g inp σ0 inputNames) (hE0 : ∀ x ∈ inputNames, x ∈ E0) {fuel : Nat} :
    ∀ (outs : List (String × Nat)) (done : List String) (st st' : St),
      storeOutputs g fuel outs st = .ok st' → (∀ o ∈ outs, suppAll g fuel o.2 = true) →
      Inv g inp σ0 inputNames E0 done st → Alloc σ0 st'.stmts → (outs.map (·.1)).Nodup →
      (∀ o ∈ outs, o.1 ∈ E0 ∧ o.1 ∉ inputNames ∧ o.1 ∉ done) → (∀ x ∈ done, x ∉ inputNames) →
      ∃ done', Inv g inp σ0 inputNames E0 done' st' ∧
        ∀ o ∈ outs, ∃ id, (o.2, Impl.stored o.1 [id]) ∈ st'.results
  | [], done, st, st', h, _, hinv, _, _, _, _ => by
    simp only [storeOutputs, Res.ok.injEq] at h
    subst h
    exact ⟨done, hinv, by simp⟩
  | (name, i) :: rest, done, st, st', h, hs, hinv, hal, hnd, hnames, hdone => by
    obtain ⟨r, st1, inames, st2, id, st3, h1, h2, h3, h4⟩ := storeOutputs_cons h
    have hsi := hs (name, i) (by simp)
    have hsn := suppAll_node hsi
    have hext4 := storeOutputs_ext rest _ st' h4 (fun o ho => hs o (List.mem_cons_of_mem _ ho))
    obtain ⟨d2, hl2⟩ := St.vars_drew h2
    have hst3 : st3.stmts = st1.stmts := by
      obtain ⟨g', _, rfl⟩ := St.insnId_ok h3
      show st2.stmts = _
      rw [d2.stmts]
    have hal4 := hal.sub hext4.stmts
    obtain ⟨hinv1, hm1⟩ := mapNode_spec hy hE0 hdone fuel i st r st1 h1 hsi hinv
      (hal4.sub ⟨[storeStmt id name inames (shapeOf g i) [] (r.toExpr (inameVars inames)) r.deps],
        by simp [St.remember, St.emit, hst3]⟩)
    have hinv3 : Inv g inp σ0 inputNames E0 (name :: done) st3 :=
      ((hinv1.drewMany d2).insnId h3).doneMono (fun x hx => List.mem_cons_of_mem _ hx)
    obtain ⟨hnE0, hnin, hnd'⟩ := hnames (name, i) (by simp)
    have hres3 : (i, r) ∈ st3.results := by
      obtain ⟨g', _, rfl⟩ := St.insnId_ok h3
      show (i, r) ∈ st2.results
      rw [d2.results]; exact hm1
    have hok := hinv3.results i r hres3
    have hG3 : ∀ x, arrNames inputNames st3 x → x ∈ st1.vng.existing := by
      intro x hx
      apply hinv1.names
      simpa [arrNames, hst3] using hx
    have hname : ¬ arrNames inputNames st3 name := by
      rintro (hx | hx)
      · exact hnin hx
      · obtain ⟨s, hs', he⟩ := List.mem_map.1 hx
        rw [hst3] at hs'
        rcases hinv1.origin s hs' with ho | ho
        · exact hnd' (he ▸ ho)
        · exact ho (he ▸ hnE0)
    have hnameEx1 : name ∈ st1.vng.existing := hinv1.seeds name hnE0
    have hnameEx : name ∈ st3.vng.existing := by
      obtain ⟨g', _, rfl⟩ := St.insnId_ok h3
      show name ∈ st2.vng.existing
      exact (d2.mem name).2 (Or.inr hnameEx1)
    have hGin : ∀ x, arrNames inputNames st3 x → x ∉ inames :=
      fun x hx hxi => d2.fresh x hxi (hG3 x hx)
    have hshape := den_shape hy hsn
    have hne : isEmptyShape (shapeOf g i) = false := by
      cases hn : g.get i with
      | input nm sh => simpa [suppNode, hn, shapeOf] using hsn
      | indexLambda sh e binds impl tag uo rvars =>
        have := hsn
        simp only [suppNode, hn, Bool.and_eq_true, Bool.not_eq_true'] at this
        simpa [shapeOf, hn] using this.1.1.1.1.1
      | refused w => simp [suppNode, hn] at hsn
      | other w => simp [suppNode, hn] at hsn
    have hlen : inames.length = (shapeOf g i).length := by rw [hl2, length_dimNames]
    have hinv4 := Inv.emit (i := i) (id := id) (deps := r.deps) hinv3 hne hlen d2.nodup hname hnameEx
      (Or.inl (by simp)) (by simpa [St.remember, St.emit] using hal4) hshape
      (by
        intro hx
        rcases toExpr_reads hok inames name hx with hx | hx
        · exact hname hx
        · exact d2.fresh name hx hnameEx1)
      (by
        intro q hq
        exact toExpr_at_point hok d2.nodup hGin (by rw [hshape]; exact hq) (by rw [hshape]; exact hlen))
    have hnd2 := List.nodup_cons.1 (show (name :: rest.map (·.1)).Nodup from hnd)
    obtain ⟨done', hinv', hall⟩ := storeOutputs_spec hy hE0 rest (name :: done) _ st' h4
      (fun o ho => hs o (List.mem_cons_of_mem _ ho)) hinv4 hal hnd2.2
      (by
        intro o ho
        obtain ⟨a, b, c⟩ := hnames o (List.mem_cons_of_mem _ ho)
        refine ⟨a, b, fun hc => ?_⟩
        rcases List.mem_cons.1 hc with hc | hc
        · exact hnd2.1 (hc ▸ List.mem_map.2 ⟨o, ho, rfl⟩)
        · exact c hc)
      (by
        intro x hx
        rcases List.mem_cons.1 hx with rfl | hx
        · exact hnin
        · exact hdone x hx)
    refine ⟨done', hinv', fun o ho => ?_⟩
    rcases List.mem_cons.1 ho with rfl | ho
    · exact ⟨id, hext4.results _ (by simp [St.remember])⟩
    · exact hall o ho

end Spec

/-! ## the theorems -/

/-- **loopygen_sound_partial.**  Let the model of the statement generator produce the kernel `k` for
    the graph `g` with the given outputs (in compute order), every node reachable from an output
    being in the reduction-free fragment `suppAll` (decidable; the driver reports it for every real
    graph).  Let the initial store bind every input to an array of its declared shape (`Hyp.inputs`)
    and allocate every array the kernel writes with the extent of its loop box (`Alloc`); let every
    subscript the index lambdas evaluate at in-bounds points be in bounds (`Hyp.safe`, the
    memory-safety property of C11).  Then after executing the statements of `k` in the order they
    were generated, every output array has the declared shape and holds, at EVERY in-bounds index,
    the value the output denotes: `evalIL` of its index lambda over what its bindings denote, down
    to the input arrays (`den`). -/
theorem loopygen_sound_partial (g : LGraph) (outputs : List (String × Nat)) (inputNames : List String)
    (k : Kernel) (inp : String → Arr Val) (σ0 : Store)
    (hgen : generate g outputs inputNames = .ok k)
    (hsupp : ∀ o ∈ outputs, suppAll g g.size o.2 = true)
    (hy : Hyp g inp σ0 inputNames)
    (hnd : (outputs.map (·.1)).Nodup) (hdisj : ∀ o ∈ outputs, o.1 ∉ inputNames)
    (halloc : Alloc σ0 k) :
    ∀ o ∈ outputs, StoredOK (execOrder σ0 k) o.1 (den g inp o.2) := by
  unfold generate at hgen
  obtain ⟨st, hst, hk⟩ := Res.bind_ok.1 hgen
  simp only [Res.ok.injEq] at hk
  subst hk
  have hinv0 : Inv g inp σ0 inputNames (outputs.map (·.1) ++ inputNames) []
      { vng := { existing := outputs.map (·.1) ++ inputNames, counters := [] },
        ing := { existing := [], counters := [] }, results := [], stmts := [] } := by
    refine ⟨?_, fun x hx => hx, fun i r hm => by simp at hm, fun s hs => by simp at hs,
      fun s hs => by simp at hs⟩
    rintro x (hx | hx)
    · exact List.mem_append_right _ hx
    · simp at hx
  obtain ⟨done', hinv, hall⟩ := storeOutputs_spec hy (fun x hx => List.mem_append_right _ hx) outputs [] _ st hst
    hsupp hinv0 (fun s hs hn => halloc s (List.mem_reverse.2 hs) hn) hnd
    (fun o ho => ⟨List.mem_append_left _ (List.mem_map.2 ⟨o, ho, rfl⟩), hdisj o ho, by simp⟩)
    (by simp)
  intro o ho
  obtain ⟨id, hm⟩ := hall o ho
  exact (hinv.results o.2 _ hm).2

end LG
end Pt

import PtProofs.EvalLemmas
namespace Pt
open Lower Spec

theorem toNatIdx_cons_i (v : Int) (hv : 0 ≤ v) (vs : List Val) (r : Idx)
    (h : toNatIdx vs = some r) : toNatIdx (Val.i v :: vs) = some (v.toNat :: r) := by
  simp only [toNatIdx, Val.toInt?, h]
  have : ¬ v < 0 := by omega
  simp [this]

/-- the invariant of `map_basic_index`'s loop: the remaining index expressions,
    evaluated at the point `pt`, are the remaining source indices NumPy reads,
    and those are within the remaining axes. -/
theorem basicIdxFrom_eval (pt : Idx) (b : List (String × Arr Val)) :
    ∀ (ix : List BIdx) (ns : Shape) (j : Nat),
      validIx ns ix → inB (basicShape ns ix) (pt.drop j) = true →
      toNatIdx (evalList (idxEnv pt b) (basicIdxFrom j (normIdx ns ix) ns))
          = some (basicSrc ns ix (pt.drop j))
        ∧ inB ns (basicSrc ns ix (pt.drop j)) = true := by
  intro ix
  induction ix with
  | nil =>
    intro ns j hv _
    cases ns with
    | nil => simp [normIdx, basicIdxFrom, evalList, toNatIdx, basicSrc, inB]
    | cons n ns => simp [validIx] at hv
  | cons c ix ih =>
    intro ns j hv hi
    cases ns with
    | nil => cases c <;> simp [validIx] at hv
    | cons n ns =>
      cases c with
      | int k =>
        simp only [validIx] at hv
        simp only [basicShape] at hi
        obtain ⟨h1, h2⟩ := ih ns j hv.2 hi
        have hn : (0 : Int) < n := by omega
        have hm := pyMod_nonneg_lt (a := k) hn
        have hval : pyMod k n = if k < 0 then k + n else k := by
          by_cases hk : k < 0
          · rw [if_pos hk]; exact pyMod_of_neg_ge hk hv.1.1
          · rw [if_neg hk]; exact pyMod_of_nonneg_lt (by omega) hv.1.2
        simp only [normIdx, basicIdxFrom, evalList, eval, basicSrc]
        rw [toNatIdx_cons_i _ hm.1 _ _ h1, hval]
        refine ⟨rfl, ?_⟩
        simp only [inB, Bool.and_eq_true, decide_eq_true_eq]
        refine ⟨?_, h2⟩
        rw [← hval]; omega
      | slice st sp step =>
        simp only [validIx] at hv
        simp only [basicShape] at hi
        -- the remaining output index is non-empty
        cases hd : pt.drop j with
        | nil => rw [hd] at hi; simp [inB] at hi
        | cons x rest =>
          rw [hd] at hi
          simp only [inB, Bool.and_eq_true, decide_eq_true_eq] at hi
          have hj : j < pt.length := by
            rcases Nat.lt_or_ge j pt.length with h | h
            · exact h
            · rw [List.drop_eq_nil_of_le h] at hd; cases hd
          have hx : pt.getD j 0 = x := by
            have := List.getElem_drop (xs := pt) (i := j) (j := 0) (h := by simpa using hj)
            simp only [List.getD, List.getElem?_eq_getElem hj, Option.getD_some]
            simp only [Nat.add_zero] at this
            rw [← this]; simp [hd]
          have hrest : pt.drop (j + 1) = rest := by
            have : pt.drop (j + 1) = (pt.drop j).drop 1 := by simp [List.drop_drop]
            rw [this, hd]; rfl
          have hn0 : (0 : Int) ≤ n := by omega
          have hnorm := slice_norm_eq_cpython n hn0 st sp step hv.1
          have hlen0 := slice_len_nonneg (cpyAdjust st sp step n)
          have hxlt : (x : Int) < cpyLen (cpyAdjust st sp step n) := by omega
          obtain ⟨hb0, hb1⟩ := slice_indices_inbounds n hn0 st sp step hv.1 x (by omega) hxlt
          obtain ⟨h1, h2⟩ := ih ns (j + 1) hv.2 (by rw [hrest]; exact hi.2)
          rw [hrest] at h1 h2
          have hstep : (cpyAdjust st sp step n).step = step := rfl
          -- value of the generated expression
          have hval : eval (idxEnv pt b)
              (if (ptNormSlice st sp step n).stop = n ∧ (ptNormSlice st sp step n).step = 1
                  ∧ (ptNormSlice st sp step n).start = 0 then ivar j
               else SExpr.add (.int (ptNormSlice st sp step n).start)
                      (.mul (.int (ptNormSlice st sp step n).step) (ivar j)))
              = Val.i ((cpyAdjust st sp step n).start + step * x) := by
            rw [hnorm]
            by_cases hid : (cpyAdjust st sp step n).stop = n ∧ (cpyAdjust st sp step n).step = 1
                  ∧ (cpyAdjust st sp step n).start = 0
            · rw [if_pos hid]
              simp only [ivar, eval_idx pt b j hj, hx]
              rw [hstep] at hid
              congr 1; rw [hid.2.2, hid.2.1]; omega
            · rw [if_neg hid]
              simp only [ivar, eval, idxEnv_pt pt b j hj, hx, Val.add, Val.mul, Val.arith,
                Val.toInt?, hstep]
          simp only [normIdx, basicIdxFrom, evalList, basicSrc]
          rw [hval, toNatIdx_cons_i _ hb0 _ _ h1]
          refine ⟨rfl, ?_⟩
          simp only [inB, Bool.and_eq_true, decide_eq_true_eq]
          exact ⟨by omega, h2⟩

end Pt

/-
  Property C05 — graph transformations preserve every output and never mutate
  their input.  Property theorems only; lemmas are in TransformLemmas /
  DenoteLemmas.

  Model: `runTransform sel f h root` of `PtModel.Mapper` (CopyMapper +
  `replace_if_different` + `TransformMapperCache.add`, node function `f`), and
  `PtModel.Denote` (`denote D`: any bottom-up denotation; `unfold`: the tree).
  All theorems hold for EVERY heap with children strictly below parents
  (`WFHeap`), every in-range root, any sharing — no bound on size or depth.

  What is NOT in the model: Python-level mutation / aliasing of objects and
  buffers (monitored at run time by the harness), and the concrete node
  functions of mpms / unify_axes_tags / lowering (they enter through the
  hypotheses of `transform_preserves_denote` / `tag_transform_same_up_to_tags`).
-/
import PtModel.Denote
import PtProofs.DenoteLemmas
import PtProofs.C13
namespace Pt

/-- `deduplicate`: the identity node function; equal results are merged into the first-seen one -/
def dedup (h : Heap) (root : Nat) : TState := runTransform allSel relabelId h root

/-! ## (a) nothing changes ⇒ the argument itself -/

/-- **copy_identity** — the copy mapper (`CopyMapper()(expr)`) on a duplicate-free graph
    returns its argument itself: the result node IS the root, every visited node is mapped
    to itself, and the heap is unchanged (no node created). -/
theorem copy_identity (sel : String → String → Bool) (h : Heap) (root : Nat) (hw : WFHeap h)
    (hdf : DupFreeOn h (visitLog sel h root)) :
    let s := runTransform sel relabelId h root
    s.image root = some root ∧ s.heap = h ∧ ∀ i, i ∈ visitLog sel h root → s.image i = some i := by
  intro s
  have := identity_same sel h root hw hdf
  exact ⟨this.2.2, this.1, this.2.1⟩

/-- **map_and_copy_id** — `map_and_copy(expr, lambda x: x)`: any node function that returns
    its argument behaves like the copy mapper. -/
theorem map_and_copy_id (sel : String → String → Bool) (f : NodeData → NodeData) (hf : ∀ nd, f nd = nd)
    (h : Heap) (root : Nat) (hw : WFHeap h) (hdf : DupFreeOn h (visitLog sel h root)) :
    (runTransform sel f h root).image root = some root ∧ (runTransform sel f h root).heap = h := by
  have : f = relabelId := funext hf
  subst this
  have := copy_identity sel h root hw hdf
  exact ⟨this.1, this.2.1⟩

/-! ## (b) never mutates its input -/

/-- **input_heap_prefix** — every transformation (any node function, any edge selection, any
    heap) only APPENDS nodes: every input node keeps its number and its data. -/
theorem input_heap_prefix (sel : String → String → Bool) (f : NodeData → NodeData) (h : Heap)
    (root : Nat) :
    let s := runTransform sel f h root
    h.size ≤ s.heap.size ∧ ∀ k, k < h.size → s.heap[k]? = h[k]? := by
  intro s
  exact ⟨(fold_size (sel := sel) (relabel := f) (visitLog sel h root)
      { heap := h, map := [], seen := [] }).1,
    fun k hk => fold_prefix (sel := sel) (relabel := f) (visitLog sel h root)
      { heap := h, map := [], seen := [] } k hk⟩

/-! ## (d) value preservation for any denotation, any sharing -/

/-- **transform_preserves_denote** — if the node function preserves the meaning of ONE node
    under every valuation of its children (`Preserves D f`), keeps a sub-list of the children it
    is given (`KidsSub f`), and the denotation is a function of the tree (`DLocal D`: node data
    and edge labels, not node numbers), then the whole cached transformation preserves the
    denotation of EVERY visited node — in particular of the root — whatever the sharing; the
    result heap is again well formed.
    Carries: dead-code elimination (`zeros`-like lambda ↦ literal), tag-only transformations
    (`D` ignores tags), lowering (per-node preservation is C02), deduplication (`f = id`). -/
theorem transform_preserves_denote {γ : Type} (D : NodeData → List γ → γ)
    (sel : String → String → Bool) (f : NodeData → NodeData) (h : Heap) (root : Nat)
    (hw : WFHeap h) (hr : root < h.size) (hD : DLocal D) (hsub : KidsSub f)
    (hpres : Preserves D f) :
    let s := runTransform sel f h root
    WFHeap s.heap
      ∧ (∀ i j, (i, j) ∈ s.map → denote D s.heap j = denote D h i)
      ∧ ∃ j, s.image root = some j ∧ denote D s.heap j = denote D h root := by
  intro s
  have hinv : DenInv D h s :=
    fold_den_inv (sel := sel) hw hD hsub hpres _ _ (visitLog_lt hw sel hr) (denInv_init h hw)
  have hmap : ∀ i j, (i, j) ∈ s.map → denote D s.heap j = denote D h i :=
    fun i j hm => (hinv.map (i, j) hm).2
  refine ⟨hinv.wf, hmap, ?_⟩
  have hkey : root ∈ s.map.map (·.1) := by
    show root ∈ ((visitLog sel h root).foldl (tstep sel f)
      { heap := h, map := [], seen := [] }).map.map (·.1)
    rw [fold_keys]
    simp only [List.map_nil, List.append_nil, List.mem_reverse]
    exact (mem_visitLog hw sel root root).2 (Reach.refl _)
  obtain ⟨j, hj⟩ := image_of_key hkey
  exact ⟨j, hj, hmap root j (image_mem hj)⟩

/-- the tree with all tags erased -/
def treeOfNoTags (nd : NodeData) (ts : List Tree) : Tree :=
  .node nd.kind nd.attrs [] ((nd.kids.map (·.1)).zip ts)

/-- **tag_transform_same_up_to_tags** — a transformation that changes nothing but tags
    (`materialize_with_mpms` adding `ImplStored`, tag attachers) returns a graph that unfolds to
    the same tree up to tags; hence equal values for every denotation that ignores tags. -/
theorem tag_transform_same_up_to_tags (sel : String → String → Bool) (g : NodeData → List String)
    (h : Heap) (root : Nat) (hw : WFHeap h) (hr : root < h.size) :
    let s := runTransform sel (fun nd => { nd with tags := g nd }) h root
    ∃ j, s.image root = some j ∧ denote treeOfNoTags s.heap j = denote treeOfNoTags h root := by
  intro s
  refine (transform_preserves_denote treeOfNoTags sel _ h root hw hr ?_ ?_ ?_).2.2
  · intro a b h1 h2 _ h4
    funext ts
    simp [treeOfNoTags, h1, h2, h4]
  · intro nd e he
    exact he
  · intro nd val _
    rfl

/-! ## (c) deduplicate -/

theorem dedup_invariants (h : Heap) (root : Nat) (hw : WFHeap h) (hr : root < h.size) :
    DedupInv (dedup h root) ∧ DenInv treeOf h (dedup h root) := by
  have := fold_dedup_inv hw (visitLog allSel h root) [] { heap := h, map := [], seen := [] }
    (by simpa using visitLog_lt hw allSel hr)
    (by simpa using visitLog_children_before hw root)
    rfl (denInv_init h hw) ⟨by simp, by simp, by simp⟩
  exact this

/-- **dedup_unfold** — every output of `deduplicate` unfolds to the same tree as before: equal
    value, shape, dtype, names … for ANY denotation that is a function of the tree. -/
theorem dedup_unfold (h : Heap) (root : Nat) (hw : WFHeap h) (hr : root < h.size) :
    ∃ j, (dedup h root).image root = some j ∧ unfold (dedup h root).heap j = unfold h root := by
  have hDl : DLocal treeOf := by
    intro a b h1 h2 h3 h4
    funext ts
    simp [treeOf, h1, h2, h3, h4]
  exact (transform_preserves_denote treeOf allSel relabelId h root hw hr hDl
    (fun _ _ he => he) (fun _ _ _ => rfl)).2.2

/-- **dedup_dupFree** — the result of `deduplicate` contains no two distinct structurally
    equal nodes (whatever duplicates the input had). -/
theorem dedup_dupFree (h : Heap) (root : Nat) (hw : WFHeap h) (hr : root < h.size) :
    ∃ j, (dedup h root).image root = some j
      ∧ DupFreeOn (dedup h root).heap (visitLog allSel (dedup h root).heap j) := by
  obtain ⟨hd, hden⟩ := dedup_invariants h root hw hr
  obtain ⟨j, hj, _⟩ := dedup_unfold h root hw hr
  refine ⟨j, hj, ?_⟩
  have hjs : j ∈ (dedup h root).seen := hd.img _ (image_mem hj)
  have hclosed : ∀ p k, Reach (kidsFn allSel (dedup h root).heap) p k →
      p ∈ (dedup h root).seen → k ∈ (dedup h root).seen := by
    intro p k hreach
    induction hreach with
    | refl i => exact id
    | @step p c q hc _ ih =>
      intro hp
      apply ih
      rw [kidsFn_allSel] at hc
      obtain ⟨e, he, rfl⟩ := List.mem_map.1 hc
      exact hd.closed p hp e he
  have hin : ∀ k, k ∈ visitLog allSel (dedup h root).heap j → k ∈ (dedup h root).seen :=
    fun k hk => hclosed j k ((mem_visitLog hden.wf allSel j k).1 hk) hjs
  intro a ha b hb hs
  exact hd.dup a (hin a ha) b (hin b hb) hs

/-- **dedup_idem** — deduplicating twice is deduplicating once: on the result of `deduplicate`
    a second `deduplicate` returns its argument itself and creates nothing. -/
theorem dedup_idem (h : Heap) (root : Nat) (hw : WFHeap h) (hr : root < h.size) :
    ∃ j, (dedup h root).image root = some j
      ∧ (dedup (dedup h root).heap j).heap = (dedup h root).heap
      ∧ (dedup (dedup h root).heap j).image j = some j := by
  obtain ⟨j, hj, hdf⟩ := dedup_dupFree h root hw hr
  have hwf := (dedup_invariants h root hw hr).2.wf
  have := copy_identity allSel (dedup h root).heap j hwf hdf
  exact ⟨j, hj, this.2.1, this.1⟩

/-- `deduplicate` on an already duplicate-free graph is the identity (special case of (a)). -/
theorem dedup_of_dupFree (h : Heap) (root : Nat) (hw : WFHeap h)
    (hdf : DupFreeOn h (visitLog allSel h root)) :
    (dedup h root).image root = some root ∧ (dedup h root).heap = h :=
  ⟨(copy_identity allSel h root hw hdf).1, (copy_identity allSel h root hw hdf).2.1⟩

/-! ## non-vacuity -/

/-- `{a: (x+1)*(x+1)', b: (x+1)'}` where `(x+1)` and `(x+1)'` are equal but distinct objects -/
def exDup : Heap := #[
  { kind := "Placeholder", tags := [], kids := [], attrs := 1 },
  { kind := "IndexLambda", tags := [], kids := [("bind:_in0", 0)], attrs := 2 },
  { kind := "IndexLambda", tags := [], kids := [("bind:_in0", 0)], attrs := 2 },
  { kind := "IndexLambda", tags := [], kids := [("bind:_in0", 1), ("bind:_in1", 2)], attrs := 3 },
  { kind := "DictOfNamedArrays", tags := [], kids := [("entry:a", 3), ("entry:b", 2)], attrs := 4 }]

example : WFHeap exDup := (wfHeap_iff _).1 (by decide)
example : (4 : Nat) < exDup.size := by decide
/-- the input has a duplicate … -/
example : ¬ DupFreeOn exDup (visitLog allSel exDup 4) := by
  intro h
  have := h 1 (by decide) 2 (by decide) (by decide)
  exact absurd this (by decide)
/-- … `dedup` re-creates the two users with the first-seen `(x+1)` and leaves nodes 0..4 alone -/
example : (dedup exDup 4).image 4 = some 6 ∧ (dedup exDup 4).heap.size = 7
    ∧ ((dedup exDup 4).heap.node 5).kids = [("bind:_in0", 1), ("bind:_in1", 1)]
    ∧ ((dedup exDup 4).heap.node 6).kids = [("entry:a", 5), ("entry:b", 1)] := by decide
/-- a duplicate-free heap satisfying `copy_identity`'s hypothesis: C13's ladder -/
example : DupFreeOn exLadder (visitLog allSel exLadder 6) := by
  intro a ha b hb
  revert a b
  decide

/-- a denotation and a dead-code-eliminating node function satisfying the hypotheses of
    `transform_preserves_denote`: integer evaluation; `ZerosLike(x)` means 0 whatever `x` is and
    is replaced by the literal `Zero` without children -/
def exD (nd : NodeData) (vs : List Int) : Int :=
  if nd.kind == "Lit" then (nd.attrs : Int)
  else if nd.kind == "Add" then vs.sum
  else 0

def exDce (nd : NodeData) : NodeData :=
  if nd.kind == "ZerosLike" then { nd with kind := "Zero", kids := [] } else nd

example : DLocal exD := by
  intro a b h1 h2 _ _
  funext vs
  simp [exD, h1, h2]

example : KidsSub exDce := by
  intro nd e he
  unfold exDce at he
  split at he
  · simp at he
  · exact he

example : Preserves exD exDce := by
  intro nd val hsome
  unfold exDce
  split
  · rename_i hk
    have hk' : nd.kind = "ZerosLike" := by simpa using hk
    have hs : (allSome (nd.kids.map fun e => val e.2)).isSome = true := by
      apply allSome_isSome
      intro o ho
      obtain ⟨e, he, rfl⟩ := List.mem_map.1 ho
      exact hsome e he
    obtain ⟨vs, hvs⟩ := Option.isSome_iff_exists.1 hs
    simp [evalNode, hvs, allSome, exD, hk']
  · rfl

/-- `Add(Lit 5, ZerosLike(Lit 7))` evaluates to 5 before and after -/
def exProg : Heap := #[
  { kind := "Lit", tags := [], kids := [], attrs := 5 },
  { kind := "Lit", tags := [], kids := [], attrs := 7 },
  { kind := "ZerosLike", tags := [], kids := [("operand", 1)], attrs := 0 },
  { kind := "Add", tags := [], kids := [("l", 0), ("r", 2)], attrs := 0 }]

example : WFHeap exProg ∧ 3 < exProg.size := ⟨(wfHeap_iff _).1 (by decide), by decide⟩
example : denote exD exProg 3 = some 5 := by decide
example : (runTransform allSel exDce exProg 3).image 3 = some 5
    ∧ denote exD (runTransform allSel exDce exProg 3).heap 5 = some 5
    ∧ ((runTransform allSel exDce exProg 3).heap.node 4).kind = "Zero" := by decide

end Pt

/-
  Lemmas about the equality / hashing / key model of `PtModel.Eq` (core Lean only).
  All inductions are over the nested structure of `Term` (term, field list,
  child list), i.e. they hold for every nesting depth and branching.
-/
import PtModel.Eq
namespace Pt.EqM

/-! ## syntactic equality is decided by `Term.beq` -/

mutual
theorem Term.beq_iff_eq : ∀ a b : Term, Term.beq a b = true ↔ a = b
  | .node k1 a1 c1, .node k2 a2 c2 => by
    simp [Term.beq, Term.beqKids_iff_eq c1 c2, and_assoc]
theorem Term.beqKids_iff_eq : ∀ c d : Fields, Term.beqKids c d = true ↔ c = d
  | [], [] => by simp [Term.beqKids]
  | [], _ :: _ => by simp [Term.beqKids]
  | _ :: _, [] => by simp [Term.beqKids]
  | (f, cs) :: r, (g, ds) :: s => by
    simp [Term.beqKids, Term.beqList_iff_eq cs ds, Term.beqKids_iff_eq r s, and_assoc]
theorem Term.beqList_iff_eq : ∀ c d : List Term, Term.beqList c d = true ↔ c = d
  | [], [] => by simp [Term.beqList]
  | [], _ :: _ => by simp [Term.beqList]
  | _ :: _, [] => by simp [Term.beqList]
  | a :: as, b :: bs => by
    simp [Term.beqList, Term.beq_iff_eq a b, Term.beqList_iff_eq as bs]
end

instance : DecidableEq Term := fun a b =>
  decidable_of_iff (Term.beq a b = true) (Term.beq_iff_eq a b)

/-! ## the comparer decides equality of projections -/

theorem eqAttrs_iff (fs : List String) :
    ∀ a b : Attrs, eqAttrs fs a b = true ↔ projAttrs fs a = projAttrs fs b
  | [], [] => by simp [eqAttrs, projAttrs]
  | [], _ :: _ => by simp [eqAttrs, projAttrs]
  | _ :: _, [] => by simp [eqAttrs, projAttrs]
  | (f, v) :: r, (g, w) :: s => by
    by_cases hfg : f = g
    · subst hfg
      by_cases hc : f ∈ fs
      · simp [eqAttrs, projAttrs, hc, eqAttrs_iff fs r s]
      · simp [eqAttrs, projAttrs, hc, eqAttrs_iff fs r s]
    · simp [eqAttrs, projAttrs, hfg]

mutual
theorem eqStruct_iff_proj (tbl : Tbl) :
    ∀ a b : Term, eqStruct tbl a b = true ↔ proj tbl a = proj tbl b
  | .node k1 a1 c1, .node k2 a2 c2 => by
    by_cases hk : k1 = k2
    · subst hk
      simp [eqStruct, proj, eqAttrs_iff, eqKids_iff_proj tbl (tbl k1) c1 c2]
    · simp [eqStruct, proj, hk]
theorem eqKids_iff_proj (tbl : Tbl) (fs : List String) :
    ∀ c d : Fields, eqKids tbl fs c d = true ↔ projKids tbl fs c = projKids tbl fs d
  | [], [] => by simp [eqKids, projKids]
  | [], _ :: _ => by simp [eqKids, projKids]
  | _ :: _, [] => by simp [eqKids, projKids]
  | (f, cs) :: r, (g, ds) :: s => by
    by_cases hfg : f = g
    · subst hfg
      by_cases hc : f ∈ fs
      · simp [eqKids, projKids, hc, eqList_iff_proj tbl cs ds, eqKids_iff_proj tbl fs r s]
      · simp [eqKids, projKids, hc, eqKids_iff_proj tbl fs r s]
    · simp [eqKids, projKids, hfg]
theorem eqList_iff_proj (tbl : Tbl) :
    ∀ c d : List Term, eqList tbl c d = true ↔ projList tbl c = projList tbl d
  | [], [] => by simp [eqList, projList]
  | [], _ :: _ => by simp [eqList, projList]
  | _ :: _, [] => by simp [eqList, projList]
  | a :: as, b :: bs => by
    simp [eqList, projList, eqStruct_iff_proj tbl a b, eqList_iff_proj tbl as bs]
end

theorem semEqB_iff (sem : Tbl) (a b : Term) : semEqB sem a b = true ↔ SemEq sem a b := by
  simp [semEqB, SemEq, Term.beq_iff_eq]

instance (sem : Tbl) (a b : Term) : Decidable (SemEq sem a b) :=
  decidable_of_iff _ (semEqB_iff sem a b)

/-! ## reflexivity, symmetry, transitivity -/

theorem eqStruct_refl (tbl : Tbl) (a : Term) : eqStruct tbl a a = true :=
  (eqStruct_iff_proj tbl a a).2 rfl

theorem eqStruct_symm (tbl : Tbl) {a b : Term} (h : eqStruct tbl a b = true) :
    eqStruct tbl b a = true :=
  (eqStruct_iff_proj tbl b a).2 ((eqStruct_iff_proj tbl a b).1 h).symm

theorem eqStruct_trans (tbl : Tbl) {a b c : Term} (h1 : eqStruct tbl a b = true)
    (h2 : eqStruct tbl b c = true) : eqStruct tbl a c = true :=
  (eqStruct_iff_proj tbl a c).2
    (((eqStruct_iff_proj tbl a b).1 h1).trans ((eqStruct_iff_proj tbl b c).1 h2))

theorem eqStruct_comm (tbl : Tbl) (a b : Term) : eqStruct tbl a b = eqStruct tbl b a := by
  cases h : eqStruct tbl a b with
  | true => exact (eqStruct_symm tbl h).symm
  | false =>
    cases h' : eqStruct tbl b a with
    | false => rfl
    | true => rw [eqStruct_symm tbl h'] at h; cases h

theorem eqAttrs_refl (fs : List String) (a : Attrs) : eqAttrs fs a a = true :=
  (eqAttrs_iff fs a a).2 rfl
theorem eqKids_refl (tbl : Tbl) (fs : List String) (c : Fields) : eqKids tbl fs c c = true :=
  (eqKids_iff_proj tbl fs c c).2 rfl
theorem eqList_refl (tbl : Tbl) (c : List Term) : eqList tbl c c = true :=
  (eqList_iff_proj tbl c c).2 rfl

/-! ## the comparer depends on the table only through membership, on the kinds that occur -/

theorem eqAttrs_congr {fs gs : List String} (h : ∀ f, fs.contains f = gs.contains f) :
    ∀ a b : Attrs, eqAttrs fs a b = eqAttrs gs a b
  | [], [] => by simp [eqAttrs]
  | [], _ :: _ => by simp [eqAttrs]
  | _ :: _, [] => by simp [eqAttrs]
  | (f, v) :: r, (g, w) :: s => by
    simp only [eqAttrs]
    rw [h f, eqAttrs_congr h r s]

mutual
theorem eqStruct_congr_tbl {p : String → Bool} {t s : Tbl} (h : TblEquivOn p t s) :
    ∀ a b : Term, a.allKinds p = true → eqStruct t a b = eqStruct s a b
  | .node k1 a1 c1, .node k2 a2 c2, ha => by
    simp only [Term.allKinds, Bool.and_eq_true] at ha
    simp only [eqStruct]
    rw [eqAttrs_congr (h k1 ha.1) a1 a2, eqKids_congr_tbl h (h k1 ha.1) c1 c2 ha.2]
theorem eqKids_congr_tbl {p : String → Bool} {t s : Tbl} (h : TblEquivOn p t s)
    {fs gs : List String} (hf : ∀ f, fs.contains f = gs.contains f) :
    ∀ c d : Fields, Term.allKindsKids p c = true → eqKids t fs c d = eqKids s gs c d
  | [], [], _ => by simp [eqKids]
  | [], _ :: _, _ => by simp [eqKids]
  | _ :: _, [], _ => by simp [eqKids]
  | (f, cs) :: r, (g, ds) :: u, ha => by
    simp only [Term.allKindsKids, Bool.and_eq_true] at ha
    simp only [eqKids]
    rw [hf f, eqList_congr_tbl h cs ds ha.1, eqKids_congr_tbl h hf r u ha.2]
theorem eqList_congr_tbl {p : String → Bool} {t s : Tbl} (h : TblEquivOn p t s) :
    ∀ c d : List Term, Term.allKindsList p c = true → eqList t c d = eqList s c d
  | [], [], _ => by simp [eqList]
  | [], _ :: _, _ => by simp [eqList]
  | _ :: _, [], _ => by simp [eqList]
  | a :: as, b :: bs, ha => by
    simp only [Term.allKindsList, Bool.and_eq_true] at ha
    simp only [eqList]
    rw [eqStruct_congr_tbl h a b ha.1, eqList_congr_tbl h as bs ha.2]
end

mutual
theorem allKinds_true : ∀ a : Term, a.allKinds (fun _ => true) = true
  | .node _ _ c => by simp [Term.allKinds, allKindsKids_true c]
theorem allKindsKids_true : ∀ c : Fields, Term.allKindsKids (fun _ => true) c = true
  | [] => by simp [Term.allKindsKids]
  | (_, cs) :: r => by simp [Term.allKindsKids, allKindsList_true cs, allKindsKids_true r]
theorem allKindsList_true : ∀ c : List Term, Term.allKindsList (fun _ => true) c = true
  | [] => by simp [Term.allKindsList]
  | t :: ts => by simp [Term.allKindsList, allKinds_true t, allKindsList_true ts]
end

/-! ## equal terms hash equally -/

theorem projAttrs_of_eqAttrs {hs fs : List String}
    (hsub : ∀ f, hs.contains f = true → fs.contains f = true) :
    ∀ a b : Attrs, eqAttrs fs a b = true → projAttrs hs a = projAttrs hs b
  | [], [], _ => rfl
  | [], _ :: _, h => by simp [eqAttrs] at h
  | _ :: _, [], h => by simp [eqAttrs] at h
  | (f, v) :: r, (g, w) :: s, h => by
    simp only [eqAttrs, Bool.and_eq_true, _root_.beq_iff_eq, Bool.or_eq_true, Bool.not_eq_true'] at h
    obtain ⟨⟨hfg, hv⟩, hr⟩ := h
    subst hfg
    have ih := projAttrs_of_eqAttrs hsub r s hr
    by_cases hc : f ∈ hs
    · have hc' : hs.contains f = true := by simpa using hc
      have hv' : v = w := by
        rcases hv with hv | hv
        · rw [hsub f hc'] at hv; cases hv
        · simpa using hv
      simp [projAttrs, hc, hv', ih]
    · simp [projAttrs, hc, ih]

mutual
theorem hash_of_eqStruct (mix : Mix) {htbl tbl : Tbl} (hsub : TblSub htbl tbl) :
    ∀ a b : Term, eqStruct tbl a b = true → hashStruct mix htbl a = hashStruct mix htbl b
  | .node k1 a1 c1, .node k2 a2 c2, h => by
    simp only [eqStruct, Bool.and_eq_true, _root_.beq_iff_eq] at h
    obtain ⟨⟨hk, ha⟩, hc⟩ := h
    subst hk
    simp only [hashStruct]
    rw [projAttrs_of_eqAttrs (hsub k1) a1 a2 ha, hashKids_of_eqKids mix hsub (hsub k1) c1 c2 hc]
theorem hashKids_of_eqKids (mix : Mix) {htbl tbl : Tbl} (hsub : TblSub htbl tbl)
    {hs fs : List String} (hf : ∀ f, hs.contains f = true → fs.contains f = true) :
    ∀ c d : Fields, eqKids tbl fs c d = true → hashKids mix htbl hs c = hashKids mix htbl hs d
  | [], [], _ => rfl
  | [], _ :: _, h => by simp [eqKids] at h
  | _ :: _, [], h => by simp [eqKids] at h
  | (f, cs) :: r, (g, ds) :: s, h => by
    simp only [eqKids, Bool.and_eq_true, _root_.beq_iff_eq, Bool.or_eq_true, Bool.not_eq_true'] at h
    obtain ⟨⟨hfg, hv⟩, hr⟩ := h
    subst hfg
    have ih := hashKids_of_eqKids mix hsub hf r s hr
    by_cases hc : f ∈ hs
    · have hc' : hs.contains f = true := by simpa using hc
      have hv' : eqList tbl cs ds = true := by
        rcases hv with hv | hv
        · rw [hf f hc'] at hv; cases hv
        · exact hv
      simp [hashKids, hc, ih, hashList_of_eqList mix hsub cs ds hv']
    · simp [hashKids, hc, ih]
theorem hashList_of_eqList (mix : Mix) {htbl tbl : Tbl} (hsub : TblSub htbl tbl) :
    ∀ c d : List Term, eqList tbl c d = true → hashList mix htbl c = hashList mix htbl d
  | [], [], _ => rfl
  | [], _ :: _, h => by simp [eqList] at h
  | _ :: _, [], h => by simp [eqList] at h
  | a :: as, b :: bs, h => by
    simp only [eqList, Bool.and_eq_true] at h
    simp only [hashList]
    rw [hash_of_eqStruct mix hsub a b h.1, hashList_of_eqList mix hsub as bs h.2]
end

/-! ## congruence: replacing a child by an equal child -/

theorem eqList_splice (tbl : Tbl) {a b : Term} (h : eqStruct tbl a b = true) (r : List Term) :
    ∀ l : List Term, eqList tbl (l ++ a :: r) (l ++ b :: r) = true
  | [] => by simp [eqList, h, eqList_refl]
  | t :: l => by simp [eqList, eqStruct_refl, eqList_splice tbl h r l]

theorem eqKids_splice (tbl : Tbl) (fs : List String) (f : String) {cs ds : List Term}
    (h : eqList tbl cs ds = true) (post : Fields) :
    ∀ pre : Fields, eqKids tbl fs (pre ++ (f, cs) :: post) (pre ++ (f, ds) :: post) = true
  | [] => by simp [eqKids, h, eqKids_refl]
  | (g, es) :: pre => by simp [eqKids, eqList_refl, eqKids_splice tbl fs f h post pre]

theorem eqStruct_plug (tbl : Tbl) {a b : Term} (h : eqStruct tbl a b = true) :
    ∀ C : Ctx, eqStruct tbl (C.plug a) (C.plug b) = true
  | .hole => h
  | .node k _ pre f l c r post => by
    have ih := eqStruct_plug tbl h c
    simp [Ctx.plug, eqStruct, eqAttrs_refl,
      eqKids_splice tbl (tbl k) f (eqList_splice tbl ih r l) post pre]

/-! ## the token encoding is prefix-free, hence injective -/

theorem encAttrs_pf : ∀ (a b : Attrs) (r r' : List Token), a.length = b.length →
    encAttrs a ++ r = encAttrs b ++ r' → a = b ∧ r = r'
  | [], [], r, r', _, h => by simpa [encAttrs] using h
  | [], _ :: _, _, _, hl, _ => by simp at hl
  | _ :: _, [], _, _, hl, _ => by simp at hl
  | (f, v) :: a, (g, w) :: b, r, r', hl, h => by
    simp only [encAttrs, List.cons_append, List.cons.injEq, Token.s.injEq] at h
    obtain ⟨hf, hv, hrest⟩ := h
    have hl' : a.length = b.length := by simpa using hl
    obtain ⟨hab, hr⟩ := encAttrs_pf a b r r' hl' hrest
    subst hf hv hab
    exact ⟨rfl, hr⟩

mutual
theorem encFull_pf : ∀ (a b : Term) (r r' : List Token),
    encFull a ++ r = encFull b ++ r' → a = b ∧ r = r'
  | .node k1 a1 c1, .node k2 a2 c2, r, r', h => by
    simp only [encFull, List.cons_append, List.append_assoc, List.cons.injEq, Token.s.injEq,
      Token.n.injEq] at h
    obtain ⟨hk, hal, hrest⟩ := h
    obtain ⟨ha, hrest⟩ := encAttrs_pf a1 a2 _ _ hal hrest
    simp only [List.cons.injEq, Token.n.injEq] at hrest
    obtain ⟨hcl, hrest⟩ := hrest
    obtain ⟨hc, hr⟩ := encKids_pf c1 c2 r r' hcl hrest
    subst hk ha hc
    exact ⟨rfl, hr⟩
theorem encKids_pf : ∀ (c d : Fields) (r r' : List Token), c.length = d.length →
    encKids c ++ r = encKids d ++ r' → c = d ∧ r = r'
  | [], [], r, r', _, h => by simpa [encKids] using h
  | [], _ :: _, _, _, hl, _ => by simp at hl
  | _ :: _, [], _, _, hl, _ => by simp at hl
  | (f, cs) :: c, (g, ds) :: d, r, r', hl, h => by
    simp only [encKids, List.cons_append, List.append_assoc, List.cons.injEq, Token.s.injEq,
      Token.n.injEq] at h
    obtain ⟨hf, hlen, hrest⟩ := h
    obtain ⟨hcs, hrest⟩ := encList_pf cs ds _ _ hlen hrest
    have hl' : c.length = d.length := by simpa using hl
    obtain ⟨hcd, hr⟩ := encKids_pf c d r r' hl' hrest
    subst hf hcs hcd
    exact ⟨rfl, hr⟩
theorem encList_pf : ∀ (c d : List Term) (r r' : List Token), c.length = d.length →
    encList c ++ r = encList d ++ r' → c = d ∧ r = r'
  | [], [], r, r', _, h => by simpa [encList] using h
  | [], _ :: _, _, _, hl, _ => by simp at hl
  | _ :: _, [], _, _, hl, _ => by simp at hl
  | a :: as, b :: bs, r, r', hl, h => by
    simp only [encList, List.append_assoc] at h
    obtain ⟨hab, hrest⟩ := encFull_pf a b _ _ h
    have hl' : as.length = bs.length := by simpa using hl
    obtain ⟨hbs, hr⟩ := encList_pf as bs r r' hl' hrest
    subst hab hbs
    exact ⟨rfl, hr⟩
end

theorem encFull_injective {a b : Term} (h : encFull a = encFull b) : a = b := by
  have := encFull_pf a b [] [] (by simpa using h)
  exact this.1

/-! ## projecting with a smaller table after a larger one -/

theorem projAttrs_absorb {hs fs : List String}
    (hsub : ∀ f, hs.contains f = true → fs.contains f = true) :
    ∀ a : Attrs, projAttrs hs (projAttrs fs a) = projAttrs hs a
  | [] => rfl
  | (f, v) :: r => by
    by_cases hc : f ∈ hs
    · have hc2 : f ∈ fs := by simpa using hsub f (by simpa using hc)
      simp [projAttrs, hc, hc2, projAttrs_absorb hsub r]
    · simp [projAttrs, hc, projAttrs_absorb hsub r]

mutual
theorem proj_absorb {s t : Tbl} (hsub : TblSub s t) : ∀ a : Term, proj s (proj t a) = proj s a
  | .node k a c => by
    simp only [proj]
    rw [projAttrs_absorb (hsub k) a, projKids_absorb hsub (hsub k) c]
theorem projKids_absorb {s t : Tbl} (hsub : TblSub s t) {hs fs : List String}
    (hf : ∀ f, hs.contains f = true → fs.contains f = true) :
    ∀ c : Fields, projKids s hs (projKids t fs c) = projKids s hs c
  | [] => rfl
  | (f, cs) :: r => by
    by_cases hc : f ∈ hs
    · have hc2 : f ∈ fs := by simpa using hf f (by simpa using hc)
      simp [projKids, hc, hc2, projList_absorb hsub cs, projKids_absorb hsub hf r]
    · simp [projKids, hc, projKids_absorb hsub hf r]
theorem projList_absorb {s t : Tbl} (hsub : TblSub s t) :
    ∀ c : List Term, projList s (projList t c) = projList s c
  | [] => rfl
  | a :: as => by simp [projList, proj_absorb hsub a, projList_absorb hsub as]
end

theorem semEq_mono {s t : Tbl} (hsub : TblSub s t) {a b : Term} (h : SemEq t a b) : SemEq s a b := by
  unfold SemEq at *
  rw [← proj_absorb hsub a, ← proj_absorb hsub b, h]

end Pt.EqM

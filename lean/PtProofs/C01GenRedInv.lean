/-
  C01 generator model, reductions — inversion of the generator on a reduction of the fragment:
  which names are drawn in which order, what `hoistBounds` and `ilStore` produce.
-/
import PtProofs.C01GenRedChain
namespace Pt
namespace LG

theorem DrewMany.cons {st st2 st3 : St} {n : String} {ns : List String} (d1 : Drew st st2 n)
    (d2 : DrewMany st2 st3 ns) : DrewMany st st3 (n :: ns) := by
  refine ⟨?_, ?_, ?_, by rw [d2.ing, d1.ing], by rw [d2.results, d1.results], by rw [d2.stmts, d1.stmts]⟩
  · refine List.nodup_cons.2 ⟨fun hm => ?_, d2.nodup⟩
    exact d2.fresh n hm (by rw [d1.ex]; simp)
  · intro m hm
    rcases List.mem_cons.1 hm with rfl | hm
    · exact d1.fresh
    · intro hx
      exact d2.fresh m hm (by rw [d1.ex]; exact List.mem_cons_of_mem _ hx)
  · intro x
    rw [d2.mem, d1.ex]
    simp only [List.mem_cons]
    constructor
    · rintro (h | h | h)
      · exact Or.inl (Or.inr h)
      · exact Or.inl (Or.inl h)
      · exact Or.inr h
    · rintro ((h | h) | h)
      · exact Or.inr (Or.inl h)
      · exact Or.inl h
      · exact Or.inr (Or.inr h)

theorem DrewMany.nil (st : St) : DrewMany st st [] :=
  ⟨List.nodup_nil, by simp, by simp, rfl, rfl, rfl⟩

/-- the unique names of the reduction variables: one per variable, drawn in order -/
theorem uniqNames_inv {rvars : List RVar} : ∀ {vs : List String} {st st' : St} {uniq : List (String × String)},
    uniqNames rvars vs st = .ok (uniq, st') → uniq.map (·.1) = vs ∧ DrewMany st st' (uniq.map (·.2))
  | [], st, st', uniq, h => by
    simp only [uniqNames, Res.ok.injEq, Prod.mk.injEq] at h
    obtain ⟨rfl, rfl⟩ := h
    exact ⟨rfl, DrewMany.nil _⟩
  | v :: vs, st, st', uniq, h => by
    simp only [uniqNames] at h
    cases hf : rvars.find? (·.name == v) with
    | none => simp [hf] at h
    | some rv =>
      simp only [hf] at h
      obtain ⟨p, hp, h⟩ := Res.bind_ok.1 h
      obtain ⟨n, st2⟩ := p
      obtain ⟨q, hq, h⟩ := Res.bind_ok.1 h
      obtain ⟨rs, st3⟩ := q
      simp only [Res.ok.injEq, Prod.mk.injEq] at h
      obtain ⟨rfl, rfl⟩ := h
      obtain ⟨h1, h2⟩ := uniqNames_inv hq
      exact ⟨by simp [h1], DrewMany.cons (St.var_drew hp) h2⟩

/-! ## names drawn while instruction ids are drawn as well -/

structure DrewV (st st1 : St) (ns : List String) : Prop where
  nodup : ns.Nodup
  fresh : ∀ n ∈ ns, n ∉ st.vng.existing
  mem : ∀ x, x ∈ st1.vng.existing ↔ x ∈ ns ∨ x ∈ st.vng.existing
  results : st1.results = st.results
  stmts : st1.stmts = st.stmts

theorem DrewMany.toV {st st1 : St} {ns : List String} (d : DrewMany st st1 ns) : DrewV st st1 ns :=
  ⟨d.nodup, d.fresh, d.mem, d.results, d.stmts⟩

theorem Drew.toV {st st1 : St} {n : String} (d : Drew st st1 n) : DrewV st st1 [n] :=
  ⟨by simp, by simpa using d.fresh, by intro x; rw [d.ex]; simp, d.results, d.stmts⟩

theorem DrewV.nil (st : St) : DrewV st st [] := ⟨List.nodup_nil, by simp, by simp, rfl, rfl⟩

theorem DrewV.ofInsnId {st st1 : St} {b n : String} (h : st.insnId b = .ok (n, st1)) : DrewV st st1 [] := by
  obtain ⟨g', _, rfl⟩ := St.insnId_ok h
  exact ⟨List.nodup_nil, by simp, by simp, rfl, rfl⟩

theorem DrewV.trans {a b c : St} {ns ms : List String} (d1 : DrewV a b ns) (d2 : DrewV b c ms) :
    DrewV a c (ns ++ ms) := by
  refine ⟨?_, ?_, ?_, by rw [d2.results, d1.results], by rw [d2.stmts, d1.stmts]⟩
  · refine List.nodup_append.2 ⟨d1.nodup, d2.nodup, fun x hx y hy e => ?_⟩
    subst e
    exact d2.fresh x hy ((d1.mem x).2 (Or.inl hx))
  · intro n hn
    rcases List.mem_append.1 hn with h | h
    · exact d1.fresh n h
    · exact fun hx => d2.fresh n h ((d1.mem n).2 (Or.inr hx))
  · intro x
    rw [d2.mem, d1.mem, List.mem_append]
    constructor
    · rintro (h | h | h)
      · exact Or.inl (Or.inr h)
      · exact Or.inl (Or.inl h)
      · exact Or.inr h
    · rintro ((h | h) | h)
      · exact Or.inr (Or.inl h)
      · exact Or.inl h
      · exact Or.inr (Or.inr h)

/-- the same for instruction ids -/
structure DrewI (st st1 : St) (ns : List String) : Prop where
  nodup : ns.Nodup
  fresh : ∀ n ∈ ns, n ∉ st.ing.existing
  mem : ∀ x, x ∈ st1.ing.existing ↔ x ∈ ns ∨ x ∈ st.ing.existing

theorem DrewI.nil (st : St) : DrewI st st [] := ⟨List.nodup_nil, by simp, by simp⟩

theorem DrewI.ofVar {st st1 : St} {b n : String} (h : st.var b = .ok (n, st1)) : DrewI st st1 [] := by
  obtain ⟨g', _, rfl⟩ := St.var_ok h
  exact ⟨List.nodup_nil, by simp, by simp⟩

theorem DrewI.ofInsnId {st st1 : St} {b n : String} (h : st.insnId b = .ok (n, st1)) : DrewI st st1 [n] := by
  obtain ⟨g', hg, rfl⟩ := St.insnId_ok h
  obtain ⟨hf, he⟩ := gen_fresh _ _ _ _ hg
  exact ⟨by simp, by simpa using hf, by intro x; show x ∈ g'.existing ↔ _; rw [he]; simp⟩

theorem DrewI.trans {a b c : St} {ns ms : List String} (d1 : DrewI a b ns) (d2 : DrewI b c ms) :
    DrewI a c (ns ++ ms) := by
  refine ⟨?_, ?_, ?_⟩
  · refine List.nodup_append.2 ⟨d1.nodup, d2.nodup, fun x hx y hy e => ?_⟩
    subst e
    exact d2.fresh x hy ((d1.mem x).2 (Or.inl hx))
  · intro n hn
    rcases List.mem_append.1 hn with h | h
    · exact d1.fresh n h
    · exact fun hx => d2.fresh n h ((d1.mem n).2 (Or.inr hx))
  · intro x
    rw [d2.mem, d1.mem, List.mem_append]
    constructor
    · rintro (h | h | h)
      · exact Or.inl (Or.inr h)
      · exact Or.inl (Or.inl h)
      · exact Or.inr h
    · rintro ((h | h) | h)
      · exact Or.inr (Or.inl h)
      · exact Or.inl h
      · exact Or.inr (Or.inr h)

namespace RL
def ids (r : RL) : List String := [r.il, r.iu]
end RL

/-! ## hoisting the bounds -/

theorem hoistBounds_inv (ns : List (String × Impl)) (uniq : List (String × String)) (e : SExpr) :
    ∀ (ch : List Level) (rvs : List RVar) (st st' : St) (hs : List Hoisted) (nb : List (String × SExpr × SExpr)),
      rvs.map (·.name) = ch.map (·.2.1) →
      (∀ rv ∈ rvs, rv.loAffine = false ∧ rv.hiAffine = false) →
      (∀ c ∈ ch, boundsOf c.2.1 e = some (c.2.2.1, c.2.2.2) ∧ (∃ u, lookupStr uniq c.2.1 = some u)) →
      hoistBounds ns uniq e false rvs st = .ok (hs, nb, st') →
      ∃ ls : List RL, ls.map RL.sem = ch ∧ (∀ r ∈ ls, lookupStr uniq r.v = some r.u) ∧
        (∀ r ∈ ls, gen ns [] r.lo = some r.lb ∧ gen ns [] r.hi = some r.ub) ∧
        hs = ls.flatMap RL.hs ∧ nb = ls.map RL.nb ∧ DrewV st st' (ls.flatMap RL.temps) ∧
        DrewI st st' (ls.flatMap RL.ids)
  | [], [], st, st', hs, nb, _, _, _, h => by
    simp only [hoistBounds, Res.ok.injEq, Prod.mk.injEq] at h
    obtain ⟨rfl, rfl, rfl⟩ := h
    exact ⟨[], rfl, by simp, by simp, rfl, rfl, DrewV.nil _, DrewI.nil _⟩
  | [], _ :: _, _, _, _, _, hn, _, _, _ => by simp at hn
  | _ :: _, [], _, _, _, _, hn, _, _, _ => by simp at hn
  | c :: cs, rv :: rvs, st, st', hs, nb, hn, hfl, hch, h => by
    simp only [List.map_cons, List.cons.injEq] at hn
    obtain ⟨hname, hn'⟩ := hn
    obtain ⟨hb, ⟨u, hu⟩⟩ := hch c (by simp)
    obtain ⟨hfl1, hfl2⟩ := hfl rv (by simp)
    obtain ⟨op, v, lo, hi⟩ := c
    simp only at hname hb hu
    simp only [hoistBounds, hname, hb, hu, hfl1, hfl2, Bool.false_eq_true, if_false] at h
    obtain ⟨lr, hl, h⟩ := Res.bind_ok.1 h
    cases hgl : gen ns [] lo with
    | none => simp [hgl] at hl
    | some lb =>
    simp only [hgl] at hl
    obtain ⟨t1, ht1, hl⟩ := Res.bind_ok.1 hl
    obtain ⟨tl, sa⟩ := t1
    obtain ⟨i1, hi1, hl⟩ := Res.bind_ok.1 hl
    obtain ⟨il, sb⟩ := i1
    simp only [Res.ok.injEq] at hl
    subst hl
    obtain ⟨ur, hur, h⟩ := Res.bind_ok.1 h
    cases hgu : gen ns [] hi with
    | none => simp [hgu] at hur
    | some ub =>
    simp only [hgu] at hur
    obtain ⟨t2, ht2, hur⟩ := Res.bind_ok.1 hur
    obtain ⟨tu, sc⟩ := t2
    obtain ⟨i2, hi2, hur⟩ := Res.bind_ok.1 hur
    obtain ⟨iu, sd⟩ := i2
    simp only [Res.ok.injEq] at hur
    subst hur
    obtain ⟨rr, hrr, h⟩ := Res.bind_ok.1 h
    obtain ⟨hs', nb', st''⟩ := rr
    simp only [Res.ok.injEq, Prod.mk.injEq] at h
    obtain ⟨rfl, rfl, rfl⟩ := h
    obtain ⟨ls, hls, hlu, hlg, rfl, rfl, hd, hdi⟩ := hoistBounds_inv ns uniq e cs rvs sd st'' hs' nb' hn'
      (fun rv' h' => hfl rv' (List.mem_cons_of_mem _ h')) (fun c' h' => hch c' (List.mem_cons_of_mem _ h')) hrr
    refine ⟨(⟨op, v, u, lo, hi, lb, ub, tl, il, tu, iu⟩ : RL) :: ls,
      by simp [RL.sem, hls], ?_, ?_, by simp [RL.hs], by simp [RL.nb], ?_, ?_⟩
    · intro r hr
      rcases List.mem_cons.1 hr with rfl | hr
      · exact hu
      · exact hlu r hr
    · intro r hr
      rcases List.mem_cons.1 hr with rfl | hr
      · exact ⟨hgl, hgu⟩
      · exact hlg r hr
    · have d := (((St.var_drew ht1).toV.trans (DrewV.ofInsnId hi1)).trans
        ((St.var_drew ht2).toV.trans (DrewV.ofInsnId hi2))).trans hd
      simpa [RL.temps] using d
    · have d := (((DrewI.ofVar ht1).trans (DrewI.ofInsnId hi1)).trans
        ((DrewI.ofVar ht2).trans (DrewI.ofInsnId hi2))).trans hdi
      simpa [RL.ids] using d

/-! ## the bounds of a chain's variables -/

theorem boundsOf_chain (body : SExpr) : ∀ (ch : List Level), (ch.map (·.2.1)).Nodup →
    ∀ c ∈ ch, boundsOf c.2.1 (mkChain ch body) = some (c.2.2.1, c.2.2.2)
  | [], _, c, hc => by simp at hc
  | (op, w, lo, hi) :: cs, hnd, c, hc => by
    have hnd' : w ∉ cs.map (·.2.1) ∧ (cs.map (·.2.1)).Nodup := List.nodup_cons.1 hnd
    simp only [mkChain, boundsOf]
    rcases List.mem_cons.1 hc with rfl | hc
    · simp
    · have hne : ¬ (w = c.2.1) := fun e => hnd'.1 (e ▸ List.mem_map.2 ⟨c, hc, rfl⟩)
      rw [if_neg (by simpa using hne)]
      exact boundsOf_chain body cs hnd'.2 c hc

/-! ## the namespace with the bound temporaries -/

def tempNs (ls : List RL) : List (String × Impl) :=
  (ls.flatMap RL.hs).map fun h => (h.temp, Impl.stored h.temp [h.id])

theorem lookup_tempNs : ∀ {ls : List RL}, (ls.flatMap RL.temps).Nodup → ∀ r ∈ ls,
    lookupNs (tempNs ls) r.tl = some (.stored r.tl [r.il]) ∧ lookupNs (tempNs ls) r.tu = some (.stored r.tu [r.iu])
  | [], _, r, hr => by simp at hr
  | a :: rest, hnd, r, hr => by
    have hnd0 : ([a.tl, a.tu] ++ rest.flatMap RL.temps).Nodup := by simpa [RL.temps] using hnd
    obtain ⟨h1, h2, h3⟩ := List.nodup_append.1 hnd0
    have hab : a.tl ≠ a.tu := by
      intro e
      have := List.nodup_cons.1 h1
      exact this.1 (by simp [e])
    have hunf : tempNs (a :: rest) = (a.tl, Impl.stored a.tl [a.il]) :: (a.tu, Impl.stored a.tu [a.iu]) :: tempNs rest := by
      simp [tempNs, RL.hs]
    rw [hunf]
    unfold lookupNs
    rcases List.mem_cons.1 hr with rfl | hr
    · constructor
      · rw [List.find?_cons_of_pos (by simp)]; rfl
      · rw [List.find?_cons_of_neg (by simpa using hab), List.find?_cons_of_pos (by simp)]; rfl
    · have hin : r.tl ∈ rest.flatMap RL.temps ∧ r.tu ∈ rest.flatMap RL.temps := by
        constructor <;> exact List.mem_flatMap.2 ⟨r, hr, by simp [RL.temps]⟩
      have n1 : a.tl ≠ r.tl := fun e => h3 a.tl (by simp) r.tl hin.1 e
      have n2 : a.tu ≠ r.tl := fun e => h3 a.tu (by simp) r.tl hin.1 e
      have n3 : a.tl ≠ r.tu := fun e => h3 a.tl (by simp) r.tu hin.2 e
      have n4 : a.tu ≠ r.tu := fun e => h3 a.tu (by simp) r.tu hin.2 e
      obtain ⟨ih1, ih2⟩ := lookup_tempNs h2 r hr
      unfold lookupNs at ih1 ih2
      constructor
      · rw [List.find?_cons_of_neg (by simpa using n1), List.find?_cons_of_neg (by simpa using n2)]; exact ih1
      · rw [List.find?_cons_of_neg (by simpa using n3), List.find?_cons_of_neg (by simpa using n4)]; exact ih2

theorem any_temp_hs {ls : List RL} {r : RL} (hr : r ∈ ls) :
    (ls.flatMap RL.hs).any (·.temp == r.tl) = true ∧ (ls.flatMap RL.hs).any (·.temp == r.tu) = true := by
  constructor
  · exact List.any_eq_true.2 ⟨_, List.mem_flatMap.2 ⟨r, hr, by simp [RL.hs]; exact Or.inl rfl⟩, by simp⟩
  · exact List.any_eq_true.2 ⟨_, List.mem_flatMap.2 ⟨r, hr, by simp [RL.hs]; exact Or.inr rfl⟩, by simp⟩

/-! ## the stored reduction -/

theorem pairs_eq : ∀ {uniq : List (String × String)} {ls : List RL}, uniq.map (·.1) = ls.map (·.v) →
    (ls.map (·.v)).Nodup → (∀ r ∈ ls, lookupStr uniq r.v = some r.u) → uniq = ls.map RL.pair
  | [], [], _, _, _ => rfl
  | [], _ :: _, h, _, _ => by simp at h
  | _ :: _, [], h, _, _ => by simp at h
  | p :: ps, r :: rs, h, hnd, hl => by
    simp only [List.map_cons, List.cons.injEq] at h
    obtain ⟨h1, h2⟩ := h
    have hnd' : r.v ∉ rs.map (·.v) ∧ (rs.map (·.v)).Nodup := List.nodup_cons.1 hnd
    have hp : p = (r.v, r.u) := by
      have := hl r (by simp)
      unfold lookupStr at this
      rw [List.find?_cons_of_pos (by simpa using h1)] at this
      simp only [Option.map_some, Option.some.injEq] at this
      exact Prod.ext h1 this
    have ih := pairs_eq (uniq := ps) (ls := rs) h2 hnd'.2 (by
      intro r' hr'
      have := hl r' (List.mem_cons_of_mem _ hr')
      unfold lookupStr at this ⊢
      rw [List.find?_cons_of_neg (by
        have : ¬ (p.1 = r'.v) := fun e => hnd'.1 (by rw [← h1, e]; exact List.mem_map.2 ⟨r', hr', rfl⟩)
        simpa using this)] at this
      exact this)
    simp [hp, RL.pair, ih]

theorem ilStore_invR {shape : Shape} {e body : SExpr} {ch : List Level} {tag : NameTag}
    {rvars : List RVar} {uniq : List (String × String)} {ns : List (String × Impl)} {bd : List String}
    {i : Nat} {st st' : St} {r : Impl} (rk : String → Option Nat) {n : Nat}
    (he : e = mkChain ch body) (hne : isEmptyShape shape = false)
    (hnd : (ch.map (·.2.1)).Nodup)
    (hrv : rvars.map (·.name) = ch.map (·.2.1)) (hfl : ∀ rv ∈ rvars, rv.loAffine = false ∧ rv.hiAffine = false)
    (huq : uniq.map (·.1) = ch.map (·.2.1))
    (hbok : exprOK n body = true) (hbrk : ranksOKS rk (ch.map (·.2.1)) body = true)
    (hfound : ∀ x k, rk x = some k → lookupNs ns x ≠ none)
    (hUex : ∀ p ∈ uniq, p.2 ∈ st.vng.existing)
    (h : ilStore shape e tag rvars uniq ns bd i st = .ok (r, st')) :
    ∃ (name : String) (st2 : St) (inames : List String) (st3 : St) (ls : List RL) (st3' : St) (b' : SExpr)
      (id : String) (st4 : St) (deps : List String),
      tempName st tag = .ok (name, st2) ∧
      St.vars st2 (dimNames name shape.length) = .ok (inames, st3) ∧
      ls.map RL.sem = ch ∧ uniq = ls.map RL.pair ∧ DrewV st3 st3' (ls.flatMap RL.temps) ∧
      DrewI st3 st3' (ls.flatMap RL.ids) ∧
      (∀ r ∈ ls, gen ns [] r.lo = some r.lb ∧ gen ns [] r.hi = some r.ub) ∧
      deps = bd ++ genDeps (ns ++ tempNs ls) [] (mkChain (ls.map RL.renamed) (renameRed uniq body)) ∧
      (∀ r ∈ ls, r.u ∉ ch.map (·.2.1) ∧ lookupNs ns r.u = none ∧ lookupNs ns r.tl = none ∧ lookupNs ns r.tu = none) ∧
      gen ns (ls.map (·.u)).reverse (renameRed uniq body) = some b' ∧
      st3'.insnId (name ++ "_store") = .ok (id, st4) ∧ r = .stored name [id] ∧
      st' = (emitStored (ls.flatMap RL.hs) bd id name inames shape
               (readBackBounds (ls.flatMap RL.hs) uniq
                 (substIdx (inameVars inames) (mkChain (ls.map RL.renamed) b')))
               deps st4).remember i r := by
  unfold ilStore at h
  obtain ⟨nm, hnm, h⟩ := Res.bind_ok.1 h
  obtain ⟨name, st2⟩ := nm
  obtain ⟨ins, hins, h⟩ := Res.bind_ok.1 h
  obtain ⟨inames, st3⟩ := ins
  obtain ⟨hb, hhb, h⟩ := Res.bind_ok.1 h
  obtain ⟨hs, nb, st3'⟩ := hb
  rw [hne] at hhb
  -- the levels
  have hch : ∀ c ∈ ch, boundsOf c.2.1 e = some (c.2.2.1, c.2.2.2) ∧ (∃ u, lookupStr uniq c.2.1 = some u) := by
    intro c hc
    refine ⟨by rw [he]; exact boundsOf_chain body ch hnd c hc, ?_⟩
    cases hl : lookupStr uniq c.2.1 with
    | some u => exact ⟨u, rfl⟩
    | none =>
      have := lookupStr_none_not_key hl
      rw [huq] at this
      have hm : c.2.1 ∈ ch.map (·.2.1) := List.mem_map.2 ⟨c, hc, rfl⟩
      simp only [List.contains_eq_mem, decide_eq_false_iff_not] at this
      exact absurd hm this
  obtain ⟨ls, hls, hlu, hlg, rfl, rfl, hd, hdi⟩ := hoistBounds_inv ns uniq e ch rvars st3 st3' hs nb hrv hfl hch hhb
  have hvs : ls.map (·.v) = ch.map (·.2.1) := by
    rw [← hls]; simp [RL.sem]
  have hndv : (ls.map (·.v)).Nodup := by rw [hvs]; exact hnd
  have huniq : uniq = ls.map RL.pair := pairs_eq (by rw [huq, hvs]) hndv hlu
  -- the guard
  simp only at h
  split at h
  · cases h
  rename_i hguard
  simp only [Bool.or_eq_true, not_or, Bool.not_eq_true, List.any_eq_false, Bool.or_eq_false_iff] at hguard
  obtain ⟨hg1, hg2⟩ := hguard
  have hgu : ∀ r ∈ ls, r.u ∉ ch.map (·.2.1) ∧ lookupNs ns r.u = none ∧ lookupNs ns r.tl = none ∧
      lookupNs ns r.tu = none := by
    intro r hr
    have hp : (r.v, r.u) ∈ uniq := by rw [huniq]; exact List.mem_map.2 ⟨r, hr, rfl⟩
    obtain ⟨a1, a2⟩ := hg1 _ hp
    have b1 := hg2 _ (List.mem_flatMap.2 ⟨r, hr, by simp [RL.hs]; exact Or.inl rfl⟩)
    have b2 := hg2 _ (List.mem_flatMap.2 ⟨r, hr, by simp [RL.hs]; exact Or.inr rfl⟩)
    refine ⟨?_, ?_, ?_, ?_⟩
    · rw [← hrv]; simpa using a1
    · simpa using a2
    · simpa using b1
    · simpa using b2
  -- the expression
  have hnbfind : ∀ r ∈ ls, (ls.map RL.nb).find? (·.1 == r.v) = some r.nb := find_nb hndv
  have he' : renameRed uniq (replaceBounds (ls.map RL.nb) e) =
      mkChain (ls.map RL.renamed) (renameRed uniq body) := by
    rw [he, ← hls, replaceBounds_chain (ls.map RL.nb) body hbok ls hnbfind, renameRed_chain uniq body ls hlu]
  rw [he'] at h
  cases hgen : gen (ns ++ (ls.flatMap RL.hs).map fun h => (h.temp, Impl.stored h.temp [h.id])) []
      (mkChain (ls.map RL.renamed) (renameRed uniq body)) with
  | none => simp [hgen] at h
  | some le =>
    simp only [hgen] at h
    obtain ⟨idr, hid, h⟩ := Res.bind_ok.1 h
    obtain ⟨id, st4⟩ := idr
    simp only [Res.ok.injEq, Prod.mk.injEq] at h
    obtain ⟨rfl, rfl⟩ := h
    -- the names: the temporaries are new w.r.t. everything known when the node was entered
    have hst3 : ∀ x ∈ st.vng.existing, x ∈ st3.vng.existing := by
      intro x hx
      obtain ⟨d2, _⟩ := St.vars_drew hins
      exact (d2.mem x).2 (Or.inr (by rw [(tempName_drew hnm).ex]; exact List.mem_cons_of_mem _ hx))
    have hTU : ∀ r ∈ ls, r.tl ∉ ls.map (·.u) ∧ r.tu ∉ ls.map (·.u) ∧ r.u ∈ ls.map (·.u) := by
      intro r hr
      have hfresh : ∀ t ∈ r.temps, t ∉ ls.map (·.u) := by
        intro t ht hm
        obtain ⟨r', hr', hu'⟩ := List.mem_map.1 hm
        have : (r'.v, r'.u) ∈ uniq := by rw [huniq]; exact List.mem_map.2 ⟨r', hr', rfl⟩
        exact hd.fresh t (List.mem_flatMap.2 ⟨r, hr, ht⟩) (hst3 _ (by rw [← hu']; exact hUex _ this))
      exact ⟨hfresh _ (by simp [RL.temps]), hfresh _ (by simp [RL.temps]), List.mem_map.2 ⟨r, hr, rfl⟩⟩
    have hlook : ∀ r ∈ ls, ∃ i1 i2,
        lookupNs (ns ++ tempNs ls) r.tl = some (.stored r.tl [i1]) ∧
        lookupNs (ns ++ tempNs ls) r.tu = some (.stored r.tu [i2]) := by
      intro r hr
      obtain ⟨_, _, n1, n2⟩ := hgu r hr
      obtain ⟨l1, l2⟩ := lookup_tempNs hd.nodup r hr
      exact ⟨r.il, r.iu, by rw [lookupNs_append_none n1]; exact l1, by rw [lookupNs_append_none n2]; exact l2⟩
    obtain ⟨b', hb1, hb2⟩ := gen_chain_inv (ns ++ tempNs ls) (ls.map (·.u)) (renameRed uniq body) ls [] le
      hlook hTU (by simp) hgen
    rw [List.append_nil] at hb1
    have hin : ∀ x u, lookupStr uniq x = some u → (ls.map (·.u)).reverse.contains u = true := by
      intro x u hxu
      have := (lookupStr_some_mem hxu).2
      rw [huniq] at this
      simp only [List.map_map] at this
      simpa [RL.pair] using this
    have hbrk' : ranksOKS rk (uniq.map (·.1)) body = true := by rw [huq]; exact hbrk
    rw [gen_append ns (tempNs ls) rk uniq n hfound body _ hin hbok hbrk'] at hb1
    exact ⟨name, st2, inames, st3, ls, st3', b', id, st4, _, hnm, hins, hls, huniq, hd, hdi, hlg, rfl, hgu, hb1, hid, rfl,
      by rw [hb2]; rfl⟩

end LG
end Pt

/-
  `rewrite_einsums_with_no_broadcasts` on one einsum (property C06): squeezing
  the broadcast-unit axes of the operands and dropping them from the access
  descriptors does not change the einsum.
-/
import PtModel.Einsum
import PtProofs.EinsumLemmas
namespace Pt
namespace Spec

/-! ### the axis-length table, axis by axis -/

def tblGet (tbl : List (EAxis × Nat)) (ax : EAxis) : Option Nat :=
  (tbl.find? (·.1 == ax)).map (·.2)

theorem axisLen_eq (tbl : List (EAxis × Nat)) (ax : EAxis) :
    axisLen tbl ax = (tblGet tbl ax).getD 1 := rfl

/-- how a newly seen operand-axis length updates the recorded length -/
def lenStep (seen n : Nat) : Nat := if seen = n then seen else if n = 1 then seen else n

def optStep (o : Option Nat) (n : Nat) : Option Nat :=
  some (match o with | none => n | some seen => lenStep seen n)

def updPair (a : EAxis) (n : Nat) (p : EAxis × Nat) : EAxis × Nat :=
  if p.1 == a then (p.1, n) else (p.1, p.2)

theorem updPair_fst (a : EAxis) (n : Nat) (p : EAxis × Nat) : (updPair a n p).1 = p.1 := by
  unfold updPair; split <;> rfl

theorem find_map_update (a : EAxis) (n : Nat) (tbl : List (EAxis × Nat)) (ax : EAxis) :
    ((tbl.map (updPair a n)).find? (·.1 == ax)).map (·.2)
      = ((tbl.find? (·.1 == ax)).map (·.2)).map fun m => if ax = a then n else m := by
  rw [List.find?_map]
  have hq : ((fun (x : EAxis × Nat) => x.1 == ax) ∘ updPair a n) = (fun x => x.1 == ax) := by
    funext x; simp [Function.comp, updPair_fst]
  rw [hq]
  cases hf : tbl.find? (·.1 == ax) with
  | none => rfl
  | some p =>
    have hp : p.1 = ax := by simpa using List.find?_some hf
    simp only [Option.map_some, Option.some.injEq, updPair]
    by_cases h : ax = a
    · simp [h, hp ▸ h]
    · have : ¬ p.1 = a := by rw [hp]; exact h
      simp [h, this]

theorem tblGet_step (tbl : List (EAxis × Nat)) (a : EAxis) (n : Nat) (ax : EAxis) :
    tblGet (axisLenStep tbl a n) ax
      = if a = ax then optStep (tblGet tbl a) n else tblGet tbl ax := by
  unfold axisLenStep
  cases hf : tbl.find? (·.1 == a) with
  | none =>
    simp only [tblGet, hf, Option.map_none, optStep]
    by_cases h : a = ax
    · subst h
      rw [if_pos rfl, List.find?_append, hf]
      simp
    · rw [if_neg h, List.find?_append]
      cases tbl.find? (·.1 == ax) with
      | some x => simp
      | none =>
        simp only [Option.none_or]
        rw [List.find?_cons_of_neg (by simpa using h)]
        rfl
  | some p =>
    obtain ⟨a', seen⟩ := p
    have hget : tblGet tbl a = some seen := by simp [tblGet, hf]
    simp only [hget, optStep]
    by_cases h1 : seen = n
    · simp only [h1, if_true, lenStep]
      by_cases h : a = ax
      · subst h; rw [if_pos rfl, ← h1]; exact hget
      · rw [if_neg h]
    · simp only [h1, if_false, lenStep]
      by_cases h2 : n = 1
      · simp only [h2, if_true]
        by_cases h : a = ax
        · subst h; rw [if_pos rfl]; exact hget
        · rw [if_neg h]
      · simp only [h2, if_false]
        have := find_map_update a n tbl ax
        simp only [tblGet]
        have e : (tbl.map fun x => match x with | (a_1, m) => if (a_1 == a) = true then (a_1, n) else (a_1, m))
            = tbl.map (updPair a n) := by
          apply List.map_congr_left; intro x _; rfl
        rw [e, this]
        by_cases h : a = ax
        · subst h
          rw [if_pos rfl]
          have : (tbl.find? (·.1 == a)).map (·.2) = some seen := hget
          simp [this]
        · rw [if_neg h]
          have h' : ¬ ax = a := fun e => h e.symm
          cases (tbl.find? (·.1 == ax)).map (·.2) <;> simp [h']

/-- the lengths of the operand axes accessed as `ax`, in order -/
def lensOf (P : List (EAxis × Nat)) (ax : EAxis) : List Nat :=
  P.filterMap fun p => if p.1 = ax then some p.2 else none

theorem tblGet_foldl (ax : EAxis) : ∀ (P : List (EAxis × Nat)) (tbl : List (EAxis × Nat)),
    tblGet (P.foldl (fun t p => axisLenStep t p.1 p.2) tbl) ax
      = (lensOf P ax).foldl optStep (tblGet tbl ax)
  | [], _ => rfl
  | p :: P, tbl => by
    simp only [List.foldl_cons, tblGet_foldl ax P, tblGet_step, lensOf, List.filterMap_cons]
    by_cases h : p.1 = ax
    · simp [h]
    · simp [h]

/-- all (axis, length) pairs of the einsum's operands, in order -/
def allPairs (descrs : List (List EAxis)) (shapes : List Shape) : List (EAxis × Nat) :=
  (descrs.zip shapes).flatMap fun p => p.1.zip p.2

theorem axisLenTable_eq (descrs : List (List EAxis)) (shapes : List Shape) :
    axisLenTable descrs shapes
      = (allPairs descrs shapes).foldl (fun t p => axisLenStep t p.1 p.2) [] := by
  simp only [axisLenTable, allPairs, List.foldl_flatMap]

theorem tblGet_table (descrs : List (List EAxis)) (shapes : List Shape) (ax : EAxis) :
    tblGet (axisLenTable descrs shapes) ax
      = (lensOf (allPairs descrs shapes) ax).foldl optStep none := by
  rw [axisLenTable_eq, tblGet_foldl]; rfl

/-! ### folding the lengths of one axis -/

theorem foldl_optStep_mem : ∀ (l : List Nat) (s : Nat),
    ∃ v, l.foldl optStep (some s) = some v ∧ (v = s ∨ v ∈ l)
  | [], s => ⟨s, rfl, Or.inl rfl⟩
  | n :: l, s => by
    simp only [List.foldl_cons, optStep]
    obtain ⟨v, hv, hmem⟩ := foldl_optStep_mem l (lenStep s n)
    refine ⟨v, hv, ?_⟩
    rcases hmem with h | h
    · rw [h]
      unfold lenStep
      split
      · exact Or.inl rfl
      · split
        · exact Or.inl rfl
        · exact Or.inr (by simp)
    · exact Or.inr (by simp [h])

theorem foldl_optStep_none : ∀ (l : List Nat),
    (l = [] ∧ l.foldl optStep none = none) ∨ ∃ v, l.foldl optStep none = some v ∧ v ∈ l
  | [] => Or.inl ⟨rfl, rfl⟩
  | n :: l => by
    right
    simp only [List.foldl_cons, optStep]
    obtain ⟨v, hv, hmem⟩ := foldl_optStep_mem l n
    exact ⟨v, hv, by rcases hmem with h | h <;> simp [h]⟩

theorem foldl_optStep_const (v : Nat) : ∀ (l : List Nat), (∀ x ∈ l, x = v) →
    l.foldl optStep (some v) = some v
  | [], _ => rfl
  | n :: l, h => by
    have hn : n = v := h n (by simp)
    subst hn
    simp only [List.foldl_cons, optStep, lenStep, if_true]
    exact foldl_optStep_const n l (fun x hx => h x (by simp [hx]))

/-- keeping only the lengths equal to the final length does not change the final length -/
theorem foldl_optStep_filter (l : List Nat) :
    (l.filter fun n => n = ((l.foldl optStep none).getD 1)).foldl optStep none
      = l.foldl optStep none := by
  rcases foldl_optStep_none l with ⟨rfl, _⟩ | ⟨v, hv, hmem⟩
  · rfl
  · rw [hv]
    simp only [Option.getD_some]
    have hall : ∀ x ∈ l.filter (fun n => n = v), x = v := by
      intro x hx; simpa using (List.mem_filter.mp hx).2
    have hne : v ∈ l.filter (fun n => n = v) := List.mem_filter.mpr ⟨hmem, by simp⟩
    cases hl : l.filter (fun n => n = v) with
    | nil => rw [hl] at hne; simp at hne
    | cons x xs =>
      rw [hl] at hall
      have hx : x = v := hall x (by simp)
      subst hx
      simp only [List.foldl_cons, optStep]
      exact foldl_optStep_const x xs (fun y hy => hall y (by simp [hy]))

/-! ### the rewritten einsum has the same axis lengths -/

def keepPair (tbl : List (EAxis × Nat)) (p : EAxis × Nat) : Bool := decide (p.2 = axisLen tbl p.1)

theorem keptPairs_eq (tbl : List (EAxis × Nat)) (d : List EAxis) (s : Shape) :
    keptPairs tbl d s = (d.zip s).filter (keepPair tbl) := rfl

theorem zip_map_fst_snd {α β : Type} : ∀ (l : List (α × β)), (l.map (·.1)).zip (l.map (·.2)) = l
  | [] => rfl
  | p :: l => by simp [zip_map_fst_snd l]

theorem lensOf_filter (tbl : List (EAxis × Nat)) (ax : EAxis) : ∀ (P : List (EAxis × Nat)),
    lensOf (P.filter (keepPair tbl)) ax = (lensOf P ax).filter fun n => n = axisLen tbl ax
  | [] => rfl
  | p :: P => by
    have ih := lensOf_filter tbl ax P
    by_cases hk : keepPair tbl p = true
    · rw [List.filter_cons_of_pos hk]
      simp only [lensOf, List.filterMap_cons] at ih ⊢
      by_cases hp : p.1 = ax
      · have : p.2 = axisLen tbl ax := by rw [← hp]; simpa [keepPair] using hk
        simp [hp, this, ih]
      · simp [hp, ih]
    · rw [List.filter_cons_of_neg hk]
      simp only [lensOf, List.filterMap_cons] at ih ⊢
      by_cases hp : p.1 = ax
      · have : ¬ p.2 = axisLen tbl ax := by rw [← hp]; simpa [keepPair] using hk
        simp [hp, this, ih]
      · simp [hp, ih]

section
variable (descrs : List (List EAxis)) (args : List (Arr Rat))

theorem allPairs_args :
    allPairs descrs (args.map (·.shape)) = (descrs.zip args).flatMap fun p => p.1.zip p.2.shape := by
  simp only [allPairs, List.zip_map_right, List.flatMap_map]
  rfl

theorem noBroadcast_zip :
    (noBroadcastEinsum descrs args).1.zip (noBroadcastEinsum descrs args).2
      = (descrs.zip args).map fun p =>
          ((keptPairs (axisLenTable descrs (args.map (·.shape))) p.1 p.2.shape).map (·.1),
            squeezeOperand (axisLenTable descrs (args.map (·.shape))) p.1 p.2) := by
  simp only [noBroadcastEinsum, List.zip_map']

theorem allPairs_noBroadcast :
    allPairs (noBroadcastEinsum descrs args).1 ((noBroadcastEinsum descrs args).2.map (·.shape))
      = (allPairs descrs (args.map (·.shape))).filter
          (keepPair (axisLenTable descrs (args.map (·.shape)))) := by
  rw [allPairs_args, allPairs_args, noBroadcast_zip, List.flatMap_map, List.filter_flatMap]
  congr 1
  funext p
  simp only [squeezeOperand, zip_map_fst_snd, keptPairs_eq]

/-- squeezing the broadcast-unit axes leaves every axis length unchanged -/
theorem axisLen_noBroadcast (ax : EAxis) :
    axisLen (axisLenTable (noBroadcastEinsum descrs args).1
        ((noBroadcastEinsum descrs args).2.map (·.shape))) ax
      = axisLen (axisLenTable descrs (args.map (·.shape))) ax := by
  rw [axisLen_eq, axisLen_eq, tblGet_table, allPairs_noBroadcast, lensOf_filter]
  have h1 : axisLen (axisLenTable descrs (args.map (·.shape))) ax
      = ((lensOf (allPairs descrs (args.map (·.shape))) ax).foldl optStep none).getD 1 := by
    rw [axisLen_eq, tblGet_table]
  rw [h1, foldl_optStep_filter, tblGet_table]

end

/-! ### the number of reduction axes -/

def redStep (m : Nat) (ax : EAxis) : Nat :=
  match ax with
  | .red k => max m (k + 1)
  | .elem _ => m

theorem numRed_eq (descrs : List (List EAxis)) : numRed descrs = (descrs.flatMap id).foldl redStep 0 := rfl

theorem foldl_redStep_le : ∀ (l : List EAxis) (m b : Nat),
    l.foldl redStep m ≤ b ↔ m ≤ b ∧ ∀ k, EAxis.red k ∈ l → k + 1 ≤ b
  | [], m, b => by simp
  | ax :: l, m, b => by
    rw [List.foldl_cons, foldl_redStep_le l]
    cases ax with
    | elem j => simp [redStep]
    | red j =>
      simp only [redStep, List.mem_cons, EAxis.red.injEq]
      constructor
      · rintro ⟨h1, h2⟩
        refine ⟨by omega, fun k hk => ?_⟩
        rcases hk with rfl | hk
        · omega
        · exact h2 k hk
      · rintro ⟨h1, h2⟩
        exact ⟨by have := h2 j (Or.inl rfl); omega, fun k hk => h2 k (Or.inr hk)⟩

theorem foldl_redStep_congr (l1 l2 : List EAxis)
    (h : ∀ k, EAxis.red k ∈ l1 ↔ EAxis.red k ∈ l2) : l1.foldl redStep 0 = l2.foldl redStep 0 := by
  apply Nat.le_antisymm
  · rw [foldl_redStep_le]
    exact ⟨Nat.zero_le _, fun k hk => ((foldl_redStep_le l2 0 _).mp (Nat.le_refl _)).2 k ((h k).mp hk)⟩
  · rw [foldl_redStep_le]
    exact ⟨Nat.zero_le _, fun k hk => ((foldl_redStep_le l1 0 _).mp (Nat.le_refl _)).2 k ((h k).mpr hk)⟩

theorem mem_lensOf {P : List (EAxis × Nat)} {ax : EAxis} {v : Nat} :
    v ∈ lensOf P ax ↔ (ax, v) ∈ P := by
  simp only [lensOf, List.mem_filterMap]
  constructor
  · rintro ⟨p, hp, h⟩
    by_cases e : p.1 = ax
    · rw [if_pos e] at h
      simp only [Option.some.injEq] at h
      rw [← e, ← h]; exact hp
    · rw [if_neg e] at h; cases h
  · intro h
    exact ⟨(ax, v), h, by simp⟩

/-- every axis that occurs at all still occurs after dropping the broadcast-unit entries -/
theorem mem_filter_keep (tbl_descrs : List (List EAxis)) (shapes : List Shape) (ax : EAxis) :
    ax ∈ ((allPairs tbl_descrs shapes).filter (keepPair (axisLenTable tbl_descrs shapes))).map (·.1)
      ↔ ax ∈ (allPairs tbl_descrs shapes).map (·.1) := by
  constructor
  · intro h
    obtain ⟨p, hp, rfl⟩ := List.mem_map.mp h
    exact List.mem_map.mpr ⟨p, (List.mem_filter.mp hp).1, rfl⟩
  · intro h
    obtain ⟨p, hp, rfl⟩ := List.mem_map.mp h
    have hmem : p.2 ∈ lensOf (allPairs tbl_descrs shapes) p.1 := mem_lensOf.mpr hp
    rcases foldl_optStep_none (lensOf (allPairs tbl_descrs shapes) p.1) with ⟨hnil, _⟩ | ⟨v, hv, hvm⟩
    · rw [hnil] at hmem; simp at hmem
    · have hax : axisLen (axisLenTable tbl_descrs shapes) p.1 = v := by
        rw [axisLen_eq, tblGet_table, hv]; rfl
      exact List.mem_map.mpr ⟨(p.1, v), List.mem_filter.mpr ⟨mem_lensOf.mp hvm, by simp [keepPair, hax]⟩, rfl⟩

/-! ### one operand -/

theorem expandIdx_spec (keep : EAxis × Nat → Bool) (val : EAxis × Nat → Nat) :
    ∀ (l : List (EAxis × Nat)), (∀ p ∈ l, keep p = false → val p = 0) →
      expandIdx (l.map keep) ((l.filter keep).map val) = l.map val
  | [], _ => rfl
  | p :: l, h => by
    have ih := expandIdx_spec keep val l (fun q hq => h q (by simp [hq]))
    cases hk : keep p with
    | true =>
      rw [List.filter_cons_of_pos hk]
      simp only [List.map_cons, hk, expandIdx, List.headD_cons, List.tail_cons, ih]
    | false =>
      rw [List.filter_cons_of_neg (by simp [hk])]
      simp only [List.map_cons, hk, expandIdx, ih, h p (by simp) hk]

theorem operandIdx_congr (t1 t2 : List (EAxis × Nat)) (h : ∀ ax, axisLen t1 ax = axisLen t2 ax)
    (d : List EAxis) (s : Shape) (i r : Idx) : operandIdx t1 d s i r = operandIdx t2 d s i r := by
  simp only [operandIdx, h]

/-- reading the squeezed operand through the shortened descriptor = reading the
    original operand through the original descriptor -/
theorem squeezeOperand_get (tbl : List (EAxis × Nat)) (d : List EAxis) (a : Arr Rat) (i r : Idx) :
    (squeezeOperand tbl d a).get
        (operandIdx tbl ((keptPairs tbl d a.shape).map (·.1)) (squeezeOperand tbl d a).shape i r)
      = a.get (operandIdx tbl d a.shape i r) := by
  simp only [squeezeOperand, operandIdx, zip_map_fst_snd, keptPairs_eq]
  congr 1
  exact expandIdx_spec (keepPair tbl) _ (d.zip a.shape) (fun p _ hk => by
    have : ¬ p.2 = axisLen tbl p.1 := by simpa [keepPair] using hk
    simp [this])

theorem flatMap_congr_mem {α β : Type} {f g : α → List β} : ∀ (l : List α),
    (∀ x ∈ l, f x = g x) → l.flatMap f = l.flatMap g
  | [], _ => rfl
  | x :: l, h => by
    simp only [List.flatMap_cons, h x (by simp),
      flatMap_congr_mem l (fun y hy => h y (by simp [hy]))]

/-! ### the rewrite preserves the einsum -/

/-- `rewrite_einsums_with_no_broadcasts` on one einsum: same shape, same value at
    every index.  Well-formedness as asserted by pytato: one access descriptor
    per operand, one descriptor entry per operand axis. -/
theorem noBroadcastEinsum_sound (descrs : List (List EAxis)) (nout : Nat) (args : List (Arr Rat))
    (hlen : descrs.length = args.length)
    (hwf : ∀ p ∈ descrs.zip args, p.1.length = p.2.shape.length) :
    einsum (noBroadcastEinsum descrs args).1 nout (noBroadcastEinsum descrs args).2
      = einsum descrs nout args := by
  have hax := axisLen_noBroadcast descrs args
  -- the entries of the descriptors are the first components of the pairs
  have hent : descrs.flatMap id = (allPairs descrs (args.map (·.shape))).map (·.1) := by
    rw [allPairs_args, List.map_flatMap]
    have hd : descrs = (descrs.zip args).map (·.1) := by
      rw [List.map_fst_zip (by omega)]
    conv => lhs; rw [hd]
    rw [List.flatMap_map]
    apply flatMap_congr_mem
    intro p hp
    simp only [id]
    rw [List.map_fst_zip (Nat.le_of_eq (hwf p hp))]
  have hent' : (noBroadcastEinsum descrs args).1.flatMap id
      = ((allPairs descrs (args.map (·.shape))).filter
          (keepPair (axisLenTable descrs (args.map (·.shape))))).map (·.1) := by
    rw [← allPairs_noBroadcast, allPairs_args, noBroadcast_zip, List.flatMap_map, List.map_flatMap]
    simp only [noBroadcastEinsum, List.flatMap_map]
    congr 1
    funext p
    simp only [squeezeOperand, zip_map_fst_snd, id]
  have hnum : numRed (noBroadcastEinsum descrs args).1 = numRed descrs := by
    rw [numRed_eq, numRed_eq, hent, hent']
    exact foldl_redStep_congr _ _ (fun k => mem_filter_keep descrs _ (.red k))
  apply Arr.ext'
  · simp only [einsum, hax]
  · intro i
    simp only [einsum, hax, hnum]
    congr 1
    apply List.map_congr_left
    intro r _
    simp only [einsumTerm, noBroadcast_zip, List.map_map]
    congr 1
    apply List.map_congr_left
    intro p _
    simp only [Function.comp]
    rw [operandIdx_congr _ _ hax]
    exact squeezeOperand_get _ p.1 p.2 i r

end Spec
end Pt

/-
  Lemmas for C16 part (b): the symbolic shape inference (`PtModel.SymShape`) is
  sound for every valuation of the size parameters.
-/
import PtModel.SymShape
import PtProofs.AffineLemmas
import PtProofs.C16
import PtProofs.SliceLemmas
import PtProofs.BasicLemmas
namespace Pt
namespace Sym

/-- concrete length of one symbolic axis -/
def cd (v : String → Nat) (d : AExpr) : Nat := (d.eval v).toNat

theorem concr_eq (v : String → Nat) (s : SShape) : concr v s = s.map (cd v) := rfl

theorem affEq_eval {a b : AExpr} (h : affEq a b = true) (v : String → Nat) : a.eval v = b.eval v :=
  (affEq_iff a b).mp h v

theorem isOne_eval {d : AExpr} (h : isOne d = true) (v : String → Nat) : d.eval v = 1 := by
  have := affEq_eval h v
  simpa [AExpr.eval] using this

theorem cd_lit (v : String → Nat) (n : Nat) : cd v (.lit (n : Nat)) = n := by simp [cd, AExpr.eval]

theorem cd_one (v : String → Nat) : cd v (.lit 1) = 1 := by simp [cd, AExpr.eval]

/-- under admissibility, evaluating the dims gives exactly the concrete shape -/
theorem evalS_eq_of_adm (v : String → Nat) (s : SShape) (h : Adm v s) :
    s.map (·.eval v) = (concr v s).map (fun (n : Nat) => (n : Int)) := by
  induction s with
  | nil => rfl
  | cons d ds ih =>
    have hd : 0 ≤ d.eval v := h d (by simp)
    simp only [List.map_cons, concr, List.cons.injEq]
    exact ⟨(Int.toNat_of_nonneg hd).symm, ih fun x hx => h x (by simp [hx])⟩

theorem mapM_map_some {α β γ : Type} (f : α → Option β) (g : α → Option γ) (φ : β → γ)
    (hfg : ∀ a b, f a = some b → g a = some (φ b)) : ∀ (l : List α) (r : List β),
    l.mapM f = some r → l.mapM g = some (r.map φ)
  | [], r, h => by
    simp only [List.mapM_nil, pure, Option.some.injEq] at h
    subst h; rfl
  | a :: l, r, h => by
    simp only [List.mapM_cons, bind, Option.bind] at h ⊢
    cases hfa : f a with
    | none => simp [hfa] at h
    | some b =>
      simp only [hfa] at h
      cases hl : l.mapM f with
      | none => simp [hl] at h
      | some bs =>
        simp only [hl, pure, Option.some.injEq] at h
        subst h
        simp [hfg a b hfa, mapM_map_some f g φ hfg l bs hl]

theorem mapM_mem {α β : Type} (f : α → Option β) : ∀ (l : List α) (r : List β),
    l.mapM f = some r → ∀ b ∈ r, ∃ a ∈ l, f a = some b
  | [], r, h => by
    simp only [List.mapM_nil, pure, Option.some.injEq] at h
    subst h; simp
  | a :: l, r, h => by
    simp only [List.mapM_cons, bind, Option.bind] at h
    cases hfa : f a with
    | none => simp [hfa] at h
    | some b =>
      simp only [hfa] at h
      cases hl : l.mapM f with
      | none => simp [hl] at h
      | some bs =>
        simp only [hl, pure, Option.some.injEq] at h
        subst h
        intro x hx
        rcases List.mem_cons.mp hx with rfl | hx
        · exact ⟨a, by simp, hfa⟩
        · obtain ⟨a', ha', hf⟩ := mapM_mem f l bs hl x hx
          exact ⟨a', by simp [ha'], hf⟩

/-! ### pytato's broadcasting fold = NumPy's rule (as in `PtProofs/C03.lean`, repeated
    here so that C16 does not depend on C03's regenerated dtype table) -/

theorem ptAxisLen_eq_np_aux' : ∀ (rest : List Nat) (cur : Nat),
    ptAxisLen cur rest = npAxisLen (cur :: rest)
  | [], cur => by
    unfold ptAxisLen npAxisLen
    by_cases h : cur = 1 <;> simp [h]
  | n :: rest, cur => by
    unfold ptAxisLen
    by_cases h1 : n = cur ∨ n = 1
    · rw [if_pos h1, ptAxisLen_eq_np_aux' rest cur]
      unfold npAxisLen
      rcases h1 with rfl | rfl
      · by_cases hc : n = 1
        · simp [hc]
        · simp [List.filter, hc]
      · by_cases hc : cur = 1 <;> simp [List.filter, hc]
    · rw [if_neg h1]
      have hn1 : n ≠ 1 := fun e => h1 (Or.inr e)
      have hnc : n ≠ cur := fun e => h1 (Or.inl e)
      by_cases hc : cur = 1
      · rw [if_pos hc, ptAxisLen_eq_np_aux' rest n]
        unfold npAxisLen
        simp [List.filter, hc, hn1]
      · rw [if_neg hc]
        unfold npAxisLen
        simp [List.filter, hc, hn1]
        intro h; exact absurd h hnc

theorem ptAxis_eq_np' (ls : List Nat) : ptAxis ls = npAxisLen ls := by
  cases ls with
  | nil => simp [ptAxis, npAxisLen]
  | cons d ds => simp [ptAxis, ptAxisLen_eq_np_aux']

theorem ptBroadcast_eq_np' (shapes : List Shape) : ptBroadcast shapes = npBroadcast shapes := by
  unfold ptBroadcast npBroadcast
  simp only [ptAxis_eq_np']

/-! ### broadcasting -/

theorem axisLenSym_sound (v : String → Nat) : ∀ (rest : List AExpr) (cur d : AExpr),
    axisLenSym cur rest = some d →
    ptAxisLen (cd v cur) (rest.map (cd v)) = some (cd v d) ∧ d ∈ cur :: rest
  | [], cur, d, h => by
    simp only [axisLenSym, Option.some.injEq] at h
    subst h
    exact ⟨rfl, by simp⟩
  | x :: rest, cur, d, h => by
    unfold axisLenSym at h
    simp only [List.map_cons]
    unfold ptAxisLen
    split_ifs at h with h1 h2
    · obtain ⟨ih, hm⟩ := axisLenSym_sound v rest cur d h
      have hc : cd v x = cd v cur ∨ cd v x = 1 := by
        simp only [Bool.or_eq_true] at h1
        rcases h1 with h1 | h1
        · left; unfold cd; rw [affEq_eval h1 v]
        · right; unfold cd; rw [isOne_eval h1 v]; rfl
      rw [if_pos hc]
      exact ⟨ih, by
        rcases List.mem_cons.mp hm with rfl | hm
        · simp
        · simp [hm]⟩
    · obtain ⟨ih, hm⟩ := axisLenSym_sound v rest x d h
      have hcur : cd v cur = 1 := by unfold cd; rw [isOne_eval h2 v]; rfl
      refine ⟨?_, by
        rcases List.mem_cons.mp hm with rfl | hm
        · simp
        · simp [hm]⟩
      by_cases hc : cd v x = cd v cur ∨ cd v x = 1
      · rw [if_pos hc]
        have hx : cd v x = 1 := by rcases hc with hc | hc <;> omega
        rw [hcur, ← hx]; exact ih
      · rw [if_neg hc, if_pos hcur]; exact ih

theorem axisSym_sound (v : String → Nat) (ls : List AExpr) (d : AExpr) (h : axisSym ls = some d) :
    ptAxis (ls.map (cd v)) = some (cd v d) ∧ (d ∈ ls ∨ d = .lit 1) := by
  cases ls with
  | nil =>
    simp only [axisSym, Option.some.injEq] at h
    subst h
    exact ⟨by simp [ptAxis, cd_one], Or.inr rfl⟩
  | cons x xs =>
    obtain ⟨h1, h2⟩ := axisLenSym_sound v xs x d h
    exact ⟨by simpa [ptAxis] using h1, Or.inl h2⟩

theorem padShape_concr (v : String → Nat) (r : Nat) (s : SShape) :
    padShape r (concr v s) = (padS r s).map (cd v) := by
  simp [padShape, padS, concr, cd, AExpr.eval]

theorem getD_map_dflt {α β : Type} (f : α → β) (l : List α) (i : Nat) (d : α) :
    (l.map f).getD i (f d) = f (l.getD i d) := by
  simp only [List.getD_eq_getElem?_getD, List.getElem?_map]
  cases l[i]? <;> rfl

theorem getD_mem_or {α : Type} (l : List α) (i : Nat) (d : α) : l.getD i d ∈ l ∨ l.getD i d = d := by
  by_cases h : i < l.length
  · left; simp [List.getD_eq_getElem?_getD, List.getElem?_eq_getElem h]
  · right; simp [List.getD_eq_getElem?_getD, List.getElem?_eq_none (by omega : l.length ≤ i)]

theorem mem_padS {r : Nat} {s : SShape} {d : AExpr} (h : d ∈ padS r s) : d ∈ s ∨ d = .lit 1 := by
  simp only [padS, List.mem_append, List.mem_replicate] at h
  rcases h with ⟨_, h⟩ | h
  · exact Or.inr h
  · exact Or.inl h

theorem adm_lit_one (v : String → Nat) : 0 ≤ (AExpr.lit 1).eval v := by simp [AExpr.eval]

/-- `get_shape_after_broadcasting` on symbolic shapes: at every valuation the
    concrete result is NumPy's broadcast of the concrete operand shapes -/
theorem broadcast_sound (shapes : List SShape) (ds : SShape) (h : broadcast shapes = some ds)
    (v : String → Nat) (hadm : ∀ s ∈ shapes, Adm v s) :
    npBroadcast (shapes.map (concr v)) = some (concr v ds) ∧ Adm v ds := by
  rw [← ptBroadcast_eq_np']
  unfold broadcast at h
  unfold ptBroadcast
  simp only at h ⊢
  have hlen : ((shapes.map (concr v)).map List.length) = shapes.map List.length := by
    simp [concr, Function.comp_def]
  rw [hlen]
  constructor
  · rw [concr_eq]
    apply mapM_map_some _ _ (cd v) _ _ _ h
    intro i d hd
    obtain ⟨h1, _⟩ := axisSym_sound v _ d hd
    rw [← h1]
    congr 1
    simp only [List.map_map]
    apply List.map_congr_left
    intro s _
    simp only [Function.comp_apply, padShape_concr]
    rw [← cd_one v, getD_map_dflt]
  · intro d hd
    obtain ⟨i, _, hi⟩ := mapM_mem _ _ _ h d hd
    obtain ⟨_, h2⟩ := axisSym_sound v _ d hi
    rcases h2 with h2 | rfl
    · obtain ⟨p, hp, rfl⟩ := List.mem_map.mp h2
      obtain ⟨s, hs, rfl⟩ := List.mem_map.mp hp
      rcases getD_mem_or (padS _ s) i (.lit 1) with hm | hm
      · rcases mem_padS hm with hm' | hm'
        · exact hadm s hs _ hm'
        · rw [hm']; exact adm_lit_one v
      · rw [hm]; exact adm_lit_one v
    · exact adm_lit_one v

/-! ### transpose, roll, stack -/

theorem getD_map_lt {α β : Type} (f : α → β) (l : List α) (i : Nat) (d : α) (d' : β) (h : i < l.length) :
    (l.map f).getD i d' = f (l.getD i d) := by
  simp [List.getD_eq_getElem?_getD, List.getElem?_eq_getElem h]

theorem transpose_sound (s ds : SShape) (perm : List Nat) (h : transpose s perm = some ds)
    (v : String → Nat) (hadm : Adm v s) :
    concr v ds = perm.map ((concr v s).getD · 0) ∧ Adm v ds := by
  unfold transpose at h
  split_ifs at h with hc
  simp only [Option.some.injEq] at h
  subst h
  obtain ⟨_, hlt, _⟩ := hc
  rw [List.all_eq_true] at hlt
  constructor
  · simp only [concr, List.map_map]
    apply List.map_congr_left
    intro p hp
    have : p < s.length := by simpa using hlt p hp
    simp only [Function.comp_apply]
    rw [getD_map_lt _ s p (.lit 0) 0 this]
  · intro d hd
    obtain ⟨p, hp, rfl⟩ := List.mem_map.mp hd
    have : p < s.length := by simpa using hlt p hp
    rcases getD_mem_or s p (.lit 0) with hm | hm
    · exact hadm _ hm
    · rw [hm]; simp [AExpr.eval]

theorem roll_sound (s ds : SShape) (axis : Nat) (h : roll s axis = some ds) : ds = s ∧ axis < s.length := by
  unfold roll at h
  split_ifs at h with hc
  simp only [Option.some.injEq] at h
  exact ⟨h.symm, hc⟩

theorem shapesEq_sound : ∀ (a b : SShape), shapesEq a b = true → ∀ v, a.map (·.eval v) = b.map (·.eval v)
  | [], [], _, _ => rfl
  | x :: xs, y :: ys, h, v => by
    simp only [shapesEq, Bool.and_eq_true] at h
    simp only [List.map_cons, List.cons.injEq]
    exact ⟨affEq_eval h.1 v, shapesEq_sound xs ys h.2 v⟩
  | [], _ :: _, h, _ => by simp [shapesEq] at h
  | _ :: _, [], h, _ => by simp [shapesEq] at h

theorem shapesEq_complete : ∀ (a b : SShape), (∀ v, a.map (·.eval v) = b.map (·.eval v)) → shapesEq a b = true
  | [], [], _ => rfl
  | x :: xs, y :: ys, h => by
    simp only [shapesEq, Bool.and_eq_true]
    refine ⟨(affEq_iff x y).mpr fun v => ?_, shapesEq_complete xs ys fun v => ?_⟩
    · have := h v; simp only [List.map_cons, List.cons.injEq] at this; exact this.1
    · have := h v; simp only [List.map_cons, List.cons.injEq] at this; exact this.2
  | [], _ :: _, h => by have := h (fun _ => 0); simp at this
  | _ :: _, [], h => by have := h (fun _ => 0); simp at this

theorem concr_of_evalEq (v : String → Nat) (a b : SShape) (h : a.map (·.eval v) = b.map (·.eval v)) :
    concr v a = concr v b := by
  have := congrArg (List.map Int.toNat) h
  simpa [concr, Function.comp_def] using this

theorem stack_sound (shapes : List SShape) (axis : Nat) (ds : SShape) (h : stack shapes axis = some ds)
    (v : String → Nat) (hadm : ∀ s ∈ shapes, Adm v s) :
    Spec.npStack (shapes.map (concr v)) axis = some (concr v ds) ∧ Adm v ds := by
  unfold stack at h
  cases shapes with
  | nil => simp at h
  | cons s0 rest =>
    simp only at h
    split_ifs at h with hc
    simp only [Option.some.injEq] at h
    subst h
    obtain ⟨hall, hax⟩ := hc
    rw [List.all_eq_true] at hall
    constructor
    · simp only [Spec.npStack, List.map_cons]
      have h1 : (rest.map (concr v)).all (· == concr v s0) = true := by
        rw [List.all_eq_true]
        intro c hc'
        obtain ⟨s, hs, rfl⟩ := List.mem_map.mp hc'
        simp only [beq_iff_eq]
        exact concr_of_evalEq v s s0 (shapesEq_sound s s0 (hall s hs) v)
      have h2 : axis ≤ (concr v s0).length := by simpa [concr] using hax
      rw [if_pos ⟨h1, h2⟩]
      simp [concr, List.map_take, List.map_drop, AExpr.eval]
    · intro d hd
      simp only [List.mem_append, List.mem_singleton] at hd
      rcases hd with (hd | rfl) | hd
      · exact hadm s0 (by simp) d (List.mem_of_mem_take hd)
      · simp only [AExpr.eval]; omega
      · exact hadm s0 (by simp) d (List.mem_of_mem_drop hd)

/-! ### concatenate -/

theorem beq_eq : ∀ (a b : AExpr), AExpr.beq a b = true → a = b
  | .lit a, .lit b, h => by simp only [AExpr.beq, beq_iff_eq] at h; rw [h]
  | .param x, .param y, h => by simp only [AExpr.beq, beq_iff_eq] at h; rw [h]
  | .add a b, .add c d, h => by
    simp only [AExpr.beq, Bool.and_eq_true] at h
    rw [beq_eq a c h.1, beq_eq b d h.2]
  | .sub a b, .sub c d, h => by
    simp only [AExpr.beq, Bool.and_eq_true] at h
    rw [beq_eq a c h.1, beq_eq b d h.2]
  | .scale k a, .scale l b, h => by
    simp only [AExpr.beq, Bool.and_eq_true, beq_iff_eq] at h
    rw [h.1, beq_eq a b h.2]
  | .lit _, .param _, h | .lit _, .add _ _, h | .lit _, .sub _ _, h | .lit _, .scale _ _, h
  | .param _, .lit _, h | .param _, .add _ _, h | .param _, .sub _ _, h | .param _, .scale _ _, h
  | .add _ _, .lit _, h | .add _ _, .param _, h | .add _ _, .sub _ _, h | .add _ _, .scale _ _, h
  | .sub _ _, .lit _, h | .sub _ _, .param _, h | .sub _ _, .add _ _, h | .sub _ _, .scale _ _, h
  | .scale _ _, .lit _, h | .scale _ _, .param _, h | .scale _ _, .add _ _, h | .scale _ _, .sub _ _, h => by
    simp [AExpr.beq] at h

theorem shapesBeq_eq : ∀ (a b : SShape), shapesBeq a b = true → a = b
  | [], [], _ => rfl
  | x :: xs, y :: ys, h => by
    simp only [shapesBeq, Bool.and_eq_true] at h
    rw [beq_eq x y h.1, shapesBeq_eq xs ys h.2]
  | [], _ :: _, h => by simp [shapesBeq] at h
  | _ :: _, [], h => by simp [shapesBeq] at h

theorem exceptAxis_map {α β : Type} (f : α → β) (axis : Nat) (s : List α) :
    exceptAxis axis (s.map f) = (exceptAxis axis s).map f := by
  simp [exceptAxis, List.map_take, List.map_drop]

theorem eval_foldl_add (v : String → Nat) : ∀ (ds : List AExpr) (acc : AExpr),
    (ds.foldl (fun a d => AExpr.add a d) acc).eval v = acc.eval v + (ds.map (·.eval v)).sum
  | [], acc => by simp
  | d :: ds, acc => by
    simp only [List.foldl_cons, List.map_cons, List.sum_cons]
    rw [eval_foldl_add v ds]
    simp only [AExpr.eval]; omega

theorem sum_nonneg_int : ∀ (l : List Int), (∀ x ∈ l, 0 ≤ x) → 0 ≤ l.sum
  | [], _ => by simp
  | x :: xs, h => by
    have := sum_nonneg_int xs fun y hy => h y (by simp [hy])
    have := h x (by simp)
    simp only [List.sum_cons]; omega

theorem toNat_sum : ∀ (l : List Int), (∀ x ∈ l, 0 ≤ x) → l.sum.toNat = (l.map Int.toNat).sum
  | [], _ => by simp
  | x :: xs, h => by
    have h1 := sum_nonneg_int xs fun y hy => h y (by simp [hy])
    have h2 := h x (by simp)
    simp only [List.sum_cons, List.map_cons]
    rw [← toNat_sum xs fun y hy => h y (by simp [hy])]
    omega

theorem getD_adm (v : String → Nat) (s : SShape) (hadm : Adm v s) (i : Nat) : 0 ≤ (s.getD i (.lit 0)).eval v := by
  rcases getD_mem_or s i (.lit 0) with hm | hm
  · exact hadm _ hm
  · rw [hm]; simp [AExpr.eval]

theorem concat_sound (shapes : List SShape) (axis : Nat) (ds : SShape) (h : concat shapes axis = some ds)
    (v : String → Nat) (hadm : ∀ s ∈ shapes, Adm v s) :
    Spec.npConcat (shapes.map (concr v)) axis = some (concr v ds) ∧ Adm v ds := by
  unfold concat at h
  cases shapes with
  | nil => simp at h
  | cons s0 rest =>
    simp only at h
    split_ifs at h with hc
    simp only [Option.some.injEq] at h
    subst h
    obtain ⟨hall, hax⟩ := hc
    rw [List.all_eq_true] at hall
    have hsum : (sumDims ((s0 :: rest).map fun s => s.getD axis (.lit 0))).eval v
        = (((s0 :: rest).map fun s => s.getD axis (.lit 0)).map (·.eval v)).sum := by
      unfold sumDims
      rw [eval_foldl_add]; simp [AExpr.eval]
    have hnn : ∀ x ∈ (((s0 :: rest).map fun s => s.getD axis (.lit 0)).map (·.eval v)), 0 ≤ x := by
      intro x hx
      obtain ⟨d, hd, rfl⟩ := List.mem_map.mp hx
      obtain ⟨s, hs, rfl⟩ := List.mem_map.mp hd
      exact getD_adm v s (hadm s hs) axis
    constructor
    · simp only [Spec.npConcat, List.map_cons]
      have h1 : (rest.map (concr v)).all (fun s => exceptAxis axis s == exceptAxis axis (concr v s0)
          ∧ s.length = (concr v s0).length) = true := by
        rw [List.all_eq_true]
        intro c hc'
        obtain ⟨s, hs, rfl⟩ := List.mem_map.mp hc'
        have := hall s hs
        simp only [Bool.and_eq_true, decide_eq_true_eq] at this
        simp only [concr, exceptAxis_map, shapesBeq_eq _ _ this.2, List.length_map, this.1, beq_self_eq_true,
          and_self, decide_true]
      have h2 : axis < (concr v s0).length := by simpa [concr] using hax
      rw [if_pos ⟨h1, h2⟩]
      simp only [Option.some.injEq, concr, List.map_set]
      congr 1
      have hs := hsum
      simp only [List.map_cons] at hs
      rw [hs]
      have hn := hnn
      simp only [List.map_cons] at hn
      rw [toNat_sum _ hn]
      simp only [List.map_cons, List.sum_cons, List.map_map]
      congr 1
      · rw [← getD_map_dflt (fun d => (AExpr.eval v d).toNat) s0 axis (.lit 0)]
        simp [AExpr.eval]
      · congr 1
        apply List.map_congr_left
        intro s _
        simp only [Function.comp_apply]
        rw [← getD_map_dflt (fun d => (AExpr.eval v d).toNat) s axis (.lit 0)]
        simp [AExpr.eval]
    · intro d hd
      rcases List.mem_or_eq_of_mem_set hd with hd | rfl
      · exact hadm s0 (by simp) d hd
      · rw [hsum]; exact sum_nonneg_int _ hnn

/-! ### reductions -/

theorem maskS_map {α β : Type} (f : α → β) (b : Bool) : ∀ (m : List Bool) (s : List α),
    maskS b m (s.map f) = (maskS b m s).map f
  | [], _ => by simp [maskS]
  | _ :: _, [] => by simp [maskS]
  | m :: ms, n :: ns => by
    simp only [maskS, List.map_cons]
    split_ifs <;> simp [maskS_map f b ms ns]

theorem maskS_eq_maskShape (b : Bool) : ∀ (m : List Bool) (s : Shape), Lower.maskShape b m s = maskS b m s
  | [], _ => by simp [maskS, Lower.maskShape]
  | _ :: _, [] => by simp [maskS, Lower.maskShape]
  | m :: ms, n :: ns => by
    simp only [maskS, Lower.maskShape]
    split_ifs <;> simp [maskS_eq_maskShape b ms ns]

theorem maskS_mem {α : Type} (b : Bool) : ∀ (m : List Bool) (s : List α) (x : α), x ∈ maskS b m s → x ∈ s
  | [], _, _, h => by simp [maskS] at h
  | _ :: _, [], _, h => by simp [maskS] at h
  | m :: ms, n :: ns, x, h => by
    simp only [maskS] at h
    split_ifs at h
    · rcases List.mem_cons.mp h with rfl | h
      · simp
      · simp [maskS_mem b ms ns x h]
    · simp [maskS_mem b ms ns x h]

/-- reductions: the result keeps the non-reduced axes (NumPy: the same mask on the concrete shape) -/
theorem reduce_sound (s ds : SShape) (axes : Option (List Nat)) (h : reduce s axes = some ds)
    (v : String → Nat) (hadm : Adm v s) :
    concr v ds = Lower.maskShape false (Lower.redMask (concr v s).length axes) (concr v s) ∧ Adm v ds
    ∧ (∀ l, axes = some l → ∀ a ∈ l, a < (concr v s).length) := by
  unfold reduce at h
  simp only at h
  split_ifs at h with h1 h2
  simp only [Option.some.injEq] at h
  subst h
  have hl : (concr v s).length = s.length := by simp [concr]
  refine ⟨?_, fun d hd => hadm d (maskS_mem _ _ _ d hd), ?_⟩
  · rw [maskS_eq_maskShape, hl]; exact (maskS_map _ false _ s).symm
  · intro l hl' a ha
    subst hl'
    rw [hl]
    simp only [List.any_eq_true, not_exists, not_and] at h1
    have := h1 a ha
    simpa using this

/-! ### full / zeros / ones, expand_dims, broadcast_to, pad -/

theorem normShape_sound (dims ds : SShape) (h : normShape dims = some ds) : ds = dims := by
  unfold normShape at h
  split_ifs at h
  simp only [Option.some.injEq] at h
  exact h.symm

theorem map_insertIdx' {α β : Type} (f : α → β) : ∀ (i : Nat) (l : List α) (a : α),
    (l.insertIdx i a).map f = (l.map f).insertIdx i (f a)
  | 0, l, a => by simp [List.insertIdx_zero]
  | i + 1, [], a => by simp [List.insertIdx_succ_nil]
  | i + 1, x :: xs, a => by simp [List.insertIdx_succ_cons, map_insertIdx' f i xs a]

theorem mem_insertIdx' {α : Type} : ∀ (i : Nat) (l : List α) (a x : α), x ∈ l.insertIdx i a → x = a ∨ x ∈ l
  | 0, l, a, x, h => by simpa [List.insertIdx_zero] using h
  | i + 1, [], a, x, h => by simp [List.insertIdx_succ_nil] at h
  | i + 1, y :: ys, a, x, h => by
    simp only [List.insertIdx_succ_cons, List.mem_cons] at h
    rcases h with rfl | h
    · simp
    · rcases mem_insertIdx' i ys a x h with h | h
      · exact Or.inl h
      · exact Or.inr (by simp [h])

theorem insertOnes_map {α β : Type} (f : α → β) (one : α) : ∀ (axs : List Nat) (s : List α),
    insertOnes (f one) axs (s.map f) = (insertOnes one axs s).map f
  | [], s => rfl
  | ax :: axs, s => by
    simp only [insertOnes]
    rw [← insertOnes_map f one axs, map_insertIdx']

theorem insertOnes_mem {α : Type} (one : α) : ∀ (axs : List Nat) (s : List α) (x : α),
    x ∈ insertOnes one axs s → x ∈ s ∨ x = one
  | [], s, x, h => Or.inl h
  | ax :: axs, s, x, h => by
    simp only [insertOnes] at h
    rcases insertOnes_mem one axs _ x h with h | h
    · rcases mem_insertIdx' _ _ _ _ h with h | h
      · exact Or.inr h
      · exact Or.inl h
    · exact Or.inr h

/-- expand_dims: the same insertion of unit axes on the concrete shape -/
theorem expandDims_sound (s ds : SShape) (axes : List Int) (h : expandDims s axes = some ds)
    (v : String → Nat) (hadm : Adm v s) :
    (∃ norm : List Nat, concr v ds = insertOnes 1 (sortNat norm) (concr v s) ∧
      norm = axes.map (fun ax => (if ax ≥ 0 then ax else ax + ((s.length + axes.length : Nat) : Int)).toNat))
    ∧ Adm v ds := by
  unfold expandDims at h
  simp only at h
  split_ifs at h with h1 h2
  simp only [Option.some.injEq] at h
  subst h
  refine ⟨⟨_, ?_, rfl⟩, ?_⟩
  · have := insertOnes_map (fun d => (AExpr.eval v d).toNat) (.lit 1)
      (sortNat (axes.map fun ax => (if ax ≥ 0 then ax else ax + ((s.length + axes.length : Nat) : Int)).toNat)) s
    simp only [AExpr.eval, Int.toNat_one] at this
    exact this.symm
  · intro d hd
    rcases insertOnes_mem _ _ _ d hd with hd | rfl
    · exact hadm d hd
    · simp [AExpr.eval]

end Sym
end Pt

/-
  Lemmas for C16 part (b): the symbolic shape inference (`PtModel.SymShape`) is
  sound for every valuation of the size parameters.
-/
import PtModel.SymShape
import PtProofs.AffineLemmas
import PtProofs.C16
import PtProofs.SliceLemmas
import PtProofs.BasicLemmas
namespace Pt
namespace Sym

/-- concrete length of one symbolic axis -/
def cd (v : String → Nat) (d : AExpr) : Nat := (d.eval v).toNat

theorem concr_eq (v : String → Nat) (s : SShape) : concr v s = s.map (cd v) := rfl

theorem affEq_eval {a b : AExpr} (h : affEq a b = true) (v : String → Nat) : a.eval v = b.eval v :=
  (affEq_iff a b).mp h v

theorem isOne_eval {d : AExpr} (h : isOne d = true) (v : String → Nat) : d.eval v = 1 := by
  have := affEq_eval h v
  simpa [AExpr.eval] using this

theorem cd_lit (v : String → Nat) (n : Nat) : cd v (.lit (n : Nat)) = n := by simp [cd, AExpr.eval]

theorem cd_one (v : String → Nat) : cd v (.lit 1) = 1 := by simp [cd, AExpr.eval]

/-- under admissibility, evaluating the dims gives exactly the concrete shape -/
theorem evalS_eq_of_adm (v : String → Nat) (s : SShape) (h : Adm v s) :
    s.map (·.eval v) = (concr v s).map (fun (n : Nat) => (n : Int)) := by
  induction s with
  | nil => rfl
  | cons d ds ih =>
    have hd : 0 ≤ d.eval v := h d (by simp)
    simp only [List.map_cons, concr, List.cons.injEq]
    exact ⟨(Int.toNat_of_nonneg hd).symm, ih fun x hx => h x (by simp [hx])⟩

theorem mapM_map_some {α β γ : Type} (f : α → Option β) (g : α → Option γ) (φ : β → γ)
    (hfg : ∀ a b, f a = some b → g a = some (φ b)) : ∀ (l : List α) (r : List β),
    l.mapM f = some r → l.mapM g = some (r.map φ)
  | [], r, h => by
    simp only [List.mapM_nil, pure, Option.some.injEq] at h
    subst h; rfl
  | a :: l, r, h => by
    simp only [List.mapM_cons, bind, Option.bind] at h ⊢
    cases hfa : f a with
    | none => simp [hfa] at h
    | some b =>
      simp only [hfa] at h
      cases hl : l.mapM f with
      | none => simp [hl] at h
      | some bs =>
        simp only [hl, pure, Option.some.injEq] at h
        subst h
        simp [hfg a b hfa, mapM_map_some f g φ hfg l bs hl]

theorem mapM_mem {α β : Type} (f : α → Option β) : ∀ (l : List α) (r : List β),
    l.mapM f = some r → ∀ b ∈ r, ∃ a ∈ l, f a = some b
  | [], r, h => by
    simp only [List.mapM_nil, pure, Option.some.injEq] at h
    subst h; simp
  | a :: l, r, h => by
    simp only [List.mapM_cons, bind, Option.bind] at h
    cases hfa : f a with
    | none => simp [hfa] at h
    | some b =>
      simp only [hfa] at h
      cases hl : l.mapM f with
      | none => simp [hl] at h
      | some bs =>
        simp only [hl, pure, Option.some.injEq] at h
        subst h
        intro x hx
        rcases List.mem_cons.mp hx with rfl | hx
        · exact ⟨a, by simp, hfa⟩
        · obtain ⟨a', ha', hf⟩ := mapM_mem f l bs hl x hx
          exact ⟨a', by simp [ha'], hf⟩

/-! ### pytato's broadcasting fold = NumPy's rule (as in `PtProofs/C03.lean`, repeated
    here so that C16 does not depend on C03's regenerated dtype table) -/

theorem ptAxisLen_eq_np_aux' : ∀ (rest : List Nat) (cur : Nat),
    ptAxisLen cur rest = npAxisLen (cur :: rest)
  | [], cur => by
    unfold ptAxisLen npAxisLen
    by_cases h : cur = 1 <;> simp [h]
  | n :: rest, cur => by
    unfold ptAxisLen
    by_cases h1 : n = cur ∨ n = 1
    · rw [if_pos h1, ptAxisLen_eq_np_aux' rest cur]
      unfold npAxisLen
      rcases h1 with rfl | rfl
      · by_cases hc : n = 1
        · simp [hc]
        · simp [List.filter, hc]
      · by_cases hc : cur = 1 <;> simp [List.filter, hc]
    · rw [if_neg h1]
      have hn1 : n ≠ 1 := fun e => h1 (Or.inr e)
      have hnc : n ≠ cur := fun e => h1 (Or.inl e)
      by_cases hc : cur = 1
      · rw [if_pos hc, ptAxisLen_eq_np_aux' rest n]
        unfold npAxisLen
        simp [List.filter, hc, hn1]
      · rw [if_neg hc]
        unfold npAxisLen
        simp [List.filter, hc, hn1]
        intro h; exact absurd h hnc

theorem ptAxis_eq_np' (ls : List Nat) : ptAxis ls = npAxisLen ls := by
  cases ls with
  | nil => simp [ptAxis, npAxisLen]
  | cons d ds => simp [ptAxis, ptAxisLen_eq_np_aux']

theorem ptBroadcast_eq_np' (shapes : List Shape) : ptBroadcast shapes = npBroadcast shapes := by
  unfold ptBroadcast npBroadcast
  simp only [ptAxis_eq_np']

/-! ### broadcasting -/

theorem axisLenSym_sound (v : String → Nat) : ∀ (rest : List AExpr) (cur d : AExpr),
    axisLenSym cur rest = some d →
    ptAxisLen (cd v cur) (rest.map (cd v)) = some (cd v d) ∧ d ∈ cur :: rest
  | [], cur, d, h => by
    simp only [axisLenSym, Option.some.injEq] at h
    subst h
    exact ⟨rfl, by simp⟩
  | x :: rest, cur, d, h => by
    unfold axisLenSym at h
    simp only [List.map_cons]
    unfold ptAxisLen
    split_ifs at h with h1 h2
    · obtain ⟨ih, hm⟩ := axisLenSym_sound v rest cur d h
      have hc : cd v x = cd v cur ∨ cd v x = 1 := by
        simp only [Bool.or_eq_true] at h1
        rcases h1 with h1 | h1
        · left; unfold cd; rw [affEq_eval h1 v]
        · right; unfold cd; rw [isOne_eval h1 v]; rfl
      rw [if_pos hc]
      exact ⟨ih, by
        rcases List.mem_cons.mp hm with rfl | hm
        · simp
        · simp [hm]⟩
    · obtain ⟨ih, hm⟩ := axisLenSym_sound v rest x d h
      have hcur : cd v cur = 1 := by unfold cd; rw [isOne_eval h2 v]; rfl
      refine ⟨?_, by
        rcases List.mem_cons.mp hm with rfl | hm
        · simp
        · simp [hm]⟩
      by_cases hc : cd v x = cd v cur ∨ cd v x = 1
      · rw [if_pos hc]
        have hx : cd v x = 1 := by rcases hc with hc | hc <;> omega
        rw [hcur, ← hx]; exact ih
      · rw [if_neg hc, if_pos hcur]; exact ih

theorem axisSym_sound (v : String → Nat) (ls : List AExpr) (d : AExpr) (h : axisSym ls = some d) :
    ptAxis (ls.map (cd v)) = some (cd v d) ∧ (d ∈ ls ∨ d = .lit 1) := by
  cases ls with
  | nil =>
    simp only [axisSym, Option.some.injEq] at h
    subst h
    exact ⟨by simp [ptAxis, cd_one], Or.inr rfl⟩
  | cons x xs =>
    obtain ⟨h1, h2⟩ := axisLenSym_sound v xs x d h
    exact ⟨by simpa [ptAxis] using h1, Or.inl h2⟩

theorem padShape_concr (v : String → Nat) (r : Nat) (s : SShape) :
    padShape r (concr v s) = (padS r s).map (cd v) := by
  simp [padShape, padS, concr, cd, AExpr.eval]

theorem getD_map_dflt {α β : Type} (f : α → β) (l : List α) (i : Nat) (d : α) :
    (l.map f).getD i (f d) = f (l.getD i d) := by
  simp only [List.getD_eq_getElem?_getD, List.getElem?_map]
  cases l[i]? <;> rfl

theorem getD_mem_or {α : Type} (l : List α) (i : Nat) (d : α) : l.getD i d ∈ l ∨ l.getD i d = d := by
  by_cases h : i < l.length
  · left; simp [List.getD_eq_getElem?_getD, List.getElem?_eq_getElem h]
  · right; simp [List.getD_eq_getElem?_getD, List.getElem?_eq_none (by omega : l.length ≤ i)]

theorem mem_padS {r : Nat} {s : SShape} {d : AExpr} (h : d ∈ padS r s) : d ∈ s ∨ d = .lit 1 := by
  simp only [padS, List.mem_append, List.mem_replicate] at h
  rcases h with ⟨_, h⟩ | h
  · exact Or.inr h
  · exact Or.inl h

theorem adm_lit_one (v : String → Nat) : 0 ≤ (AExpr.lit 1).eval v := by simp [AExpr.eval]

/-- `get_shape_after_broadcasting` on symbolic shapes: at every valuation the
    concrete result is NumPy's broadcast of the concrete operand shapes -/
theorem broadcast_sound (shapes : List SShape) (ds : SShape) (h : broadcast shapes = some ds)
    (v : String → Nat) (hadm : ∀ s ∈ shapes, Adm v s) :
    npBroadcast (shapes.map (concr v)) = some (concr v ds) ∧ Adm v ds := by
  rw [← ptBroadcast_eq_np']
  unfold broadcast at h
  unfold ptBroadcast
  simp only at h ⊢
  have hlen : ((shapes.map (concr v)).map List.length) = shapes.map List.length := by
    simp [concr, Function.comp_def]
  rw [hlen]
  constructor
  · rw [concr_eq]
    apply mapM_map_some _ _ (cd v) _ _ _ h
    intro i d hd
    obtain ⟨h1, _⟩ := axisSym_sound v _ d hd
    rw [← h1]
    congr 1
    simp only [List.map_map]
    apply List.map_congr_left
    intro s _
    simp only [Function.comp_apply, padShape_concr]
    rw [← cd_one v, getD_map_dflt]
  · intro d hd
    obtain ⟨i, _, hi⟩ := mapM_mem _ _ _ h d hd
    obtain ⟨_, h2⟩ := axisSym_sound v _ d hi
    rcases h2 with h2 | rfl
    · obtain ⟨p, hp, rfl⟩ := List.mem_map.mp h2
      obtain ⟨s, hs, rfl⟩ := List.mem_map.mp hp
      rcases getD_mem_or (padS _ s) i (.lit 1) with hm | hm
      · rcases mem_padS hm with hm' | hm'
        · exact hadm s hs _ hm'
        · rw [hm']; exact adm_lit_one v
      · rw [hm]; exact adm_lit_one v
    · exact adm_lit_one v

/-! ### transpose, roll, stack -/

theorem getD_map_lt {α β : Type} (f : α → β) (l : List α) (i : Nat) (d : α) (d' : β) (h : i < l.length) :
    (l.map f).getD i d' = f (l.getD i d) := by
  simp [List.getD_eq_getElem?_getD, List.getElem?_eq_getElem h]

theorem transpose_sound (s ds : SShape) (perm : List Nat) (h : transpose s perm = some ds)
    (v : String → Nat) (hadm : Adm v s) :
    concr v ds = perm.map ((concr v s).getD · 0) ∧ Adm v ds := by
  unfold transpose at h
  split_ifs at h with hc
  simp only [Option.some.injEq] at h
  subst h
  obtain ⟨_, hlt, _⟩ := hc
  rw [List.all_eq_true] at hlt
  constructor
  · simp only [concr, List.map_map]
    apply List.map_congr_left
    intro p hp
    have : p < s.length := by simpa using hlt p hp
    simp only [Function.comp_apply]
    rw [getD_map_lt _ s p (.lit 0) 0 this]
  · intro d hd
    obtain ⟨p, hp, rfl⟩ := List.mem_map.mp hd
    have : p < s.length := by simpa using hlt p hp
    rcases getD_mem_or s p (.lit 0) with hm | hm
    · exact hadm _ hm
    · rw [hm]; simp [AExpr.eval]

theorem roll_sound (s ds : SShape) (axis : Nat) (h : roll s axis = some ds) : ds = s ∧ axis < s.length := by
  unfold roll at h
  split_ifs at h with hc
  simp only [Option.some.injEq] at h
  exact ⟨h.symm, hc⟩

theorem shapesEq_sound : ∀ (a b : SShape), shapesEq a b = true → ∀ v, a.map (·.eval v) = b.map (·.eval v)
  | [], [], _, _ => rfl
  | x :: xs, y :: ys, h, v => by
    simp only [shapesEq, Bool.and_eq_true] at h
    simp only [List.map_cons, List.cons.injEq]
    exact ⟨affEq_eval h.1 v, shapesEq_sound xs ys h.2 v⟩
  | [], _ :: _, h, _ => by simp [shapesEq] at h
  | _ :: _, [], h, _ => by simp [shapesEq] at h

theorem shapesEq_complete : ∀ (a b : SShape), (∀ v, a.map (·.eval v) = b.map (·.eval v)) → shapesEq a b = true
  | [], [], _ => rfl
  | x :: xs, y :: ys, h => by
    simp only [shapesEq, Bool.and_eq_true]
    refine ⟨(affEq_iff x y).mpr fun v => ?_, shapesEq_complete xs ys fun v => ?_⟩
    · have := h v; simp only [List.map_cons, List.cons.injEq] at this; exact this.1
    · have := h v; simp only [List.map_cons, List.cons.injEq] at this; exact this.2
  | [], _ :: _, h => by have := h (fun _ => 0); simp at this
  | _ :: _, [], h => by have := h (fun _ => 0); simp at this

theorem concr_of_evalEq (v : String → Nat) (a b : SShape) (h : a.map (·.eval v) = b.map (·.eval v)) :
    concr v a = concr v b := by
  have := congrArg (List.map Int.toNat) h
  simpa [concr, Function.comp_def] using this

theorem stack_sound (shapes : List SShape) (axis : Nat) (ds : SShape) (h : stack shapes axis = some ds)
    (v : String → Nat) (hadm : ∀ s ∈ shapes, Adm v s) :
    Spec.npStack (shapes.map (concr v)) axis = some (concr v ds) ∧ Adm v ds := by
  unfold stack at h
  cases shapes with
  | nil => simp at h
  | cons s0 rest =>
    simp only at h
    split_ifs at h with hc
    simp only [Option.some.injEq] at h
    subst h
    obtain ⟨hall, hax⟩ := hc
    rw [List.all_eq_true] at hall
    constructor
    · simp only [Spec.npStack, List.map_cons]
      have h1 : (rest.map (concr v)).all (· == concr v s0) = true := by
        rw [List.all_eq_true]
        intro c hc'
        obtain ⟨s, hs, rfl⟩ := List.mem_map.mp hc'
        simp only [beq_iff_eq]
        exact concr_of_evalEq v s s0 (shapesEq_sound s s0 (hall s hs) v)
      have h2 : axis ≤ (concr v s0).length := by simpa [concr] using hax
      rw [if_pos ⟨h1, h2⟩]
      simp [concr, List.map_take, List.map_drop, AExpr.eval]
    · intro d hd
      simp only [List.mem_append, List.mem_singleton] at hd
      rcases hd with (hd | rfl) | hd
      · exact hadm s0 (by simp) d (List.mem_of_mem_take hd)
      · simp only [AExpr.eval]; omega
      · exact hadm s0 (by simp) d (List.mem_of_mem_drop hd)

/-! ### concatenate -/

theorem beq_eq : ∀ (a b : AExpr), AExpr.beq a b = true → a = b
  | .lit a, .lit b, h => by simp only [AExpr.beq, beq_iff_eq] at h; rw [h]
  | .param x, .param y, h => by simp only [AExpr.beq, beq_iff_eq] at h; rw [h]
  | .add a b, .add c d, h => by
    simp only [AExpr.beq, Bool.and_eq_true] at h
    rw [beq_eq a c h.1, beq_eq b d h.2]
  | .sub a b, .sub c d, h => by
    simp only [AExpr.beq, Bool.and_eq_true] at h
    rw [beq_eq a c h.1, beq_eq b d h.2]
  | .scale k a, .scale l b, h => by
    simp only [AExpr.beq, Bool.and_eq_true, beq_iff_eq] at h
    rw [h.1, beq_eq a b h.2]
  | .lit _, .param _, h | .lit _, .add _ _, h | .lit _, .sub _ _, h | .lit _, .scale _ _, h
  | .param _, .lit _, h | .param _, .add _ _, h | .param _, .sub _ _, h | .param _, .scale _ _, h
  | .add _ _, .lit _, h | .add _ _, .param _, h | .add _ _, .sub _ _, h | .add _ _, .scale _ _, h
  | .sub _ _, .lit _, h | .sub _ _, .param _, h | .sub _ _, .add _ _, h | .sub _ _, .scale _ _, h
  | .scale _ _, .lit _, h | .scale _ _, .param _, h | .scale _ _, .add _ _, h | .scale _ _, .sub _ _, h => by
    simp [AExpr.beq] at h

theorem shapesBeq_eq : ∀ (a b : SShape), shapesBeq a b = true → a = b
  | [], [], _ => rfl
  | x :: xs, y :: ys, h => by
    simp only [shapesBeq, Bool.and_eq_true] at h
    rw [beq_eq x y h.1, shapesBeq_eq xs ys h.2]
  | [], _ :: _, h => by simp [shapesBeq] at h
  | _ :: _, [], h => by simp [shapesBeq] at h

theorem exceptAxis_map {α β : Type} (f : α → β) (axis : Nat) (s : List α) :
    exceptAxis axis (s.map f) = (exceptAxis axis s).map f := by
  simp [exceptAxis, List.map_take, List.map_drop]

theorem eval_foldl_add (v : String → Nat) : ∀ (ds : List AExpr) (acc : AExpr),
    (ds.foldl (fun a d => AExpr.add a d) acc).eval v = acc.eval v + (ds.map (·.eval v)).sum
  | [], acc => by simp
  | d :: ds, acc => by
    simp only [List.foldl_cons, List.map_cons, List.sum_cons]
    rw [eval_foldl_add v ds]
    simp only [AExpr.eval]; omega

theorem sum_nonneg_int : ∀ (l : List Int), (∀ x ∈ l, 0 ≤ x) → 0 ≤ l.sum
  | [], _ => by simp
  | x :: xs, h => by
    have := sum_nonneg_int xs fun y hy => h y (by simp [hy])
    have := h x (by simp)
    simp only [List.sum_cons]; omega

theorem toNat_sum : ∀ (l : List Int), (∀ x ∈ l, 0 ≤ x) → l.sum.toNat = (l.map Int.toNat).sum
  | [], _ => by simp
  | x :: xs, h => by
    have h1 := sum_nonneg_int xs fun y hy => h y (by simp [hy])
    have h2 := h x (by simp)
    simp only [List.sum_cons, List.map_cons]
    rw [← toNat_sum xs fun y hy => h y (by simp [hy])]
    omega

theorem getD_adm (v : String → Nat) (s : SShape) (hadm : Adm v s) (i : Nat) : 0 ≤ (s.getD i (.lit 0)).eval v := by
  rcases getD_mem_or s i (.lit 0) with hm | hm
  · exact hadm _ hm
  · rw [hm]; simp [AExpr.eval]

theorem concat_sound (shapes : List SShape) (axis : Nat) (ds : SShape) (h : concat shapes axis = some ds)
    (v : String → Nat) (hadm : ∀ s ∈ shapes, Adm v s) :
    Spec.npConcat (shapes.map (concr v)) axis = some (concr v ds) ∧ Adm v ds := by
  unfold concat at h
  cases shapes with
  | nil => simp at h
  | cons s0 rest =>
    simp only at h
    split_ifs at h with hc
    simp only [Option.some.injEq] at h
    subst h
    obtain ⟨hall, hax⟩ := hc
    rw [List.all_eq_true] at hall
    have hsum : (sumDims ((s0 :: rest).map fun s => s.getD axis (.lit 0))).eval v
        = (((s0 :: rest).map fun s => s.getD axis (.lit 0)).map (·.eval v)).sum := by
      unfold sumDims
      rw [eval_foldl_add]; simp [AExpr.eval]
    have hnn : ∀ x ∈ (((s0 :: rest).map fun s => s.getD axis (.lit 0)).map (·.eval v)), 0 ≤ x := by
      intro x hx
      obtain ⟨d, hd, rfl⟩ := List.mem_map.mp hx
      obtain ⟨s, hs, rfl⟩ := List.mem_map.mp hd
      exact getD_adm v s (hadm s hs) axis
    constructor
    · simp only [Spec.npConcat, List.map_cons]
      have h1 : (rest.map (concr v)).all (fun s => exceptAxis axis s == exceptAxis axis (concr v s0)
          ∧ s.length = (concr v s0).length) = true := by
        rw [List.all_eq_true]
        intro c hc'
        obtain ⟨s, hs, rfl⟩ := List.mem_map.mp hc'
        have := hall s hs
        simp only [Bool.and_eq_true, decide_eq_true_eq] at this
        simp only [concr, exceptAxis_map, shapesBeq_eq _ _ this.2, List.length_map, this.1, beq_self_eq_true,
          and_self, decide_true]
      have h2 : axis < (concr v s0).length := by simpa [concr] using hax
      rw [if_pos ⟨h1, h2⟩]
      simp only [Option.some.injEq, concr, List.map_set]
      congr 1
      have hs := hsum
      simp only [List.map_cons] at hs
      rw [hs]
      have hn := hnn
      simp only [List.map_cons] at hn
      rw [toNat_sum _ hn]
      simp only [List.map_cons, List.sum_cons, List.map_map]
      congr 1
      · rw [← getD_map_dflt (fun d => (AExpr.eval v d).toNat) s0 axis (.lit 0)]
        simp [AExpr.eval]
      · congr 1
        apply List.map_congr_left
        intro s _
        simp only [Function.comp_apply, concr]
        rw [← getD_map_dflt (fun d => (AExpr.eval v d).toNat) s axis (.lit 0)]
        simp [AExpr.eval]
    · intro d hd
      rcases List.mem_or_eq_of_mem_set hd with hd | rfl
      · exact hadm s0 (by simp) d hd
      · rw [hsum]; exact sum_nonneg_int _ hnn

/-! ### reductions -/

theorem maskS_map {α β : Type} (f : α → β) (b : Bool) : ∀ (m : List Bool) (s : List α),
    maskS b m (s.map f) = (maskS b m s).map f
  | [], _ => by simp [maskS]
  | _ :: _, [] => by simp [maskS]
  | m :: ms, n :: ns => by
    simp only [maskS, List.map_cons]
    split_ifs <;> simp [maskS_map f b ms ns]

theorem maskS_eq_maskShape (b : Bool) : ∀ (m : List Bool) (s : Shape), Lower.maskShape b m s = maskS b m s
  | [], _ => by simp [maskS, Lower.maskShape]
  | _ :: _, [] => by simp [maskS, Lower.maskShape]
  | m :: ms, n :: ns => by
    simp only [maskS, Lower.maskShape]
    split_ifs <;> simp [maskS_eq_maskShape b ms ns]

theorem maskS_mem {α : Type} (b : Bool) : ∀ (m : List Bool) (s : List α) (x : α), x ∈ maskS b m s → x ∈ s
  | [], _, _, h => by simp [maskS] at h
  | _ :: _, [], _, h => by simp [maskS] at h
  | m :: ms, n :: ns, x, h => by
    simp only [maskS] at h
    split_ifs at h
    · rcases List.mem_cons.mp h with rfl | h
      · simp
      · simp [maskS_mem b ms ns x h]
    · simp [maskS_mem b ms ns x h]

/-- reductions: the result keeps the non-reduced axes (NumPy: the same mask on the concrete shape) -/
theorem reduce_sound (s ds : SShape) (axes : Option (List Nat)) (h : reduce s axes = some ds)
    (v : String → Nat) (hadm : Adm v s) :
    concr v ds = Lower.maskShape false (Lower.redMask (concr v s).length axes) (concr v s) ∧ Adm v ds
    ∧ (∀ l, axes = some l → ∀ a ∈ l, a < (concr v s).length) := by
  unfold reduce at h
  simp only at h
  split_ifs at h with h1 h2
  simp only [Option.some.injEq] at h
  subst h
  have hl : (concr v s).length = s.length := by simp [concr]
  refine ⟨?_, fun d hd => hadm d (maskS_mem _ _ _ d hd), ?_⟩
  · rw [maskS_eq_maskShape, hl]; exact (maskS_map _ false _ s).symm
  · intro l hl' a ha
    subst hl'
    rw [hl]
    simp only [List.any_eq_true, not_exists, not_and] at h1
    have := h1 a ha
    simpa using this

/-! ### full / zeros / ones, expand_dims, broadcast_to, pad -/

theorem normShape_sound (dims ds : SShape) (h : normShape dims = some ds) : ds = dims := by
  unfold normShape at h
  split_ifs at h
  simp only [Option.some.injEq] at h
  exact h.symm

theorem map_insertIdx' {α β : Type} (f : α → β) : ∀ (i : Nat) (l : List α) (a : α),
    (l.insertIdx i a).map f = (l.map f).insertIdx i (f a)
  | 0, l, a => by simp [List.insertIdx_zero]
  | i + 1, [], a => by simp [List.insertIdx_succ_nil]
  | i + 1, x :: xs, a => by simp [List.insertIdx_succ_cons, map_insertIdx' f i xs a]

theorem mem_insertIdx' {α : Type} : ∀ (i : Nat) (l : List α) (a x : α), x ∈ l.insertIdx i a → x = a ∨ x ∈ l
  | 0, l, a, x, h => by simpa [List.insertIdx_zero] using h
  | i + 1, [], a, x, h => by simp [List.insertIdx_succ_nil] at h
  | i + 1, y :: ys, a, x, h => by
    simp only [List.insertIdx_succ_cons, List.mem_cons] at h
    rcases h with rfl | h
    · simp
    · rcases mem_insertIdx' i ys a x h with h | h
      · exact Or.inl h
      · exact Or.inr (by simp [h])

theorem insertOnes_map {α β : Type} (f : α → β) (one : α) : ∀ (axs : List Nat) (s : List α),
    insertOnes (f one) axs (s.map f) = (insertOnes one axs s).map f
  | [], s => rfl
  | ax :: axs, s => by
    simp only [insertOnes]
    rw [← insertOnes_map f one axs, map_insertIdx']

theorem insertOnes_mem {α : Type} (one : α) : ∀ (axs : List Nat) (s : List α) (x : α),
    x ∈ insertOnes one axs s → x ∈ s ∨ x = one
  | [], s, x, h => Or.inl h
  | ax :: axs, s, x, h => by
    simp only [insertOnes] at h
    rcases insertOnes_mem one axs _ x h with h | h
    · rcases mem_insertIdx' _ _ _ _ h with h | h
      · exact Or.inr h
      · exact Or.inl h
    · exact Or.inr h

/-- expand_dims: the same insertion of unit axes on the concrete shape -/
theorem expandDims_sound (s ds : SShape) (axes : List Int) (h : expandDims s axes = some ds)
    (v : String → Nat) (hadm : Adm v s) :
    (∃ norm : List Nat, concr v ds = insertOnes 1 (sortNat norm) (concr v s) ∧
      norm = axes.map (fun ax => (if ax ≥ 0 then ax else ax + ((s.length + axes.length : Nat) : Int)).toNat))
    ∧ Adm v ds := by
  unfold expandDims at h
  simp only at h
  split_ifs at h with h1 h2
  simp only [Option.some.injEq] at h
  subst h
  refine ⟨⟨_, ?_, rfl⟩, ?_⟩
  · have := insertOnes_map (fun d => (AExpr.eval v d).toNat) (.lit 1)
      (sortNat (axes.map fun ax => (if ax ≥ 0 then ax else ax + ((s.length + axes.length : Nat) : Int)).toNat)) s
    simp only [AExpr.eval, Int.toNat_one] at this
    exact this.symm
  · intro d hd
    rcases insertOnes_mem _ _ _ d hd with hd | rfl
    · exact hadm d hd
    · simp [AExpr.eval]

theorem full_sound (dims ds : SShape) (h : full dims = some ds) (v : String → Nat) (hadm : Adm v dims) :
    ds = dims ∧ ds.map (·.eval v) = (concr v dims).map (fun (n : Nat) => (n : Int)) := by
  have := normShape_sound dims ds h
  subst this
  exact ⟨rfl, evalS_eq_of_adm v _ hadm⟩

theorem zip_concr_all (v : String → Nat) : ∀ (a b : SShape),
    (a.zip b).all (fun p => affEq p.1 p.2 || isOne p.1) = true →
    ((concr v a).zip (concr v b)).all (fun p => p.1 == p.2 || p.1 == 1) = true
  | [], _, _ => by simp [concr]
  | _ :: _, [], _ => by simp [concr]
  | x :: xs, y :: ys, h => by
    simp only [List.zip_cons_cons, List.all_cons, Bool.and_eq_true] at h
    simp only [concr, List.map_cons, List.zip_cons_cons, List.all_cons, Bool.and_eq_true]
    refine ⟨?_, zip_concr_all v xs ys h.2⟩
    have h1 := h.1
    simp only [Bool.or_eq_true] at h1 ⊢
    rcases h1 with h1 | h1
    · left; rw [affEq_eval h1 v]; simp
    · right; rw [isOne_eval h1 v]; simp

/-- broadcast_to: NumPy accepts the concrete shapes and the result is the target -/
theorem broadcastTo_sound (s tgt ds : SShape) (h : broadcastTo s tgt = some ds) (v : String → Nat) :
    ds = tgt ∧ Spec.npBroadcastTo (concr v s) (concr v tgt) = some (concr v ds) := by
  unfold broadcastTo at h
  cases hn : normShape tgt with
  | none => rw [hn] at h; simp at h
  | some t =>
    rw [hn] at h
    have ht := normShape_sound tgt t hn
    subst ht
    simp only at h
    split_ifs at h with hc
    simp only [Option.some.injEq] at h
    subst h
    refine ⟨rfl, ?_⟩
    unfold Spec.npBroadcastTo
    have hl1 : (concr v s).length = s.length := by simp [concr]
    have hl2 : (concr v t).length = t.length := by simp [concr]
    have hd : (concr v t).drop (t.length - s.length) = concr v (t.drop (t.length - s.length)) := by
      simp [concr, List.map_drop]
    rw [hl1, hl2, hd, if_pos ⟨hc.1, zip_concr_all v _ _ hc.2⟩]

/-- pad: every axis grows by its two widths -/
theorem pad_sound (s ds : SShape) (widths : List (Nat × Nat)) (h : pad s widths = some ds)
    (v : String → Nat) (hadm : Adm v s) :
    concr v ds = ((concr v s).zip widths).map (fun p => p.1 + p.2.1 + p.2.2) ∧ Adm v ds
    ∧ widths.length = (concr v s).length := by
  unfold pad at h
  split_ifs at h with hc
  simp only [Option.some.injEq] at h
  subst h
  refine ⟨?_, ?_, by simp [concr, hc]⟩
  · simp only [concr, List.map_map, List.zip_map_left]
    apply List.map_congr_left
    intro p hp
    have hd : 0 ≤ p.1.eval v := hadm _ (List.of_mem_zip hp).1
    simp only [Function.comp_apply, AExpr.eval, Prod.map_fst, Prod.map_snd, id_eq]
    omega
  · intro d hd
    obtain ⟨p, hp, rfl⟩ := List.mem_map.mp hd
    have := hadm _ (List.of_mem_zip hp).1
    simp only [AExpr.eval]; omega

/-! ### slices and integer indices (`_normalize_slice`, `_normalized_slice_len`, `_is_non_negative`) -/

def toB : SIdx → Spec.BIdx
  | .int k => .int k
  | .slice a b c => .slice a b c

theorem isNonNeg_eval {e : AExpr} (h : isNonNeg e = true) (v : String → Nat) : 0 ≤ e.eval v :=
  (isNonNeg_iff e).mp h v

theorem isNonPos_eval {e : AExpr} (h : isNonPos e = true) (v : String → Nat) : e.eval v ≤ 0 := by
  have := isNonNeg_eval h v
  simp only [AExpr.eval] at this; omega

/-- the symbolic branch of `sliceLen` (the axis length is not a Python int) -/
def sliceLenSym (d : AExpr) (start stop : Option Int) (step : Int) : Except Refusal QExpr :=
  if start.isSome ∨ stop.isSome then .error .explicitBoundOnSymbolicAxis
  else if step > 0 then
    let diff : AExpr := .sub d (.lit 0)
    if isNonNeg diff then .ok (.fdiv (.sub (.add diff (.lit step)) (.lit 1)) step)
    else if isNonPos diff then .ok (.aff (.lit 0))
    else .error .signUnknown
  else
    let diff : AExpr := .sub (.sub d (.lit 1)) (.lit (-1))
    if isNonNeg diff then .ok (.fdiv (.sub (.sub diff (.lit step)) (.lit 1)) (-step))
    else if isNonPos diff then .ok (.aff (.lit 0))
    else .error .signUnknown

theorem sliceLen_nonlit (d : AExpr) (hd : isLit d = false) (start stop : Option Int) (step : Int)
    (hs : step ≠ 0) : sliceLen d start stop step = sliceLenSym d start stop step := by
  unfold sliceLen sliceLenSym
  rw [if_neg hs]
  cases d <;> first | rfl | simp [isLit] at hd

theorem sliceLenSym_sound (d : AExpr) (start stop : Option Int) (step : Int) (hs : step ≠ 0) (q : QExpr)
    (h : sliceLenSym d start stop step = .ok q) (v : String → Nat) (hd : 0 ≤ d.eval v) :
    q.eval v = cpyLen (cpyAdjust start stop step (d.eval v)) := by
  unfold sliceLenSym at h
  by_cases h0 : start.isSome = true ∨ stop.isSome = true
  · rw [if_pos h0] at h; cases h
  rw [if_neg h0] at h
  simp only [not_or, Bool.not_eq_true, Option.isSome_eq_false_iff, Option.isNone_iff_eq_none] at h0
  obtain ⟨rfl, rfl⟩ := h0
  by_cases h1 : step > 0
  · rw [if_pos h1] at h
    simp only at h
    split_ifs at h with h2 h3
    · -- length provably ≥ 0
      simp only [Except.ok.injEq] at h
      subst h
      have := slice_len_eq_cpython ⟨0, d.eval v, step⟩ hs
      simp only [ptSliceLen, if_pos h1] at this
      rw [if_pos (by omega)] at this
      simp only [QExpr.eval, AExpr.eval, cpyAdjust, if_neg (show ¬ step < 0 by omega)]
      exact this
    · -- length provably ≤ 0: it is 0
      simp only [Except.ok.injEq] at h
      subst h
      have hle := isNonPos_eval h3 v
      simp only [AExpr.eval] at hle
      simp only [QExpr.eval, AExpr.eval, cpyAdjust, if_neg (show ¬ step < 0 by omega), cpyLen]
      rw [if_neg (by omega)]
  · rw [if_neg h1] at h
    simp only at h
    have hneg : step < 0 := by omega
    split_ifs at h with h2 h3
    · simp only [Except.ok.injEq] at h
      subst h
      have := slice_len_eq_cpython ⟨d.eval v - 1, -1, step⟩ hs
      simp only [ptSliceLen, if_neg h1] at this
      rw [if_pos (by omega)] at this
      simp only [QExpr.eval, AExpr.eval, cpyAdjust, if_pos hneg]
      exact this
    · simp only [Except.ok.injEq] at h
      subst h
      have hle := isNonPos_eval h3 v
      simp only [AExpr.eval] at hle
      simp only [QExpr.eval, AExpr.eval, cpyAdjust, if_pos hneg, cpyLen]
      rw [if_neg (by omega)]

/-- `_normalize_slice` + `_normalized_slice_len`: whenever the real code answers, the
    symbolic length evaluated at `v` is the length CPython computes for the slice on
    the concrete axis -/
theorem sliceLen_sound (d : AExpr) (start stop : Option Int) (step : Int) (q : QExpr)
    (h : sliceLen d start stop step = .ok q) (v : String → Nat) (hd : 0 ≤ d.eval v) :
    q.eval v = cpyLen (cpyAdjust start stop step (d.eval v)) ∧ step ≠ 0 := by
  have hs : step ≠ 0 := by
    intro h0; unfold sliceLen at h; rw [if_pos h0] at h; cases h
  refine ⟨?_, hs⟩
  cases hl : isLit d with
  | false =>
    rw [sliceLen_nonlit d hl start stop step hs] at h
    exact sliceLenSym_sound d start stop step hs q h v hd
  | true =>
    cases d with
    | lit n =>
      unfold sliceLen at h
      rw [if_neg hs] at h
      simp only [Except.ok.injEq] at h
      subst h
      have hn : 0 ≤ n := by simpa [AExpr.eval] using hd
      simp only [QExpr.eval, AExpr.eval]
      rw [slice_len_eq_cpython _ (by simpa [ptNormSlice] using hs), slice_norm_eq_cpython n hn start stop step hs]
    | param _ => simp [isLit] at hl
    | add _ _ => simp [isLit] at hl
    | sub _ _ => simp [isLit] at hl
    | scale _ _ => simp [isLit] at hl

/-- the real code declares the sign unknown exactly when the length is neither
    non-negative for all valuations nor non-positive for all valuations -/
theorem sliceLenSym_signUnknown_iff (d : AExpr) (step : Int) :
    sliceLenSym d none none step = .error .signUnknown ↔
      ¬ (∀ v : String → Nat, 0 ≤ d.eval v) ∧ ¬ (∀ v : String → Nat, d.eval v ≤ 0) := by
  have e1 : (∀ v : String → Nat, 0 ≤ d.eval v) ↔ isNonNeg (.sub d (.lit 0)) = true := by
    rw [isNonNeg_iff]; simp [AExpr.eval]
  have e2 : (∀ v : String → Nat, d.eval v ≤ 0) ↔ isNonPos (.sub d (.lit 0)) = true := by
    unfold isNonPos; rw [isNonNeg_iff]; simp only [AExpr.eval]
    constructor <;> intro h v <;> have := h v <;> omega
  have e3 : (∀ v : String → Nat, 0 ≤ d.eval v) ↔ isNonNeg (.sub (.sub d (.lit 1)) (.lit (-1))) = true := by
    rw [isNonNeg_iff]; simp only [AExpr.eval]
    constructor <;> intro h v <;> have := h v <;> omega
  have e4 : (∀ v : String → Nat, d.eval v ≤ 0) ↔ isNonPos (.sub (.sub d (.lit 1)) (.lit (-1))) = true := by
    unfold isNonPos; rw [isNonNeg_iff]; simp only [AExpr.eval]
    constructor <;> intro h v <;> have := h v <;> omega
  unfold sliceLenSym
  simp only [Option.isSome_none, Bool.false_eq_true, or_self, if_false]
  by_cases hp : step > 0
  · rw [if_pos hp, e1, e2]
    by_cases h1 : isNonNeg (.sub d (.lit 0)) = true
    · simp [h1]
    · by_cases h2 : isNonPos (.sub d (.lit 0)) = true <;> simp [h1, h2]
  · rw [if_neg hp, e3, e4]
    by_cases h1 : isNonNeg (.sub (.sub d (.lit 1)) (.lit (-1))) = true
    · simp [h1]
    · by_cases h2 : isNonPos (.sub (.sub d (.lit 1)) (.lit (-1))) = true <;> simp [h1, h2]

theorem intOk_sound (d : AExpr) (k : Int) (h : intOk d k = true) (v : String → Nat) (hd : 0 ≤ d.eval v) :
    Spec.npIntOk (cd v d) k = true := by
  simp only [intOk, Bool.and_eq_true] at h
  have h1 := isNonNeg_eval h.1 v
  have h2 := isNonNeg_eval h.2 v
  simp only [AExpr.eval] at h1 h2
  simp only [Spec.npIntOk, cd, decide_eq_true_eq, Int.toNat_of_nonneg hd]
  omega

/-- an integer index is accepted exactly when it is within the axis for ALL valuations -/
theorem intOk_iff (d : AExpr) (k : Int) :
    intOk d k = true ↔ ∀ v : String → Nat, -(d.eval v) ≤ k ∧ k < d.eval v := by
  simp only [intOk, Bool.and_eq_true, isNonNeg_iff, AExpr.eval]
  constructor
  · intro h v; have := h.1 v; have := h.2 v; omega
  · intro h; exact ⟨fun v => by have := h v; omega, fun v => by have := h v; omega⟩

/-- basic indexing: every result length evaluates to NumPy's (CPython's slice
    length on the concrete axis), and NumPy accepts the index -/
theorem index_sound : ∀ (s : SShape) (ix : List SIdx) (qs : List QExpr), index s ix = .ok qs →
    ∀ (v : String → Nat), Adm v s →
    qs.map (·.eval v) = (Spec.basicShape (concr v s) (ix.map toB)).map (fun (n : Nat) => (n : Int))
    ∧ Spec.basicOk (concr v s) (ix.map toB) = true
  | [], [], qs, h, v, _ => by
    simp only [index, Except.ok.injEq] at h
    subst h
    simp [concr, Spec.basicShape, Spec.basicOk]
  | d :: ds, .int k :: ix, qs, h, v, hadm => by
    simp only [index] at h
    split_ifs at h with hk
    have hd : 0 ≤ d.eval v := hadm d (by simp)
    obtain ⟨ih1, ih2⟩ := index_sound ds ix qs h v fun x hx => hadm x (by simp [hx])
    simp only [concr, List.map_cons, toB, Spec.basicShape, Spec.basicOk, Bool.and_eq_true]
    exact ⟨ih1, intOk_sound d k hk v hd, ih2⟩
  | d :: ds, .slice st sp step :: ix, qs, h, v, hadm => by
    simp only [index] at h
    have hd : 0 ≤ d.eval v := hadm d (by simp)
    cases hq : sliceLen d st sp step with
    | error e => rw [hq] at h; cases h
    | ok q =>
      rw [hq] at h
      cases hr : index ds ix with
      | error e => rw [hr] at h; cases h
      | ok qs' =>
        rw [hr] at h
        simp only [Except.map, Except.ok.injEq] at h
        subst h
        obtain ⟨ih1, ih2⟩ := index_sound ds ix qs' hr v fun x hx => hadm x (by simp [hx])
        obtain ⟨hlen, hstep⟩ := sliceLen_sound d st sp step q hq v hd
        simp only [concr, List.map_cons, toB, Spec.basicShape, Spec.basicOk, Bool.and_eq_true,
          decide_eq_true_eq, List.cons.injEq]
        refine ⟨⟨?_, ih1⟩, hstep, ih2⟩
        rw [hlen, Int.toNat_of_nonneg hd, Int.toNat_of_nonneg (slice_len_nonneg _)]
  | [], _ :: _, _, h, _, _ => by simp [index] at h
  | _ :: _, [], _, h, _, _ => by simp [index] at h

/-! ### einsum: the symbolic axis-length table concretises to pytato's concrete table -/

/-- concretise a table entry -/
def cE (v : String → Nat) (p : EAxis × AExpr) : EAxis × Nat := (p.1, cd v p.2)

def keysE (T : List (EAxis × AExpr)) : List EAxis := T.map (·.1)

theorem find_cE (v : String → Nat) (T : List (EAxis × AExpr)) (ax : EAxis) :
    (T.map (cE v)).find? (·.1 == ax) = (T.find? (·.1 == ax)).map (cE v) := by
  rw [List.find?_map]; rfl

theorem nodup_keys_unique : ∀ (T : List (EAxis × AExpr)), (keysE T).Nodup →
    ∀ a m m', (a, m) ∈ T → (a, m') ∈ T → m = m'
  | [], _, _, _, _, h, _ => by simp at h
  | (b, n) :: T, hn, a, m, m', h1, h2 => by
    simp only [keysE, List.map_cons, List.nodup_cons, List.mem_map, not_exists, not_and] at hn
    rcases List.mem_cons.mp h1 with h1 | h1 <;> rcases List.mem_cons.mp h2 with h2 | h2
    · cases h1; cases h2; rfl
    · cases h1; exact absurd rfl (hn.1 _ h2)
    · cases h2; exact absurd rfl (hn.1 _ h1)
    · exact nodup_keys_unique T hn.2 a m m' h1 h2

theorem find_some_mem {T : List (EAxis × AExpr)} {ax a0 : EAxis} {seen : AExpr}
    (h : T.find? (·.1 == ax) = some (a0, seen)) : (ax, seen) ∈ T := by
  have h1 := List.find?_some h
  have h2 := List.mem_of_find?_eq_some h
  simp only [beq_iff_eq] at h1
  subst h1; exact h2

theorem step_sound (v : String → Nat) (T T' : List (EAxis × AExpr)) (ax : EAxis) (d : AExpr)
    (hn : (keysE T).Nodup) (h : axisLenStepS T ax d = some T') :
    Spec.axisLenStep (T.map (cE v)) ax (cd v d) = T'.map (cE v) ∧ (keysE T').Nodup
    ∧ (∀ p ∈ T', p ∈ T ∨ p.2 = d) := by
  unfold axisLenStepS at h
  unfold Spec.axisLenStep
  rw [find_cE]
  cases hf : T.find? (·.1 == ax) with
  | none =>
    rw [hf] at h
    simp only [Option.some.injEq] at h
    subst h
    refine ⟨by simp [cE], ?_, ?_⟩
    · have hnot : ax ∉ keysE T := by
        intro hm
        obtain ⟨p, hp, rfl⟩ := List.mem_map.mp hm
        have := List.find?_eq_none.mp hf p hp
        simp at this
      simp only [keysE, List.map_append, List.map_cons, List.map_nil]
      exact List.nodup_append.mpr ⟨hn, by simp, by
        intro a ha b hb
        simp only [List.mem_singleton] at hb
        subst hb
        exact fun e => hnot (e ▸ ha)⟩
    · intro p hp
      rcases List.mem_append.mp hp with hp | hp
      · exact Or.inl hp
      · simp only [List.mem_singleton] at hp; subst hp; exact Or.inr rfl
  | some p0 =>
    obtain ⟨a0, seen⟩ := p0
    rw [hf] at h
    simp only [Option.map_some, cE] at h ⊢
    have hmem := find_some_mem hf
    split_ifs at h with h1 h2 h3
    · simp only [Option.some.injEq] at h; subst h
      have : cd v seen = cd v d := by unfold cd; rw [affEq_eval h1 v]
      exact ⟨by rw [if_pos this], hn, fun p hp => Or.inl hp⟩
    · simp only [Option.some.injEq] at h; subst h
      have : cd v d = 1 := by unfold cd; rw [isOne_eval h2 v]; rfl
      refine ⟨?_, hn, fun p hp => Or.inl hp⟩
      by_cases hc : cd v seen = cd v d
      · rw [if_pos hc]
      · rw [if_neg hc, if_pos this]
    · simp only [Option.some.injEq] at h; subst h
      have hs1 : cd v seen = 1 := by unfold cd; rw [isOne_eval h3 v]; rfl
      have hkeys : keysE (T.map fun (x : EAxis × AExpr) => if x.1 == ax then (x.1, d) else (x.1, x.2)) = keysE T := by
        simp only [keysE, List.map_map]
        apply List.map_congr_left
        intro x _
        simp only [Function.comp_apply]
        split_ifs <;> rfl
      refine ⟨?_, by rw [hkeys]; exact hn, ?_⟩
      · by_cases hc : cd v seen = cd v d
        · rw [if_pos hc]
          simp only [List.map_map]
          apply List.map_congr_left
          intro x hx
          obtain ⟨a, m⟩ := x
          simp only [Function.comp_apply, cE]
          by_cases ha : (a == ax) = true
          · simp only [ha, if_true]
            simp only [beq_iff_eq] at ha
            subst ha
            have := nodup_keys_unique T hn a m seen hx hmem
            subst this
            rw [← hc]
          · simp only [ha]; rfl
        · have hd1 : cd v d ≠ 1 := fun e => hc (by rw [hs1, e])
          rw [if_neg hc, if_neg hd1]
          simp only [List.map_map]
          apply List.map_congr_left
          intro x _
          obtain ⟨a, m⟩ := x
          simp only [Function.comp_apply, cE]
          by_cases ha : (a == ax) = true <;> simp [ha]
      · intro p hp
        obtain ⟨x, hx, rfl⟩ := List.mem_map.mp hp
        by_cases ha : (x.1 == ax) = true
        · rw [if_pos ha]; exact Or.inr rfl
        · rw [if_neg ha]; exact Or.inl hx

theorem operand_sound (v : String → Nat) : ∀ (pairs : List (EAxis × AExpr)) (T T' : List (EAxis × AExpr)),
    (keysE T).Nodup → operandStepS T pairs = some T' →
    (pairs.map (cE v)).foldl (fun tbl (p : EAxis × Nat) => Spec.axisLenStep tbl p.1 p.2) (T.map (cE v))
      = T'.map (cE v)
    ∧ (keysE T').Nodup ∧ (∀ p ∈ T', p ∈ T ∨ ∃ q ∈ pairs, p.2 = q.2)
  | [], T, T', hn, h => by
    simp only [operandStepS, Option.some.injEq] at h
    subst h
    exact ⟨rfl, hn, fun p hp => Or.inl hp⟩
  | (ax, d) :: rest, T, T', hn, h => by
    simp only [operandStepS] at h
    cases hs : axisLenStepS T ax d with
    | none => rw [hs] at h; cases h
    | some T1 =>
      rw [hs] at h
      obtain ⟨e1, n1, m1⟩ := step_sound v T T1 ax d hn hs
      obtain ⟨e2, n2, m2⟩ := operand_sound v rest T1 T' n1 h
      refine ⟨?_, n2, ?_⟩
      · simp only [List.map_cons, List.foldl_cons, cE]
        rw [e1]; exact e2
      · intro p hp
        rcases m2 p hp with hp1 | ⟨q, hq, hpq⟩
        · rcases m1 p hp1 with hp2 | hp2
          · exact Or.inl hp2
          · exact Or.inr ⟨(ax, d), by simp, hp2⟩
        · exact Or.inr ⟨q, by simp [hq], hpq⟩

theorem zip_cE (v : String → Nat) (d : List EAxis) (s : SShape) :
    (d.zip s).map (cE v) = d.zip (concr v s) := by
  simp only [concr, List.zip_map_right]
  apply List.map_congr_left
  intro p _; rfl

theorem table_sound (v : String → Nat) : ∀ (ops : List (List EAxis × SShape)) (T T' : List (EAxis × AExpr)),
    (keysE T).Nodup → tableS T ops = some T' →
    (ops.map fun o => (o.1, concr v o.2)).foldl
        (fun tbl (o : List EAxis × Shape) =>
          (o.1.zip o.2).foldl (fun tbl (p : EAxis × Nat) => Spec.axisLenStep tbl p.1 p.2) tbl) (T.map (cE v))
      = T'.map (cE v)
    ∧ (∀ p ∈ T', p ∈ T ∨ ∃ o ∈ ops, p.2 ∈ o.2)
  | [], T, T', _, h => by
    simp only [tableS, Option.some.injEq] at h
    subst h
    exact ⟨rfl, fun p hp => Or.inl hp⟩
  | (d, s) :: rest, T, T', hn, h => by
    simp only [tableS] at h
    split_ifs at h with hl
    cases ho : operandStepS T (d.zip s) with
    | none => rw [ho] at h; cases h
    | some T1 =>
      rw [ho] at h
      obtain ⟨e1, n1, m1⟩ := operand_sound v (d.zip s) T T1 hn ho
      obtain ⟨e2, m2⟩ := table_sound v rest T1 T' n1 h
      refine ⟨?_, ?_⟩
      · simp only [List.map_cons, List.foldl_cons]
        rw [← zip_cE, e1]; exact e2
      · intro p hp
        rcases m2 p hp with hp1 | ⟨o, ho', hpo⟩
        · rcases m1 p hp1 with hp2 | ⟨q, hq, hpq⟩
          · exact Or.inl hp2
          · refine Or.inr ⟨(d, s), by simp, ?_⟩
            rw [hpq]; exact (List.of_mem_zip hq).2
        · exact Or.inr ⟨o, by simp [ho'], hpo⟩

theorem axisLenTable_eq (descrs : List (List EAxis)) (shapes : List Shape) :
    Spec.axisLenTable descrs shapes
      = (descrs.zip shapes).foldl
          (fun tbl (o : List EAxis × Shape) =>
            (o.1.zip o.2).foldl (fun tbl (p : EAxis × Nat) => Spec.axisLenStep tbl p.1 p.2) tbl) [] := rfl

theorem axisLenS_concr (v : String → Nat) (T : List (EAxis × AExpr)) (ax : EAxis) :
    cd v (axisLenS T ax) = Spec.axisLen (T.map (cE v)) ax := by
  unfold axisLenS Spec.axisLen
  rw [find_cE]
  cases T.find? (·.1 == ax) with
  | none => simp [cd_one]
  | some p => simp [cE]

/-- `pt.einsum`: the inferred output shape concretises to the shape of the
    existing einsum specification (`Spec.einsum`) on the concrete operand shapes -/
theorem einsum_sound (descrs : List (List EAxis)) (shapes : List SShape) (nout : Nat) (ds : SShape)
    (h : einsum descrs shapes nout = some ds) (v : String → Nat) (hadm : ∀ s ∈ shapes, Adm v s) :
    concr v ds = (List.range nout).map
        (fun k => Spec.axisLen (Spec.axisLenTable descrs (shapes.map (concr v))) (.elem k))
    ∧ Adm v ds := by
  unfold einsum at h
  split_ifs at h with hl
  cases ht : tableS [] (descrs.zip shapes) with
  | none => rw [ht] at h; cases h
  | some tbl =>
    rw [ht] at h
    simp only at h
    split_ifs at h with hall
    simp only [Option.some.injEq] at h
    subst h
    obtain ⟨e, m⟩ := table_sound v (descrs.zip shapes) [] tbl (by simp [keysE]) ht
    have htab : Spec.axisLenTable descrs (shapes.map (concr v)) = tbl.map (cE v) := by
      rw [axisLenTable_eq, ← e]
      congr 1
      rw [List.zip_map_right]
      apply List.map_congr_left
      intro o _; rfl
    constructor
    · rw [htab]
      simp only [concr, List.map_map]
      apply List.map_congr_left
      intro k _
      exact axisLenS_concr v tbl (.elem k)
    · intro d hd
      obtain ⟨k, _, rfl⟩ := List.mem_map.mp hd
      unfold axisLenS
      cases hf : tbl.find? (·.1 == EAxis.elem k) with
      | none => simp [AExpr.eval]
      | some p =>
        simp only [Option.map_some, Option.getD_some]
        have hp := List.mem_of_find?_eq_some hf
        rcases m p hp with hp' | ⟨o, ho, hpo⟩
        · simp at hp'
        · exact hadm o.2 (List.of_mem_zip ho).2 _ hpo

/-- every accepted table step merges two lengths NumPy also merges -/
theorem step_compat (v : String → Nat) (T T' : List (EAxis × AExpr)) (ax a0 : EAxis) (d seen : AExpr)
    (hf : T.find? (·.1 == ax) = some (a0, seen)) (h : axisLenStepS T ax d = some T') :
    cd v seen = cd v d ∨ cd v d = 1 ∨ cd v seen = 1 := by
  unfold axisLenStepS at h
  rw [hf] at h
  simp only at h
  split_ifs at h with h1 h2 h3
  · left; unfold cd; rw [affEq_eval h1 v]
  · right; left; unfold cd; rw [isOne_eval h2 v]; rfl
  · right; right; unfold cd; rw [isOne_eval h3 v]; rfl

end Sym
end Pt

/-
  C14: one emitted statement is sound — for every supported node kind, the right-hand
  side built from the children's names evaluates to the node's value (core Lean only).
-/
import PtProofs.PyGenHloLemmas
import PtProofs.PyGenIndexLemmas
namespace Pt
namespace Py

section
variable {g : PGraph} {inp : Nat → Option (Arr Val)} {env : PEnv}

theorem hlo_sound (hc : CleanEnv env) (cs : Nat → List (Option Nat)) (dt : DType) (shape : Shape)
    (binds : List (String × Nat)) (lits : List ScalarInfo) (h : Raise.HLO)
    {pre : Bool} {kids : List Nat} {mk : List String → PyExpr}
    (hp : hloPlan cs dt shape binds lits h = .ok (.stmt pre kids mk))
    (hs : suppHlo cs dt binds lits h = true)
    (hrank : ∀ c a, den g inp c = some a → a.shape.length = (cs c).length)
    {names : List String} {as : List (Arr Val)} (hb : BoundTo env names as)
    (hd : KidsDen g inp kids as) :
    pyEval env (mk names)
      = (npHlo h shape (kindOfTyname dt.tyname) (envOf (den g inp) binds)).map .arr := by
  cases h with
  | full c => exact full_sound hc cs dt shape binds lits c hp hs names
  | binary op x1 x2 => exact binary_sound hc cs dt shape binds lits op x1 x2 hp hs hb hd
  | call f args => exact call_sound hc cs dt shape binds lits f args hp hs hb hd
  | zerosLike x => exact zerosLike_sound hc cs dt shape binds lits x hp names
  | where_ c t e => exact where_sound hc cs dt shape binds lits c t e hp hs hb hd
  | broadcast x => exact broadcast_sound hc cs dt shape binds lits x hp hb hd
  | logicalNot x => simp [suppHlo] at hs
  | reduce op x axes => exact reduce_sound hc cs dt shape binds lits op x axes hp hs hrank hb hd

omit g inp env in
theorem hloPlan_stmt {cs : Nat → List (Option Nat)} {dt : DType} {shape : Shape}
    {binds : List (String × Nat)} {lits : List ScalarInfo} {h : Raise.HLO} {pl : Plan}
    (hp : hloPlan cs dt shape binds lits h = .ok pl) : ∃ pre kids mk, pl = .stmt pre kids mk := by
  cases h with
  | full c =>
    simp only [hloPlan] at hp
    obtain ⟨_, _, hp⟩ := Gen.bind_ok.1 hp
    cases hp; exact ⟨_, _, _, rfl⟩
  | binary op x1 x2 =>
    simp only [hloPlan] at hp
    split at hp
    · obtain ⟨_, _, hp⟩ := Gen.bind_ok.1 hp
      cases hp; exact ⟨_, _, _, rfl⟩
    · split at hp
      · obtain ⟨_, _, hp⟩ := Gen.bind_ok.1 hp
        cases hp; exact ⟨_, _, _, rfl⟩
      · cases hp
  | call f args =>
    simp only [hloPlan] at hp
    obtain ⟨_, _, hp⟩ := Gen.bind_ok.1 hp
    cases hp; exact ⟨_, _, _, rfl⟩
  | zerosLike x =>
    simp only [hloPlan] at hp
    cases hp; exact ⟨_, _, _, rfl⟩
  | where_ c t e =>
    simp only [hloPlan] at hp
    obtain ⟨_, _, hp⟩ := Gen.bind_ok.1 hp
    cases hp; exact ⟨_, _, _, rfl⟩
  | broadcast x =>
    simp only [hloPlan] at hp
    obtain ⟨_, _, hp⟩ := Gen.bind_ok.1 hp
    cases hp; exact ⟨_, _, _, rfl⟩
  | logicalNot x => simp [hloPlan] at hp
  | reduce op x axes =>
    simp only [hloPlan] at hp
    obtain ⟨_, _, hp⟩ := Gen.bind_ok.1 hp
    cases hp; exact ⟨_, _, _, rfl⟩

/-! ## the dictionary of outputs: values stay with their keys -/

theorem dict_eval : ∀ (items : List (String × Nat)) {names : List String} {as : List (Arr Val)},
    BoundTo env names as → KidsDen g inp (items.map (·.2)) as →
    pyEvalKws env ((items.map (·.1)).zip (names.map .name))
      = allSomeKV (items.map fun kv => (kv.1, den g inp kv.2))
  | [], [], [], _, _ => by simp [pyEvalKws, allSomeKV]
  | (k, c) :: r, n :: ns, a :: as, hb, hd => by
    have ih := dict_eval r hb.2 hd.2
    simp only [List.map_cons, List.zip_cons_cons, pyEvalKws, pyEval_name hb.1, ih, hd.1, allSomeKV]
    cases allSomeKV (r.map fun kv => (kv.1, den g inp kv.2)) <;> rfl
  | [], _ :: _, _, hb, hd => by
    cases ‹List (Arr Val)› <;> simp [BoundTo, KidsDen] at hb hd
  | [], [], _ :: _, hb, _ => by simp [BoundTo] at hb
  | _ :: _, [], as, hb, hd => by
    cases as <;> simp [BoundTo, KidsDen] at hb hd
  | _ :: _, _ :: _, [], hb, _ => by simp [BoundTo] at hb

theorem dict_defined : ∀ (items : List (String × Nat)) {as : List (Arr Val)},
    KidsDen g inp (items.map (·.2)) as →
    (allSomeKV (items.map fun kv => (kv.1, den g inp kv.2))).isSome = true
  | [], _, _ => by simp [allSomeKV]
  | (k, c) :: r, a :: as, hd => by
    have ih := dict_defined r hd.2
    simp only [List.map_cons, hd.1, allSomeKV]
    cases h : allSomeKV (r.map fun kv => (kv.1, den g inp kv.2)) with
    | none => simp [h] at ih
    | some x => simp
  | _ :: _, [], hd => by simp [KidsDen] at hd

theorem il_sound (hw : WFG g) (hc : CleanEnv env) (hrank : RankOK g inp) {i : Nat} {dt : DType}
    {e : SExpr} {binds : List (String × Nat)} {lits : List ScalarInfo}
    (hn : (g.get i).node = .indexLambda dt e binds lits)
    {pre : Bool} {kids : List Nat} {mk : List String → PyExpr}
    (hp : plan g i = .ok (.stmt pre kids mk)) (hs : suppNode g i = true)
    {names : List String} {as : List (Arr Val)} (hb : BoundTo env names as)
    (hd : KidsDen g inp kids as) :
    pyEval env (mk names) = denV g inp i := by
  rw [denV_arr (by rw [hn]; intro items h; cases h), den_step hw]
  simp only [plan, hn] at hp
  simp only [suppNode, hn, Bool.and_eq_true] at hs
  simp only [denoteStep, hn]
  cases hsh : staticShape (g.get i).shape with
  | none => simp [hsh] at hp
  | some shape =>
    simp only [hsh] at hp hs ⊢
    simp only [ilPlan] at hp
    obtain ⟨bs, hbs, hp⟩ := Gen.bind_ok.1 hp
    simp only [hbs] at hs ⊢
    cases hr : Raise.raise e shape bs with
    | none => simp [hr] at hp
    | some h =>
      simp only [hr] at hp hs ⊢
      exact hlo_sound hc _ dt shape binds lits h hp hs.2 hrank hb hd

/-- one emitted statement: its right-hand side, over the names of the children, evaluates to the
    node's value -/
theorem stmt_sound (hw : WFG g) (hc : CleanEnv env) (hrank : RankOK g inp) (hshape : ShapeOK g inp)
    {i : Nat}
    {pre : Bool} {kids : List Nat} {mk : List String → PyExpr}
    (hp : plan g i = .ok (.stmt pre kids mk)) (hs : suppNode g i = true)
    {names : List String} {as : List (Arr Val)} (hb : BoundTo env names as)
    (hd : KidsDen g inp kids as) :
    pyEval env (mk names) = denV g inp i := by
  cases hn : (g.get i).node with
  | indexLambda dt e binds lits => exact il_sound hw hc hrank hn hp hs hb hd
  | placeholder name => simp [plan, hn] at hp
  | dataWrapper name => simp [plan, hn] at hp
  | sizeParam name => simp [plan, hn] at hp
  | refused k => simp [plan, hn] at hp
  | other k => simp [plan, hn] at hp
  | «alias» c => simp [plan, hn] at hp
  | index c ix =>
    simp only [plan, hn] at hp
    cases hcs : staticShape (g.get c).shape with
    | none => simp [hcs] at hp
    | some cshape =>
      simp only [hcs] at hp
      simp only [suppNode, hn, hcs, Bool.and_eq_true] at hs
      split at hp
      · cases hp
      · rename_i hk
        simp only [Gen.ok.injEq, Plan.stmt.injEq] at hp
        obtain ⟨_, rfl, rfl⟩ := hp
        obtain ⟨hbasic, _⟩ := basicNorm_basic ix cshape hs.2
        obtain ⟨_, _, _, hk0, _⟩ := idx_eval env (ix.take (emittedIdxCount ix cshape)) cshape
          (all_take _ _ _ hbasic)
        rw [hk0, List.nil_append] at hd
        obtain ⟨a, n, rfl, rfl, hda, hna⟩ := kids1 hb hd
        have hsh := hshape c a cshape hda hcs
        subst hsh
        obtain ⟨gs, hg⟩ := basicNorm_toGs ix a.shape hs.2
        simp only [List.dropLast_singleton]
        show pyEval env (.subscript (.name n) _) = _
        rw [subscript_sound hna ix gs hs.2 hg,
          denV_arr (by rw [hn]; intro items h; cases h), den_step hw]
        simp [denoteStep, hn, hg, hda, hk]
  | einsum d cs' => simp [suppNode, hn] at hs
  | indexNC c ix => simp [suppNode, hn] at hs
  | roll c shift axis =>
    simp only [plan, hn, Gen.ok.injEq, Plan.stmt.injEq] at hp
    obtain ⟨_, rfl, rfl⟩ := hp
    simp only [suppNode, hn, Bool.and_eq_true, decide_eq_true_eq] at hs
    obtain ⟨v, h1, h2⟩ := roll_sound hw inp hn hs.2 hc hb hd
    rw [h1, h2]
  | perm c p =>
    simp only [plan, hn, Gen.ok.injEq, Plan.stmt.injEq] at hp
    obtain ⟨_, rfl, rfl⟩ := hp
    simp only [suppNode, hn, Bool.and_eq_true, beq_iff_eq] at hs
    obtain ⟨v, h1, h2⟩ := perm_sound hw inp hn hc hb hd (fun a ha => (hrank c a ha).trans hs.2)
    rw [h1, h2]
  | reshape c order =>
    simp only [plan, hn] at hp
    cases hsh : staticShape (g.get i).shape with
    | none => simp [hsh] at hp
    | some shape =>
      simp only [hsh, Gen.ok.injEq, Plan.stmt.injEq] at hp
      obtain ⟨_, rfl, rfl⟩ := hp
      simp only [suppNode, hn, Bool.and_eq_true] at hs
      obtain ⟨v, h1, h2⟩ := reshape_sound hw inp hn hsh hs.2.1 hc hb hd
      rw [h1, h2]
  | stack cs' axis =>
    simp only [plan, hn, Gen.ok.injEq, Plan.stmt.injEq] at hp
    obtain ⟨_, rfl, rfl⟩ := hp
    simp only [suppNode, hn, Bool.and_eq_true, decide_eq_true_eq] at hs
    obtain ⟨v, h1, h2⟩ := stack_sound hw inp hn hs.2 hc hb hd
    rw [h1, h2]
  | concat cs' axis =>
    simp only [plan, hn, Gen.ok.injEq, Plan.stmt.injEq] at hp
    obtain ⟨_, rfl, rfl⟩ := hp
    simp only [suppNode, hn, Bool.and_eq_true, decide_eq_true_eq] at hs
    obtain ⟨v, h1, h2⟩ := concat_sound hw inp hn hs.2 hc hb hd
    rw [h1, h2]
  | dict items =>
    simp only [plan, hn, Gen.ok.injEq, Plan.stmt.injEq] at hp
    obtain ⟨_, rfl, rfl⟩ := hp
    simp only [denV, hn, pyEval]
    rw [dict_eval _ hb hd]

/-- a statement of a node all of whose children have values has a value -/
theorem stmt_defined (hdef : Defined g inp) {i : Nat} {pre : Bool} {kids : List Nat}
    {mk : List String → PyExpr} (hp : plan g i = .ok (.stmt pre kids mk)) (hs : suppNode g i = true)
    {as : List (Arr Val)} (hd : KidsDen g inp kids as) : (denV g inp i).isSome = true := by
  cases hn : (g.get i).node with
  | dict items =>
    simp only [plan, hn, Gen.ok.injEq, Plan.stmt.injEq] at hp
    obtain ⟨_, rfl, _⟩ := hp
    simp only [denV, hn, Option.isSome_map]
    exact dict_defined _ hd
  | _ =>
    rw [denV_arr (by rw [hn]; intro items h; cases h), Option.isSome_map]
    exact hdef i hs (by simp [notDict, hn])

/-- a node without a statement denotes what its child denotes -/
theorem pass_sound (hw : WFG g) (hshape : ShapeOK g inp) {i c : Nat} (hp : plan g i = .ok (.pass c))
    (hs : suppNode g i = true) : denV g inp i = denV g inp c ∧ c ∈ kidsOf g i := by
  cases hn : (g.get i).node with
  | «alias» c' =>
    simp only [plan, hn, Gen.ok.injEq, Plan.pass.injEq] at hp
    subst hp
    simp only [suppNode, hn, kidsOf, List.all_cons, List.all_nil, Bool.and_true] at hs
    refine ⟨?_, by simp [kidsOf, hn]⟩
    rw [denV_arr (by rw [hn]; intro items h; cases h), den_step hw]
    simp only [denoteStep, hn]
    rw [denV_arr (by intro items h; simp [notDict, h] at hs)]
  | index c' ix =>
    simp only [plan, hn] at hp
    cases hcs : staticShape (g.get c').shape with
    | none => simp [hcs] at hp
    | some cshape =>
      simp only [hcs] at hp
      simp only [suppNode, hn, hcs, Bool.and_eq_true] at hs
      split at hp
      · rename_i hk
        simp only [Gen.ok.injEq, Plan.pass.injEq] at hp
        subst hp
        have hck : c' ∈ kidsOf g i := by simp [kidsOf, hn]
        refine ⟨?_, hck⟩
        have hnd : notDict g c' = true := by
          have := hs.1
          simp only [List.all_eq_true] at this
          exact this c' hck
        obtain ⟨gs, hg⟩ := basicNorm_toGs ix cshape hs.2
        rw [denV_arr (by rw [hn]; intro items h; cases h), den_step hw,
          denV_arr (by intro items h; simp [notDict, h] at hnd)]
        simp only [denoteStep, hn, hg]
        cases hda : den g inp c' with
        | none => rfl
        | some a =>
          have hsh := hshape c' a cshape hda hcs
          subst hsh
          simp [hk]
      · cases hp
  | indexNC c' ix => simp [suppNode, hn] at hs
  | indexLambda dt e binds lits =>
    simp only [plan, hn] at hp
    cases hsh : staticShape (g.get i).shape with
    | none => simp [hsh] at hp
    | some shape =>
      simp only [hsh, ilPlan] at hp
      obtain ⟨bs, _, hp⟩ := Gen.bind_ok.1 hp
      cases hr : Raise.raise e shape bs with
      | none => simp [hr] at hp
      | some h =>
        simp only [hr] at hp
        obtain ⟨pre, kids, mk, hpl⟩ := hloPlan_stmt hp
        cases hpl
  | reshape c' o =>
    simp only [plan, hn] at hp
    cases hsh : staticShape (g.get i).shape <;> simp [hsh] at hp
  | _ => simp [plan, hn] at hp

/-- an argument of the generated function denotes the input array -/
theorem input_sound (hw : WFG g) {i : Nat} {nm : Option String} (hp : plan g i = .ok (.input nm)) :
    denV g inp i = (inp i).map .arr ∧ notDict g i = true ∧
      ((g.get i).node = .placeholder (nm.getD "") ∧ nm.isSome ∨ (g.get i).node = .dataWrapper nm) := by
  cases hn : (g.get i).node with
  | placeholder name =>
    simp only [plan, hn, Gen.ok.injEq, Plan.input.injEq] at hp
    subst hp
    refine ⟨?_, by simp [notDict, hn], Or.inl ⟨rfl, rfl⟩⟩
    rw [denV_arr (by rw [hn]; intro items h; cases h), den_step hw]
    simp [denoteStep, hn]
  | dataWrapper name =>
    simp only [plan, hn, Gen.ok.injEq, Plan.input.injEq] at hp
    subst hp
    refine ⟨?_, by simp [notDict, hn], Or.inr rfl⟩
    rw [denV_arr (by rw [hn]; intro items h; cases h), den_step hw]
    simp [denoteStep, hn]
  | indexLambda dt e binds lits =>
    simp only [plan, hn] at hp
    cases hsh : staticShape (g.get i).shape with
    | none => simp [hsh] at hp
    | some shape =>
      simp only [hsh, ilPlan] at hp
      obtain ⟨bs, _, hp⟩ := Gen.bind_ok.1 hp
      cases hr : Raise.raise e shape bs with
      | none => simp [hr] at hp
      | some h =>
        simp only [hr] at hp
        obtain ⟨pre, kids, mk, hpl⟩ := hloPlan_stmt hp
        cases hpl
  | reshape c' o =>
    simp only [plan, hn] at hp
    cases hsh : staticShape (g.get i).shape <;> simp [hsh] at hp
  | index c ix =>
    simp only [plan, hn] at hp
    cases hsh : staticShape (g.get c).shape with
    | none => simp [hsh] at hp
    | some cshape =>
      simp only [hsh] at hp
      split at hp <;> cases hp
  | indexNC c ix =>
    simp only [plan, hn] at hp
    cases hsh : staticShape (g.get c).shape with
    | none => simp [hsh] at hp
    | some cshape =>
      simp only [hsh] at hp
      split at hp <;> cases hp
  | _ => simp [plan, hn] at hp

/-! ## the children a statement refers to are children of the node -/

omit g inp env in
theorem mem_insertBy {α : Type} (lt : α → α → Bool) (x y : α) : ∀ (l : List α),
    y ∈ insertBy lt x l ↔ y = x ∨ y ∈ l
  | [] => by simp [insertBy]
  | z :: r => by
    unfold insertBy
    split
    · simp
    · simp only [List.mem_cons, mem_insertBy lt x y r]
      constructor
      · rintro (h | h | h)
        · exact Or.inr (Or.inl h)
        · exact Or.inl h
        · exact Or.inr (Or.inr h)
      · rintro (h | h | h)
        · exact Or.inr (Or.inl h)
        · exact Or.inl h
        · exact Or.inr (Or.inr h)

omit g inp env in
theorem mem_sortBy {α : Type} (lt : α → α → Bool) (y : α) : ∀ (l : List α), y ∈ sortBy lt l ↔ y ∈ l
  | [] => by simp [sortBy]
  | x :: r => by simp [sortBy, mem_insertBy, mem_sortBy lt y r]

omit g inp env in
theorem slotKids_sub (binds : List (String × Nat)) (form : Nat → ScalarInfo → Gen ScalarForm)
    (lits : List ScalarInfo) : ∀ (ops : List Raise.Operand) (k : Nat) (sl : List Slot),
    slotsOf binds form lits k ops = .ok sl → ∀ c ∈ slotKids sl, c ∈ binds.map (·.2)
  | [], k, sl, hs => by
    simp only [slotsOf, Gen.ok.injEq] at hs
    subst hs
    simp [slotKids]
  | .arr n :: os, k, sl, hs => by
    simp only [slotsOf] at hs
    cases hf : binds.find? (·.1 == n) with
    | none => simp [hf] at hs
    | some mc =>
      simp only [hf] at hs
      obtain ⟨r, hr, hsl⟩ := Gen.bind_ok.1 hs
      simp only [Gen.ok.injEq] at hsl
      subst hsl
      intro c hc
      simp only [slotKids, List.mem_cons] at hc
      rcases hc with rfl | hc
      · exact List.mem_map.2 ⟨mc, List.mem_of_find?_eq_some hf, rfl⟩
      · exact slotKids_sub binds form lits os (k + 1) r hr c hc
  | .scalar c' :: os, k, sl, hs => by
    simp only [slotsOf] at hs
    cases hf : findLit lits c' with
    | none => simp [hf] at hs
    | some info =>
      simp only [hf] at hs
      obtain ⟨f, _, hs⟩ := Gen.bind_ok.1 hs
      obtain ⟨r, hr, hsl⟩ := Gen.bind_ok.1 hs
      simp only [Gen.ok.injEq] at hsl
      subst hsl
      intro c hc
      simp only [slotKids] at hc
      exact slotKids_sub binds form lits os (k + 1) r hr c hc

omit g inp env in
theorem hloPlan_kids {cs : Nat → List (Option Nat)} {dt : DType} {shape : Shape}
    {binds : List (String × Nat)} {lits : List ScalarInfo} {h : Raise.HLO} {pre : Bool}
    {kids : List Nat} {mk : List String → PyExpr}
    (hp : hloPlan cs dt shape binds lits h = .ok (.stmt pre kids mk)) :
    ∀ c ∈ kids, c ∈ binds.map (·.2) := by
  cases h with
  | full c =>
    simp only [hloPlan] at hp
    obtain ⟨_, _, hp⟩ := Gen.bind_ok.1 hp
    cases hp; simp
  | binary op x1 x2 =>
    simp only [hloPlan] at hp
    split at hp
    · obtain ⟨sl, hsl, hp⟩ := Gen.bind_ok.1 hp
      cases hp; exact slotKids_sub _ _ _ _ _ _ hsl
    · split at hp
      · obtain ⟨sl, hsl, hp⟩ := Gen.bind_ok.1 hp
        cases hp; exact slotKids_sub _ _ _ _ _ _ hsl
      · cases hp
  | call f args =>
    simp only [hloPlan] at hp
    obtain ⟨sl, hsl, hp⟩ := Gen.bind_ok.1 hp
    cases hp; exact slotKids_sub _ _ _ _ _ _ hsl
  | zerosLike x =>
    simp only [hloPlan] at hp
    cases hp; simp
  | where_ c t e =>
    simp only [hloPlan] at hp
    obtain ⟨sl, hsl, hp⟩ := Gen.bind_ok.1 hp
    cases hp; exact slotKids_sub _ _ _ _ _ _ hsl
  | broadcast x =>
    simp only [hloPlan] at hp
    obtain ⟨sl, hsl, hp⟩ := Gen.bind_ok.1 hp
    cases hp; exact slotKids_sub _ _ _ _ _ _ hsl
  | logicalNot x => simp [hloPlan] at hp
  | reduce op x axes =>
    simp only [hloPlan] at hp
    obtain ⟨c, hfc, hp⟩ := Gen.bind_ok.1 hp
    rw [Gen.ofOption_ok] at hfc
    cases hp
    obtain ⟨mc, hfind, hmc⟩ := Option.map_eq_some_iff.1 hfc
    intro c' hc'
    simp only [List.mem_singleton] at hc'
    subst hc'
    exact List.mem_map.2 ⟨mc, List.mem_of_find?_eq_some hfind, hmc⟩

omit inp env in
theorem stmt_kids {i : Nat} {pre : Bool} {kids : List Nat} {mk : List String → PyExpr}
    (hp : plan g i = .ok (.stmt pre kids mk)) (hs : suppNode g i = true) :
    ∀ c ∈ kids, c ∈ kidsOf g i := by
  cases hn : (g.get i).node with
  | indexLambda dt e binds lits =>
    simp only [plan, hn] at hp
    cases hsh : staticShape (g.get i).shape with
    | none => simp [hsh] at hp
    | some shape =>
      simp only [hsh, ilPlan] at hp
      obtain ⟨bs, _, hp⟩ := Gen.bind_ok.1 hp
      cases hr : Raise.raise e shape bs with
      | none => simp [hr] at hp
      | some h =>
        simp only [hr] at hp
        simpa [kidsOf, hn] using hloPlan_kids hp
  | placeholder name => simp [plan, hn] at hp
  | dataWrapper name => simp [plan, hn] at hp
  | sizeParam name => simp [plan, hn] at hp
  | refused k => simp [plan, hn] at hp
  | other k => simp [plan, hn] at hp
  | «alias» c => simp [plan, hn] at hp
  | index c ix =>
    simp only [plan, hn] at hp
    cases hcs : staticShape (g.get c).shape with
    | none => simp [hcs] at hp
    | some cshape =>
      simp only [hcs] at hp
      simp only [suppNode, hn, hcs, Bool.and_eq_true] at hs
      split at hp
      · cases hp
      · simp only [Gen.ok.injEq, Plan.stmt.injEq] at hp
        obtain ⟨_, rfl, _⟩ := hp
        obtain ⟨hbasic, _⟩ := basicNorm_basic ix cshape hs.2
        obtain ⟨_, _, _, hk0, _⟩ := idx_eval [] (ix.take (emittedIdxCount ix cshape)) cshape
          (all_take _ _ _ hbasic)
        rw [hk0]
        simp [kidsOf, hn]
  | indexNC c ix => simp [suppNode, hn] at hs
  | einsum d cs' => simp [suppNode, hn] at hs
  | roll c shift axis =>
    simp only [plan, hn, Gen.ok.injEq, Plan.stmt.injEq] at hp
    obtain ⟨_, rfl, _⟩ := hp
    simp [kidsOf, hn]
  | perm c p =>
    simp only [plan, hn, Gen.ok.injEq, Plan.stmt.injEq] at hp
    obtain ⟨_, rfl, _⟩ := hp
    simp [kidsOf, hn]
  | reshape c order =>
    simp only [plan, hn] at hp
    cases hsh : staticShape (g.get i).shape with
    | none => simp [hsh] at hp
    | some shape =>
      simp only [hsh, Gen.ok.injEq, Plan.stmt.injEq] at hp
      obtain ⟨_, rfl, _⟩ := hp
      simp [kidsOf, hn]
  | stack cs' axis =>
    simp only [plan, hn, Gen.ok.injEq, Plan.stmt.injEq] at hp
    obtain ⟨_, rfl, _⟩ := hp
    simp [kidsOf, hn]
  | concat cs' axis =>
    simp only [plan, hn, Gen.ok.injEq, Plan.stmt.injEq] at hp
    obtain ⟨_, rfl, _⟩ := hp
    simp [kidsOf, hn]
  | dict items =>
    simp only [plan, hn, Gen.ok.injEq, Plan.stmt.injEq] at hp
    obtain ⟨_, rfl, _⟩ := hp
    intro c hc
    obtain ⟨kv, hkv, rfl⟩ := List.mem_map.1 hc
    simp only [kidsOf, hn]
    exact List.mem_map.2 ⟨kv, (mem_sortBy _ _ _).1 hkv, rfl⟩

end

end Py
end Pt

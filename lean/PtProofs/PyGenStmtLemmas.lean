/-
  C14: one emitted statement is sound — for every supported node kind, the right-hand
  side built from the children's names evaluates to the node's value (core Lean only).
-/
import PtProofs.PyGenHloLemmas
namespace Pt
namespace Py

section
variable {g : PGraph} {inp : Nat → Option (Arr Val)} {env : PEnv}

theorem hlo_sound (hc : CleanEnv env) (cs : Nat → List (Option Nat)) (dt : DType) (shape : Shape)
    (binds : List (String × Nat)) (lits : List ScalarInfo) (h : Raise.HLO)
    {pre : Bool} {kids : List Nat} {mk : List String → PyExpr}
    (hp : hloPlan cs dt shape binds lits h = .ok (.stmt pre kids mk))
    (hs : suppHlo cs dt binds lits h = true)
    (hrank : ∀ c a, den g inp c = some a → a.shape.length = (cs c).length)
    {names : List String} {as : List (Arr Val)} (hb : BoundTo env names as)
    (hd : KidsDen g inp kids as) :
    pyEval env (mk names)
      = (npHlo h shape (kindOfTyname dt.tyname) (envOf (den g inp) binds)).map .arr := by
  cases h with
  | full c => exact full_sound hc cs dt shape binds lits c hp hs names
  | binary op x1 x2 => exact binary_sound hc cs dt shape binds lits op x1 x2 hp hs hb hd
  | call f args => exact call_sound hc cs dt shape binds lits f args hp hs hb hd
  | zerosLike x => exact zerosLike_sound hc cs dt shape binds lits x hp names
  | where_ c t e => exact where_sound hc cs dt shape binds lits c t e hp hs hb hd
  | broadcast x => exact broadcast_sound hc cs dt shape binds lits x hp hb hd
  | logicalNot x => simp [suppHlo] at hs
  | reduce op x axes => exact reduce_sound hc cs dt shape binds lits op x axes hp hs hrank hb hd

/-! ## the dictionary of outputs: values stay with their keys -/

theorem dict_eval : ∀ (items : List (String × Nat)) {names : List String} {as : List (Arr Val)},
    BoundTo env names as → KidsDen g inp (items.map (·.2)) as →
    pyEvalKws env ((items.map (·.1)).zip (names.map .name))
      = allSomeKV (items.map fun kv => (kv.1, den g inp kv.2))
  | [], [], [], _, _ => by simp [pyEvalKws, allSomeKV]
  | (k, c) :: r, n :: ns, a :: as, hb, hd => by
    have ih := dict_eval r hb.2 hd.2
    simp only [List.map_cons, List.zip_cons_cons, pyEvalKws, pyEval_name hb.1, ih, hd.1, allSomeKV]
    cases allSomeKV (r.map fun kv => (kv.1, den g inp kv.2)) <;> rfl
  | [], _ :: _, _, hb, hd => by
    cases ‹List (Arr Val)› <;> simp [BoundTo, KidsDen] at hb hd
  | [], [], _ :: _, hb, _ => by simp [BoundTo] at hb
  | _ :: _, [], as, hb, hd => by
    cases as <;> simp [BoundTo, KidsDen] at hb hd
  | _ :: _, _ :: _, [], hb, _ => by simp [BoundTo] at hb

end

end Py
end Pt

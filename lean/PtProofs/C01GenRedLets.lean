/-
  C01 generator model, reductions — the private scalars of a store (`lets`): the hoisted bounds of a
  result with axes are evaluated per iteration, in the order of their names.
-/
import PtProofs.C01GenRedInv
namespace Pt
namespace LG

theorem insertLet_perm (x : String × SExpr) : ∀ (l : List (String × SExpr)), (insertLet x l).Perm (x :: l)
  | [] => by simp [insertLet]
  | y :: r => by
    simp only [insertLet]
    split
    · exact List.Perm.refl _
    · exact ((insertLet_perm x r).cons y).trans (List.Perm.swap x y r)

theorem sortLets_perm : ∀ (l : List (String × SExpr)), (sortLets l).Perm l
  | [] => by simp [sortLets]
  | x :: r => by
    simp only [sortLets]
    exact (insertLet_perm x (sortLets r)).trans ((sortLets_perm r).cons x)

/-- constant private scalars: each is a 0-d array holding its constant; nothing else changes -/
theorem bindLets_int (Γ : List (String × Int)) : ∀ (lets : List (String × SExpr)) (σ : Store),
    (lets.map (·.1)).Nodup → (∀ l ∈ lets, ∃ n, l.2 = .int n) →
    (∀ t n, (t, SExpr.int n) ∈ lets → (bindLets Γ lets σ).get? t = some ⟨[], fun _ => .i n⟩) ∧
    (∀ x, x ∉ lets.map (·.1) → (bindLets Γ lets σ).get? x = σ.get? x)
  | [], σ, _, _ => ⟨by simp, fun _ _ => rfl⟩
  | (y, e) :: rest, σ, hnd, hint => by
    have hnd' : y ∉ rest.map (·.1) ∧ (rest.map (·.1)).Nodup := List.nodup_cons.1 hnd
    obtain ⟨m, hm⟩ := hint (y, e) (by simp)
    simp only at hm
    subst hm
    obtain ⟨ih1, ih2⟩ := bindLets_int Γ rest ((y, ⟨[], fun _ => eval { pt := [], ix := Γ, arr := σ } (.int m)⟩) :: σ)
      hnd'.2 (fun l hl => hint l (List.mem_cons_of_mem _ hl))
    simp only [bindLets]
    constructor
    · intro t n hmem
      rcases List.mem_cons.1 hmem with heq | hmem
      · simp only [Prod.mk.injEq, SExpr.int.injEq] at heq
        obtain ⟨rfl, rfl⟩ := heq
        rw [ih2 t hnd'.1, Store.get?_cons, if_pos rfl]
        simp [eval]
      · exact ih1 t n hmem
    · intro x hx
      simp only [List.map_cons, List.mem_cons, not_or] at hx
      rw [ih2 x hx.2, Store.get?_cons, if_neg (fun e => hx.1 e.symm)]

/-- the lets of a stored reduction -/
def letsOf (ls : List RL) : List (String × SExpr) :=
  ls.flatMap fun r => [(r.tl, .int r.l), (r.tu, .int r.h)]

theorem lets_emitStored (ls : List RL) (iv : List SExpr) :
    (ls.flatMap RL.hs).map (fun h => (h.temp, substIdx iv h.e)) = letsOf ls := by
  induction ls with
  | nil => rfl
  | cons r rest ih =>
    simp only [List.flatMap_cons, List.map_append, ih, letsOf]
    simp [RL.hs, substIdx]

theorem letsOf_names (ls : List RL) : (letsOf ls).map (·.1) = ls.flatMap RL.temps := by
  induction ls with
  | nil => rfl
  | cons r rest ih =>
    simp only [letsOf, List.flatMap_cons, List.map_append] at ih ⊢
    rw [ih]
    simp [RL.temps]

theorem letsOf_int (ls : List RL) : ∀ l ∈ letsOf ls, ∃ n, l.2 = .int n := by
  intro l hl
  obtain ⟨r, _, hr⟩ := List.mem_flatMap.1 hl
  simp only [List.mem_cons, List.mem_nil_iff, or_false] at hr
  rcases hr with rfl | rfl
  · exact ⟨_, rfl⟩
  · exact ⟨_, rfl⟩

/-- under the private scalars of a stored reduction the bound temporaries hold the bounds, and every
    other name is what it was -/
theorem tempsHold_lets (Γ : List (String × Int)) (σ : Store) (ls : List RL) (hnd : (ls.flatMap RL.temps).Nodup) :
    TempsHold (bindLets Γ (sortLets (letsOf ls)) σ) ls ∧
    ∀ x, x ∉ ls.flatMap RL.temps → (bindLets Γ (sortLets (letsOf ls)) σ).get? x = σ.get? x := by
  have hp := sortLets_perm (letsOf ls)
  have hnames : ((sortLets (letsOf ls)).map (·.1)).Perm (ls.flatMap RL.temps) := by
    rw [← letsOf_names]; exact hp.map _
  obtain ⟨h1, h2⟩ := bindLets_int Γ (sortLets (letsOf ls)) σ (hnames.nodup_iff.2 hnd)
    (fun l hl => letsOf_int ls l (hp.mem_iff.1 hl))
  refine ⟨fun r hr => ⟨?_, ?_⟩, fun x hx => h2 x (fun hm => hx (hnames.mem_iff.1 hm))⟩
  · exact ⟨_, h1 r.tl r.l (hp.mem_iff.2 (List.mem_flatMap.2 ⟨r, hr, by simp⟩)), rfl, rfl⟩
  · exact ⟨_, h1 r.tu r.h (hp.mem_iff.2 (List.mem_flatMap.2 ⟨r, hr, by simp⟩)), rfl, rfl⟩

end LG
end Pt

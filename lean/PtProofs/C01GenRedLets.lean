/-
  C01 generator model, reductions — the private scalars of a store (`lets`): the hoisted bounds of a
  result with axes are evaluated per iteration, in the order of their names.
-/
import PtProofs.C01GenRedInv
namespace Pt
namespace LG

theorem insertLet_perm (x : String × SExpr) : ∀ (l : List (String × SExpr)), (insertLet x l).Perm (x :: l)
  | [] => by simp [insertLet]
  | y :: r => by
    simp only [insertLet]
    split
    · exact List.Perm.refl _
    · exact ((insertLet_perm x r).cons y).trans (List.Perm.swap x y r)

theorem sortLets_perm : ∀ (l : List (String × SExpr)), (sortLets l).Perm l
  | [] => by simp [sortLets]
  | x :: r => by
    simp only [sortLets]
    exact (insertLet_perm x (sortLets r)).trans ((sortLets_perm r).cons x)

/-- private scalars whose expressions read none of them: each is a 0-d array holding the value of its
    expression in the store before; nothing else changes -/
theorem bindLets_vals (Γ : List (String × Int)) : ∀ (lets : List (String × SExpr)) (σ : Store),
    (lets.map (·.1)).Nodup → (∀ l ∈ lets, ∀ x ∈ readNames l.2, x ∉ lets.map (·.1)) →
    (∀ l ∈ lets, (bindLets Γ lets σ).get? l.1 = some ⟨[], fun _ => eval { pt := [], ix := Γ, arr := σ } l.2⟩) ∧
    (∀ x, x ∉ lets.map (·.1) → (bindLets Γ lets σ).get? x = σ.get? x)
  | [], σ, _, _ => ⟨by simp, fun _ _ => rfl⟩
  | (y, e) :: rest, σ, hnd, hrd => by
    have hnd' : y ∉ rest.map (·.1) ∧ (rest.map (·.1)).Nodup := List.nodup_cons.1 hnd
    obtain ⟨ih1, ih2⟩ := bindLets_vals Γ rest ((y, ⟨[], fun _ => eval { pt := [], ix := Γ, arr := σ } e⟩) :: σ)
      hnd'.2 (fun l hl x hx hm => hrd l (List.mem_cons_of_mem _ hl) x hx (List.mem_cons_of_mem _ hm))
    simp only [bindLets]
    constructor
    · intro l hl
      rcases List.mem_cons.1 hl with rfl | hl
      · rw [ih2 _ hnd'.1, Store.get?_cons, if_pos rfl]
      · rw [ih1 l hl]
        congr 2
        funext _
        apply eval_congr l.2
          { pt := [], ix := Γ, arr := (y, ⟨[], fun _ => eval { pt := [], ix := Γ, arr := σ } e⟩) :: σ }
          { pt := [], ix := Γ, arr := σ } rfl rfl
        intro x hx
        have hxy : x ≠ y := fun e0 => hrd l (List.mem_cons_of_mem _ hl) x hx (by rw [e0]; simp)
        show Store.get? ((y, _) :: σ) x = Store.get? σ x
        rw [Store.get?_cons, if_neg (fun e0 => hxy e0.symm)]
    · intro x hx
      simp only [List.map_cons, List.mem_cons, not_or] at hx
      rw [ih2 x hx.2, Store.get?_cons, if_neg (fun e => hx.1 e.symm)]

/-- the lets of a stored reduction -/
def letsOf (iv : List SExpr) (ls : List RL) : List (String × SExpr) :=
  ls.flatMap fun r => [(r.tl, substIdx iv r.lb), (r.tu, substIdx iv r.ub)]

theorem lets_emitStored (ls : List RL) (iv : List SExpr) :
    (ls.flatMap RL.hs).map (fun h => (h.temp, substIdx iv h.e)) = letsOf iv ls := by
  induction ls with
  | nil => rfl
  | cons r rest ih =>
    simp only [List.flatMap_cons, List.map_append, ih, letsOf]
    simp [RL.hs]

theorem letsOf_names (iv : List SExpr) (ls : List RL) : (letsOf iv ls).map (·.1) = ls.flatMap RL.temps := by
  induction ls with
  | nil => rfl
  | cons r rest ih =>
    simp only [letsOf, List.flatMap_cons, List.map_append] at ih ⊢
    rw [ih]
    simp [RL.temps]

theorem mem_letsOf {iv : List SExpr} {ls : List RL} {l : String × SExpr} (hl : l ∈ letsOf iv ls) :
    ∃ r ∈ ls, l = (r.tl, substIdx iv r.lb) ∨ l = (r.tu, substIdx iv r.ub) := by
  obtain ⟨r, hr, hin⟩ := List.mem_flatMap.1 hl
  simp only [List.mem_cons, List.mem_nil_iff, or_false] at hin
  exact ⟨r, hr, hin⟩

/-- under the private scalars of a stored reduction the bound temporaries hold the values of the
    generated bounds at the point, and every other name is what it was -/
theorem tempsHold_lets (Γ : List (String × Int)) (σ : Store) (iv : List SExpr) (ls : List RL)
    (hnd : (ls.flatMap RL.temps).Nodup)
    (hrd : ∀ r ∈ ls, (∀ x ∈ readNames (substIdx iv r.lb), x ∉ ls.flatMap RL.temps) ∧
      (∀ x ∈ readNames (substIdx iv r.ub), x ∉ ls.flatMap RL.temps)) :
    TempsHold (bindLets Γ (sortLets (letsOf iv ls)) σ)
      (fun r => eval { pt := [], ix := Γ, arr := σ } (substIdx iv r.lb))
      (fun r => eval { pt := [], ix := Γ, arr := σ } (substIdx iv r.ub)) ls ∧
    ∀ x, x ∉ ls.flatMap RL.temps → (bindLets Γ (sortLets (letsOf iv ls)) σ).get? x = σ.get? x := by
  have hp := sortLets_perm (letsOf iv ls)
  have hnames : ((sortLets (letsOf iv ls)).map (·.1)).Perm (ls.flatMap RL.temps) := by
    rw [← letsOf_names iv]; exact hp.map _
  obtain ⟨h1, h2⟩ := bindLets_vals Γ (sortLets (letsOf iv ls)) σ (hnames.nodup_iff.2 hnd) (by
    intro l hl x hx hm
    obtain ⟨r, hr, hc | hc⟩ := mem_letsOf (hp.mem_iff.1 hl)
    · rw [hc] at hx; exact (hrd r hr).1 x hx (hnames.mem_iff.1 hm)
    · rw [hc] at hx; exact (hrd r hr).2 x hx (hnames.mem_iff.1 hm))
  refine ⟨fun r hr => ⟨?_, ?_⟩, fun x hx => h2 x (fun hm => hx (hnames.mem_iff.1 hm))⟩
  · exact ⟨_, h1 (r.tl, substIdx iv r.lb) (hp.mem_iff.2 (List.mem_flatMap.2 ⟨r, hr, by simp⟩)), rfl, rfl⟩
  · exact ⟨_, h1 (r.tu, substIdx iv r.ub) (hp.mem_iff.2 (List.mem_flatMap.2 ⟨r, hr, by simp⟩)), rfl, rfl⟩

end LG
end Pt

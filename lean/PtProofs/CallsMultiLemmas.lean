/-
  Lemmas for the multi-result / tagged / traced call model `PtModel.CallsMulti`
  (property C12).  Core Lean + Std's `Nat.repr_injective` (via CallsLemmas).
  All inductions are over the nested structure of terms: any nesting depth of
  calls in bodies and bindings, any number of results / parameters.
-/
import PtModel.CallsMulti
import PtProofs.CallsLemmas
namespace Pt
namespace CallsM

open Calls (lookup posName kwName)

/-! ## association lists -/

theorem lookup_cons_eq {α : Type} (n : String) (v : α) (l : List (String × α)) :
    lookup ((n, v) :: l) n = some v := by
  simp [lookup]

theorem lookup_cons_ne {α : Type} {n p : String} (v : α) (l : List (String × α)) (h : n ≠ p) :
    lookup ((n, v) :: l) p = lookup l p := by
  simp only [lookup]
  rw [List.find?_cons_of_neg (by simpa using h)]

theorem lookup_cons {α : Type} (n p : String) (v : α) (l : List (String × α)) :
    lookup ((n, v) :: l) p = if n == p then some v else lookup l p := by
  by_cases h : n = p
  · subst h; simp [lookup_cons_eq]
  · simp [lookup_cons_ne v l h, h]

section
variable {V : Type} (interp : String → List V → V) (undef : V)

theorem lookup_denoteBinds (env : String → V) : ∀ (bs : Binds) (p : String),
    lookup (denoteBinds interp undef env bs) p = (lookup bs p).map (denote interp undef env)
  | [], _ => rfl
  | (n, t) :: bs, p => by
    simp only [denoteBinds, lookup_cons]
    split
    · rfl
    · exact lookup_denoteBinds env bs p

/-- the value of the entry named `k` -/
theorem denoteRet_eq (env : String → V) : ∀ (rets : Binds) (k : String),
    denoteRet interp undef env k rets
      = match lookup rets k with
        | some t => denote interp undef env t
        | none => undef
  | [], _ => rfl
  | (n, t) :: rs, k => by
    simp only [denoteRet, lookup_cons]
    split
    · rfl
    · exact denoteRet_eq env rs k

theorem denoteRet_getRet (env : String → V) (rets : Binds) (k : String) :
    denoteRet interp undef env k rets = denote interp undef env (getRet rets k) := by
  rw [denoteRet_eq, getRet]
  cases lookup rets k <;> simp [denote]

theorem denote_callSubst (env : String → V) (params : List String) (bs : Binds) (p : String) :
    denote interp undef env (callSubst params bs p)
      = callEnv undef params (denoteBinds interp undef env bs) p := by
  simp only [callSubst, callEnv]
  by_cases h : p ∈ params
  · simp only [h, if_true, lookup_denoteBinds]
    cases lookup bs p with
    | none => simp [denote]
    | some t => rfl
  · simp [h, denote]

/-! ## substitution lemma -/

mutual
theorem subst_denote (σ : String → Term) : ∀ (t : Term) (env : String → V),
    denote interp undef env (substPlaceholders σ t)
      = denote interp undef (fun p => denote interp undef env (σ p)) t
  | .placeholder n, env => by simp [substPlaceholders, denote]
  | .error, env => by simp [substPlaceholders, denote]
  | .op f args, env => by
    simp only [substPlaceholders, denote, subst_denoteList σ args env]
  | .result k tg ps rets bs, env => by
    simp only [substPlaceholders, denote, subst_denoteBinds σ bs env]
theorem subst_denoteList (σ : String → Term) : ∀ (ts : List Term) (env : String → V),
    denoteList interp undef env (substList σ ts)
      = denoteList interp undef (fun p => denote interp undef env (σ p)) ts
  | [], _ => rfl
  | t :: ts, env => by
    simp only [substList, denoteList, subst_denote σ t env, subst_denoteList σ ts env]
theorem subst_denoteBinds (σ : String → Term) : ∀ (bs : Binds) (env : String → V),
    denoteBinds interp undef env (substBinds σ bs)
      = denoteBinds interp undef (fun p => denote interp undef env (σ p)) bs
  | [], _ => rfl
  | (n, t) :: bs, env => by
    simp only [substBinds, denoteBinds, subst_denote σ t env, subst_denoteBinds σ bs env]
end

theorem subst_denoteRet (σ : String → Term) (env : String → V) : ∀ (rets : Binds) (k : String),
    denoteRet interp undef env k (substBinds σ rets)
      = denoteRet interp undef (fun p => denote interp undef env (σ p)) k rets
  | [], _ => rfl
  | (n, t) :: rs, k => by
    simp only [substBinds, denoteRet, subst_denote, subst_denoteRet σ env rs k]

/-! ## inlining preserves the value (any tagging, any nesting, any number of results) -/

mutual
theorem inline_denote : ∀ (t : Term) (env : String → V),
    denote interp undef env (inline t) = denote interp undef env t
  | .placeholder n, _ => rfl
  | .error, _ => rfl
  | .op f args, env => by simp only [inline, denote, inline_denoteList args env]
  | .result k true ps rets bs, env => by
    simp only [inline, denote]
    rw [subst_denote, inline_denoteRet rets k]
    congr 1
    funext p
    rw [denote_callSubst, inline_denoteBinds bs env]
  | .result k false ps rets bs, env => by
    simp only [inline, denote]
    rw [inline_denoteBinds bs env, inline_denoteRetB rets k]
theorem inline_denoteList : ∀ (ts : List Term) (env : String → V),
    denoteList interp undef env (inlineList ts) = denoteList interp undef env ts
  | [], _ => rfl
  | t :: ts, env => by
    simp only [inlineList, denoteList, inline_denote t env, inline_denoteList ts env]
theorem inline_denoteBinds : ∀ (bs : Binds) (env : String → V),
    denoteBinds interp undef env (inlineBinds bs) = denoteBinds interp undef env bs
  | [], _ => rfl
  | (n, t) :: bs, env => by
    simp only [inlineBinds, denoteBinds, inline_denote t env, inline_denoteBinds bs env]
theorem inline_denoteRet : ∀ (rets : Binds) (k : String) (env : String → V),
    denote interp undef env (inlineRet k rets) = denoteRet interp undef env k rets
  | [], _, _ => rfl
  | (n, t) :: rs, k, env => by
    simp only [inlineRet, denoteRet]
    split
    · exact inline_denote t env
    · exact inline_denoteRet rs k env
theorem inline_denoteRetB : ∀ (rets : Binds) (k : String) (env : String → V),
    denoteRet interp undef env k (inlineBinds rets) = denoteRet interp undef env k rets
  | [], _, _ => rfl
  | (n, t) :: rs, k, env => by
    simp only [inlineBinds, denoteRet, inline_denote t env, inline_denoteRetB rs k env]
end

/-! ## tags do not matter for the value -/

mutual
theorem setTags_denote (b : Bool) : ∀ (t : Term) (env : String → V),
    denote interp undef env (setTags b t) = denote interp undef env t
  | .placeholder n, _ => rfl
  | .error, _ => rfl
  | .op f args, env => by simp only [setTags, denote, setTags_denoteList b args env]
  | .result k tg ps rets bs, env => by
    simp only [setTags, denote]
    rw [setTags_denoteBinds b bs env, setTags_denoteRet b rets k]
theorem setTags_denoteList (b : Bool) : ∀ (ts : List Term) (env : String → V),
    denoteList interp undef env (setTagsList b ts) = denoteList interp undef env ts
  | [], _ => rfl
  | t :: ts, env => by
    simp only [setTagsList, denoteList, setTags_denote b t env, setTags_denoteList b ts env]
theorem setTags_denoteBinds (b : Bool) : ∀ (bs : Binds) (env : String → V),
    denoteBinds interp undef env (setTagsBinds b bs) = denoteBinds interp undef env bs
  | [], _ => rfl
  | (n, t) :: bs, env => by
    simp only [setTagsBinds, denoteBinds, setTags_denote b t env, setTags_denoteBinds b bs env]
theorem setTags_denoteRet (b : Bool) : ∀ (rets : Binds) (k : String) (env : String → V),
    denoteRet interp undef env k (setTagsBinds b rets) = denoteRet interp undef env k rets
  | [], _, _ => rfl
  | (n, t) :: rs, k, env => by
    simp only [setTagsBinds, denoteRet, setTags_denote b t env, setTags_denoteRet b rs k env]
end

/-! ## the value depends on the free placeholders of the current frame only -/

mutual
theorem denote_congr : ∀ (t : Term) (env env' : String → V),
    (∀ n ∈ freePh t, env n = env' n) → denote interp undef env t = denote interp undef env' t
  | .placeholder n, _, _, h => h n (by simp [freePh])
  | .error, _, _, _ => rfl
  | .op f args, env, env', h => by
    simp only [denote, denoteList_congr args env env' (by simpa [freePh] using h)]
  | .result k tg ps rets bs, env, env', h => by
    simp only [denote, denoteBinds_congr bs env env' (by simpa [freePh] using h)]
theorem denoteList_congr : ∀ (ts : List Term) (env env' : String → V),
    (∀ n ∈ freePhList ts, env n = env' n) →
      denoteList interp undef env ts = denoteList interp undef env' ts
  | [], _, _, _ => rfl
  | t :: ts, env, env', h => by
    simp only [freePhList, List.mem_append] at h
    simp only [denoteList, denote_congr t env env' (fun n hn => h n (Or.inl hn)),
      denoteList_congr ts env env' (fun n hn => h n (Or.inr hn))]
theorem denoteBinds_congr : ∀ (bs : Binds) (env env' : String → V),
    (∀ n ∈ freePhBinds bs, env n = env' n) →
      denoteBinds interp undef env bs = denoteBinds interp undef env' bs
  | [], _, _, _ => rfl
  | (m, t) :: bs, env, env', h => by
    simp only [freePhBinds, List.mem_append] at h
    simp only [denoteBinds, denote_congr t env env' (fun n hn => h n (Or.inl hn)),
      denoteBinds_congr bs env env' (fun n hn => h n (Or.inr hn))]
end

end

/-! ## syntactic laws of substitution -/

theorem lookup_substBinds (σ : String → Term) : ∀ (bs : Binds) (p : String),
    lookup (substBinds σ bs) p = (lookup bs p).map (substPlaceholders σ)
  | [], _ => rfl
  | (n, t) :: bs, p => by
    simp only [substBinds, lookup_cons]
    split
    · rfl
    · exact lookup_substBinds σ bs p

theorem getRet_substBinds (σ : String → Term) (bs : Binds) (k : String) :
    getRet (substBinds σ bs) k = substPlaceholders σ (getRet bs k) := by
  simp only [getRet, lookup_substBinds]
  cases lookup bs k <;> simp [substPlaceholders]

mutual
theorem subst_congr (σ τ : String → Term) : ∀ (t : Term),
    (∀ n ∈ freePh t, σ n = τ n) → substPlaceholders σ t = substPlaceholders τ t
  | .placeholder n, h => h n (by simp [freePh])
  | .error, _ => rfl
  | .op f args, h => by
    simp only [substPlaceholders, substList_congr σ τ args (by simpa [freePh] using h)]
  | .result k tg ps rets bs, h => by
    simp only [substPlaceholders, substBinds_congr σ τ bs (by simpa [freePh] using h)]
theorem substList_congr (σ τ : String → Term) : ∀ (ts : List Term),
    (∀ n ∈ freePhList ts, σ n = τ n) → substList σ ts = substList τ ts
  | [], _ => rfl
  | t :: ts, h => by
    simp only [freePhList, List.mem_append] at h
    simp only [substList, subst_congr σ τ t (fun n hn => h n (Or.inl hn)),
      substList_congr σ τ ts (fun n hn => h n (Or.inr hn))]
theorem substBinds_congr (σ τ : String → Term) : ∀ (bs : Binds),
    (∀ n ∈ freePhBinds bs, σ n = τ n) → substBinds σ bs = substBinds τ bs
  | [], _ => rfl
  | (m, t) :: bs, h => by
    simp only [freePhBinds, List.mem_append] at h
    simp only [substBinds, subst_congr σ τ t (fun n hn => h n (Or.inl hn)),
      substBinds_congr σ τ bs (fun n hn => h n (Or.inr hn))]
end

mutual
/-- composition of substitutions -/
theorem subst_subst (σ τ : String → Term) : ∀ (t : Term),
    substPlaceholders τ (substPlaceholders σ t)
      = substPlaceholders (fun n => substPlaceholders τ (σ n)) t
  | .placeholder n => rfl
  | .error => rfl
  | .op f args => by simp only [substPlaceholders, substList_substList σ τ args]
  | .result k tg ps rets bs => by simp only [substPlaceholders, substBinds_substBinds σ τ bs]
theorem substList_substList (σ τ : String → Term) : ∀ (ts : List Term),
    substList τ (substList σ ts) = substList (fun n => substPlaceholders τ (σ n)) ts
  | [] => rfl
  | t :: ts => by simp only [substList, subst_subst σ τ t, substList_substList σ τ ts]
theorem substBinds_substBinds (σ τ : String → Term) : ∀ (bs : Binds),
    substBinds τ (substBinds σ bs) = substBinds (fun n => substPlaceholders τ (σ n)) bs
  | [] => rfl
  | (m, t) :: bs => by simp only [substBinds, subst_subst σ τ t, substBinds_substBinds σ τ bs]
end

/-! ## inlining commutes with substitution

`Inliner.map_call` computes `rec(substitutor(ret))`: it substitutes the ORIGINAL
bindings into the ORIGINAL return expression and inlines the result; the model's
`inline` inlines body and bindings first and substitutes then.  Both agree. -/

theorem lookup_inlineBinds : ∀ (bs : Binds) (p : String),
    lookup (inlineBinds bs) p = (lookup bs p).map inline
  | [], _ => rfl
  | (n, t) :: bs, p => by
    simp only [inlineBinds, lookup_cons]
    split
    · rfl
    · exact lookup_inlineBinds bs p

theorem inlineRet_eq : ∀ (rets : Binds) (k : String), inlineRet k rets = inline (getRet rets k)
  | [], _ => rfl
  | (n, t) :: rs, k => by
    simp only [inlineRet, getRet, lookup_cons]
    split
    · rfl
    · exact inlineRet_eq rs k

theorem callSubst_inlineBinds (ps : List String) (bs : Binds) (p : String) :
    callSubst ps (inlineBinds bs) p = inline (callSubst ps bs p) := by
  simp only [callSubst]
  split
  · rw [lookup_inlineBinds]; cases lookup bs p <;> rfl
  · rfl

theorem callSubst_substBinds (σ : String → Term) (ps : List String) (bs : Binds) (p : String) :
    callSubst ps (substBinds σ bs) p = substPlaceholders σ (callSubst ps bs p) := by
  simp only [callSubst]
  split
  · rw [lookup_substBinds]; cases lookup bs p <;> rfl
  · rfl

mutual
theorem inline_subst (σ : String → Term) : ∀ (t : Term),
    inline (substPlaceholders σ t) = substPlaceholders (fun n => inline (σ n)) (inline t)
  | .placeholder n => rfl
  | .error => rfl
  | .op f args => by simp only [substPlaceholders, inline, inlineList_subst σ args]
  | .result k true ps rets bs => by
    simp only [substPlaceholders, inline]
    rw [subst_subst, inlineBinds_subst σ bs]
    congr 1
    funext p
    rw [callSubst_substBinds]
  | .result k false ps rets bs => by
    simp only [substPlaceholders, inline, inlineBinds_subst σ bs]
theorem inlineList_subst (σ : String → Term) : ∀ (ts : List Term),
    inlineList (substList σ ts) = substList (fun n => inline (σ n)) (inlineList ts)
  | [] => rfl
  | t :: ts => by simp only [substList, inlineList, inline_subst σ t, inlineList_subst σ ts]
theorem inlineBinds_subst (σ : String → Term) : ∀ (bs : Binds),
    inlineBinds (substBinds σ bs) = substBinds (fun n => inline (σ n)) (inlineBinds bs)
  | [] => rfl
  | (m, t) :: bs => by simp only [substBinds, inlineBinds, inline_subst σ t, inlineBinds_subst σ bs]
end

/-- one step of the real `Inliner.map_call` (`rec(substitutor(ret))`) is the model's step -/
theorem inline_tagged_real_order (k : String) (ps : List String) (rets bs : Binds) :
    inline (substPlaceholders (callSubst ps bs) (getRet rets k))
      = inline (.result k true ps rets bs) := by
  rw [inline_subst]
  simp only [inline, inlineRet_eq]
  congr 1
  funext p
  rw [callSubst_inlineBinds]

/-! ## free placeholders -/

theorem freePh_lookup : ∀ (bs : Binds) (p n : String),
    n ∈ freePh ((lookup bs p).getD .error) → n ∈ freePhBinds bs
  | [], _, _, h => by simp [lookup, freePh] at h
  | (m, t) :: bs, p, n, h => by
    rw [lookup_cons] at h
    simp only [freePhBinds, List.mem_append]
    split at h
    · exact Or.inl h
    · exact Or.inr (freePh_lookup bs p n h)

mutual
theorem freePh_subst (σ : String → Term) : ∀ (t : Term) (n : String),
    n ∈ freePh (substPlaceholders σ t) → ∃ m ∈ freePh t, n ∈ freePh (σ m)
  | .placeholder m, n, h => ⟨m, by simp [freePh], h⟩
  | .error, _, h => by simp [substPlaceholders, freePh] at h
  | .op f args, n, h => by
    simp only [substPlaceholders, freePh] at h ⊢
    exact freePhList_subst σ args n h
  | .result k tg ps rets bs, n, h => by
    simp only [substPlaceholders, freePh] at h ⊢
    exact freePhBinds_subst σ bs n h
theorem freePhList_subst (σ : String → Term) : ∀ (ts : List Term) (n : String),
    n ∈ freePhList (substList σ ts) → ∃ m ∈ freePhList ts, n ∈ freePh (σ m)
  | [], _, h => by simp [substList, freePhList] at h
  | t :: ts, n, h => by
    simp only [substList, freePhList, List.mem_append] at h ⊢
    rcases h with h | h
    · obtain ⟨m, hm, hn⟩ := freePh_subst σ t n h
      exact ⟨m, Or.inl hm, hn⟩
    · obtain ⟨m, hm, hn⟩ := freePhList_subst σ ts n h
      exact ⟨m, Or.inr hm, hn⟩
theorem freePhBinds_subst (σ : String → Term) : ∀ (bs : Binds) (n : String),
    n ∈ freePhBinds (substBinds σ bs) → ∃ m ∈ freePhBinds bs, n ∈ freePh (σ m)
  | [], _, h => by simp [substBinds, freePhBinds] at h
  | (q, t) :: bs, n, h => by
    simp only [substBinds, freePhBinds, List.mem_append] at h ⊢
    rcases h with h | h
    · obtain ⟨m, hm, hn⟩ := freePh_subst σ t n h
      exact ⟨m, Or.inl hm, hn⟩
    · obtain ⟨m, hm, hn⟩ := freePhBinds_subst σ bs n h
      exact ⟨m, Or.inr hm, hn⟩
end

mutual
/-- inlining introduces no free placeholder -/
theorem freePh_inline : ∀ (t : Term) (n : String), n ∈ freePh (inline t) → n ∈ freePh t
  | .placeholder _, _, h => h
  | .error, _, h => h
  | .op f args, n, h => by
    simp only [inline, freePh] at h ⊢
    exact freePhList_inline args n h
  | .result k true ps rets bs, n, h => by
    simp only [inline, freePh] at h ⊢
    obtain ⟨m, _, hn⟩ := freePh_subst _ _ n h
    simp only [callSubst] at hn
    split at hn
    · exact freePhBinds_inline bs n (freePh_lookup _ m n hn)
    · simp [freePh] at hn
  | .result k false ps rets bs, n, h => by
    simp only [inline, freePh] at h ⊢
    exact freePhBinds_inline bs n h
theorem freePhList_inline : ∀ (ts : List Term) (n : String),
    n ∈ freePhList (inlineList ts) → n ∈ freePhList ts
  | [], _, h => h
  | t :: ts, n, h => by
    simp only [inlineList, freePhList, List.mem_append] at h ⊢
    rcases h with h | h
    · exact Or.inl (freePh_inline t n h)
    · exact Or.inr (freePhList_inline ts n h)
theorem freePhBinds_inline : ∀ (bs : Binds) (n : String),
    n ∈ freePhBinds (inlineBinds bs) → n ∈ freePhBinds bs
  | [], _, h => h
  | (q, t) :: bs, n, h => by
    simp only [inlineBinds, freePhBinds, List.mem_append] at h ⊢
    rcases h with h | h
    · exact Or.inl (freePh_inline t n h)
    · exact Or.inr (freePhBinds_inline bs n h)
end

/-! ## tags and call-freeness -/

theorem allCalls_lookup (p : Bool → Bool) : ∀ (bs : Binds), allCallsBinds p bs = true →
    ∀ q, allCalls p ((lookup bs q).getD .error) = true
  | [], _, _ => rfl
  | (n, t) :: bs, h, q => by
    simp only [allCallsBinds, Bool.and_eq_true] at h
    rw [lookup_cons]
    split
    · exact h.1
    · exact allCalls_lookup p bs h.2 q

theorem allCalls_callSubst (p : Bool → Bool) (ps : List String) (bs : Binds)
    (h : allCallsBinds p bs = true) (q : String) : allCalls p (callSubst ps bs q) = true := by
  simp only [callSubst]
  split
  · exact allCalls_lookup p bs h q
  · rfl

mutual
theorem allCalls_subst (p : Bool → Bool) (σ : String → Term) (hσ : ∀ n, allCalls p (σ n) = true) :
    ∀ (t : Term), allCalls p t = true → allCalls p (substPlaceholders σ t) = true
  | .placeholder n, _ => hσ n
  | .error, _ => rfl
  | .op f args, h => by
    simp only [allCalls] at h
    simp only [substPlaceholders, allCalls, allCallsList_subst p σ hσ args h]
  | .result k tg ps rets bs, h => by
    simp only [allCalls, Bool.and_eq_true] at h
    simp only [substPlaceholders, allCalls, h.1.1, h.1.2, allCallsBinds_subst p σ hσ bs h.2,
      Bool.and_self]
theorem allCallsList_subst (p : Bool → Bool) (σ : String → Term)
    (hσ : ∀ n, allCalls p (σ n) = true) :
    ∀ (ts : List Term), allCallsList p ts = true → allCallsList p (substList σ ts) = true
  | [], _ => rfl
  | t :: ts, h => by
    simp only [allCallsList, Bool.and_eq_true] at h
    simp only [substList, allCallsList, allCalls_subst p σ hσ t h.1,
      allCallsList_subst p σ hσ ts h.2, Bool.and_self]
theorem allCallsBinds_subst (p : Bool → Bool) (σ : String → Term)
    (hσ : ∀ n, allCalls p (σ n) = true) :
    ∀ (bs : Binds), allCallsBinds p bs = true → allCallsBinds p (substBinds σ bs) = true
  | [], _ => rfl
  | (n, t) :: bs, h => by
    simp only [allCallsBinds, Bool.and_eq_true] at h
    simp only [substBinds, allCallsBinds, allCalls_subst p σ hσ t h.1,
      allCallsBinds_subst p σ hσ bs h.2, Bool.and_self]
end

mutual
/-- after `inline`, no call that is left carries the inline tag — for ANY input tagging -/
theorem noTagged_inline : ∀ (t : Term), noTagged (inline t) = true
  | .placeholder _ => rfl
  | .error => rfl
  | .op f args => by simp only [inline, allCalls, noTaggedList_inline args]
  | .result k true ps rets bs => by
    simp only [inline]
    exact allCalls_subst _ _ (allCalls_callSubst _ ps _ (noTaggedBinds_inline bs)) _
      (noTaggedRet_inline rets k)
  | .result k false ps rets bs => by
    simp only [inline, allCalls, noTaggedBinds_inline rets, noTaggedBinds_inline bs,
      Bool.not_false, Bool.and_self]
theorem noTaggedList_inline : ∀ (ts : List Term), allCallsList not (inlineList ts) = true
  | [] => rfl
  | t :: ts => by
    simp only [inlineList, allCallsList, noTagged_inline t, noTaggedList_inline ts, Bool.and_self]
theorem noTaggedBinds_inline : ∀ (bs : Binds), allCallsBinds not (inlineBinds bs) = true
  | [] => rfl
  | (n, t) :: bs => by
    simp only [inlineBinds, allCallsBinds, noTagged_inline t, noTaggedBinds_inline bs,
      Bool.and_self]
theorem noTaggedRet_inline : ∀ (rets : Binds) (k : String), noTagged (inlineRet k rets) = true
  | [], _ => rfl
  | (n, t) :: rs, k => by
    simp only [inlineRet]
    split
    · exact noTagged_inline t
    · exact noTaggedRet_inline rs k
end

mutual
/-- without tagged calls `inline` is the identity -/
theorem inline_of_noTagged : ∀ (t : Term), noTagged t = true → inline t = t
  | .placeholder _, _ => rfl
  | .error, _ => rfl
  | .op f args, h => by
    simp only [allCalls] at h
    simp only [inline, inlineList_of_noTagged args h]
  | .result k true ps rets bs, h => by simp [allCalls] at h
  | .result k false ps rets bs, h => by
    simp only [allCalls, Bool.and_eq_true] at h
    simp only [inline, inlineBinds_of_noTagged rets h.1.2, inlineBinds_of_noTagged bs h.2]
theorem inlineList_of_noTagged : ∀ (ts : List Term), allCallsList not ts = true → inlineList ts = ts
  | [], _ => rfl
  | t :: ts, h => by
    simp only [allCallsList, Bool.and_eq_true] at h
    simp only [inlineList, inline_of_noTagged t h.1, inlineList_of_noTagged ts h.2]
theorem inlineBinds_of_noTagged : ∀ (bs : Binds), allCallsBinds not bs = true → inlineBinds bs = bs
  | [], _ => rfl
  | (n, t) :: bs, h => by
    simp only [allCallsBinds, Bool.and_eq_true] at h
    simp only [inlineBinds, inline_of_noTagged t h.1, inlineBinds_of_noTagged bs h.2]
end

/-! call-freeness -/

mutual
theorem callFree_subst (σ : String → Term) (hσ : ∀ p, callFree (σ p) = true) :
    ∀ (t : Term), callFree t = true → callFree (substPlaceholders σ t) = true
  | .placeholder n, _ => hσ n
  | .error, _ => rfl
  | .op f args, h => by
    simp only [callFree] at h
    simp only [substPlaceholders, callFree, callFreeList_subst σ hσ args h]
  | .result _ _ _ _ _, h => by simp [callFree] at h
theorem callFreeList_subst (σ : String → Term) (hσ : ∀ p, callFree (σ p) = true) :
    ∀ (ts : List Term), callFreeList ts = true → callFreeList (substList σ ts) = true
  | [], _ => rfl
  | t :: ts, h => by
    simp only [callFreeList, Bool.and_eq_true] at h
    simp only [substList, callFreeList, callFree_subst σ hσ t h.1,
      callFreeList_subst σ hσ ts h.2, Bool.and_self]
end

theorem callFree_lookup : ∀ (bs : Binds), (∀ b ∈ bs, callFree b.2 = true) →
    ∀ p, callFree ((lookup bs p).getD .error) = true
  | [], _, _ => rfl
  | (n, t) :: bs, h, p => by
    rw [lookup_cons]
    split
    · exact h (n, t) (by simp)
    · exact callFree_lookup bs (fun b hb => h b (by simp [hb])) p

mutual
/-- when every reachable call is tagged, nothing is left of them -/
theorem callFree_inline : ∀ (t : Term), allTagged t = true → callFree (inline t) = true
  | .placeholder _, _ => rfl
  | .error, _ => rfl
  | .op f args, h => by
    simp only [allCalls] at h
    simp only [inline, callFree, callFreeList_inline args h]
  | .result k true ps rets bs, h => by
    simp only [allCalls, Bool.and_eq_true] at h
    simp only [inline]
    apply callFree_subst _ _ _ (callFreeRet_inline rets k h.1.2)
    intro p
    simp only [callSubst]
    split
    · exact callFree_lookup _ (callFree_inlineBinds bs h.2) p
    · rfl
  | .result k false ps rets bs, h => by simp [allCalls] at h
theorem callFreeList_inline : ∀ (ts : List Term), allCallsList id ts = true →
    callFreeList (inlineList ts) = true
  | [], _ => rfl
  | t :: ts, h => by
    simp only [allCallsList, Bool.and_eq_true] at h
    simp only [inlineList, callFreeList, callFree_inline t h.1, callFreeList_inline ts h.2,
      Bool.and_self]
theorem callFree_inlineBinds : ∀ (bs : Binds), allCallsBinds id bs = true →
    ∀ b ∈ inlineBinds bs, callFree b.2 = true
  | [], _, b, hb => by simp [inlineBinds] at hb
  | (n, t) :: bs, h, b, hb => by
    simp only [allCallsBinds, Bool.and_eq_true] at h
    simp only [inlineBinds, List.mem_cons] at hb
    rcases hb with rfl | hb
    · exact callFree_inline t h.1
    · exact callFree_inlineBinds bs h.2 b hb
theorem callFreeRet_inline : ∀ (rets : Binds) (k : String), allCallsBinds id rets = true →
    callFree (inlineRet k rets) = true
  | [], _, _ => rfl
  | (n, t) :: rs, k, h => by
    simp only [allCallsBinds, Bool.and_eq_true] at h
    simp only [inlineRet]
    split
    · exact callFree_inline t h.1
    · exact callFreeRet_inline rs k h.2
end

mutual
theorem allCalls_of_callFree (p : Bool → Bool) : ∀ (t : Term), callFree t = true → allCalls p t = true
  | .placeholder _, _ => rfl
  | .error, _ => rfl
  | .op f args, h => by
    simp only [callFree] at h
    simp only [allCalls, allCallsList_of_callFree p args h]
  | .result _ _ _ _ _, h => by simp [callFree] at h
theorem allCallsList_of_callFree (p : Bool → Bool) : ∀ (ts : List Term), callFreeList ts = true →
    allCallsList p ts = true
  | [], _ => rfl
  | t :: ts, h => by
    simp only [callFreeList, Bool.and_eq_true] at h
    simp only [allCallsList, allCalls_of_callFree p t h.1, allCallsList_of_callFree p ts h.2,
      Bool.and_self]
end

mutual
theorem setTags_of_callFree (b : Bool) : ∀ (t : Term), callFree t = true → setTags b t = t
  | .placeholder _, _ => rfl
  | .error, _ => rfl
  | .op f args, h => by
    simp only [callFree] at h
    simp only [setTags, setTagsList_of_callFree b args h]
  | .result _ _ _ _ _, h => by simp [callFree] at h
theorem setTagsList_of_callFree (b : Bool) : ∀ (ts : List Term), callFreeList ts = true →
    setTagsList b ts = ts
  | [], _ => rfl
  | t :: ts, h => by
    simp only [callFreeList, Bool.and_eq_true] at h
    simp only [setTagsList, setTags_of_callFree b t h.1, setTagsList_of_callFree b ts h.2]
end

/-! `InlineMarker` reaches every call -/

mutual
theorem allCalls_setTags (p : Bool → Bool) (b : Bool) (hp : p b = true) :
    ∀ (t : Term), allCalls p (setTags b t) = true
  | .placeholder _ => rfl
  | .error => rfl
  | .op f args => by simp only [setTags, allCalls, allCallsList_setTags p b hp args]
  | .result k tg ps rets bs => by
    simp only [setTags, allCalls, hp, allCallsBinds_setTags p b hp rets,
      allCallsBinds_setTags p b hp bs, Bool.and_self]
theorem allCallsList_setTags (p : Bool → Bool) (b : Bool) (hp : p b = true) :
    ∀ (ts : List Term), allCallsList p (setTagsList b ts) = true
  | [] => rfl
  | t :: ts => by
    simp only [setTagsList, allCallsList, allCalls_setTags p b hp t,
      allCallsList_setTags p b hp ts, Bool.and_self]
theorem allCallsBinds_setTags (p : Bool → Bool) (b : Bool) (hp : p b = true) :
    ∀ (bs : Binds), allCallsBinds p (setTagsBinds b bs) = true
  | [] => rfl
  | (n, t) :: bs => by
    simp only [setTagsBinds, allCallsBinds, allCalls_setTags p b hp t,
      allCallsBinds_setTags p b hp bs, Bool.and_self]
end

mutual
theorem setTags_setTags (b c : Bool) : ∀ (t : Term), setTags b (setTags c t) = setTags b t
  | .placeholder _ => rfl
  | .error => rfl
  | .op f args => by simp only [setTags, setTagsList_setTagsList b c args]
  | .result k tg ps rets bs => by
    simp only [setTags, setTagsBinds_setTagsBinds b c rets, setTagsBinds_setTagsBinds b c bs]
theorem setTagsList_setTagsList (b c : Bool) : ∀ (ts : List Term),
    setTagsList b (setTagsList c ts) = setTagsList b ts
  | [] => rfl
  | t :: ts => by simp only [setTagsList, setTags_setTags b c t, setTagsList_setTagsList b c ts]
theorem setTagsBinds_setTagsBinds (b c : Bool) : ∀ (bs : Binds),
    setTagsBinds b (setTagsBinds c bs) = setTagsBinds b bs
  | [] => rfl
  | (n, t) :: bs => by
    simp only [setTagsBinds, setTags_setTags b c t, setTagsBinds_setTagsBinds b c bs]
end

mutual
theorem countCalls_setTags (b : Bool) : ∀ (t : Term), countCalls (setTags b t) = countCalls t
  | .placeholder _ => rfl
  | .error => rfl
  | .op f args => by simp only [setTags, countCalls, countCallsList_setTags b args]
  | .result k tg ps rets bs => by
    simp only [setTags, countCalls, countCallsBinds_setTags b rets, countCallsBinds_setTags b bs]
theorem countCallsList_setTags (b : Bool) : ∀ (ts : List Term),
    countCallsList (setTagsList b ts) = countCallsList ts
  | [] => rfl
  | t :: ts => by
    simp only [setTagsList, countCallsList, countCalls_setTags b t, countCallsList_setTags b ts]
theorem countCallsBinds_setTags (b : Bool) : ∀ (bs : Binds),
    countCallsBinds (setTagsBinds b bs) = countCallsBinds bs
  | [] => rfl
  | (n, t) :: bs => by
    simp only [setTagsBinds, countCallsBinds, countCalls_setTags b t, countCallsBinds_setTags b bs]
end

/-! ## tuple names -/

theorem tupleName_injective {i j : Nat} (h : tupleName i = tupleName j) : i = j := by
  unfold tupleName at h
  exact Nat.repr_injective ((String.append_right_inj "_").mp h)

theorem lookup_tupleReturnsFrom : ∀ (outs : List Term) (i j : Nat),
    lookup (tupleReturnsFrom i outs) (tupleName (i + j)) = outs[j]?
  | [], _, _ => rfl
  | t :: ts, i, 0 => by simp [tupleReturnsFrom, lookup_cons]
  | t :: ts, i, j + 1 => by
    have hne : tupleName i ≠ tupleName (i + (j + 1)) := fun h => by
      have := tupleName_injective h; omega
    rw [tupleReturnsFrom, lookup_cons_ne _ _ hne]
    have : i + (j + 1) = (i + 1) + j := by omega
    rw [this, lookup_tupleReturnsFrom ts (i + 1) j]
    simp

theorem tupleReturnsFrom_length : ∀ (outs : List Term) (i : Nat),
    (tupleReturnsFrom i outs).length = outs.length
  | [], _ => rfl
  | t :: ts, i => by simp [tupleReturnsFrom, tupleReturnsFrom_length ts (i + 1)]

theorem tupleReturnsFrom_keys : ∀ (outs : List Term) (i : Nat),
    (tupleReturnsFrom i outs).map (·.1) = (List.range' i outs.length).map tupleName
  | [], _ => rfl
  | t :: ts, i => by
    simp [tupleReturnsFrom, tupleReturnsFrom_keys ts (i + 1), List.range'_succ]

theorem nodup_map_inj {α β : Type} (f : α → β) (hf : ∀ a b, f a = f b → a = b) :
    ∀ (l : List α), l.Nodup → (l.map f).Nodup
  | [], _ => List.nodup_nil
  | a :: l, h => by
    simp only [List.nodup_cons, List.map_cons, List.mem_map, not_exists, not_and] at h ⊢
    exact ⟨fun b hb e => h.1 (hf b a e ▸ hb), nodup_map_inj f hf l h.2⟩

/-! ## renamings that are injective on the formals -/

theorem lookup_map_inj (ρ : String → String) (g : String → Term) :
    ∀ (formals : List String) (s : String), s ∈ formals →
      (∀ a ∈ formals, ∀ b ∈ formals, ρ a = ρ b → a = b) →
      lookup (formals.map fun a => (ρ a, g a)) (ρ s) = some (g s)
  | [], _, h, _ => by simp at h
  | a :: l, s, h, hinj => by
    simp only [List.map_cons, lookup_cons]
    by_cases e : ρ a = ρ s
    · have : a = s := hinj a (by simp) s h e
      subst this; simp
    · simp only [beq_iff_eq, e, if_false]
      have hs : s ∈ l := by
        rcases List.mem_cons.mp h with rfl | h
        · exact absurd rfl e
        · exact h
      exact lookup_map_inj ρ g l s hs
        (fun x hx y hy => hinj x (by simp [hx]) y (by simp [hy]))

/-! ## sharing: substitution maps the sub-terms, it does not copy them -/

theorem inlineList_eq_map : ∀ (ts : List Term), inlineList ts = ts.map inline
  | [] => rfl
  | t :: ts => by simp [inlineList, inlineList_eq_map ts]

theorem substList_eq_map (σ : String → Term) : ∀ (ts : List Term),
    substList σ ts = ts.map (substPlaceholders σ)
  | [] => rfl
  | t :: ts => by simp [substList, substList_eq_map σ ts]

theorem frameSub_lookup : ∀ (bs : Binds) (p : String) (s : Term),
    s ∈ frameSub ((lookup bs p).getD .error) → s = .error ∨ s ∈ frameSubBinds bs
  | [], _, s, h => by simp [lookup, frameSub] at h; exact Or.inl h
  | (m, t) :: bs, p, s, h => by
    rw [lookup_cons] at h
    simp only [frameSubBinds, List.mem_append]
    split at h
    · exact Or.inr (Or.inl h)
    · rcases frameSub_lookup bs p s h with h | h
      · exact Or.inl h
      · exact Or.inr (Or.inr h)

mutual
/-- every sub-term of `t[σ]` is the image of a sub-term of `t`, or a sub-term of a substituted term -/
theorem frameSub_subst (σ : String → Term) (l' : List Term) : ∀ (t : Term),
    (∀ n ∈ freePh t, ∀ s ∈ frameSub (σ n), s ∈ l') →
    ∀ s ∈ frameSub (substPlaceholders σ t), s ∈ (frameSub t).map (substPlaceholders σ) ∨ s ∈ l'
  | .placeholder n, h, s, hs => Or.inr (h n (by simp [freePh]) s hs)
  | .error, _, s, hs => by
    simp only [substPlaceholders, frameSub, List.mem_singleton] at hs
    subst hs; exact Or.inl (by simp [frameSub, substPlaceholders])
  | .op f args, h, s, hs => by
    simp only [substPlaceholders, frameSub, List.mem_cons] at hs
    rcases hs with rfl | hs
    · exact Or.inl (List.mem_map.mpr ⟨.op f args, by simp [frameSub], rfl⟩)
    · rcases frameSubList_subst σ l' args (by simpa [freePh] using h) s hs with h1 | h1
      · obtain ⟨u, hu, rfl⟩ := List.mem_map.mp h1
        exact Or.inl (List.mem_map.mpr ⟨u, by simp [frameSub, hu], rfl⟩)
      · exact Or.inr h1
  | .result k tg ps rets bs, h, s, hs => by
    simp only [substPlaceholders, frameSub, List.mem_cons] at hs
    rcases hs with rfl | hs
    · exact Or.inl (List.mem_map.mpr ⟨.result k tg ps rets bs, by simp [frameSub], rfl⟩)
    · rcases frameSubBinds_subst σ l' bs (by simpa [freePh] using h) s hs with h1 | h1
      · obtain ⟨u, hu, rfl⟩ := List.mem_map.mp h1
        exact Or.inl (List.mem_map.mpr ⟨u, by simp [frameSub, hu], rfl⟩)
      · exact Or.inr h1
theorem frameSubList_subst (σ : String → Term) (l' : List Term) : ∀ (ts : List Term),
    (∀ n ∈ freePhList ts, ∀ s ∈ frameSub (σ n), s ∈ l') →
    ∀ s ∈ frameSubList (substList σ ts),
      s ∈ (frameSubList ts).map (substPlaceholders σ) ∨ s ∈ l'
  | [], _, s, hs => by simp [substList, frameSubList] at hs
  | t :: ts, h, s, hs => by
    simp only [freePhList, List.mem_append] at h
    simp only [substList, frameSubList, List.mem_append, List.map_append] at hs ⊢
    rcases hs with hs | hs
    · rcases frameSub_subst σ l' t (fun n hn => h n (Or.inl hn)) s hs with h1 | h1
      · exact Or.inl (Or.inl h1)
      · exact Or.inr h1
    · rcases frameSubList_subst σ l' ts (fun n hn => h n (Or.inr hn)) s hs with h1 | h1
      · exact Or.inl (Or.inr h1)
      · exact Or.inr h1
theorem frameSubBinds_subst (σ : String → Term) (l' : List Term) : ∀ (bs : Binds),
    (∀ n ∈ freePhBinds bs, ∀ s ∈ frameSub (σ n), s ∈ l') →
    ∀ s ∈ frameSubBinds (substBinds σ bs),
      s ∈ (frameSubBinds bs).map (substPlaceholders σ) ∨ s ∈ l'
  | [], _, s, hs => by simp [substBinds, frameSubBinds] at hs
  | (q, t) :: bs, h, s, hs => by
    simp only [freePhBinds, List.mem_append] at h
    simp only [substBinds, frameSubBinds, List.mem_append, List.map_append] at hs ⊢
    rcases hs with hs | hs
    · rcases frameSub_subst σ l' t (fun n hn => h n (Or.inl hn)) s hs with h1 | h1
      · exact Or.inl (Or.inl h1)
      · exact Or.inr h1
    · rcases frameSubBinds_subst σ l' bs (fun n hn => h n (Or.inr hn)) s hs with h1 | h1
      · exact Or.inl (Or.inr h1)
      · exact Or.inr h1
end

/-- substituting the bindings of a call into several terms at once: the results fit into the
    nodes of the terms together + the nodes of the bindings together + 1 (`error`) -/
theorem subst_dag_size (ps : List String) (bs : Binds) (bodies : List Term) (n m : Nat)
    (hb : DagSizeLe bodies n) (hbs : DagSizeLeBinds bs m) :
    DagSizeLe (substList (callSubst ps bs) bodies) (n + m + 1) := by
  obtain ⟨lb, hlb, hcb⟩ := hb
  obtain ⟨lbs, hlbs, hcbs⟩ := hbs
  refine ⟨lb.map (substPlaceholders (callSubst ps bs)) ++ (.error :: lbs), ?_, ?_⟩
  · simp only [List.length_append, List.length_map, List.length_cons]; omega
  · intro s hs
    have hσ : ∀ n' ∈ freePhList bodies, ∀ s ∈ frameSub (callSubst ps bs n'), s ∈ Term.error :: lbs := by
      intro n' _ s hs
      simp only [callSubst] at hs
      split at hs
      · rcases frameSub_lookup bs n' s hs with h | h
        · simp [h]
        · exact List.mem_cons_of_mem _ (hcbs s h)
      · simp only [frameSub, List.mem_singleton] at hs; simp [hs]
    rcases frameSubList_subst _ _ bodies hσ s hs with h | h
    · obtain ⟨u, hu, rfl⟩ := List.mem_map.mp h
      exact List.mem_append_left _ (List.mem_map.mpr ⟨u, hcb u hu, rfl⟩)
    · exact List.mem_append_right _ h

end CallsM
end Pt

/-
  Helper lemmas for property C19: the broadcast subscript built by
  `get_indexing_expression` denotes NumPy broadcasting; operands recognised by
  `_as_array_or_scalar` denote what the subexpression evaluates to; every stage
  of the cascade of `index_lambda_to_high_level_op` is sound.
-/
import PtModel.Raise
import PtProofs.EvalLemmas
import PtProofs.StackConcatLemmas
namespace Pt
namespace Raise
open Lower Spec

/-! ### the broadcast subscript -/

/-- `s` broadcasts to `r` (the `assert`s of `get_indexing_expression`) -/
def Bcastable (s r : Shape) : Prop :=
  s.length ≤ r.length ∧
  ∀ k, k < s.length → s.getD k 0 = r.getD (r.length - s.length + k) 0 ∨ s.getD k 0 = 1

theorem bcastOK_iff (s r : Shape) : bcastOK s r = true ↔ Bcastable s r := by
  simp only [bcastOK, Bcastable, Bool.and_eq_true, decide_eq_true_eq, List.all_eq_true,
    List.mem_range, Bool.or_eq_true, beq_iff_eq]

theorem matchesIdx_eq {e g : SExpr} (h : matchesIdx e g = true) : g = e := by
  cases e <;> cases g <;> simp_all [matchesIdx]

theorem matchesAll_eq : ∀ {es gs : List SExpr}, matchesAll es gs = true → gs = es
  | [], [], _ => rfl
  | [], _ :: _, h => by simp [matchesAll] at h
  | _ :: _, [], h => by simp [matchesAll] at h
  | e :: es, g :: gs, h => by
    simp only [matchesAll, Bool.and_eq_true] at h
    rw [matchesIdx_eq h.1, matchesAll_eq h.2]

theorem isBcastSub_spec {s r : Shape} {ix : List SExpr} (h : isBcastSub s r ix = true) :
    Bcastable s r ∧ ix = bcastSubscript s r := by
  simp only [isBcastSub, Bool.and_eq_true] at h
  exact ⟨(bcastOK_iff s r).mp h.1, matchesAll_eq h.2⟩

theorem bcastIdx_length (s : Shape) (i : Idx) (h : s.length ≤ i.length) :
    (bcastIdx s i).length = s.length := by
  simp only [bcastIdx, List.length_map, List.length_zip, List.length_drop]
  omega

theorem bcastIdx_getD (s : Shape) (i : Idx) (h : s.length ≤ i.length) (k : Nat) (hk : k < s.length) :
    (bcastIdx s i).getD k 0
      = if s.getD k 0 = 1 then 0 else i.getD (i.length - s.length + k) 0 := by
  have hk2 : k < (i.drop (i.length - s.length)).length := by simp; omega
  simp only [bcastIdx, List.getD_eq_getElem?_getD, List.getElem?_map]
  rw [List.getElem?_eq_getElem (by simp; omega)]
  simp only [Option.map_some, Option.getD_some, List.getElem_zip, List.getElem_drop]
  rw [List.getElem?_eq_getElem hk, List.getElem?_eq_getElem (by omega)]
  simp

/-- `get_indexing_expression(s, r)` evaluated at an in-bounds index of `r` is
    the NumPy broadcast index into an array of shape `s`, and is in bounds -/
theorem bcastSubscript_eval (s r : Shape) (i : Idx) (b : List (String × Arr Val))
    (hb : Bcastable s r) (hi : inB r i = true) :
    (bcastSubscript s r).map (eval (idxEnv i b))
        = (bcastIdx s i).map (fun x => Val.i (x : Nat))
      ∧ inB s (bcastIdx s i) = true := by
  have hlen := inB_length hi
  have hsr := hb.1
  have hsl : s.length ≤ i.length := by omega
  have hvals : ∀ k, k < s.length →
      eval (idxEnv i b) (if s.getD k 0 ≠ r.getD (r.length - s.length + k) 0 then SExpr.int 0
        else ivar (r.length - s.length + k)) = Val.i (((bcastIdx s i).getD k 0 : Nat))
      ∧ (bcastIdx s i).getD k 0 < s.getD k 0 := by
    intro k hk
    have hlt := inB_getD_lt (r.length - s.length + k) hi (by omega)
    rw [bcastIdx_getD s i hsl k hk, hlen]
    rcases hb.2 k hk with h1 | h1
    · rw [if_neg (by simpa using h1)]
      simp only [ivar, eval_idx i b _ (by omega : r.length - s.length + k < i.length)]
      by_cases h2 : s.getD k 0 = 1
      · rw [if_pos h2]
        have : i.getD (r.length - s.length + k) 0 = 0 := by omega
        exact ⟨by rw [this], by omega⟩
      · rw [if_neg h2]; exact ⟨rfl, by omega⟩
    · by_cases h2 : s.getD k 0 = r.getD (r.length - s.length + k) 0
      · rw [if_neg (by simpa using h2), if_pos h1]
        simp only [ivar, eval_idx i b _ (by omega : r.length - s.length + k < i.length)]
        have : i.getD (r.length - s.length + k) 0 = 0 := by omega
        exact ⟨by rw [this], by omega⟩
      · rw [if_pos h2, if_pos h1]; exact ⟨by simp [eval], by omega⟩
  constructor
  · apply List.ext_getElem
    · simp [bcastSubscript, bcastIdx_length s i hsl]
    · intro k h1 h2
      have hk : k < s.length := by simpa [bcastSubscript] using h1
      simp only [bcastSubscript, List.getElem_map, List.getElem_range]
      rw [(hvals k hk).1]
      simp [List.getD_eq_getElem?_getD, List.getElem?_eq_getElem (by simpa using h2 : k < (bcastIdx s i).length)]
  · apply inB_of_forall (bcastIdx_length s i hsl)
    intro k hk
    exact (hvals k hk).2

/-! ### environments and their shapes -/

def shapesOf (env : List (String × Arr Val)) : List (String × Shape) :=
  env.map fun (n, a) => (n, a.shape)

theorem lookupShape_shapesOf (env : List (String × Arr Val)) (n : String) :
    lookupShape (shapesOf env) n = (lookupEnv env n).map (·.shape) := by
  induction env with
  | nil => rfl
  | cons p env ih =>
    obtain ⟨m, a⟩ := p
    simp only [lookupShape, lookupEnv, shapesOf, List.map_cons, List.find?_cons] at ih ⊢
    by_cases h : (m == n) = true
    · simp [h]
    · simp only [h]; exact ih

theorem lookupArr_eq_lookupEnv (i : Idx) (env : List (String × Arr Val)) (n : String) :
    (idxEnv i env).lookupArr n = lookupEnv env n := rfl

/-! ### operands -/

theorem isFill_cases {c : SExpr} (h : isFill c = true) : isLit c = true ∨ c = .nan := by
  cases c <;> simp_all [isFill, isLit]

theorem litVal_eq (i : Idx) (env : List (String × Arr Val)) (c : SExpr) (h : isLit c = true ∨ c = .nan) :
    litVal c = eval (idxEnv i env) c := by
  rcases h with h | h
  · cases c <;> simp_all [isLit, litVal, eval]
  · subst h; simp [litVal, eval]

/-- a recognised operand denotes the value of the subexpression -/
theorem asOperand_sound (shape : Shape) (env : List (String × Arr Val)) (i : Idx)
    (hi : inB shape i = true) (e : SExpr) (o : Operand)
    (h : asOperand shape (shapesOf env) e = some o) :
    o.value env shape i = eval (idxEnv i env) e := by
  cases e with
  | int n => simp only [asOperand, Option.some.injEq] at h; subst h; exact litVal_eq i env _ (Or.inl rfl)
  | bool b => simp only [asOperand, Option.some.injEq] at h; subst h; exact litVal_eq i env _ (Or.inl rfl)
  | rat p q => simp only [asOperand, Option.some.injEq] at h; subst h; exact litVal_eq i env _ (Or.inl rfl)
  | nan => simp only [asOperand, Option.some.injEq] at h; subst h; exact litVal_eq i env _ (Or.inr rfl)
  | var x =>
    simp only [asOperand, lookupShape_shapesOf] at h
    cases hl : lookupEnv env x with
    | none => simp [hl] at h
    | some a =>
      simp only [hl, Option.map_some] at h
      by_cases hs : a.shape = []
      · simp only [hs, if_true, Option.some.injEq] at h
        subst h
        simp only [Operand.value, hl, Spec.broadcastTo, eval, Env.lookupIx, idxEnv,
          List.find?_nil, Option.map_none]
        have : Env.lookupArr { pt := i, ix := [], arr := env } x = some a := hl
        simp [this, hs, Spec.bcastIdx]
      · simp [hs] at h
  | sub a ix =>
    simp only [asOperand, lookupShape_shapesOf] at h
    cases hl : lookupEnv env a with
    | none => simp [hl] at h
    | some arr =>
      simp only [hl, Option.map_some] at h
      by_cases hb : isBcastSub arr.shape shape ix = true
      · simp only [hb, if_true, Option.some.injEq] at h
        subst h
        obtain ⟨hbc, hix⟩ := isBcastSub_spec hb
        obtain ⟨hev, hin⟩ := bcastSubscript_eval arr.shape shape i env hbc hi
        subst hix
        rw [eval_sub_of _ _ _ _ hev, lookupArr_eq_lookupEnv, hl]
        simp only [Operand.value, hl, Spec.broadcastTo, hin, if_true]
      · simp [hb] at h
  | _ => simp [asOperand] at h

theorem asOperandList_sound (shape : Shape) (env : List (String × Arr Val)) (i : Idx)
    (hi : inB shape i = true) : ∀ (es : List SExpr) (os : List Operand),
      asOperandList shape (shapesOf env) es = some os →
      os.map (·.value env shape i) = es.map (eval (idxEnv i env))
  | [], os, h => by simp only [asOperandList, Option.some.injEq] at h; subst h; rfl
  | e :: es, os, h => by
    simp only [asOperandList] at h
    cases h1 : asOperand shape (shapesOf env) e with
    | none => simp [h1] at h
    | some o =>
      cases h2 : asOperandList shape (shapesOf env) es with
      | none => simp [h1, h2] at h
      | some os' =>
        simp only [h1, h2, Option.some.injEq] at h
        subst h
        simp only [List.map_cons, asOperand_sound shape env i hi e o h1,
          asOperandList_sound shape env i hi es os' h2]

theorem asOperands_sound (shape : Shape) (env : List (String × Arr Val)) (i : Idx)
    (hi : inB shape i = true) (es : List SExpr) (os : List Operand)
    (h : asOperands shape (shapesOf env) es = some os) :
    os.map (·.value env shape i) = es.map (eval (idxEnv i env)) := by
  simp only [asOperands] at h
  split at h
  · cases hl : asOperandList shape (shapesOf env) es with
    | none => simp [hl] at h
    | some os' =>
      simp only [hl] at h
      split at h
      · simp only [Option.some.injEq] at h
        subst h
        exact asOperandList_sound shape env i hi es os' hl
      · cases h
  · cases h

/-! ### the stages of the cascade -/

theorem binChildren_eval (env : Env) (inner : SExpr) (op : BinOp) (a c : SExpr)
    (h : binChildren inner = some (op, a, c)) :
    eval env inner = op.apply (eval env a) (eval env c) := by
  cases inner with
  | quot x y => simp only [binChildren, Option.some.injEq, Prod.mk.injEq] at h; obtain ⟨rfl, rfl, rfl⟩ := h; simp [eval, BinOp.apply]
  | fdiv x y => simp only [binChildren, Option.some.injEq, Prod.mk.injEq] at h; obtain ⟨rfl, rfl, rfl⟩ := h; simp [eval, BinOp.apply]
  | rem x y => simp only [binChildren, Option.some.injEq, Prod.mk.injEq] at h; obtain ⟨rfl, rfl, rfl⟩ := h; simp [eval, BinOp.apply]
  | pow x y => simp only [binChildren, Option.some.injEq, Prod.mk.injEq] at h; obtain ⟨rfl, rfl, rfl⟩ := h; simp [eval, BinOp.apply]
  | mul x y => simp only [binChildren, Option.some.injEq, Prod.mk.injEq] at h; obtain ⟨rfl, rfl, rfl⟩ := h; simp [eval, BinOp.apply]
  | land x y => simp only [binChildren, Option.some.injEq, Prod.mk.injEq] at h; obtain ⟨rfl, rfl, rfl⟩ := h; simp [eval, BinOp.apply]
  | lor x y => simp only [binChildren, Option.some.injEq, Prod.mk.injEq] at h; obtain ⟨rfl, rfl, rfl⟩ := h; simp [eval, BinOp.apply]
  | cmp o x y => simp only [binChildren, Option.some.injEq, Prod.mk.injEq] at h; obtain ⟨rfl, rfl, rfl⟩ := h; simp [eval, BinOp.apply]
  | add x y =>
    simp only [binChildren] at h
    split at h
    · rename_i m d
      by_cases hm : m = -1
      · rw [if_pos hm] at h
        simp only [Option.some.injEq, Prod.mk.injEq] at h
        obtain ⟨rfl, rfl, rfl⟩ := h
        subst hm
        simp [eval, BinOp.apply, valSub]
      · rw [if_neg hm] at h
        simp only [Option.some.injEq, Prod.mk.injEq] at h
        obtain ⟨rfl, rfl, rfl⟩ := h
        simp [eval, BinOp.apply]
    · simp only [Option.some.injEq, Prod.mk.injEq] at h
      obtain ⟨rfl, rfl, rfl⟩ := h
      simp [eval, BinOp.apply]
  | call f args =>
    simp only [binChildren] at h
    split at h
    · rename_i x y
      by_cases h1 : f = "bitand"
      · rw [if_pos h1] at h
        simp only [Option.some.injEq, Prod.mk.injEq] at h
        obtain ⟨rfl, rfl, rfl⟩ := h
        simp [eval, evalList, BinOp.apply, h1]
      · rw [if_neg h1] at h
        by_cases h2 : f = "bitor"
        · rw [if_pos h2] at h
          simp only [Option.some.injEq, Prod.mk.injEq] at h
          obtain ⟨rfl, rfl, rfl⟩ := h
          simp [eval, evalList, BinOp.apply, h2]
        · rw [if_neg h2] at h
          by_cases h3 : f = "bitxor"
          · rw [if_pos h3] at h
            simp only [Option.some.injEq, Prod.mk.injEq] at h
            obtain ⟨rfl, rfl, rfl⟩ := h
            simp [eval, evalList, BinOp.apply, h3]
          · rw [if_neg h3] at h; cases h
    · cases h
  | _ => simp [binChildren] at h

set_option linter.unusedSectionVars false

section
variable (shape : Shape) (env : List (String × Arr Val)) (i : Idx) (hi : inB shape i = true)
include hi

theorem tryBinary_sound (inner : SExpr) (h : HLO)
    (hr : tryBinary inner shape (shapesOf env) = some h) :
    (hloDenote h shape env).get i = eval (idxEnv i env) inner := by
  simp only [tryBinary] at hr
  cases hb : binChildren inner with
  | none => simp [hb] at hr
  | some p =>
    obtain ⟨op, a, c⟩ := p
    simp only [hb] at hr
    cases ho : asOperands shape (shapesOf env) [a, c] with
    | none => simp [ho] at hr
    | some os =>
      have hs := asOperands_sound shape env i hi [a, c] os ho
      simp only [ho] at hr
      match os, hr, hs with
      | [x1, x2], hr, hs =>
        simp only [Option.some.injEq] at hr
        subst hr
        simp only [List.map_cons, List.map_nil, List.cons.injEq, and_true] at hs
        simp only [hloDenote, hs.1, hs.2, binChildren_eval _ inner op a c hb]

theorem tryCall_sound (inner : SExpr) (h : HLO)
    (hr : tryCall inner shape (shapesOf env) = some h) :
    (hloDenote h shape env).get i = eval (idxEnv i env) inner := by
  cases inner with
  | call f args =>
    simp only [tryCall] at hr
    cases hf : c99Funcs.find? (fun g => c99Prefix ++ g == f) with
    | none => simp [hf] at hr
    | some g =>
      simp only [hf] at hr
      cases ho : asOperands shape (shapesOf env) args with
      | none => simp [ho] at hr
      | some os =>
        simp only [ho, Option.map_some, Option.some.injEq] at hr
        subst hr
        have hs := asOperands_sound shape env i hi args os ho
        have hg : c99Prefix ++ g = f := by
          have := List.find?_some hf
          simpa using this
        simp only [hloDenote, hs, eval, evalList_eq_map, hg]
  | _ => simp [tryCall] at hr

theorem tryZero_sound (inner : SExpr) (h : HLO)
    (hr : tryZero inner shape (shapesOf env) = some h) :
    (hloDenote h shape env).get i = eval (idxEnv i env) inner := by
  cases inner with
  | call f args =>
    simp only [tryZero] at hr
    by_cases hf : f = "pytato.zero"
    · rw [if_pos hf] at hr
      subst hf
      have : eval (idxEnv i env) (.call "pytato.zero" args) = .i 0 := by
        simp [eval, callExact]
      rw [this]
      split at hr
      · simp only [Option.some.injEq] at hr; subst hr; rfl
      · cases hr
    · rw [if_neg hf] at hr; cases hr
  | _ => simp [tryZero] at hr

theorem tryWhere_sound (inner : SExpr) (h : HLO)
    (hr : tryWhere inner shape (shapesOf env) = some h) :
    (hloDenote h shape env).get i = eval (idxEnv i env) inner := by
  cases inner with
  | ite c t e =>
    simp only [tryWhere] at hr
    cases ho : asOperands shape (shapesOf env) [c, t, e] with
    | none => simp [ho] at hr
    | some os =>
      have hs := asOperands_sound shape env i hi [c, t, e] os ho
      simp only [ho] at hr
      match os, hr, hs with
      | [oc, ot, oe], hr, hs =>
        simp only [Option.some.injEq] at hr
        subst hr
        simp only [List.map_cons, List.map_nil, List.cons.injEq, and_true] at hs
        simp only [hloDenote, hs.1, hs.2.1, hs.2.2, eval]
        cases (eval (idxEnv i env) c).truthy? with
        | none => rfl
        | some b => cases b <;> rfl
  | _ => simp [tryWhere] at hr

theorem tryNot_sound (inner : SExpr) (h : HLO)
    (hr : tryNot inner shape (shapesOf env) = some h) :
    (hloDenote h shape env).get i = eval (idxEnv i env) inner := by
  cases inner with
  | lnot a =>
    simp only [tryNot] at hr
    cases ho : asOperands shape (shapesOf env) [a] with
    | none => simp [ho] at hr
    | some os =>
      have hs := asOperands_sound shape env i hi [a] os ho
      simp only [ho] at hr
      match os, hr, hs with
      | [.arr x], hr, hs =>
        simp only [Option.some.injEq] at hr
        subst hr
        simp only [List.map_cons, List.map_nil, List.cons.injEq, and_true] at hs
        simp only [hloDenote, hs, eval]
  | _ => simp [tryNot] at hr

theorem tryBroadcast_sound (e : SExpr) (h : HLO)
    (hr : tryBroadcast e shape (shapesOf env) = some h) :
    (hloDenote h shape env).get i = eval (idxEnv i env) e := by
  cases e with
  | sub a ix =>
    have ho : asOperand shape (shapesOf env) (.sub a ix) = some (.arr a) := by
      simp only [tryBroadcast] at hr
      simp only [asOperand]
      cases hl : lookupShape (shapesOf env) a with
      | none => simp [hl] at hr
      | some s =>
        simp only [hl] at hr ⊢
        by_cases hb : isBcastSub s shape ix = true
        · simp [hb]
        · simp [hb] at hr
    have hh : h = .broadcast a := by
      simp only [tryBroadcast] at hr
      cases hl : lookupShape (shapesOf env) a with
      | none => simp [hl] at hr
      | some s =>
        simp only [hl] at hr
        by_cases hb : isBcastSub s shape ix = true
        · simp only [hb, if_true, Option.some.injEq] at hr; exact hr.symm
        · simp [hb] at hr
    subst hh
    have := asOperand_sound shape env i hi _ _ ho
    simp only [hloDenote, this]
  | var x =>
    have ho : asOperand shape (shapesOf env) (.var x) = some (.arr x) := by
      simp only [tryBroadcast] at hr
      simp only [asOperand]
      cases hl : lookupShape (shapesOf env) x with
      | none => simp [hl] at hr
      | some s =>
        simp only [hl] at hr ⊢
        by_cases hb : s = []
        · simp [hb]
        · simp [hb] at hr
    have hh : h = .broadcast x := by
      simp only [tryBroadcast] at hr
      cases hl : lookupShape (shapesOf env) x with
      | none => simp [hl] at hr
      | some s =>
        simp only [hl] at hr
        by_cases hb : s = []
        · simp only [hb, if_true, Option.some.injEq] at hr; exact hr.symm
        · simp [hb] at hr
    subst hh
    have := asOperand_sound shape env i hi _ _ ho
    simp only [hloDenote, this]
  | _ => simp [tryBroadcast] at hr

end

/-! ### casts -/

theorem dropCastsList_eq_map : ∀ (es : List SExpr), dropCastsList es = es.map dropCasts
  | [] => rfl
  | e :: es => by simp [dropCastsList, dropCastsList_eq_map es]

theorem dropCastsList_bcastSubscript (s r : Shape) :
    dropCastsList (bcastSubscript s r) = bcastSubscript s r := by
  rw [dropCastsList_eq_map]
  simp only [bcastSubscript, List.map_map]
  apply List.map_congr_left
  intro k _
  simp only [Function.comp]
  split_ifs <;> simp [dropCasts, ivar]

/-- an expression the broadcast stage accepts contains no casts -/
theorem tryBroadcast_noCasts (e : SExpr) (shape : Shape) (bs : List (String × Shape)) (h : HLO)
    (hr : tryBroadcast e shape bs = some h) : dropCasts e = e := by
  cases e with
  | sub a ix =>
    simp only [tryBroadcast] at hr
    cases hl : lookupShape bs a with
    | none => simp [hl] at hr
    | some s =>
      simp only [hl] at hr
      by_cases hb : isBcastSub s shape ix = true
      · obtain ⟨_, hix⟩ := isBcastSub_spec hb
        subst hix
        simp [dropCasts, dropCastsList_bcastSubscript]
      · simp [hb] at hr
  | var x => rfl
  | _ => simp [tryBroadcast] at hr

mutual
/-- does the expression contain a `TypeCast`? -/
def hasCast : SExpr → Bool
  | .cast _ _ => true
  | .sub _ ix => hasCastList ix
  | .add a c | .mul a c | .quot a c | .fdiv a c | .rem a c | .pow a c
  | .cmp _ a c | .land a c | .lor a c => hasCast a || hasCast c
  | .lnot a => hasCast a
  | .ite c t e => hasCast c || hasCast t || hasCast e
  | .reduce _ _ lo hi body => hasCast lo || hasCast hi || hasCast body
  | .call _ args => hasCastList args
  | .int _ | .bool _ | .rat _ _ | .nan | .idx _ | .var _ => false
def hasCastList : List SExpr → Bool
  | [] => false
  | e :: es => hasCast e || hasCastList es
end

mutual
/-- on cast-free expressions `TypeCastDropper` is the identity -/
theorem dropCasts_of_noCast : ∀ (e : SExpr), hasCast e = false → dropCasts e = e
  | .cast _ _, h => by simp [hasCast] at h
  | .sub a ix, h => by
    simp only [hasCast] at h; simp [dropCasts, dropCastsList_of_noCast ix h]
  | .add a c, h => by
    simp only [hasCast, Bool.or_eq_false_iff] at h
    simp [dropCasts, dropCasts_of_noCast a h.1, dropCasts_of_noCast c h.2]
  | .mul a c, h => by
    simp only [hasCast, Bool.or_eq_false_iff] at h
    simp [dropCasts, dropCasts_of_noCast a h.1, dropCasts_of_noCast c h.2]
  | .quot a c, h => by
    simp only [hasCast, Bool.or_eq_false_iff] at h
    simp [dropCasts, dropCasts_of_noCast a h.1, dropCasts_of_noCast c h.2]
  | .fdiv a c, h => by
    simp only [hasCast, Bool.or_eq_false_iff] at h
    simp [dropCasts, dropCasts_of_noCast a h.1, dropCasts_of_noCast c h.2]
  | .rem a c, h => by
    simp only [hasCast, Bool.or_eq_false_iff] at h
    simp [dropCasts, dropCasts_of_noCast a h.1, dropCasts_of_noCast c h.2]
  | .pow a c, h => by
    simp only [hasCast, Bool.or_eq_false_iff] at h
    simp [dropCasts, dropCasts_of_noCast a h.1, dropCasts_of_noCast c h.2]
  | .cmp _ a c, h => by
    simp only [hasCast, Bool.or_eq_false_iff] at h
    simp [dropCasts, dropCasts_of_noCast a h.1, dropCasts_of_noCast c h.2]
  | .land a c, h => by
    simp only [hasCast, Bool.or_eq_false_iff] at h
    simp [dropCasts, dropCasts_of_noCast a h.1, dropCasts_of_noCast c h.2]
  | .lor a c, h => by
    simp only [hasCast, Bool.or_eq_false_iff] at h
    simp [dropCasts, dropCasts_of_noCast a h.1, dropCasts_of_noCast c h.2]
  | .lnot a, h => by
    simp only [hasCast] at h; simp [dropCasts, dropCasts_of_noCast a h]
  | .ite c t e, h => by
    simp only [hasCast, Bool.or_eq_false_iff] at h
    simp [dropCasts, dropCasts_of_noCast c h.1.1, dropCasts_of_noCast t h.1.2,
      dropCasts_of_noCast e h.2]
  | .reduce _ _ lo hi body, h => by
    simp only [hasCast, Bool.or_eq_false_iff] at h
    simp [dropCasts, dropCasts_of_noCast lo h.1.1, dropCasts_of_noCast hi h.1.2,
      dropCasts_of_noCast body h.2]
  | .call _ args, h => by
    simp only [hasCast] at h; simp [dropCasts, dropCastsList_of_noCast args h]
  | .int _, _ => rfl
  | .bool _, _ => rfl
  | .rat _ _, _ => rfl
  | .nan, _ => rfl
  | .idx _, _ => rfl
  | .var _, _ => rfl
theorem dropCastsList_of_noCast : ∀ (es : List SExpr), hasCastList es = false →
    dropCastsList es = es
  | [], _ => rfl
  | e :: es, h => by
    simp only [hasCastList, Bool.or_eq_false_iff] at h
    simp [dropCastsList, dropCasts_of_noCast e h.1, dropCastsList_of_noCast es h.2]
end

end Raise
end Pt

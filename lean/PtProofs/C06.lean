/-
  Property C06 — algebraic einsum rewrites never change the computed value.

  * multilinearity of the einsum reference semantics (`Pt.einsum_add`, `einsum_sub`,
    `einsum_smul`, `einsum_muls`, `einsum_div_scalar`, in EinsumLemmas): any operand
    position, any descriptors (repeated axes, broadcast-unit axes), exact rationals;
  * `distribute_sound`: the model of `EinsumDistributiveLawMapper` preserves the
    value for EVERY policy and EVERY expression (nested einsums, any depth), for
    any decision function `canDist` that only accepts linear cases;
  * `can_dist_is_linear`: the truth table of the REAL `_can_hlo_be_distributed`
    (regenerated into `PtGen.distRows` on every run) only accepts linear cases;
  * `not_linear_scalar_over_array`: `c / x` is NOT such a case.
-/
import PtProofs.DistributeLemmas
import PtProofs.NoBroadcastLemmas
import PtGen.Distribute
namespace Pt

/-- the mapper preserves the value: same shape, same element at every index
    (`Arr` equality), for every policy, every opaque-operation interpretation,
    every environment in which the expression is well formed -/
theorem distribute_sound (canDist : DistCase → Bool) (hc : ∀ c, canDist c = true → Linear c)
    (policy : Policy) (env : String → Arr Rat) (opq : String → List (Arr Rat) → Arr Rat)
    (t t' : DExpr) (hwf : t.WF env opq) (h : distribute policy canDist t none = .ok t') :
    t'.denote env opq = t.denote env opq :=
  distribute_ctx_sound policy canDist hc env opq t none t' hwf trivial h

/-- the regenerated truth table of the real `_can_hlo_be_distributed`: every
    accepted case is linear -/
theorem can_dist_is_linear : ∀ r ∈ PtGen.distRows,
    r.2.2.2.2 = true → linearCase r.1 r.2.1 r.2.2.1 r.2.2.2.1 = true := by decide +kernel

/-- the decision function the table defines (cases not in the table: rejected) -/
def tableCanDist (c : DistCase) : Bool :=
  PtGen.distRows.any fun r =>
    r.1 == c.op && r.2.1 == c.x1Scalar && r.2.2.1 == c.x2Scalar && r.2.2.2.1 == c.shapesEqual
      && r.2.2.2.2

theorem tableCanDist_linear : ∀ c, tableCanDist c = true → Linear c := by
  intro c h
  simp only [tableCanDist, List.any_eq_true, Bool.and_eq_true, beq_iff_eq] at h
  obtain ⟨r, hr, ⟨⟨⟨⟨h1, h2⟩, h3⟩, h4⟩, h5⟩⟩ := h
  have := can_dist_is_linear r hr h5
  rw [h1, h2, h3, h4] at this
  exact this

/-- the rewrite with the REAL decision table preserves the value -/
theorem distribute_sound_table (policy : Policy) (env : String → Arr Rat)
    (opq : String → List (Arr Rat) → Arr Rat) (t t' : DExpr) (hwf : t.WF env opq)
    (h : distribute policy tableCanDist t none = .ok t') :
    t'.denote env opq = t.denote env opq :=
  distribute_sound tableCanDist tableCanDist_linear policy env opq t t' hwf h

/-! ## `rewrite_einsums_with_no_broadcasts` -/

/-- `EinsumWithNoBroadcastsRewriter.map_einsum` on one einsum: every operand axis
    whose length differs from the length of the einsum axis it is accessed with
    (a broadcast-unit axis) is removed from the operand by indexing with 0
    (`_squeeze_axes`) and from its access descriptor; the result is the same
    array (same shape, same value at every index).  Hypotheses = pytato's own
    `assert`s on an `Einsum`. -/
theorem noBroadcast_sound (descrs : List (List EAxis)) (nout : Nat) (args : List (Arr Rat))
    (hlen : descrs.length = args.length)
    (hwf : ∀ p ∈ descrs.zip args, p.1.length = p.2.shape.length) :
    Spec.einsum (Spec.noBroadcastEinsum descrs args).1 nout (Spec.noBroadcastEinsum descrs args).2
      = Spec.einsum descrs nout args :=
  Spec.noBroadcastEinsum_sound descrs nout args hlen hwf

/-! ## `c / x` must not be distributed -/

def nlA : Arr Rat := Arr.ofList [1, 2] [1, 1] 0
def nlX : Arr Rat := Arr.ofList [2] [1, 2] 0

/-- `einsum("ij,j->i", A, c / x) ≠ c / einsum("ij,j->i", A, x)` for
    `A = [[1, 1]]`, `x = [1, 2]`, `c = 1` (3/2 vs 1/3) -/
theorem not_linear_scalar_over_array : ∃ (A x : Arr Rat) (c : Rat),
    Spec.einsum [[.elem 0, .red 0], [.red 0]] 1 [A, Arr.sdivl c x]
      ≠ Arr.sdivl c (Spec.einsum [[.elem 0, .red 0], [.red 0]] 1 [A, x]) := by
  refine ⟨nlA, nlX, 1, fun h => ?_⟩
  have hne : (Spec.einsum [[.elem 0, .red 0], [.red 0]] 1 [nlA, Arr.sdivl 1 nlX]).get [0]
      ≠ (Arr.sdivl 1 (Spec.einsum [[.elem 0, .red 0], [.red 0]] 1 [nlA, nlX])).get [0] := by
    decide +kernel
  exact hne (congrArg (fun a => a.get [0]) h)

/-- and accepting it makes the rewrite wrong: with a `canDist` that accepts
    `TRUEDIV` with the scalar in the numerator, the model rewrites
    `einsum(A, 1 / x)` to `1 / einsum(A, x)`, which has a different value -/
example : ∃ (canDist : DistCase → Bool) (t t' : DExpr) (env : String → Arr Rat),
    distribute (fun _ => some 1) canDist t none = .ok t' ∧
    t'.denote env (fun _ _ => ⟨[], fun _ => 0⟩) ≠ t.denote env (fun _ _ => ⟨[], fun _ => 0⟩) := by
  refine ⟨fun c => c.op == "TRUEDIV",
    .einsum [[.elem 0, .red 0], [.red 0]] 1 [.leaf "A", .sdivl 1 (.leaf "x")],
    .sdivl 1 (.einsum [[.elem 0, .red 0], [.red 0]] 1 [.leaf "A", .leaf "x"]),
    fun n => if n = "A" then nlA else nlX, rfl, fun h => ?_⟩
  have hne : ((DExpr.sdivl 1 (.einsum [[.elem 0, .red 0], [.red 0]] 1 [.leaf "A", .leaf "x"])).denote
        (fun n => if n = "A" then nlA else nlX) (fun _ _ => ⟨[], fun _ => 0⟩)).get [0]
      ≠ ((DExpr.einsum [[.elem 0, .red 0], [.red 0]] 1 [.leaf "A", .sdivl 1 (.leaf "x")]).denote
        (fun n => if n = "A" then nlA else nlX) (fun _ _ => ⟨[], fun _ => 0⟩)).get [0] := by
    decide +kernel
  exact hne (congrArg (fun a => a.get [0]) h)

/-! ## non-vacuity -/

def c06A : Arr Rat := Arr.ofList [2, 3] [1, 2, 3, 4, 5, 6] 0
def c06X : Arr Rat := Arr.ofList [3] [1, 2, 3] 0
def c06Y : Arr Rat := Arr.ofList [3] [10, 20, 30] 0
def c06U : Arr Rat := Arr.ofList [1] [7] 0
def c06Env (n : String) : Arr Rat :=
  if n = "A" then c06A else if n = "x" then c06X else if n = "y" then c06Y else c06U
def c06Opq (_ : String) (_ : List (Arr Rat)) : Arr Rat := ⟨[], fun _ => 0⟩
def c06Can (c : DistCase) : Bool := linearCase c.op c.x1Scalar c.x2Scalar c.shapesEqual
/-- `einsum("ij,j->i", A, ((x + y) * 2 - x / 4))`, distributed over operand 1 -/
def c06T : DExpr :=
  .einsum [[.elem 0, .red 0], [.red 0]] 1
    [.leaf "A", .sub true (.muls (.add true (.leaf "x") (.leaf "y")) 2) (.divs (.leaf "x") 4)]

example : ∀ c, c06Can c = true → Linear c := fun _ h => h
example : c06T.WF c06Env c06Opq := by
  simp only [c06T, DExpr.WF, DExpr.WFList, DExpr.denote, Arr.muls, Arr.add, Arr.sdiv, c06Env]
  decide
example : (distribute (fun _ => some 1) c06Can c06T none).toOption.isSome = true := by decide
example : ((distribute (fun _ => some 1) c06Can c06T none).toOption.map
    fun t' => (t'.denote c06Env c06Opq).toList) = some [(609 : Rat) / 2, 696] := by decide +kernel
example : (c06T.denote c06Env c06Opq).toList = [(609 : Rat) / 2, 696] := by decide +kernel
/-- multilinearity with a broadcast-unit operand: `einsum("ij,j->i", A, u + u)`, `u` of shape (1,) -/
example : (Spec.einsum [[.elem 0, .red 0], [.red 0]] 1 [c06A, Arr.add c06U c06U]).toList
    = (Arr.add (Spec.einsum [[.elem 0, .red 0], [.red 0]] 1 [c06A, c06U])
        (Spec.einsum [[.elem 0, .red 0], [.red 0]] 1 [c06A, c06U])).toList := by decide +kernel
/-- no-broadcast rewrite of `einsum("ij,j,ij->i", A, u, w)` with `u : (1,)`, `w : (2,1)`:
    descriptors become `ij`, ``, `i`; the value is unchanged -/
def c06W : Arr Rat := Arr.ofList [2, 1] [3, 5] 0
example : ([[EAxis.elem 0, .red 0], [.red 0], [.elem 0, .red 0]] : List (List EAxis)).length
      = [c06A, c06U, c06W].length
    ∧ (∀ p ∈ ([[EAxis.elem 0, .red 0], [.red 0], [.elem 0, .red 0]] : List (List EAxis)).zip
        [c06A, c06U, c06W], p.1.length = p.2.shape.length) := by decide
example : (Spec.noBroadcastEinsum [[.elem 0, .red 0], [.red 0], [.elem 0, .red 0]]
      [c06A, c06U, c06W]).1 = [[.elem 0, .red 0], [], [.elem 0]]
    ∧ (Spec.noBroadcastEinsum [[.elem 0, .red 0], [.red 0], [.elem 0, .red 0]]
      [c06A, c06U, c06W]).2.map (·.shape) = [[2, 3], [], [2]] := by decide
example : (Spec.einsum [[.elem 0, .red 0], [.red 0], [.elem 0, .red 0]] 1
    [c06A, c06U, c06W]).toList = [126, 525] := by decide +kernel

/-- the error path: a `DoDistribute` einsum under a distribution context -/
example : distribute (fun _ => some 0) c06Can
    (.einsum [[.red 0], [.red 0]] 0 [.einsum [[.elem 0, .red 0], [.red 0]] 1 [.leaf "A", .leaf "x"],
      .leaf "x"]) none = .error "Cannot distribute composed einsums." := rfl

end Pt

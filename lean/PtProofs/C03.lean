/-
  Property C03 — shapes and dtypes are inferred eagerly and agree with NumPy.
  * shapes: pytato's broadcasting fold equals NumPy's rule for every list of
    operand shapes of any rank (unbounded);
  * slices: see PtProofs/SliceLemmas (`slice_len_eq_cpython`);
  * dtypes: a finite product — the table regenerated from the live pytato and
    the installed NumPy on every run is checked completely by the kernel.
-/
import PtModel.Shape
import PtGen.Dtypes
namespace Pt

theorem ptAxisLen_eq_np_aux : ∀ (rest : List Nat) (cur : Nat),
    ptAxisLen cur rest = npAxisLen (cur :: rest)
  | [], cur => by
    unfold ptAxisLen npAxisLen
    by_cases h : cur = 1 <;> simp [h]
  | n :: rest, cur => by
    unfold ptAxisLen
    by_cases h1 : n = cur ∨ n = 1
    · rw [if_pos h1, ptAxisLen_eq_np_aux rest cur]
      unfold npAxisLen
      rcases h1 with rfl | rfl
      · by_cases hc : n = 1
        · simp [hc]
        · simp [List.filter, hc]
      · by_cases hc : cur = 1 <;> simp [List.filter, hc]
    · rw [if_neg h1]
      have hn1 : n ≠ 1 := fun e => h1 (Or.inr e)
      have hnc : n ≠ cur := fun e => h1 (Or.inl e)
      by_cases hc : cur = 1
      · rw [if_pos hc, ptAxisLen_eq_np_aux rest n]
        unfold npAxisLen
        simp [List.filter, hc, hn1]
      · rw [if_neg hc]
        unfold npAxisLen
        simp [List.filter, hc, hn1]
        intro h; exact absurd h hnc

/-- for one axis, pytato's fold over the operands' lengths equals NumPy's rule -/
theorem ptAxisLen_eq_np (d : Nat) (ds : List Nat) : ptAxisLen d ds = npAxisLen (d :: ds) :=
  ptAxisLen_eq_np_aux ds d

theorem ptAxis_eq_np (ls : List Nat) : ptAxis ls = npAxisLen ls := by
  cases ls with
  | nil => simp [ptAxis, npAxisLen]
  | cons d ds => simp [ptAxis, ptAxisLen_eq_np]

/-- `get_shape_after_broadcasting` computes exactly NumPy's broadcast shape —
    and fails exactly when NumPy fails — for every list of shapes of any rank. -/
theorem broadcast_eq_numpy (shapes : List Shape) : ptBroadcast shapes = npBroadcast shapes := by
  unfold ptBroadcast npBroadcast
  simp only [ptAxis_eq_np]

/-- dtype inference: every (operator, operand kinds, dtypes) row where both pytato
    and NumPy accept gives the same dtype — except the deviation categories listed
    in the committed known_findings.json.  Re-checked by the kernel against
    today's pytato and today's NumPy on every run. -/
def dtypeRowOk (r : PtGen.DtypeRow) : Bool :=
  r.2.2.2.2.2.1 == r.2.2.2.2.2.2.1
  || r.2.2.2.2.2.1.startsWith "!"
  || r.2.2.2.2.2.2.1.startsWith "!"
  || PtGen.knownDtypeCategories.contains r.2.2.2.2.2.2.2

theorem dtype_chunks_agree : PtGen.dtypeChunks.all (fun c => c.all dtypeRowOk) = true := by
  decide +kernel

theorem dtype_rows_agree : ∀ r ∈ PtGen.dtypeRows, dtypeRowOk r = true := by
  intro r hr
  unfold PtGen.dtypeRows at hr
  obtain ⟨c, hc, hrc⟩ := List.mem_flatten.mp hr
  have h := dtype_chunks_agree
  rw [List.all_eq_true] at h
  have h2 := h c hc
  rw [List.all_eq_true] at h2
  exact h2 r hrc

/-! non-vacuity -/
example : ptBroadcast [[3, 1], [4], [2, 1, 4]] = some [2, 3, 4] := by decide
example : ptBroadcast [[3, 2], [4]] = none := by decide
example : npBroadcast [[0, 1], [1, 5]] = some [0, 5] := by decide

end Pt

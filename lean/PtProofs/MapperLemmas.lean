/-
  Lemmas about the memoised DFS of `PtModel.Mapper` (core Lean only).
  Property theorems are in `PtProofs.C13` / `PtProofs.C20`.
-/
import PtModel.Mapper
namespace Pt

/-! ## folds over the list of children -/

theorem foldl_inv {α : Type} (P : α → Prop) (step : α → Nat → α) :
    ∀ (cs : List Nat) (v0 : α), P v0 → (∀ v c, c ∈ cs → P v → P (step v c)) →
      P (cs.foldl step v0)
  | [], _, h0, _ => h0
  | a :: r, v0, h0, hs => by
    simp only [List.foldl_cons]
    exact foldl_inv P step r (step v0 a) (hs v0 a (by simp) h0)
      (fun v c hc hv => hs v c (by simp [hc]) hv)

theorem foldl_congr_mem {α : Type} (s1 s2 : α → Nat → α) :
    ∀ (cs : List Nat) (v0 : α), (∀ c, c ∈ cs → ∀ v, s1 v c = s2 v c) →
      cs.foldl s1 v0 = cs.foldl s2 v0
  | [], _, _ => rfl
  | a :: r, v0, h => by
    simp only [List.foldl_cons]
    rw [h a (by simp) v0]
    exact foldl_congr_mem s1 s2 r _ (fun c hc v => h c (by simp [hc]) v)

theorem foldl_map_comm {α γ : Type} (g : α → γ) (s1 : α → Nat → α) (s2 : γ → Nat → γ)
    (hc : ∀ m c, g (s1 m c) = s2 (g m) c) :
    ∀ (cs : List Nat) (m0 : α), g (cs.foldl s1 m0) = cs.foldl s2 (g m0)
  | [], _ => rfl
  | a :: r, m0 => by
    simp only [List.foldl_cons]
    rw [foldl_map_comm g s1 s2 hc r (s1 m0 a), hc]

theorem foldl_mem_all (step : List Nat → Nat → List Nat)
    (hmono : ∀ v c x, x ∈ v → x ∈ step v c) :
    ∀ (cs : List Nat) (v0 : List Nat), (∀ v c, c ∈ cs → c ∈ step v c) →
      ∀ c, c ∈ cs → c ∈ cs.foldl step v0
  | [], _, _, c, hc => by simp at hc
  | a :: r, v0, hself, c, hc => by
    simp only [List.foldl_cons]
    rcases List.mem_cons.1 hc with rfl | hc
    · exact foldl_inv (fun v => c ∈ v) step r _ (hself v0 c (by simp))
        (fun v d _ hv => hmono v d c hv)
    · exact foldl_mem_all step hmono r _ (fun v d hd => hself v d (by simp [hd])) c hc

/-! ## the set-only DFS -/

section DFS
variable {kids : Nat → List Nat}

theorem dfs_zero (i : Nat) (vis : List Nat) : dfs kids 0 i vis = vis := rfl

theorem dfs_succ (f i : Nat) (vis : List Nat) :
    dfs kids (f+1) i vis =
      if i ∈ vis then vis else i :: (kids i).foldl (fun v c => dfs kids f c v) vis := rfl

theorem dfs_mono : ∀ (f i : Nat) (vis : List Nat) (x : Nat), x ∈ vis → x ∈ dfs kids f i vis
  | 0, _, _, _, hx => hx
  | f+1, i, vis, x, hx => by
    rw [dfs_succ]
    split
    · exact hx
    · apply List.mem_cons_of_mem
      exact foldl_inv (fun v => x ∈ v) _ _ _ hx (fun v c _ hv => dfs_mono f c v x hv)

/-- what the loop over the children adds lies strictly below the parent -/
theorem dfs_new_le (hb : Below kids) :
    ∀ (f i : Nat) (vis : List Nat) (k : Nat), k ∈ dfs kids f i vis → k ∈ vis ∨ k ≤ i
  | 0, _, _, _, hk => Or.inl hk
  | f+1, i, vis, k, hk => by
    rw [dfs_succ] at hk
    split at hk
    · exact Or.inl hk
    · rcases List.mem_cons.1 hk with rfl | hk
      · exact Or.inr (Nat.le_refl _)
      · have := foldl_inv (fun v => ∀ k, k ∈ v → k ∈ vis ∨ k < i)
          (fun v c => dfs kids f c v) (kids i) vis (fun k hk => Or.inl hk)
          (fun v c hc hv k hk => by
            rcases dfs_new_le hb f c v k hk with h | h
            · exact hv k h
            · exact Or.inr (Nat.lt_of_le_of_lt h (hb i c hc)))
        rcases this k hk with h | h
        · exact Or.inl h
        · exact Or.inr (Nat.le_of_lt h)

theorem dfs_loop_new_lt (hb : Below kids) (f i : Nat) (vis : List Nat) (k : Nat)
    (hk : k ∈ (kids i).foldl (fun v c => dfs kids f c v) vis) : k ∈ vis ∨ k < i :=
  foldl_inv (fun v => ∀ k, k ∈ v → k ∈ vis ∨ k < i)
    (fun v c => dfs kids f c v) (kids i) vis (fun k hk => Or.inl hk)
    (fun v c hc hv k hk => by
      rcases dfs_new_le hb f c v k hk with h | h
      · exact hv k h
      · exact Or.inr (Nat.lt_of_le_of_lt h (hb i c hc))) k hk

/-- **no node is visited twice**, whatever the sharing -/
theorem dfs_nodup (hb : Below kids) :
    ∀ (f i : Nat) (vis : List Nat), vis.Nodup → (dfs kids f i vis).Nodup
  | 0, _, _, h => h
  | f+1, i, vis, h => by
    rw [dfs_succ]
    split
    · exact h
    · rename_i hi
      refine List.nodup_cons.2 ⟨?_, ?_⟩
      · intro hmem
        rcases dfs_loop_new_lt hb f i vis i hmem with h1 | h1
        · exact hi h1
        · exact Nat.lt_irrefl _ h1
      · exact foldl_inv (fun v => v.Nodup) _ _ _ h (fun v c _ hv => dfs_nodup hb f c v hv)

theorem dfs_mem_self (f i : Nat) (vis : List Nat) (hf : 0 < f) : i ∈ dfs kids f i vis := by
  cases f with
  | zero => exact absurd hf (Nat.lt_irrefl _)
  | succ f =>
    rw [dfs_succ]
    split
    · assumption
    · exact List.mem_cons_self

/-- after the loop every child is in the visited list -/
theorem dfs_loop_kids_mem (f i : Nat) (vis : List Nat) (hf : ∀ c, c ∈ kids i → 0 < f) :
    ∀ c, c ∈ kids i → c ∈ (kids i).foldl (fun v c => dfs kids f c v) vis :=
  foldl_mem_all (fun v c => dfs kids f c v) (fun v c x hx => dfs_mono f c v x hx) (kids i) vis
    (fun v c hc => dfs_mem_self f c v (hf c hc))

/-- newest-first list in which every node's children occur later (= were completed earlier) -/
def ClosedL (kids : Nat → List Nat) : List Nat → Prop
  | [] => True
  | k :: r => (∀ c, c ∈ kids k → c ∈ r) ∧ ClosedL kids r

theorem dfs_closed (hb : Below kids) :
    ∀ (f i : Nat) (vis : List Nat), i < f → ClosedL kids vis → ClosedL kids (dfs kids f i vis)
  | 0, _, _, hf, _ => absurd hf (Nat.not_lt_zero _)
  | f+1, i, vis, hf, h => by
    rw [dfs_succ]
    split
    · exact h
    · have hcf : ∀ c, c ∈ kids i → c < f := fun c hc =>
        Nat.lt_of_lt_of_le (hb i c hc) (Nat.le_of_lt_succ hf)
      refine ⟨?_, ?_⟩
      · exact dfs_loop_kids_mem f i vis (fun c hc => Nat.lt_of_le_of_lt (Nat.zero_le _) (hcf c hc))
      · exact foldl_inv (ClosedL kids) _ _ _ h
          (fun v c hc hv => dfs_closed hb f c v (hcf c hc) hv)

theorem closedL_kids : ∀ (l : List Nat), ClosedL kids l → ∀ p, p ∈ l → ∀ c, c ∈ kids p → c ∈ l
  | [], _, _, hp, _, _ => by simp at hp
  | k :: r, ⟨hk, hr⟩, p, hp, c, hc => by
    rcases List.mem_cons.1 hp with rfl | hp
    · exact List.mem_cons_of_mem _ (hk c hc)
    · exact List.mem_cons_of_mem _ (closedL_kids r hr p hp c hc)

theorem closedL_reach (l : List Nat) (hl : ClosedL kids l) {p j : Nat} (hr : Reach kids p j) :
    p ∈ l → j ∈ l := by
  induction hr with
  | refl i => exact id
  | step hc _ ih => exact fun hp => ih (closedL_kids l hl _ hp _ hc)

theorem dfs_reach_sound :
    ∀ (f i : Nat) (vis : List Nat) (k : Nat), k ∈ dfs kids f i vis → k ∈ vis ∨ Reach kids i k
  | 0, _, _, _, hk => Or.inl hk
  | f+1, i, vis, k, hk => by
    rw [dfs_succ] at hk
    split at hk
    · exact Or.inl hk
    · rcases List.mem_cons.1 hk with rfl | hk
      · exact Or.inr (Reach.refl _)
      · exact foldl_inv (fun v => ∀ k, k ∈ v → k ∈ vis ∨ Reach kids i k)
          (fun v c => dfs kids f c v) (kids i) vis (fun k hk => Or.inl hk)
          (fun v c hc hv k hk => by
            rcases dfs_reach_sound f c v k hk with h | h
            · exact hv k h
            · exact Or.inr (Reach.step hc h)) k hk

/-- **fuel is not a bound**: any two sufficient fuels give the same traversal -/
theorem dfs_fuel_irrel (hb : Below kids) :
    ∀ (f1 f2 i : Nat) (vis : List Nat), i < f1 → i < f2 → dfs kids f1 i vis = dfs kids f2 i vis
  | 0, _, _, _, h, _ => absurd h (Nat.not_lt_zero _)
  | _+1, 0, _, _, _, h => absurd h (Nat.not_lt_zero _)
  | f1+1, f2+1, i, vis, h1, h2 => by
    rw [dfs_succ, dfs_succ]
    split
    · rfl
    · congr 1
      apply foldl_congr_mem
      intro c hc v
      have hci := hb i c hc
      exact dfs_fuel_irrel hb f1 f2 c v
        (Nat.lt_of_lt_of_le hci (Nat.le_of_lt_succ h1))
        (Nat.lt_of_lt_of_le hci (Nat.le_of_lt_succ h2))

theorem reach_le (hb : Below kids) {i j : Nat} (h : Reach kids i j) : j ≤ i := by
  induction h with
  | refl i => exact Nat.le_refl _
  | step hc _ ih => exact Nat.le_trans ih (Nat.le_of_lt (hb _ _ hc))

/-! ### the traversal from an empty cache -/

theorem dfs_root_nodup (hb : Below kids) (i : Nat) : (dfs kids (i+1) i []).Nodup :=
  dfs_nodup hb _ _ _ List.nodup_nil

theorem dfs_root_closed (hb : Below kids) (i : Nat) : ClosedL kids (dfs kids (i+1) i []) :=
  dfs_closed hb _ _ _ (Nat.lt_succ_self _) trivial

theorem dfs_root_mem_iff (hb : Below kids) (i j : Nat) :
    j ∈ dfs kids (i+1) i [] ↔ Reach kids i j := by
  constructor
  · intro h
    rcases dfs_reach_sound _ _ _ _ h with h | h
    · simp at h
    · exact h
  · intro h
    exact closedL_reach _ (dfs_root_closed hb i) h (dfs_mem_self _ _ _ (Nat.succ_pos _))

/-- in the log (oldest first) every node comes after all nodes it depends on -/
theorem closedL_split : ∀ (l : List Nat), ClosedL kids l →
    ∀ (l1 l2 : List Nat) (p : Nat), l = l1 ++ p :: l2 → ∀ c, c ∈ kids p → c ∈ l2
  | [], _, l1, l2, p, h, _, _ => by cases l1 <;> simp at h
  | k :: r, ⟨hk, hr⟩, l1, l2, p, h, c, hc => by
    cases l1 with
    | nil =>
      simp only [List.nil_append, List.cons.injEq] at h
      obtain ⟨rfl, rfl⟩ := h
      exact hk c hc
    | cons a l1 =>
      simp only [List.cons_append, List.cons.injEq] at h
      exact closedL_split r hr l1 l2 p h.2 c hc

end DFS

/-! ## the value-carrying DFS -/

section Visit
variable {β : Type} {kids : Nat → List Nat} {comb : Nat → List β → β}

theorem visit_succ (f i : Nat) (memo : Memo β) :
    visit kids comb (f+1) i memo =
      if i ∈ memo.keys then memo
      else
        (i, (allSome ((kids i).map fun c =>
              ((kids i).foldl (fun m c => visit kids comb f c m) memo).val? c)).map (comb i))
          :: (kids i).foldl (fun m c => visit kids comb f c m) memo := rfl

/-- the keys of the value-carrying DFS are exactly the set-only DFS -/
theorem visit_keys : ∀ (f i : Nat) (memo : Memo β),
    (visit kids comb f i memo).keys = dfs kids f i memo.keys
  | 0, _, _ => rfl
  | f+1, i, memo => by
    rw [visit_succ, dfs_succ]
    split
    · rfl
    · show i :: Memo.keys ((kids i).foldl (fun m c => visit kids comb f c m) memo) = _
      congr 1
      exact foldl_map_comm (fun m : Memo β => m.keys) (fun m c => visit kids comb f c m)
        (fun v c => dfs kids f c v) (fun m c => visit_keys f c m) (kids i) memo

theorem visit_fuel_irrel (hb : Below kids) :
    ∀ (f1 f2 i : Nat) (memo : Memo β), i < f1 → i < f2 →
      visit kids comb f1 i memo = visit kids comb f2 i memo
  | 0, _, _, _, h, _ => absurd h (Nat.not_lt_zero _)
  | _+1, 0, _, _, _, h => absurd h (Nat.not_lt_zero _)
  | f1+1, f2+1, i, memo, h1, h2 => by
    have hfold : (kids i).foldl (fun m c => visit kids comb f1 c m) memo
        = (kids i).foldl (fun m c => visit kids comb f2 c m) memo := by
      apply foldl_congr_mem
      intro c hc v
      have hci := hb i c hc
      exact visit_fuel_irrel hb f1 f2 c v
        (Nat.lt_of_lt_of_le hci (Nat.le_of_lt_succ h1))
        (Nat.lt_of_lt_of_le hci (Nat.le_of_lt_succ h2))
    rw [visit_succ, visit_succ, hfold]

theorem allSome_isSome : ∀ (l : List (Option β)), (∀ o, o ∈ l → o.isSome = true) →
    (allSome l).isSome = true
  | [], _ => rfl
  | none :: _, h => by have := h none (by simp); simp at this
  | some v :: r, h => by
    have := allSome_isSome r (fun o ho => h o (by simp [ho]))
    simp only [allSome, Option.isSome_map, this]

theorem treeVal_succ (f i : Nat) :
    treeVal kids comb (f+1) i
      = (allSome ((kids i).map fun c => treeVal kids comb f c)).map (comb i) := rfl

theorem treeVal_fuel_irrel (hb : Below kids) :
    ∀ (f1 f2 i : Nat), i < f1 → i < f2 → treeVal kids comb f1 i = treeVal kids comb f2 i
  | 0, _, _, h, _ => absurd h (Nat.not_lt_zero _)
  | _+1, 0, _, _, h => absurd h (Nat.not_lt_zero _)
  | f1+1, f2+1, i, h1, h2 => by
    rw [treeVal_succ, treeVal_succ]
    congr 2
    apply List.map_congr_left
    intro c hc
    have hci := hb i c hc
    exact treeVal_fuel_irrel hb f1 f2 c
      (Nat.lt_of_lt_of_le hci (Nat.le_of_lt_succ h1))
      (Nat.lt_of_lt_of_le hci (Nat.le_of_lt_succ h2))

theorem treeVal_isSome (hb : Below kids) :
    ∀ (f i : Nat), i < f → (treeVal kids comb f i).isSome = true
  | 0, _, h => absurd h (Nat.not_lt_zero _)
  | f+1, i, h => by
    rw [treeVal_succ, Option.isSome_map]
    apply allSome_isSome
    intro o ho
    obtain ⟨c, hc, rfl⟩ := List.mem_map.1 ho
    exact treeVal_isSome hb f c (Nat.lt_of_lt_of_le (hb i c hc) (Nat.le_of_lt_succ h))

/-- every cached value is the tree-recursion value of its node -/
def Sound (kids : Nat → List Nat) (comb : Nat → List β → β) (memo : Memo β) : Prop :=
  ∀ k ov, (k, ov) ∈ memo → ov = treeVal kids comb (k+1) k

theorem val?_of_sound : ∀ (memo : Memo β), Sound kids comb memo → ∀ c, c ∈ memo.keys →
    memo.val? c = treeVal kids comb (c+1) c
  | [], _, c, hc => by simp [Memo.keys] at hc
  | (k, ov) :: r, hs, c, hc => by
    simp only [Memo.val?]
    split
    · rename_i hkc
      subst hkc
      exact hs k ov (by simp)
    · rename_i hkc
      have hc' : c ∈ Memo.keys r := by
        simp only [Memo.keys, List.map_cons, List.mem_cons] at hc
        rcases hc with h | h
        · exact absurd h.symm hkc
        · exact h
      exact val?_of_sound r (fun k' ov' h => hs k' ov' (by simp [h])) c hc'

theorem visit_sound (hb : Below kids) :
    ∀ (f i : Nat) (memo : Memo β), i < f → Sound kids comb memo →
      Sound kids comb (visit kids comb f i memo)
  | 0, _, _, h, _ => absurd h (Nat.not_lt_zero _)
  | f+1, i, memo, hf, hs => by
    rw [visit_succ]
    split
    · exact hs
    · have hcf : ∀ c, c ∈ kids i → c < f := fun c hc =>
        Nat.lt_of_lt_of_le (hb i c hc) (Nat.le_of_lt_succ hf)
      have hs' : Sound kids comb ((kids i).foldl (fun m c => visit kids comb f c m) memo) :=
        foldl_inv (Sound kids comb) _ _ _ hs
          (fun v c hc hv => visit_sound hb f c v (hcf c hc) hv)
      have hkeys : ((kids i).foldl (fun m c => visit kids comb f c m) memo).keys
          = (kids i).foldl (fun v c => dfs kids f c v) memo.keys :=
        foldl_map_comm (fun m : Memo β => m.keys) _ _ (fun m c => visit_keys f c m) (kids i) memo
      intro k ov hmem
      rcases List.mem_cons.1 hmem with heq | hmem
      · simp only [Prod.mk.injEq] at heq
        obtain ⟨hki, hov⟩ := heq
        subst hki
        subst hov
        rw [treeVal_succ]
        congr 2
        apply List.map_congr_left
        intro c hc
        have hcm : c ∈ ((kids k).foldl (fun m c => visit kids comb f c m) memo).keys := by
          rw [hkeys]
          exact dfs_loop_kids_mem f k memo.keys
            (fun c hc => Nat.lt_of_le_of_lt (Nat.zero_le _) (hcf c hc)) c hc
        rw [val?_of_sound _ hs' c hcm]
        exact treeVal_fuel_irrel hb _ _ c (Nat.lt_succ_self _) (hb k c hc)
      · exact hs' k ov hmem

theorem visit_root_val (hb : Below kids) (i : Nat) :
    (visit kids comb (i+1) i []).val? i = treeVal kids comb (i+1) i := by
  apply val?_of_sound
  · exact visit_sound hb _ _ _ (Nat.lt_succ_self _) (fun _ _ h => by simp at h)
  · rw [visit_keys]
    exact dfs_mem_self _ _ _ (Nat.succ_pos _)

end Visit

/-! ## heaps -/

theorem wfHeap_iff (h : Heap) : wfHeap h = true ↔ WFHeap h := by
  unfold wfHeap WFHeap
  simp only [List.all_eq_true, List.mem_range, decide_eq_true_eq]
  constructor
  · intro hw i e he
    by_cases hi : i < h.size
    · exact hw i hi e he
    · have : h.edges i = [] := by
        unfold Heap.edges Heap.node
        have : h[i]? = none := by simp [Nat.le_of_not_lt hi]
        simp [this]
      rw [this] at he
      simp at he
  · intro hw i _ e he
    exact hw i e he

theorem below_of_wf {h : Heap} (hw : WFHeap h) (sel : String → String → Bool) :
    Below (kidsFn sel h) := by
  intro i c hc
  unfold kidsFn at hc
  obtain ⟨e, he, rfl⟩ := List.mem_map.1 hc
  exact hw i e (List.mem_filter.1 he).1

end Pt

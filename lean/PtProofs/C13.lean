/-
  Property C13 — cached mappers visit each node once, preserve sharing and reach
  every child.  Property theorems only; lemmas are in MapperLemmas /
  AnalysisLemmas / TransformLemmas.

  Model: `PtModel.Mapper`.  All theorems hold for EVERY heap with children
  strictly below parents (`WFHeap`, what post-order numbering of objects
  yields — evaluated on the real data by the correspondence check), every root,
  every mapper (`sel`, `combine`) — no bound on size, depth or sharing.  The fuel
  argument of the recursion is not a bound: `fuel_irrelevant`.
-/
import PtModel.Mapper
import PtModel.Tables
import PtProofs.MapperLemmas
import PtProofs.AnalysisLemmas
import PtProofs.TransformLemmas
namespace Pt

variable {β : Type}

/-- The per-node method is invoked **at most once per distinct node**, however
    many paths lead to it (a ladder of depth d has 2^d paths). -/
theorem visits_once (m : MapperSpec β) (h : Heap) (root : Nat) (hw : WFHeap h) :
    (runCached m h root).log.Nodup := by
  have hb := below_of_wf hw m.sel
  show (Memo.keys _).reverse.Nodup
  rw [visit_keys]
  exact nodup_reverse' (dfs_root_nodup hb root)

/-- … and **exactly** the nodes reachable through the edges the mapper follows are visited. -/
theorem reaches_all (m : MapperSpec β) (h : Heap) (root j : Nat) (hw : WFHeap h) :
    j ∈ (runCached m h root).log ↔ Reach (kidsFn m.sel h) root j := by
  have hb := below_of_wf hw m.sel
  show j ∈ (Memo.keys _).reverse ↔ _
  rw [List.mem_reverse, visit_keys]
  exact dfs_root_mem_iff hb root j

/-- A mapper whose table row is complete (follows every edge) reaches every node
    the graph contains below the root. -/
theorem reach_complete (m : MapperSpec β) (h : Heap) (root j : Nat) (hw : WFHeap h)
    (hall : ∀ k l, m.sel k l = true) :
    j ∈ (runCached m h root).log ↔ Reach (fun i => (h.edges i).map (·.2)) root j := by
  rw [reaches_all m h root j hw]
  have : kidsFn m.sel h = fun i => (h.edges i).map (·.2) := by
    funext i
    unfold kidsFn
    rw [List.filter_eq_self.2 (fun e _ => hall _ _)]
  rw [this]

/-- The memoised result is the result of the uncached tree recursion, and it exists. -/
theorem cached_eq_tree (m : MapperSpec β) (h : Heap) (root : Nat) (hw : WFHeap h) :
    (runCached m h root).val = runTree m h root ∧ (runTree m h root).isSome = true := by
  have hb := below_of_wf hw m.sel
  exact ⟨visit_root_val hb root, treeVal_isSome hb _ _ (Nat.lt_succ_self _)⟩

/-- The log is in dependency order: a node's method completes after the methods of
    all nodes it depends on (an earlier entry never depends on a later one). -/
theorem log_topological (m : MapperSpec β) (h : Heap) (root : Nat) (hw : WFHeap h) :
    (runCached m h root).log.Pairwise (fun a b => ¬ Reach (kidsFn m.sel h) a b) := by
  have hb := below_of_wf hw m.sel
  show (Memo.keys _).reverse.Pairwise _
  rw [visit_keys, List.pairwise_reverse]
  exact closedL_pairwise _ (dfs_root_closed hb root) (dfs_root_nodup hb root)

/-- The fuel of the definition is not a bound: every fuel above the root's number
    gives the same traversal and the same values. -/
theorem fuel_irrelevant (m : MapperSpec β) (h : Heap) (root f : Nat) (hw : WFHeap h)
    (hf : root < f) :
    visit (kidsFn m.sel h) (fun i vs => m.combine (h.node i) vs) f root []
      = (runCached m h root).memo :=
  visit_fuel_irrel (below_of_wf hw m.sel) _ _ _ _ hf (Nat.lt_succ_self _)

/-! ## transformations -/

/-- **Sharing is kept**: a transformation produces exactly one result per distinct
    visited node (so every use of a shared node sees the same result object), never
    creates more nodes than it was given, and leaves its input untouched. -/
theorem sharing_kept (sel : String → String → Bool) (relabel : NodeData → NodeData)
    (h : Heap) (root : Nat) (hw : WFHeap h) :
    let s := runTransform sel relabel h root
    s.map.map (·.1) = (visitLog sel h root).reverse
      ∧ (s.map.map (·.1)).Nodup
      ∧ s.heap.size ≤ h.size + (visitLog sel h root).length
      ∧ ∀ k, k < h.size → s.heap[k]? = h[k]? := by
  intro s
  have hkeys : s.map.map (·.1) = (visitLog sel h root).reverse := by
    show ((visitLog sel h root).foldl (tstep sel relabel)
      { heap := h, map := [], seen := [] }).map.map (·.1) = _
    rw [fold_keys]
    simp
  refine ⟨hkeys, ?_, ?_, ?_⟩
  · rw [hkeys]
    exact nodup_reverse' (visitLog_nodup hw sel root)
  · exact (fold_size (sel := sel) (relabel := relabel) _ _).2
  · intro k hk
    exact fold_prefix (sel := sel) (relabel := relabel) _ _ k hk

/-- **Nothing changes ⇒ the argument itself**: the identity transformation of a
    duplicate-free graph maps every visited node to itself (in particular the root)
    and creates no node. -/
theorem identity_same (sel : String → String → Bool) (h : Heap) (root : Nat) (hw : WFHeap h)
    (hdf : DupFreeOn h (visitLog sel h root)) :
    let s := runTransform sel relabelId h root
    s.heap = h ∧ (∀ i, i ∈ visitLog sel h root → s.image i = some i) ∧ s.image root = some root := by
  intro s
  have hinv : IdInv h s ([] ++ visitLog sel h root) :=
    fold_id_inv (sel := sel) (visitLog sel h root) [] { heap := h, map := [], seen := [] }
      ⟨rfl, by simp, by simp, by simp, by simp⟩
      (by simpa using visitLog_nodup hw sel root) (by simpa using hdf)
  simp only [List.nil_append] at hinv
  have himg : ∀ i, i ∈ visitLog sel h root → s.image i = some i :=
    fun i hi => image_of_diag hinv.diag (hinv.doneMap i hi)
  refine ⟨hinv.heap, himg, himg root ?_⟩
  rw [mem_visitLog hw]
  exact Reach.refl _

/-! ## non-vacuity: concrete instances satisfying the hypotheses -/

/-- a ladder of depth 3 over one leaf: node `2k+1` and `2k+2` both use `2k-1` and `2k` … (16 paths, 7 nodes) -/
def exLadder : Heap := #[
  { kind := "Placeholder", tags := [], kids := [] },
  { kind := "IndexLambda", tags := [], kids := [("bind:_in0", 0), ("bind:_in1", 0)] },
  { kind := "IndexLambda", tags := ["T"], kids := [("bind:_in0", 0), ("bind:_in1", 0)] },
  { kind := "IndexLambda", tags := [], kids := [("bind:_in0", 1), ("bind:_in1", 2)] },
  { kind := "IndexLambda", tags := ["U"], kids := [("bind:_in0", 1), ("bind:_in1", 2)] },
  { kind := "IndexLambda", tags := [], kids := [("bind:_in0", 3), ("bind:_in1", 4)] },
  { kind := "DictOfNamedArrays", tags := [], kids := [("entry:a", 5), ("entry:b", 3)] }]

/-- counts tree nodes: 1 + Σ children (exponential in the uncached recursion) -/
def exSize : MapperSpec Nat := { sel := fun _ _ => true, combine := fun _ vs => 1 + vs.sum }

example : WFHeap exLadder := (wfHeap_iff _).1 (by decide)
example : ∀ k l, exSize.sel k l = true := fun _ _ => rfl
example : (6 : Nat) < 100 := by decide
example : (runCached exSize exLadder 6).log = [0, 1, 2, 3, 4, 5, 6] := by decide
example : (runCached exSize exLadder 6).val = some 23 ∧ runTree exSize exLadder 6 = some 23 := by
  decide
example : DupFreeOn exLadder (visitLog (fun _ _ => true) exLadder 6) := by
  intro a ha b hb
  revert a b
  decide
example : (runTransform (fun _ _ => true) relabelId exLadder 6).image 6 = some 6 := by decide
/-- a transformation that does change something: tag every IndexLambda; 5 nodes are re-created
    plus the dictionary, the placeholder is returned as is -/
example : ((runTransform (fun _ _ => true)
    (relabelWith fun nd => (nd.kind, if nd.kind == "IndexLambda" then nd.tags ++ ["X"] else nd.tags))
      exLadder 6).heap.size
      = 13) := by decide

end Pt

/-
  Property C17 — process independence, the part a proof can carry: the modelled
  name generator (the only stateful ingredient of pytato's code generators) is a
  function of its request *sequence* — it never observes hash order or object
  addresses.  (That the real generators feed it requests in a canonical order is
  what the hash-seed sweep of the check observes.)
-/
import PtModel.Names
namespace Pt

/-- equal states and equal requests give equal answers: no hidden input -/
theorem gen_deterministic (g₁ g₂ : NameGen) (b : String)
    (he : g₁.existing = g₂.existing) (hc : g₁.counters = g₂.counters) :
    g₁.gen b = g₂.gen b := by
  cases g₁; cases g₂; simp_all

/-- membership in `existing` is all that matters for which name is chosen:
    permuting the seeds (a Python `set` seeded in hash order) does not change
    any generated name, as long as the counters agree -/
theorem searchFrom_perm (e₁ e₂ : List String) (h : ∀ x, e₁.contains x = e₂.contains x) (p : String) :
    ∀ fuel k, searchFrom e₁ p fuel k = searchFrom e₂ p fuel k
  | 0, _ => rfl
  | fuel + 1, k => by
    unfold searchFrom
    rw [h, searchFrom_perm e₁ e₂ h p fuel (k + 1)]

theorem genMany_deterministic (g₁ g₂ : NameGen) (bs : List String)
    (he : g₁.existing = g₂.existing) (hc : g₁.counters = g₂.counters) :
    g₁.genMany bs = g₂.genMany bs := by
  cases g₁; cases g₂; simp_all

example : (⟨["a"], []⟩ : NameGen).existing = (⟨["a"], []⟩ : NameGen).existing := rfl

end Pt

/-
  Property C14 — the NumPy-like target (`NumpyCodegenMapper`): the program the model of the
  generator emits computes what the graph denotes; what the real generator must refuse is never
  given a program; every output value stays with its key.

  `Py.generate` is tied to the real `generate_numpy_like` by TEXT (harness batch
  `lean-generator-model-vs-real-text`: `(pygen …)` answers vs. `bp.program`).
-/
import PtProofs.PyGenTraverse
namespace Pt
namespace Py

/-! ## soundness -/

/-- **pygen_sound.**  Let `generate` produce a program for the graph `g` with output `root`, every
    node reachable from `root` being in the supported fragment (`suppAll`, decidable, reported per
    graph by the driver).  Run the body in an environment `env0` that binds every argument of the
    generated function to the input array of its node (`HIn`), leaves `_pt_np`, `np`, `float`,
    `complex` to mean the modules / builtins (`CleanEnv`), for inputs on which every operation of
    the graph is defined (`Hyp.defined`) and ranks are as declared (`Hyp.rank`).  Then the body
    returns exactly the value the root denotes (`denV`: the array; for a dictionary root the
    dictionary of arrays) — under the NumPy semantics of `pyEval` (`np.roll` = `Spec.roll`, …;
    elementwise operations with broadcasting; C19's high-level operations for index lambdas). -/
theorem pygen_sound (g : PGraph) (root : Nat) (existing : List String)
    (inp : Nat → Option (Arr Val)) (env0 : PEnv) (prog : Program)
    (hgen : generate g root existing = .ok prog)
    (hsupp : suppAll g (root + 1) root = true)
    (hy : Hyp g inp existing) (hclean : CleanEnv env0)
    (hin : HIn g inp env0 prog.memo) :
    ∃ v, denV g inp root = some v ∧ runBody env0 prog.body = some v := by
  unfold generate at hgen
  simp only at hgen
  cases he : emitNode g (root + 1) root
      { ng := { existing := existing, counters := [] }, memo := [], lines := [], args := [] } with
  | refuse w => simp [he] at hgen
  | unmodelled w => simp [he] at hgen
  | ok p =>
    obtain ⟨res, st⟩ := p
    simp only [he, Gen.ok.injEq] at hgen
    subst hgen
    have hi0 : Inv g inp env0 existing
        { ng := { existing := existing, counters := [] }, memo := [], lines := [], args := [] } env0 :=
      ⟨rfl, hclean, fun j n hm => by simp at hm, fun j n hm => by simp at hm, fun n hn => hn,
        fun n _ => rfl⟩
    obtain ⟨env', hp, hm⟩ := emitNode_spec hy (root + 1) root _ res st env0 he hsupp hi0 hin
    obtain ⟨v, hv, hg⟩ := hp.inv.memo root res hm
    exact ⟨v, hv, by rw [runBody_of_execRev hp.inv.run res, hg]⟩

/-! ## the check the driver evaluates on every real graph implies the hypotheses -/

theorem wfG_sound {g : PGraph} (h : wfG g = true) : WFG g := by
  intro i c hc
  by_cases hi : i < g.size
  · simp only [wfG, List.all_eq_true, List.mem_range, decide_eq_true_eq] at h
    exact h i hi c hc
  · have : g.get i = { node := .other "out-of-range", shape := [] } := by
      simp only [PGraph.get]
      rw [Array.getElem?_eq_none (by omega)]
    simp [kidsOf, this] at hc

theorem suppAll_of_all {g : PGraph} (hw : WFG g) {root : Nat} (h : ∀ j, j ≤ root → suppNode g j = true) :
    ∀ (fuel i : Nat), i < fuel → i ≤ root → suppAll g fuel i = true
  | 0, _, hi, _ => absurd hi (Nat.not_lt_zero _)
  | fuel + 1, i, hi, hr => by
    simp only [suppAll, Bool.and_eq_true, List.all_eq_true]
    refine ⟨h i hr, fun c hc => ?_⟩
    have hci := hw i c hc
    exact suppAll_of_all hw h fuel c (by omega) (by omega)

theorem fragment_check_sound {g : PGraph} {root : Nat} (h : fragmentCheck g root = true) :
    WFG g ∧ suppAll g (root + 1) root = true := by
  simp only [fragmentCheck, Bool.and_eq_true, List.all_eq_true, List.mem_range] at h
  have hw := wfG_sound h.1
  exact ⟨hw, suppAll_of_all hw (fun j hj => h.2 j (by omega)) (root + 1) root (by omega) (Nat.le_refl _)⟩

/-! ## the outputs stay with their keys -/

theorem allSomeKV_keys : ∀ (l : List (String × Option (Arr Val))) (kvs : List (String × PyVal)),
    allSomeKV l = some kvs → kvs.map (·.1) = l.map (·.1) ∧
      ∀ k a, (k, some a) ∈ l → (k, PyVal.arr a) ∈ kvs
  | [], kvs, h => by
    simp only [allSomeKV, Option.some.injEq] at h
    subst h
    simp
  | (k, none) :: r, kvs, h => by simp [allSomeKV] at h
  | (k, some a) :: r, kvs, h => by
    simp only [allSomeKV, Option.map_eq_some_iff] at h
    obtain ⟨kvs', h', rfl⟩ := h
    obtain ⟨h1, h2⟩ := allSomeKV_keys r kvs' h'
    refine ⟨by simp [h1], ?_⟩
    intro k' a' hm
    simp only [List.mem_cons, Prod.mk.injEq, Option.some.injEq] at hm
    rcases hm with ⟨rfl, rfl⟩ | hm
    · simp
    · exact List.mem_cons_of_mem _ (h2 k' a' hm)

/-- **outputs_aligned.**  For a dictionary of outputs the generated function returns a dictionary
    whose keys are the output names in the order `sortBy (<)` puts them, and under every key the
    array of THAT key's node (the pairing made by sorting the items, not the keys alone). -/
theorem outputs_aligned (g : PGraph) (root : Nat) (existing : List String)
    (inp : Nat → Option (Arr Val)) (env0 : PEnv) (prog : Program) (items : List (String × Nat))
    (hroot : (g.get root).node = .dict items)
    (hgen : generate g root existing = .ok prog)
    (hsupp : suppAll g (root + 1) root = true)
    (hy : Hyp g inp existing) (hclean : CleanEnv env0)
    (hin : HIn g inp env0 prog.memo) :
    ∃ kvs, runBody env0 prog.body = some (.dict kvs) ∧
      kvs.map (·.1) = (sortBy (fun a b => decide (a.1 < b.1)) items).map (·.1) ∧
      ∀ k c, (k, c) ∈ items → ∃ a, den g inp c = some a ∧ (k, PyVal.arr a) ∈ kvs := by
  obtain ⟨v, hv, hrun⟩ := pygen_sound g root existing inp env0 prog hgen hsupp hy hclean hin
  simp only [denV, hroot, Option.map_eq_some_iff] at hv
  obtain ⟨kvs, hkv, rfl⟩ := hv
  obtain ⟨h1, h2⟩ := allSomeKV_keys _ kvs hkv
  refine ⟨kvs, hrun, ?_, ?_⟩
  · rw [h1]; simp [List.map_map, Function.comp_def]
  · intro k c hkc
    have hs : (k, c) ∈ sortBy (fun a b => decide (a.1 < b.1)) items := (mem_sortBy _ _ _).2 hkc
    -- every entry has a value, since the whole list has
    have hall : ∀ (l : List (String × Nat)) (kvs : List (String × PyVal)),
        allSomeKV (l.map fun kv => (kv.1, den g inp kv.2)) = some kvs →
        ∀ k c, (k, c) ∈ l → ∃ a, den g inp c = some a := by
      intro l
      induction l with
      | nil => intro _ _ k c h; simp at h
      | cons x r ih =>
        intro kvs h k c hm
        simp only [List.map_cons] at h
        cases hd : den g inp x.2 with
        | none => simp [hd, allSomeKV] at h
        | some a =>
          simp only [hd, allSomeKV, Option.map_eq_some_iff] at h
          obtain ⟨kvs', h', _⟩ := h
          simp only [List.mem_cons] at hm
          rcases hm with rfl | hm
          · exact ⟨a, hd⟩
          · exact ih kvs' h' k c hm
    obtain ⟨a, ha⟩ := hall _ kvs hkv k c hs
    exact ⟨a, ha, h2 k a (List.mem_map.2 ⟨(k, c), hs, by simp [ha]⟩)⟩

/-- insertion sort sorts, for any strict order (asymmetric, transitive, and with a transitive
    complement, as a linear order's `<` is) -/
theorem insertBy_pairwise {α : Type} (lt : α → α → Bool)
    (htr : ∀ a b c, lt a b = false → lt b c = false → lt a c = false) (x : α) :
    ∀ (l : List α), l.Pairwise (fun a b => lt b a = false) → (∀ a b, lt a b = true → lt b a = false) →
      (insertBy lt x l).Pairwise (fun a b => lt b a = false)
  | [], _, _ => by simp [insertBy]
  | y :: r, hp, has => by
    unfold insertBy
    have hp' := List.pairwise_cons.1 hp
    split
    · rename_i hxy
      refine List.pairwise_cons.2 ⟨?_, hp⟩
      intro z hz
      simp only [List.mem_cons] at hz
      rcases hz with rfl | hz
      · exact has _ _ hxy
      · exact htr _ _ _ (hp'.1 z hz) (has _ _ hxy)
    · rename_i hxy
      have hxy' : lt x y = false := by simpa using hxy
      refine List.pairwise_cons.2 ⟨?_, insertBy_pairwise lt htr x r hp'.2 has⟩
      intro z hz
      rcases (mem_insertBy lt x z r).1 hz with rfl | hz
      · exact hxy'
      · exact hp'.1 z hz

theorem sortBy_pairwise {α : Type} (lt : α → α → Bool)
    (htr : ∀ a b c, lt a b = false → lt b c = false → lt a c = false)
    (has : ∀ a b, lt a b = true → lt b a = false) :
    ∀ (l : List α), (sortBy lt l).Pairwise (fun a b => lt b a = false)
  | [] => by simp [sortBy]
  | x :: r => insertBy_pairwise lt htr x _ (sortBy_pairwise lt htr has r) has

/-! ## refusals -/

/-- node `i` leads (through the children the generator recurses into) to a node the generator
    refuses -/
inductive Bad (g : PGraph) : Nat → Prop
  | here {i : Nat} {w : String} : plan g i = .refuse w → Bad g i
  | pass {i c : Nat} : plan g i = .ok (.pass c) → Bad g c → Bad g i
  | stmt {i c : Nat} {pre : Bool} {kids : List Nat} {mk : List String → PyExpr} :
      plan g i = .ok (.stmt pre kids mk) → c ∈ kids → Bad g c → Bad g i

theorem recAll_good {g : PGraph} {fuel : Nat}
    (IH : ∀ i st r st', emitNode g fuel i st = .ok (r, st') → (∀ j n, (j, n) ∈ st.memo → ¬ Bad g j) →
      (∀ j n, (j, n) ∈ st'.memo → ¬ Bad g j) ∧ ¬ Bad g i) :
    ∀ (kids : List Nat) (st : St) (names : List String) (st' : St),
      recAll (emitNode g fuel) kids st = .ok (names, st') → (∀ j n, (j, n) ∈ st.memo → ¬ Bad g j) →
      (∀ j n, (j, n) ∈ st'.memo → ¬ Bad g j) ∧ ∀ c ∈ kids, ¬ Bad g c
  | [], st, names, st', h, hm => by
    obtain ⟨_, rfl⟩ := recAll_nil h
    exact ⟨hm, by simp⟩
  | c :: cs, st, names, st', h, hm => by
    obtain ⟨n, st1, ns, h1, h2, _⟩ := recAll_cons h
    obtain ⟨hm1, hc⟩ := IH c st n st1 h1 hm
    obtain ⟨hm2, hcs⟩ := recAll_good IH cs st1 ns st' h2 hm1
    refine ⟨hm2, ?_⟩
    intro c' hc'
    simp only [List.mem_cons] at hc'
    rcases hc' with rfl | hc'
    · exact hc
    · exact hcs c' hc'

theorem emitNode_good {g : PGraph} : ∀ (fuel i : Nat) (st : St) (r : String) (st' : St),
    emitNode g fuel i st = .ok (r, st') → (∀ j n, (j, n) ∈ st.memo → ¬ Bad g j) →
    (∀ j n, (j, n) ∈ st'.memo → ¬ Bad g j) ∧ ¬ Bad g i
  | 0, _, _, _, _, h, _ => by simp [emitNode] at h
  | fuel + 1, i, st, r, st', h, hm => by
    cases emitNode_inv h with
    | hit hmem he => subst he; exact ⟨hm, hm i r hmem⟩
    | inputSome name hpl _ he =>
      subst he
      have hg : ¬ Bad g i := by
        intro hb
        cases hb with
        | here h' => rw [hpl] at h'; cases h'
        | pass h' _ => rw [hpl] at h'; cases h'
        | stmt h' _ _ => rw [hpl] at h'; cases h'
      refine ⟨?_, hg⟩
      intro j n hj
      simp only [St.memoize, List.mem_cons, Prod.mk.injEq] at hj
      rcases hj with ⟨rfl, _⟩ | hj
      · exact hg
      · exact hm j n hj
    | inputNone ng' hpl _ he =>
      subst he
      have hg : ¬ Bad g i := by
        intro hb
        cases hb with
        | here h' => rw [hpl] at h'; cases h'
        | pass h' _ => rw [hpl] at h'; cases h'
        | stmt h' _ _ => rw [hpl] at h'; cases h'
      refine ⟨?_, hg⟩
      intro j n hj
      simp only [St.memoize, List.mem_cons, Prod.mk.injEq] at hj
      rcases hj with ⟨rfl, _⟩ | hj
      · exact hg
      · exact hm j n hj
    | pass c st1 hpl hc he =>
      subst he
      obtain ⟨hm1, hgc⟩ := emitNode_good fuel c st r st1 hc hm
      have hg : ¬ Bad g i := by
        intro hb
        cases hb with
        | here h' => rw [hpl] at h'; cases h'
        | pass h' hbc => rw [hpl] at h'; cases h'; exact hgc hbc
        | stmt h' _ _ => rw [hpl] at h'; cases h'
      refine ⟨?_, hg⟩
      intro j n hj
      simp only [St.memoize, List.mem_cons, Prod.mk.injEq] at hj
      rcases hj with ⟨rfl, _⟩ | hj
      · exact hg
      · exact hm1 j n hj
    | pre kids mk ng1 names st2 hpl _ hr he =>
      subst he
      obtain ⟨hm2, hgk⟩ := recAll_good (emitNode_good fuel) kids _ names st2 hr hm
      have hg : ¬ Bad g i := by
        intro hb
        cases hb with
        | here h' => rw [hpl] at h'; cases h'
        | pass h' _ => rw [hpl] at h'; cases h'
        | stmt h' hck hbc => rw [hpl] at h'; cases h'; exact hgk _ hck hbc
      refine ⟨?_, hg⟩
      intro j n hj
      simp only [St.memoize, St.record, List.mem_cons, Prod.mk.injEq] at hj
      rcases hj with ⟨rfl, _⟩ | hj
      · exact hg
      · exact hm2 j n hj
    | post kids mk names st2 ng3 hpl hr _ he =>
      subst he
      obtain ⟨hm2, hgk⟩ := recAll_good (emitNode_good fuel) kids _ names st2 hr hm
      have hg : ¬ Bad g i := by
        intro hb
        cases hb with
        | here h' => rw [hpl] at h'; cases h'
        | pass h' _ => rw [hpl] at h'; cases h'
        | stmt h' hck hbc => rw [hpl] at h'; cases h'; exact hgk _ hck hbc
      refine ⟨?_, hg⟩
      intro j n hj
      simp only [St.memoize, St.record, List.mem_cons, Prod.mk.injEq] at hj
      rcases hj with ⟨rfl, _⟩ | hj
      · exact hg
      · exact hm2 j n hj

/-- **pygen_refuses.**  If the output leads to a node the generator must refuse, no program is
    produced — whatever the names, whatever else the graph contains. -/
theorem pygen_refuses (g : PGraph) (root : Nat) (existing : List String) (hbad : Bad g root) :
    ∀ prog, generate g root existing ≠ .ok prog := by
  intro prog hgen
  unfold generate at hgen
  simp only at hgen
  cases he : emitNode g (root + 1) root
      { ng := { existing := existing, counters := [] }, memo := [], lines := [], args := [] } with
  | refuse w => simp [he] at hgen
  | unmodelled w => simp [he] at hgen
  | ok p =>
    obtain ⟨res, st⟩ := p
    exact (emitNode_good (root + 1) root _ res st he (fun j n hm => by simp at hm)).2 hbad

/-- what is refused: an index lambda the raiser does not classify (`UnknownIndexLambdaExpr`) -/
theorem refuses_unknown_index_lambda (g : PGraph) (i : Nat) {dt : DType} {e : SExpr}
    {binds : List (String × Nat)} {lits : List ScalarInfo} {shape : Shape} {bs : List (String × Shape)}
    (hn : (g.get i).node = .indexLambda dt e binds lits)
    (hsh : staticShape (g.get i).shape = some shape) (hbs : bindShapes g binds = .ok bs)
    (hr : Raise.raise e shape bs = none) : plan g i = .refuse "UnknownIndexLambdaExpr" := by
  simp [plan, hn, hsh, ilPlan, hbs, Gen.bind, hr]

/-- … a logical negation (`LogicalNotOp` has no emitter) -/
theorem refuses_logical_not (g : PGraph) (i : Nat) {dt : DType} {e : SExpr}
    {binds : List (String × Nat)} {lits : List ScalarInfo} {shape : Shape} {bs : List (String × Shape)}
    {x : String} (hn : (g.get i).node = .indexLambda dt e binds lits)
    (hsh : staticShape (g.get i).shape = some shape) (hbs : bindShapes g binds = .ok bs)
    (hr : Raise.raise e shape bs = some (.logicalNot x)) :
    plan g i = .refuse "NotImplementedError(LogicalNotOp)" := by
  simp [plan, hn, hsh, ilPlan, hbs, Gen.bind, hr, hloPlan]

/-- … a size parameter, a CSR product (any kind without a `map_*` method) -/
theorem refuses_size_param (g : PGraph) (i : Nat) {name : String}
    (hn : (g.get i).node = .sizeParam name) : plan g i = .refuse "NotImplementedError(SizeParam)" := by
  simp [plan, hn]

theorem refuses_kind (g : PGraph) (i : Nat) {kind : String} (hn : (g.get i).node = .refused kind) :
    plan g i = .refuse ("NotImplementedError(" ++ kind ++ ")") := by
  simp [plan, hn]

/-- … a reshape to a symbolic shape -/
theorem refuses_symbolic_reshape (g : PGraph) (i : Nat) {c : Nat} {order : String}
    (hn : (g.get i).node = .reshape c order) (hsh : staticShape (g.get i).shape = none) :
    plan g i = .refuse "NotImplementedError(Non-integral reshapes)" := by
  simp [plan, hn, hsh]

/-! ## non-vacuity: the hypotheses of `pygen_sound` hold of a concrete graph -/

def exG : PGraph := #[⟨.placeholder "x", [some 2]⟩, ⟨.roll 0 1 0, [some 2]⟩]
def exA : Arr Val := ⟨[2], fun i => .i (i.headD 0)⟩
def exInp : Nat → Option (Arr Val) := fun i => if i = 0 then some exA else none
def exE : List String := ["x", "_pt_np", "np", "_pt_kernel"]
def exProg : Program :=
  { args := ["x"],
    body := [.assign "_pt_tmp" (.call (npf "roll") [.name "x"] [("shift", intConst 1), ("axis", intConst 0)]),
             .ret "_pt_tmp"],
    memo := [(1, "_pt_tmp"), (0, "x")] }

theorem exGen : generate exG 1 exE = .ok exProg := by rfl

theorem exG_out (i : Nat) : exG.get (i + 2) = { node := .other "out-of-range", shape := [] } := by
  simp [PGraph.get, exG]

theorem exHyp : Hyp exG exInp exE := by
  refine ⟨?_, ?_, ?_, ?_, by decide, ?_⟩
  · intro i c hc
    match i with
    | 0 => simp [kidsOf, PGraph.get, exG] at hc
    | 1 => simp [kidsOf, PGraph.get, exG] at hc; omega
    | i + 2 => simp [kidsOf, exG_out] at hc
  · intro c a h
    match c with
    | 0 =>
      simp [den, denote, denoteStep, PGraph.get, exG, exInp] at h
      subst h; rfl
    | 1 =>
      simp [den, denote, denoteStep, PGraph.get, exG, exInp] at h
      subst h; rfl
    | c + 2 => simp [den, denote, denoteStep, exG_out] at h
  · intro c a s h hs
    match c with
    | 0 =>
      have h1 : (den exG exInp 0).map (·.shape) = some [2] := by rfl
      have h2 : staticShape (exG.get 0).shape = some [2] := by rfl
      rw [h] at h1; rw [h2] at hs
      simp only [Option.map_some, Option.some.injEq] at h1 hs
      rw [h1, hs]
    | 1 =>
      have h1 : (den exG exInp 1).map (·.shape) = some [2] := by rfl
      have h2 : staticShape (exG.get 1).shape = some [2] := by rfl
      rw [h] at h1; rw [h2] at hs
      simp only [Option.map_some, Option.some.injEq] at h1 hs
      rw [h1, hs]
    | c + 2 => simp [den, denote, denoteStep, exG_out] at h
  · intro j hs _
    match j with
    | 0 => simp [den, denote, denoteStep, PGraph.get, exG, exInp]
    | 1 => simp [den, denote, denoteStep, PGraph.get, exG, exInp]
    | j + 2 => simp [suppNode, exG_out] at hs
  · intro j name hp
    match j with
    | 0 =>
      simp [plan, PGraph.get, exG] at hp
      subst hp; decide
    | 1 => simp [plan, PGraph.get, exG] at hp
    | j + 2 => simp [plan, exG_out] at hp

example : ∃ v, denV exG exInp 1 = some v ∧ runBody [("x", .arr exA)] exProg.body = some v := by
  refine pygen_sound exG 1 exE exInp [("x", .arr exA)] exProg exGen (by rfl) exHyp
    ⟨by decide, by decide, by decide, by decide⟩ ?_
  intro j n nm hm hp
  simp only [exProg, List.mem_cons, Prod.mk.injEq, List.not_mem_nil, or_false] at hm
  rcases hm with ⟨rfl, rfl⟩ | ⟨rfl, rfl⟩
  · simp [plan, PGraph.get, exG] at hp
  · simp [PEnv.get?, exInp]

/-! a second instance: an index lambda with a scalar operand and a dictionary of outputs -/
def ex2Form : ScalarForm :=
  { isNp := true, isComplex := false, isNpFloating := true, isBool := false, dtname := "float64",
    cls := .finite, negative := false, text := "np.float64(2.0)" }
def ex2Lit : ScalarInfo := { lit := .rat 2 1, asIs := ex2Form, rt := some ("float64", "f"), typed := some ex2Form }
/-- `{"b": x + 2, "a": roll(x, 1)}` -/
def ex2G : PGraph :=
  #[⟨.placeholder "x", [some 2]⟩, ⟨.roll 0 1 0, [some 2]⟩,
    ⟨.indexLambda ⟨"float64", "float64", "f"⟩ (.add (.sub "_in0" [.idx 0]) (.rat 2 1)) [("_in0", 0)] [ex2Lit],
      [some 2]⟩,
    ⟨.dict [("b", 2), ("a", 1)], []⟩]
def ex2A : Arr Val := ⟨[2], fun i => .q (i.headD 0)⟩
def ex2Inp : Nat → Option (Arr Val) := fun i => if i = 0 then some ex2A else none
def ex2E : List String := ["_pt_kernel", "_pt_np", "a", "b", "np", "x"]


theorem ex2G_out (i : Nat) : ex2G.get (i + 4) = { node := .other "out-of-range", shape := [] } := by
  simp [PGraph.get, ex2G]

theorem ex2Gen : ∃ prog, generate ex2G 3 ex2E = .ok prog ∧
    prog.memo = [(3, "_pt_tmp"), (2, "_pt_tmp_1"), (1, "_pt_tmp_0"), (0, "x")] := ⟨_, rfl, rfl⟩

theorem ex2Hyp : Hyp ex2G ex2Inp ex2E := by
  refine ⟨?_, ?_, ?_, ?_, by decide, ?_⟩
  · intro i c hc
    match i with
    | 0 => simp [kidsOf, PGraph.get, ex2G] at hc
    | 1 => simp [kidsOf, PGraph.get, ex2G] at hc; omega
    | 2 => simp [kidsOf, PGraph.get, ex2G] at hc; omega
    | 3 => simp [kidsOf, PGraph.get, ex2G] at hc; omega
    | i + 4 => simp [kidsOf, ex2G_out] at hc
  · intro c a h
    match c with
    | 0 =>
      have : (den ex2G ex2Inp 0).map (·.shape.length) = some 1 := by rfl
      rw [h] at this; simpa [PGraph.get, ex2G] using this
    | 1 =>
      have : (den ex2G ex2Inp 1).map (·.shape.length) = some 1 := by rfl
      rw [h] at this; simpa [PGraph.get, ex2G] using this
    | 2 =>
      have : (den ex2G ex2Inp 2).map (·.shape.length) = some 1 := by rfl
      rw [h] at this; simpa [PGraph.get, ex2G] using this
    | 3 =>
      have : (den ex2G ex2Inp 3).isSome = false := by rfl
      rw [h] at this; simp at this
    | c + 4 => simp [den, denote, denoteStep, ex2G_out] at h
  · intro c a s h hs
    match c with
    | 0 =>
      have h1 : (den ex2G ex2Inp 0).map (·.shape) = some [2] := by rfl
      have h2 : staticShape (ex2G.get 0).shape = some [2] := by rfl
      rw [h] at h1; rw [h2] at hs
      simp only [Option.map_some, Option.some.injEq] at h1 hs
      rw [h1, hs]
    | 1 =>
      have h1 : (den ex2G ex2Inp 1).map (·.shape) = some [2] := by rfl
      have h2 : staticShape (ex2G.get 1).shape = some [2] := by rfl
      rw [h] at h1; rw [h2] at hs
      simp only [Option.map_some, Option.some.injEq] at h1 hs
      rw [h1, hs]
    | 2 =>
      have h1 : (den ex2G ex2Inp 2).map (·.shape) = some [2] := by rfl
      have h2 : staticShape (ex2G.get 2).shape = some [2] := by rfl
      rw [h] at h1; rw [h2] at hs
      simp only [Option.map_some, Option.some.injEq] at h1 hs
      rw [h1, hs]
    | 3 =>
      have : (den ex2G ex2Inp 3).isSome = false := by rfl
      rw [h] at this; simp at this
    | c + 4 => simp [den, denote, denoteStep, ex2G_out] at h
  · intro j hs hnd
    match j with
    | 0 => rfl
    | 1 => rfl
    | 2 => rfl
    | 3 => simp [notDict, PGraph.get, ex2G] at hnd
    | j + 4 => simp [suppNode, ex2G_out] at hs
  · intro j name hp
    match j with
    | 0 =>
      simp [plan, PGraph.get, ex2G] at hp
      subst hp; decide
    | 1 => simp [plan, PGraph.get, ex2G] at hp
    | 2 =>
      have : ∃ pre kids mk, plan ex2G 2 = .ok (.stmt pre kids mk) := ⟨_, _, _, rfl⟩
      obtain ⟨_, _, _, h⟩ := this
      rw [h] at hp; cases hp
    | 3 => simp [plan, PGraph.get, ex2G] at hp
    | j + 4 => simp [plan, ex2G_out] at hp

example : ∃ prog, generate ex2G 3 ex2E = .ok prog ∧
    ∃ kvs, runBody [("x", .arr ex2A)] prog.body = some (.dict kvs) ∧ kvs.map (·.1) = ["a", "b"] ∧
      (∃ a, den ex2G ex2Inp 1 = some a ∧ ("a", PyVal.arr a) ∈ kvs) ∧
      (∃ a, den ex2G ex2Inp 2 = some a ∧ ("b", PyVal.arr a) ∈ kvs) := by
  obtain ⟨prog, hgen, hmemo⟩ := ex2Gen
  refine ⟨prog, hgen, ?_⟩
  obtain ⟨kvs, h1, h2, h3⟩ := outputs_aligned ex2G 3 ex2E ex2Inp [("x", .arr ex2A)] prog
    [("b", 2), ("a", 1)] (by rfl) hgen (by rfl) ex2Hyp ⟨by decide, by decide, by decide, by decide⟩ (by
      intro j n nm hm hp
      rw [hmemo] at hm
      simp only [List.mem_cons, Prod.mk.injEq, List.not_mem_nil, or_false] at hm
      rcases hm with ⟨rfl, rfl⟩ | ⟨rfl, rfl⟩ | ⟨rfl, rfl⟩ | ⟨rfl, rfl⟩
      · simp [plan, PGraph.get, ex2G] at hp
      · have : ∃ pre kids mk, plan ex2G 2 = .ok (.stmt pre kids mk) := ⟨_, _, _, rfl⟩
        obtain ⟨_, _, _, h⟩ := this
        rw [h] at hp; cases hp
      · simp [plan, PGraph.get, ex2G] at hp
      · simp [PEnv.get?, ex2Inp])
  refine ⟨kvs, h1, ?_, h3 "a" 1 (by simp), h3 "b" 2 (by simp)⟩
  rw [h2]; rfl

/-! a third instance: the slice that used to be mis-synthesised, `x[-10::-1]` on length 4
    (normalised: start = stop = -1, step = -1; written `x[-5::-1]`) -/
def ex4G : PGraph := #[⟨.placeholder "x", [some 4]⟩, ⟨.index 0 [.slice ⟨-1, -1, -1⟩], [some 0]⟩]
def ex4A : Arr Val := ⟨[4], fun i => .i (i.headD 0)⟩
def ex4Inp : Nat → Option (Arr Val) := fun i => if i = 0 then some ex4A else none
def ex4E : List String := ["x", "_pt_np", "np", "_pt_kernel"]

theorem ex4Gen : ∃ prog, generate ex4G 1 ex4E = .ok prog ∧ prog.memo = [(1, "_pt_tmp"), (0, "x")] ∧
    prog.body.map PyStmt.print = ["_pt_tmp = x[-5::-1,]", "return _pt_tmp"] := ⟨_, rfl, rfl, by decide⟩

theorem ex4G_out (i : Nat) : ex4G.get (i + 2) = { node := .other "out-of-range", shape := [] } := by
  simp [PGraph.get, ex4G]

theorem ex4Hyp : Hyp ex4G ex4Inp ex4E := by
  refine ⟨?_, ?_, ?_, ?_, by decide, ?_⟩
  · intro i c hc
    match i with
    | 0 => simp [kidsOf, PGraph.get, ex4G] at hc
    | 1 => simp [kidsOf, PGraph.get, ex4G] at hc; omega
    | i + 2 => simp [kidsOf, ex4G_out] at hc
  · intro c a h
    match c with
    | 0 =>
      have : (den ex4G ex4Inp 0).map (·.shape.length) = some 1 := by rfl
      rw [h] at this; simpa [PGraph.get, ex4G] using this
    | 1 =>
      have : (den ex4G ex4Inp 1).map (·.shape.length) = some 1 := by rfl
      rw [h] at this; simpa [PGraph.get, ex4G] using this
    | c + 2 => simp [den, denote, denoteStep, ex4G_out] at h
  · intro c a s h hs
    match c with
    | 0 =>
      have h1 : (den ex4G ex4Inp 0).map (·.shape) = some [4] := by rfl
      have h2 : staticShape (ex4G.get 0).shape = some [4] := by rfl
      rw [h] at h1; rw [h2] at hs
      simp only [Option.map_some, Option.some.injEq] at h1 hs
      rw [h1, hs]
    | 1 =>
      have h1 : (den ex4G ex4Inp 1).map (·.shape) = some [0] := by rfl
      have h2 : staticShape (ex4G.get 1).shape = some [0] := by rfl
      rw [h] at h1; rw [h2] at hs
      simp only [Option.map_some, Option.some.injEq] at h1 hs
      rw [h1, hs]
    | c + 2 => simp [den, denote, denoteStep, ex4G_out] at h
  · intro j hs _
    match j with
    | 0 => rfl
    | 1 => rfl
    | j + 2 => simp [suppNode, ex4G_out] at hs
  · intro j name hp
    match j with
    | 0 =>
      simp [plan, PGraph.get, ex4G] at hp
      subst hp; decide
    | 1 =>
      have : ∃ pre kids mk, plan ex4G 1 = .ok (.stmt pre kids mk) := ⟨_, _, _, rfl⟩
      obtain ⟨_, _, _, h⟩ := this
      rw [h] at hp; cases hp
    | j + 2 => simp [plan, ex4G_out] at hp

example : ∃ prog, generate ex4G 1 ex4E = .ok prog ∧
    ∃ v, denV ex4G ex4Inp 1 = some v ∧ runBody [("x", .arr ex4A)] prog.body = some v := by
  obtain ⟨prog, hgen, hmemo, _⟩ := ex4Gen
  refine ⟨prog, hgen, pygen_sound ex4G 1 ex4E ex4Inp [("x", .arr ex4A)] prog hgen (by rfl) ex4Hyp
    ⟨by decide, by decide, by decide, by decide⟩ ?_⟩
  intro j n nm hm hp
  rw [hmemo] at hm
  simp only [List.mem_cons, Prod.mk.injEq, List.not_mem_nil, or_false] at hm
  rcases hm with ⟨rfl, rfl⟩ | ⟨rfl, rfl⟩
  · have : ∃ pre kids mk, plan ex4G 1 = .ok (.stmt pre kids mk) := ⟨_, _, _, rfl⟩
    obtain ⟨_, _, _, h⟩ := this
    rw [h] at hp; cases hp
  · simp [PEnv.get?, ex4Inp]

/-! non-vacuity of `pygen_refuses`: a size parameter under a roll -/
def ex3G : PGraph := #[⟨.sizeParam "n", []⟩, ⟨.roll 0 1 0, [some 2]⟩]
example : Bad ex3G 1 := .stmt (i := 1) (c := 0) rfl (by simp) (.here (w := "NotImplementedError(SizeParam)") rfl)
example : ∀ prog, generate ex3G 1 ["n", "_pt_np", "np", "_pt_kernel"] ≠ .ok prog :=
  pygen_refuses ex3G 1 _ (.stmt (i := 1) (c := 0) rfl (by simp) (.here (w := "NotImplementedError(SizeParam)") rfl))
example : generate ex3G 1 ["n", "_pt_np", "np", "_pt_kernel"] = .refuse "NotImplementedError(SizeParam)" := rfl

end Py
end Pt

/-
  Property C15 — names in generated code are unique and collision-free.
  Model: `Pt.NameGen` (pytools.UniqueNameGenerator as pytato drives it; tied to
  the real class by a correspondence batch on random operation sequences).
-/
import PtModel.Names
namespace Pt

theorem searchFrom_fresh (existing : List String) (p : String) :
    ∀ fuel k c n, searchFrom existing p fuel k = some (c, n) → n ∉ existing
  | 0, _, _, _, h => by simp [searchFrom] at h
  | fuel + 1, k, c, n, h => by
    unfold searchFrom at h
    by_cases hc : existing.contains (numbered p k) = true
    · rw [if_pos hc] at h
      exact searchFrom_fresh existing p fuel (k + 1) c n h
    · rw [if_neg hc] at h
      cases h
      simpa using hc

theorem findName_fresh (existing : List String) (p : String) (counter : Option Nat) (c : Nat)
    (n : String) (h : findName existing p counter = some (c, n)) : n ∉ existing := by
  cases counter with
  | none =>
    simp only [findName] at h
    split at h
    · exact searchFrom_fresh _ _ _ _ _ _ h
    · rename_i hc
      cases h
      simpa using hc
  | some c0 => exact searchFrom_fresh _ _ _ _ _ _ h

/-- A generated name never coincides with a name the generator already knows
    (user names seeded into it, or names it handed out before), and it is
    recorded. -/
theorem gen_fresh (g g' : NameGen) (b n : String) (h : g.gen b = some (n, g')) :
    n ∉ g.existing ∧ g'.existing = n :: g.existing := by
  unfold NameGen.gen at h
  simp only [Option.map_eq_some_iff] at h
  obtain ⟨⟨c, name⟩, hfound, hres⟩ := h
  simp only [Prod.mk.injEq] at hres
  obtain ⟨rfl, rfl⟩ := hres
  exact ⟨findName_fresh _ _ _ _ _ hfound, rfl⟩

theorem gen_mono (g g' : NameGen) (b n : String) (h : g.gen b = some (n, g')) :
    ∀ x ∈ g.existing, x ∈ g'.existing := by
  intro x hx
  rw [(gen_fresh g g' b n h).2]; exact List.mem_cons_of_mem _ hx

/-- Every sequence of requests yields pairwise distinct names, all different
    from every name the generator was seeded with — whatever the requested
    prefixes and whatever the seeds (user names) are. -/
theorem genMany_distinct : ∀ (bs : List String) (g g' : NameGen) (ns : List String),
    g.genMany bs = some (ns, g') →
      ns.Nodup ∧ (∀ n ∈ ns, n ∉ g.existing) ∧ (∀ x ∈ g.existing, x ∈ g'.existing) ∧
      (∀ n ∈ ns, n ∈ g'.existing)
  | [], g, g', ns, h => by
    simp only [NameGen.genMany, Option.some.injEq, Prod.mk.injEq] at h
    obtain ⟨rfl, rfl⟩ := h
    simp
  | b :: bs, g, g', ns, h => by
    unfold NameGen.genMany at h
    split at h
    · cases h
    · rename_i n g1 hg
      split at h
      · cases h
      · rename_i ns' g2 hm
        simp only [Option.some.injEq, Prod.mk.injEq] at h
        obtain ⟨rfl, rfl⟩ := h
        obtain ⟨hnd, hdis, hmono, hin⟩ := genMany_distinct bs g1 g2 ns' hm
        obtain ⟨hfresh, hex⟩ := gen_fresh g g1 b n hg
        refine ⟨?_, ?_, ?_, ?_⟩
        · refine List.nodup_cons.mpr ⟨?_, hnd⟩
          intro hmem
          exact hdis n hmem (by rw [hex]; simp)
        · intro m hm'
          rcases List.mem_cons.mp hm' with rfl | hm'
          · exact hfresh
          · intro hmg
            exact hdis m hm' (by rw [hex]; exact List.mem_cons_of_mem _ hmg)
        · intro x hx
          exact hmono x (by rw [hex]; exact List.mem_cons_of_mem _ hx)
        · intro m hm'
          rcases List.mem_cons.mp hm' with rfl | hm'
          · exact hmono _ (by rw [hex]; simp)
          · exact hin m hm'

/-- `add_name` rejects a conflicting name (Named tags, duplicate seeds) -/
theorem addName_conflict (g : NameGen) (n : String) (h : n ∈ g.existing) : g.addName n = none := by
  unfold NameGen.addName
  simp [h]

theorem addName_ok (g g' : NameGen) (n : String) (h : g.addName n = some g') :
    n ∉ g.existing ∧ g'.existing = n :: g.existing := by
  unfold NameGen.addName at h
  split at h
  · cases h
  · rename_i hc
    cases h
    exact ⟨by simpa using hc, rfl⟩

/-! non-vacuity: adversarial user names close to generated ones -/
example : ((⟨["_pt_temp", "_pt_temp_0", "x_dim", "x_dim_0", "out"], []⟩ : NameGen).genMany
    ["_pt_temp", "_pt_temp", "x_dim", "out_dim", "acc"]).map (·.1)
    = some ["_pt_temp_1", "_pt_temp_2", "x_dim_1", "out_dim", "acc"] := by decide

end Pt

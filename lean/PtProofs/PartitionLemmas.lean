/-
  Lemmas about the partitioner model (PtModel.Partition), milestone 1: batches and the
  communication skeleton of the partition.
-/
import PtProofs.DistGraph
import PtModel.Partition
set_option linter.unusedSectionVars false
namespace Pt.Dist

/-! ## batches produced by peeling -/

section PeelB
variable {α : Type} [DecidableEq α] (nodes : List α) (deps : α → List α)

theorem peelB_flatten : ∀ (k : Nat) (B : List (List α)),
    (peelB nodes deps k B).flatten = peelN nodes deps k B.flatten
  | 0, _ => rfl
  | k + 1, B => by
    simp only [peelB, peelN]
    rw [peelB_flatten k]
    simp [List.flatten_append]

theorem peelB_length : ∀ (k : Nat) (B : List (List α)), (peelB nodes deps k B).length = B.length + k
  | 0, _ => rfl
  | k + 1, B => by
    simp only [peelB]
    rw [peelB_length k]
    simp; omega

/-- invariant of the list of batches: members are nodes, dependencies sit in strictly earlier
    batches, no node is placed twice -/
structure BInv (B : List (List α)) : Prop where
  mem : ∀ (i : Nat) (b : List α), B[i]? = some b → ∀ c ∈ b, c ∈ nodes
  depsEarlier : ∀ (i : Nat) (b : List α), B[i]? = some b → ∀ c ∈ b, ∀ d ∈ deps c,
    ∃ j : Nat, j < i ∧ ∃ b' : List α, B[j]? = some b' ∧ d ∈ b'
  nodup : B.flatten.Nodup
  /-- a node is placed as soon as its dependencies are -/
  asap : ∀ (i : Nat) (b : List α), B[i]? = some b → ∀ c ∈ nodes,
    (∀ d ∈ deps c, ∃ j : Nat, j < i ∧ ∃ b' : List α, B[j]? = some b' ∧ d ∈ b') →
    ∃ j : Nat, j ≤ i ∧ ∃ b' : List α, B[j]? = some b' ∧ c ∈ b'

theorem binv_nil : BInv nodes deps ([] : List (List α)) :=
  ⟨by intro i b h; simp at h, by intro i b h; simp at h, by simp, by intro i b h; simp at h⟩

theorem getElem?_snoc_cases {β : Type} (B : List β) (x : β) (i : Nat) (b : β)
    (h : (B ++ [x])[i]? = some b) : B[i]? = some b ∨ (i = B.length ∧ b = x) := by
  by_cases hi : i < B.length
  · rw [List.getElem?_append_left hi] at h; exact Or.inl h
  · rw [List.getElem?_append_right (by omega)] at h
    by_cases h0 : i - B.length = 0
    · right
      rw [h0] at h
      simp at h
      exact ⟨by omega, h.symm⟩
    · have : ([x] : List β)[i - B.length]? = none := by
        apply List.getElem?_eq_none; simp; omega
      rw [this] at h; cases h

theorem binv_round (hn : nodes.Nodup) {B : List (List α)} (h : BInv nodes deps B) :
    BInv nodes deps (B ++ [peelNew nodes deps B.flatten]) := by
  refine ⟨?_, ?_, ?_, ?_⟩
  · intro i b hb c hc
    rcases getElem?_snoc_cases B _ i b hb with h1 | ⟨_, h2⟩
    · exact h.mem i b h1 c hc
    · subst h2; exact ((mem_peelNew nodes deps).1 hc).1
  · intro i b hb c hc d hd
    rcases getElem?_snoc_cases B _ i b hb with h1 | ⟨hi, h2⟩
    · obtain ⟨j, hj, b', hb', hdb⟩ := h.depsEarlier i b h1 c hc d hd
      refine ⟨j, hj, b', ?_, hdb⟩
      rw [List.getElem?_append_left (List.getElem?_eq_some_iff.1 hb').1]; exact hb'
    · subst h2
      have hdA := ((mem_peelNew nodes deps).1 hc).2.2 d hd
      obtain ⟨b', hb'B, hdb'⟩ := List.mem_flatten.1 hdA
      obtain ⟨j, hjlt, hj⟩ := List.mem_iff_getElem.1 hb'B
      refine ⟨j, by omega, b', ?_, hdb'⟩
      rw [List.getElem?_append_left hjlt, List.getElem?_eq_getElem hjlt, hj]
  · rw [List.flatten_append]
    simp only [List.flatten_cons, List.flatten_nil, List.append_nil]
    rw [List.nodup_append]
    refine ⟨h.nodup, ?_, ?_⟩
    · unfold peelNew
      exact List.Nodup.sublist List.filter_sublist hn
    · intro a ha b hb hab
      subst hab
      exact ((mem_peelNew nodes deps).1 hb).2.1 ha
  · intro i b hb c hc hdeps
    rcases getElem?_snoc_cases B _ i b hb with h1 | ⟨hi, _⟩
    · have hdeps' : ∀ d ∈ deps c, ∃ j : Nat, j < i ∧ ∃ b' : List α, B[j]? = some b' ∧ d ∈ b' := by
        intro d hd
        obtain ⟨j, hj, b', hb', hdb⟩ := hdeps d hd
        have hjl : j < B.length := by
          have := (List.getElem?_eq_some_iff.1 h1).1; omega
        rw [List.getElem?_append_left hjl] at hb'
        exact ⟨j, hj, b', hb', hdb⟩
      obtain ⟨j, hj, b', hb', hcb⟩ := h.asap i b h1 c hc hdeps'
      refine ⟨j, hj, b', ?_, hcb⟩
      rw [List.getElem?_append_left (List.getElem?_eq_some_iff.1 hb').1]; exact hb'
    · -- the new batch: c is already placed, or all its dependencies are and it is placed now
      by_cases hcA : c ∈ B.flatten
      · obtain ⟨b', hb'B, hcb'⟩ := List.mem_flatten.1 hcA
        obtain ⟨j, hjlt, hj⟩ := List.mem_iff_getElem.1 hb'B
        refine ⟨j, by omega, b', ?_, hcb'⟩
        rw [List.getElem?_append_left hjlt, List.getElem?_eq_getElem hjlt, hj]
      · have hdA : ∀ d ∈ deps c, d ∈ B.flatten := by
          intro d hd
          obtain ⟨j, hj, b', hb', hdb⟩ := hdeps d hd
          have hjl : j < B.length := by omega
          rw [List.getElem?_append_left hjl] at hb'
          exact List.mem_flatten.2 ⟨b', List.mem_of_getElem? hb', hdb⟩
        refine ⟨B.length, by omega, _, ?_, (mem_peelNew nodes deps).2 ⟨hc, hcA, hdA⟩⟩
        rw [List.getElem?_append_right (Nat.le_refl _)]; simp

theorem binv_peelB (hn : nodes.Nodup) : ∀ (k : Nat) (B : List (List α)),
    BInv nodes deps B → BInv nodes deps (peelB nodes deps k B)
  | 0, _, h => h
  | k + 1, B, h => by
    simp only [peelB]
    exact binv_peelB hn k _ (binv_round nodes deps hn h)

/-- in a list of lists whose concatenation has no duplicates an element sits in one list only -/
theorem flatten_nodup_unique {β : Type} : ∀ {B : List (List β)}, B.flatten.Nodup →
    ∀ {i j : Nat} {b b' : List β} {c : β}, B[i]? = some b → B[j]? = some b' → c ∈ b → c ∈ b' → i = j
  | [], _, i, _, _, _, _, h, _, _, _ => by simp at h
  | x :: t, hnd, i, j, b, b', c, hi, hj, hc, hc' => by
    rw [List.flatten_cons, List.nodup_append] at hnd
    obtain ⟨_, hnt, hdis⟩ := hnd
    cases i with
    | zero =>
      cases j with
      | zero => rfl
      | succ j =>
        simp at hi hj
        subst hi
        have : c ∈ t.flatten := List.mem_flatten.2 ⟨b', List.mem_of_getElem? hj, hc'⟩
        exact absurd rfl (hdis c hc c this)
    | succ i =>
      cases j with
      | zero =>
        simp at hi hj
        subst hj
        have : c ∈ t.flatten := List.mem_flatten.2 ⟨b, List.mem_of_getElem? hi, hc⟩
        exact absurd rfl (hdis c hc' c this)
      | succ j =>
        simp at hi hj
        have := flatten_nodup_unique hnt hi hj hc hc'
        omega

end PeelB

/-! ## the raw batches of a valid communication graph -/

/-- dependencies of sends are receives (of the sending rank): how the gatherer builds them -/
def DepsAreRecvs (g : CommGraph) : Prop := ∀ s ∈ g.sends, ∀ d ∈ s.depIds, d ∈ g.recvIds

theorem rawBatches_inv {g : CommGraph} (hv : Valid g) :
    BInv g.sendIds g.deps (rawBatches g) :=
  binv_peelB g.sendIds g.deps hv.sendsNodup _ _ (binv_nil _ _)

theorem rawBatches_length (g : CommGraph) : (rawBatches g).length = g.sendIds.length := by
  unfold rawBatches; rw [peelB_length]; simp

theorem recvIds_sub_sendIds {g : CommGraph} (hv : Valid g) : ∀ c ∈ g.recvIds, c ∈ g.sendIds := by
  intro c hc
  obtain ⟨v, hvm, hid⟩ := List.mem_map.1 hc
  exact hid ▸ hv.recvHasSend v hvm

/-- every message is placed in some batch -/
theorem rawBatches_complete {g : CommGraph} (hv : Valid g) (hd : DepsAreRecvs g) :
    ∀ c ∈ g.sendIds, ∃ (i : Nat) (b : List CommId), (rawBatches g)[i]? = some b ∧ c ∈ b := by
  obtain ⟨lvl, hl⟩ := hv.acyclic
  have hac : acyclicB g.sendIds g.deps = true := by
    apply acyclicB_complete g.sendIds g.deps lvl
    intro c _ d hdm
    obtain ⟨s, hs, hid, hds⟩ := mem_deps_iff.1 hdm
    exact ⟨recvIds_sub_sendIds hv d (hd s hs d hds), by rw [← hid]; exact hl s hs d hds⟩
  intro c hc
  have hmem : c ∈ peelN g.sendIds g.deps g.sendIds.length [] :=
    of_decide_eq_true (List.all_eq_true.1 hac c hc)
  have : c ∈ (rawBatches g).flatten := by
    unfold rawBatches; rw [peelB_flatten]; exact hmem
  obtain ⟨b, hbB, hcb⟩ := List.mem_flatten.1 this
  obtain ⟨i, hilt, hi⟩ := List.mem_iff_getElem.1 hbB
  exact ⟨i, b, by rw [List.getElem?_eq_getElem hilt, hi], hcb⟩

/-! ## local parts from batches -/

section Parts
variable (r : Nat) (B : List (List CommId))

theorem mem_candidates {p : SkelPart} :
    p ∈ candidates r B ↔ ∃ i, i ≤ B.length ∧ p = ⟨i, candRecvs r B i, candSends r B i⟩ := by
  unfold candidates
  rw [List.mem_map]
  constructor
  · rintro ⟨i, hi, rfl⟩; exact ⟨i, by have := List.mem_range.1 hi; omega, rfl⟩
  · rintro ⟨i, hi, rfl⟩; exact ⟨i, List.mem_range.2 (by omega), rfl⟩

/-- a part of `partsOf` is a candidate or the empty fallback part -/
theorem mem_partsOf {p : SkelPart} (h : p ∈ partsOf r B) :
    (p.recvs = candRecvs r B p.cand ∧ p.sends = candSends r B p.cand ∧ p.cand ≤ B.length) := by
  unfold partsOf at h
  by_cases hk : keptParts r B = []
  · rw [if_pos hk] at h
    have : p = ⟨0, [], []⟩ := by simpa using h
    subst this
    refine ⟨by simp [candRecvs], ?_, Nat.zero_le _⟩
    -- candidate 0 is empty (it was not kept): its sends are []
    have hc0 : (⟨0, candRecvs r B 0, candSends r B 0⟩ : SkelPart) ∈ candidates r B :=
      (mem_candidates r B).2 ⟨0, Nat.zero_le _, rfl⟩
    have hnot : (⟨0, candRecvs r B 0, candSends r B 0⟩ : SkelPart) ∉ keptParts r B := by
      rw [hk]; simp
    unfold keptParts at hnot
    rw [List.mem_filter] at hnot
    have hemp : (⟨0, candRecvs r B 0, candSends r B 0⟩ : SkelPart).isEmpty = true := by
      cases he : (⟨0, candRecvs r B 0, candSends r B 0⟩ : SkelPart).isEmpty with
      | true => rfl
      | false => exact absurd ⟨hc0, by simp [he]⟩ hnot
    unfold SkelPart.isEmpty at hemp
    simp only [Bool.and_eq_true, List.isEmpty_iff] at hemp
    exact hemp.2.symm
  · rw [if_neg hk] at h
    unfold keptParts at h
    obtain ⟨hc, _⟩ := List.mem_filter.1 h
    obtain ⟨i, hi, rfl⟩ := (mem_candidates r B).1 hc
    exact ⟨rfl, rfl, hi⟩

theorem mem_candSends {c : CommId} {i : Nat} :
    c ∈ candSends r B i ↔ ∃ b : List CommId, B[i]? = some b ∧ c ∈ b ∧ c.src = r := by
  unfold candSends
  rw [List.mem_filter, List.getD_eq_getElem?_getD]
  constructor
  · rintro ⟨hm, hs⟩
    cases hb : B[i]? with
    | none => simp [hb] at hm
    | some b => exact ⟨b, rfl, by simpa [hb] using hm, of_decide_eq_true hs⟩
  · rintro ⟨b, hb, hm, hs⟩
    exact ⟨by simpa [hb] using hm, decide_eq_true hs⟩

theorem mem_candRecvs {c : CommId} {i : Nat} :
    c ∈ candRecvs r B i ↔ 0 < i ∧ ∃ b : List CommId, B[i - 1]? = some b ∧ c ∈ b ∧ c.dst = r := by
  unfold candRecvs
  by_cases h0 : i = 0
  · simp [h0]
  · rw [if_neg h0, List.mem_filter, List.getD_eq_getElem?_getD]
    constructor
    · rintro ⟨hm, hs⟩
      cases hb : B[i - 1]? with
      | none => simp [hb] at hm
      | some b => exact ⟨by omega, b, rfl, by simpa [hb] using hm, of_decide_eq_true hs⟩
    · rintro ⟨_, b, hb, hm, hs⟩
      exact ⟨by simpa [hb] using hm, decide_eq_true hs⟩

/-- a non-empty candidate is a part -/
theorem cand_mem_partsOf {i : Nat} (hi : i ≤ B.length)
    (hne : candRecvs r B i ≠ [] ∨ candSends r B i ≠ []) :
    (⟨i, candRecvs r B i, candSends r B i⟩ : SkelPart) ∈ partsOf r B := by
  have hk : (⟨i, candRecvs r B i, candSends r B i⟩ : SkelPart) ∈ keptParts r B := by
    unfold keptParts
    rw [List.mem_filter]
    refine ⟨(mem_candidates r B).2 ⟨i, hi, rfl⟩, ?_⟩
    unfold SkelPart.isEmpty
    rcases hne with h | h
    · cases hr : candRecvs r B i with
      | nil => exact absurd hr h
      | cons a t => simp
    · cases hs : candSends r B i with
      | nil => exact absurd hs h
      | cons a t => simp
  unfold partsOf
  have : keptParts r B ≠ [] := List.ne_nil_of_mem hk
  rw [if_neg this]; exact hk

/-- the parts of a rank carry strictly increasing batch indices (pid order = batch order) -/
theorem partsOf_cand_increasing : (partsOf r B).Pairwise fun p q => p.cand < q.cand := by
  unfold partsOf
  by_cases hk : keptParts r B = []
  · rw [if_pos hk]; simp
  · rw [if_neg hk]
    unfold keptParts candidates
    apply List.Pairwise.filter
    rw [List.pairwise_map]
    exact List.pairwise_lt_range

end Parts

/-! ## the communication skeleton of a valid program -/

section Skeleton
variable {g : CommGraph}

/-- every send of rank `r` is in a part of `r`, namely the one of its batch -/
theorem skel_send_exists (hv : Valid g) (hd : DepsAreRecvs g) {c : CommId} (hc : c ∈ g.sendIds) :
    ∃ p ∈ partsOf c.src (rawBatches g), c ∈ p.sends := by
  obtain ⟨i, b, hb, hcb⟩ := rawBatches_complete hv hd c hc
  have hi : i < (rawBatches g).length := (List.getElem?_eq_some_iff.1 hb).1
  have hm : c ∈ candSends c.src (rawBatches g) i := (mem_candSends _ _).2 ⟨b, hb, hcb, rfl⟩
  exact ⟨_, cand_mem_partsOf _ _ (by omega) (Or.inr (List.ne_nil_of_mem hm)), hm⟩

/-- every receive of rank `r` is in a part of `r`: the one after its batch -/
theorem skel_recv_exists (hv : Valid g) (hd : DepsAreRecvs g) {c : CommId} (hc : c ∈ g.recvIds) :
    ∃ p ∈ partsOf c.dst (rawBatches g), c ∈ p.recvs := by
  obtain ⟨i, b, hb, hcb⟩ := rawBatches_complete hv hd c (recvIds_sub_sendIds hv c hc)
  have hi : i < (rawBatches g).length := (List.getElem?_eq_some_iff.1 hb).1
  have hm : c ∈ candRecvs c.dst (rawBatches g) (i + 1) :=
    (mem_candRecvs _ _).2 ⟨by omega, b, by simpa using hb, hcb, rfl⟩
  exact ⟨_, cand_mem_partsOf _ _ (by omega) (Or.inl (List.ne_nil_of_mem hm)), hm⟩

/-- … and in no other part -/
theorem skel_send_unique (hv : Valid g) {r : Nat} {p q : SkelPart} {c : CommId}
    (hp : p ∈ partsOf r (rawBatches g)) (hq : q ∈ partsOf r (rawBatches g))
    (hcp : c ∈ p.sends) (hcq : c ∈ q.sends) : p = q := by
  obtain ⟨hpr, hps, _⟩ := mem_partsOf r _ hp
  obtain ⟨hqr, hqs, _⟩ := mem_partsOf r _ hq
  rw [hps] at hcp; rw [hqs] at hcq
  obtain ⟨b, hb, hcb, _⟩ := (mem_candSends _ _).1 hcp
  obtain ⟨b', hb', hcb', _⟩ := (mem_candSends _ _).1 hcq
  have := flatten_nodup_unique (rawBatches_inv hv).nodup hb hb' hcb hcb'
  cases p; cases q
  simp only at hpr hps hqr hqs this
  subst this
  simp [hpr, hps, hqr, hqs]

theorem skel_recv_unique (hv : Valid g) {r : Nat} {p q : SkelPart} {c : CommId}
    (hp : p ∈ partsOf r (rawBatches g)) (hq : q ∈ partsOf r (rawBatches g))
    (hcp : c ∈ p.recvs) (hcq : c ∈ q.recvs) : p = q := by
  obtain ⟨hpr, hps, _⟩ := mem_partsOf r _ hp
  obtain ⟨hqr, hqs, _⟩ := mem_partsOf r _ hq
  rw [hpr] at hcp; rw [hqr] at hcq
  obtain ⟨h0, b, hb, hcb, _⟩ := (mem_candRecvs _ _).1 hcp
  obtain ⟨h0', b', hb', hcb', _⟩ := (mem_candRecvs _ _).1 hcq
  have := flatten_nodup_unique (rawBatches_inv hv).nodup hb hb' hcb hcb'
  have hcand : p.cand = q.cand := by omega
  cases p; cases q
  simp only at hpr hps hqr hqs hcand
  subst hcand
  simp [hpr, hps, hqr, hqs]

/-- the part that receives a message comes strictly after (in batch order) the part that
    sends it, on whatever ranks the two are -/
theorem skel_recv_after_send (hv : Valid g) {rs rd : Nat} {p q : SkelPart} {c : CommId}
    (hq : q ∈ partsOf rs (rawBatches g)) (hp : p ∈ partsOf rd (rawBatches g))
    (hcq : c ∈ q.sends) (hcp : c ∈ p.recvs) : q.cand < p.cand := by
  obtain ⟨hpr, _, _⟩ := mem_partsOf rd _ hp
  obtain ⟨_, hqs, _⟩ := mem_partsOf rs _ hq
  rw [hpr] at hcp; rw [hqs] at hcq
  obtain ⟨h0, b, hb, hcb, _⟩ := (mem_candRecvs _ _).1 hcp
  obtain ⟨b', hb', hcb', _⟩ := (mem_candSends _ _).1 hcq
  have := flatten_nodup_unique (rawBatches_inv hv).nodup hb hb' hcb hcb'
  omega

/-- a send's part comes no earlier than the parts holding the receives its payload depends on -/
theorem skel_send_after_deps (hv : Valid g) {r : Nat} {q : SkelPart}
    {c d : CommId} (hq : q ∈ partsOf r (rawBatches g)) (hcq : c ∈ q.sends) (hdc : d ∈ g.deps c) :
    ∃ p ∈ partsOf d.dst (rawBatches g), d ∈ p.recvs ∧ p.cand ≤ q.cand := by
  obtain ⟨_, hqs, _⟩ := mem_partsOf r _ hq
  rw [hqs] at hcq
  obtain ⟨b, hb, hcb, _⟩ := (mem_candSends _ _).1 hcq
  obtain ⟨j, hj, b', hb', hdb'⟩ := (rawBatches_inv hv).depsEarlier _ b hb c hcb d hdc
  have hjl : j < (rawBatches g).length := (List.getElem?_eq_some_iff.1 hb').1
  have hm : d ∈ candRecvs d.dst (rawBatches g) (j + 1) :=
    (mem_candRecvs _ _).2 ⟨by omega, b', by simpa using hb', hdb', rfl⟩
  exact ⟨_, cand_mem_partsOf _ _ (by omega) (Or.inl (List.ne_nil_of_mem hm)), hm, by simp; omega⟩

/-- within one part every receive belongs to an earlier batch than every send -/
theorem skel_part_recv_before_send {r : Nat} {p : SkelPart} {c d : CommId}
    (hp : p ∈ partsOf r (rawBatches g)) (hc : c ∈ p.recvs) (hd : d ∈ p.sends) :
    ∃ (i j : Nat) (b b' : List CommId),
      (rawBatches g)[i]? = some b ∧ c ∈ b ∧ (rawBatches g)[j]? = some b' ∧ d ∈ b' ∧ i < j := by
  obtain ⟨hpr, hps, _⟩ := mem_partsOf r _ hp
  rw [hpr] at hc; rw [hps] at hd
  obtain ⟨h0, b, hb, hcb, _⟩ := (mem_candRecvs _ _).1 hc
  obtain ⟨b', hb', hdb', _⟩ := (mem_candSends _ _).1 hd
  exact ⟨_, _, b, b', hb, hcb, hb', hdb', by omega⟩

end Skeleton

end Pt.Dist

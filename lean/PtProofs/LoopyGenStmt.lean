/-
  C01 generator model, statement level: what executing one generated store does — over the box
  of its inames it writes, at every in-bounds index, the value of the right-hand side there
  (evaluated in the store before the statement), and nothing else.
-/
import PtProofs.LoopyGenExpr
namespace Pt
namespace LG

/-! ## the iteration points of a box -/

/-- the loop environment of the point `q`: innermost loop first -/
def pointEnv (inames : List String) (q : Idx) (acc : List (String × Int)) : List (String × Int) :=
  match inames, q with
  | i :: is, k :: ks => pointEnv is ks ((i, (k : Int)) :: acc)
  | _, _ => acc

/-- all points of the box, outer loops first -/
def boxPoints : List String → Shape → List (String × Int) → List (List (String × Int))
  | i :: is, d :: ds, acc => (List.range d).flatMap fun (k : Nat) => boxPoints is ds ((i, (k : Int)) :: acc)
  | _, _, acc => [acc]

theorem iterPoints_box (σ : Store) : ∀ (inames : List String) (shape : Shape) (acc : List (String × Int)),
    inames.length = shape.length →
    iterPoints σ (box inames shape) acc = boxPoints inames shape acc
  | [], [], acc, _ => by simp [box, iterPoints, boxPoints]
  | [], _ :: _, _, h => by simp at h
  | _ :: _, [], _, h => by simp at h
  | i :: is, d :: ds, acc, h => by
    have ih := fun acc' => iterPoints_box σ is ds acc' (by simpa using h)
    simp only [box, List.zip_cons_cons, List.map_cons, iterPoints, eval, Val.toInt?, boxPoints]
    simp only [Int.sub_zero, Int.toNat_natCast, Int.zero_add]
    congr 1
    funext k
    exact ih _

theorem mem_boxPoints : ∀ (inames : List String) (shape : Shape) (acc Γ : List (String × Int)),
    inames.length = shape.length →
    (Γ ∈ boxPoints inames shape acc ↔ ∃ q, inB shape q = true ∧ Γ = pointEnv inames q acc)
  | [], [], acc, Γ, _ => by
    simp only [boxPoints, List.mem_singleton]
    constructor
    · intro h; exact ⟨[], rfl, by simp [pointEnv, h]⟩
    · rintro ⟨q, hq, rfl⟩
      cases q with
      | nil => simp [pointEnv]
      | cons _ _ => simp [inB] at hq
  | [], _ :: _, _, _, h => by simp at h
  | _ :: _, [], _, _, h => by simp at h
  | i :: is, d :: ds, acc, Γ, h => by
    have ih := fun acc' => mem_boxPoints is ds acc' Γ (by simpa using h)
    simp only [boxPoints, List.mem_flatMap, List.mem_range]
    constructor
    · rintro ⟨k, hk, hm⟩
      obtain ⟨q, hq, rfl⟩ := (ih _).1 hm
      exact ⟨k :: q, by simp [inB, hk, hq], by simp [pointEnv]⟩
    · rintro ⟨q, hq, rfl⟩
      cases q with
      | nil => simp [inB] at hq
      | cons k q =>
        simp only [inB, Bool.and_eq_true, decide_eq_true_eq] at hq
        exact ⟨k, hq.1, (ih _).2 ⟨q, hq.2, by simp [pointEnv]⟩⟩

/-! ## looking the inames up at a point -/

theorem lookupIxL_cons (Γ : List (String × Int)) (i x : String) (v : Int) :
    lookupIxL ((i, v) :: Γ) x = if i = x then some v else lookupIxL Γ x := by
  unfold lookupIxL
  by_cases h : i = x
  · rw [List.find?_cons_of_pos (by simpa using h), if_pos h]; rfl
  · rw [List.find?_cons_of_neg (by simpa using h), if_neg h]

/-- names bound further out are found through the inner loops when they are not rebound -/
theorem lookup_pointEnv_outer : ∀ (inames : List String) (q : Idx) (acc : List (String × Int)) (x : String),
    x ∉ inames → lookupIxL (pointEnv inames q acc) x = lookupIxL acc x
  | [], _, acc, x, _ => by simp [pointEnv]
  | _ :: _, [], acc, x, _ => by simp [pointEnv]
  | i :: is, k :: ks, acc, x, h => by
    simp only [List.mem_cons, not_or] at h
    simp only [pointEnv]
    rw [lookup_pointEnv_outer is ks _ x h.2, lookupIxL_cons, if_neg (fun e => h.1 e.symm)]

theorem evalList_inameVars (σ : Store) : ∀ (inames : List String) (q : Idx) (acc : List (String × Int)),
    inames.Nodup → inames.length = q.length →
    ∀ (outer : List String), (∀ x ∈ outer, x ∉ inames) →
    evalList { pt := [], ix := pointEnv inames q acc, arr := σ } (inameVars inames) = idxVals q
  | [], [], _, _, _, _, _ => by simp [inameVars, evalList, idxVals]
  | [], _ :: _, _, _, h, _, _ => by simp at h
  | _ :: _, [], _, _, h, _, _ => by simp at h
  | i :: is, k :: ks, acc, hnd, hlen, outer, ho => by
    have hnd' := List.nodup_cons.1 hnd
    have ih := evalList_inameVars σ is ks ((i, (k : Int)) :: acc) hnd'.2 (by simpa using hlen) [] (by simp)
    unfold inameVars at ih ⊢
    unfold idxVals at ih ⊢
    simp only [List.map_cons, evalList, pointEnv, ih]
    congr 1
    have hl : Env.lookupIx { pt := [], ix := pointEnv is ks ((i, (k : Int)) :: acc), arr := σ } i
        = some (k : Int) := by
      show lookupIxL _ i = _
      rw [lookup_pointEnv_outer is ks _ i hnd'.1, lookupIxL_cons, if_pos rfl]
    simp only [eval, hl]

theorem idxVals_injective : ∀ {q q' : Idx}, idxVals q = idxVals q' → q = q'
  | [], [], _ => rfl
  | [], _ :: _, h => by simp [idxVals] at h
  | _ :: _, [], h => by simp [idxVals] at h
  | k :: q, k' :: q', h => by
    unfold idxVals at h
    simp only [List.map_cons, List.cons.injEq, Val.i.injEq, Int.natCast_inj] at h
    rw [h.1, idxVals_injective (q := q) (q' := q') h.2]

theorem pointEnv_eq {σ : Store} {inames : List String} (hnd : inames.Nodup) {q q' : Idx}
    (h1 : inames.length = q.length) (h2 : inames.length = q'.length)
    (he : pointEnv inames q [] = pointEnv inames q' []) : q = q' := by
  have e1 := evalList_inameVars σ inames q [] hnd h1 [] (by simp)
  have e2 := evalList_inameVars σ inames q' [] hnd h2 [] (by simp)
  rw [he] at e1
  exact idxVals_injective (e1.symm.trans e2)

/-! ## executing a store -/

theorem Arr.write_get (a : Arr Val) (i j : Idx) (v : Val) :
    (a.write i v).get j = if j = i then v else a.get j := rfl

theorem Arr.write_shape (a : Arr Val) (i : Idx) (v : Val) : (a.write i v).shape = a.shape := rfl

/-- the private scalars of an iteration do not depend on an array their expressions do not read -/
theorem bindLets_agree (y : String) (Γ : List (String × Int)) :
    ∀ (lets : List (String × SExpr)) (σc σ : Store),
      (∀ x, x ≠ y → σc.get? x = σ.get? x) → (∀ l ∈ lets, y ∉ readNames l.2) →
      ∀ x, x ≠ y → (bindLets Γ lets σc).get? x = (bindLets Γ lets σ).get? x
  | [], _, _, h, _ => h
  | (t, e) :: rest, σc, σ, h, hr => by
    simp only [bindLets]
    have hv : eval { pt := [], ix := Γ, arr := σc } e = eval { pt := [], ix := Γ, arr := σ } e :=
      eval_congr e { pt := [], ix := Γ, arr := σc } { pt := [], ix := Γ, arr := σ } rfl rfl
        (fun x hx => h x (fun e' => hr (t, e) (by simp) (e' ▸ hx)))
    rw [hv]
    apply bindLets_agree y Γ rest
    · intro x hx
      rw [Store.get?_cons, Store.get?_cons]
      by_cases htx : t = x
      · rw [if_pos htx, if_pos htx]
      · rw [if_neg htx, if_neg htx]; exact h x hx
    · exact fun l hl => hr l (List.mem_cons_of_mem _ hl)

/-- the points of a loop nest are executed one after the other: every point writes its own
    element, computed — with the iteration's private scalars — in the store before the statement -/
theorem foldl_execPoint_box (s : KStmt) (inames : List String) (σ : Store)
    (hlets : ∀ l ∈ s.lets, s.lhs ∉ readNames l.2) (hidx : s.lhsIdx = inameVars inames) (hnd : inames.Nodup)
    (hread : s.lhs ∉ readNames s.rhs) :
    ∀ (L : List (List (String × Int))) (σc : Store) (ac : Arr Val),
      (∀ Γ ∈ L, ∃ q, inames.length = q.length ∧ Γ = pointEnv inames q []) →
      (∀ x, x ≠ s.lhs → σc.get? x = σ.get? x) → σc.get? s.lhs = some ac →
      ∃ b, (L.foldl (execPoint s) σc).get? s.lhs = some b ∧ b.shape = ac.shape ∧
        (∀ x, x ≠ s.lhs → (L.foldl (execPoint s) σc).get? x = σ.get? x) ∧
        ∀ q, inames.length = q.length →
          (pointEnv inames q [] ∈ L →
            b.get q = eval { pt := [], ix := pointEnv inames q [],
                             arr := bindLets (pointEnv inames q []) s.lets σ } s.rhs) ∧
          (pointEnv inames q [] ∉ L → b.get q = ac.get q)
  | [], σc, ac, _, hσ, hac => by
    refine ⟨ac, hac, rfl, hσ, fun q _ => ⟨fun h => by simp at h, fun _ => rfl⟩⟩
  | Γ0 :: L, σc, ac, hL, hσ, hac => by
    obtain ⟨q0, hq0, rfl⟩ := hL Γ0 (by simp)
    -- one point
    have hv : eval { pt := [], ix := pointEnv inames q0 [], arr := bindLets (pointEnv inames q0 []) s.lets σc } s.rhs
        = eval { pt := [], ix := pointEnv inames q0 [], arr := bindLets (pointEnv inames q0 []) s.lets σ } s.rhs := by
      exact eval_congr s.rhs
        { pt := [], ix := pointEnv inames q0 [], arr := bindLets (pointEnv inames q0 []) s.lets σc }
        { pt := [], ix := pointEnv inames q0 [], arr := bindLets (pointEnv inames q0 []) s.lets σ } rfl rfl
        (fun x hx => bindLets_agree s.lhs _ s.lets σc σ hσ hlets x (fun e => hread (e ▸ hx)))
    have hi : toNatIdx (evalList { pt := [], ix := pointEnv inames q0 [], arr := bindLets (pointEnv inames q0 []) s.lets σc } s.lhsIdx) = some q0 := by
      rw [hidx, evalList_inameVars _ inames q0 [] hnd hq0 [] (by simp), toNatIdx_idxVals]
    have hstep : execPoint s σc (pointEnv inames q0 []) =
        σc.write s.lhs q0 (eval { pt := [], ix := pointEnv inames q0 [], arr := bindLets (pointEnv inames q0 []) s.lets σ } s.rhs) := by
      unfold execPoint
      simp only [hi, hv]
    simp only [List.foldl_cons, hstep]
    have hac' : (σc.write s.lhs q0 (eval { pt := [], ix := pointEnv inames q0 [], arr := bindLets (pointEnv inames q0 []) s.lets σ } s.rhs)).get? s.lhs
        = some (ac.write q0 (eval { pt := [], ix := pointEnv inames q0 [], arr := bindLets (pointEnv inames q0 []) s.lets σ } s.rhs)) := by
      rw [Store.get?_write_self, hac]; rfl
    have hσ' : ∀ x, x ≠ s.lhs →
        (σc.write s.lhs q0 (eval { pt := [], ix := pointEnv inames q0 [], arr := bindLets (pointEnv inames q0 []) s.lets σ } s.rhs)).get? x = σ.get? x := by
      intro x hx
      rw [Store.get?_write_ne _ _ _ _ _ hx]; exact hσ x hx
    obtain ⟨b, hb, hbs, hbσ, hbq⟩ := foldl_execPoint_box s inames σ hlets hidx hnd hread L _ _
      (fun Γ hΓ => hL Γ (List.mem_cons_of_mem _ hΓ)) hσ' hac'
    refine ⟨b, hb, by rw [hbs, Arr.write_shape], hbσ, fun q hq => ?_⟩
    obtain ⟨hin, hout⟩ := hbq q hq
    by_cases hmem : pointEnv inames q [] ∈ L
    · exact ⟨fun _ => hin hmem, fun h => absurd (List.mem_cons_of_mem _ hmem) h⟩
    · by_cases hqq : q = q0
      · subst hqq
        refine ⟨fun _ => ?_, fun h => absurd (List.mem_cons_self) h⟩
        rw [hout hmem, Arr.write_get, if_pos rfl]
      · refine ⟨fun h => ?_, fun _ => ?_⟩
        · rcases List.mem_cons.1 h with h | h
          · exact absurd (pointEnv_eq (σ := σ) hnd hq hq0 h) hqq
          · exact absurd h hmem
        · rw [hout hmem, Arr.write_get, if_neg hqq]

/-- **one generated store.**  With the box `inames × shape` (as many distinct inames as axes, no
    empty axis), private scalars and a right-hand side that do not read the array the statement
    writes, the statement replaces exactly the in-bounds elements of that array, each by the value
    of the right-hand side at that point — with the iteration's private scalars — in the store before
    the statement; every other array is left alone. -/
theorem execStmt_storeL (σ : Store) (id name : String) (inames : List String) (shape : Shape)
    (lets : List (String × SExpr)) (rhs : SExpr) (deps : List String) (a : Arr Val)
    (hne : isEmptyShape shape = false) (hlen : inames.length = shape.length) (hnd : inames.Nodup)
    (ha : σ.get? name = some a) (hread : name ∉ readNames rhs) (hlets : ∀ l ∈ lets, name ∉ readNames l.2) :
    ∃ b, (execStmt σ (storeStmt id name inames shape lets rhs deps)).get? name = some b ∧ b.shape = a.shape ∧
      (∀ x, x ≠ name → (execStmt σ (storeStmt id name inames shape lets rhs deps)).get? x = σ.get? x) ∧
      ∀ q, inames.length = q.length →
        b.get q = if inB shape q = true then
                    eval { pt := [], ix := pointEnv inames q [], arr := bindLets (pointEnv inames q []) lets σ } rhs
                  else a.get q := by
  have hs : storeStmt id name inames shape lets rhs deps =
      { id := id, lhs := name, lhsIdx := inameVars inames, loops := box inames shape, lets := lets, rhs := rhs,
        deps := normDeps deps } := by
    unfold storeStmt; rw [hne]; rfl
  rw [hs]
  unfold execStmt
  simp only [Bool.false_eq_true, if_false, iterPoints_box σ inames shape [] hlen]
  obtain ⟨b, hb, hbs, hbσ, hbq⟩ := foldl_execPoint_box
    { id := id, lhs := name, lhsIdx := inameVars inames, loops := box inames shape, lets := lets, rhs := rhs,
      deps := normDeps deps } inames σ hlets rfl hnd hread (boxPoints inames shape []) σ a
    (by
      intro Γ hΓ
      obtain ⟨q, hq, rfl⟩ := (mem_boxPoints inames shape [] Γ hlen).1 hΓ
      exact ⟨q, by rw [hlen, inB_length hq], rfl⟩)
    (fun _ _ => rfl) ha
  refine ⟨b, hb, hbs, hbσ, fun q hq => ?_⟩
  obtain ⟨hin, hout⟩ := hbq q hq
  by_cases hB : inB shape q = true
  · rw [if_pos hB]
    exact hin ((mem_boxPoints inames shape [] _ hlen).2 ⟨q, hB, rfl⟩)
  · rw [if_neg hB]
    apply hout
    intro hm
    obtain ⟨q', hq', he⟩ := (mem_boxPoints inames shape [] _ hlen).1 hm
    have : q = q' := pointEnv_eq (σ := σ) hnd hq (by rw [hlen, inB_length hq']) he
    exact hB (this ▸ hq')

/-- the same without private scalars -/
theorem execStmt_store (σ : Store) (id name : String) (inames : List String) (shape : Shape)
    (rhs : SExpr) (deps : List String) (a : Arr Val)
    (hne : isEmptyShape shape = false) (hlen : inames.length = shape.length) (hnd : inames.Nodup)
    (ha : σ.get? name = some a) (hread : name ∉ readNames rhs) :
    ∃ b, (execStmt σ (storeStmt id name inames shape [] rhs deps)).get? name = some b ∧ b.shape = a.shape ∧
      (∀ x, x ≠ name → (execStmt σ (storeStmt id name inames shape [] rhs deps)).get? x = σ.get? x) ∧
      ∀ q, inames.length = q.length →
        b.get q = if inB shape q = true then eval { pt := [], ix := pointEnv inames q [], arr := σ } rhs
                  else a.get q :=
  execStmt_storeL σ id name inames shape [] rhs deps a hne hlen hnd ha hread (by simp)

end LG
end Pt

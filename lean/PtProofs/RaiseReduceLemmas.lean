/-
  Property C19, the `ReduceOp` stage: a reduction recognised by
  `_is_normal_reduce_expr` denotes NumPy's reduction over the recorded axes —
  provided the side conditions `reduceSideOK` that the real check omits.
-/
import PtProofs.RaiseLemmas
import PtProofs.BasicIndexLemmas
import PtProofs.KernelLemmas
namespace Pt
namespace Raise
open Lower Spec

/-! ### nested reductions -/

def nest (op : RedOp) : List (String × SExpr × SExpr) → SExpr → SExpr
  | [], inner => inner
  | (v, lo, hi) :: bs, inner => .reduce op v lo hi (nest op bs inner)

theorem peel_spec (op : RedOp) : ∀ (e : SExpr), nest op (peelReduce op e).1 (peelReduce op e).2 = e
  | .reduce op' v lo hi body => by
    by_cases h : op' = op
    · subst h
      simp only [peelReduce, if_true, nest, peel_spec op' body]
    · simp [peelReduce, h, nest]
  | .int _ | .bool _ | .rat _ _ | .nan | .idx _ | .var _ | .sub _ _ | .add _ _ | .mul _ _
  | .quot _ _ | .fdiv _ _ | .rem _ _ | .pow _ _ | .cmp _ _ _ | .land _ _ | .lor _ _ | .lnot _
  | .ite _ _ _ | .call _ _ | .cast _ _ => by simp [peelReduce, nest]

/-! ### what `normalReduceAxes` establishes -/

theorem varPositions_mem : ∀ (ix : List SExpr) (j d : Nat) (v : String),
    (d, v) ∈ varPositions ix j → j ≤ d ∧ ix[d - j]? = some (.var v)
  | [], _, _, _, h => by simp [varPositions] at h
  | e :: rest, j, d, v, h => by
    have step : (d, v) ∈ varPositions rest (j + 1) → j ≤ d ∧ (e :: rest)[d - j]? = some (.var v) := by
      intro h'
      obtain ⟨h1, h2⟩ := varPositions_mem rest (j + 1) d v h'
      refine ⟨by omega, ?_⟩
      have : d - j = (d - (j + 1)) + 1 := by omega
      rw [this, List.getElem?_cons_succ]; exact h2
    cases e with
    | var w =>
      simp only [varPositions, List.mem_cons, Prod.mk.injEq] at h
      rcases h with ⟨rfl, rfl⟩ | h
      · simp
      · exact step h
    | _ => exact step (by simpa [varPositions] using h)

/-- the recorded axes are the positions of the (non-`_k`) variables of the subscript -/
theorem normalReduceAxes_eq (bounds : List (String × SExpr × SExpr)) (s shape : Shape) :
    ∀ (ix : List SExpr) (idim iout : Nat) (axes : List (Nat × String)),
      normalReduceAxes bounds s shape ix idim iout = some axes → axes = varPositions ix idim
  | [], _, _, axes, h => by simp only [normalReduceAxes, Option.some.injEq] at h; subst h; rfl
  | e :: rest, idim, iout, axes, h => by
    cases e with
    | var v =>
      simp only [normalReduceAxes] at h
      split at h
      · split at h
        · obtain ⟨ax', h', rfl⟩ := Option.map_eq_some_iff.mp h
          rw [normalReduceAxes_eq bounds s shape rest _ _ ax' h']; rfl
        · cases h
      · cases h
    | idx k =>
      simp only [normalReduceAxes] at h
      split at h
      · rw [normalReduceAxes_eq bounds s shape rest _ _ axes h]; rfl
      · cases h
    | _ => simp [normalReduceAxes] at h

/-- every reduced position: its variable is bound `0 ≤ · < s[d]` (by the first
    bound of that name) and `d` is an axis of the operand -/
theorem normalReduceAxes_bounds (bounds : List (String × SExpr × SExpr)) (s shape : Shape) :
    ∀ (ix : List SExpr) (idim iout : Nat) (axes : List (Nat × String)),
      normalReduceAxes bounds s shape ix idim iout = some axes →
      ∀ d v, (d, v) ∈ varPositions ix idim → d < s.length ∧
        ∃ w, bounds.find? (·.1 == v) = some (w, .int 0, .int ((s.getD d 0 : Nat) : Int))
  | [], _, _, _, _, d, v, hm => by simp [varPositions] at hm
  | e :: rest, idim, iout, axes, h, d, v, hm => by
    cases e with
    | var u =>
      simp only [normalReduceAxes] at h
      split at h
      · rename_i w lo hi hf
        split at h
        · rename_i hc
          obtain ⟨ax', h', _⟩ := Option.map_eq_some_iff.mp h
          simp only [varPositions, List.mem_cons, Prod.mk.injEq] at hm
          rcases hm with ⟨rfl, rfl⟩ | hm
          · refine ⟨hc.2.1, w, ?_⟩
            rw [hf, hc.1, hc.2.2]
          · exact normalReduceAxes_bounds bounds s shape rest _ _ ax' h' d v hm
        · cases h
      · cases h
    | idx k =>
      simp only [normalReduceAxes] at h
      split at h
      · exact normalReduceAxes_bounds bounds s shape rest _ _ axes h d v
          (by simpa [varPositions] using hm)
      · cases h
    | _ => simp [normalReduceAxes] at h

/-! ### the leaf: the subscript evaluates to the index `buildIdx` builds -/

/-- sequential invariant of `_is_normal_reduce_expr`'s loop against `buildIdx` -/
theorem leaf_index (bounds : List (String × SExpr × SExpr)) (s shape : Shape) (env : Env)
    (fixed : List (Nat × Nat)) (hpt : inB shape env.pt = true) :
    ∀ (ix : List SExpr) (idim iout : Nat) (axes : List (Nat × String)),
      normalReduceAxes bounds s shape ix idim iout = some axes →
      (∀ d v, (d, v) ∈ varPositions ix idim →
        ∃ k : Nat, env.lookupIx v = some (k : Int) ∧ fixed.find? (·.1 == d) = some (d, k)) →
      (∀ p j, ix[p]? = some (.idx j) → fixed.find? (·.1 == idim + p) = none) →
      toNatIdx (evalList env ix) = some (buildIdx fixed idim ix.length (env.pt.drop iout))
  | [], _, _, _, _, _, _ => by simp [evalList, toNatIdx, buildIdx]
  | e :: rest, idim, iout, axes, h, hcov, hnon => by
    cases e with
    | var v =>
      simp only [normalReduceAxes] at h
      split at h
      · split at h
        · obtain ⟨ax', h', _⟩ := Option.map_eq_some_iff.mp h
          obtain ⟨k, hk1, hk2⟩ := hcov idim v (by simp [varPositions])
          have ih := leaf_index bounds s shape env fixed hpt rest (idim + 1) iout ax' h'
            (fun d w hm => hcov d w (by simp [varPositions, hm]))
            (fun p j hp => by
              have := hnon (p + 1) j (by simpa using hp)
              have e : idim + (p + 1) = idim + 1 + p := by omega
              rw [e] at this; exact this)
          simp only [evalList, eval, hk1, List.length_cons, buildIdx, hk2]
          rw [toNatIdx_cons_i (k : Int) (Int.natCast_nonneg k) _ _ ih]
          simp
        · cases h
      · cases h
    | idx k =>
      simp only [normalReduceAxes] at h
      split at h
      · rename_i hc
        obtain ⟨rfl, _, hio, _⟩ := hc
        have hnone := hnon 0 k (by simp)
        simp only [Nat.add_zero] at hnone
        have hlen := inB_length hpt
        have hk : k < env.pt.length := by omega
        have ih := leaf_index bounds s shape env fixed hpt rest (idim + 1) (k + 1) axes h
          (fun d w hm => hcov d w (by simpa [varPositions] using hm))
          (fun p j hp => by
            have := hnon (p + 1) j (by simpa using hp)
            have e : idim + (p + 1) = idim + 1 + p := by omega
            rw [e] at this; exact this)
        have hhead : (env.pt.drop k).headD 0 = env.pt[k] := by
          rw [List.drop_eq_getElem_cons hk]; rfl
        have htail : (env.pt.drop k).tail = env.pt.drop (k + 1) := by
          rw [List.drop_eq_getElem_cons hk]; rfl
        simp only [evalList, eval, List.getElem?_eq_getElem hk, List.length_cons, buildIdx, hnone,
          hhead, htail]
        rw [toNatIdx_cons_i (env.pt[k] : Int) (Int.natCast_nonneg _) _ _ ih]
        simp
      · cases h
    | _ => simp [normalReduceAxes] at h

/-! ### the reduction variables processed so far -/

/-- (dim, variable, value) -/
abbrev Proc := Nat × String × Nat

def ixOf (P : List Proc) : List (String × Int) := P.map fun p => (p.2.1, (p.2.2 : Int))
def fixedOf (P : List Proc) : List (Nat × Nat) := P.map fun p => (p.1, p.2.2)

theorem find_ixOf : ∀ (P : List Proc) (p : Proc), p ∈ P → (∀ q ∈ P, q.2.1 = p.2.1 → q = p) →
    (ixOf P).find? (·.1 == p.2.1) = some (p.2.1, (p.2.2 : Int))
  | [], _, h, _ => by simp at h
  | q :: P, p, h, hu => by
    simp only [ixOf, List.map_cons]
    by_cases hq : q.2.1 = p.2.1
    · have := hu q (by simp) hq
      subst this
      rw [List.find?_cons_of_pos (by simp)]
    · rw [List.find?_cons_of_neg (by simpa using hq)]
      simp only [List.mem_cons] at h
      rcases h with rfl | h
      · exact absurd rfl hq
      · exact find_ixOf P p h (fun r hr => hu r (by simp [hr]))

theorem find_fixedOf : ∀ (P : List Proc) (p : Proc), p ∈ P → (∀ q ∈ P, q.1 = p.1 → q = p) →
    (fixedOf P).find? (·.1 == p.1) = some (p.1, p.2.2)
  | [], _, h, _ => by simp at h
  | q :: P, p, h, hu => by
    simp only [fixedOf, List.map_cons]
    by_cases hq : q.1 = p.1
    · have := hu q (by simp) hq
      subst this
      rw [List.find?_cons_of_pos (by simp)]
    · rw [List.find?_cons_of_neg (by simpa using hq)]
      simp only [List.mem_cons] at h
      rcases h with rfl | h
      · exact absurd rfl hq
      · exact find_fixedOf P p h (fun r hr => hu r (by simp [hr]))

theorem find_fixedOf_none (P : List Proc) (d : Nat) (h : ∀ q ∈ P, q.1 ≠ d) :
    (fixedOf P).find? (·.1 == d) = none := by
  rw [List.find?_eq_none]
  intro x hx
  obtain ⟨q, hq, rfl⟩ := List.mem_map.mp hx
  simpa using h q hq

theorem varPositions_functional (ix : List SExpr) (j d : Nat) (v w : String)
    (h1 : (d, v) ∈ varPositions ix j) (h2 : (d, w) ∈ varPositions ix j) : v = w := by
  have a := (varPositions_mem ix j d v h1).2
  have b := (varPositions_mem ix j d w h2).2
  rw [a] at b
  simpa using b

/-! ### nested evaluation = nested NumPy reduction -/

theorem reduce_main (op : RedOp) (arr : Arr Val) (aname : String) (env : List (String × Arr Val))
    (hl : lookupEnv env aname = some arr) (ix : List SExpr) (out : Idx) (shape : Shape)
    (hout : inB shape out = true) (bounds : List (String × SExpr × SExpr))
    (axes : List (Nat × String))
    (hax : normalReduceAxes bounds arr.shape shape ix 0 0 = some axes)
    (hrank : ix.length = arr.shape.length) :
    ∀ (rest : List (String × SExpr × SExpr)) (P : List Proc),
      (∀ b ∈ rest, ∃ d, (varPositions ix 0).filter (·.2 == b.1) = [(d, b.1)] ∧
        b.2 = (SExpr.int 0, SExpr.int ((arr.shape.getD d 0 : Nat) : Int))) →
      (∀ d v, (d, v) ∈ varPositions ix 0 → (∃ k, (d, v, k) ∈ P) ∨ (∃ b ∈ rest, b.1 = v)) →
      (∀ p ∈ P, (p.1, p.2.1) ∈ varPositions ix 0) →
      (P.map (·.2.1) ++ rest.map (·.1)).Nodup →
      eval ⟨out, ixOf P, env⟩ (nest op rest (.sub aname ix))
        = reduceOver op arr out
            (rest.flatMap fun b => (varPositions ix 0).filter (·.2 == b.1)) (fixedOf P)
  | [], P, _, hcov, hP, hnd => by
    simp only [List.map_nil, List.append_nil] at hnd
    have huniq : ∀ p ∈ P, ∀ q ∈ P, q.2.1 = p.2.1 → q = p := fun p hp q hq e =>
      eq_of_map_eq_of_nodup (fun (r : Proc) => r.2.1) P hnd hq hp e
    have hleaf := leaf_index bounds arr.shape shape ⟨out, ixOf P, env⟩ (fixedOf P) hout ix 0 0 axes
      hax
      (fun d v hm => by
        rcases hcov d v hm with ⟨k, hk⟩ | ⟨b, hb, _⟩
        · refine ⟨k, ?_, ?_⟩
          · have := find_ixOf P (d, v, k) hk (huniq _ hk)
            simp only [Env.lookupIx, this, Option.map_some]
          · exact find_fixedOf P (d, v, k) hk (fun q hq e => by
              apply huniq _ hk q hq
              have e' : q.1 = d := e
              exact varPositions_functional ix 0 d q.2.1 v (by rw [← e']; exact hP q hq) hm)
        · simp at hb)
      (fun p j hp => by
        apply find_fixedOf_none
        intro q hq e
        have := (varPositions_mem ix 0 q.1 q.2.1 (hP q hq)).2
        rw [e] at this
        simp only [Nat.zero_add, Nat.sub_zero] at this
        rw [hp] at this
        cases this)
    simp only [nest, List.flatMap_nil, reduceOver, List.drop_zero] at hleaf ⊢
    have hla : Env.lookupArr ⟨out, ixOf P, env⟩ aname = some arr := hl
    simp only [eval, hla, hleaf, hrank]
  | b :: rest, P, hrest, hcov, hP, hnd => by
    obtain ⟨v, lo, hi⟩ := b
    obtain ⟨d, hfil, hb⟩ := hrest (v, lo, hi) (by simp)
    simp only [Prod.mk.injEq] at hb
    obtain ⟨rfl, rfl⟩ := hb
    have hdv : (d, v) ∈ varPositions ix 0 := by
      have : (d, v) ∈ (varPositions ix 0).filter (·.2 == v) := by
        simp only at hfil; rw [hfil]; simp
      exact (List.mem_filter.mp this).1
    simp only [nest, List.flatMap_cons, hfil, List.singleton_append, reduceOver, eval, Val.toInt?]
    simp only [Int.sub_zero, Int.toNat_natCast]
    congr 1
    apply List.map_congr_left
    intro k _
    have ih := reduce_main op arr aname env hl ix out shape hout bounds axes hax hrank rest
      ((d, v, k) :: P)
      (fun b' hb' => hrest b' (by simp [hb']))
      (fun d' v' hm => by
        rcases hcov d' v' hm with ⟨k', hk'⟩ | ⟨b', hb', e⟩
        · exact Or.inl ⟨k', by simp [hk']⟩
        · simp only [List.mem_cons] at hb'
          rcases hb' with rfl | hb'
          · have e' : v = v' := e
            subst e'
            have : (d', v) ∈ (varPositions ix 0).filter (·.2 == v) :=
              List.mem_filter.mpr ⟨hm, by simp⟩
            simp only at hfil
            rw [hfil] at this
            simp only [List.mem_singleton, Prod.mk.injEq] at this
            exact Or.inl ⟨k, by simp [this.1]⟩
          · exact Or.inr ⟨b', hb', e⟩)
      (fun p hp => by
        simp only [List.mem_cons] at hp
        rcases hp with rfl | hp
        · exact hdv
        · exact hP p hp)
      (by
        simp only [List.map_cons, List.cons_append] at hnd ⊢
        exact (List.perm_middle.nodup_iff).mp hnd)
    simp only [ixOf, fixedOf, List.map_cons] at ih
    simp only [Env.bind, ixOf, fixedOf, Int.zero_add]
    exact ih

theorem find_of_nodup_names : ∀ (bounds : List (String × SExpr × SExpr)) (b : String × SExpr × SExpr),
    (bounds.map (·.1)).Nodup → b ∈ bounds → bounds.find? (·.1 == b.1) = some b
  | [], _, _, h => by simp at h
  | c :: bounds, b, hnd, h => by
    simp only [List.map_cons, List.nodup_cons] at hnd
    by_cases hc : c.1 = b.1
    · simp only [List.mem_cons] at h
      rcases h with rfl | h
      · rw [List.find?_cons_of_pos (by simp)]
      · exact absurd (List.mem_map.mpr ⟨b, h, hc.symm⟩) hnd.1
    · rw [List.find?_cons_of_neg (by simpa using hc)]
      simp only [List.mem_cons] at h
      rcases h with rfl | h
      · exact absurd rfl hc
      · exact find_of_nodup_names bounds b hnd.2 h

theorem filter_length_one_of_nodup : ∀ (l : List (Nat × String)) (v : String),
    (l.map (·.2)).Nodup → v ∈ l.map (·.2) → (l.filter (·.2 == v)).length = 1
  | [], _, _, h => by simp at h
  | x :: l, v, hnd, h => by
    simp only [List.map_cons, List.nodup_cons] at hnd
    by_cases hx : x.2 = v
    · have hnone : l.filter (·.2 == v) = [] := by
        rw [List.filter_eq_nil_iff]
        intro y hy hyv
        apply hnd.1
        rw [hx]
        exact List.mem_map.mpr ⟨y, hy, by simpa using hyv⟩
      rw [List.filter_cons_of_pos (by simpa using hx), hnone]; rfl
    · rw [List.filter_cons_of_neg (by simpa using hx)]
      apply filter_length_one_of_nodup l v hnd.2
      simp only [List.map_cons, List.mem_cons] at h
      rcases h with h | h
      · exact absurd h.symm hx
      · exact h

/-- what a successful reduction stage has established -/
theorem tryReduce_inv (e : SExpr) (shape : Shape) (env : List (String × Arr Val)) (h : HLO)
    (hr : tryReduce e shape (shapesOf env) = some h) :
    ∃ op bounds a ix arr,
      e = nest op bounds (.sub a ix) ∧ lookupEnv env a = some arr ∧
      normalReduceAxes bounds arr.shape shape ix 0 0 = some (varPositions ix 0) ∧
      ix.length = arr.shape.length ∧ (bounds.map (·.1)).Nodup ∧
      (∀ b ∈ bounds, ((varPositions ix 0).filter (·.2 == b.1)).length = 1) ∧
      h = .reduce op a (bounds.flatMap fun b => (varPositions ix 0).filter (·.2 == b.1)) := by
  cases e with
  | reduce op v lo hi' body =>
    have hpeel := peel_spec op (.reduce op v lo hi' body)
    simp only [tryReduce] at hr
    generalize peelReduce op (.reduce op v lo hi' body) = r at hr hpeel
    obtain ⟨bounds, inner⟩ := r
    simp only at hr hpeel
    cases inner with
    | sub a ix =>
      simp only [lookupShape_shapesOf] at hr
      cases hl : lookupEnv env a with
      | none => simp [hl] at hr
      | some arr =>
        simp only [hl, Option.map_some] at hr
        by_cases hrank : ix.length = arr.shape.length
        · rw [if_pos hrank] at hr
          cases hax : normalReduceAxes bounds arr.shape shape ix 0 0 with
          | none => simp [hax] at hr
          | some axes =>
            simp only [hax] at hr
            have haxes := normalReduceAxes_eq bounds arr.shape shape ix 0 0 axes hax
            subst haxes
            split at hr
            · rename_i hc
              obtain ⟨hnd, hnd2, hall, _⟩ := hc
              simp only [Option.some.injEq] at hr
              exact ⟨op, bounds, a, ix, arr, hpeel.symm, hl, hax, hrank, hnd,
                fun b hb => filter_length_one_of_nodup _ _ hnd2 (hall b hb), hr.symm⟩
            · cases hr
        · rw [if_neg hrank] at hr; cases hr
    | _ => simp at hr
  | _ => simp [tryReduce] at hr

/-- every bound of a recognised reduction is `0 ≤ v < s[d]` for the position `d` of its variable -/
theorem reduce_bounds_form (bounds : List (String × SExpr × SExpr)) (s shape : Shape)
    (ix : List SExpr)
    (hax : normalReduceAxes bounds s shape ix 0 0 = some (varPositions ix 0))
    (hnd : (bounds.map (·.1)).Nodup)
    (honce : ∀ b ∈ bounds, ((varPositions ix 0).filter (·.2 == b.1)).length = 1) :
    ∀ b ∈ bounds, ∃ d, (varPositions ix 0).filter (·.2 == b.1) = [(d, b.1)] ∧
      b.2 = (SExpr.int 0, SExpr.int ((s.getD d 0 : Nat) : Int)) := by
  intro b hb
  have hbnd := normalReduceAxes_bounds bounds s shape ix 0 0 _ hax
  obtain ⟨⟨d, w⟩, hf⟩ := List.length_eq_one_iff.mp (honce b hb)
  have hmem : (d, w) ∈ (varPositions ix 0).filter (·.2 == b.1) := by rw [hf]; simp
  obtain ⟨hm1, hm2⟩ := List.mem_filter.mp hmem
  have hw : w = b.1 := by simpa using hm2
  subst hw
  refine ⟨d, hf, ?_⟩
  obtain ⟨_, w', hfind⟩ := hbnd d b.1 hm1
  rw [find_of_nodup_names bounds b hnd hb] at hfind
  simp only [Option.some.injEq] at hfind
  rw [hfind]

/-- the `ReduceOp` stage is sound -/
theorem tryReduce_sound (e : SExpr) (shape : Shape) (env : List (String × Arr Val)) (h : HLO)
    (hr : tryReduce e shape (shapesOf env) = some h) (i : Idx) (hi : inB shape i = true) :
    (hloDenote h shape env).get i = eval (idxEnv i env) e := by
  obtain ⟨op, bounds, a, ix, arr, rfl, hl, hax, hrank, hnd, honce, rfl⟩ :=
    tryReduce_inv e shape env h hr
  have hbnd := normalReduceAxes_bounds bounds arr.shape shape ix 0 0 _ hax
  have hmain := reduce_main op arr a env hl ix i shape hi bounds _ hax hrank bounds []
    (reduce_bounds_form bounds arr.shape shape ix hax hnd honce)
    (fun d v hm => by
      obtain ⟨_, w, hfind⟩ := hbnd d v hm
      have hmem := List.mem_of_find?_eq_some hfind
      have hw := List.find?_some hfind
      exact Or.inr ⟨_, hmem, by simpa using hw⟩)
    (fun p hp => by simp at hp)
    (by simpa using hnd)
  simp only [hloDenote, hl]
  exact hmain.symm

/-! ### a recognised reduction contains no casts -/

theorem normalReduceAxes_entries (bounds : List (String × SExpr × SExpr)) (s shape : Shape) :
    ∀ (ix : List SExpr) (idim iout : Nat) (axes : List (Nat × String)),
      normalReduceAxes bounds s shape ix idim iout = some axes → dropCastsList ix = ix
  | [], _, _, _, _ => rfl
  | e :: rest, idim, iout, axes, h => by
    cases e with
    | var v =>
      simp only [normalReduceAxes] at h
      split at h
      · split at h
        · obtain ⟨ax', h', _⟩ := Option.map_eq_some_iff.mp h
          simp [dropCastsList, dropCasts, normalReduceAxes_entries bounds s shape rest _ _ ax' h']
        · cases h
      · cases h
    | idx k =>
      simp only [normalReduceAxes] at h
      split at h
      · simp [dropCastsList, dropCasts, normalReduceAxes_entries bounds s shape rest _ _ axes h]
      · cases h
    | _ => simp [normalReduceAxes] at h

theorem dropCasts_nest (op : RedOp) (inner : SExpr) (hin : dropCasts inner = inner) :
    ∀ (bounds : List (String × SExpr × SExpr)),
      (∀ b ∈ bounds, ∃ lo hi : Int, b.2 = (SExpr.int lo, SExpr.int hi)) →
      dropCasts (nest op bounds inner) = nest op bounds inner
  | [], _ => hin
  | (v, lo, hi) :: bounds, h => by
    obtain ⟨l, u, hb⟩ := h (v, lo, hi) (by simp)
    simp only [Prod.mk.injEq] at hb
    obtain ⟨rfl, rfl⟩ := hb
    simp only [nest, dropCasts, dropCasts_nest op inner hin bounds
      (fun b hb => h b (by simp [hb]))]

theorem tryReduce_noCasts (e : SExpr) (shape : Shape) (env : List (String × Arr Val)) (h : HLO)
    (hr : tryReduce e shape (shapesOf env) = some h) : dropCasts e = e := by
  obtain ⟨op, bounds, a, ix, arr, rfl, hl, hax, hrank, hnd, honce, rfl⟩ :=
    tryReduce_inv e shape env h hr
  apply dropCasts_nest
  · simp [dropCasts, normalReduceAxes_entries bounds arr.shape shape ix 0 0 _ hax]
  · intro b hb
    obtain ⟨d, _, hb2⟩ := reduce_bounds_form bounds arr.shape shape ix hax hnd honce b hb
    exact ⟨0, _, hb2⟩

end Raise
end Pt

/-
  Helper lemmas for the `map_stack` / `map_concatenate` lowering rules:
  the `_in<k>` bindings, the nested `If` chains, index erasure / replacement.
-/
import PtProofs.EvalLemmas
import Std.Data.String.ToNat
namespace Pt
open Lower Spec

/-! ### the binding names `_in<k>` are pairwise distinct -/

theorem inName_injective {j k : Nat} (h : inName j = inName k) : j = k := by
  unfold inName at h
  have h2 : toString j = toString k := (String.append_right_inj "_in").mp h
  exact Nat.repr_injective h2

theorem lookupArr_inBindsFrom (pt : Idx) : ∀ (as : List (Arr Val)) (k0 j : Nat),
    (idxEnv pt (inBindsFrom k0 as)).lookupArr (inName (k0 + j)) = as[j]?
  | [], _, _ => by simp [inBindsFrom, Env.lookupArr, idxEnv]
  | a :: as, k0, 0 => by simp [inBindsFrom, Env.lookupArr, idxEnv]
  | a :: as, k0, j + 1 => by
    have ih := lookupArr_inBindsFrom pt as (k0 + 1) j
    have hne : ¬ inName k0 = inName (k0 + (j + 1)) := fun h => by
      have := inName_injective h; omega
    have e : k0 + 1 + j = k0 + (j + 1) := by omega
    rw [e] at ih
    simp only [Env.lookupArr, idxEnv] at ih ⊢
    rw [inBindsFrom, List.find?_cons_of_neg (by simpa using hne), List.getElem?_cons_succ]
    exact ih

theorem lookupArr_inBinds (pt : Idx) (as : List (Arr Val)) (j : Nat) :
    (idxEnv pt (inBinds as)).lookupArr (inName j) = as[j]? := by
  have := lookupArr_inBindsFrom pt as 0 j
  simpa [inBinds] using this

/-! ### comparisons of index values -/

theorem cmp_eq_nat (j k : Nat) :
    Val.cmp .eq (.i (j : Nat)) (.i (k : Nat)) = .b (decide (j = k)) := by
  simp only [Val.cmp, Val.toRat?]
  congr 1
  by_cases h : j = k
  · simp [h]
  · simp [h]

theorem cmp_lt_nat (j k : Nat) :
    Val.cmp .lt (.i (j : Nat)) (.i (k : Nat)) = .b (decide (j < k)) := by
  simp only [Val.cmp, Val.toRat?]
  congr 1
  simp

/-! ### conditionals -/

theorem eval_ite_true (env : Env) (c t e : SExpr) (h : eval env c = .b true) :
    eval env (.ite c t e) = eval env t := by
  simp only [eval, h, Val.truthy?]

theorem eval_ite_false (env : Env) (c t e : SExpr) (h : eval env c = .b false) :
    eval env (.ite c t e) = eval env e := by
  simp only [eval, h, Val.truthy?]

/-! ### subscripts -/

theorem toNatIdx_map_i (l : List Nat) :
    toNatIdx (l.map fun x => Val.i (x : Nat)) = some l := by
  have := toNatIdx_map_nat l id
  simpa using this

/-- evaluating a subscript whose index expressions evaluate to the natural
    multi-index `j` -/
theorem eval_sub_of (env : Env) (nm : String) (ix : List SExpr) (j : Idx)
    (h : ix.map (eval env) = j.map fun x => Val.i (x : Nat)) :
    eval env (.sub nm ix) =
      match env.lookupArr nm with
      | some arr => if inB arr.shape j then arr.get j else .undef
      | none => .undef := by
  simp only [eval, evalList_eq_map, h, toNatIdx_map_i]
  cases env.lookupArr nm <;> rfl

/-! ### erasing the stacking axis -/

theorem filter_ne_map_getD : ∀ (l : List Nat) (axis : Nat),
    ((List.range l.length).filter (· ≠ axis)).map (fun d => l.getD d 0) = l.eraseIdx axis
  | [], _ => by simp
  | x :: xs, 0 => by
    have h := map_range_getD xs
    simp only [List.length_cons, List.range_succ_eq_map, List.filter_cons, List.filter_map,
      List.eraseIdx_cons_zero]
    simp only [ne_eq, decide_not, not_true_eq_false, decide_false,
      Bool.false_eq_true, if_false]
    have : (List.filter ((fun x => !decide (x = 0)) ∘ Nat.succ) (List.range xs.length))
        = List.range xs.length := by
      apply List.filter_eq_self.mpr
      intro a _; simp
    rw [this]
    conv => rhs; rw [← h]
    rw [List.map_map]
    apply List.map_congr_left
    intro a _; simp
  | x :: xs, a + 1 => by
    have ih := filter_ne_map_getD xs a
    simp only [List.length_cons, List.range_succ_eq_map, List.filter_cons, List.filter_map,
      List.eraseIdx_cons_succ]
    have h0 : decide ((0 : Nat) ≠ a + 1) = true := by simp
    simp only [h0, if_true, List.map_cons, List.getD_cons_zero]
    congr 1
    rw [← ih]
    have : (List.filter ((fun x => decide (x ≠ a + 1)) ∘ Nat.succ) (List.range xs.length))
        = List.filter (fun x => decide (x ≠ a)) (List.range xs.length) := by
      apply List.filter_congr
      intro y _; simp
    rw [this, List.map_map]
    apply List.map_congr_left
    intro y _; simp

/-- an in-bounds index of the stacked shape: the axis entry selects an operand,
    the remaining entries are an in-bounds index of the common operand shape -/
theorem inB_stack : ∀ (axis : Nat) (s : Shape) (n : Nat) (i : Idx), axis ≤ s.length →
    inB (s.take axis ++ [n] ++ s.drop axis) i = true →
    i.getD axis 0 < n ∧ inB s (i.eraseIdx axis) = true ∧ axis < i.length
  | 0, s, n, [], _, h => by simp [inB] at h
  | 0, s, n, x :: xs, _, h => by
    simp only [List.take_zero, List.nil_append, List.drop_zero, List.singleton_append, inB,
      Bool.and_eq_true, decide_eq_true_eq] at h
    simp [h.1, h.2]
  | a + 1, [], n, i, hax, _ => by simp at hax
  | a + 1, d :: ds, n, [], _, h => by simp [inB] at h
  | a + 1, d :: ds, n, x :: xs, hax, h => by
    simp only [List.take_succ_cons, List.drop_succ_cons, List.cons_append, inB,
      Bool.and_eq_true, decide_eq_true_eq] at h
    obtain ⟨h1, h2, h3⟩ := inB_stack a ds n xs (by simpa using hax) h.2
    simp only [List.getD_cons_succ, List.eraseIdx_cons_succ, inB, Bool.and_eq_true,
      decide_eq_true_eq, List.length_cons]
    exact ⟨h1, ⟨h.1, h2⟩, by omega⟩

/-- the nested `If` chain of `map_stack` selects the operand numbered by the
    axis entry of the index -/
theorem eval_stackFrom (env : Env) (axis nd : Nat) (subscript : List SExpr) (j : Nat)
    (hpt : env.pt[axis]? = some j) :
    ∀ (n i : Nat), i ≤ j → j < i + n →
      eval env (stackFrom axis nd subscript i n) = eval env (.sub (inName j) subscript)
  | 0, i, h1, h2 => by omega
  | k + 1, i, h1, h2 => by
    unfold stackFrom
    by_cases hk : k = 0
    · have : i = j := by omega
      simp [hk, this]
    · simp only [hk, if_false]
      have hc : eval env (.cmp .eq (ivar axis) (.int i)) = .b (decide (j = i)) := by
        simp only [eval, ivar, hpt]
        exact cmp_eq_nat j i
      by_cases hji : j = i
      · rw [eval_ite_true _ _ _ _ (by simp [hc, hji]), hji]
      · rw [eval_ite_false _ _ _ _ (by simp [hc, hji])]
        exact eval_stackFrom env axis nd subscript j hpt k (i + 1) (by omega) (by omega)

/-! ### concatenate -/

theorem concatLocate_spec : ∀ (lens : List Nat) (j : Nat), j < lens.sum →
    ∃ k o, concatLocate lens j = some (k, o) ∧ k < lens.length ∧ o < lens.getD k 0 ∧ o ≤ j
  | [], j, h => by simp at h
  | n :: ns, j, h => by
    unfold concatLocate
    by_cases hj : j < n
    · exact ⟨0, j, by simp [hj], by simp, by simpa using hj, Nat.le_refl _⟩
    · simp only [hj, if_false]
      obtain ⟨k, o, h1, h2, h3, h4⟩ := concatLocate_spec ns (j - n) (by simp at h; omega)
      exact ⟨k + 1, o, by simp [h1], by simpa using h2, by simpa using h3, by omega⟩

/-- index expressions of one `get_subscript(array_index, lbound)` -/
def shiftIx (axis nd lb : Nat) : List SExpr :=
  (List.range nd).map fun d => if d = axis then subConst (ivar d) lb else ivar d

theorem shiftIx_eval (pt : Idx) (b : List (String × Arr Val)) (axis lb : Nat)
    (hlb : lb ≤ pt.getD axis 0) :
    (shiftIx axis pt.length lb).map (eval (idxEnv pt b))
      = (pt.set axis (pt.getD axis 0 - lb)).map fun x => Val.i (x : Nat) := by
  rw [← map_range_set]
  simp only [shiftIx, List.map_map]
  apply List.map_congr_left
  intro d hd
  have hd' : d < pt.length := by simpa using hd
  by_cases h : d = axis
  · subst h
    simp only [Function.comp, if_true, subConst, ivar, eval, idxEnv_pt pt b d hd', Val.add,
      Val.arith, Val.toInt?]
    congr 1; omega
  · simp only [Function.comp, h, if_false, ivar, eval_idx pt b d hd']

/-- the nested `If` chain of `map_concatenate` reads the operand and offset
    that `concatLocate` computes -/
theorem eval_concatFrom (pt : Idx) (b : List (String × Arr Val)) (axis : Nat)
    (hax : axis < pt.length) :
    ∀ (lens : List Nat) (i lb k o : Nat), lb ≤ pt.getD axis 0 →
      concatLocate lens (pt.getD axis 0 - lb) = some (k, o) →
      eval (idxEnv pt b) (concatFrom axis pt.length i lb lens)
        = eval (idxEnv pt b) (.sub (inName (i + k)) (shiftIx axis pt.length (pt.getD axis 0 - o)))
  | [], i, lb, k, o, _, h => by simp [concatLocate] at h
  | [n], i, lb, k, o, hlb, h => by
    unfold concatLocate at h
    by_cases hj : pt.getD axis 0 - lb < n
    · simp only [hj, if_true, Option.some.injEq, Prod.mk.injEq] at h
      obtain ⟨rfl, rfl⟩ := h
      have e : pt.getD axis 0 - (pt.getD axis 0 - lb) = lb := by omega
      simp only [concatFrom, Nat.add_zero, e, shiftIx]
    · rw [if_neg hj] at h; simp [concatLocate] at h
  | n :: m :: rest, i, lb, k, o, hlb, h => by
    unfold concatLocate at h
    have hc : eval (idxEnv pt b) (.cmp .lt (ivar axis) (.int ((lb + n : Nat) : Int)))
        = .b (decide (pt.getD axis 0 < lb + n)) := by
      simp only [eval, ivar, idxEnv_pt pt b axis hax]
      exact cmp_lt_nat _ _
    by_cases hj : pt.getD axis 0 - lb < n
    · simp only [hj, if_true, Option.some.injEq, Prod.mk.injEq] at h
      obtain ⟨rfl, rfl⟩ := h
      have e : pt.getD axis 0 - (pt.getD axis 0 - lb) = lb := by omega
      have hlt : pt.getD axis 0 < lb + n := by omega
      rw [concatFrom]
      · rw [eval_ite_true _ _ _ _ (by rw [hc, decide_eq_true hlt])]
        simp only [Nat.add_zero, e, shiftIx]
      · simp
    · simp only [hj, if_false, Option.map_eq_some_iff] at h
      obtain ⟨⟨k', o'⟩, h1, h2⟩ := h
      simp only [Prod.mk.injEq] at h2
      obtain ⟨rfl, rfl⟩ := h2
      have hlt : ¬ pt.getD axis 0 < lb + n := by omega
      have e : pt.getD axis 0 - lb - n = pt.getD axis 0 - (lb + n) := by omega
      rw [e] at h1
      have := eval_concatFrom pt b axis hax (m :: rest) (i + 1) (lb + n) k' o' (by omega) h1
      have e2 : i + 1 + k' = i + (k' + 1) := by omega
      rw [concatFrom]
      · rw [eval_ite_false _ _ _ _ (by rw [hc, decide_eq_false hlt]), this, e2]
      · simp

/-- replacing the axis entry of an in-bounds index by an in-bounds entry of a
    shape that differs only along that axis -/
theorem inB_set_set : ∀ (s : Shape) (i : Idx) (axis n m o : Nat),
    inB (s.set axis n) i = true → o < m → inB (s.set axis m) (i.set axis o) = true
  | [], [], _, _, _, _, _, _ => by simp [inB]
  | [], _ :: _, _, _, _, _, h, _ => by simp [inB] at h
  | _ :: _, [], 0, _, _, _, h, _ => by simp [inB] at h
  | _ :: _, [], _ + 1, _, _, _, h, _ => by simp [inB] at h
  | d :: ds, x :: xs, 0, n, m, o, h, ho => by
    simp only [List.set_cons_zero, inB, Bool.and_eq_true, decide_eq_true_eq] at h ⊢
    exact ⟨ho, h.2⟩
  | d :: ds, x :: xs, a + 1, n, m, o, h, ho => by
    simp only [List.set_cons_succ, inB, Bool.and_eq_true, decide_eq_true_eq] at h ⊢
    exact ⟨h.1, inB_set_set ds xs a n m o h.2 ho⟩

end Pt

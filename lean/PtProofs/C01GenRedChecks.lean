/-
  Properties C01 / C07 — the kernels of the statement generator pass the static check
  (`checkKernel`) on the fragment WITH REDUCTIONS (`suppAllR`), hence every dependency-respecting
  schedule computes the outputs' denotations.  A reduction's unique iname occurs in the right-hand
  side (`readNames` counts it) without being a loop variable or a private scalar of the statement:
  like those it is a name of the generator's, never an array.
-/
import PtProofs.C01GenRedEx
namespace Pt
namespace LG

/-! ## the reduction variables an expression binds -/

mutual
def binders : SExpr → List String
  | .int _ | .bool _ | .rat _ _ | .nan | .idx _ | .var _ => []
  | .sub _ ix => bindersList ix
  | .add a c | .mul a c | .quot a c | .fdiv a c | .rem a c | .pow a c | .cmp _ a c | .land a c | .lor a c =>
    binders a ++ binders c
  | .lnot a | .cast _ a => binders a
  | .ite c t e => binders c ++ binders t ++ binders e
  | .reduce _ v lo hi body => v :: (binders lo ++ binders hi ++ binders body)
  | .call _ args => bindersList args
def bindersList : List SExpr → List String
  | [] => []
  | e :: es => binders e ++ bindersList es
end

theorem bindersList_nil_iff : ∀ (es : List SExpr), bindersList es = [] ↔ ∀ e ∈ es, binders e = []
  | [] => by simp [bindersList]
  | e :: es => by simp [bindersList, bindersList_nil_iff es]

mutual
theorem binders_substIdx (s : List SExpr) (hs : ∀ e ∈ s, binders e = []) : ∀ (e : SExpr),
    binders e = [] → binders (substIdx s e) = []
  | .int _, _ | .bool _, _ | .rat _ _, _ | .nan, _ | .var _, _ => by simp [substIdx, binders]
  | .idx k, _ => by
    simp only [substIdx]
    cases hk : s[k]? with
    | none => simp [binders]
    | some e0 => exact hs e0 (List.mem_of_getElem? hk)
  | .sub a ix, h => by
    simp only [binders] at h
    simp only [substIdx, binders]
    exact bindersList_substIdx s hs ix h
  | .add a c, h | .mul a c, h | .quot a c, h | .fdiv a c, h | .rem a c, h | .pow a c, h | .cmp _ a c, h
  | .land a c, h | .lor a c, h => by
    simp only [binders, List.append_eq_nil_iff] at h
    simp only [substIdx, binders, List.append_eq_nil_iff]
    exact ⟨binders_substIdx s hs a h.1, binders_substIdx s hs c h.2⟩
  | .lnot a, h | .cast _ a, h => by
    simp only [binders] at h
    simp only [substIdx, binders]
    exact binders_substIdx s hs a h
  | .ite c t e, h => by
    simp only [binders, List.append_eq_nil_iff] at h
    simp only [substIdx, binders, List.append_eq_nil_iff]
    exact ⟨⟨binders_substIdx s hs c h.1.1, binders_substIdx s hs t h.1.2⟩, binders_substIdx s hs e h.2⟩
  | .reduce .., h => by simp [binders] at h
  | .call f args, h => by
    simp only [binders] at h
    simp only [substIdx, binders]
    exact bindersList_substIdx s hs args h
theorem bindersList_substIdx (s : List SExpr) (hs : ∀ e ∈ s, binders e = []) : ∀ (es : List SExpr),
    bindersList es = [] → bindersList (substIdxList s es) = []
  | [], _ => by simp [substIdxList, bindersList]
  | e :: es, h => by
    simp only [bindersList, List.append_eq_nil_iff] at h
    simp only [substIdxList, bindersList, List.append_eq_nil_iff]
    exact ⟨binders_substIdx s hs e h.1, bindersList_substIdx s hs es h.2⟩
end

theorem binders_inameVars (inames : List String) : ∀ e ∈ inameVars inames, binders e = [] := by
  intro e he
  obtain ⟨i, _, rfl⟩ := List.mem_map.1 he
  rfl

theorem binders_chain_ker (B : SExpr) : ∀ (ls : List RL),
    binders (mkChain (ls.map RL.ker) B) = ls.map (·.u) ++ binders B
  | [] => by simp [mkChain]
  | r :: rest => by
    simp [RL.ker, mkChain, binders, hoistedLo, hoistedHi, binders_chain_ker B rest]

/-- an implemented result binds no reduction variable (reductions are stored, never inlined) -/
def NoBind : Impl → Prop
  | .stored _ _ => True
  | .inlined le _ => binders le = []

def NsNoBind (ns : List (String × Impl)) : Prop := ∀ x r, lookupNs ns x = some r → NoBind r

theorem toExpr_nobind {r : Impl} (hr : NoBind r) (s : List SExpr) (hs : ∀ e ∈ s, binders e = []) :
    binders (r.toExpr s) = [] := by
  cases r with
  | stored name deps =>
    simp only [Impl.toExpr]
    split
    · rfl
    · simp only [binders]
      exact (bindersList_nil_iff s).2 hs
  | inlined le deps => exact binders_substIdx s hs le hr

section GenNoBind
variable {ns : List (String × Impl)} (hns : NsNoBind ns)
include hns

mutual
theorem gen_nobind (n : Nat) : ∀ (e le : SExpr) (scope : List String), exprOK n e = true →
    gen ns scope e = some le → binders le = []
  | .int _, le, scope, _, h | .rat _ _, le, scope, _, h | .nan, le, scope, _, h | .idx _, le, scope, _, h => by
    simp only [gen, Option.some.injEq] at h; subst h; rfl
  | .bool _, _, _, hok, _ => by simp [exprOK] at hok
  | .reduce .., _, _, hok, _ => by simp [exprOK] at hok
  | .var x, le, scope, _, h => by
    simp only [gen] at h
    by_cases hsc : scope.contains x = true
    · rw [if_pos hsc] at h
      simp only [Option.some.injEq] at h; subst h; rfl
    · rw [if_neg hsc] at h
      cases hl : lookupNs ns x with
      | none => simp [hl] at h
      | some r =>
        simp only [hl, Option.some.injEq] at h; subst h
        exact toExpr_nobind (hns x r hl) [] (by simp)
  | .sub a ix, le, scope, hok, h => by
    simp only [exprOK] at hok
    simp only [gen] at h
    cases hix : genList ns scope ix with
    | none => simp [hix] at h
    | some ix' =>
      cases hl : lookupNs ns a with
      | none => simp [hix, hl] at h
      | some r =>
        simp only [hix, hl, Option.some.injEq] at h; subst h
        exact toExpr_nobind (hns a r hl) ix' ((bindersList_nil_iff ix').1 (genList_nobind n ix ix' scope hok hix))
  | .add a c, le, scope, hok, h | .mul a c, le, scope, hok, h | .quot a c, le, scope, hok, h
  | .fdiv a c, le, scope, hok, h | .rem a c, le, scope, hok, h | .pow a c, le, scope, hok, h
  | .cmp _ a c, le, scope, hok, h | .land a c, le, scope, hok, h | .lor a c, le, scope, hok, h => by
    simp only [exprOK, Bool.and_eq_true] at hok
    simp only [gen] at h
    cases hx : gen ns scope a with
    | none => simp [hx] at h
    | some x =>
      cases hy : gen ns scope c with
      | none => simp [hx, hy] at h
      | some y =>
        simp only [hx, hy, Option.some.injEq] at h; subst h
        simp [binders, gen_nobind n a x scope hok.1 hx, gen_nobind n c y scope hok.2 hy]
  | .lnot a, le, scope, hok, h | .cast _ a, le, scope, hok, h => by
    simp only [exprOK] at hok
    simp only [gen] at h
    cases hx : gen ns scope a with
    | none => simp [hx] at h
    | some x =>
      simp only [hx, Option.some.injEq] at h; subst h
      simp [binders, gen_nobind n a x scope hok hx]
  | .ite c t e, le, scope, hok, h => by
    simp only [exprOK, Bool.and_eq_true] at hok
    simp only [gen] at h
    cases hx : gen ns scope c with
    | none => simp [hx] at h
    | some x =>
      cases hy : gen ns scope t with
      | none => simp [hx, hy] at h
      | some y =>
        cases hz : gen ns scope e with
        | none => simp [hx, hy, hz] at h
        | some z =>
          simp only [hx, hy, hz, Option.some.injEq] at h; subst h
          simp [binders, gen_nobind n c x scope hok.1.1 hx, gen_nobind n t y scope hok.1.2 hy,
            gen_nobind n e z scope hok.2 hz]
  | .call f args, le, scope, hok, h => by
    simp only [exprOK] at hok
    simp only [gen] at h
    by_cases hz : (f == "pytato.zero") = true
    · rw [if_pos hz] at h
      simp only [Option.some.injEq] at h; subst h; rfl
    · rw [if_neg hz] at h
      cases hx : genList ns scope args with
      | none => simp [hx] at h
      | some as =>
        simp only [hx, Option.some.injEq] at h; subst h
        simp [binders, genList_nobind n args as scope hok hx]
theorem genList_nobind (n : Nat) : ∀ (es les : List SExpr) (scope : List String), exprOKList n es = true →
    genList ns scope es = some les → bindersList les = []
  | [], les, scope, _, h => by
    simp only [genList, Option.some.injEq] at h; subst h; rfl
  | e :: es, les, scope, hok, h => by
    simp only [exprOKList, Bool.and_eq_true] at hok
    simp only [genList] at h
    cases hx : gen ns scope e with
    | none => simp [hx] at h
    | some x =>
      cases hy : genList ns scope es with
      | none => simp [hx, hy] at h
      | some xs =>
        simp only [hx, hy, Option.some.injEq] at h; subst h
        simp [bindersList, gen_nobind n e x scope hok.1 hx, genList_nobind n es xs scope hok.2 hy]
end

end GenNoBind

/-! ## reading the bounds back does not touch an expression without reductions -/

theorem readBackBounds_of_nobind (hs : List Hoisted) (uniq : List (String × String)) : ∀ (e : SExpr),
    binders e = [] → readBackBounds hs uniq e = e
  | .int _, _ | .bool _, _ | .rat _ _, _ | .nan, _ | .var _, _ | .idx _, _ | .sub _ _, _ | .call _ _, _ => by
    simp [readBackBounds]
  | .reduce .., h => by simp [binders] at h
  | .add a c, h | .mul a c, h | .quot a c, h | .fdiv a c, h | .rem a c, h | .pow a c, h | .cmp _ a c, h
  | .land a c, h | .lor a c, h => by
    simp only [binders, List.append_eq_nil_iff] at h
    simp [readBackBounds, readBackBounds_of_nobind hs uniq a h.1, readBackBounds_of_nobind hs uniq c h.2]
  | .lnot a, h | .cast _ a, h => by
    simp only [binders] at h
    simp [readBackBounds, readBackBounds_of_nobind hs uniq a h]
  | .ite c t e, h => by
    simp only [binders, List.append_eq_nil_iff] at h
    simp [readBackBounds, readBackBounds_of_nobind hs uniq c h.1.1, readBackBounds_of_nobind hs uniq t h.1.2,
      readBackBounds_of_nobind hs uniq e h.2]

theorem readBackBounds_chain' (hs : List Hoisted) (uniq : List (String × String)) (b : SExpr)
    (hb : binders b = []) : ∀ (ls : List RL),
    (∀ r ∈ ls, hs.any (·.temp == r.tl) = true ∧ hs.any (·.temp == r.tu) = true) →
    readBackBounds hs uniq (mkChain (ls.map RL.renamed) b) = mkChain (ls.map RL.ker) b
  | [], _ => by simp [mkChain, readBackBounds_of_nobind hs uniq b hb]
  | r :: rest, h => by
    have ih := readBackBounds_chain' hs uniq b hb rest (fun r' hr' => h r' (List.mem_cons_of_mem _ hr'))
    obtain ⟨h1, h2⟩ := h r (by simp)
    simp only [List.map_cons, RL.renamed, mkChain, readBackBounds, h1, h2, if_true, RL.ker,
      Bool.false_eq_true, if_false]
    rw [← ih]

/-! ## dependencies collected on a chain -/

theorem genDeps_var_temp {ns : List (String × Impl)} {sc : List String} {t id : String}
    (hl : lookupNs ns t = some (.stored t [id])) (hsc : t ∉ sc) : genDeps ns sc (.var t) = [id] := by
  have hc : sc.contains t = false := by simpa using hsc
  simp only [genDeps, hc, hl, Impl.deps, Bool.false_eq_true, if_false]

theorem genDeps_reduce_eq (ns : List (String × Impl)) (sc : List String) (op : RedOp) (v : String) (lo hi body : SExpr) :
    genDeps ns sc (.reduce op v lo hi body) = genDeps ns sc lo ++ genDeps ns sc hi ++ genDeps ns (v :: sc) body := by
  simp only [genDeps]

theorem genDeps_chain (ns : List (String × Impl)) (U : List String) (bodyR : SExpr) :
    ∀ (ls : List RL) (scope : List String),
      (∀ r ∈ ls, lookupNs ns r.tl = some (.stored r.tl [r.il]) ∧ lookupNs ns r.tu = some (.stored r.tu [r.iu])) →
      (∀ r ∈ ls, r.tl ∉ U ∧ r.tu ∉ U ∧ r.u ∈ U) → (∀ x ∈ scope, x ∈ U) →
      genDeps ns scope (mkChain (ls.map RL.renamed) bodyR) =
        ls.flatMap RL.ids ++ genDeps ns ((ls.map (·.u)).reverse ++ scope) bodyR
  | [], scope, _, _, _ => by simp [mkChain]
  | r :: rest, scope, h1, h2, hsc => by
    obtain ⟨hl1, hl2⟩ := h1 r (by simp)
    obtain ⟨hu1, hu2, huU⟩ := h2 r (by simp)
    have ih := genDeps_chain ns U bodyR rest (r.u :: scope)
      (fun r' hr' => h1 r' (List.mem_cons_of_mem _ hr')) (fun r' hr' => h2 r' (List.mem_cons_of_mem _ hr'))
      (by
        intro x hx
        rcases List.mem_cons.1 hx with rfl | hx
        · exact huU
        · exact hsc x hx)
    simp only [List.map_cons, RL.renamed, mkChain]
    rw [genDeps_reduce_eq, genDeps_var_temp hl1 (fun hm => hu1 (hsc _ hm)),
      genDeps_var_temp hl2 (fun hm => hu2 (hsc _ hm))]
    rw [ih]
    simp [RL.ids, List.reverse_cons, List.append_assoc]

section GenDepsAppend
variable (ns t : List (String × Impl)) (rk : String → Option Nat) (ρ : List (String × String)) (n : Nat)
  (hfound : ∀ x k, rk x = some k → lookupNs ns x ≠ none)
include hfound

mutual
theorem genDeps_append : ∀ (e : SExpr) (scope : List String),
    (∀ x u, lookupStr ρ x = some u → scope.contains u = true) →
    exprOK n e = true → ranksOKS rk (ρ.map (·.1)) e = true →
    genDeps (ns ++ t) scope (renameRed ρ e) = genDeps ns scope (renameRed ρ e)
  | .int _, _, _, _, _ | .rat _ _, _, _, _, _ | .nan, _, _, _, _ | .idx _, _, _, _, _ => by simp [renameRed, genDeps]
  | .bool _, _, _, h, _ => by simp [exprOK] at h
  | .reduce .., _, _, h, _ => by simp [exprOK] at h
  | .var x, scope, hin, _, hr => by
    simp only [renameRed]
    cases hρ : lookupStr ρ x with
    | some u =>
      have hu := hin x u hρ
      simp only [genDeps, hu, if_true]
    | none =>
      simp only [genDeps]
      by_cases hsc : scope.contains x = true
      · rw [if_pos hsc, if_pos hsc]
      · rw [if_neg hsc, if_neg hsc]
        have hnk := lookupStr_none_not_key hρ
        simp only [ranksOKS, hnk, Bool.false_or, beq_iff_eq] at hr
        rw [lookupNs_append_found (hfound x 0 hr)]
  | .sub a ix, scope, hin, h, hr => by
    simp only [exprOK] at h
    simp only [ranksOKS, Bool.and_eq_true, beq_iff_eq] at hr
    simp only [renameRed, genDeps]
    rw [genDepsList_append ix scope hin h hr.2, lookupNs_append_found (hfound a _ hr.1)]
  | .add a c, scope, hin, h, hr | .mul a c, scope, hin, h, hr | .quot a c, scope, hin, h, hr
  | .fdiv a c, scope, hin, h, hr | .rem a c, scope, hin, h, hr | .pow a c, scope, hin, h, hr
  | .cmp _ a c, scope, hin, h, hr | .land a c, scope, hin, h, hr | .lor a c, scope, hin, h, hr => by
    simp only [exprOK, Bool.and_eq_true] at h
    simp only [ranksOKS, Bool.and_eq_true] at hr
    simp only [renameRed, genDeps]
    rw [genDeps_append a scope hin h.1 hr.1, genDeps_append c scope hin h.2 hr.2]
  | .lnot a, scope, hin, h, hr | .cast _ a, scope, hin, h, hr => by
    simp only [exprOK] at h
    simp only [ranksOKS] at hr
    simp only [renameRed, genDeps]
    rw [genDeps_append a scope hin h hr]
  | .ite c t' e, scope, hin, h, hr => by
    simp only [exprOK, Bool.and_eq_true] at h
    simp only [ranksOKS, Bool.and_eq_true] at hr
    simp only [renameRed, genDeps]
    rw [genDeps_append c scope hin h.1.1 hr.1.1, genDeps_append t' scope hin h.1.2 hr.1.2,
      genDeps_append e scope hin h.2 hr.2]
  | .call f args, scope, hin, h, hr => by
    simp only [exprOK] at h
    simp only [ranksOKS, Bool.or_eq_true, beq_iff_eq] at hr
    simp only [renameRed, genDeps]
    by_cases hf : (f == "pytato.zero") = true
    · rw [if_pos hf, if_pos hf]
    · rw [if_neg hf, if_neg hf]
      have hr' : ranksOKSList rk (ρ.map (·.1)) args = true := by
        rcases hr with hr | hr
        · exact absurd (by simpa using hr) hf
        · exact hr
      rw [genDepsList_append args scope hin h hr']
theorem genDepsList_append : ∀ (es : List SExpr) (scope : List String),
    (∀ x u, lookupStr ρ x = some u → scope.contains u = true) →
    exprOKList n es = true → ranksOKSList rk (ρ.map (·.1)) es = true →
    genDepsList (ns ++ t) scope (renameRedList ρ es) = genDepsList ns scope (renameRedList ρ es)
  | [], _, _, _, _ => by simp [renameRedList, genDepsList]
  | e :: es, scope, hin, h, hr => by
    simp only [exprOKList, Bool.and_eq_true] at h
    simp only [ranksOKSList, Bool.and_eq_true] at hr
    simp only [renameRedList, genDepsList]
    rw [genDeps_append e scope hin h.1 hr.1, genDepsList_append es scope hin h.2 hr.2]
end

end GenDepsAppend

mutual
theorem exprOK_renameRed (ρ : List (String × String)) (n : Nat) : ∀ (e : SExpr),
    exprOK n e = true → exprOK n (renameRed ρ e) = true
  | .int _, _ | .rat _ _, _ | .nan, _ => by simp [renameRed, exprOK]
  | .idx k, h => by simpa [renameRed] using h
  | .bool _, h => by simp [exprOK] at h
  | .reduce .., h => by simp [exprOK] at h
  | .var x, _ => by
    simp only [renameRed]
    cases lookupStr ρ x <;> simp [exprOK]
  | .sub a ix, h => by
    simp only [exprOK] at h
    simp only [renameRed, exprOK]
    exact exprOKList_renameRed ρ n ix h
  | .add a c, h | .mul a c, h | .quot a c, h | .fdiv a c, h | .rem a c, h | .pow a c, h | .cmp _ a c, h
  | .land a c, h | .lor a c, h => by
    simp only [exprOK, Bool.and_eq_true] at h
    simp only [renameRed, exprOK, Bool.and_eq_true]
    exact ⟨exprOK_renameRed ρ n a h.1, exprOK_renameRed ρ n c h.2⟩
  | .lnot a, h | .cast _ a, h => by
    simp only [exprOK] at h
    simp only [renameRed, exprOK]
    exact exprOK_renameRed ρ n a h
  | .ite c t e, h => by
    simp only [exprOK, Bool.and_eq_true] at h
    simp only [renameRed, exprOK, Bool.and_eq_true]
    exact ⟨⟨exprOK_renameRed ρ n c h.1.1, exprOK_renameRed ρ n t h.1.2⟩, exprOK_renameRed ρ n e h.2⟩
  | .call f args, h => by
    simp only [exprOK] at h
    simp only [renameRed, exprOK]
    exact exprOKList_renameRed ρ n args h
theorem exprOKList_renameRed (ρ : List (String × String)) (n : Nat) : ∀ (es : List SExpr),
    exprOKList n es = true → exprOKList n (renameRedList ρ es) = true
  | [], _ => by simp [renameRedList, exprOKList]
  | e :: es, h => by
    simp only [exprOKList, Bool.and_eq_true] at h
    simp only [renameRedList, exprOKList, Bool.and_eq_true]
    exact ⟨exprOK_renameRed ρ n e h.1, exprOKList_renameRed ρ n es h.2⟩
end

theorem nsNoBind_of {res : List (Nat × Impl)} (hres : ∀ i r, (i, r) ∈ res → NoBind r) :
    ∀ {binds : List (String × Nat)} {ns : List (String × Impl)}, NsRes binds ns res → NsNoBind ns
  | [], [], _ => by
    intro x r h
    simp [lookupNs] at h
  | (n, c) :: bs, (n', r0) :: rs, hn => by
    obtain ⟨rfl, hm, hrest⟩ := hn
    intro x r h
    unfold lookupNs at h
    by_cases hx : (n == x) = true
    · rw [List.find?_cons_of_pos (by simpa using hx)] at h
      simp only [Option.map_some, Option.some.injEq] at h
      subst h
      exact hres c _ hm
    · rw [List.find?_cons_of_neg (by simpa using hx)] at h
      exact nsNoBind_of hres hrest x r h
  | [], _ :: _, hn => hn.elim
  | _ :: _, [], hn => hn.elim

/-! ## what a generated store with private scalars reads -/

theorem storeStmt_factsL {id name : String} {inames : List String} {shape : Shape} {lets : List (String × SExpr)}
    {rhs : SExpr} {deps : List String} (hne : isEmptyShape shape = false) (hlen : inames.length = shape.length) :
    let s := storeStmt id name inames shape lets rhs deps
    s.noop = false ∧ s.id = id ∧ s.lhs = name ∧ s.rhs = rhs ∧ s.locals = inames ++ lets.map (·.1) ∧
      (∀ d, d ∈ s.deps ↔ d ∈ deps) ∧
      ∀ x, x ∈ s.reads ↔ (x ∈ readNames rhs ∨ x ∈ lets.flatMap (fun l => readNames l.2)) ∧ x ∉ inames ∧
        x ∉ lets.map (·.1) := by
  have hs : storeStmt id name inames shape lets rhs deps =
      { id := id, lhs := name, lhsIdx := inameVars inames, loops := box inames shape, lets := lets, rhs := rhs,
        deps := normDeps deps } := by
    unfold storeStmt; rw [hne]; rfl
  rw [hs]
  refine ⟨rfl, rfl, rfl, rfl, ?_, fun d => mem_normDeps d deps, fun x => ?_⟩
  · simp [KStmt.locals, box_names inames shape hlen]
  · simp only [KStmt.reads, KStmt.rawReads, KStmt.locals, List.append_nil, box_reads,
      readNamesList_inameVars, box_names inames shape hlen, List.mem_filter, List.mem_append,
      Bool.not_eq_true', List.contains_eq_mem, decide_eq_false_iff_not, not_or]
    constructor
    · rintro ⟨(h | h) | h, hn1, hn2⟩
      · exact ⟨Or.inl h, hn1, hn2⟩
      · exact absurd h hn1
      · exact ⟨Or.inr h, hn1, hn2⟩
    · rintro ⟨h | h, hn1, hn2⟩
      · exact ⟨Or.inl (Or.inl h), hn1, hn2⟩
      · exact ⟨Or.inr h, hn1, hn2⟩

/-! ## the structural invariant, with reduction inames -/

section ChecksR
variable (g : LGraph) (inputNames E0 done : List String)

/-- as `StmtOK`, but a name the statement reads may also be a reduction variable it binds -/
def StmtOKR (post : List KStmt) (s : KStmt) : Prop :=
  (∀ d ∈ s.deps, d ∈ post.map (·.id)) ∧ s.lhs ∉ s.reads ∧
  ∀ x ∈ s.reads, x ∈ inputNames ∨ (∃ w ∈ post, w.lhs = x ∧ w.id ∈ s.deps) ∨ x ∈ binders s.rhs

structure SInvR (st : St) : Prop where
  names : ∀ x, arrNames inputNames st x → x ∈ st.vng.existing
  seeds : ∀ x ∈ E0, x ∈ st.vng.existing
  origin : ∀ s ∈ st.stmts, s.lhs ∈ done ∨ s.lhs ∉ E0
  active : ∀ s ∈ st.stmts, s.noop = false
  idsKnown : ∀ s ∈ st.stmts, s.id ∈ st.ing.existing
  idsNodup : (st.stmts.map (·.id)).Nodup
  lhsNodup : (st.stmts.map (·.lhs)).Nodup
  /-- loop variables, private scalars and reduction inames are names of the generator's, never arrays -/
  locals : ∀ s ∈ st.stmts, ∀ x ∈ s.locals ++ binders s.rhs,
    x ∈ st.vng.existing ∧ x ∉ E0 ∧ ∀ w ∈ st.stmts, x ≠ w.lhs
  stmtOK : ∀ pre s post, st.stmts = pre ++ s :: post → StmtOKR inputNames post s
  results : ∀ i r, (i, r) ∈ st.results → Cov inputNames st.stmts r ∧ NoBind r
  lhsNotInput : ∀ s ∈ st.stmts, s.lhs ∉ inputNames

variable {g inputNames E0 done}

theorem SInvR.grow {st st1 : St} (h : SInvR inputNames E0 done st) (hs : st1.stmts = st.stmts)
    (hr : st1.results = st.results) (he : ∀ x ∈ st.vng.existing, x ∈ st1.vng.existing)
    (hi : ∀ x ∈ st.ing.existing, x ∈ st1.ing.existing) : SInvR inputNames E0 done st1 := by
  have ha : arrNames inputNames st1 = arrNames inputNames st := by
    funext x; simp [arrNames, hs]
  refine ⟨fun x hx => he x (h.names x (ha ▸ hx)), fun x hx => he x (h.seeds x hx), by rw [hs]; exact h.origin,
    by rw [hs]; exact h.active, ?_, by rw [hs]; exact h.idsNodup, by rw [hs]; exact h.lhsNodup, ?_,
    by rw [hs]; exact h.stmtOK, by rw [hs, hr]; exact h.results, by rw [hs]; exact h.lhsNotInput⟩
  · rw [hs]; exact fun s hs' => hi _ (h.idsKnown s hs')
  · rw [hs]
    intro s hs' x hx
    obtain ⟨a, b, c⟩ := h.locals s hs' x hx
    exact ⟨he x a, b, c⟩

theorem SInvR.drew {st st1 : St} {n : String} (h : SInvR inputNames E0 done st) (d : Drew st st1 n) :
    SInvR inputNames E0 done st1 :=
  h.grow d.stmts d.results (fun x hx => by rw [d.ex]; exact List.mem_cons_of_mem _ hx)
    (fun x hx => by rw [d.ing]; exact hx)

theorem SInvR.drewMany {st st1 : St} {ns : List String} (h : SInvR inputNames E0 done st)
    (d : DrewMany st st1 ns) : SInvR inputNames E0 done st1 :=
  h.grow d.stmts d.results (fun x hx => (d.mem x).2 (Or.inr hx)) (fun x hx => by rw [d.ing]; exact hx)

theorem SInvR.insnId {st st1 : St} {b n : String} (h : SInvR inputNames E0 done st)
    (hi : st.insnId b = .ok (n, st1)) :
    SInvR inputNames E0 done st1 ∧ n ∉ st.ing.existing ∧ n ∈ st1.ing.existing ∧ st1.stmts = st.stmts ∧
      st1.results = st.results ∧ st1.vng = st.vng ∧ ∀ x ∈ st.ing.existing, x ∈ st1.ing.existing := by
  obtain ⟨g', hg, rfl⟩ := St.insnId_ok hi
  obtain ⟨hf, he⟩ := gen_fresh _ _ _ _ hg
  have hmono : ∀ x ∈ st.ing.existing, x ∈ g'.existing := by
    intro x hx
    rw [he]
    exact List.mem_cons_of_mem _ hx
  have hnin : n ∈ g'.existing := by rw [he]; simp
  exact ⟨h.grow rfl rfl (fun _ hx => hx) hmono, hf, hnin, rfl, rfl, rfl, hmono⟩

/-- **emitting a store**, structurally: loop variables `inames`, private scalars `lets`, reduction
    variables `binders rhs` -/
theorem SInvR.emitL {st : St} (hinv : SInvR inputNames E0 done st) {id name : String}
    {inames : List String} {shape : Shape} {lets : List (String × SExpr)} {rhs : SExpr} {deps : List String}
    (hne : isEmptyShape shape = false) (hlen : inames.length = shape.length)
    (hname : ¬ arrNames inputNames st name) (hnameEx : name ∈ st.vng.existing)
    (horigin : name ∈ done ∨ name ∉ E0)
    (hidFresh : id ∉ st.stmts.map (·.id)) (hidKnown : id ∈ st.ing.existing)
    (hloc : ∀ x ∈ (inames ++ lets.map (·.1)) ++ binders rhs,
      x ∈ st.vng.existing ∧ x ∉ E0 ∧ x ≠ name ∧ ∀ w ∈ st.stmts, x ≠ w.lhs)
    (holdLocals : ∀ s ∈ st.stmts, ∀ x ∈ s.locals ++ binders s.rhs, x ≠ name)
    (hdeps : ∀ d ∈ deps, d ∈ st.stmts.map (·.id))
    (hread : name ∉ readNames rhs) (hreadL : ∀ l ∈ lets, name ∉ readNames l.2)
    (hcov : ∀ x, (x ∈ readNames rhs ∨ x ∈ lets.flatMap (fun l => readNames l.2)) →
      x ∈ inames ∨ x ∈ lets.map (·.1) ∨ x ∈ inputNames ∨
      (∃ w ∈ st.stmts, w.lhs = x ∧ w.id ∈ deps) ∨ x ∈ binders rhs) :
    SInvR inputNames E0 done (st.emit (storeStmt id name inames shape lets rhs deps)) := by
  obtain ⟨hact, hsid, hlhs, hrhs, hlocs, hdm, hrd⟩ := storeStmt_factsL (id := id) (name := name) (lets := lets)
    (rhs := rhs) (deps := deps) hne hlen
  have hnl : name ∉ st.stmts.map (·.lhs) := fun h => hname (Or.inr h)
  refine ⟨?_, hinv.seeds, ?_, ?_, ?_, ?_, ?_, ?_, ?_, ?_, ?_⟩
  rotate_right
  · intro s hs
    simp only [St.emit, List.mem_cons] at hs
    rcases hs with rfl | hs
    · rw [hlhs]; exact fun h => hname (Or.inl h)
    · exact hinv.lhsNotInput s hs
  · intro x hx
    simp only [arrNames, St.emit, List.map_cons, List.mem_cons, hlhs] at hx
    rcases hx with hx | rfl | hx
    · exact hinv.names x (Or.inl hx)
    · exact hnameEx
    · exact hinv.names x (Or.inr hx)
  · intro s hs
    simp only [St.emit, List.mem_cons] at hs
    rcases hs with rfl | hs
    · rw [hlhs]; exact horigin
    · exact hinv.origin s hs
  · intro s hs
    simp only [St.emit, List.mem_cons] at hs
    rcases hs with rfl | hs
    · exact hact
    · exact hinv.active s hs
  · intro s hs
    simp only [St.emit, List.mem_cons] at hs
    rcases hs with rfl | hs
    · rw [hsid]; exact hidKnown
    · exact hinv.idsKnown s hs
  · simp only [St.emit, List.map_cons, hsid]
    exact List.nodup_cons.2 ⟨hidFresh, hinv.idsNodup⟩
  · simp only [St.emit, List.map_cons, hlhs]
    exact List.nodup_cons.2 ⟨hnl, hinv.lhsNodup⟩
  · intro s hs x hx
    simp only [St.emit, List.mem_cons] at hs
    rcases hs with rfl | hs
    · rw [hlocs, hrhs] at hx
      obtain ⟨a, b, c, d⟩ := hloc x hx
      refine ⟨a, b, fun w hw => ?_⟩
      simp only [St.emit, List.mem_cons] at hw
      rcases hw with rfl | hw
      · rw [hlhs]; exact c
      · exact d w hw
    · obtain ⟨a, b, c⟩ := hinv.locals s hs x hx
      refine ⟨a, b, fun w hw => ?_⟩
      simp only [St.emit, List.mem_cons] at hw
      rcases hw with rfl | hw
      · rw [hlhs]; exact holdLocals s hs x hx
      · exact c w hw
  · intro pre s post hsplit
    simp only [St.emit] at hsplit
    cases pre with
    | nil =>
      simp only [List.nil_append, List.cons.injEq] at hsplit
      obtain ⟨rfl, rfl⟩ := hsplit
      refine ⟨fun d hd => hdeps d ((hdm d).1 hd), ?_, fun x hx => ?_⟩
      · rw [hlhs]
        intro h
        rcases ((hrd name).1 h).1 with h1 | h1
        · exact hread h1
        · obtain ⟨l, hl, hxl⟩ := List.mem_flatMap.1 h1
          exact hreadL l hl hxl
      · obtain ⟨hx1, hx2, hx3⟩ := (hrd x).1 hx
        rw [hrhs]
        rcases hcov x hx1 with h | h | h | ⟨w, hw, a, b⟩ | h
        · exact absurd h hx2
        · exact absurd h hx3
        · exact Or.inl h
        · exact Or.inr (Or.inl ⟨w, hw, a, (hdm _).2 b⟩)
        · exact Or.inr (Or.inr h)
    | cons p pre' =>
      simp only [List.cons_append, List.cons.injEq] at hsplit
      exact hinv.stmtOK pre' s post hsplit.2
  · intro j r hm
    have hm' : (j, r) ∈ st.results := hm
    exact ⟨(hinv.results j r hm').1.mono, (hinv.results j r hm').2⟩

theorem SInvR.remember {st : St} (hinv : SInvR inputNames E0 done st) {i : Nat} {r : Impl}
    (hcov : Cov inputNames st.stmts r) (hnb : NoBind r) : SInvR inputNames E0 done (st.remember i r) := by
  refine ⟨hinv.names, hinv.seeds, hinv.origin, hinv.active, hinv.idsKnown, hinv.idsNodup, hinv.lhsNodup,
    hinv.locals, hinv.stmtOK, ?_, hinv.lhsNotInput⟩
  intro j r' hm
  simp only [St.remember, List.mem_cons, Prod.mk.injEq] at hm
  rcases hm with ⟨rfl, rfl⟩ | hm
  · exact ⟨hcov, hnb⟩
  · exact hinv.results j r' hm

/-- the result `stored name [id]` once its store is the latest statement -/
theorem cov_stored_new {S : List KStmt} {s : KStmt} {name id : String} (hid : s.id = id) (hl : s.lhs = name) :
    Cov inputNames (s :: S) (.stored name [id]) := by
  refine ⟨fun d hd => ?_, fun x hx => ?_⟩
  · simp only [Impl.deps, List.mem_singleton] at hd
    subst hd
    exact List.mem_map.2 ⟨_, List.mem_cons_self, hid⟩
  · simp only [implReads, List.mem_singleton] at hx
    subst hx
    exact Or.inr ⟨_, List.mem_cons_self, hl, by simp [Impl.deps, hid]⟩

/-- the bound temporaries of a 0-d result as statements of their own, structurally -/
theorem semitTemps_spec (bd : List String) : ∀ (hsl : List Hoisted) (st : St),
    SInvR inputNames E0 done st → (hsl.map (·.temp)).Nodup → (hsl.map (·.id)).Nodup →
    (∀ d ∈ bd, d ∈ st.stmts.map (·.id)) →
    (∀ h ∈ hsl, ¬ arrNames inputNames st h.temp ∧ h.temp ∈ st.vng.existing ∧ h.temp ∉ E0 ∧ binders h.e = [] ∧
      (∀ x ∈ readNames h.e, x ∈ inputNames ∨ ∃ w ∈ st.stmts, w.lhs = x ∧ w.id ∈ bd) ∧
      h.id ∉ st.stmts.map (·.id) ∧ h.id ∈ st.ing.existing ∧
      ∀ s ∈ st.stmts, ∀ x ∈ s.locals ++ binders s.rhs, x ≠ h.temp) →
    SInvR inputNames E0 done (emitTemps bd hsl st)
  | [], st, hinv, _, _, _, _ => hinv
  | h :: rest, st, hinv, hnd, hndi, hbd, hall => by
    have hnd' : h.temp ∉ rest.map (·.temp) ∧ (rest.map (·.temp)).Nodup := List.nodup_cons.1 hnd
    have hndi' : h.id ∉ rest.map (·.id) ∧ (rest.map (·.id)).Nodup := List.nodup_cons.1 hndi
    obtain ⟨hname, hEx, hE0, hnb, hcv, hidF, hidK, hold⟩ := hall h (by simp)
    rw [emitTemps_cons, tempStmt_eq]
    have hreadT : h.temp ∉ readNames h.e := by
      intro hx
      rcases hcv _ hx with h1 | ⟨w, hw, he, _⟩
      · exact hname (Or.inl h1)
      · exact hname (Or.inr (he ▸ List.mem_map.2 ⟨w, hw, rfl⟩))
    have hinv1 := SInvR.emitL (id := h.id) (name := h.temp) (inames := []) (shape := []) (lets := [])
      (rhs := h.e) (deps := bd) hinv rfl rfl hname hEx (Or.inr hE0) hidF hidK
      (by rw [hnb]; simp) hold hbd hreadT (by simp)
      (by
        intro x hx
        simp only [List.flatMap_nil, List.not_mem_nil, or_false] at hx
        rcases hcv x hx with h1 | h1
        · exact Or.inr (Or.inr (Or.inl h1))
        · exact Or.inr (Or.inr (Or.inr (Or.inl h1))))
    obtain ⟨_, hsid, hlhs, hrhs, hlocs, _, _⟩ := storeStmt_factsL (id := h.id) (name := h.temp) (inames := [])
      (shape := []) (lets := []) (rhs := h.e) (deps := bd) rfl rfl
    apply semitTemps_spec bd rest _ hinv1 hnd'.2 hndi'.2
    · intro d hd
      simp only [St.emit, List.map_cons, List.mem_cons]
      exact Or.inr (hbd d hd)
    intro h' hh'
    obtain ⟨a1, a2, a3, a4, a4', a5, a6, a7⟩ := hall h' (List.mem_cons_of_mem _ hh')
    refine ⟨?_, a2, a3, a4, ?_, ?_, a6, ?_⟩
    · intro hx
      simp only [arrNames, St.emit, List.map_cons, List.mem_cons, hlhs] at hx
      rcases hx with hx | hx | hx
      · exact a1 (Or.inl hx)
      · exact hnd'.1 (hx ▸ List.mem_map.2 ⟨h', hh', rfl⟩)
      · exact a1 (Or.inr hx)
    · intro x hx
      rcases a4' x hx with h1 | ⟨w, hw, he, hid⟩
      · exact Or.inl h1
      · exact Or.inr ⟨w, by simp [St.emit, hw], he, hid⟩
    · simp only [St.emit, List.map_cons, List.mem_cons, hsid, not_or]
      exact ⟨fun e => hndi'.1 (e ▸ List.mem_map.2 ⟨h', hh', rfl⟩), a5⟩
    · intro s0 hs0 x hx
      simp only [St.emit, List.mem_cons] at hs0
      rcases hs0 with rfl | hs0
      · rw [hlocs, hrhs, hnb] at hx
        simp at hx
      · exact a7 s0 hs0 x hx

end ChecksR

/-! ## the traversal keeps the structural invariant -/

section SpecR
variable {g : LGraph} {inputNames E0 done : List String}

def SSpecAtR (g : LGraph) (inputNames E0 done : List String) (fuel : Nat) : Prop :=
  ∀ (i : Nat) (st : St) (r : Impl) (st' : St), mapNode g fuel i st = .ok (r, st') →
    suppAllR g fuel i = true → SInvR inputNames E0 done st →
    SInvR inputNames E0 done st' ∧ (i, r) ∈ st'.results

theorem srecAll_specR {fuel : Nat} (IH : SSpecAtR g inputNames E0 done fuel) :
    ∀ (binds : List (String × Nat)) (st : St) (ns : List (String × Impl)) (st' : St),
      recAll (mapNode g fuel) binds st = .ok (ns, st') → (∀ b ∈ binds, suppAllR g fuel b.2 = true) →
      SInvR inputNames E0 done st → SInvR inputNames E0 done st' ∧ NsRes binds ns st'.results
  | [], st, ns, st', h, _, hinv => by
    obtain ⟨rfl, rfl⟩ := recAll_nil h
    exact ⟨hinv, trivial⟩
  | (n, c) :: bs, st, ns, st', h, hs, hinv => by
    obtain ⟨r, st1, rs, h1, h2, rfl⟩ := recAll_cons h
    have hext := (recAll_extF (mapNode_extF fuel) bs st1 rs st' h2
      (fun b hb => hs b (List.mem_cons_of_mem _ hb))).ext
    obtain ⟨hinv1, hm1⟩ := IH c st r st1 h1 (hs (n, c) (by simp)) hinv
    obtain ⟨hinv', hres⟩ := srecAll_specR IH bs st1 rs st' h2 (fun b hb => hs b (List.mem_cons_of_mem _ hb)) hinv1
    exact ⟨hinv', rfl, hext.results _ hm1, hres⟩

/-- the reduction-free index lambda -/
theorem plain_sspec {fuel i : Nat} (IH : SSpecAtR g inputNames E0 done fuel) {st st' : St} {r : Impl}
    {shape : Shape} {e : SExpr} {binds : List (String × Nat)} {impl : Strategy} {tag : NameTag}
    {uo : List String} {rvars : List RVar}
    (hn : g.get i = .indexLambda shape e binds impl tag uo rvars) (hp : suppNode g i = true)
    (hkb : ∀ b ∈ binds, suppAllR g fuel b.2 = true)
    (hm : lookupResult st.results i = none) (h : mapNode g (fuel + 1) i st = .ok (r, st'))
    (hinv : SInvR inputNames E0 done st) :
    SInvR inputNames E0 done st' ∧ (i, r) ∈ st'.results := by
  obtain ⟨_, _, ns, st1, hrec, hcase⟩ := mapNode_il_inv hn hp hm h
  have hfrag := hp
  simp only [suppNode, hn, Bool.and_eq_true, Bool.not_eq_true'] at hfrag
  obtain ⟨⟨⟨⟨⟨hne, _⟩, _⟩, hok⟩, _⟩, _⟩ := hfrag
  obtain ⟨hinv1, hres⟩ := srecAll_specR IH binds st ns st1 hrec hkb hinv
  rcases hcase with hc | hc
  · obtain ⟨le, hgen, rfl, rfl⟩ := ilInline_inv hc
    have hns := nsCov_of (fun i r hm => (hinv1.results i r hm).1) hres
    have hnb := nsNoBind_of (fun i r hm => (hinv1.results i r hm).2) hres
    obtain ⟨hd, hr⟩ := gen_cov hns shape.length e le [] hok hgen
    refine ⟨SInvR.remember hinv1 ⟨hd, fun x hx => ?_⟩ (gen_nobind hnb shape.length e le [] hok hgen),
      by simp [St.remember]⟩
    rcases hr x hx with h | h | h
    · simp at h
    · exact Or.inl h
    · exact Or.inr h
  · obtain ⟨name, st2, inames, st3, le, id, st4, hnm, hins, hgen, hid, rfl, rfl⟩ := ilStore_inv hc
    have d1 := tempName_drew hnm
    obtain ⟨d2, hl2⟩ := St.vars_drew hins
    have hinv3 := (hinv1.drew d1).drewMany d2
    obtain ⟨hinv4, hidF, hidK, hst4, hres4, hvng4, himono⟩ := hinv3.insnId hid
    have hst31 : st3.stmts = st1.stmts := by rw [d2.stmts, d1.stmts]
    have hres4' : NsRes binds ns st4.results := by
      rw [hres4, d2.results, d1.results]; exact hres
    have hns := nsCov_of (fun i r hm => (hinv4.results i r hm).1) hres4'
    have hnb := nsNoBind_of (fun i r hm => (hinv4.results i r hm).2) hres4'
    obtain ⟨hd, hr⟩ := gen_cov hns shape.length e le [] hok hgen
    have hbind : binders (substIdx (inameVars inames) le) = [] :=
      binders_substIdx _ (binders_inameVars inames) le (gen_nobind hnb shape.length e le [] hok hgen)
    have hG4 : ∀ x, arrNames inputNames st4 x → x ∈ st1.vng.existing := by
      intro x hx
      apply hinv1.names
      simpa [arrNames, hst4, hst31] using hx
    have hname : ¬ arrNames inputNames st4 name := fun hx => d1.fresh (hG4 name hx)
    have hlen : inames.length = shape.length := by rw [hl2, length_dimNames]
    have hex2 : ∀ x ∈ st1.vng.existing, x ∈ st2.vng.existing :=
      fun x hx => by rw [d1.ex]; exact List.mem_cons_of_mem _ hx
    have hE := SInvR.emitL (id := id) (lets := []) (deps := genDeps ns [] e) (rhs := substIdx (inameVars inames) le)
      hinv4 hne hlen hname
      (by rw [hvng4]; exact (d2.mem name).2 (Or.inr (by rw [d1.ex]; simp)))
      (Or.inr (fun hE => d1.fresh (hinv1.seeds name hE)))
      (by
        intro hmem
        obtain ⟨w, hw, he⟩ := List.mem_map.1 hmem
        rw [hst4] at hw
        exact hidF (he ▸ hinv3.idsKnown w hw)) hidK
      (by
        intro x hx
        rw [hbind] at hx
        simp only [List.map_nil, List.append_nil] at hx
        refine ⟨by rw [hvng4]; exact (d2.mem x).2 (Or.inl hx),
          fun hE => d2.fresh x hx (hex2 x (hinv1.seeds x hE)),
          fun e => d2.fresh x hx (by rw [e, d1.ex]; simp), fun w hw e => ?_⟩
        rw [hst4, hst31] at hw
        exact d2.fresh x hx (hex2 x (hinv1.names _ (Or.inr (e ▸ List.mem_map.2 ⟨w, hw, rfl⟩)))))
      (by
        intro s hs' x hx e
        rw [hst4, hst31] at hs'
        exact d1.fresh (e ▸ (hinv1.locals s hs' x hx).1))
      hd
      (by
        intro hx
        rcases readNames_substIdx_sub (inameVars inames) le name hx with hx | hx
        · rcases hr name hx with h | h | ⟨w, hw, he, _⟩
          · simp at h
          · exact hname (Or.inl h)
          · exact hname (Or.inr (he ▸ List.mem_map.2 ⟨w, hw, rfl⟩))
        · rw [readNamesList_inameVars] at hx
          exact d2.fresh name hx (by rw [d1.ex]; simp)) (by simp)
      (by
        intro x hx
        simp only [List.flatMap_nil, List.not_mem_nil, or_false] at hx
        rcases readNames_substIdx_sub (inameVars inames) le x hx with hx | hx
        · rcases hr x hx with h | h | h
          · simp at h
          · exact Or.inr (Or.inr (Or.inl h))
          · exact Or.inr (Or.inr (Or.inr (Or.inl h)))
        · rw [readNamesList_inameVars] at hx
          exact Or.inl hx)
    obtain ⟨_, hsid, hlhs, _⟩ := storeStmt_factsL (id := id) (name := name) (inames := inames) (lets := [])
      (rhs := substIdx (inameVars inames) le) (deps := genDeps ns [] e) hne hlen
    exact ⟨SInvR.remember hE (cov_stored_new hsid hlhs) trivial, by simp [St.remember]⟩

end SpecR

theorem hs_ids : ∀ (ls : List RL), (ls.flatMap RL.hs).map (·.id) = ls.flatMap RL.ids
  | [] => rfl
  | r :: rest => by
    simp only [List.flatMap_cons, List.map_append, hs_ids rest]
    rfl

theorem emitTemps_ing (bd : List String) : ∀ (hs : List Hoisted) (st : St), (emitTemps bd hs st).ing = st.ing
  | [], _ => rfl
  | h :: hs, st => by rw [emitTemps_cons, emitTemps_ing bd hs]; rfl

theorem mem_emitTemps_stmts (bd : List String) (hs : List Hoisted) (st : St) (s : KStmt) :
    s ∈ (emitTemps bd hs st).stmts ↔ (∃ h ∈ hs, s = tempStmt bd h) ∨ s ∈ st.stmts := by
  rw [(emitTemps_fields bd hs st).1]
  simp only [List.mem_append, List.mem_reverse, List.mem_map]
  constructor
  · rintro (⟨h, hh, rfl⟩ | h)
    · exact Or.inl ⟨h, hh, rfl⟩
    · exact Or.inr h
  · rintro (⟨h, hh, rfl⟩ | h)
    · exact Or.inl ⟨h, hh, rfl⟩
    · exact Or.inr h

theorem mem_hs {ls : List RL} {h : Hoisted} (hh : h ∈ ls.flatMap RL.hs) :
    ∃ r ∈ ls, (h.temp = r.tl ∧ h.id = r.il ∧ h.e = r.lb) ∨ (h.temp = r.tu ∧ h.id = r.iu ∧ h.e = r.ub) := by
  obtain ⟨r, hr, hin⟩ := List.mem_flatMap.1 hh
  simp only [RL.hs, List.mem_cons, List.mem_nil_iff, or_false] at hin
  rcases hin with rfl | rfl
  · exact ⟨r, hr, Or.inl ⟨rfl, rfl, rfl⟩⟩
  · exact ⟨r, hr, Or.inr ⟨rfl, rfl, rfl⟩⟩

theorem temp_id_mem {ls : List RL} {t : String} (ht : t ∈ ls.flatMap RL.temps) :
    ∃ h ∈ ls.flatMap RL.hs, h.temp = t ∧ h.id ∈ ls.flatMap RL.ids := by
  obtain ⟨r, hr, hin⟩ := List.mem_flatMap.1 ht
  simp only [RL.temps, List.mem_cons, List.mem_nil_iff, or_false] at hin
  rcases hin with rfl | rfl
  · exact ⟨⟨r.v, r.tl, r.il, r.lb⟩, List.mem_flatMap.2 ⟨r, hr, by simp [RL.hs]⟩, rfl,
      List.mem_flatMap.2 ⟨r, hr, by simp [RL.ids]⟩⟩
  · exact ⟨⟨r.v, r.tu, r.iu, r.ub⟩, List.mem_flatMap.2 ⟨r, hr, by simp [RL.hs]⟩, rfl,
      List.mem_flatMap.2 ⟨r, hr, by simp [RL.ids]⟩⟩

section RedS
variable {g : LGraph} {inputNames E0 done : List String}

set_option maxHeartbeats 1600000 in
/-- a stored reduction of the fragment: the structural invariant after its statements -/
theorem red_sspec {fuel i : Nat} (hE0 : ∀ x ∈ inputNames, x ∈ E0)
    (IH : SSpecAtR g inputNames E0 done fuel) {st st' : St} {r : Impl} {shape : Shape} {e : SExpr}
    {binds : List (String × Nat)} {impl : Strategy} {tag : NameTag} {uo : List String} {rvars : List RVar}
    (hn : g.get i = .indexLambda shape e binds impl tag uo rvars) (hf : RedFacts g shape e binds impl uo rvars)
    (hkb : ∀ b ∈ binds, suppAllR g fuel b.2 = true)
    (hm : lookupResult st.results i = none) (h : mapNode g (fuel + 1) i st = .ok (r, st'))
    (hinv : SInvR inputNames E0 done st) :
    SInvR inputNames E0 done st' ∧ (i, r) ∈ st'.results := by
  obtain ⟨uniq, stu, ns, st1, bd, hun, hrec, hbd, hst⟩ := mapNode_red_inv hn hf hm h
  obtain ⟨huq, du⟩ := uniqNames_inv hun
  have hextF := recAll_extF (mapNode_extF fuel) binds stu ns st1 hrec hkb
  have hnames := recAll_names hrec
  have hfound : ∀ x k, rankIn g binds x = some k → lookupNs ns x ≠ none := by
    intro x k hx hnone
    exact (lookupNs_none_iff.1 hnone) (by rw [hnames]; exact rankIn_some_mem hx)
  have hUex1 : ∀ p ∈ uniq, p.2 ∈ st1.vng.existing := fun p hp =>
    hextF.ext.ex _ ((du.mem _).2 (Or.inl (List.mem_map.2 ⟨p, hp, rfl⟩)))
  obtain ⟨name, st2, inames, st3, ls, st3', b', id, st4, deps, hnm, hins, hls, huniq, hd, hdi, hlg, hdeps, hgu, hgen, hid,
      rfl, hst'⟩ :=
    ilStore_invR (rankIn g binds) (n := shape.length) (splitChain_mk e).symm hf.ne hf.nodup hf.rv hf.flags
      (huq.trans hf.uo) hf.body hf.ranks hfound hUex1 hst
  -- the states
  have d1 := tempName_drew hnm
  obtain ⟨d2, hl2⟩ := St.vars_drew hins
  obtain ⟨hinv1, hres⟩ := srecAll_specR IH binds stu ns st1 hrec hkb (hinv.drewMany du)
  have hi34 := DrewI.ofInsnId hid
  have hst4 : st4.stmts = st1.stmts := by
    obtain ⟨g', _, rfl⟩ := St.insnId_ok hid
    show st3'.stmts = _
    rw [hd.stmts, d2.stmts, d1.stmts]
  have hres4 : st4.results = st1.results := by
    obtain ⟨g', _, rfl⟩ := St.insnId_ok hid
    show st3'.results = _
    rw [hd.results, d2.results, d1.results]
  have hex34 : st4.vng.existing = st3'.vng.existing := by
    obtain ⟨g', _, rfl⟩ := St.insnId_ok hid
    rfl
  have hex13 : ∀ x ∈ st1.vng.existing, x ∈ st3.vng.existing := fun x hx =>
    (d2.mem x).2 (Or.inr (by rw [d1.ex]; exact List.mem_cons_of_mem _ hx))
  have hex14 : ∀ x ∈ st1.vng.existing, x ∈ st4.vng.existing := fun x hx => by
    rw [hex34]; exact (hd.mem x).2 (Or.inr (hex13 x hx))
  have hing13 : ∀ x ∈ st1.ing.existing, x ∈ st3.ing.existing := by
    intro x hx; rw [d2.ing, d1.ing]; exact hx
  have hing14 : ∀ x ∈ st1.ing.existing, x ∈ st4.ing.existing := fun x hx =>
    (hi34.mem x).2 (Or.inr ((hdi.mem x).2 (Or.inr (hing13 x hx))))
  have hinv4 : SInvR inputNames E0 done st4 := hinv1.grow hst4 hres4 hex14 hing14
  have hG41 : ∀ x, arrNames inputNames st4 x ↔ arrNames inputNames st1 x := by
    intro x; simp [arrNames, hst4]
  have hus : uniq.map (·.2) = ls.map (·.u) := by rw [huniq]; simp [RL.pair]
  have hvs : ls.map (·.v) = (splitChain e).1.map (·.2.1) := by rw [← hls]; simp [RL.sem]
  have hUst1 : ∀ u ∈ ls.map (·.u), u ∈ st1.vng.existing := by
    intro u hu
    rw [← hus] at hu
    obtain ⟨p, hp, rfl⟩ := List.mem_map.1 hu
    exact hUex1 p hp
  have hG4ex : ∀ x, arrNames inputNames st4 x → x ∈ st1.vng.existing :=
    fun x hx => hinv1.names x ((hG41 x).1 hx)
  have hUfresh : ∀ u ∈ ls.map (·.u), u ∉ st.vng.existing := fun u hu => du.fresh u (by rw [hus]; exact hu)
  have hUG : ∀ u ∈ ls.map (·.u), ¬ arrNames inputNames st4 u := by
    intro u hu hG
    have hustu : u ∈ stu.vng.existing := (du.mem u).2 (Or.inl (by rw [hus]; exact hu))
    rcases (hG41 u).1 hG with hin | hin
    · exact hUfresh u hu (hinv.seeds u (hE0 u hin))
    · obtain ⟨new, hnew⟩ := hextF.ext.stmts
      rw [hnew, List.map_append, List.mem_append] at hin
      rcases hin with hin | hin
      · obtain ⟨s, hs, rfl⟩ := List.mem_map.1 hin
        exact hextF.fresh new hnew s hs hustu
      · rw [du.stmts] at hin
        exact hUfresh u hu (hinv.names u (Or.inr hin))
  have hname : ¬ arrNames inputNames st4 name := fun hx => d1.fresh (hG4ex name hx)
  have hnameEx : name ∈ st4.vng.existing := by
    rw [hex34]; exact (hd.mem name).2 (Or.inr ((d2.mem name).2 (Or.inr (by rw [d1.ex]; simp))))
  have hUname : name ∉ ls.map (·.u) := fun hu => d1.fresh (hUst1 name hu)
  have hTfresh : ∀ t ∈ ls.flatMap RL.temps, t ∉ st3.vng.existing := hd.fresh
  have hTname : name ∉ ls.flatMap RL.temps := fun ht =>
    hTfresh name ht ((d2.mem name).2 (Or.inr (by rw [d1.ex]; simp)))
  have hTU : ∀ t ∈ ls.flatMap RL.temps, t ∉ ls.map (·.u) := fun t ht htu =>
    hTfresh t ht (hex13 t (hUst1 t htu))
  have hlen : inames.length = shape.length := by rw [hl2, length_dimNames]
  have hE0st : ∀ x ∈ E0, x ∈ st1.vng.existing := hinv1.seeds
  -- the expression
  have hin : ∀ x u, lookupStr uniq x = some u → (ls.map (·.u)).reverse.contains u = true := by
    intro x u hxu
    have := (lookupStr_some_mem hxu).2
    rw [hus] at this
    simpa using this
  have hbokR : exprOK shape.length (renameRed uniq (splitChain e).2) = true :=
    exprOK_renameRed uniq shape.length _ hf.body
  have hns := nsCov_of (fun i r hm => (hinv4.results i r hm).1) (by rw [hres4]; exact hres)
  have hnb := nsNoBind_of (fun i r hm => (hinv4.results i r hm).2) (by rw [hres4]; exact hres)
  obtain ⟨hcd, hcr⟩ := gen_cov hns shape.length _ b' (ls.map (·.u)).reverse hbokR hgen
  have hbind : binders (substIdx (inameVars inames) b') = [] :=
    binders_substIdx _ (binders_inameVars inames) b' (gen_nobind hnb shape.length _ b' _ hbokR hgen)
  have hbrk' : ranksOKS (rankIn g binds) (uniq.map (·.1)) (splitChain e).2 = true := by
    rw [huq, hf.uo]; exact hf.ranks
  -- the dependencies
  have hlook : ∀ r ∈ ls, lookupNs (ns ++ tempNs ls) r.tl = some (.stored r.tl [r.il]) ∧
      lookupNs (ns ++ tempNs ls) r.tu = some (.stored r.tu [r.iu]) := by
    intro r hr
    obtain ⟨_, _, n1, n2⟩ := hgu r hr
    obtain ⟨l1, l2⟩ := lookup_tempNs hd.nodup r hr
    exact ⟨by rw [lookupNs_append_none n1]; exact l1, by rw [lookupNs_append_none n2]; exact l2⟩
  have hTUr : ∀ r ∈ ls, r.tl ∉ ls.map (·.u) ∧ r.tu ∉ ls.map (·.u) ∧ r.u ∈ ls.map (·.u) := fun r hr =>
    ⟨hTU _ (List.mem_flatMap.2 ⟨r, hr, by simp [RL.temps]⟩), hTU _ (List.mem_flatMap.2 ⟨r, hr, by simp [RL.temps]⟩),
      List.mem_map.2 ⟨r, hr, rfl⟩⟩
  have hdepsEq : deps = bd ++ (ls.flatMap RL.ids ++ genDeps ns (ls.map (·.u)).reverse (renameRed uniq (splitChain e).2)) := by
    rw [hdeps, genDeps_chain (ns ++ tempNs ls) (ls.map (·.u)) _ ls [] hlook hTUr (by simp),
      List.append_nil, genDeps_append ns (tempNs ls) (rankIn g binds) uniq shape.length hfound _ _ hin hf.body hbrk']
  -- the bounds
  have hbF : ∀ r ∈ ls, (exprOK shape.length r.lo = true ∧ ranksOK (rankIn g binds) r.lo = true) ∧
      exprOK shape.length r.hi = true ∧ ranksOK (rankIn g binds) r.hi = true := by
    intro r hr
    have hm : r.sem ∈ (splitChain e).1 := by rw [← hls]; exact List.mem_map.2 ⟨r, hr, rfl⟩
    exact hf.bounds r.sem hm
  have hbdIn : ∀ r ∈ ls, (∀ d ∈ genDeps ns [] r.lo, d ∈ bd) ∧ ∀ d ∈ genDeps ns [] r.hi, d ∈ bd := by
    intro r hr
    have hm : r.sem ∈ (splitChain e).1 := by rw [← hls]; exact List.mem_map.2 ⟨r, hr, rfl⟩
    exact ⟨fun d hd => (hbd d).2 ⟨r.sem, hm, Or.inl hd⟩, fun d hd => (hbd d).2 ⟨r.sem, hm, Or.inr hd⟩⟩
  have hbdS : ∀ d ∈ bd, d ∈ st4.stmts.map (·.id) := by
    intro d hd
    obtain ⟨c, hc, hcd⟩ := (hbd d).1 hd
    rw [← hls] at hc
    obtain ⟨r, hr, rfl⟩ := List.mem_map.1 hc
    obtain ⟨⟨a1, _⟩, a3, _⟩ := hbF r hr
    obtain ⟨g1, g2⟩ := hlg r hr
    rcases hcd with hcd | hcd
    · exact (gen_cov hns shape.length r.lo r.lb [] a1 g1).1 d hcd
    · exact (gen_cov hns shape.length r.hi r.ub [] a3 g2).1 d hcd
  have hbCov : ∀ r ∈ ls, (∀ x ∈ readNames r.lb, x ∈ inputNames ∨ ∃ w ∈ st4.stmts, w.lhs = x ∧ w.id ∈ bd) ∧
      (∀ x ∈ readNames r.ub, x ∈ inputNames ∨ ∃ w ∈ st4.stmts, w.lhs = x ∧ w.id ∈ bd) ∧
      binders r.lb = [] ∧ binders r.ub = [] := by
    intro r hr
    obtain ⟨⟨a1, _⟩, a3, _⟩ := hbF r hr
    obtain ⟨g1, g2⟩ := hlg r hr
    obtain ⟨b1, b2⟩ := hbdIn r hr
    refine ⟨fun x hx => ?_, fun x hx => ?_, gen_nobind hnb shape.length r.lo r.lb [] a1 g1,
      gen_nobind hnb shape.length r.hi r.ub [] a3 g2⟩
    · rcases (gen_cov hns shape.length r.lo r.lb [] a1 g1).2 x hx with h | h | ⟨w, hw, he, hid⟩
      · simp at h
      · exact Or.inl h
      · exact Or.inr ⟨w, hw, he, b1 _ hid⟩
    · rcases (gen_cov hns shape.length r.hi r.ub [] a3 g2).2 x hx with h | h | ⟨w, hw, he, hid⟩
      · simp at h
      · exact Or.inl h
      · exact Or.inr ⟨w, hw, he, b2 _ hid⟩
  have hrhs : readBackBounds (ls.flatMap RL.hs) uniq (substIdx (inameVars inames) (mkChain (ls.map RL.renamed) b'))
      = mkChain (ls.map RL.ker) (substIdx (inameVars inames) b') := by
    rw [substIdx_chain_ker, readBackBounds_chain' _ uniq _ hbind ls (fun r hr => any_temp_hs hr)]
  have hbindK : binders (mkChain (ls.map RL.ker) (substIdx (inameVars inames) b')) = ls.map (·.u) := by
    rw [binders_chain_ker, hbind, List.append_nil]
  rw [hrhs] at hst'
  -- what the right-hand side reads
  have hreads : ∀ x ∈ readNames (mkChain (ls.map RL.ker) (substIdx (inameVars inames) b')),
      x ∈ ls.flatMap RL.temps ∨ x ∈ inames ∨ x ∈ ls.map (·.u) ∨ x ∈ inputNames ∨
        ∃ w ∈ st4.stmts, w.lhs = x ∧ w.id ∈ genDeps ns (ls.map (·.u)).reverse (renameRed uniq (splitChain e).2) := by
    intro x hx
    rcases readNames_chain_ker _ ls x hx with hx | hx
    · exact Or.inl hx
    · rcases readNames_substIdx_sub (inameVars inames) b' x hx with hx | hx
      · rcases hcr x hx with h | h | h
        · exact Or.inr (Or.inr (Or.inl (List.mem_reverse.1 h)))
        · exact Or.inr (Or.inr (Or.inr (Or.inl h)))
        · exact Or.inr (Or.inr (Or.inr (Or.inr h)))
      · rw [readNamesList_inameVars] at hx
        exact Or.inr (Or.inl hx)
  have hreadName : name ∉ readNames (mkChain (ls.map RL.ker) (substIdx (inameVars inames) b')) := by
    intro hx
    rcases hreads name hx with h | h | h | h | ⟨w, hw, he, _⟩
    · exact hTname h
    · exact d2.fresh name h (by rw [d1.ex]; simp)
    · exact hUname h
    · exact hname (Or.inl h)
    · exact hname (Or.inr (he ▸ List.mem_map.2 ⟨w, hw, rfl⟩))
  have hidFresh3 : id ∉ st3'.ing.existing := hi34.fresh id (by simp)
  have hidK : id ∈ st4.ing.existing := (hi34.mem id).2 (Or.inl (by simp))
  have hidsOld : ∀ w ∈ st4.stmts, w.id ∈ st1.ing.existing := fun w hw => hinv1.idsKnown w (hst4 ▸ hw)
  have hidF4 : id ∉ st4.stmts.map (·.id) := by
    intro hmem
    obtain ⟨w, hw, he⟩ := List.mem_map.1 hmem
    exact hidFresh3 (he ▸ (hdi.mem _).2 (Or.inr (hing13 _ (hidsOld w hw))))
  have hletIdOld : ∀ w ∈ st4.stmts, w.id ∉ ls.flatMap RL.ids := fun w hw hmem =>
    hdi.fresh _ hmem (hing13 _ (hidsOld w hw))
  -- the names bound by the statement: loop variables, private scalars, reduction variables
  have hlocU : ∀ x ∈ ls.map (·.u), x ∈ st4.vng.existing ∧ x ∉ E0 ∧ x ≠ name ∧ ∀ w ∈ st4.stmts, x ≠ w.lhs := by
    intro x hx
    refine ⟨hex14 x (hUst1 x hx), fun hE => hUfresh x hx (hinv.seeds x hE), fun e => hUname (e ▸ hx),
      fun w hw e => hUG x hx (Or.inr (e ▸ List.mem_map.2 ⟨w, hw, rfl⟩))⟩
  have hlocI : ∀ x ∈ inames, x ∈ st4.vng.existing ∧ x ∉ E0 ∧ x ≠ name ∧ ∀ w ∈ st4.stmts, x ≠ w.lhs := by
    intro x hx
    have hfr : x ∉ st2.vng.existing := d2.fresh x hx
    refine ⟨by rw [hex34]; exact (hd.mem x).2 (Or.inr ((d2.mem x).2 (Or.inl hx))),
      fun hE => hfr (by rw [d1.ex]; exact List.mem_cons_of_mem _ (hE0st x hE)),
      fun e => hfr (by rw [e, d1.ex]; simp), fun w hw e => ?_⟩
    exact hfr (by rw [d1.ex]; exact List.mem_cons_of_mem _ (hG4ex _ (Or.inr (e ▸ List.mem_map.2 ⟨w, hw, rfl⟩))))
  have hlocT : ∀ x ∈ ls.flatMap RL.temps, x ∈ st4.vng.existing ∧ x ∉ E0 ∧ x ≠ name ∧ ∀ w ∈ st4.stmts, x ≠ w.lhs := by
    intro x hx
    refine ⟨by rw [hex34]; exact (hd.mem x).2 (Or.inl hx), fun hE => hTfresh x hx (hex13 x (hE0st x hE)),
      fun e => hTname (e ▸ hx), fun w hw e => ?_⟩
    exact hTfresh x hx (hex13 x (hG4ex _ (Or.inr (e ▸ List.mem_map.2 ⟨w, hw, rfl⟩))))
  have holdLoc : ∀ s ∈ st4.stmts, ∀ x ∈ s.locals ++ binders s.rhs, x ∈ st1.vng.existing := fun s hs x hx =>
    (hinv1.locals s (hst4 ▸ hs) x hx).1
  have hnameOld : ∀ s ∈ st4.stmts, ∀ x ∈ s.locals ++ binders s.rhs, x ≠ name := fun s hs x hx e =>
    d1.fresh (e ▸ holdLoc s hs x hx)
  have hdepsBody : ∀ d ∈ genDeps ns (ls.map (·.u)).reverse (renameRed uniq (splitChain e).2),
      d ∈ st4.stmts.map (·.id) := hcd
  have hdepsBd : ∀ d ∈ bd, d ∈ deps := fun d hd => by rw [hdepsEq]; exact List.mem_append_left _ hd
  have hdepsIds : ∀ d ∈ ls.flatMap RL.ids, d ∈ deps := fun d hd => by
    rw [hdepsEq]; exact List.mem_append_right _ (List.mem_append_left _ hd)
  have hdepsBody' : ∀ d ∈ genDeps ns (ls.map (·.u)).reverse (renameRed uniq (splitChain e).2), d ∈ deps :=
    fun d hd => by rw [hdepsEq]; exact List.mem_append_right _ (List.mem_append_right _ hd)
  have hdepsCases : ∀ d ∈ deps, d ∈ ls.flatMap RL.ids ∨ d ∈ st4.stmts.map (·.id) := by
    intro d hd
    rw [hdepsEq, List.mem_append, List.mem_append] at hd
    rcases hd with hd | hd | hd
    · exact Or.inr (hbdS d hd)
    · exact Or.inl hd
    · exact Or.inr (hdepsBody d hd)
  by_cases h0 : shape.length = 0
  · -- 0-d: the bound temporaries are statements
    rw [emitStored_0d h0] at hst'
    subst hst'
    obtain ⟨hstmT, hresT, hvngT⟩ := emitTemps_fields bd (ls.flatMap RL.hs) st4
    have hingT := emitTemps_ing bd (ls.flatMap RL.hs) st4
    have hmemT := mem_emitTemps_stmts bd (ls.flatMap RL.hs) st4
    have hinvT : SInvR inputNames E0 done (emitTemps bd (ls.flatMap RL.hs) st4) := by
      apply semitTemps_spec bd _ _ hinv4 (by rw [hs_temps]; exact hd.nodup) (by rw [hs_ids]; exact hdi.nodup) hbdS
      intro h' hh'
      have htm : h'.temp ∈ ls.flatMap RL.temps := by rw [← hs_temps]; exact List.mem_map.2 ⟨h', hh', rfl⟩
      have hidm : h'.id ∈ ls.flatMap RL.ids := by rw [← hs_ids]; exact List.mem_map.2 ⟨h', hh', rfl⟩
      obtain ⟨a1, a2, a3, a4⟩ := hlocT _ htm
      obtain ⟨r0, hr0, hc | hc⟩ := mem_hs hh'
      · obtain ⟨c1, _, c3, _⟩ := hbCov r0 hr0
        refine ⟨fun hG => hTfresh _ htm (hex13 _ (hG4ex _ hG)), a1, a2, by rw [hc.2.2]; exact c3,
          by rw [hc.2.2]; exact c1, ?_, (hi34.mem _).2 (Or.inr ((hdi.mem _).2 (Or.inl hidm))),
          fun s0 hs0 x hx e => hTfresh _ htm (hex13 _ (e ▸ holdLoc s0 hs0 x hx))⟩
        intro hmem
        obtain ⟨w, hw, he⟩ := List.mem_map.1 hmem
        exact hletIdOld w hw (he ▸ hidm)
      · obtain ⟨_, c2, _, c4⟩ := hbCov r0 hr0
        refine ⟨fun hG => hTfresh _ htm (hex13 _ (hG4ex _ hG)), a1, a2, by rw [hc.2.2]; exact c4,
          by rw [hc.2.2]; exact c2, ?_, (hi34.mem _).2 (Or.inr ((hdi.mem _).2 (Or.inl hidm))),
          fun s0 hs0 x hx e => hTfresh _ htm (hex13 _ (e ▸ holdLoc s0 hs0 x hx))⟩
        intro hmem
        obtain ⟨w, hw, he⟩ := List.mem_map.1 hmem
        exact hletIdOld w hw (he ▸ hidm)
    have hlhsT : ∀ w ∈ (emitTemps bd (ls.flatMap RL.hs) st4).stmts,
        w.lhs ∈ ls.flatMap RL.temps ∨ w ∈ st4.stmts := by
      intro w hw
      rcases (hmemT w).1 hw with ⟨h', hh', rfl⟩ | hw
      · exact Or.inl (by rw [← hs_temps]; exact List.mem_map.2 ⟨h', hh', rfl⟩)
      · exact Or.inr hw
    have hE := SInvR.emitL (id := id) (name := name) (inames := inames) (shape := shape) (lets := [])
      (rhs := mkChain (ls.map RL.ker) (substIdx (inameVars inames) b')) (deps := deps)
      hinvT hf.ne hlen
      (by
        rintro (hx | hx)
        · exact hname (Or.inl hx)
        · obtain ⟨w, hw, he⟩ := List.mem_map.1 hx
          rcases hlhsT w hw with ht | hw
          · exact hTname (he ▸ ht)
          · exact hname (Or.inr (he ▸ List.mem_map.2 ⟨w, hw, rfl⟩)))
      (by rw [hvngT]; exact hnameEx) (Or.inr (fun hE => d1.fresh (hE0st name hE)))
      (by
        intro hmem
        obtain ⟨w, hw, he⟩ := List.mem_map.1 hmem
        rcases (hmemT w).1 hw with ⟨h', hh', rfl⟩ | hw
        · have hidm : h'.id ∈ ls.flatMap RL.ids := by rw [← hs_ids]; exact List.mem_map.2 ⟨h', hh', rfl⟩
          exact hidFresh3 (he ▸ (hdi.mem _).2 (Or.inl hidm))
        · exact hidF4 (he ▸ List.mem_map.2 ⟨w, hw, rfl⟩))
      (by rw [hingT]; exact hidK)
      (by
        intro x hx
        rw [hbindK] at hx
        simp only [List.map_nil, List.append_nil, List.mem_append] at hx
        rcases hx with hx | hx
        · obtain ⟨a1, a2, a3, a4⟩ := hlocI x hx
          refine ⟨by rw [hvngT]; exact a1, a2, a3, fun w hw e => ?_⟩
          rcases hlhsT w hw with ht | hw
          · exact hTfresh _ ht ((d2.mem _).2 (Or.inl (e ▸ hx)))
          · exact a4 w hw e
        · obtain ⟨a1, a2, a3, a4⟩ := hlocU x hx
          refine ⟨by rw [hvngT]; exact a1, a2, a3, fun w hw e => ?_⟩
          rcases hlhsT w hw with ht | hw
          · exact hTU _ ht (e ▸ hx)
          · exact a4 w hw e)
      (by
        intro s0 hs0 x hx
        rcases (hmemT s0).1 hs0 with ⟨h', hh', rfl⟩ | hs0
        · obtain ⟨r0, hr0, hc | hc⟩ := mem_hs hh'
          · obtain ⟨_, _, c3, _⟩ := hbCov r0 hr0
            simp [tempStmt, KStmt.locals, hc.2.2, c3] at hx
          · obtain ⟨_, _, _, c4⟩ := hbCov r0 hr0
            simp [tempStmt, KStmt.locals, hc.2.2, c4] at hx
        · exact hnameOld s0 hs0 x hx)
      (by
        intro d hd0
        rcases hdepsCases d hd0 with hd0 | hd0
        · rw [← hs_ids] at hd0
          obtain ⟨h', hh', rfl⟩ := List.mem_map.1 hd0
          exact List.mem_map.2 ⟨tempStmt bd h', (hmemT _).2 (Or.inl ⟨h', hh', rfl⟩), rfl⟩
        · obtain ⟨w, hw, he⟩ := List.mem_map.1 hd0
          exact List.mem_map.2 ⟨w, (hmemT w).2 (Or.inr hw), he⟩)
      hreadName (by simp)
      (by
        intro x hx
        simp only [List.flatMap_nil, List.not_mem_nil, or_false] at hx
        rcases hreads x hx with h | h | h | h | ⟨w, hw, he, hwid⟩
        · obtain ⟨h', hh', ht, hidm⟩ := temp_id_mem h
          exact Or.inr (Or.inr (Or.inr (Or.inl ⟨tempStmt bd h', (hmemT _).2 (Or.inl ⟨h', hh', rfl⟩), ht,
            hdepsIds _ hidm⟩)))
        · exact Or.inl h
        · exact Or.inr (Or.inr (Or.inr (Or.inr (by rw [hbindK]; exact h))))
        · exact Or.inr (Or.inr (Or.inl h))
        · exact Or.inr (Or.inr (Or.inr (Or.inl ⟨w, (hmemT w).2 (Or.inr hw), he, hdepsBody' _ hwid⟩))))
    obtain ⟨_, hsid, hlhs, _⟩ := storeStmt_factsL (id := id) (name := name) (inames := inames) (lets := [])
      (rhs := mkChain (ls.map RL.ker) (substIdx (inameVars inames) b')) (deps := deps) hf.ne hlen
    exact ⟨SInvR.remember hE (cov_stored_new hsid hlhs) trivial, by simp [St.remember]⟩
  · -- a result with axes: the bounds are private scalars of the store
    rw [emitStored_nd_eq h0, lets_emitStored, hs_ids] at hst'
    subst hst'
    have hletNames : ∀ x, x ∈ (sortLets (letsOf (inameVars inames) ls)).map (·.1) ↔ x ∈ ls.flatMap RL.temps := by
      intro x
      rw [← letsOf_names (inameVars inames)]
      exact ((sortLets_perm (letsOf (inameVars inames) ls)).map _).mem_iff
    have hletR : ∀ x ∈ (sortLets (letsOf (inameVars inames) ls)).flatMap (fun l => readNames l.2),
        x ∈ inames ∨ x ∈ inputNames ∨ ∃ w ∈ st4.stmts, w.lhs = x ∧ w.id ∈ bd := by
      intro x hx
      obtain ⟨l, hl, hxl⟩ := List.mem_flatMap.1 hx
      obtain ⟨r0, hr0, hc | hc⟩ := mem_letsOf ((sortLets_perm _).mem_iff.1 hl)
      · rw [hc] at hxl
        rcases readNames_substIdx_sub (inameVars inames) r0.lb x hxl with h1 | h1
        · exact Or.inr ((hbCov r0 hr0).1 x h1)
        · rw [readNamesList_inameVars] at h1; exact Or.inl h1
      · rw [hc] at hxl
        rcases readNames_substIdx_sub (inameVars inames) r0.ub x hxl with h1 | h1
        · exact Or.inr ((hbCov r0 hr0).2.1 x h1)
        · rw [readNamesList_inameVars] at h1; exact Or.inl h1
    have hE := SInvR.emitL (id := id) (name := name) (inames := inames) (shape := shape)
      (lets := sortLets (letsOf (inameVars inames) ls)) (rhs := mkChain (ls.map RL.ker) (substIdx (inameVars inames) b'))
      (deps := deps.filter fun d => !(ls.flatMap RL.ids).contains d)
      hinv4 hf.ne hlen hname hnameEx (Or.inr (fun hE => d1.fresh (hE0st name hE))) hidF4 hidK
      (by
        intro x hx
        rw [hbindK] at hx
        simp only [List.mem_append] at hx
        rcases hx with (hx | hx) | hx
        · exact hlocI x hx
        · exact hlocT x ((hletNames x).1 hx)
        · exact hlocU x hx)
      hnameOld
      (by
        intro d hd0
        obtain ⟨hd1, hd2⟩ := List.mem_filter.1 hd0
        rcases hdepsCases d hd1 with hd1 | hd1
        · simp [hd1] at hd2
        · exact hd1)
      hreadName
      (by
        intro l hl hx
        rcases hletR name (List.mem_flatMap.2 ⟨l, hl, hx⟩) with h | h | ⟨w, hw, he, _⟩
        · exact d2.fresh name h (by rw [d1.ex]; simp)
        · exact hname (Or.inl h)
        · exact hname (Or.inr (he ▸ List.mem_map.2 ⟨w, hw, rfl⟩)))
      (by
        intro x hx
        rcases hx with hx | hx
        · rcases hreads x hx with h | h | h | h | ⟨w, hw, he, hwid⟩
          · exact Or.inr (Or.inl ((hletNames x).2 h))
          · exact Or.inl h
          · exact Or.inr (Or.inr (Or.inr (Or.inr (by rw [hbindK]; exact h))))
          · exact Or.inr (Or.inr (Or.inl h))
          · refine Or.inr (Or.inr (Or.inr (Or.inl ⟨w, hw, he, List.mem_filter.2 ⟨hdepsBody' _ hwid, ?_⟩⟩)))
            simpa using hletIdOld w hw
        · rcases hletR x hx with h | h | ⟨w, hw, he, hwid⟩
          · exact Or.inl h
          · exact Or.inr (Or.inr (Or.inl h))
          · refine Or.inr (Or.inr (Or.inr (Or.inl ⟨w, hw, he, List.mem_filter.2 ⟨hdepsBd _ hwid, ?_⟩⟩)))
            simpa using hletIdOld w hw)
    obtain ⟨_, hsid, hlhs, _⟩ := storeStmt_factsL (id := id) (name := name) (inames := inames)
      (lets := sortLets (letsOf (inameVars inames) ls)) (rhs := mkChain (ls.map RL.ker) (substIdx (inameVars inames) b'))
      (deps := deps.filter fun d => !(ls.flatMap RL.ids).contains d) hf.ne hlen
    exact ⟨SInvR.remember hE (cov_stored_new hsid hlhs) trivial, by simp [St.remember]⟩

end RedS

/-! ## the traversal and the loop over the outputs -/

section TraverseS
variable {g : LGraph} {inputNames E0 done : List String}

theorem smapNode_specR (hin : ∀ i name shape, g.get i = .input name shape → name ∈ inputNames)
    (hE0 : ∀ x ∈ inputNames, x ∈ E0) :
    ∀ (fuel : Nat), SSpecAtR g inputNames E0 done fuel
  | 0 => by
    intro i st r st' h
    simp [mapNode] at h
  | fuel + 1 => by
    intro i st r st' h hs hinv
    obtain ⟨hsn, hkids⟩ := suppAllR_succ hs
    have IH : SSpecAtR g inputNames E0 done fuel := smapNode_specR hin hE0 fuel
    cases hm : lookupResult st.results i with
    | some r0 =>
      unfold mapNode at h
      simp only [hm, Res.ok.injEq, Prod.mk.injEq] at h
      obtain ⟨rfl, rfl⟩ := h
      exact ⟨hinv, lookupResult_mem hm⟩
    | none =>
      cases hn : g.get i with
      | refused w => simp [suppNodeR, suppNode, redNode, hn] at hsn
      | other w => simp [suppNodeR, suppNode, redNode, hn] at hsn
      | input name shape =>
        unfold mapNode at h
        simp only [hm, hn, Res.ok.injEq, Prod.mk.injEq] at h
        obtain ⟨rfl, rfl⟩ := h
        refine ⟨SInvR.remember hinv ⟨by simp [Impl.deps], fun x hx => ?_⟩ trivial, by simp [St.remember]⟩
        simp only [implReads, List.mem_singleton] at hx
        exact Or.inl (hx ▸ hin _ name shape hn)
      | indexLambda shape e binds impl tag uo rvars =>
        have hkb : ∀ b ∈ binds, suppAllR g fuel b.2 = true :=
          fun b hb => hkids b.2 (by simp only [kidsOf, hn]; exact List.mem_map.2 ⟨b, hb, rfl⟩)
        rcases suppNodeR_cases hsn with hp | ⟨_, hred⟩
        · exact plain_sspec IH hn hp hkb hm h hinv
        · exact red_sspec hE0 IH hn (redNode_facts hn hred) hkb hm h hinv

theorem SInvR.doneMono {done' : List String} {st : St} (h : SInvR inputNames E0 done st)
    (hd : ∀ x ∈ done, x ∈ done') : SInvR inputNames E0 done' st :=
  ⟨h.names, h.seeds, fun s hs => (h.origin s hs).imp (hd _) id, h.active, h.idsKnown, h.idsNodup, h.lhsNodup,
    h.locals, h.stmtOK, h.results, h.lhsNotInput⟩

theorem sstoreOutputs_specR (hin : ∀ i name shape, g.get i = .input name shape → name ∈ inputNames)
    (hE0 : ∀ x ∈ inputNames, x ∈ E0) {fuel : Nat} :
    ∀ (outs : List (String × Nat)) (done : List String) (st st' : St),
      storeOutputs g fuel outs st = .ok st' → (∀ o ∈ outs, suppAllR g fuel o.2 = true) →
      SInvR inputNames E0 done st → (outs.map (·.1)).Nodup →
      (∀ o ∈ outs, o.1 ∈ E0 ∧ o.1 ∉ inputNames ∧ o.1 ∉ done) →
      ∃ done', SInvR inputNames E0 done' st'
  | [], done, st, st', h, _, hinv, _, _ => by
    simp only [storeOutputs, Res.ok.injEq] at h
    subst h
    exact ⟨done, hinv⟩
  | (name, i) :: rest, done, st, st', h, hs, hinv, hnd, hnames => by
    obtain ⟨r, st1, inames, st2, id, st3, h1, h2, h3, h4⟩ := storeOutputs_cons h
    have hsi := hs (name, i) (by simp)
    have hsn := suppAllR_node hsi
    obtain ⟨d2, hl2⟩ := St.vars_drew h2
    obtain ⟨hinv1, hm1⟩ := smapNode_specR (E0 := E0) (done := done) hin hE0 fuel i st r st1 h1 hsi hinv
    obtain ⟨hinv3, hidF, hidK, hst3, hres3, hvng3, _⟩ := (hinv1.drewMany d2).insnId h3
    have hinv3' := hinv3.doneMono (done' := name :: done) (fun x hx => List.mem_cons_of_mem _ hx)
    obtain ⟨hnE0, hnin, hnd'⟩ := hnames (name, i) (by simp)
    have hst31 : st3.stmts = st1.stmts := by rw [hst3, d2.stmts]
    obtain ⟨hcov, hnb⟩ : Cov inputNames st3.stmts r ∧ NoBind r := by
      apply hinv3.results i r
      rw [hres3, d2.results]; exact hm1
    have hname : ¬ arrNames inputNames st3 name := by
      rintro (hx | hx)
      · exact hnin hx
      · obtain ⟨s, hs', he⟩ := List.mem_map.1 hx
        rw [hst31] at hs'
        rcases hinv1.origin s hs' with ho | ho
        · exact hnd' (he ▸ ho)
        · exact ho (he ▸ hnE0)
    have hnameEx1 : name ∈ st1.vng.existing := hinv1.seeds name hnE0
    have hne : isEmptyShape (shapeOf g i) = false := shape_ne_R hsn
    have hlen : inames.length = (shapeOf g i).length := by rw [hl2, length_dimNames]
    have hbind : binders (r.toExpr (inameVars inames)) = [] := toExpr_nobind hnb _ (binders_inameVars inames)
    have hidF3 : id ∉ st3.stmts.map (·.id) := by
      intro hmem
      obtain ⟨w, hw, he⟩ := List.mem_map.1 hmem
      rw [hst3] at hw
      exact hidF (he ▸ (hinv1.drewMany d2).idsKnown w hw)
    have hE := SInvR.emitL (id := id) (lets := []) (deps := r.deps) (rhs := r.toExpr (inameVars inames))
      hinv3' hne hlen hname
      (by rw [hvng3]; exact (d2.mem name).2 (Or.inr hnameEx1))
      (Or.inl (by simp)) hidF3 hidK
      (by
        intro x hx
        rw [hbind] at hx
        simp only [List.map_nil, List.append_nil] at hx
        refine ⟨by rw [hvng3]; exact (d2.mem x).2 (Or.inl hx), fun hE => d2.fresh x hx (hinv1.seeds x hE),
          fun e => d2.fresh x hx (e ▸ hnameEx1), fun w hw e => ?_⟩
        rw [hst31] at hw
        exact d2.fresh x hx (hinv1.names _ (Or.inr (e ▸ List.mem_map.2 ⟨w, hw, rfl⟩))))
      (by
        intro s hs' x hx e
        rw [hst31] at hs'
        exact (hinv1.locals s hs' x hx).2.1 (e ▸ hnE0))
      (by
        intro d hd
        exact hcov.1 d hd)
      (by
        intro hx
        rcases toExpr_reads_cov r (inameVars inames) name hx with hx | hx
        · rcases hcov.2 name hx with h | ⟨w, hw, he, _⟩
          · exact hnin h
          · exact hname (Or.inr (he ▸ List.mem_map.2 ⟨w, hw, rfl⟩))
        · rw [readNamesList_inameVars] at hx
          exact d2.fresh name hx hnameEx1) (by simp)
      (by
        intro x hx
        simp only [List.flatMap_nil, List.not_mem_nil, or_false] at hx
        rcases toExpr_reads_cov r (inameVars inames) x hx with hx | hx
        · rcases hcov.2 x hx with h | h
          · exact Or.inr (Or.inr (Or.inl h))
          · exact Or.inr (Or.inr (Or.inr (Or.inl h)))
        · rw [readNamesList_inameVars] at hx
          exact Or.inl hx)
    obtain ⟨_, hsid, hlhs, _⟩ := storeStmt_factsL (id := id) (name := name) (inames := inames) (lets := [])
      (rhs := r.toExpr (inameVars inames)) (deps := r.deps) hne hlen
    have hinv4 := SInvR.remember (i := i) hE (cov_stored_new (inputNames := inputNames) hsid hlhs) trivial
    have hnd2 := List.nodup_cons.1 (show (name :: rest.map (·.1)).Nodup from hnd)
    exact sstoreOutputs_specR hin hE0 rest (name :: done) _ st' h4
      (fun o ho => hs o (List.mem_cons_of_mem _ ho)) hinv4 hnd2.2
      (by
        intro o ho
        obtain ⟨a, b, c⟩ := hnames o (List.mem_cons_of_mem _ ho)
        refine ⟨a, b, fun hc => ?_⟩
        rcases List.mem_cons.1 hc with hc | hc
        · exact hnd2.1 (hc ▸ List.mem_map.2 ⟨o, ho, rfl⟩)
        · exact c hc)

end TraverseS

/-! ## from the invariant to the static check -/

theorem checks_of_SInvR {inputNames E0 done : List String} {st : St} (h : SInvR inputNames E0 done st) :
    checkKernel st.stmts.reverse = true ∧ respectsDeps st.stmts.reverse = true := by
  have hact : ∀ s ∈ st.stmts.reverse, s.noop = false := fun s hs => h.active s (List.mem_reverse.1 hs)
  have hfilter : st.stmts.reverse.filter (fun s => !s.noop) = st.stmts.reverse := by
    apply List.filter_eq_self.2
    intro s hs
    simp [hact s hs]
  constructor
  · simp only [checkKernel, hfilter, Bool.and_eq_true, decide_eq_true_eq, List.all_eq_true]
    refine ⟨⟨⟨?_, ?_⟩, ?_⟩, ?_⟩
    · rw [List.map_reverse]; exact (List.reverse_perm _).nodup_iff.2 h.idsNodup
    · rw [List.map_reverse]; exact (List.reverse_perm _).nodup_iff.2 h.lhsNodup
    · intro s hs d hd
      obtain ⟨pre, post, hsplit⟩ := List.append_of_mem (List.mem_reverse.1 hs)
      have := (h.stmtOK pre s post hsplit).1 d hd
      rw [List.contains_eq_mem, decide_eq_true_eq, List.map_reverse, List.mem_reverse, hsplit]
      simp only [List.map_append, List.map_cons, List.mem_append, List.mem_cons]
      exact Or.inr (Or.inr this)
    · intro s hs
      have hs' := List.mem_reverse.1 hs
      obtain ⟨pre, post, hsplit⟩ := List.append_of_mem hs'
      obtain ⟨hdep, hself, hreads⟩ := h.stmtOK pre s post hsplit
      simp only [hact s hs, Bool.false_or, Bool.and_eq_true, Bool.not_eq_true', List.all_eq_true]
      refine ⟨⟨?_, ?_⟩, ?_⟩
      · simpa using hself
      · intro x hx
        have := (h.locals s hs' x (List.mem_append_left _ hx)).2.2
        simp only [List.contains_eq_mem, decide_eq_false_iff_not, List.map_reverse, List.mem_reverse]
        intro hm
        obtain ⟨w, hw, he⟩ := List.mem_map.1 hm
        exact this w hw he.symm
      · intro x hx
        cases hwo : writerOf st.stmts.reverse x with
        | none => rfl
        | some w =>
          simp only
          have hwk : w ∈ st.stmts.reverse := List.mem_of_find?_eq_some hwo
          have hwp := List.find?_some hwo
          simp only [Bool.and_eq_true, beq_iff_eq] at hwp
          have hwS := List.mem_reverse.1 hwk
          rcases hreads x hx with hinp | ⟨w', hw', he, hid⟩ | hb
          · exact absurd (hwp.2 ▸ hinp) (h.lhsNotInput w hwS)
          · have hw'S : w' ∈ st.stmts := by rw [hsplit]; simp [hw']
            have : w = w' := eq_of_map_eq_of_nodup (·.lhs) st.stmts h.lhsNodup hwS hw'S (by rw [hwp.2, he])
            rw [List.contains_eq_mem, decide_eq_true_eq, this]
            exact mem_depClosure_seed _ _ _ _ hid
          · -- a reduction variable is never an array
            exact absurd hwp.2.symm ((h.locals s hs' x (List.mem_append_right _ hb)).2.2 w hwS)
  · apply respectsDeps_go_of
    intro pre s post hsplit d hd
    have hrev : st.stmts = post.reverse ++ s :: pre.reverse := by
      have := congrArg List.reverse hsplit
      simpa using this
    have := (h.stmtOK post.reverse s pre.reverse hrev).1 d hd
    right
    simpa using this

/-- **loopygen_checks_red_partial.**  On the fragment with reductions (`suppAllR`) the kernel the
    model of the statement generator produces passes the static check `checkKernel` — single
    assignment, distinct instruction ids, every dependency an existing instruction, every array an
    instruction reads either an input or written by an instruction it depends on (a reduction's
    unique iname, which the right-hand side mentions, is written by no instruction), no instruction
    reads what it writes, loop variables and private scalars are never written — and its own order
    respects the dependencies. -/
theorem loopygen_checks_red_partial (g : LGraph) (outputs : List (String × Nat)) (inputNames : List String)
    (k : Kernel) (hgen : generate g outputs inputNames = .ok k)
    (hsupp : ∀ o ∈ outputs, suppAllR g g.size o.2 = true)
    (hin : ∀ i name shape, g.get i = .input name shape → name ∈ inputNames)
    (hnd : (outputs.map (·.1)).Nodup) (hdisj : ∀ o ∈ outputs, o.1 ∉ inputNames) :
    checkKernel k = true ∧ respectsDeps k = true := by
  unfold generate at hgen
  obtain ⟨st, hst, hk⟩ := Res.bind_ok.1 hgen
  simp only [Res.ok.injEq] at hk
  subst hk
  have hinv0 : SInvR inputNames (outputs.map (·.1) ++ inputNames) []
      { vng := { existing := outputs.map (·.1) ++ inputNames, counters := [] },
        ing := { existing := [], counters := [] }, results := [], stmts := [] } := by
    refine ⟨?_, fun x hx => hx, by simp, by simp, by simp, by simp, by simp, by simp, ?_, by simp, by simp⟩
    · rintro x (hx | hx)
      · exact List.mem_append_right _ hx
      · simp at hx
    · intro pre s post hsplit
      simp at hsplit
  obtain ⟨done', hinv⟩ := sstoreOutputs_specR (E0 := outputs.map (·.1) ++ inputNames) hin
    (fun x hx => List.mem_append_right _ hx) outputs [] _ st hst hsupp hinv0 hnd
    (fun o ho => ⟨List.mem_append_left _ (List.mem_map.2 ⟨o, ho, rfl⟩), hdisj o ho, by simp⟩)
  exact checks_of_SInvR hinv

/-- hence every dependency-respecting schedule of the generated kernel computes the outputs'
    denotations (`loopygen_sound_red_partial` + `checked_kernel_any_schedule`) -/
theorem loopygen_sound_red_partial_any_schedule (g : LGraph) (outputs : List (String × Nat))
    (inputNames : List String) (k : Kernel) (inp : String → Arr Val) (σ0 : Store)
    (hgen : generate g outputs inputNames = .ok k)
    (hsupp : ∀ o ∈ outputs, suppAllR g g.size o.2 = true)
    (hy : Hyp g inp σ0 inputNames)
    (hnd : (outputs.map (·.1)).Nodup) (hdisj : ∀ o ∈ outputs, o.1 ∉ inputNames)
    (halloc : Alloc σ0 k)
    (order : List KStmt) (hperm : order.Perm k) (hresp : respectsDeps order = true) :
    ∀ o ∈ outputs, StoredOK (execOrder σ0 order) o.1 (den g inp o.2) := by
  obtain ⟨hc, hr⟩ := loopygen_checks_red_partial g outputs inputNames k hgen hsupp
    (fun i name shape hn => (hy.inputs i name shape hn).1) hnd hdisj
  intro o ho
  exact (loopygen_sound_red_partial g outputs inputNames k inp σ0 hgen hsupp hy hnd hdisj halloc o ho).frame
    (checked_kernel_any_schedule k hc hr order hperm hresp σ0 o.1)

/-- the proved part of `LoopygenSound` (`PtProofs.C01GenChecks`), now with reductions: what is still
    excluded are reductions whose bounds are not integer constants (data-dependent bounds), Boolean
    constants and empty results -/
theorem loopygen_sound_fragmentR :
    LoopygenSound fun g outputs => ∀ o ∈ outputs, suppAllR g g.size o.2 = true := by
  intro g outputs inputNames k inp σ0 hgen hF hy hnd hdisj halloc
  exact ⟨(loopygen_checks_red_partial g outputs inputNames k hgen hF
      (fun i name shape hn => (hy.inputs i name shape hn).1) hnd hdisj).1,
    fun order hp hr => loopygen_sound_red_partial_any_schedule g outputs inputNames k inp σ0 hgen hF hy hnd hdisj
      halloc order hp hr⟩

example : checkKernel exRK = true ∧ respectsDeps exRK = true :=
  loopygen_checks_red_partial exRG [("out", 1)] ["x"] exRK exRGen
    (fun o ho => (fragment_check_soundR (g := exRG) (by decide)).2 o.2 (by
      simp only [List.mem_singleton] at ho; subst ho; decide))
    (fun i name shape hn => (exRHyp.inputs i name shape hn).1) (by decide) (by decide)

example : checkKernel exSK = true ∧ respectsDeps exSK = true :=
  loopygen_checks_red_partial exSG [("out", 1)] ["x"] exSK exSGen
    (fun o ho => (fragment_check_soundR (g := exSG) (by decide)).2 o.2 (by
      simp only [List.mem_singleton] at ho; subst ho; decide))
    (fun i name shape hn => (exSHyp.inputs i name shape hn).1) (by decide) (by decide)

end LG
end Pt
